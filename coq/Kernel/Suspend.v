(* MV.Kernel.Suspend — C04: the suspension of an actor's mailbox is lifted only by (i) a supervisor applying the
   Resume directive to that actor, (ii) the completion of its restart, or (iii) the start of its termination —
   and by nothing else, in every step from every well-formed state, for every role table.
   A Resume decision travels as a queued request (SResumeReq) that the actor applies itself, and only while it is
   alive: the statement therefore carries "no resume request is pending at an object with that address" (nrp) along
   with the suspension flag — a request becomes pending only in a step that shows the supervisor's Resume decision.
   Together with: a suspended mailbox pops no user message, and a user message is only ever handled by the step
   of the mailbox that has it in flight, this is the mechanism behind "the failing actor handles no further user
   message until its supervisor has decided". *)
From MV Require Import Lib.ListX Kernel.Model Kernel.Lifecycle Kernel.Status Kernel.Registry.
Open Scope Z_scope.

(* markers in the observations of a step: something that legitimately lifts the suspension of address t *)
Definition marker1 (t : ref) (o : obs) : bool :=
  match o with
  | ODec _ v DResume _ => v =? t
  | OH a _ TT _ _ => a =? t
  | OH a _ TTS _ _ => a =? t
  | _ => false
  end.
Definition marker (t : ref) (o : list obs) : bool := existsb (marker1 t) o.

Lemma marker_app t a b : marker t (a ++ b) = marker t a || marker t b.
Proof. apply existsb_app. Qed.

(* a supervisor's Resume decision travels as a queued request: is one pending at this object? *)
Definition is_rq (e : env smsg) : bool := match e_msg e with SResumeReq => true | _ => false end.
Definition rq_free (a : actor) : Prop :=
  forallb (fun e => negb (is_rq e)) (a_sysq a) = true /\
  match a_inflight a with Some (MS e) => is_rq e = false | _ => True end.
(* no resume request is pending at any object that carries address t *)
Definition nrp (t : ref) (s : kstate) : Prop := forall x ax, get s x = Some ax -> a_tok ax = t -> rq_free ax.

(* decidable form, for concrete states *)
Definition rq_freeb (a : actor) : bool :=
  forallb (fun e => negb (is_rq e)) (a_sysq a) && match a_inflight a with Some (MS e) => negb (is_rq e) | _ => true end.
Definition nrpb (t : ref) (s : kstate) : bool := forallb (fun a => negb (a_tok a =? t) || rq_freeb a) (actors s).
Lemma nrpb_sound t s : nrpb t s = true -> nrp t s.
Proof.
  intros H x ax Hx Tx. unfold nrpb in H. rewrite forallb_forall in H. specialize (H ax (nth_error_In _ _ Hx)).
  rewrite Tx, Z.eqb_refl in H. cbn [negb orb] in H. unfold rq_freeb in H. apply andb_true_iff in H. destruct H as [H1 H2].
  split; [exact H1|]. destruct (a_inflight ax) as [[e|e]|]; [apply negb_true_iff; exact H2|exact I|exact I].
Qed.

(* object u (address t) stays suspended, and no resume request for address t becomes pending *)
Definition keeps (u : nat) (t : ref) (s s' : kstate) : Prop :=
  (forall a, get s u = Some a -> a_tok a = t -> a_susp a = true ->
     exists a', get s' u = Some a' /\ a_tok a' = t /\ a_susp a' = true) /\
  (nrp t s -> nrp t s').
(* ... or the step shows a marker *)
Definition SQ (u : nat) (t : ref) (s s' : kstate) (o : list obs) : Prop := keeps u t s s' \/ marker t o = true.

Lemma rq_free_push a e : is_rq e = false -> rq_free a -> rq_free (w_sysq (a_sysq a ++ [e]) a).
Proof.
  intros He [Hq Hi]. split; [|exact Hi]. cbn [a_sysq w_sysq]. rewrite forallb_app, Hq. cbn [forallb]. rewrite He. reflexivity.
Qed.
Lemma rq_free_noinflight a : rq_free a -> rq_free (w_inflight None a).
Proof. intros [Hq _]. split; [exact Hq|exact I]. Qed.
Lemma pop1_rq a : rq_free a -> rq_free (pop1 a).
Proof.
  intros [Hq Hi]. unfold pop1. destruct (a_inflight a) as [m|] eqn:Em; [split; [exact Hq|rewrite Em; exact Hi]|].
  destruct (a_sysq a) as [|e rest] eqn:Es.
  - destruct (a_susp a); [split; [rewrite Es; reflexivity|rewrite Em; exact I]|].
    destruct (a_userq a); [split; [rewrite Es; reflexivity|rewrite Em; exact I]|].
    split; [cbn [a_sysq w_inflight w_userq]; rewrite Es; reflexivity|exact I].
  - cbn [forallb] in Hq. apply andb_true_iff in Hq. destruct Hq as [He Hr].
    split; [exact Hr|]. cbn [a_inflight w_inflight]. apply negb_true_iff. exact He.
Qed.

Section S.
Variable roles : list role.
Variable u : nat.
Variable t : ref.

Lemma keeps_refl s : keeps u t s s.
Proof. split; [intros a H1 H2 H3; exists a; auto|auto]. Qed.
Lemma keeps_trans s1 s2 s3 : keeps u t s1 s2 -> keeps u t s2 s3 -> keeps u t s1 s3.
Proof.
  intros [K1 N1] [K2 N2]. split; [|auto]. intros a H1 H2 H3. destruct (K1 a H1 H2 H3) as (a2 & G2 & T2 & S2). exact (K2 a2 G2 T2 S2).
Qed.
Lemma SQ_of_keeps s s' o : keeps u t s s' -> SQ u t s s' o.
Proof. intros K. left. exact K. Qed.
Lemma SQ_trans s1 s2 s3 o1 o2 : SQ u t s1 s2 o1 -> SQ u t s2 s3 o2 -> SQ u t s1 s3 (o1 ++ o2).
Proof.
  intros [K1|M1] [K2|M2]; unfold SQ; rewrite marker_app.
  - left. eapply keeps_trans; eassumption.
  - right. rewrite M2. apply orb_true_r.
  - right. rewrite M1. reflexivity.
  - right. rewrite M1. reflexivity.
Qed.
Lemma SQ_cons s s' x o : SQ u t s s' o -> SQ u t s s' (x :: o).
Proof. intros [K|M]; [left; exact K|right]. cbn [marker existsb]. unfold marker in M. rewrite M. apply orb_true_r. Qed.
Lemma SQ_marker s s' o : marker t o = true -> SQ u t s s' o.
Proof. intros M. right. exact M. Qed.

Lemma keeps_same_actors s s' : actors s' = actors s -> keeps u t s s'.
Proof.
  intros E. split.
  - intros a H1 H2 H3. exists a. unfold get in *. rewrite E. auto.
  - intros N x ax Hx. apply (N x ax). unfold get in *. rewrite <- E. exact Hx.
Qed.

Lemma keeps_put s w a0 b : get s w = Some a0 -> a_tok b = a_tok a0 -> (a_susp a0 = true -> a_susp b = true) ->
  (a_tok a0 = t -> rq_free a0 -> rq_free b) -> keeps u t s (put s w b).
Proof.
  intros Hw Ht Hs Hq. split.
  - intros a H1 H2 H3. destruct (Nat.eq_dec w u) as [->|Hne].
    + rewrite Hw in H1. inversion H1; subst. exists b. split; [eapply get_put_same; exact Hw|]. split; [congruence|auto].
    + exists a. split; [rewrite get_put_other by assumption; exact H1|auto].
  - intros N x ax Hx Tx. destruct (Nat.eq_dec w x) as [->|Hne].
    + rewrite (get_put_same s x b a0 Hw) in Hx. inversion Hx; subst ax. apply Hq; [congruence|apply (N x a0 Hw); congruence].
    + rewrite get_put_other in Hx by assumption. exact (N x ax Hx Tx).
Qed.
Lemma keeps_upd_actor s w f : (forall a, a_tok (f a) = a_tok a /\ (a_susp a = true -> a_susp (f a) = true) /\ (rq_free a -> rq_free (f a))) -> keeps u t s (upd_actor s w f).
Proof.
  intros Hf. unfold upd_actor. destruct (get s w) as [a0|] eqn:E; [|apply keeps_refl].
  destruct (Hf a0) as (H1 & H2 & H3). eapply keeps_put; eauto.
Qed.
(* an update of an object that does not carry address t *)
Lemma keeps_upd_other s w f aw : get s w = Some aw -> a_tok aw <> t -> (forall a, a_tok (f a) = a_tok a) -> keeps u t s (upd_actor s w f).
Proof.
  intros Hw Hne Hf. unfold upd_actor. rewrite Hw. split.
  - intros a H1 H2 H3. destruct (Nat.eq_dec w u) as [->|Hn].
    + rewrite Hw in H1. inversion H1; subst. contradiction.
    + exists a. split; [rewrite get_put_other by assumption; exact H1|auto].
  - intros N x ax Hx Tx. destruct (Nat.eq_dec w x) as [->|Hn].
    + rewrite (get_put_same s x (f aw) aw Hw) in Hx. inversion Hx; subst ax. rewrite Hf in Tx. contradiction.
    + rewrite get_put_other in Hx by assumption. exact (N x ax Hx Tx).
Qed.
Ltac ks := intros; split; [reflexivity|split; [auto|first [intros Hq; exact Hq|apply rq_free_noinflight]]].

(* a system message other than Resume never lifts a suspension; other than a resume request, it leaves none pending *)
Lemma keeps_push_sys s w e : e_msg e <> SResume -> e_msg e <> SResumeReq -> keeps u t s (push_sys s w e).
Proof.
  intros Hne Hnq. unfold push_sys. apply keeps_upd_actor. intros a.
  assert (Hr : is_rq e = false) by (unfold is_rq; destruct (e_msg e); try reflexivity; congruence).
  destruct (e_msg e); try congruence; (split; [reflexivity|split; [auto|]]);
    first [intros Hq; exact Hq|apply rq_free_push; exact Hr].
Qed.

(* anything delivered to ANOTHER address does not touch the objects of address t (registry well-formedness) *)
Lemma keeps_deliver_sys_other s t' snd m : RI s -> ((m <> SResume /\ m <> SResumeReq) \/ t' <> t) -> keeps u t s (deliver_sys s t' snd m).
Proof.
  intros HR Hor. unfold deliver_sys. destruct (lookup t' (registry s)) as [w|] eqn:El.
  - destruct Hor as [[Hm Hq]|Ht]; [apply keeps_push_sys; assumption|].
    destruct (HR t' w El) as (aw & Haw & Htw). unfold push_sys.
    eapply keeps_upd_other; [exact Haw|congruence|]. intros a. destruct (e_msg (mk_env snd t' m)); reflexivity.
  - destruct m; try apply keeps_refl. destruct (lookup snd (registry s)); [apply keeps_push_sys; cbn; discriminate|apply keeps_refl].
Qed.
Lemma keeps_deliver_sys s t' snd m : m <> SResume -> m <> SResumeReq -> keeps u t s (deliver_sys s t' snd m).
Proof.
  intros Hm Hq. unfold deliver_sys. destruct (lookup t' (registry s)); [apply keeps_push_sys; assumption|].
  destruct m; try apply keeps_refl. destruct (lookup snd (registry s)); [apply keeps_push_sys; cbn; discriminate|apply keeps_refl].
Qed.

Lemma keeps_to_sub s : keeps u t s (to_sub s).
Proof. unfold to_sub. destruct (lookup rSub (registry s)); [apply keeps_upd_actor; ks|apply keeps_refl]. Qed.
Lemma keeps_abyss_user s snd rcv m s' o : abyss_user s snd rcv m = (s', o) -> keeps u t s s'.
Proof.
  unfold abyss_user. destruct m; intros H; inversion H; subst; try apply keeps_refl;
    destruct (rcv =? rSub); try apply keeps_refl; apply keeps_to_sub.
Qed.
Lemma keeps_deliver_user s t' snd m s' o : deliver_user s t' snd m = (s', o) -> keeps u t s s'.
Proof.
  unfold deliver_user. destruct (lookup t' (registry s)) as [w|]; [|apply keeps_abyss_user].
  destruct (get s w) as [a|] eqn:E; [|apply keeps_abyss_user].
  intros H; inversion H; subst. eapply keeps_put; [exact E|reflexivity|auto|intros _ Hq; exact Hq].
Qed.
Lemma keeps_terminate s self t' g s' o : terminate s self t' g = (s', o) -> keeps u t s s'.
Proof.
  unfold terminate. destruct g; [apply keeps_deliver_user|]. intros H; inversion H; subst. apply keeps_deliver_sys; discriminate.
Qed.
Lemma keeps_terminate_all cs : forall s self g s' o, terminate_all s self cs g = (s', o) -> keeps u t s s'.
Proof.
  induction cs as [|c rest IH]; intros s self g s' o; cbn [terminate_all].
  - intros H; inversion H; subst. apply keeps_refl.
  - destruct (terminate s self c g) as [s1 o1] eqn:E1. destruct (terminate_all s1 self rest g) as [s2 o2] eqn:E2.
    intros H; inversion H; subst. eapply keeps_trans; [eapply keeps_terminate; exact E1|eapply IH; exact E2].
Qed.
Lemma keeps_notify_all ws : forall s self, keeps u t s (notify_all s self ws).
Proof.
  induction ws as [|w rest IH]; intros s self; cbn [notify_all]; [apply keeps_refl|].
  eapply keeps_trans; [|apply IH]. apply keeps_deliver_sys; discriminate.
Qed.
Lemma keeps_restart_all cs : forall s self, keeps u t s (restart_all s self cs).
Proof.
  induction cs as [|c rest IH]; intros s self; cbn [restart_all]; [apply keeps_refl|].
  eapply keeps_trans; [|apply IH]. apply keeps_deliver_sys; discriminate.
Qed.
Lemma keeps_append s x : rq_free x -> keeps u t s (set_actors s (actors s ++ [x])).
Proof.
  intros Hx. split.
  - intros a H1 H2 H3. exists a. split; [|auto]. unfold get, set_actors in *; cbn [actors].
    rewrite nth_error_app1; [exact H1|]. apply nth_error_Some. congruence.
  - intros N y ay Hy Ty. unfold get, set_actors in Hy; cbn [actors] in Hy.
    destruct (Nat.lt_ge_cases y (length (actors s))) as [Hlt|Hge].
    + rewrite nth_error_app1 in Hy by exact Hlt. exact (N y ay Hy Ty).
    + rewrite nth_error_app2 in Hy by exact Hge. destruct (y - length (actors s))%nat as [|k]; cbn in Hy; [|destruct k; discriminate].
      inversion Hy; subst ay. exact Hx.
Qed.
Lemma rq_free_new tok parent r inst : rq_free (new_actor tok parent r inst).
Proof. split; [reflexivity|exact I]. Qed.
Lemma rq_free_new_t tok parent r inst : rq_free (w_st Terminated (new_actor tok parent r inst)).
Proof. split; [reflexivity|exact I]. Qed.
Lemma keeps_stop s w self t' s' o p : stop_if_parent_gone s w self t' = (s', o, p) -> keeps u t s s'.
Proof.
  unfold stop_if_parent_gone. destruct (get s w) as [pa|]; [|intros H; inversion H; subst; apply keeps_refl].
  destruct (not_alive (a_st pa)); [|intros H; inversion H; subst; apply keeps_refl].
  destruct (terminate s self t' (a_graceful pa)) as [s1 o1] eqn:E. intros H; inversion H; subst. eapply keeps_terminate; exact E.
Qed.
Lemma keeps_spawn s w self t' r s' o p : spawn s w self t' r = (s', o, p) -> keeps u t s s'.
Proof.
  unfold spawn. destruct (provide s t') as [s1 inst] eqn:Ep.
  assert (K1 : keeps u t s s1) by (apply keeps_same_actors; unfold provide in Ep; inversion Ep; subst; reflexivity).
  set (s2 := set_actors s1 (actors s1 ++ [new_actor t' self r inst])).
  assert (K2 : keeps u t s s2) by (eapply keeps_trans; [exact K1|apply keeps_append, rq_free_new]).
  change (registry s2) with (registry s1) in *. destruct (lookup t' (registry s1)).
  - intros H; inversion H; subst. eapply keeps_trans; [exact K1|apply keeps_append, rq_free_new_t].
  - intros H. eapply keeps_trans; [|eapply keeps_stop; exact H]. eapply keeps_trans; [exact K2|].
    eapply keeps_trans; [|apply keeps_deliver_sys; discriminate]. eapply keeps_trans; [|apply keeps_upd_actor; ks].
    apply keeps_same_actors. reflexivity.
Qed.
Lemma keeps_escalate s w r s' o p : escalate s w r = (s', o, p) -> keeps u t s s'.
Proof.
  unfold escalate. destruct (get s w) as [a|]; [|intros H; inversion H; subst; apply keeps_refl].
  destruct (a_parent a =? rNone); intros H; inversion H; subst.
  - apply keeps_same_actors. reflexivity.
  - apply keeps_deliver_sys; discriminate.
Qed.
Lemma keeps_report_abnormal s w s' o p : report_abnormal roles s w = (s', o, p) -> keeps u t s s'.
Proof.
  unfold report_abnormal. destruct (get s w) as [a|]; [|intros H; inversion H; subst; apply keeps_refl].
  destruct (a_st a); try (intros H; inversion H; subst; apply keeps_refl).
  intros H. apply keeps_escalate in H. eapply keeps_trans; [|exact H].
  eapply keeps_trans; [|apply keeps_deliver_sys; discriminate]. apply keeps_upd_actor; ks.
Qed.
Lemma keeps_send_each ts : forall s self n k s' o, send_each s self ts n k = (s', o) -> keeps u t s s'.
Proof.
  induction ts as [|t' rest IH]; intros s self n k s' o; cbn [send_each].
  - intros H; inversion H; subst. apply keeps_refl.
  - destruct (deliver_user s t' self (UProbe n k)) as [s1 o1] eqn:E1.
    destruct (send_each s1 self rest n k) as [s2 o2] eqn:E2. intros H; inversion H; subst.
    eapply keeps_trans; [eapply keeps_deliver_user; exact E1|eapply IH; exact E2].
Qed.
Lemma keeps_do_action s w snd act s' o p : do_action roles s w snd act = (s', o, p) -> keeps u t s s'.
Proof.
  unfold do_action. destruct (get s w) as [a|]; [|intros H; inversion H; subst; apply keeps_refl].
  assert (NS : forall s1 k, next_serial s = (s1, k) -> keeps u t s s1).
  { intros s1 k En. apply keeps_same_actors. unfold next_serial in En. inversion En; subst. reflexivity. }
  destruct act.
  - destruct (next_serial s) as [s1 k] eqn:En. destruct (deliver_user s1 t0 rNone (UProbe n k)) as [s2 o2] eqn:E.
    intros H; inversion H; subst. eapply keeps_trans; [eapply NS; reflexivity|eapply keeps_deliver_user; exact E].
  - destruct (next_serial s) as [s1 k] eqn:En. destruct (deliver_user s1 t0 (a_tok a) (UProbe n k)) as [s2 o2] eqn:E.
    intros H; inversion H; subst. eapply keeps_trans; [eapply NS; reflexivity|eapply keeps_deliver_user; exact E].
  - destruct (next_serial s) as [s1 k] eqn:En. destruct (deliver_user s1 snd (a_tok a) (UProbe n k)) as [s2 o2] eqn:E.
    intros H; inversion H; subst. eapply keeps_trans; [eapply NS; reflexivity|eapply keeps_deliver_user; exact E].
  - destruct (next_serial s) as [s1 k] eqn:En. destruct (send_each s1 (a_tok a) (a_children a) n k) as [s2 o2] eqn:E.
    intros H; inversion H; subst. eapply keeps_trans; [eapply NS; reflexivity|eapply keeps_send_each; exact E].
  - destruct (spawn s w (a_tok a) t0 r) as [[s1 o1] p1] eqn:E. intros H; inversion H; subst. eapply keeps_spawn; exact E.
  - destruct (terminate s (a_tok a) t0 g) as [s1 o1] eqn:E. intros H; inversion H; subst. eapply keeps_terminate; exact E.
  - intros H; inversion H; subst. apply keeps_deliver_sys; discriminate.
  - intros H; inversion H; subst. apply keeps_deliver_sys; discriminate.
  - destruct (report_abnormal roles s w) as [[s1 o1] p1] eqn:E. intros H; inversion H; subst. eapply keeps_report_abnormal; exact E.
  - intros H; inversion H; subst. apply keeps_refl.
Qed.
Lemma keeps_do_actions acts : forall s w snd s' o p, do_actions roles s w snd acts = (s', o, p) -> keeps u t s s'.
Proof.
  induction acts as [|act rest IH]; intros s w snd s' o p; cbn [do_actions].
  - intros H; inversion H; subst. apply keeps_refl.
  - apply (bind_rel (keeps u t)); [apply keeps_trans| |].
    + intros s1 o1 p1 E. eapply keeps_do_action; exact E.
    + intros s1 s2 o2 p2 E. eapply IH; exact E.
Qed.
Lemma keeps_handle_q q s w tr k snd s' o p : handle_q roles q s w tr k snd = (s', o, p) -> keeps u t s s'.
Proof.
  unfold handle_q. destruct (get s w) as [a|]; [|intros H; inversion H; subst; apply keeps_refl].
  destruct q; [intros H; inversion H; subst; apply keeps_refl|].
  destruct (do_actions roles s w snd (find_rule (rules (role_of roles a)) tr (a_inst a))) as [[s1 o1] p1] eqn:E.
  intros H; inversion H; subst. eapply keeps_do_actions; exact E.
Qed.
Lemma keeps_handle s w tr k snd s' o p : handle roles s w tr k snd = (s', o, p) -> keeps u t s s'.
Proof. unfold handle. destruct (get s w); [apply keeps_handle_q|intros H; inversion H; subst; apply keeps_refl]. Qed.

(* the Handled observation of a non-system actor is the first observation of its handler call *)
Lemma handle_emits s w a tr k snd s' o p :
  get s w = Some a -> is_sys (a_tok a) = false -> handle roles s w tr k snd = (s', o, p) ->
  exists o', o = OH (a_tok a) (a_inst a) tr k (match tr with TP _ => snd | _ => rNone end) :: o'.
Proof.
  intros Hg Hs. unfold handle, handle_q. rewrite Hg, Hs.
  destruct (do_actions roles s w snd (find_rule (rules (role_of roles a)) tr (a_inst a))) as [[s1 o1] p1].
  intros H; inversion H; subst. eauto.
Qed.

Lemma keeps_try_terminated s w snd s' o p : try_terminated roles s w snd = (s', o, p) -> keeps u t s s'.
Proof.
  unfold try_terminated. destruct (get s w) as [a|]; [|intros H; inversion H; subst; apply keeps_refl].
  destruct (a_children a); [|intros H; inversion H; subst; apply keeps_refl].
  destruct (a_st a); try (intros H; inversion H; subst; apply keeps_refl).
  apply (bind_rel (keeps u t)); [apply keeps_trans| |].
  - intros s1 o1 p1 E. eapply keeps_trans; [|eapply keeps_handle; exact E]. apply keeps_upd_actor; ks.
  - intros s1 s2 o2 p2.
    set (sr := set_registry s1 (remove_key (a_tok a) (registry s1))).
    set (sn := notify_all sr (a_tok a) (filter (fun w0 => negb (w0 =? a_parent a)) (a_watchers a))).
    assert (Kn : keeps u t s1 sn).
    { apply keeps_trans with (s2 := sr); [apply keeps_same_actors; reflexivity|apply keeps_notify_all]. }
    destruct (a_parent a =? rNone); intros H; inversion H; subst.
    + eapply keeps_trans; [exact Kn|apply keeps_same_actors; reflexivity].
    + eapply keeps_trans; [exact Kn|]. apply keeps_deliver_sys; discriminate.
Qed.

Hypothesis t_not_sys : is_sys t = false.

Lemma bind_SQ s (r : R) f s3 o3 p3 :
  (forall s1 o1 p1, r = (s1, o1, p1) -> SQ u t s s1 o1 /\ RI s1) ->
  (forall s1 s2 o2 p2, RI s1 -> f s1 = (s2, o2, p2) -> SQ u t s1 s2 o2) ->
  r >>= f = (s3, o3, p3) -> SQ u t s s3 o3.
Proof.
  intros H1 H2. destruct r as [[s1 o1] p1]. destruct (H1 s1 o1 p1 eq_refl) as [Q1 R1]. unfold bind. destruct p1.
  - intros H; inversion H; subst. exact Q1.
  - destruct (f s1) as [[s2 o2] p2] eqn:E. intros H; inversion H; subst. eapply SQ_trans; [exact Q1|eapply H2; [exact R1|exact E]].
Qed.

Lemma handle_SQ_RI s w tr k snd s' o p : RI s -> handle roles s w tr k snd = (s', o, p) -> SQ u t s s' o /\ RI s'.
Proof.
  intros HR H. split; [apply SQ_of_keeps; eapply keeps_handle; exact H|].
  eapply RI_ext; [exact HR|eapply ext_handle; exact H].
Qed.

Lemma marker_head x o : marker1 t x = true -> marker t (x :: o) = true.
Proof. intros H. cbn [marker existsb]. rewrite H. reflexivity. Qed.

(* status change of w from a non-Terminated status, as an extension *)
Lemma RI_upd_status s w x a0 : RI s -> get s w = Some a0 -> a_st a0 <> Terminated -> RI (upd_actor s w (w_st x)).
Proof. intros HR Hg Hn. eapply RI_ext; [exact HR|eapply ext_upd_status; eassumption]. Qed.

Lemma keeps_start_instance s w self parent s' o p : start_instance roles s w self parent = (s', o, p) -> keeps u t s s'.
Proof.
  unfold start_instance. destruct (handle roles s w TRD 0%nat self) as [[s1 o1] p1] eqn:E1.
  destruct (handle roles s1 w TL 0%nat parent) as [[s2 o2] p2] eqn:E2. intros H; inversion H; subst.
  eapply keeps_trans; [eapply keeps_handle; exact E1|]. eapply keeps_trans; [eapply keeps_handle; exact E2|].
  destruct p2; [apply keeps_refl|apply keeps_upd_actor; ks].
Qed.

Lemma SQ_try_restarted s w snd s' o p : RI s -> try_restarted roles s w snd = (s', o, p) -> SQ u t s s' o.
Proof.
  intros HR. unfold try_restarted. destruct (get s w) as [a|] eqn:Ea; [|intros H; inversion H; subst; apply SQ_of_keeps, keeps_refl].
  destruct (a_children a); [|intros H; inversion H; subst; apply SQ_of_keeps, keeps_refl].
  destruct (a_st a) eqn:Est; try (intros H; inversion H; subst; apply SQ_of_keeps, keeps_refl).
  intros H.
  destruct (provide s (a_tok a)) as [s0 inst] eqn:Ep.
  assert (A0 : actors s0 = actors s) by (unfold provide in Ep; inversion Ep; subst; reflexivity).
  assert (R0 : registry s0 = registry s) by (unfold provide in Ep; inversion Ep; subst; reflexivity).
  assert (Ea0 : get s0 w = Some a) by (unfold get in *; rewrite A0; exact Ea).
  assert (K0 : keeps u t s s0) by (apply keeps_same_actors; exact A0).
  destruct (handle roles s0 w TT 0 snd) as [[s1 o1] p1] eqn:E1. unfold bind in H. destruct p1.
  - inversion H; subst. apply SQ_of_keeps. eapply keeps_trans; [exact K0|eapply keeps_handle; exact E1].
  - destruct (handle roles s1 w TTS 0 snd) as [[s2 o2] p2] eqn:E2.
    assert (K12 : keeps u t s s2) by (eapply keeps_trans; [exact K0|]; eapply keeps_trans; [eapply keeps_handle; exact E1|eapply keeps_handle; exact E2]).
    destruct p2; [inversion H; subst; apply SQ_of_keeps; exact K12|].
    destruct (keep_handle roles _ _ _ _ _ _ _ _ E1 w a Ea0) as (a1 & Ha1 & S1 & (I1 & _)).
    destruct (keep_handle roles _ _ _ _ _ _ _ _ E2 w a1 Ha1) as (a2 & Ha2 & S2 & (I2 & _)).
    destruct (a_tok a =? t) eqn:Heqb.
    + (* the restarting object carries address t: its own OnTerminated is the marker *)
      assert (Hs1 : is_sys (a_tok a1) = false) by (rewrite I1; apply Z.eqb_eq in Heqb; rewrite Heqb; exact t_not_sys).
      destruct (handle_emits s1 w a1 TTS 0 snd s2 o2 false Ha1 Hs1 E2) as (o2' & ->).
      match type of H with context [start_instance ?r ?x ?y ?z ?w0] => destruct (start_instance r x y z w0) as [[s9 o9] p9] eqn:E9 end.
      inversion H; subst s' o p. apply SQ_marker.
      rewrite marker_app. apply orb_true_iff. right. apply marker_head. cbn [marker1]. rewrite I1. exact Heqb.
    + assert (Hne : a_tok a <> t) by (apply Z.eqb_neq; exact Heqb).
      match type of H with context [start_instance ?r ?x ?y ?z ?w0] => destruct (start_instance r x y z w0) as [[s9 o9] p9] eqn:E9 end.
      inversion H; subst s' o p. apply SQ_of_keeps.
      assert (X2 : ext s s2).
      { eapply ext_trans; [apply ext_of_keep; [apply keep_same_actors; exact A0|exact R0]|].
        eapply ext_trans; [eapply ext_handle; exact E1|eapply ext_handle; exact E2]. }
      assert (RI3 : RI s2) by (eapply RI_ext; [exact HR|exact X2]).
      set (s4 := upd_actor s2 w (fun b => w_st Alive (w_inst inst b))).
      assert (R4 : RI s4).
      { (* the update changes status and instance number only: tokens and registry stay *)
        intros t' u' Hl. unfold s4 in *. rewrite regsame_upd_actor in Hl. destruct (RI3 t' u' Hl) as (b & Hb & Htb).
        unfold upd_actor. rewrite Ha2. destruct (Nat.eq_dec w u') as [->|Hn].
        - rewrite Ha2 in Hb. inversion Hb; subst. eexists. split; [eapply get_put_same; exact Ha2|reflexivity].
        - exists b. split; [rewrite get_put_other by assumption; exact Hb|exact Htb]. }
      assert (K4 : keeps u t s s4).
      { eapply keeps_trans; [exact K12|]. unfold s4. apply keeps_upd_actor; ks. }
      assert (K5 : keeps u t s4 (deliver_sys s4 (a_tok a) (a_tok a) SResume)).
      { apply keeps_deliver_sys_other; [exact R4|right; exact Hne]. }
      eapply keeps_trans; [exact K4|]. eapply keeps_trans; [exact K5|]. eapply keeps_start_instance; exact E9.
Qed.

Lemma SQ_apply_directive s w r d snd s' o p : RI s -> apply_directive roles s w r d snd = (s', o, p) -> SQ u t s s' o.
Proof.
  intros HR. unfold apply_directive. destruct (get s w) as [a|]; [|intros H; inversion H; subst; apply SQ_of_keeps, keeps_refl].
  destruct d.
  - intros H; inversion H; subst. apply SQ_of_keeps. apply keeps_deliver_sys; discriminate.
  - destruct (terminate s (a_tok a) (ar_vref r) false) as [s1 o1] eqn:E1.
    destruct (try_terminated roles s1 w snd) as [[s2 o2] p2] eqn:E2. intros H; inversion H; subst. apply SQ_of_keeps.
    eapply keeps_trans; [eapply keeps_terminate; exact E1|eapply keeps_try_terminated; exact E2].
  - intros H; inversion H; subst s' o p. destruct (ar_vref r =? t) eqn:Heqb.
    + apply SQ_marker. apply marker_head. cbn [marker1]. exact Heqb.
    + apply SQ_of_keeps. apply keeps_deliver_sys_other; [exact HR|right; apply Z.eqb_neq; exact Heqb].
  - destruct (escalate s w r) as [[s1 o1] p1] eqn:E. intros H; inversion H; subst. apply SQ_of_keeps. eapply keeps_escalate; exact E.
  - intros H; inversion H; subst. apply SQ_of_keeps. apply keeps_restart_all.
Qed.

Lemma SQ_on_accident s w r snd s' o p : RI s -> on_accident roles s w r snd = (s', o, p) -> SQ u t s s' o.
Proof.
  intros HR. unfold on_accident. destruct (get s w) as [a|]; [|intros H; inversion H; subst; apply SQ_of_keeps, keeps_refl].
  destruct (ar_strategy r); [apply SQ_apply_directive; exact HR|].
  destruct (sup (role_of roles a)); [|apply SQ_apply_directive; exact HR].
  intros H. apply SQ_of_keeps. eapply keeps_escalate; exact H.
Qed.

Lemma SQ_process_sys s w e s' o p : RI s -> (forall a, get s w = Some a -> a_tok a = t -> is_rq e = false) ->
  process_sys roles s w e = (s', o, p) -> SQ u t s s' o.
Proof.
  intros HR Hrq. unfold process_sys. destruct (get s w) as [a|] eqn:Ea; [|intros H; inversion H; subst; apply SQ_of_keeps, keeps_refl].
  match goal with |- context [if ?d then _ else _] => destruct d end; [intros H; inversion H; subst; apply SQ_of_keeps, keeps_refl|].
  destruct (e_msg e) eqn:Em.
  - (* SLaunch *) apply bind_SQ.
    + intros s1 o1 p1 E. eapply handle_SQ_RI; [exact HR|exact E].
    + intros s1 s2 o2 p2 _ H; inversion H; subst. apply SQ_of_keeps. apply keeps_upd_actor; ks.
  - intros H. apply SQ_of_keeps. eapply keeps_handle; exact H.
  - (* STerminate *)
    assert (HT : a_st a <> Terminated ->
      (handle roles (deliver_sys (upd_actor s w (w_st Terminating)) (a_tok a) (a_tok a) SResume) w TT 0 (e_snd e) >>= (fun s3 =>
         match get s3 w with
         | None => ok s3 []
         | Some a3 =>
             let '(s4, o4) := terminate_all s3 (a_tok a3) (a_children a3) (g || a_graceful a3) in
             let '(s5, o5, p) := try_terminated roles s4 w (e_snd e) in (s5, o4 ++ o5, p)
         end)) = (s', o, p) -> SQ u t s s' o).
    { intros Hst H.
      set (s1 := upd_actor s w (w_st Terminating)) in *.
      set (s2 := deliver_sys s1 (a_tok a) (a_tok a) SResume) in *.
      assert (R1 : RI s1) by (eapply RI_upd_status; eassumption).
      assert (R2 : RI s2) by (eapply RI_ext; [exact R1|apply ext_of_keep; [apply keep_deliver_sys|apply regsame_deliver_sys]]).
      assert (G1 : get s1 w = Some (w_st Terminating a)) by (apply get_upd_actor_same; exact Ea).
      destruct (keep_deliver_sys s1 (a_tok a) (a_tok a) SResume w _ G1) as (a2 & Ha2 & _ & (I2 & _)). fold s2 in Ha2.
      cbn [a_tok w_st] in I2.
      destruct (handle roles s2 w TT 0 (e_snd e)) as [[s3 o3] p3] eqn:E3.
      destruct (a_tok a =? t) eqn:Heqb.
      - (* the marker: this object's OnTerminate *)
        assert (Hs2 : is_sys (a_tok a2) = false) by (rewrite I2; apply Z.eqb_eq in Heqb; rewrite Heqb; exact t_not_sys).
        destruct (handle_emits s2 w a2 TT 0 (e_snd e) s3 o3 p3 Ha2 Hs2 E3) as (o3' & ->).
        apply SQ_marker.
        assert (Hm : marker1 t (OH (a_tok a2) (a_inst a2) TT 0%nat rNone) = true) by (cbn [marker1]; rewrite I2; exact Heqb).
        unfold bind in H. destruct p3.
        + inversion H; subst s' o p. apply marker_head. exact Hm.
        + destruct (match get s3 w with Some a3 => _ | None => _ end) as [[sx ox] px] in H. inversion H; subst s' o p.
          cbn [app]. apply marker_head. exact Hm.
      - assert (Hne : a_tok a <> t) by (apply Z.eqb_neq; exact Heqb).
        assert (K2 : keeps u t s s2).
        { apply keeps_trans with (s2 := s1); [unfold s1; apply keeps_upd_actor; ks|]. unfold s2. apply keeps_deliver_sys_other; [exact R1|right; exact Hne]. }
        revert H. intros H. eapply SQ_trans with (o1 := []) (s2 := s2); [apply SQ_of_keeps; exact K2|].
        revert H. apply bind_SQ.
        + intros sa oa pa E. inversion E; subst sa oa pa. eapply handle_SQ_RI; [exact R2|exact E3].
        + intros sa sb ob pb _. destruct (get sa w) as [a3|]; [|intros H; inversion H; subst; apply SQ_of_keeps, keeps_refl].
          destruct (terminate_all sa (a_tok a3) (a_children a3) (g || a_graceful a3)) as [s4 o4] eqn:E4.
          destruct (try_terminated roles s4 w (e_snd e)) as [[s5 o5] p5] eqn:E5. intros H; inversion H; subst.
          apply SQ_of_keeps. eapply keeps_trans; [eapply keeps_terminate_all; exact E4|eapply keeps_try_terminated; exact E5]. }
    destruct (a_st a) eqn:Est; try (intros H; inversion H; subst; apply SQ_of_keeps, keeps_refl); apply HT; congruence.
  - (* STerminatedOf *) apply bind_SQ.
    + intros s1 o1 p1 E.
      assert (R0 : RI (drop_child s w who)).
      { eapply RI_ext; [exact HR|apply ext_of_keep; [apply keep_drop_child|apply regsame_drop_child]]. }
      destruct (handle_SQ_RI _ _ _ _ _ _ _ _ R0 E) as [Q R']. split; [|exact R'].
      apply SQ_trans with (o1 := []) (s2 := drop_child s w who); [apply SQ_of_keeps; unfold drop_child; destruct (lookup who (registry s)); [apply keeps_refl|apply keeps_upd_actor; ks]|exact Q].
    + intros s1 s2 o2 p2 R1. destruct (get s1 w) as [a2|]; [|intros H; inversion H; subst; apply SQ_of_keeps, keeps_refl].
      destruct (a_st a2); try (intros H; inversion H; subst; apply SQ_of_keeps, keeps_refl).
      * apply SQ_try_restarted; exact R1.
      * intros H. apply SQ_of_keeps. eapply keeps_try_terminated; exact H.
  - (* SRestart *) destruct (a_st a) eqn:Est; try (intros H; inversion H; subst; apply SQ_of_keeps, keeps_refl).
    set (s0 := upd_actor s w (w_st Restarting)). set (s1 := deliver_sys s0 (a_tok a) (a_tok a) SSuspend).
    assert (R0 : RI s0) by (eapply RI_upd_status; [exact HR|exact Ea|congruence]).
    assert (R1 : RI s1) by (eapply RI_ext; [exact R0|apply ext_of_keep; [apply keep_deliver_sys|apply regsame_deliver_sys]]).
    assert (K1 : keeps u t s s1).
    { apply keeps_trans with (s2 := s0); [unfold s0; apply keeps_upd_actor; ks|]. unfold s1. apply keeps_deliver_sys; discriminate. }
    intros H. eapply SQ_trans with (o1 := []) (s2 := s1); [apply SQ_of_keeps; exact K1|]. revert H. apply bind_SQ.
    + intros sa oa pa E. eapply handle_SQ_RI; [exact R1|exact E].
    + intros sa sb ob pb Ra. destruct (get sa w) as [a2|]; [|intros H; inversion H; subst; apply SQ_of_keeps, keeps_refl].
      destruct (terminate_all sa (a_tok a2) (a_children a2) false) as [s3 o3] eqn:E3.
      destruct (try_restarted roles s3 w (e_snd e)) as [[s4 o4] p4] eqn:E4. intros H; inversion H; subst.
      eapply SQ_trans; [apply SQ_of_keeps; eapply keeps_terminate_all; exact E3|].
      apply SQ_try_restarted in E4; [exact E4|].
      eapply RI_ext; [exact Ra|apply ext_of_keep; [eapply keep_terminate_all; exact E3|eapply regsame_terminate_all; exact E3]].
  - apply SQ_on_accident; exact HR.
  - (* SWatch *) destruct (e_snd e =? a_parent a); [intros H; inversion H; subst; apply SQ_of_keeps, keeps_refl|].
    destruct (st_ge_terminating (a_st a)); intros H; inversion H; subst; apply SQ_of_keeps.
    + apply keeps_deliver_sys; discriminate.
    + apply keeps_upd_actor; ks.
  - intros H; inversion H; subst. apply SQ_of_keeps. apply keeps_upd_actor; ks.
  - intros H; inversion H; subst. apply SQ_of_keeps, keeps_refl.
  - intros H; inversion H; subst. apply SQ_of_keeps, keeps_refl.
  - (* SResumeReq: applied by a living actor to itself; by hypothesis not an object of address t *)
    destruct (a_st a); intros H; inversion H; subst; apply SQ_of_keeps; try apply keeps_refl.
    apply keeps_deliver_sys_other; [exact HR|right]. intros Ht. specialize (Hrq a eq_refl Ht). unfold is_rq in Hrq. rewrite Em in Hrq. discriminate.
Qed.

Lemma keeps_process_user s w e s' o p : process_user roles s w e = (s', o, p) -> keeps u t s s'.
Proof.
  unfold process_user. destruct (get s w) as [a|]; [|intros H; inversion H; subst; apply keeps_refl].
  destruct (st_ge_terminating (a_st a)).
  - destruct (abyss_user s (e_snd e) (e_rcv e) (e_msg e)) as [s1 o1] eqn:E. intros H; inversion H; subst. eapply keeps_abyss_user; exact E.
  - destruct (e_msg e).
    + apply keeps_handle_q.
    + intros H; inversion H; subst. eapply keeps_trans; [|apply keeps_deliver_sys; discriminate]. apply keeps_upd_actor; ks.
    + intros H; inversion H; subst. apply keeps_refl.
Qed.

Lemma SQ_run_actor s w s' o : RI s -> nrp t s -> run_actor roles s w = Some (s', o) -> SQ u t s s' o.
Proof.
  intros HR HN. unfold run_actor. destruct (get s w) as [a|] eqn:Eaw; [|discriminate]. destruct (a_inflight a) as [m|] eqn:Eim; [|discriminate].
  set (s0 := upd_actor s w (w_inflight None)).
  assert (K0 : keeps u t s s0) by (apply keeps_upd_actor; ks).
  assert (R0 : RI s0) by (eapply RI_ext; [exact HR|apply ext_of_keep; [apply keep_upd_actor; kp|apply regsame_upd_actor]]).
  assert (G0 : get s0 w = Some (w_inflight None a)) by (apply get_upd_actor_same; exact Eaw).
  destruct m as [e|e].
  - destruct (process_sys roles s0 w e) as [[s1 o1] p] eqn:E1.
    assert (Hrq : forall a0, get s0 w = Some a0 -> a_tok a0 = t -> is_rq e = false).
    { intros a0 Ha0 Ht0. rewrite G0 in Ha0. inversion Ha0; subst a0. cbn [a_tok w_inflight] in Ht0.
      destruct (HN w a Eaw Ht0) as [_ Hi]. rewrite Eim in Hi. exact Hi. }
    apply (SQ_process_sys _ _ _ _ _ _ R0 Hrq) in E1.
    assert (Q01 : SQ u t s s1 o1) by (eapply SQ_trans with (o1 := []); [apply SQ_of_keeps; exact K0|exact E1]).
    destruct p.
    + destruct (crashed s1).
      * intros H; inversion H; subst. exact Q01.
      * destruct (report_abnormal roles s1 w) as [[s2 o2] p2] eqn:E2. intros H; inversion H; subst.
        eapply SQ_trans; [exact Q01|apply SQ_of_keeps; eapply keeps_report_abnormal; exact E2].
    + intros H; inversion H; subst. exact Q01.
  - destruct (process_user roles s0 w e) as [[s1 o1] p] eqn:E1. apply keeps_process_user in E1.
    assert (K01 : keeps u t s s1) by (eapply keeps_trans; eassumption).
    destruct p.
    + destruct (crashed s1).
      * intros H; inversion H; subst. apply SQ_of_keeps. exact K01.
      * destruct (report_abnormal roles s1 w) as [[s2 o2] p2] eqn:E2. intros H; inversion H; subst.
        apply SQ_of_keeps. eapply keeps_trans; [exact K01|eapply keeps_report_abnormal; exact E2].
    + intros H; inversion H; subst. apply SQ_of_keeps. exact K01.
Qed.

Lemma pop1_susp a : a_susp (pop1 a) = a_susp a /\ a_tok (pop1 a) = a_tok a.
Proof.
  unfold pop1. destruct (a_inflight a); [auto|]. destruct (a_sysq a); [|auto].
  destruct (a_susp a) eqn:E; [rewrite E; auto|]. destruct (a_userq a); [rewrite E; auto|auto].
Qed.
Lemma keeps_normalize s : keeps u t s (normalize s).
Proof.
  split.
  - intros a H1 H2 H3. exists (pop1 a). destruct (pop1_susp a) as [P1 P2]. split; [|split; congruence].
    unfold normalize, get, set_actors in *; cbn [actors]. rewrite nth_error_map, H1. reflexivity.
  - intros N x ax Hx Tx. unfold normalize, get, set_actors in Hx; cbn [actors] in Hx. rewrite nth_error_map in Hx.
    destruct (nth_error (actors s) x) as [a0|] eqn:E0; [|discriminate]. cbn in Hx. inversion Hx; subst ax.
    destruct (pop1_susp a0) as [_ P2]. apply pop1_rq. apply (N x a0 E0). congruence.
Qed.

Theorem SQ_kstep s l s' o : RI s -> nrp t s -> kstep roles s l = Some (s', o) -> SQ u t s s' o.
Proof.
  intros HR HN. destruct l; cbn [kstep].
  - destruct (run_actor roles s (Z.to_nat u0)) as [[s1 o1]|] eqn:E; [|discriminate]. intros H; inversion H; subst.
    replace o with (o ++ []) by apply app_nil_r. eapply SQ_trans; [eapply SQ_run_actor; [exact HR|exact HN|exact E]|apply SQ_of_keeps, keeps_normalize].
  - destruct (next_serial s) as [s1 k] eqn:En. destruct (deliver_user s1 t0 rNone (UProbe n k)) as [s2 o2] eqn:E.
    intros H; inversion H; subst. apply SQ_of_keeps. eapply keeps_trans; [|apply keeps_normalize].
    eapply keeps_trans; [|eapply keeps_deliver_user; exact E]. apply keeps_same_actors. unfold next_serial in En. inversion En; subst. reflexivity.
  - destruct (next_serial s) as [s1 k] eqn:En. destruct (deliver_user s1 t0 rGuard (UProbe n k)) as [s2 o2] eqn:E.
    intros H; inversion H; subst. apply SQ_of_keeps. eapply keeps_trans; [|apply keeps_normalize].
    eapply keeps_trans; [|eapply keeps_deliver_user; exact E]. apply keeps_same_actors. unfold next_serial in En. inversion En; subst. reflexivity.
  - destruct (terminate s rGuard t0 g) as [s1 o1] eqn:E. intros H; inversion H; subst. apply SQ_of_keeps.
    eapply keeps_trans; [eapply keeps_terminate; exact E|apply keeps_normalize].
  - destruct (spawn s guard_uid rGuard t0 r) as [[s1 o1] p] eqn:E. intros H; inversion H; subst. apply SQ_of_keeps.
    eapply keeps_trans; [eapply keeps_spawn; exact E|apply keeps_normalize].
  - destruct (terminate s rGuard rGuard g) as [s1 o1] eqn:E. intros H; inversion H; subst. apply SQ_of_keeps.
    eapply keeps_trans; [eapply keeps_terminate; exact E|apply keeps_normalize].
  - intros H; inversion H; subst. apply SQ_of_keeps, keeps_refl.
Qed.

End S.

(* C04, mechanism: in a well-formed state, an actor (not one of the two system actors) whose mailbox is suspended, with no
   resume request pending for its address, is still suspended — and still no request is pending — after any step, unless
   that step shows that a supervisor applied Resume to its address, or an actor with its address completed a restart (own
   OnTerminated on the old instance) or began to terminate. *)
Theorem suspension_lifted_only_by_directive roles s l s' o u a :
  RI s -> get s u = Some a -> is_sys (a_tok a) = false -> a_susp a = true -> nrp (a_tok a) s -> kstep roles s l = Some (s', o) ->
  ((exists a', get s' u = Some a' /\ a_tok a' = a_tok a /\ a_susp a' = true) /\ nrp (a_tok a) s') \/ marker (a_tok a) o = true.
Proof.
  intros HR Hg Hs Hsu HN Hk. destruct (SQ_kstep roles u (a_tok a) Hs s l s' o HR HN Hk) as [[K N]|M]; [left|right; exact M].
  split; [exact (K a Hg eq_refl Hsu)|exact (N HN)].
Qed.

(* the same in every state reachable from the freshly started system *)
Theorem suspension_lifted_only_by_directive_reachable roles ls s os l s' o u a :
  krun roles kinit ls = Some (s, os) ->
  get s u = Some a -> is_sys (a_tok a) = false -> a_susp a = true -> nrp (a_tok a) s -> kstep roles s l = Some (s', o) ->
  ((exists a', get s' u = Some a' /\ a_tok a' = a_tok a /\ a_susp a' = true) /\ nrp (a_tok a) s') \/ marker (a_tok a) o = true.
Proof. intros Hr. apply suspension_lifted_only_by_directive. eapply RI_reachable; [apply RI_init|exact Hr]. Qed.

(* a resume request for an address becomes pending only in a step that shows a marker for it (the supervisor's decision);
   nothing is pending in the freshly started system *)
Theorem resume_request_only_by_directive roles s l s' o t :
  RI s -> is_sys t = false -> nrp t s -> kstep roles s l = Some (s', o) -> nrp t s' \/ marker t o = true.
Proof. intros HR Hs HN Hk. destruct (SQ_kstep roles 0%nat t Hs s l s' o HR HN Hk) as [[_ N]|M]; [left; exact (N HN)|right; exact M]. Qed.
Lemma nrp_init t : nrp t kinit.
Proof.
  intros x ax Hx _. unfold get, kinit in Hx; cbn [actors] in Hx.
  destruct x as [|[|x]]; cbn in Hx; [inversion Hx; subst; split; [reflexivity|exact I]|inversion Hx; subst; split; [reflexivity|exact I]|destruct x; discriminate].
Qed.
