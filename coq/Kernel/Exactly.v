(* MV.Kernel.Exactly — C02, "handed to that actor's handler exactly once, or a dead letter": the flow equation of
   Kernel.Conservation per (serial, RECEIVER ADDRESS). For every role table and every run from the freshly started
   system, for every serial sn and every user address t: the number of sends of sn to t equals the number of times sn
   was handled by an actor at address t, plus the dead letters of sn addressed to t, plus the copies of sn still queued
   or in flight that are addressed to t. So a message sent once to t is, at any time, exactly one of: pending, handled
   once, dead-lettered once — never handled twice, never handled and dead-lettered, never lost; and a broadcast's
   copies are accounted per child. Uses the invariant of Kernel.Watch that every queued or in-flight user message is
   addressed to the object holding it. *)
From MV Require Import Lib.ListX Kernel.Model Kernel.Lifecycle Kernel.Status Kernel.Registry Kernel.Frame Kernel.Queue Kernel.Watch Kernel.Conservation.

Definition ind (t : ref) (r : ref) : nat := if Z.eqb r t then 1 else 0.

Lemma krun_snoc roles ls : forall s s1 os l s2 o,
  krun roles s ls = Some (s1, os) -> kstep roles s1 l = Some (s2, o) -> krun roles s (ls ++ [l]) = Some (s2, os ++ [o]).
Proof.
  induction ls as [|l0 t IH]; intros s s1 os l s2 o; cbn [krun app].
  - intros H Hk; inversion H; subst. rewrite Hk. reflexivity.
  - destruct (kstep roles s l0) as [[sa oa]|]; [|discriminate]. destruct (krun roles sa t) as [[sb ob]|] eqn:E; [|discriminate].
    intros H Hk; inversion H; subst. rewrite (IH _ _ _ _ _ _ E Hk). reflexivity.
Qed.

Definition reachable (roles : list role) (s : kstate) : Prop := exists ls os, krun roles kinit ls = Some (s, os).

Theorem exactly_once_per_receiver roles sn t ls s' os :
  krun roles kinit ls = Some (s', os) ->
  sum_over (sentc sn (ind t)) os = sum_over (handc sn (ind t)) os + sum_over (deadc sn (ind t)) os + pending sn (ind t) s'.
Proof.
  intros H. apply (krun_conservation roles sn (ind t) (reachable roles)) in H.
  - cbn in H. lia.
  - intros s l s1 o (ls0 & os0 & R) Hk. exists (ls0 ++ [l]), (os0 ++ [o]). eapply krun_snoc; eassumption.
  - intros s (ls0 & os0 & R) u a e Ha Hi _. 
    assert (E : e_rcv e = a_tok a).
    { eapply addressed_reachable; [exact R|exact Ha|]. unfold seq, inflight_user. rewrite Hi. left. reflexivity. }
    rewrite E. reflexivity.
  - exists [], []. reflexivity.
Qed.

(* consequence: handled + dead-lettered never exceeds sent, per serial and receiver *)
Corollary never_more_than_sent roles sn t ls s' os :
  krun roles kinit ls = Some (s', os) ->
  sum_over (handc sn (ind t)) os + sum_over (deadc sn (ind t)) os <= sum_over (sentc sn (ind t)) os.
Proof. intros H. pose proof (exactly_once_per_receiver roles sn t ls s' os H). lia. Qed.
