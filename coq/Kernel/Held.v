(* MV.Kernel.Held — C03, "no user message handled in between" of a supervised restart, as an invariant: in every state
   reachable from the freshly started system (role tables that do not spawn from an actor's own OnTerminated handler nor
   under a system address: the hypotheses of Kernel.Hierarchy), an actor whose status is Restarting has its mailbox
   SUSPENDED and no user message in flight; hence a step of its mailbox handles no user message: from OnRestarting until
   the step that completes the restart (or until a termination overtakes it) the old instance handles system messages only.
   This is the statement whose proof attempt exposed defect 925aa8b (a supervisor's Resume decision used to lift the
   suspension at delivery time); with the decision travelling as a queued request that only a living actor applies, the
   mailbox of a restarting actor is resumed by nobody but the completion of its own restart or the start of its own
   termination, and both change its status first.
   Structure: relation hs ("status Restarting is not entered, suspensions of restarting actors are kept, new objects are
   not restarting") through every kernel operation that delivers no Resume; the three sites that deliver a Resume (restart
   completed, termination started, resume request applied) address the running object's own registration, whose status
   is not Restarting at that moment; the one site that enters Restarting suspends the same object at once. That the running
   object is the one registered under its address is Hierarchy's invariant (H3). *)
From MV Require Import Lib.ListX Kernel.Model Kernel.Run Kernel.Lifecycle Kernel.Status Kernel.Registry Kernel.Queue Kernel.Hierarchy Kernel.Launch.
Open Scope Z_scope.

Definition nomu (a : actor) : Prop := match a_inflight a with Some (MU _) => False | _ => True end.
Definition RSa (a : actor) : Prop := a_st a = Restarting -> a_susp a = true /\ nomu a.
Definition RS (s : kstate) : Prop := forall u a, get s u = Some a -> RSa a.

Definition hs (s s' : kstate) : Prop :=
  (forall v a, get s v = Some a -> exists a', get s' v = Some a' /\
     (a_st a' = Restarting -> a_st a = Restarting /\ (a_susp a = true -> a_susp a' = true) /\ (nomu a -> nomu a'))) /\
  (forall v a', get s' v = Some a' -> (length (actors s) <= v)%nat -> a_st a' <> Restarting).

Lemma get_lt s v a : get s v = Some a -> (v < length (actors s))%nat.
Proof. unfold get. intros H. apply nth_error_Some. congruence. Qed.
Lemma get_of_lt s v : (v < length (actors s))%nat -> exists a, get s v = Some a.
Proof. unfold get. intros H. destruct (nth_error (actors s) v) eqn:E; [eauto|]. apply nth_error_None in E. lia. Qed.

Lemma RS_hs s s' : RS s -> hs s s' -> RS s'.
Proof.
  intros R [H1 H2] u a' Ha' Hr. destruct (Nat.lt_ge_cases u (length (actors s))) as [Hlt|Hge].
  - destruct (get_of_lt s u Hlt) as (a & Ha). destruct (H1 u a Ha) as (a2 & G2 & C). rewrite Ha' in G2. inversion G2; subst a2.
    destruct (C Hr) as (Hr0 & Hs & Hn). destruct (R u a Ha Hr0) as [R1 R2]. split; [apply Hs; exact R1|apply Hn; exact R2].
  - exfalso. exact (H2 u a' Ha' Hge Hr).
Qed.

Lemma hs_refl s : hs s s.
Proof. split; [intros v a H; exists a; split; [exact H|auto]|]. intros v a' H Hge. apply get_lt in H. lia. Qed.
Lemma hs_len s s' : hs s s' -> (length (actors s) <= length (actors s'))%nat.
Proof.
  intros [H1 _]. destruct (Nat.le_gt_cases (length (actors s)) (length (actors s'))) as [H|H]; [exact H|].
  destruct (get_of_lt s (length (actors s')) H) as (a & Ha). destruct (H1 _ _ Ha) as (a' & G & _). apply get_lt in G. lia.
Qed.
Lemma hs_trans s1 s2 s3 : hs s1 s2 -> hs s2 s3 -> hs s1 s3.
Proof.
  intros K1 K2. pose proof (hs_len _ _ K1) as L1. destruct K1 as [A1 B1]. destruct K2 as [A2 B2]. split.
  - intros v a H. destruct (A1 v a H) as (a2 & G2 & C2). destruct (A2 v a2 G2) as (a3 & G3 & C3). exists a3. split; [exact G3|].
    intros Hr. destruct (C3 Hr) as (Hr2 & S3 & N3). destruct (C2 Hr2) as (Hr1 & S2 & N2). split; [exact Hr1|split; auto].
  - intros v a3 H3 Hge Hr. destruct (Nat.lt_ge_cases v (length (actors s2))) as [Hlt|Hge2].
    + destruct (get_of_lt s2 v Hlt) as (a2 & G2). destruct (A2 v a2 G2) as (a3' & G3 & C3). rewrite H3 in G3. inversion G3; subst a3'.
      destruct (C3 Hr) as (Hr2 & _). exact (B1 v a2 G2 Hge Hr2).
    + exact (B2 v a3 H3 Hge2 Hr).
Qed.
Lemma hs_same_actors s s' : actors s' = actors s -> hs s s'.
Proof.
  intros E. split; [intros v a H; exists a; unfold get in *; rewrite E; split; [exact H|auto]|].
  intros v a' H Hge. apply get_lt in H. rewrite E in H. lia.
Qed.
Lemma hs_put s w a0 b : get s w = Some a0 ->
  (a_st b = Restarting -> a_st a0 = Restarting /\ (a_susp a0 = true -> a_susp b = true) /\ (nomu a0 -> nomu b)) -> hs s (put s w b).
Proof.
  intros Hw Hb. split.
  - intros v a H. destruct (Nat.eq_dec w v) as [->|Hne].
    + exists b. split; [eapply get_put_same; exact Hw|]. rewrite Hw in H. inversion H; subst. exact Hb.
    + exists a. split; [rewrite get_put_other by assumption; exact H|auto].
  - intros v a' H Hge. apply get_lt in H. unfold put, set_actors in H; cbn [actors] in H. rewrite upd_length in H. lia.
Qed.
Lemma hs_upd_actor s w f : (forall a, a_st (f a) = Restarting -> a_st a = Restarting /\ (a_susp a = true -> a_susp (f a) = true) /\ (nomu a -> nomu (f a))) -> hs s (upd_actor s w f).
Proof. intros Hf. unfold upd_actor. destruct (get s w) as [a0|] eqn:E; [|apply hs_refl]. eapply hs_put; [exact E|apply Hf]. Qed.
Ltac ks := intros ? Hr; first [discriminate Hr | split; [exact Hr|split; [intros Hs; first [exact Hs|reflexivity]|intros Hn; first [exact Hn|exact I]]]].
Lemma hs_append s x : a_st x <> Restarting -> hs s (set_actors s (actors s ++ [x])).
Proof.
  intros Hx. split.
  - intros v a H. exists a. split; [|auto]. unfold get, set_actors in *; cbn [actors].
    rewrite nth_error_app1; [exact H|]. apply nth_error_Some. congruence.
  - intros v a' H Hge. unfold get, set_actors in H; cbn [actors] in H. rewrite nth_error_app2 in H by exact Hge.
    destruct (v - length (actors s))%nat as [|k]; cbn in H; [|destruct k; discriminate]. inversion H; subst a'. exact Hx.
Qed.

(* a system message other than Resume never lifts a suspension *)
Lemma hs_push_sys s w e : e_msg e <> SResume -> hs s (push_sys s w e).
Proof.
  intros Hne. unfold push_sys. apply hs_upd_actor. intros a. destruct (e_msg e); try congruence; intros Hr; (split; [exact Hr|split; [intros Hs; first [exact Hs|reflexivity]|intros Hn; exact Hn]]).
Qed.
Lemma hs_deliver_sys s t' snd m : m <> SResume -> hs s (deliver_sys s t' snd m).
Proof.
  intros Hm. unfold deliver_sys. destruct (lookup t' (registry s)); [apply hs_push_sys; exact Hm|].
  destruct m; try apply hs_refl. destruct (lookup snd (registry s)); [apply hs_push_sys; cbn; discriminate|apply hs_refl].
Qed.
(* a Resume delivered to the registration of an object that is not restarting *)
Lemma hs_resume s t' snd w a : lookup t' (registry s) = Some w -> get s w = Some a -> a_st a <> Restarting ->
  hs s (deliver_sys s t' snd SResume).
Proof.
  intros Hl Hw Hn. unfold deliver_sys. rewrite Hl. unfold push_sys, upd_actor. rewrite Hw. cbn [e_msg mk_env].
  eapply hs_put; [exact Hw|]. cbn [a_st w_susp]. intros Hr. contradiction.
Qed.

Section H.
Variable roles : list role.

Lemma hs_to_sub s : hs s (to_sub s).
Proof. unfold to_sub. destruct (lookup rSub (registry s)); [apply hs_upd_actor; ks|apply hs_refl]. Qed.
Lemma hs_abyss_user s snd rcv m s' o : abyss_user s snd rcv m = (s', o) -> hs s s'.
Proof.
  unfold abyss_user. destruct m; intros H; inversion H; subst; try apply hs_refl;
    destruct (rcv =? rSub); try apply hs_refl; apply hs_to_sub.
Qed.
Lemma hs_deliver_user s t' snd m s' o : deliver_user s t' snd m = (s', o) -> hs s s'.
Proof.
  unfold deliver_user. destruct (lookup t' (registry s)) as [w|]; [|apply hs_abyss_user].
  destruct (get s w) as [a|] eqn:E; [|apply hs_abyss_user].
  intros H; inversion H; subst. eapply hs_put; [exact E|intros Hr; split; [exact Hr|split; [intros Hs; exact Hs|intros Hn; exact Hn]]].
Qed.
Lemma hs_terminate s self t' g s' o : terminate s self t' g = (s', o) -> hs s s'.
Proof.
  unfold terminate. destruct g; [apply hs_deliver_user|]. intros H; inversion H; subst. apply hs_deliver_sys; discriminate.
Qed.
Lemma hs_terminate_all cs : forall s self g s' o, terminate_all s self cs g = (s', o) -> hs s s'.
Proof.
  induction cs as [|c rest IH]; intros s self g s' o; cbn [terminate_all].
  - intros H; inversion H; subst. apply hs_refl.
  - destruct (terminate s self c g) as [s1 o1] eqn:E1. destruct (terminate_all s1 self rest g) as [s2 o2] eqn:E2.
    intros H; inversion H; subst. eapply hs_trans; [eapply hs_terminate; exact E1|eapply IH; exact E2].
Qed.
Lemma hs_notify_all ws : forall s self, hs s (notify_all s self ws).
Proof.
  induction ws as [|w rest IH]; intros s self; cbn [notify_all]; [apply hs_refl|].
  eapply hs_trans; [|apply IH]. apply hs_deliver_sys; discriminate.
Qed.
Lemma hs_restart_all cs : forall s self, hs s (restart_all s self cs).
Proof.
  induction cs as [|c rest IH]; intros s self; cbn [restart_all]; [apply hs_refl|].
  eapply hs_trans; [|apply IH]. apply hs_deliver_sys; discriminate.
Qed.
Lemma hs_stop s w self t' s' o p : stop_if_parent_gone s w self t' = (s', o, p) -> hs s s'.
Proof.
  unfold stop_if_parent_gone. destruct (get s w) as [pa|]; [|intros H; inversion H; subst; apply hs_refl].
  destruct (not_alive (a_st pa)); [|intros H; inversion H; subst; apply hs_refl].
  destruct (terminate s self t' (a_graceful pa)) as [s1 o1] eqn:E. intros H; inversion H; subst. eapply hs_terminate; exact E.
Qed.
Lemma hs_spawn s w self t' r s' o p : spawn s w self t' r = (s', o, p) -> hs s s'.
Proof.
  unfold spawn. destruct (provide s t') as [s1 inst] eqn:Ep.
  assert (K1 : hs s s1) by (apply hs_same_actors; unfold provide in Ep; inversion Ep; subst; reflexivity).
  set (s2 := set_actors s1 (actors s1 ++ [new_actor t' self r inst])).
  assert (K2 : hs s s2) by (eapply hs_trans; [exact K1|apply hs_append; cbn; discriminate]).
  change (registry s2) with (registry s1) in *. destruct (lookup t' (registry s1)).
  - intros H; inversion H; subst. eapply hs_trans; [exact K1|apply hs_append; cbn; discriminate].
  - intros H. eapply hs_trans; [|eapply hs_stop; exact H]. eapply hs_trans; [exact K2|].
    eapply hs_trans; [|apply hs_deliver_sys; discriminate]. eapply hs_trans; [|apply hs_upd_actor; ks].
    apply hs_same_actors. reflexivity.
Qed.
Lemma hs_escalate s w r s' o p : escalate s w r = (s', o, p) -> hs s s'.
Proof.
  unfold escalate. destruct (get s w) as [a|]; [|intros H; inversion H; subst; apply hs_refl].
  destruct (a_parent a =? rNone); intros H; inversion H; subst.
  - apply hs_same_actors. reflexivity.
  - apply hs_deliver_sys; discriminate.
Qed.
Lemma hs_report_abnormal s w s' o p : report_abnormal roles s w = (s', o, p) -> hs s s'.
Proof.
  unfold report_abnormal. destruct (get s w) as [a|]; [|intros H; inversion H; subst; apply hs_refl].
  destruct (a_st a); try (intros H; inversion H; subst; apply hs_refl).
  intros H. apply hs_escalate in H. eapply hs_trans; [|exact H].
  eapply hs_trans; [|apply hs_deliver_sys; discriminate]. apply hs_upd_actor; ks.
Qed.
Lemma hs_send_each ts : forall s self n k s' o, send_each s self ts n k = (s', o) -> hs s s'.
Proof.
  induction ts as [|t' rest IH]; intros s self n k s' o; cbn [send_each].
  - intros H; inversion H; subst. apply hs_refl.
  - destruct (deliver_user s t' self (UProbe n k)) as [s1 o1] eqn:E1.
    destruct (send_each s1 self rest n k) as [s2 o2] eqn:E2. intros H; inversion H; subst.
    eapply hs_trans; [eapply hs_deliver_user; exact E1|eapply IH; exact E2].
Qed.
Lemma hs_do_action s w snd act s' o p : do_action roles s w snd act = (s', o, p) -> hs s s'.
Proof.
  unfold do_action. destruct (get s w) as [a|]; [|intros H; inversion H; subst; apply hs_refl].
  assert (NS : forall s1 k, next_serial s = (s1, k) -> hs s s1).
  { intros s1 k En. apply hs_same_actors. unfold next_serial in En. inversion En; subst. reflexivity. }
  destruct act.
  - destruct (next_serial s) as [s1 k] eqn:En. destruct (deliver_user s1 t rNone (UProbe n k)) as [s2 o2] eqn:E.
    intros H; inversion H; subst. eapply hs_trans; [eapply NS; reflexivity|eapply hs_deliver_user; exact E].
  - destruct (next_serial s) as [s1 k] eqn:En. destruct (deliver_user s1 t (a_tok a) (UProbe n k)) as [s2 o2] eqn:E.
    intros H; inversion H; subst. eapply hs_trans; [eapply NS; reflexivity|eapply hs_deliver_user; exact E].
  - destruct (next_serial s) as [s1 k] eqn:En. destruct (deliver_user s1 snd (a_tok a) (UProbe n k)) as [s2 o2] eqn:E.
    intros H; inversion H; subst. eapply hs_trans; [eapply NS; reflexivity|eapply hs_deliver_user; exact E].
  - destruct (next_serial s) as [s1 k] eqn:En. destruct (send_each s1 (a_tok a) (a_children a) n k) as [s2 o2] eqn:E.
    intros H; inversion H; subst. eapply hs_trans; [eapply NS; reflexivity|eapply hs_send_each; exact E].
  - destruct (spawn s w (a_tok a) t r) as [[s1 o1] p1] eqn:E. intros H; inversion H; subst. eapply hs_spawn; exact E.
  - destruct (terminate s (a_tok a) t g) as [s1 o1] eqn:E. intros H; inversion H; subst. eapply hs_terminate; exact E.
  - intros H; inversion H; subst. apply hs_deliver_sys; discriminate.
  - intros H; inversion H; subst. apply hs_deliver_sys; discriminate.
  - destruct (report_abnormal roles s w) as [[s1 o1] p1] eqn:E. intros H; inversion H; subst. eapply hs_report_abnormal; exact E.
  - intros H; inversion H; subst. apply hs_refl.
Qed.
Lemma hs_do_actions acts : forall s w snd s' o p, do_actions roles s w snd acts = (s', o, p) -> hs s s'.
Proof.
  induction acts as [|act rest IH]; intros s w snd s' o p; cbn [do_actions].
  - intros H; inversion H; subst. apply hs_refl.
  - apply (bind_rel hs); [apply hs_trans| |].
    + intros s1 o1 p1 E. eapply hs_do_action; exact E.
    + intros s1 s2 o2 p2 E. eapply IH; exact E.
Qed.
Lemma hs_handle_q q s w tr k snd s' o p : handle_q roles q s w tr k snd = (s', o, p) -> hs s s'.
Proof.
  unfold handle_q. destruct (get s w) as [a|]; [|intros H; inversion H; subst; apply hs_refl].
  destruct q; [intros H; inversion H; subst; apply hs_refl|].
  destruct (do_actions roles s w snd (find_rule (rules (role_of roles a)) tr (a_inst a))) as [[s1 o1] p1] eqn:E.
  intros H; inversion H; subst. eapply hs_do_actions; exact E.
Qed.
Lemma hs_handle s w tr k snd s' o p : handle roles s w tr k snd = (s', o, p) -> hs s s'.
Proof. unfold handle. destruct (get s w); [apply hs_handle_q|intros H; inversion H; subst; apply hs_refl]. Qed.

Lemma hs_try_terminated s w snd s' o p : try_terminated roles s w snd = (s', o, p) -> hs s s'.
Proof.
  unfold try_terminated. destruct (get s w) as [a|]; [|intros H; inversion H; subst; apply hs_refl].
  destruct (a_children a); [|intros H; inversion H; subst; apply hs_refl].
  destruct (a_st a); try (intros H; inversion H; subst; apply hs_refl).
  apply (bind_rel hs); [apply hs_trans| |].
  - intros s1 o1 p1 E. eapply hs_trans; [|eapply hs_handle; exact E]. apply hs_upd_actor; ks.
  - intros s1 s2 o2 p2.
    set (sr := set_registry s1 (remove_key (a_tok a) (registry s1))).
    set (sn := notify_all sr (a_tok a) (filter (fun w0 => negb (w0 =? a_parent a)) (a_watchers a))).
    assert (Kn : hs s1 sn).
    { apply hs_trans with (s2 := sr); [apply hs_same_actors; reflexivity|apply hs_notify_all]. }
    destruct (a_parent a =? rNone); intros H; inversion H; subst.
    + eapply hs_trans; [exact Kn|apply hs_same_actors; reflexivity].
    + eapply hs_trans; [exact Kn|]. apply hs_deliver_sys; discriminate.
Qed.

Lemma hs_start_instance s w self parent s' o p : start_instance roles s w self parent = (s', o, p) -> hs s s'.
Proof.
  unfold start_instance. destruct (handle roles s w TRD 0%nat self) as [[s1 o1] p1] eqn:E1.
  destruct (handle roles s1 w TL 0%nat parent) as [[s2 o2] p2] eqn:E2. intros H; inversion H; subst.
  eapply hs_trans; [eapply hs_handle; exact E1|]. eapply hs_trans; [eapply hs_handle; exact E2|].
  destruct p2; [apply hs_refl|apply hs_upd_actor; ks].
Qed.

Lemma hs_process_user s w e s' o p : process_user roles s w e = (s', o, p) -> hs s s'.
Proof.
  unfold process_user. destruct (get s w) as [a|]; [|intros H; inversion H; subst; apply hs_refl].
  destruct (st_ge_terminating (a_st a)).
  - destruct (abyss_user s (e_snd e) (e_rcv e) (e_msg e)) as [s1 o1] eqn:E. intros H; inversion H; subst. eapply hs_abyss_user; exact E.
  - destruct (e_msg e).
    + apply hs_handle_q.
    + intros H; inversion H; subst. eapply hs_trans; [|apply hs_deliver_sys; discriminate]. apply hs_upd_actor; ks.
    + intros H; inversion H; subst. apply hs_refl.
Qed.


(* ---------- the remaining operations that deliver no Resume ---------- *)
Lemma hs_apply_directive s w r d snd s' o p : apply_directive roles s w r d snd = (s', o, p) -> hs s s'.
Proof.
  unfold apply_directive. destruct (get s w) as [a|]; [|intros H; inversion H; subst; apply hs_refl].
  destruct d.
  - intros H; inversion H; subst. apply hs_deliver_sys; discriminate.
  - destruct (terminate s (a_tok a) (ar_vref r) false) as [s1 o1] eqn:E1.
    destruct (try_terminated roles s1 w snd) as [[s2 o2] p2] eqn:E2. intros H; inversion H; subst.
    eapply hs_trans; [eapply hs_terminate; exact E1|eapply hs_try_terminated; exact E2].
  - intros H; inversion H; subst. apply hs_deliver_sys; discriminate.
  - destruct (escalate s w r) as [[s1 o1] p1] eqn:E. intros H; inversion H; subst. eapply hs_escalate; exact E.
  - intros H; inversion H; subst. apply hs_restart_all.
Qed.
Lemma hs_on_accident s w r snd s' o p : on_accident roles s w r snd = (s', o, p) -> hs s s'.
Proof.
  unfold on_accident. destruct (get s w) as [a|]; [|intros H; inversion H; subst; apply hs_refl].
  destruct (ar_strategy r); [apply hs_apply_directive|].
  destruct (sup (role_of roles a)); [apply hs_escalate|apply hs_apply_directive].
Qed.
Lemma hs_drop_child s w who : hs s (drop_child s w who).
Proof. unfold drop_child. destruct (lookup who (registry s)); [apply hs_refl|apply hs_upd_actor; ks]. Qed.

(* ---------- the registration of an address survives everything a handler does ---------- *)
Definition rk (t : ref) (w : nat) (s s' : kstate) : Prop := lookup t (registry s) = Some w -> lookup t (registry s') = Some w.
Lemma rk_regsame t w s s' : regsame s s' -> rk t w s s'.
Proof. intros R H. rewrite R. exact H. Qed.
Lemma rk_refl t w s : rk t w s s. Proof. intros H; exact H. Qed.
Lemma rk_trans t w a b c : rk t w a b -> rk t w b c -> rk t w a c.
Proof. intros H1 H2 H. auto. Qed.
Lemma lookup_remove_other {A} k t (l : list (ref * A)) u : t <> k -> lookup t l = Some u -> lookup t (remove_key k l) = Some u.
Proof.
  intros Hne. induction l as [|[k' v] l IH]; cbn [lookup remove_key]; [discriminate|].
  destruct (t =? k') eqn:E1; destruct (k =? k') eqn:E2.
  - apply Z.eqb_eq in E1. apply Z.eqb_eq in E2. congruence.
  - intros H. cbn [lookup]. rewrite E1. exact H.
  - exact IH.
  - intros H. cbn [lookup]. rewrite E1. apply IH. exact H.
Qed.
Lemma regsame_stop s u self t s' o p : stop_if_parent_gone s u self t = (s', o, p) -> regsame s s'.
Proof.
  unfold stop_if_parent_gone. destruct (get s u) as [pa|]; [|intros H; inversion H; subst; apply regsame_refl].
  destruct (not_alive (a_st pa)); [|intros H; inversion H; subst; apply regsame_refl].
  destruct (terminate s self t (a_graceful pa)) as [s1 o1] eqn:E. intros H; inversion H; subst. eapply regsame_terminate; exact E.
Qed.
Lemma rk_spawn t w s u self t' r s' o p : spawn s u self t' r = (s', o, p) -> rk t w s s'.
Proof.
  unfold spawn. destruct (provide s t') as [s1 inst] eqn:Ep.
  assert (R1 : registry s1 = registry s) by (unfold provide in Ep; inversion Ep; subst; reflexivity).
  set (s2 := set_actors s1 (actors s1 ++ [new_actor t' self r inst])).
  change (registry s2) with (registry s1) in *. destruct (lookup t' (registry s1)) eqn:El.
  - intros H; inversion H; subst. intros Hl. cbn [registry set_actors]. rewrite R1. exact Hl.
  - intros H Hl. rewrite (regsame_stop _ _ _ _ _ _ _ H). rewrite regsame_deliver_sys, regsame_upd_actor. cbn [registry set_registry].
    unfold set_key. cbn [lookup]. destruct (t =? t') eqn:E.
    + apply Z.eqb_eq in E. subst t'. rewrite R1 in El. congruence.
    + apply lookup_remove_other; [apply Z.eqb_neq; exact E|rewrite R1; exact Hl].
Qed.
Lemma rk_do_action t w s u snd act s' o p : do_action roles s u snd act = (s', o, p) -> rk t w s s'.
Proof.
  unfold do_action. destruct (get s u) as [a|]; [|intros H; inversion H; subst; apply rk_refl].
  assert (NS : forall s1 k, next_serial s = (s1, k) -> regsame s s1) by (intros s1 k En; unfold next_serial in En; inversion En; subst; reflexivity).
  destruct act.
  - destruct (next_serial s) as [s1 k] eqn:En. destruct (deliver_user s1 t0 rNone (UProbe n k)) as [s2 o2] eqn:E.
    intros H; inversion H; subst. apply rk_regsame. eapply regsame_trans; [eapply NS; reflexivity|eapply regsame_deliver_user; exact E].
  - destruct (next_serial s) as [s1 k] eqn:En. destruct (deliver_user s1 t0 (a_tok a) (UProbe n k)) as [s2 o2] eqn:E.
    intros H; inversion H; subst. apply rk_regsame. eapply regsame_trans; [eapply NS; reflexivity|eapply regsame_deliver_user; exact E].
  - destruct (next_serial s) as [s1 k] eqn:En. destruct (deliver_user s1 snd (a_tok a) (UProbe n k)) as [s2 o2] eqn:E.
    intros H; inversion H; subst. apply rk_regsame. eapply regsame_trans; [eapply NS; reflexivity|eapply regsame_deliver_user; exact E].
  - destruct (next_serial s) as [s1 k] eqn:En. destruct (send_each s1 (a_tok a) (a_children a) n k) as [s2 o2] eqn:E.
    intros H; inversion H; subst. apply rk_regsame. eapply regsame_trans; [eapply NS; reflexivity|eapply regsame_send_each; exact E].
  - destruct (spawn s u (a_tok a) t0 r) as [[s1 o1] p1] eqn:E. intros H; inversion H; subst. eapply rk_spawn; exact E.
  - destruct (terminate s (a_tok a) t0 g) as [s1 o1] eqn:E. intros H; inversion H; subst. apply rk_regsame. eapply regsame_terminate; exact E.
  - intros H; inversion H; subst. apply rk_regsame, regsame_deliver_sys.
  - intros H; inversion H; subst. apply rk_regsame, regsame_deliver_sys.
  - destruct (report_abnormal roles s u) as [[s1 o1] p1] eqn:E. intros H; inversion H; subst. apply rk_regsame. eapply regsame_report_abnormal; exact E.
  - intros H; inversion H; subst. apply rk_refl.
Qed.
Lemma rk_do_actions t w acts : forall s u snd s' o p, do_actions roles s u snd acts = (s', o, p) -> rk t w s s'.
Proof.
  induction acts as [|act rest IH]; intros s u snd s' o p; cbn [do_actions].
  - intros H; inversion H; subst. apply rk_refl.
  - apply (bind_rel (rk t w)); [apply rk_trans| |].
    + intros s1 o1 p1 E. eapply rk_do_action; exact E.
    + intros s1 s2 o2 p2 E. eapply IH; exact E.
Qed.
Lemma rk_handle t w s u tr k snd s' o p : handle roles s u tr k snd = (s', o, p) -> rk t w s s'.
Proof.
  unfold handle, handle_q. destruct (get s u) as [a|]; [|intros H; inversion H; subst; apply rk_refl].
  destruct (is_sys (a_tok a)); [intros H; inversion H; subst; apply rk_refl|].
  destruct (do_actions roles s u snd (find_rule (rules (role_of roles a)) tr (a_inst a))) as [[s1 o1] p1] eqn:E.
  intros H; inversion H; subst. eapply rk_do_actions; exact E.
Qed.

(* the running object w is the one registered under its address *)
Definition regw (w : nat) (s : kstate) : Prop := exists a, get s w = Some a /\ lookup (a_tok a) (registry s) = Some w.
Lemma regw_step w s s' : keep s s' -> (forall t, rk t w s s') -> regw w s -> regw w s'.
Proof.
  intros K Rk (a & Ha & Hl). destruct (K w a Ha) as (a' & Ha' & _ & (T & _)). exists a'. split; [exact Ha'|]. rewrite T. apply Rk. exact Hl.
Qed.
Lemma regw_handle w s tr k snd s' o p : handle roles s w tr k snd = (s', o, p) -> regw w s -> regw w s'.
Proof. intros H. apply regw_step; [eapply keep_handle; exact H|intros t; eapply rk_handle; exact H]. Qed.
Lemma regw_keep_regsame w s s' : keep s s' -> regsame s s' -> regw w s -> regw w s'.
Proof. intros K R. apply regw_step; [exact K|intros t; apply rk_regsame; exact R]. Qed.

(* the completion of a restart: the Resume goes to the running object itself, which is alive again by then *)
Lemma hs_try_restarted s w snd s' o p : regw w s -> try_restarted roles s w snd = (s', o, p) -> hs s s'.
Proof.
  intros Rw. unfold try_restarted. destruct (get s w) as [a|] eqn:Ea; [|intros H; inversion H; subst; apply hs_refl].
  destruct (a_children a); [|intros H; inversion H; subst; apply hs_refl].
  destruct (a_st a) eqn:Est; try (intros H; inversion H; subst; apply hs_refl).
  destruct (provide s (a_tok a)) as [s0 inst] eqn:Ep.
  assert (A0 : actors s0 = actors s) by (unfold provide in Ep; inversion Ep; subst; reflexivity).
  assert (G0 : registry s0 = registry s) by (unfold provide in Ep; inversion Ep; subst; reflexivity).
  assert (Ea0 : get s0 w = Some a) by (unfold get in *; rewrite A0; exact Ea).
  assert (K0 : hs s s0) by (apply hs_same_actors; exact A0).
  assert (Rw0 : regw w s0) by (eapply regw_keep_regsame; [apply keep_same_actors; exact A0|exact G0|exact Rw]).
  destruct (handle roles s0 w TT 0 snd) as [[s1 o1] p1] eqn:E1. unfold bind at 1. destruct p1.
  - intros H; inversion H; subst. eapply hs_trans; [exact K0|eapply hs_handle; exact E1].
  - destruct (handle roles s1 w TTS 0 snd) as [[s2 o2] p2] eqn:E2. unfold bind.
    assert (K12 : hs s s2) by (eapply hs_trans; [exact K0|]; eapply hs_trans; [eapply hs_handle; exact E1|eapply hs_handle; exact E2]).
    destruct p2; [intros H; inversion H; subst; exact K12|].
    assert (R2 : regw w s2) by (eapply regw_handle; [exact E2|eapply regw_handle; [exact E1|exact Rw0]]).
    destruct (keep_handle roles _ _ _ _ _ _ _ _ E1 w a Ea0) as (a1 & Ha1 & S1 & (I1 & _)).
    destruct (keep_handle roles _ _ _ _ _ _ _ _ E2 w a1 Ha1) as (a2 & Ha2 & S2 & (I2 & _)).
    set (s4 := upd_actor s2 w (fun b => w_st Alive (w_inst inst b))).
    assert (Ha4 : get s4 w = Some (w_st Alive (w_inst inst a2))) by (exact (get_upd_actor_same s2 w (fun b => w_st Alive (w_inst inst b)) a2 Ha2)).
    assert (L4 : lookup (a_tok a) (registry s4) = Some w).
    { unfold s4. rewrite regsame_upd_actor. destruct R2 as (b & Hb & Hl). rewrite Ha2 in Hb. inversion Hb; subst b. rewrite I2, I1 in Hl. exact Hl. }
    match goal with |- context [start_instance ?r ?x ?y ?z ?w0] => destruct (start_instance r x y z w0) as [[s9 o9] p9] eqn:E9 end.
    intros H; inversion H; subst s' o p.
    eapply hs_trans; [exact K12|].
    apply hs_trans with (s2 := s4); [unfold s4; apply hs_upd_actor; ks|].
    eapply hs_trans; [eapply hs_resume; [exact L4|exact Ha4|cbn [a_st w_st]; discriminate]|].
    eapply hs_start_instance; exact E9.
Qed.

(* entering the restart: the status becomes Restarting and the same object is suspended at once; nothing is in flight *)
Lemma RS_enter s w a : RS s -> get s w = Some a -> a_inflight a = None -> lookup (a_tok a) (registry s) = Some w ->
  RS (deliver_sys (upd_actor s w (w_st Restarting)) (a_tok a) (a_tok a) SSuspend).
Proof.
  intros R Ha Hi Hl. set (s0 := upd_actor s w (w_st Restarting)).
  assert (G0 : get s0 w = Some (w_st Restarting a)) by (apply get_upd_actor_same; exact Ha).
  unfold deliver_sys. rewrite (regsame_upd_actor s w (w_st Restarting) : registry s0 = registry s), Hl.
  unfold push_sys, upd_actor. rewrite G0. cbn [e_msg mk_env].
  intros v b Hb. destruct (Nat.eq_dec w v) as [->|Hne].
  - rewrite (get_put_same s0 v _ _ G0) in Hb. inversion Hb; subst b. intros _. split; [reflexivity|]. unfold nomu. cbn [a_inflight w_susp w_st]. rewrite Hi. exact I.
  - rewrite get_put_other in Hb by exact Hne. unfold s0, upd_actor in Hb. rewrite Ha in Hb. rewrite get_put_other in Hb by exact Hne. exact (R v b Hb).
Qed.

Lemma regw_of s w a : get s w = Some a -> lookup (a_tok a) (registry s) = Some w -> regw w s.
Proof. intros H1 H2. exists a. auto. Qed.

Lemma RS_process_sys s w e s' o p : RS s ->
  (forall a, get s w = Some a -> a_inflight a = None /\ (a_st a = Terminated \/ lookup (a_tok a) (registry s) = Some w)) ->
  process_sys roles s w e = (s', o, p) -> RS s'.
Proof.
  intros R Hw. unfold process_sys. destruct (get s w) as [a|] eqn:Ea; [|intros H; inversion H; subst; exact R].
  destruct (Hw a eq_refl) as [Hi Hor].
  assert (HS : forall x, hs s x -> RS x) by (intros x K; eapply RS_hs; eassumption).
  match goal with |- context [if ?d then _ else _] => destruct d end; [intros H; inversion H; subst; exact R|].
  destruct (e_msg e) as [| |g|who| |r| | | | |].
  - (* SLaunch *) intros H. apply HS. revert H. apply (bind_rel hs); [apply hs_trans| |].
    + intros s1 o1 p1 E. eapply hs_handle; exact E.
    + intros s1 s2 o2 p2 H; inversion H; subst. apply hs_upd_actor; ks.
  - (* SRestarted *) intros H. apply HS. eapply hs_handle; exact H.
  - (* STerminate *)
    assert (HT : a_st a <> Terminated -> a_st a <> Terminating ->
      (handle roles (deliver_sys (upd_actor s w (w_st Terminating)) (a_tok a) (a_tok a) SResume) w TT 0 (e_snd e) >>= (fun s3 =>
         match get s3 w with
         | None => ok s3 []
         | Some a3 =>
             let '(s4, o4) := terminate_all s3 (a_tok a3) (a_children a3) (g || a_graceful a3) in
             let '(s5, o5, p) := try_terminated roles s4 w (e_snd e) in (s5, o4 ++ o5, p)
         end)) = (s', o, p) -> RS s').
    { intros Hn _ H. destruct Hor as [Hor|Hl]; [contradiction|].
      set (s1 := upd_actor s w (w_st Terminating)) in *.
      assert (G1 : get s1 w = Some (w_st Terminating a)) by (apply get_upd_actor_same; exact Ea).
      assert (L1 : lookup (a_tok a) (registry s1) = Some w) by (unfold s1; rewrite regsame_upd_actor; exact Hl).
      assert (K2 : hs s (deliver_sys s1 (a_tok a) (a_tok a) SResume)).
      { apply hs_trans with (s2 := s1); [unfold s1; apply hs_upd_actor; ks|]. eapply hs_resume; [exact L1|exact G1|cbn [a_st w_st]; discriminate]. }
      apply HS. eapply hs_trans; [exact K2|]. revert H. apply (bind_rel hs); [apply hs_trans| |].
      - intros sa oa pa E. eapply hs_handle; exact E.
      - intros sa sb ob pb. destruct (get sa w) as [a3|]; [|intros H; inversion H; subst; apply hs_refl].
        destruct (terminate_all sa (a_tok a3) (a_children a3) (g || a_graceful a3)) as [s4 o4] eqn:E4.
        destruct (try_terminated roles s4 w (e_snd e)) as [[s5 o5] p5] eqn:E5. intros H; inversion H; subst.
        eapply hs_trans; [eapply hs_terminate_all; exact E4|eapply hs_try_terminated; exact E5]. }
    destruct (a_st a) eqn:Est; try (intros H; inversion H; subst; exact R); apply HT; discriminate.
  - (* STerminatedOf *)
    set (sd := drop_child s w who).
    destruct (handle roles sd w (if who =? a_tok a then TTS else TTO who) 0 (e_snd e)) as [[s1 o1] p1] eqn:E1.
    assert (K1 : hs s s1) by (eapply hs_trans; [apply hs_drop_child|eapply hs_handle; exact E1]).
    unfold bind. destruct p1; [intros H; inversion H; subst; apply HS; exact K1|].
    destruct (get s1 w) as [a2|] eqn:Ea2; [|intros H; inversion H; subst; apply HS; exact K1].
    destruct (a_st a2) eqn:Est2; try (intros H; inversion H; subst; apply HS; exact K1).
    + (* restarting: the registration is still the running object's *)
      assert (Sa : a_st a2 = a_st a).
      { destruct (keep_drop_child s w who w a Ea) as (ad & Had & Sd & _). fold sd in Had.
        destruct (keep_handle roles _ _ _ _ _ _ _ _ E1 w ad Had) as (a2' & Ha2' & S2 & _). rewrite Ea2 in Ha2'. inversion Ha2'; subst a2'. congruence. }
      destruct Hor as [Hor|Hl]; [congruence|].
      assert (Rw : regw w s1).
      { eapply regw_handle; [exact E1|]. eapply regw_keep_regsame; [apply keep_drop_child|apply regsame_drop_child|eapply regw_of; eassumption]. }
      destruct (try_restarted roles s1 w (e_snd e)) as [[s2 o2] p2] eqn:E2. intros H; inversion H; subst.
      apply HS. eapply hs_trans; [exact K1|eapply hs_try_restarted; [exact Rw|exact E2]].
    + destruct (try_terminated roles s1 w (e_snd e)) as [[s2 o2] p2] eqn:E2. intros H; inversion H; subst.
      apply HS. eapply hs_trans; [exact K1|eapply hs_try_terminated; exact E2].
  - (* SRestart *) destruct (a_st a) eqn:Est; try (intros H; inversion H; subst; exact R).
    destruct Hor as [Hor|Hl]; [congruence|].
    set (s0 := upd_actor s w (w_st Restarting)). set (s1 := deliver_sys s0 (a_tok a) (a_tok a) SSuspend).
    assert (R1 : RS s1) by (apply RS_enter; assumption).
    assert (Rw1 : regw w s1).
    { assert (G0 : get s0 w = Some (w_st Restarting a)) by (apply get_upd_actor_same; exact Ea).
      destruct (keep_deliver_sys s0 (a_tok a) (a_tok a) SSuspend w _ G0) as (b & Hb & _ & (Tb & _)). fold s1 in Hb.
      exists b. split; [exact Hb|]. rewrite Tb. cbn [a_tok w_st]. unfold s1. rewrite regsame_deliver_sys. unfold s0. rewrite regsame_upd_actor. exact Hl. }
    destruct (handle roles s1 w TRG 0 (e_snd e)) as [[s2 o2] p2] eqn:E2. unfold bind. destruct p2.
    + intros H; inversion H; subst. eapply RS_hs; [exact R1|eapply hs_handle; exact E2].
    + destruct (get s2 w) as [a2|] eqn:Ea2; [|intros H; inversion H; subst; eapply RS_hs; [exact R1|eapply hs_handle; exact E2]].
      destruct (terminate_all s2 (a_tok a2) (a_children a2) false) as [s3 o3] eqn:E3.
      destruct (try_restarted roles s3 w (e_snd e)) as [[s4 o4] p4] eqn:E4. intros H; inversion H; subst.
      assert (Rw3 : regw w s3).
      { eapply regw_keep_regsame; [eapply keep_terminate_all; exact E3|eapply regsame_terminate_all; exact E3|eapply regw_handle; [exact E2|exact Rw1]]. }
      eapply RS_hs; [exact R1|]. eapply hs_trans; [eapply hs_handle; exact E2|].
      eapply hs_trans; [eapply hs_terminate_all; exact E3|eapply hs_try_restarted; [exact Rw3|exact E4]].
  - (* SAccident *) intros H. apply HS. eapply hs_on_accident; exact H.
  - (* SWatch *) destruct (e_snd e =? a_parent a); [intros H; inversion H; subst; exact R|].
    destruct (st_ge_terminating (a_st a)); intros H; inversion H; subst; apply HS.
    + apply hs_deliver_sys; discriminate.
    + apply hs_upd_actor; ks.
  - (* SUnwatch *) intros H; inversion H; subst. apply HS. apply hs_upd_actor; ks.
  - intros H; inversion H; subst. exact R.
  - intros H; inversion H; subst. exact R.
  - (* SResumeReq *) destruct (a_st a) eqn:Est; intros H; inversion H; subst; try exact R.
    destruct Hor as [Hor|Hl]; [congruence|]. apply HS. eapply hs_resume; [exact Hl|exact Ea|rewrite Est; discriminate].
Qed.

Lemma RS_run_actor s w s' o : RS s ->
  (forall a, get s w = Some a -> a_st a = Terminated \/ lookup (a_tok a) (registry s) = Some w) ->
  run_actor roles s w = Some (s', o) -> RS s'.
Proof.
  intros R Hw. unfold run_actor. destruct (get s w) as [a|] eqn:Ea; [|discriminate]. destruct (a_inflight a) as [m|] eqn:Em; [|discriminate].
  set (s0 := upd_actor s w (w_inflight None)).
  assert (K0 : hs s s0) by (unfold s0; apply hs_upd_actor; ks).
  assert (R0 : RS s0) by (eapply RS_hs; eassumption).
  assert (G0 : get s0 w = Some (w_inflight None a)) by (apply get_upd_actor_same; exact Ea).
  assert (H0 : forall a0, get s0 w = Some a0 -> a_inflight a0 = None /\ (a_st a0 = Terminated \/ lookup (a_tok a0) (registry s0) = Some w)).
  { intros a0 Ha0. rewrite G0 in Ha0. inversion Ha0; subst a0. split; [reflexivity|]. cbn [a_st a_tok w_inflight].
    unfold s0. rewrite regsame_upd_actor. apply Hw. reflexivity. }
  destruct (match m with MS e => process_sys roles s0 w e | MU e => process_user roles s0 w e end) as [[s1 o1] p] eqn:E.
  assert (R1 : RS s1).
  { destruct m as [e|e]; [eapply RS_process_sys; eassumption|]. eapply RS_hs; [exact R0|eapply hs_process_user; exact E]. }
  destruct p; [|intros H; inversion H; subst; exact R1].
  destruct (crashed s1); [intros H; inversion H; subst; exact R1|].
  destruct (report_abnormal roles s1 w) as [[s2 o2] p2] eqn:E2. intros H; inversion H; subst.
  eapply RS_hs; [exact R1|eapply hs_report_abnormal; exact E2].
Qed.

Lemma pop1_held a : a_susp a = true -> nomu a -> a_susp (pop1 a) = true /\ nomu (pop1 a).
Proof.
  unfold pop1, nomu. intros Hs Hn. destruct (a_inflight a) as [m|] eqn:Em; [rewrite Em; auto|].
  destruct (a_sysq a); [|split; [exact Hs|exact I]]. rewrite Hs. rewrite Em. auto.
Qed.
Lemma RS_normalize s : RS s -> RS (normalize s).
Proof.
  intros R v a' H. rewrite get_normalize' in H. destruct (get s v) as [a|] eqn:Ea; [|discriminate]. cbn in H. inversion H; subst a'.
  intros Hr. rewrite pop1_st in Hr. destruct (R v a Ea Hr) as [Hs Hn]. apply pop1_held; assumption.
Qed.

Hypothesis Hsp : forall ro ru t r, In ro roles -> In ru (rules ro) -> In (ASpawn t r) (r_do ru) -> 0 <= t /\ r_on ru <> KTS.

Theorem RS_kstep s l s' o : Inv s -> RS s -> kstep roles s l = Some (s', o) -> RS s'.
Proof.
  intros HI R. destruct l; cbn [kstep].
  - destruct (run_actor roles s (Z.to_nat u)) as [[s1 o1]|] eqn:E; [|discriminate]. intros H; inversion H; subst.
    apply RS_normalize. eapply RS_run_actor; [exact R| |exact E].
    intros a Ha. destruct HI as (_ & _ & HH3 & _). destruct (HH3 _ a Ha) as [Hr|[Ht|Hz]]; [right; exact Hr|left; exact Ht|].
    exfalso. destruct Hz as (_ & _ & Hi & _). unfold run_actor in E. rewrite Ha, Hi in E. discriminate.
  - destruct (next_serial s) as [s1 k] eqn:En. destruct (deliver_user s1 t rNone (UProbe n k)) as [s2 o2] eqn:E. intros H; inversion H; subst.
    apply RS_normalize. eapply RS_hs; [exact R|]. eapply hs_trans; [|eapply hs_deliver_user; exact E].
    apply hs_same_actors. unfold next_serial in En. inversion En; subst. reflexivity.
  - destruct (next_serial s) as [s1 k] eqn:En. destruct (deliver_user s1 t rGuard (UProbe n k)) as [s2 o2] eqn:E. intros H; inversion H; subst.
    apply RS_normalize. eapply RS_hs; [exact R|]. eapply hs_trans; [|eapply hs_deliver_user; exact E].
    apply hs_same_actors. unfold next_serial in En. inversion En; subst. reflexivity.
  - destruct (terminate s rGuard t g) as [s1 o1] eqn:E. intros H; inversion H; subst.
    apply RS_normalize. eapply RS_hs; [exact R|eapply hs_terminate; exact E].
  - destruct (spawn s guard_uid rGuard t r) as [[s1 o1] p] eqn:E. intros H; inversion H; subst.
    apply RS_normalize. eapply RS_hs; [exact R|eapply hs_spawn; exact E].
  - destruct (terminate s rGuard rGuard g) as [s1 o1] eqn:E. intros H; inversion H; subst.
    apply RS_normalize. eapply RS_hs; [exact R|eapply hs_terminate; exact E].
  - intros H; inversion H; subst. exact R.
Qed.

Lemma RS_init : RS kinit.
Proof.
  intros u a Ha Hr. unfold get, kinit in Ha; cbn [actors] in Ha.
  destruct u as [|[|u]]; cbn in Ha; [inversion Ha; subst; discriminate Hr|inversion Ha; subst; discriminate Hr|destruct u; discriminate].
Qed.

Theorem RS_run ls : forall s s' os, Forall lab_ok ls -> Inv s -> RS s -> krun roles s ls = Some (s', os) -> RS s'.
Proof.
  induction ls as [|l rest IH]; intros s s' os Hl HI R; cbn [krun].
  - intros H; inversion H; subst. exact R.
  - destruct (kstep roles s l) as [[s1 o]|] eqn:E; [|discriminate].
    destruct (krun roles s1 rest) as [[s2 os2]|] eqn:E2; [|discriminate]. intros H; inversion H; subst.
    inversion Hl; subst. eapply IH; [eassumption| | |exact E2].
    + eapply kstep_Inv; eassumption.
    + eapply RS_kstep; eassumption.
Qed.

End H.

(* ---------- what the step of a system message can show: no user message is handled ---------- *)
Definition notp (o : list obs) : Prop := forall x i n sn sd, ~ In (OH x i (TP n) sn sd) o.
Lemma notp_nh o : nh o -> notp o.
Proof. intros H x i n sn sd. apply nh_in. exact H. Qed.
Lemma notp_app a b : notp a -> notp b -> notp (a ++ b).
Proof. intros Ha Hb x i n sn sd Hin. apply in_app_or in Hin. destruct Hin; [eapply Ha|eapply Hb]; eassumption. Qed.
Lemma notp_cons x o : (forall a i n sn sd, x <> OH a i (TP n) sn sd) -> notp o -> notp (x :: o).
Proof. intros Hx Ho a i n sn sd [Hin|Hin]; [eapply Hx; exact Hin|eapply Ho; exact Hin]. Qed.
Lemma notp_nil : notp []. Proof. intros x i n sn sd []. Qed.

Section N.
Variable roles : list role.

Lemma notp_handle s u t k snd s' o p : (forall n, t <> TP n) -> handle roles s u t k snd = (s', o, p) -> notp o.
Proof.
  intros Ht H. destruct (handle_obs roles _ _ _ _ _ _ _ _ H) as [Hn|(a & o1 & sd & _ & _ & -> & Hn)]; [apply notp_nh; exact Hn|].
  apply notp_cons; [|apply notp_nh; exact Hn]. intros a0 i n sn sd0 E. inversion E; subst. eapply Ht; reflexivity.
Qed.
Ltac ntp := intros ?; discriminate.

Lemma notp_bind (r : R) f s3 o3 p3 :
  (forall s1 o1 p1, r = (s1, o1, p1) -> notp o1) -> (forall s1 s2 o2 p2, f s1 = (s2, o2, p2) -> notp o2) ->
  r >>= f = (s3, o3, p3) -> notp o3.
Proof.
  intros H1 H2. destruct r as [[s1 o1] p1]. unfold bind. destruct p1.
  - intros H; inversion H; subst. eapply H1; reflexivity.
  - destruct (f s1) as [[s2 o2] p2] eqn:E. intros H; inversion H; subst. apply notp_app; [eapply H1; reflexivity|eapply H2; exact E].
Qed.

Lemma notp_try_terminated s u snd s' o p : try_terminated roles s u snd = (s', o, p) -> notp o.
Proof.
  unfold try_terminated. destruct (get s u) as [a|]; [|intros H; inversion H; subst; apply notp_nil].
  destruct (a_children a); [|intros H; inversion H; subst; apply notp_nil].
  destruct (a_st a); try (intros H; inversion H; subst; apply notp_nil).
  apply notp_bind.
  - intros s1 o1 p1 E. eapply notp_handle; [|exact E]. ntp.
  - intros s1 s2 o2 p2. destruct (a_parent a =? rNone); intros H; inversion H; subst; apply notp_nil.
Qed.
Lemma notp_start_instance s u self parent s' o p : start_instance roles s u self parent = (s', o, p) -> notp o.
Proof.
  unfold start_instance. destruct (handle roles s u TRD 0%nat self) as [[s1 o1] p1] eqn:E1.
  destruct (handle roles s1 u TL 0%nat parent) as [[s2 o2] p2] eqn:E2. intros H; inversion H; subst.
  apply notp_app; [eapply notp_handle; [|exact E1]; ntp|eapply notp_handle; [|exact E2]; ntp].
Qed.
Lemma notp_try_restarted s u snd s' o p : try_restarted roles s u snd = (s', o, p) -> notp o.
Proof.
  unfold try_restarted. destruct (get s u) as [a|]; [|intros H; inversion H; subst; apply notp_nil].
  destruct (a_children a); [|intros H; inversion H; subst; apply notp_nil].
  destruct (a_st a); try (intros H; inversion H; subst; apply notp_nil).
  destruct (provide s (a_tok a)) as [s0 inst].
  apply notp_bind; [intros s1 o1 p1 E; eapply notp_handle; [|exact E]; ntp|].
  intros s1 s2 o2 p2. apply notp_bind; [intros sa oa pa E; eapply notp_handle; [|exact E]; ntp|].
  intros sa sb ob pb. apply notp_start_instance.
Qed.
Lemma notp_apply_directive s u r d snd s' o p : apply_directive roles s u r d snd = (s', o, p) -> notp o.
Proof.
  unfold apply_directive. destruct (get s u) as [a|]; [|intros H; inversion H; subst; apply notp_nil].
  assert (D : forall c, notp [ODec (a_tok a) (ar_vref r) d c]) by (intros c; apply notp_cons; [intros; discriminate|apply notp_nil]).
  destruct d.
  - intros H; inversion H; subst. apply D.
  - destruct (terminate s (a_tok a) (ar_vref r) false) as [s1 o1] eqn:E1.
    destruct (try_terminated roles s1 u snd) as [[s2 o2] p2] eqn:E2. intros H; inversion H; subst.
    apply notp_cons; [intros; discriminate|]. apply notp_app; [apply notp_nh; eapply nh_terminate; exact E1|eapply notp_try_terminated; exact E2].
  - intros H; inversion H; subst. apply D.
  - destruct (escalate s u r) as [[s1 o1] p1] eqn:E. intros H; inversion H; subst.
    apply notp_cons; [intros; discriminate|apply notp_nh; eapply nh_escalate; exact E].
  - intros H; inversion H; subst. apply D.
Qed.
Lemma notp_on_accident s u r snd s' o p : on_accident roles s u r snd = (s', o, p) -> notp o.
Proof.
  unfold on_accident. destruct (get s u) as [a|]; [|intros H; inversion H; subst; apply notp_nil].
  destruct (ar_strategy r); [apply notp_apply_directive|].
  destruct (sup (role_of roles a)); [|apply notp_apply_directive].
  intros H. apply notp_nh. eapply nh_escalate; exact H.
Qed.

Lemma notp_process_sys s u e s' o p : process_sys roles s u e = (s', o, p) -> notp o.
Proof.
  unfold process_sys. destruct (get s u) as [a|]; [|intros H; inversion H; subst; apply notp_nil].
  match goal with |- context [if ?d then _ else _] => destruct d end; [intros H; inversion H; subst; apply notp_nil|].
  destruct (e_msg e) as [| |g|who| |r| | | | |].
  - apply notp_bind; [intros s1 o1 p1 E; eapply notp_handle; [|exact E]; ntp|]. intros s1 s2 o2 p2 H; inversion H; subst; apply notp_nil.
  - apply notp_handle. ntp.
  - destruct (a_st a); try (intros H; inversion H; subst; apply notp_nil);
      (apply notp_bind; [intros s1 o1 p1 E; eapply notp_handle; [|exact E]; ntp|];
       intros s1 s2 o2 p2; destruct (get s1 u) as [a3|]; [|intros H; inversion H; subst; apply notp_nil];
       destruct (terminate_all s1 (a_tok a3) (a_children a3) (g || a_graceful a3)) as [s4 o4] eqn:E4;
       destruct (try_terminated roles s4 u (e_snd e)) as [[s5 o5] p5] eqn:E5; intros H; inversion H; subst;
       apply notp_app; [apply notp_nh; eapply nh_terminate_all; exact E4|eapply notp_try_terminated; exact E5]).
  - apply notp_bind.
    + intros s1 o1 p1 E. eapply notp_handle; [|exact E]. destruct (who =? a_tok a); ntp.
    + intros s1 s2 o2 p2. destruct (get s1 u) as [a2|]; [|intros H; inversion H; subst; apply notp_nil].
      destruct (a_st a2); try (intros H; inversion H; subst; apply notp_nil); [apply notp_try_restarted|apply notp_try_terminated].
  - destruct (a_st a); try (intros H; inversion H; subst; apply notp_nil).
    apply notp_bind; [intros s1 o1 p1 E; eapply notp_handle; [|exact E]; ntp|].
    intros s1 s2 o2 p2. destruct (get s1 u) as [a2|]; [|intros H; inversion H; subst; apply notp_nil].
    destruct (terminate_all s1 (a_tok a2) (a_children a2) false) as [s3 o3] eqn:E3.
    destruct (try_restarted roles s3 u (e_snd e)) as [[s4 o4] p4] eqn:E4. intros H; inversion H; subst.
    apply notp_app; [apply notp_nh; eapply nh_terminate_all; exact E3|eapply notp_try_restarted; exact E4].
  - apply notp_on_accident.
  - destruct (e_snd e =? a_parent a); [intros H; inversion H; subst; apply notp_nil|].
    destruct (st_ge_terminating (a_st a)); intros H; inversion H; subst; apply notp_nil.
  - intros H; inversion H; subst; apply notp_nil.
  - intros H; inversion H; subst; apply notp_nil.
  - intros H; inversion H; subst; apply notp_nil.
  - destruct (a_st a); intros H; inversion H; subst; apply notp_nil.
Qed.

Hypothesis Hsp : forall ro ru t r, In ro roles -> In ru (rules ro) -> In (ASpawn t r) (r_do ru) -> 0 <= t /\ r_on ru <> KTS.

(* in every reachable state a restarting actor is suspended with no user message in flight *)
Theorem restarting_is_suspended ls s os u a :
  Forall lab_ok ls -> krun roles kinit ls = Some (s, os) -> get s u = Some a -> a_st a = Restarting ->
  a_susp a = true /\ match a_inflight a with Some (MU _) => False | _ => True end.
Proof.
  intros Hl Hr Ha Hst. exact (RS_run roles Hsp ls kinit s os Hl Inv_init RS_init Hr u a Ha Hst).
Qed.

(* ... hence a step of its mailbox hands no user message to the actor: nothing with a user-message trigger is handled *)
Theorem restarting_handles_no_user ls s os u a s' o :
  Forall lab_ok ls -> krun roles kinit ls = Some (s, os) -> get s u = Some a -> a_st a = Restarting ->
  kstep roles s (LRun (Z.of_nat u)) = Some (s', o) -> notp o.
Proof.
  intros Hl Hr Ha Hst. destruct (restarting_is_suspended ls s os u a Hl Hr Ha Hst) as [_ Hn].
  cbn [kstep]. rewrite Nat2Z.id. unfold run_actor. rewrite Ha. destruct (a_inflight a) as [m|]; [|discriminate].
  destruct m as [e|e]; [|destruct Hn].
  destruct (process_sys roles (upd_actor s u (w_inflight None)) u e) as [[s1 o1] p] eqn:E.
  pose proof (notp_process_sys _ _ _ _ _ _ E) as N1.
  destruct p.
  - destruct (crashed s1); [intros H; inversion H; subst; exact N1|].
    destruct (report_abnormal roles s1 u) as [[s2 o2] p2] eqn:E2. intros H; inversion H; subst.
    apply notp_app; [exact N1|apply notp_nh; eapply nh_report_abnormal; exact E2].
  - intros H; inversion H; subst. exact N1.
Qed.

End N.
