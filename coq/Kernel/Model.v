(* MV.Kernel.Model — layer B: message-step model of the vivid actor kernel.
   Transcribes engine/vivid/actor_context.go (processMessage, onTerminate, tryTerminated, onRestart,
   tryRestarted, onTerminated, onWatch/onUnWatch, ReportAbnormal, Escalate, onAccidentRecordProcess,
   Restart/Stop/Resume, ActorOf, Terminate, ProcessUserMessage), actor_process.go (delivery: suspend /
   resume are applied at delivery time), abyss.go, actor_system.go (Shutdown, guard, subscription actor)
   and the mailbox specification proved for the mailbox machine (C01/C02): one message at a time, system
   queue first, user queue only while not suspended, FIFO.

   An actor is an OBJECT (uid = creation index of its mailbox); the registry maps an address (token) to the
   object currently registered under it. A terminated object keeps draining its mailbox (dead letters), and a
   new object may be registered under the same address meanwhile — exactly as in the Go code.

   User code is DATA: a role = list of rules (trigger -> list of actions); the theorems quantify over all
   role tables. A step is a label: run one message of one object, or an external action.
   No proofs in this file. *)
From MV Require Import Lib.ListX.
Open Scope Z_scope.

Definition ref := Z.                       (* address token; -1 none, -2 guard (/user), -3 other, -4 /user/sub *)
Definition rNone : ref := -1.
Definition rGuard : ref := -2.
Definition rSub : ref := -4.

Inductive directive := DRestart | DStop | DResume | DEscalate
                   | DRestartAll.          (* the supervisor restarts all of its children (all-for-one) *)
Inductive trigk := KL | KRD | KRG | KT | KTS | KTO | KP.
Inductive trig := TL | TRD | TRG | TT | TTS | TTO (who : ref) | TP (n : Z).
Inductive action :=
| ATell (t : ref) (n : Z) | AAsk (t : ref) (n : Z) | AReply (n : Z) | ABcast (n : Z)
| ASpawn (t : ref) (r : nat) | ATerm (t : ref) (g : bool) | AWatch (t : ref) | AUnwatch (t : ref)
| AReport | APanic.
Record rule := { r_on : trigk; r_n : Z; r_inst : Z; r_do : list action }.
Record role := { victim : option directive; sup : list directive; rules : list rule }.

Inductive label :=
| LRun (u : Z) | LTell (t : ref) (n : Z) | LAsk (t : ref) (n : Z) | LTerm (t : ref) (g : bool)
| LSpawn (t : ref) (r : nat) | LShutdown (g : bool) | LEnd.

Inductive obs :=
| OH (a : ref) (inst : nat) (tr : trig) (serial : nat) (snd : ref)
| OD (snd rcv : ref) (serial : nat)
| OS (snd rcv : ref) (serial : nat)
| OSp (a who : ref) | OTr (a who : ref) (g : bool) | OW (a who : ref) | OUw (a who : ref)
| OF (a : ref) (inst : nat) | OXs (a who : ref)
| ODec (sup vic : ref) (d : directive) (count : nat)
| OEnd (closed : bool) (regs : list ref)
| OCrash                                    (* the Go process would crash (escalation beyond the root) *)
| OBad.                                     (* never produced by the model *)

Inductive status := Alive | Restarting | Terminating | Terminated.
Definition not_alive (s : status) : bool := match s with Alive => false | _ => true end.
Definition st_ge_terminating (s : status) : bool := match s with Terminating | Terminated => true | _ => false end.

(* accident record: victim object, victim address, victim's own strategy *)
Record arec := { ar_victim : nat; ar_vref : ref; ar_strategy : option directive }.

Inductive smsg :=
| SLaunch | SRestarted | STerminate (g : bool) | STerminatedOf (who : ref) | SRestart
| SAccident (r : arec) | SWatch | SUnwatch | SSuspend | SResume
| SResumeReq.          (* a supervisor's Resume decision: queued, applied by the actor itself (onResume) *)
Inductive umsg := UProbe (n : Z) (serial : nat) | UTermG | UPub.

Record env (A : Type) := { e_snd : ref; e_rcv : ref; e_msg : A }.
Arguments e_snd {A}. Arguments e_rcv {A}. Arguments e_msg {A}.
Inductive anymsg := MS (e : env smsg) | MU (e : env umsg).

Record actor := {
  a_tok : ref; a_parent : ref; a_role : nat; a_children : list ref; a_st : status;
  a_sysq : list (env smsg); a_userq : list (env umsg); a_inflight : option anymsg;
  a_susp : bool; a_inst : nat; a_graceful : bool; a_watchers : list ref; a_accidents : nat
}.

Record kstate := {
  actors : list actor;                     (* by uid *)
  registry : list (ref * nat);             (* address -> uid *)
  provided : list (ref * nat);             (* address -> number of instances the provider has produced *)
  serial : nat; closed : bool; crashed : bool
}.

(* ---------- small helpers ---------- *)
Fixpoint lookup {A} (k : ref) (l : list (ref * A)) : option A :=
  match l with [] => None | (k', v) :: t => if k =? k' then Some v else lookup k t end.
Fixpoint remove_key {A} (k : ref) (l : list (ref * A)) : list (ref * A) :=
  match l with [] => [] | (k', v) :: t => if k =? k' then remove_key k t else (k', v) :: remove_key k t end.
Definition set_key {A} (k : ref) (v : A) (l : list (ref * A)) := (k, v) :: remove_key k l.
Fixpoint remove_ref (k : ref) (l : list ref) : list ref :=
  match l with [] => [] | x :: t => if k =? x then remove_ref k t else x :: remove_ref k t end.
Definition mem_ref (k : ref) (l : list ref) : bool := existsb (Z.eqb k) l.
Fixpoint insert_sorted (k : ref) (l : list ref) : list ref :=
  match l with
  | [] => [k]
  | x :: t => if k <? x then k :: l else if k =? x then l else x :: insert_sorted k t
  end.

Definition get (s : kstate) (u : nat) : option actor := nth_error (actors s) u.
Definition set_actors (s : kstate) (l : list actor) : kstate :=
  {| actors := l; registry := registry s; provided := provided s; serial := serial s; closed := closed s; crashed := crashed s |}.
Definition put (s : kstate) (u : nat) (a : actor) : kstate := set_actors s (upd u a (actors s)).
Definition set_registry (s : kstate) (r : list (ref * nat)) : kstate :=
  {| actors := actors s; registry := r; provided := provided s; serial := serial s; closed := closed s; crashed := crashed s |}.

Definition upd_actor (s : kstate) (u : nat) (f : actor -> actor) : kstate :=
  match get s u with Some a => put s u (f a) | None => s end.

Definition w_st x (a : actor) := {| a_tok := a_tok a; a_parent := a_parent a; a_role := a_role a; a_children := a_children a; a_st := x;
  a_sysq := a_sysq a; a_userq := a_userq a; a_inflight := a_inflight a; a_susp := a_susp a; a_inst := a_inst a;
  a_graceful := a_graceful a; a_watchers := a_watchers a; a_accidents := a_accidents a |}.
Definition w_children x (a : actor) := {| a_tok := a_tok a; a_parent := a_parent a; a_role := a_role a; a_children := x; a_st := a_st a;
  a_sysq := a_sysq a; a_userq := a_userq a; a_inflight := a_inflight a; a_susp := a_susp a; a_inst := a_inst a;
  a_graceful := a_graceful a; a_watchers := a_watchers a; a_accidents := a_accidents a |}.
Definition w_sysq x (a : actor) := {| a_tok := a_tok a; a_parent := a_parent a; a_role := a_role a; a_children := a_children a; a_st := a_st a;
  a_sysq := x; a_userq := a_userq a; a_inflight := a_inflight a; a_susp := a_susp a; a_inst := a_inst a;
  a_graceful := a_graceful a; a_watchers := a_watchers a; a_accidents := a_accidents a |}.
Definition w_userq x (a : actor) := {| a_tok := a_tok a; a_parent := a_parent a; a_role := a_role a; a_children := a_children a; a_st := a_st a;
  a_sysq := a_sysq a; a_userq := x; a_inflight := a_inflight a; a_susp := a_susp a; a_inst := a_inst a;
  a_graceful := a_graceful a; a_watchers := a_watchers a; a_accidents := a_accidents a |}.
Definition w_inflight x (a : actor) := {| a_tok := a_tok a; a_parent := a_parent a; a_role := a_role a; a_children := a_children a; a_st := a_st a;
  a_sysq := a_sysq a; a_userq := a_userq a; a_inflight := x; a_susp := a_susp a; a_inst := a_inst a;
  a_graceful := a_graceful a; a_watchers := a_watchers a; a_accidents := a_accidents a |}.
Definition w_susp x (a : actor) := {| a_tok := a_tok a; a_parent := a_parent a; a_role := a_role a; a_children := a_children a; a_st := a_st a;
  a_sysq := a_sysq a; a_userq := a_userq a; a_inflight := a_inflight a; a_susp := x; a_inst := a_inst a;
  a_graceful := a_graceful a; a_watchers := a_watchers a; a_accidents := a_accidents a |}.
Definition w_inst x (a : actor) := {| a_tok := a_tok a; a_parent := a_parent a; a_role := a_role a; a_children := a_children a; a_st := a_st a;
  a_sysq := a_sysq a; a_userq := a_userq a; a_inflight := a_inflight a; a_susp := a_susp a; a_inst := x;
  a_graceful := a_graceful a; a_watchers := a_watchers a; a_accidents := a_accidents a |}.
Definition w_graceful x (a : actor) := {| a_tok := a_tok a; a_parent := a_parent a; a_role := a_role a; a_children := a_children a; a_st := a_st a;
  a_sysq := a_sysq a; a_userq := a_userq a; a_inflight := a_inflight a; a_susp := a_susp a; a_inst := a_inst a;
  a_graceful := x; a_watchers := a_watchers a; a_accidents := a_accidents a |}.
Definition w_watchers x (a : actor) := {| a_tok := a_tok a; a_parent := a_parent a; a_role := a_role a; a_children := a_children a; a_st := a_st a;
  a_sysq := a_sysq a; a_userq := a_userq a; a_inflight := a_inflight a; a_susp := a_susp a; a_inst := a_inst a;
  a_graceful := a_graceful a; a_watchers := x; a_accidents := a_accidents a |}.
Definition w_accidents x (a : actor) := {| a_tok := a_tok a; a_parent := a_parent a; a_role := a_role a; a_children := a_children a; a_st := a_st a;
  a_sysq := a_sysq a; a_userq := a_userq a; a_inflight := a_inflight a; a_susp := a_susp a; a_inst := a_inst a;
  a_graceful := a_graceful a; a_watchers := a_watchers a; a_accidents := x |}.

(* result of a (sub-)operation: new state, observations, did the Go code panic (rest of the step is skipped) *)
Definition R := (kstate * list obs * bool)%type.
Definition ok (s : kstate) (o : list obs) : R := (s, o, false).
Definition bind (r : R) (f : kstate -> R) : R :=
  let '(s, o, p) := r in
  if p then r else let '(s', o', p') := f s in (s', o ++ o', p').
Notation "r >>= f" := (bind r f) (at level 50, left associativity).

Definition mk_env {A} (snd rcv : ref) (m : A) : env A := {| e_snd := snd; e_rcv := rcv; e_msg := m |}.

(* ---------- delivery (deliveryUserMessage / deliverySystemMessage -> registry -> process) ---------- *)

(* dead letters: abyss.DeliveryUserMessage. The event is published on AbyssTopic through the guard context:
   an Ask to the subscription actor (one more user message in its queue), unless the dead letter was
   addressed to the subscription actor itself or is itself a publish request. *)
Definition to_sub (s : kstate) : kstate :=
  match lookup rSub (registry s) with
  | Some u => upd_actor s u (fun a => w_userq (a_userq a ++ [mk_env rGuard rSub UPub]) a)
  | None => s           (* the publish request itself becomes a dead letter and is swallowed *)
  end.

Definition abyss_user (s : kstate) (snd rcv : ref) (m : umsg) : kstate * list obs :=
  match m with
  | UPub => (s, [])
  | UProbe n sn => ((if rcv =? rSub then s else to_sub s), [OD snd rcv sn])
  | UTermG => ((if rcv =? rSub then s else to_sub s), [])
  end.

Definition deliver_user (s : kstate) (target snd : ref) (m : umsg) : kstate * list obs :=
  match lookup target (registry s) with
  | Some u =>
      match get s u with
      | Some a => (put s u (w_userq (a_userq a ++ [mk_env snd target m]) a), [])
      | None => abyss_user s snd target m       (* cannot happen: the registry only holds existing objects *)
      end
  | None => abyss_user s snd target m
  end.

(* raw: the system message goes into the queue of object u *)
Definition push_sys (s : kstate) (u : nat) (e : env smsg) : kstate :=
  upd_actor s u (fun a =>
    match e_msg e with
    | SSuspend => w_susp true a           (* actorProcess.delivery: applied at once, nothing is queued *)
    | SResume => w_susp false a
    | _ => w_sysq (a_sysq a ++ [e]) a
    end).

Definition deliver_sys (s : kstate) (target snd : ref) (m : smsg) : kstate :=
  match lookup target (registry s) with
  | Some u => push_sys s u (mk_env snd target m)
  | None =>
      (* abyss.DeliverySystemMessage: a Watch is answered with Terminated(receiver); everything else is logged *)
      match m with
      | SWatch =>
          match lookup snd (registry s) with
          | Some w => push_sys s w (mk_env target snd (STerminatedOf target))
          | None => s
          end
      | _ => s
      end
  end.

(* ctx.Terminate(target, gracefully) *)
Definition terminate (s : kstate) (self target : ref) (g : bool) : kstate * list obs :=
  if g then deliver_user s target rNone UTermG
  else (deliver_sys s target self (STerminate false), []).

(* ---------- mailbox runner: eager pop (system queue first; user queue only while not suspended) ---------- *)
Definition pop1 (a : actor) : actor :=
  match a_inflight a with
  | Some _ => a
  | None =>
      match a_sysq a with
      | e :: t => w_inflight (Some (MS e)) (w_sysq t a)
      | [] =>
          if a_susp a then a
          else match a_userq a with
               | e :: t => w_inflight (Some (MU e)) (w_userq t a)
               | [] => a
               end
      end
  end.
Definition normalize (s : kstate) : kstate := set_actors s (map pop1 (actors s)).

(* ---------- user code ---------- *)
Definition trigk_of (t : trig) : trigk :=
  match t with TL => KL | TRD => KRD | TRG => KRG | TT => KT | TTS => KTS | TTO _ => KTO | TP _ => KP end.
Definition trigk_eqb (a b : trigk) : bool :=
  match a, b with KL, KL | KRD, KRD | KRG, KRG | KT, KT | KTS, KTS | KTO, KTO | KP, KP => true | _, _ => false end.
Definition trig_n (t : trig) : Z := match t with TP n => n | TTO w => w | _ => -1 end.   (* a rule may name the probe / the terminated actor *)

Fixpoint find_rule (rs : list rule) (t : trig) (inst : nat) : list action :=
  match rs with
  | [] => []
  | r :: rest =>
      if trigk_eqb (r_on r) (trigk_of t) && ((r_n r =? -1) || (r_n r =? trig_n t)) &&
         ((r_inst r =? -1) || (r_inst r =? Z.of_nat inst))
      then r_do r else find_rule rest t inst
  end.

Definition next_serial (s : kstate) : kstate * nat :=
  let n := S (serial s) in
  ({| actors := actors s; registry := registry s; provided := provided s; serial := n; closed := closed s; crashed := crashed s |}, n).

Definition provide (s : kstate) (t : ref) : kstate * nat :=
  let k := match lookup t (provided s) with Some k => k | None => 0%nat end in
  ({| actors := actors s; registry := registry s; provided := set_key t (S k) (provided s); serial := serial s;
      closed := closed s; crashed := crashed s |}, k).

Definition new_actor (tok parent : ref) (r : nat) (inst : nat) : actor :=
  {| a_tok := tok; a_parent := parent; a_role := r; a_children := []; a_st := Alive; a_sysq := []; a_userq := [];
     a_inflight := None; a_susp := false; a_inst := inst; a_graceful := false; a_watchers := []; a_accidents := 0 |}.

(* end of ActorOf: a parent that is restarting or terminating (it has already told its children to stop) or terminated
   stops the new child at once — otherwise the restart or termination in progress would wait for it for ever, or the
   child would outlive it *)
Definition stop_if_parent_gone (s : kstate) (u : nat) (self t : ref) : R :=
  match get s u with
  | Some pa => if not_alive (a_st pa) then let '(s1, o1) := terminate s self t (a_graceful pa) in ok s1 o1 else ok s []
  | None => ok s []
  end.

(* ctx.ActorOf by object u (address self) *)
Definition spawn (s : kstate) (u : nat) (self t : ref) (r : nat) : R :=
  let '(s1, inst) := provide s t in                      (* newActorContext: provider.Provide() *)
  let uid := length (actors s1) in                       (* the mailbox is created before Register *)
  match lookup t (registry s1) with
  | Some _ =>
      (* panic "actor ... already exists": the new object is never registered, never launched and unreachable; its status
         is never read — it is marked Terminated here so that "not registered" implies "terminated" in every state *)
      (set_actors s1 (actors s1 ++ [w_st Terminated (new_actor t self r inst)]), [], true)
  | None =>
      let s2 := set_actors s1 (actors s1 ++ [new_actor t self r inst]) in
      let s3 := set_registry s2 (set_key t uid (registry s2)) in
      let s4 := upd_actor s3 u (fun a => w_children (insert_sorted t (a_children a)) a) in
      stop_if_parent_gone (deliver_sys s4 t self SLaunch) u self t
  end.

Section Behaviour.
Variable roles : list role.

Definition empty_role : role := {| victim := None; sup := []; rules := [] |}.
Definition role_of (a : actor) : role :=
  if (a_tok a =? rGuard) || (a_tok a =? rSub) then empty_role   (* system actors carry no script *)
  else nth (a_role a) roles empty_role.

(* ctx.Escalate(record) *)
Definition escalate (s : kstate) (u : nat) (r : arec) : R :=
  match get s u with
  | None => ok s []
  | Some a =>
      if a_parent a =? rNone then
        ({| actors := actors s; registry := registry s; provided := provided s; serial := serial s;
            closed := closed s; crashed := true |}, [OCrash], true)
      else ok (deliver_sys s (a_parent a) (a_tok a) (SAccident r)) []
  end.

(* ctx.ReportAbnormal *)
Definition report_abnormal (s : kstate) (u : nat) : R :=
  match get s u with
  | None => ok s []
  | Some a =>
      match a_st a with
      | Alive =>
          let s1 := upd_actor s u (fun a => w_accidents (S (a_accidents a)) a) in
          let s2 := deliver_sys s1 (a_tok a) (a_tok a) SSuspend in
          escalate s2 u {| ar_victim := u; ar_vref := a_tok a; ar_strategy := victim (role_of a) |}
      | _ => ok s []
      end
  end.

Fixpoint send_each (s : kstate) (self : ref) (targets : list ref) (n : Z) (sn : nat) : kstate * list obs :=
  match targets with
  | [] => (s, [])
  | t :: rest =>
      let '(s1, o1) := deliver_user s t self (UProbe n sn) in
      let '(s2, o2) := send_each s1 self rest n sn in
      (s2, o1 ++ o2)
  end.

(* one scripted action performed by object u; cur_snd = sender of the message being handled *)
Definition do_action (s : kstate) (u : nat) (cur_snd : ref) (act : action) : R :=
  match get s u with
  | None => ok s []
  | Some a =>
      let self := a_tok a in
      match act with
      | ATell t n => let '(s1, sn) := next_serial s in let '(s2, o) := deliver_user s1 t rNone (UProbe n sn) in ok s2 (OS self t sn :: o)
      | AAsk t n => let '(s1, sn) := next_serial s in let '(s2, o) := deliver_user s1 t self (UProbe n sn) in ok s2 (OS self t sn :: o)
      | AReply n =>       (* ctx.Reply = Ask(ctx.Sender(), m); without a sender (message sent by Tell) the receiver is nil: a dead letter *)
          let '(s1, sn) := next_serial s in let '(s2, o) := deliver_user s1 cur_snd self (UProbe n sn) in ok s2 (OS self cur_snd sn :: o)
      | ABcast n =>
          let '(s1, sn) := next_serial s in let '(s2, o) := send_each s1 self (a_children a) n sn in
          ok s2 (map (fun t => OS self t sn) (a_children a) ++ o)
      | ASpawn t r => let '(s1, o, p) := spawn s u self t r in (s1, OSp self t :: o, p)
      | ATerm t g => let '(s1, o) := terminate s self t g in ok s1 (OTr self t g :: o)
      | AWatch t => ok (deliver_sys s t self SWatch) [OW self t]
      | AUnwatch t => ok (deliver_sys s t self SUnwatch) [OUw self t]
      | AReport => let '(s1, o, p) := report_abnormal s u in (s1, OF self (a_inst a) :: o, p)
      | APanic => (s, [OF self (a_inst a)], true)
      end
  end.

Fixpoint do_actions (s : kstate) (u : nat) (cur_snd : ref) (acts : list action) : R :=
  match acts with
  | [] => ok s []
  | act :: rest => do_action s u cur_snd act >>= (fun s' => do_actions s' u cur_snd rest)
  end.

(* ctx.actor.OnReceive(ctx) for a message the scripted actors react to *)
Definition is_sys (t : ref) : bool := (t =? rGuard) || (t =? rSub).

(* [quiet]: the message is addressed to a system actor (/user, /user/sub): not instrumented, no script *)
Definition handle_q (quiet : bool) (s : kstate) (u : nat) (t : trig) (sn : nat) (snd : ref) : R :=
  match get s u with
  | None => ok s []
  | Some a =>
      if quiet then ok s []
      else
        let shown := match t with TP _ => snd | _ => rNone end in
        let '(s1, o, p) := do_actions s u snd (find_rule (rules (role_of a)) t (a_inst a)) in
        (* the handlers of an actor that is restarting or terminating are part of that lifecycle step: a panic in one of
           them is logged and the step goes on *)
        (s1, OH (a_tok a) (a_inst a) t sn shown :: o, p && negb (not_alive (a_st a)))
  end.
Definition handle (s : kstate) (u : nat) (t : trig) (sn : nat) (snd : ref) : R :=
  match get s u with
  | None => ok s []
  | Some a => handle_q (is_sys (a_tok a)) s u t sn snd
  end.

Fixpoint terminate_all (s : kstate) (self : ref) (cs : list ref) (g : bool) : kstate * list obs :=
  match cs with
  | [] => (s, [])
  | c :: rest => let '(s1, o1) := terminate s self c g in let '(s2, o2) := terminate_all s1 self rest g in (s2, o1 ++ o2)
  end.

Fixpoint restart_all (s : kstate) (self : ref) (cs : list ref) : kstate :=
  match cs with [] => s | c :: rest => restart_all (deliver_sys s c self SRestart) self rest end.

Fixpoint notify_all (s : kstate) (self : ref) (ws : list ref) : kstate :=
  match ws with [] => s | w :: rest => notify_all (deliver_sys s w self (STerminatedOf self)) self rest end.

(* tryTerminated *)
Definition try_terminated (s : kstate) (u : nat) (cur_snd : ref) : R :=
  match get s u with
  | None => ok s []
  | Some a =>
      match a_children a, a_st a with
      | [], Terminating =>
          let s1 := upd_actor s u (w_st Terminated) in
          handle s1 u TTS 0%nat cur_snd >>= (fun s2 =>
            let s3 := set_registry s2 (remove_key (a_tok a) (registry s2)) in       (* rc.Unregister: by address *)
            let ws := filter (fun w => negb (w =? a_parent a)) (a_watchers a) in    (* the parent is notified below *)
            let s4 := notify_all s3 (a_tok a) ws in
            if a_parent a =? rNone then
              ok {| actors := actors s4; registry := registry s4; provided := provided s4; serial := serial s4;
                    closed := true; crashed := crashed s4 |} []
            else ok (deliver_sys s4 (a_parent a) (a_tok a) (STerminatedOf (a_tok a))) [])
      | _, _ => ok s []
      end
  end.

(* OnRestarted, then OnLaunch (which also clears the accident record), of the fresh instance. A failure inside OnRestarted
   does not keep OnLaunch from being handled (as when the two were separate messages); it is reported once both have run *)
Definition start_instance (s : kstate) (u : nat) (self parent : ref) : R :=
  let '(s1, o1, p1) := handle s u TRD 0%nat self in
  let '(s2, o2, p2) := handle s1 u TL 0%nat parent in
  ((if p2 then s2 else upd_actor s2 u (w_accidents 0%nat)), o1 ++ o2, p1 || p2).

(* tryRestarted *)
Definition try_restarted (s : kstate) (u : nat) (cur_snd : ref) : R :=
  match get s u with
  | None => ok s []
  | Some a =>
      match a_children a, a_st a with
      | [], Restarting =>
          (* the new instance is obtained from the provider FIRST (a provider that fails must not leave behind an old instance
             that has already handled its own OnTerminated), then the old instance handles its last two messages *)
          let '(s0, inst) := provide s (a_tok a) in
          handle s0 u TT 0%nat cur_snd >>= (fun s1 =>
          handle s1 u TTS 0%nat cur_snd >>= (fun s2 =>
            let s4 := upd_actor s2 u (fun b => w_st Alive (w_inst inst b)) in
            let s5 := deliver_sys s4 (a_tok a) (a_tok a) SResume in
            (* the fresh instance starts its life within the same step: OnRestarted and OnLaunch are handled before
               anything that was already queued when the restart completed *)
            start_instance s5 u (a_tok a) (a_parent a)))
      | _, _ => ok s []
      end
  end.

Definition nth_dir (l : list directive) (k : nat) : directive :=
  nth (Nat.min k (length l - 1)) l DStop.

(* apply a directive as supervisor object u on the victim of r *)
Definition apply_directive (s : kstate) (u : nat) (r : arec) (d : directive) (cur_snd : ref) : R :=
  match get s u with
  | None => ok s []
  | Some a =>
      let self := a_tok a in
      let count := match get s (ar_victim r) with Some v => a_accidents v | None => 0%nat end in
      let o := [ODec self (ar_vref r) d count] in
      match d with
      | DRestart => ok (deliver_sys s (ar_vref r) self SRestart) o
      | DStop =>
          let '(s1, o1) := terminate s self (ar_vref r) false in
          let '(s2, o2, p) := try_terminated s1 u cur_snd in (s2, o ++ o1 ++ o2, p)
      | DResume => ok (deliver_sys s (ar_vref r) self SResumeReq) o
      | DEscalate => let '(s1, o1, p) := escalate s u r in (s1, o ++ o1, p)
      | DRestartAll => ok (restart_all s self (a_children a)) o
      end
  end.

(* onAccidentRecordProcess *)
Definition on_accident (s : kstate) (u : nat) (r : arec) (cur_snd : ref) : R :=
  match get s u with
  | None => ok s []
  | Some a =>
      match ar_strategy r with
      | Some d => apply_directive s u r d cur_snd
      | None =>
          match sup (role_of a) with
          | [] => escalate s u r
          | l =>
              let count := match get s (ar_victim r) with Some v => a_accidents v | None => 0%nat end in
              apply_directive s u r (nth_dir l (count - 1)) cur_snd
          end
      end
  end.

(* onTerminated, children bookkeeping: a terminated child was unregistered before its notice was sent; while an actor is
   registered under the address the notice is stale (earlier holder of the address, or the answer to a watch request
   that preceded the spawn) and the present child stays *)
Definition drop_child (s : kstate) (u : nat) (w : ref) : kstate :=
  match lookup w (registry s) with
  | Some _ => s
  | None => upd_actor s u (fun b => w_children (remove_ref w (a_children b)) b)
  end.

(* processMessage, system branch *)
Definition process_sys (s : kstate) (u : nat) (e : env smsg) : R :=
  match get s u with
  | None => ok s []
  | Some a =>
      let snd := e_snd e in
      let drop := match a_st a, e_msg e with Terminated, SWatch => false | Terminated, _ => true | _, _ => false end in
      if drop then ok s [] else     (* a terminated actor only answers watch requests that were still queued *)
      match e_msg e with
      | SLaunch =>
          handle s u TL 0%nat snd >>= (fun s1 => ok (upd_actor s1 u (w_accidents 0%nat)) [])
      | SRestarted => handle s u TRD 0%nat snd
      | STerminate g =>
          match a_st a with
          | Alive | Restarting =>
              let s1 := upd_actor s u (w_st Terminating) in
              let s2 := deliver_sys s1 (a_tok a) (a_tok a) SResume in
              handle s2 u TT 0%nat snd >>= (fun s3 =>
                match get s3 u with
                | None => ok s3 []
                | Some a3 =>
                    let '(s4, o4) := terminate_all s3 (a_tok a3) (a_children a3) (g || a_graceful a3) in
                    let '(s5, o5, p) := try_terminated s4 u snd in (s5, o4 ++ o5, p)
                end)
          | _ => ok s []
          end
      | STerminatedOf w =>
          let s1 := drop_child s u w in
          handle s1 u (if w =? a_tok a then TTS else TTO w) 0%nat snd >>= (fun s2 =>
            match get s2 u with
            | Some a2 =>
                match a_st a2 with
                | Terminating => try_terminated s2 u snd
                | Restarting => try_restarted s2 u snd
                | _ => ok s2 []
                end
            | None => ok s2 []
            end)
      | SRestart =>
          match a_st a with
          | Alive =>
              let s0 := upd_actor s u (w_st Restarting) in
              let s1 := deliver_sys s0 (a_tok a) (a_tok a) SSuspend in     (* no user message until the new instance is in *)
              handle s1 u TRG 0%nat snd >>= (fun s2 =>
                match get s2 u with
                | None => ok s2 []
                | Some a2 =>
                    let '(s3, o3) := terminate_all s2 (a_tok a2) (a_children a2) false in
                    let '(s4, o4, p) := try_restarted s3 u snd in (s4, o3 ++ o4, p)
                end)
          | _ => ok s []       (* only a living actor can be restarted *)
          end
      | SAccident r => on_accident s u r snd
      | SWatch =>
          if snd =? a_parent a then ok s []      (* the parent is notified anyway, exactly once *)
          else if st_ge_terminating (a_st a) then ok (deliver_sys s snd (a_tok a) (STerminatedOf (a_tok a))) []
          else ok (upd_actor s u (fun b => w_watchers (insert_sorted snd (a_watchers b)) b)) []
      | SUnwatch => ok (upd_actor s u (fun b => w_watchers (remove_ref snd (a_watchers b)) b)) []
      | SSuspend | SResume => ok s []
      | SResumeReq =>      (* onResume: only a living actor resumes; a restart or termination under way resumes the mailbox itself *)
          match a_st a with
          | Alive => ok (deliver_sys s (a_tok a) (a_tok a) SResume) []
          | _ => ok s []
          end
      end
  end.

(* ProcessUserMessage *)
Definition process_user (s : kstate) (u : nat) (e : env umsg) : R :=
  match get s u with
  | None => ok s []
  | Some a =>
      if st_ge_terminating (a_st a) then
        let '(s1, o) := abyss_user s (e_snd e) (e_rcv e) (e_msg e) in ok s1 o
      else
        match e_msg e with
        | UTermG =>
            let s1 := upd_actor s u (w_graceful true) in
            ok (deliver_sys s1 (a_tok a) (a_tok a) (STerminate false)) []
        | UProbe n sn => handle_q (is_sys (e_rcv e)) s u (TP n) sn (e_snd e)
        | UPub => ok s []
        end
  end.

(* one granted step of the mailbox of object u: handle the in-flight message; a panic goes to ProcessAccident *)
Definition run_actor (s : kstate) (u : nat) : option (kstate * list obs) :=
  match get s u with
  | None => None
  | Some a =>
      match a_inflight a with
      | None => None
      | Some m =>
          let s0 := upd_actor s u (w_inflight None) in
          let '(s1, o1, p) := match m with MS e => process_sys s0 u e | MU e => process_user s0 u e end in
          if p then
            if crashed s1 then Some (s1, o1)
            else let '(s2, o2, _) := report_abnormal s1 u in Some (s2, o1 ++ o2)
          else Some (s1, o1)
      end
  end.

Definition guard_uid : nat := 0.

Definition kstep (s : kstate) (l : label) : option (kstate * list obs) :=
  match l with
  | LRun u => match run_actor s (Z.to_nat u) with Some (s', o) => Some (normalize s', o) | None => None end
  | LTell t n =>
      let '(s1, sn) := next_serial s in let '(s2, o) := deliver_user s1 t rNone (UProbe n sn) in
      Some (normalize s2, OS rGuard t sn :: o)
  | LAsk t n =>
      let '(s1, sn) := next_serial s in let '(s2, o) := deliver_user s1 t rGuard (UProbe n sn) in
      Some (normalize s2, OS rGuard t sn :: o)
  | LTerm t g => let '(s1, o) := terminate s rGuard t g in Some (normalize s1, OTr rGuard t g :: o)
  | LSpawn t r =>
      let '(s1, o, p) := spawn s guard_uid rGuard t r in
      Some (normalize s1, OSp rGuard t :: o ++ (if p then [OXs rGuard t] else []))
  | LShutdown g => let '(s1, o) := terminate s rGuard rGuard g in Some (normalize s1, o)
  | LEnd =>
      let regs := filter (fun t => 0 <=? t) (map fst (registry s)) in
      Some (s, [OEnd (closed s) (fold_right insert_sorted [] regs)])
  end.

Fixpoint krun (s : kstate) (ls : list label) : option (kstate * list (list obs)) :=
  match ls with
  | [] => Some (s, [])
  | l :: t =>
      match kstep s l with
      | Some (s1, o) => match krun s1 t with Some (s2, os) => Some (s2, o :: os) | None => None end
      | None => None
      end
  end.

End Behaviour.

(* the system right after NewActorSystem: guard (/user, uid 0) and the subscription actor (/user/sub, uid 1) *)
Definition kinit : kstate :=
  {| actors := [ {| a_tok := rGuard; a_parent := rNone; a_role := 0; a_children := [rSub]; a_st := Alive; a_sysq := []; a_userq := [];
                     a_inflight := None; a_susp := false; a_inst := 0; a_graceful := false; a_watchers := []; a_accidents := 0 |};
                  {| a_tok := rSub; a_parent := rGuard; a_role := 0; a_children := []; a_st := Alive; a_sysq := []; a_userq := [];
                     a_inflight := None; a_susp := false; a_inst := 0; a_graceful := false; a_watchers := []; a_accidents := 0 |} ];
     registry := [(rGuard, 0%nat); (rSub, 1%nat)]; provided := []; serial := 0; closed := false; crashed := false |}.
