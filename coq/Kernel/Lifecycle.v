(* MV.Kernel.Lifecycle — one-step facts about the kernel used by the C03..C06 statements. *)
From MV Require Import Lib.ListX Kernel.Model.
Open Scope Z_scope.

Definition is_handled (o : obs) : bool := match o with OH _ _ _ _ _ => true | _ => false end.

Lemma nth_error_upd_same {A} (l : list A) u x y : nth_error l u = Some y -> nth_error (upd u x l) u = Some x.
Proof. revert u; induction l as [|h t IH]; intros [|u] H; cbn in *; try discriminate; auto. Qed.
Lemma nth_error_upd_other {A} (l : list A) u v x : u <> v -> nth_error (upd u x l) v = nth_error l v.
Proof. revert u v; induction l as [|h t IH]; intros [|u] [|v] H; cbn in *; try congruence; auto. Qed.
Lemma get_put_same s u x y : get s u = Some y -> get (put s u x) u = Some x.
Proof. unfold get, put, set_actors; cbn [actors]. apply nth_error_upd_same. Qed.
Lemma get_put_other s u v x : u <> v -> get (put s u x) v = get s v.
Proof. unfold get, put, set_actors; cbn [actors]. apply nth_error_upd_other. Qed.
Lemma get_upd_actor_same s u f a : get s u = Some a -> get (upd_actor s u f) u = Some (f a).
Proof. intros H. unfold upd_actor. rewrite H. eapply get_put_same; exact H. Qed.

Section L.
Variable roles : list role.

(* C03: an actor object whose status is Terminated handles nothing: a granted step of its mailbox produces no
   Handled observation at all (queued user messages become dead letters, queued system messages are dropped,
   queued watch requests are answered). *)
Lemma terminated_silent s u a s' o :
  get s u = Some a -> a_st a = Terminated -> run_actor roles s u = Some (s', o) ->
  existsb is_handled o = false.
Proof.
  intros Hg Hst. unfold run_actor. rewrite Hg. destruct (a_inflight a) as [m|]; [|discriminate].
  set (s0 := upd_actor s u (w_inflight None)).
  assert (Hg0 : get s0 u = Some (w_inflight None a)) by (apply get_upd_actor_same; exact Hg).
  destruct m as [e|e].
  - unfold process_sys. rewrite Hg0. cbn [a_st w_inflight]. rewrite Hst.
    destruct (e_msg e); cbn [st_ge_terminating]; try destruct (e_snd e =? a_parent (w_inflight None a)); intros H; inversion H; subst; reflexivity.
  - unfold process_user. rewrite Hg0. cbn [a_st w_inflight]. rewrite Hst. cbn [st_ge_terminating].
    unfold abyss_user. destruct (e_msg e); try destruct (e_rcv e =? rSub); intros H; inversion H; subst; reflexivity.
Qed.

(* a suspended mailbox never pops a user message *)
Lemma suspended_pops_no_user a :
  a_susp a = true -> a_inflight a = None ->
  match a_inflight (pop1 a) with Some (MU _) => False | _ => True end.
Proof.
  intros Hs Hi. unfold pop1. rewrite Hi. destruct (a_sysq a); cbn; [rewrite Hs; rewrite Hi; exact I | exact I].
Qed.

End L.
