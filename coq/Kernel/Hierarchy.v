(* MV.Kernel.Hierarchy — C05, "termination is hierarchical": in every state reachable from the freshly started
   system, for every role table whose scripts never spawn from inside an actor's own OnTerminated handler and never
   claim a system address, and for every label sequence: an actor object that is still registered (it has not
   finished terminating) has a parent that is still registered and still counts it among its children. An actor
   marks itself terminated only when its children table is empty, and an entry leaves that table only when the
   child's termination notice arrives while nobody is registered under the child's address. Hence no actor
   completes its termination before any of its descendants.

   (The two excluded behaviours are real: a child spawned from the final OnTerminated handler is an orphan — open
   finding C05-spawn-in-own-onterminated-leaks-child, theorem C05_registry_empty_after_shutdown_refuted.) *)
From MV Require Import Lib.ListX Kernel.Model Kernel.Lifecycle Kernel.Status Kernel.Registry.
Open Scope Z_scope.

Definition reg (s : kstate) (u : nat) (a : actor) : Prop := lookup (a_tok a) (registry s) = Some u.
Definition zombie (a : actor) : Prop :=
  a_sysq a = [] /\ a_userq a = [] /\ a_inflight a = None /\ a_children a = [] /\ a_st a = Alive.

(* H2: a registered object's parent is registered and lists it (top-level objects created after the guard has gone
   are nobody's children); H3: an object is registered, or terminated, or was never registered (failed spawn) *)
Definition H2 (s : kstate) : Prop :=
  forall c ac, get s c = Some ac -> reg s c ac -> a_parent ac <> rNone ->
    (a_parent ac = rGuard /\ lookup rGuard (registry s) = None) \/
    exists pu pa, lookup (a_parent ac) (registry s) = Some pu /\ get s pu = Some pa /\ In (a_tok ac) (a_children pa) /\ (pu < c)%nat.
Definition H3 (s : kstate) : Prop :=
  forall u a, get s u = Some a -> reg s u a \/ a_st a = Terminated \/ zombie a.
(* H4: the guard object (uid 0, address /user) is registered or terminated *)
Definition H4 (s : kstate) : Prop :=
  exists g, get s guard_uid = Some g /\ a_tok g = rGuard /\ (reg s guard_uid g \/ a_st g = Terminated).
(* H5: nobody else is ever registered under the guard's address *)
Definition H5 (s : kstate) : Prop := forall v, lookup rGuard (registry s) = Some v -> v = guard_uid.
(* H6: the guard is the only object without a parent; H7: no object claims the null address *)
Definition H6 (s : kstate) : Prop := forall u a, get s u = Some a -> a_parent a = rNone -> u = guard_uid.
Definition H7 (s : kstate) : Prop := forall u a, get s u = Some a -> a_tok a <> rNone.
Definition Inv (s : kstate) : Prop := RI s /\ H2 s /\ H3 s /\ H4 s /\ H5 s /\ H6 s /\ H7 s.

(* quiet steps: registry, object set, addresses, parents and children tables unchanged; objects that are neither
   registered nor terminated are untouched *)
Definition qk (s s' : kstate) : Prop :=
  registry s' = registry s /\ length (actors s') = length (actors s) /\
  forall v a, get s v = Some a -> exists a', get s' v = Some a' /\ a_tok a' = a_tok a /\ a_parent a' = a_parent a /\
     a_children a' = a_children a /\ (a_st a = Terminated -> a_st a' = Terminated) /\
     (lookup (a_tok a) (registry s) <> Some v -> a_st a <> Terminated -> a' = a).

Lemma qk_refl s : qk s s.
Proof. split; [reflexivity|]. split; [reflexivity|]. intros v a H. exists a. repeat split; auto. Qed.
Lemma qk_trans s1 s2 s3 : qk s1 s2 -> qk s2 s3 -> qk s1 s3.
Proof.
  intros (R1 & L1 & K1) (R2 & L2 & K2). split; [congruence|]. split; [congruence|].
  intros v a H. destruct (K1 v a H) as (a2 & G2 & T2 & P2 & C2 & S2 & U2). destruct (K2 v a2 G2) as (a3 & G3 & T3 & P3 & C3 & S3 & U3).
  exists a3. split; [exact G3|]. split; [congruence|]. split; [congruence|]. split; [congruence|]. split; [auto|].
  intros Hn Ht. assert (a2 = a) by (apply U2; assumption). subst a2. apply U3; [rewrite R1; exact Hn|exact Ht].
Qed.

Lemma get_lt s v a : get s v = Some a -> (v < length (actors s))%nat.
Proof. unfold get. intros H. apply nth_error_Some. congruence. Qed.
Lemma get_of_lt s v : (v < length (actors s))%nat -> exists a, get s v = Some a.
Proof. unfold get. intros H. destruct (nth_error (actors s) v) eqn:E; [eauto|]. apply nth_error_None in E. lia. Qed.

Lemma qk_back s s' v a' : qk s s' -> get s' v = Some a' ->
  exists a, get s v = Some a /\ a_tok a' = a_tok a /\ a_parent a' = a_parent a /\ a_children a' = a_children a /\
    (a_st a = Terminated -> a_st a' = Terminated) /\ (lookup (a_tok a) (registry s) <> Some v -> a_st a <> Terminated -> a' = a).
Proof.
  intros (R & L & K) H. assert (Hlt : (v < length (actors s))%nat) by (rewrite <- L; eapply get_lt; exact H).
  destruct (get_of_lt s v Hlt) as (a & Ha). destruct (K v a Ha) as (a2 & G2 & Rest). rewrite H in G2. inversion G2; subst a2.
  exists a. split; [exact Ha|exact Rest].
Qed.

Lemma lookup_dec (l : list (ref * nat)) t u : {lookup t l = Some u} + {lookup t l <> Some u}.
Proof. destruct (lookup t l) as [v|]; [|right; discriminate]. destruct (Nat.eq_dec v u) as [->|Hne]; [left; reflexivity|right; congruence]. Qed.

Lemma Inv_qk s s' : Inv s -> qk s s' -> Inv s'.
Proof.
  intros (HR & HH2 & HH3 & HH4 & HH5 & HH6 & HH7) Q. pose proof Q as (R & L & K). split; [|split; [|split; [|split; [|split; [|split]]]]].
  - intros t u H. rewrite R in H. destruct (HR t u H) as (a & Ha & Ht). destruct (K u a Ha) as (a' & G & T & _). exists a'. split; [exact G|congruence].
  - intros c ac' Hc Hreg Hp. destruct (qk_back _ _ _ _ Q Hc) as (ac & Ha & T & P & C & _).
    unfold reg in *. rewrite R in *. rewrite T in Hreg. rewrite P in Hp.
    destruct (HH2 c ac Ha Hreg Hp) as [[E1 E2]|(pu & pa & Hl & Hg & Hin & Hlt)].
    + left. split; [congruence|exact E2].
    + right. destruct (K pu pa Hg) as (pa' & G' & _ & _ & C' & _). exists pu, pa'. rewrite P. split; [exact Hl|]. split; [exact G'|]. split; [rewrite C', T; exact Hin|exact Hlt].
  - intros u a' Hu. destruct (qk_back _ _ _ _ Q Hu) as (a & Ha & T & P & C & S & U).
    unfold reg. rewrite R, T. destruct (HH3 u a Ha) as [H|[H|H]]; [left; exact H|right; left; auto|].
    destruct (lookup_dec (registry s) (a_tok a) u) as [E|E]; [left; exact E|].
    right. right. assert (a' = a) by (apply U; [exact E|destruct H as (_ & _ & _ & _ & Hs); congruence]). subst a'. exact H.
  - destruct HH4 as (g & Hg & Tg & Sg). destruct (K _ g Hg) as (g' & G' & T' & _ & _ & S' & _). exists g'. split; [exact G'|]. split; [congruence|].
    unfold reg in *. rewrite R, T'. destruct Sg as [Sg|Sg]; [left; exact Sg|right; auto].
  - intros v Hv. rewrite R in Hv. apply HH5. exact Hv.
  - intros u a' Hu Hp. destruct (qk_back _ _ _ _ Q Hu) as (a & Ha & T & P & _). apply (HH6 u a Ha). congruence.
  - intros u a' Hu. destruct (qk_back _ _ _ _ Q Hu) as (a & Ha & T & _). rewrite T. apply (HH7 u a Ha).
Qed.

Lemma qk_put s u a0 b :
  get s u = Some a0 -> a_tok b = a_tok a0 -> a_parent b = a_parent a0 -> a_children b = a_children a0 ->
  (a_st a0 = Terminated -> a_st b = Terminated) -> (reg s u a0 \/ a_st a0 = Terminated) -> qk s (put s u b).
Proof.
  intros Hu Ht Hp Hc Hs Hr. split; [reflexivity|]. split; [unfold put, set_actors; cbn [actors]; apply upd_length|].
  intros v a Hv. destruct (Nat.eq_dec u v) as [->|Hne].
  - rewrite Hu in Hv. inversion Hv; subst a. exists b. split; [eapply get_put_same; exact Hu|].
    repeat split; auto. intros Hn Hnt. destruct Hr as [Hr|Hr]; [contradiction|contradiction].
  - exists a. split; [rewrite get_put_other by assumption; exact Hv|]. repeat split; auto.
Qed.
Lemma qk_upd_actor s u f :
  (forall a, a_tok (f a) = a_tok a /\ a_parent (f a) = a_parent a /\ a_children (f a) = a_children a /\ (a_st a = Terminated -> a_st (f a) = Terminated)) ->
  (forall a, get s u = Some a -> reg s u a \/ a_st a = Terminated) -> qk s (upd_actor s u f).
Proof.
  intros Hf Hr. unfold upd_actor. destruct (get s u) as [a0|] eqn:E; [|apply qk_refl].
  destruct (Hf a0) as (H1 & H2' & H3' & H4). eapply qk_put; eauto.
Qed.
Lemma qk_same s s' : actors s' = actors s -> registry s' = registry s -> qk s s'.
Proof.
  intros Ea Er. split; [exact Er|]. split; [rewrite Ea; reflexivity|]. intros v a H. exists a. unfold get in *. rewrite Ea. repeat split; auto.
Qed.

Ltac qp := intros; split; [reflexivity|split; [reflexivity|split; [reflexivity|auto]]].

(* object u is registered under its own address *)
Definition regu (u : nat) (s : kstate) : Prop := exists a, get s u = Some a /\ reg s u a.
Lemma regu_qk u s s' : qk s s' -> regu u s -> regu u s'.
Proof.
  intros (R & _ & K) (a & Ha & Hr). destruct (K u a Ha) as (a' & G & T & _). exists a'. split; [exact G|]. unfold reg in *. rewrite R, T. exact Hr.
Qed.
Lemma regu_or u s a : regu u s -> get s u = Some a -> reg s u a \/ a_st a = Terminated.
Proof. intros (a0 & H0 & Hr) Ha. rewrite Ha in H0. inversion H0; subst. left. exact Hr. Qed.

Lemma qk_push_sys s u e : (forall a, get s u = Some a -> reg s u a \/ a_st a = Terminated) -> qk s (push_sys s u e).
Proof. intros Hr. unfold push_sys. apply qk_upd_actor; [|exact Hr]. intros a. destruct (e_msg e); repeat split; auto. Qed.

Lemma RI_reg s t u : RI s -> lookup t (registry s) = Some u -> forall a, get s u = Some a -> reg s u a \/ a_st a = Terminated.
Proof. intros HR Hl a Ha. destruct (HR t u Hl) as (a0 & H0 & Ht). rewrite Ha in H0. inversion H0; subst a0. left. unfold reg. rewrite Ht. exact Hl. Qed.

Lemma qk_deliver_sys s t snd m : RI s -> qk s (deliver_sys s t snd m).
Proof.
  intros HR. unfold deliver_sys. destruct (lookup t (registry s)) as [u|] eqn:El.
  - apply qk_push_sys. eapply RI_reg; eassumption.
  - destruct m; try apply qk_refl. destruct (lookup snd (registry s)) as [w|] eqn:Ew; [|apply qk_refl].
    apply qk_push_sys. eapply RI_reg; eassumption.
Qed.
Lemma RI_qk s s' : RI s -> qk s s' -> RI s'.
Proof.
  intros HR (R & _ & K) t u H. rewrite R in H. destruct (HR t u H) as (a & Ha & Ht). destruct (K u a Ha) as (a' & G & T & _).
  exists a'. split; [exact G|congruence].
Qed.
Lemma qk_to_sub s : RI s -> qk s (to_sub s).
Proof.
  intros HR. unfold to_sub. destruct (lookup rSub (registry s)) as [u|] eqn:El; [|apply qk_refl].
  apply qk_upd_actor; [qp|]. eapply RI_reg; eassumption.
Qed.
Lemma qk_abyss_user s snd rcv m s' o : RI s -> abyss_user s snd rcv m = (s', o) -> qk s s'.
Proof.
  intros HR. unfold abyss_user. destruct m; intros H; inversion H; subst; try apply qk_refl;
    destruct (rcv =? rSub); try apply qk_refl; apply qk_to_sub; exact HR.
Qed.
Lemma qk_deliver_user s t snd m s' o : RI s -> deliver_user s t snd m = (s', o) -> qk s s'.
Proof.
  intros HR. unfold deliver_user. destruct (lookup t (registry s)) as [u|] eqn:El; [|apply qk_abyss_user; exact HR].
  destruct (get s u) as [a|] eqn:E; [|apply qk_abyss_user; exact HR].
  intros H; inversion H; subst. eapply qk_put; [exact E|reflexivity|reflexivity|reflexivity|auto|eapply RI_reg; eassumption].
Qed.
Lemma qk_terminate s self t g s' o : RI s -> terminate s self t g = (s', o) -> qk s s'.
Proof.
  intros HR. unfold terminate. destruct g; [apply qk_deliver_user; exact HR|]. intros H; inversion H; subst. apply qk_deliver_sys; exact HR.
Qed.
Lemma qk_terminate_all cs : forall s self g s' o, RI s -> terminate_all s self cs g = (s', o) -> qk s s'.
Proof.
  induction cs as [|c rest IH]; intros s self g s' o HR; cbn [terminate_all].
  - intros H; inversion H; subst. apply qk_refl.
  - destruct (terminate s self c g) as [s1 o1] eqn:E1. destruct (terminate_all s1 self rest g) as [s2 o2] eqn:E2.
    intros H; inversion H; subst. pose proof (qk_terminate _ _ _ _ _ _ HR E1) as Q1.
    eapply qk_trans; [exact Q1|eapply IH; [eapply RI_qk; eassumption|exact E2]].
Qed.
Lemma qk_notify_all ws : forall s self, RI s -> qk s (notify_all s self ws).
Proof.
  induction ws as [|w rest IH]; intros s self HR; cbn [notify_all]; [apply qk_refl|].
  pose proof (qk_deliver_sys s w self (STerminatedOf self) HR) as Q1.
  eapply qk_trans; [exact Q1|apply IH; eapply RI_qk; eassumption].
Qed.
Lemma qk_restart_all cs : forall s self, RI s -> qk s (restart_all s self cs).
Proof.
  induction cs as [|c rest IH]; intros s self HR; cbn [restart_all]; [apply qk_refl|].
  pose proof (qk_deliver_sys s c self SRestart HR) as Q1.
  eapply qk_trans; [exact Q1|apply IH; eapply RI_qk; eassumption].
Qed.
Lemma qk_escalate s u r s' o p : RI s -> escalate s u r = (s', o, p) -> qk s s'.
Proof.
  intros HR. unfold escalate. destruct (get s u) as [a|]; [|intros H; inversion H; subst; apply qk_refl].
  destruct (a_parent a =? rNone); intros H; inversion H; subst.
  - apply qk_same; reflexivity.
  - apply qk_deliver_sys; exact HR.
Qed.

Section S.
Variable roles : list role.

Lemma qk_report_abnormal s u s' o p : RI s -> regu u s -> report_abnormal roles s u = (s', o, p) -> qk s s'.
Proof.
  intros HR Hu. unfold report_abnormal. destruct (get s u) as [a|] eqn:Ea; [|intros H; inversion H; subst; apply qk_refl].
  destruct (a_st a); try (intros H; inversion H; subst; apply qk_refl).
  intros H.
  assert (Q1 : qk s (upd_actor s u (fun a => w_accidents (S (a_accidents a)) a))) by (apply qk_upd_actor; [qp|intros b Hb; eapply regu_or; eassumption]).
  pose proof (RI_qk _ _ HR Q1) as R1.
  pose proof (qk_deliver_sys _ (a_tok a) (a_tok a) SSuspend R1) as Q2.
  pose proof (RI_qk _ _ R1 Q2) as R2.
  eapply qk_trans; [exact Q1|]. eapply qk_trans; [exact Q2|]. eapply qk_escalate; [exact R2|exact H].
Qed.

Lemma qk_send_each ts : forall s self n k s' o, RI s -> send_each s self ts n k = (s', o) -> qk s s'.
Proof.
  induction ts as [|t rest IH]; intros s self n k s' o HR; cbn [send_each].
  - intros H; inversion H; subst. apply qk_refl.
  - destruct (deliver_user s t self (UProbe n k)) as [s1 o1] eqn:E1.
    destruct (send_each s1 self rest n k) as [s2 o2] eqn:E2. intros H; inversion H; subst.
    pose proof (qk_deliver_user _ _ _ _ _ _ HR E1) as Q1.
    eapply qk_trans; [exact Q1|eapply IH; [eapply RI_qk; eassumption|exact E2]].
Qed.

Lemma qk_next_serial s : qk s (fst (next_serial s)).
Proof. apply qk_same; reflexivity. Qed.

Definition is_spawn (act : action) : bool := match act with ASpawn _ _ => true | _ => false end.

(* every scripted action except a spawn is quiet *)
Lemma qk_do_action s u snd act s' o p :
  RI s -> regu u s -> is_spawn act = false -> do_action roles s u snd act = (s', o, p) -> qk s s'.
Proof.
  intros HR Hu Hns. unfold do_action. destruct (get s u) as [a|]; [|intros H; inversion H; subst; apply qk_refl].
  destruct act; try discriminate.
  - destruct (next_serial s) as [s1 k] eqn:En. destruct (deliver_user s1 t rNone (UProbe n k)) as [s2 o2] eqn:E.
    intros H; inversion H; subst. assert (Q1 : qk s s1) by (change s1 with (fst (s1, k)); rewrite <- En; apply qk_next_serial).
    eapply qk_trans; [exact Q1|eapply qk_deliver_user; [eapply RI_qk; eassumption|exact E]].
  - destruct (next_serial s) as [s1 k] eqn:En. destruct (deliver_user s1 t (a_tok a) (UProbe n k)) as [s2 o2] eqn:E.
    intros H; inversion H; subst. assert (Q1 : qk s s1) by (change s1 with (fst (s1, k)); rewrite <- En; apply qk_next_serial).
    eapply qk_trans; [exact Q1|eapply qk_deliver_user; [eapply RI_qk; eassumption|exact E]].
  - destruct (next_serial s) as [s1 k] eqn:En. destruct (deliver_user s1 snd (a_tok a) (UProbe n k)) as [s2 o2] eqn:E.
    intros H; inversion H; subst. assert (Q1 : qk s s1) by (change s1 with (fst (s1, k)); rewrite <- En; apply qk_next_serial).
    eapply qk_trans; [exact Q1|eapply qk_deliver_user; [eapply RI_qk; eassumption|exact E]].
  - destruct (next_serial s) as [s1 k] eqn:En. destruct (send_each s1 (a_tok a) (a_children a) n k) as [s2 o2] eqn:E.
    intros H; inversion H; subst. assert (Q1 : qk s s1) by (change s1 with (fst (s1, k)); rewrite <- En; apply qk_next_serial).
    eapply qk_trans; [exact Q1|eapply qk_send_each; [eapply RI_qk; eassumption|exact E]].
  - destruct (terminate s (a_tok a) t g) as [s1 o1] eqn:E. intros H; inversion H; subst. eapply qk_terminate; eassumption.
  - intros H; inversion H; subst. apply qk_deliver_sys; exact HR.
  - intros H; inversion H; subst. apply qk_deliver_sys; exact HR.
  - destruct (report_abnormal roles s u) as [[s1 o1] p1] eqn:E. intros H; inversion H; subst. eapply qk_report_abnormal; eassumption.
  - intros H; inversion H; subst. apply qk_refl.
Qed.

End S.

(* ---------- the three non-quiet steps: registering a new object, forgetting a child, unregistering ---------- *)
Lemma lookup_remove_key_other {A} k t (l : list (ref * A)) : t <> k -> lookup t (remove_key k l) = lookup t l.
Proof.
  intros Hne. induction l as [|[k' v] rest IH]; cbn [remove_key lookup]; [reflexivity|].
  destruct (k =? k') eqn:E.
  - apply Z.eqb_eq in E. subst k'. destruct (t =? k) eqn:E2; [apply Z.eqb_eq in E2; contradiction|exact IH].
  - cbn [lookup]. destruct (t =? k'); [reflexivity|exact IH].
Qed.
Lemma lookup_set_key_other {A} k (v : A) t l : t <> k -> lookup t (set_key k v l) = lookup t l.
Proof. intros Hne. unfold set_key. cbn [lookup]. destruct (t =? k) eqn:E; [apply Z.eqb_eq in E; contradiction|]. apply lookup_remove_key_other. exact Hne. Qed.
Lemma lookup_set_key_same {A} k (v : A) l : lookup k (set_key k v l) = Some v.
Proof. unfold set_key. cbn [lookup]. rewrite Z.eqb_refl. reflexivity. Qed.

Lemma in_insert_sorted_self k l : In k (insert_sorted k l).
Proof.
  induction l as [|y t IH]; cbn [insert_sorted]; [left; reflexivity|].
  destruct (k <? y); [left; reflexivity|]. destruct (k =? y) eqn:E; [apply Z.eqb_eq in E; subst; left; reflexivity|right; exact IH].
Qed.
Lemma in_insert_sorted_keep k l x : In x l -> In x (insert_sorted k l).
Proof.
  induction l as [|y t IH]; cbn [insert_sorted]; [intros []|].
  destruct (k <? y); [intros H; right; exact H|]. destruct (k =? y); [auto|]. intros [H|H]; [left; exact H|right; apply IH; exact H].
Qed.
Lemma in_remove_ref_other k l x : x <> k -> In x l -> In x (remove_ref k l).
Proof.
  intros Hne. induction l as [|y t IH]; cbn [remove_ref]; [intros []|].
  destruct (k =? y) eqn:E.
  - apply Z.eqb_eq in E. subst y. intros [H|H]; [congruence|apply IH; exact H].
  - intros [H|H]; [left; exact H|right; apply IH; exact H].
Qed.

Lemma get_app_old s x v : (v < length (actors s))%nat -> get (set_actors s (actors s ++ [x])) v = get s v.
Proof. intros H. unfold get, set_actors; cbn [actors]. apply nth_error_app1. exact H. Qed.
Lemma get_app_new s x : get (set_actors s (actors s ++ [x])) (length (actors s)) = Some x.
Proof. unfold get, set_actors; cbn [actors]. rewrite nth_error_app2 by apply Nat.le_refl. rewrite Nat.sub_diag. reflexivity. Qed.
Lemma get_app_inv s x v a : get (set_actors s (actors s ++ [x])) v = Some a ->
  ((v < length (actors s))%nat /\ get s v = Some a) \/ (v = length (actors s) /\ a = x).
Proof.
  intros H. destruct (Nat.lt_ge_cases v (length (actors s))) as [Hlt|Hge].
  - left. split; [exact Hlt|]. rewrite get_app_old in H by exact Hlt. exact H.
  - right. unfold get, set_actors in H; cbn [actors] in H. rewrite nth_error_app2 in H by exact Hge.
    destruct (v - length (actors s))%nat as [|k] eqn:Ek; cbn in H; [|destruct k; discriminate].
    inversion H; subst. split; [lia|reflexivity].
Qed.

Lemma RI_lt s t u : RI s -> lookup t (registry s) = Some u -> (u < length (actors s))%nat.
Proof. intros HR H. destruct (HR t u H) as (a & Ha & _). eapply get_lt; exact Ha. Qed.

(* a new object that fails to register (the address is taken) is never reachable *)
Lemma Inv_append_dead s x :
  Inv s -> a_st x = Terminated -> a_parent x <> rNone -> a_tok x <> rNone -> Inv (set_actors s (actors s ++ [x])).
Proof.
  intros (HR & HH2 & HH3 & HH4 & HH5 & HH6 & HH7) Ht Hxp Hxt. set (s2 := set_actors s (actors s ++ [x])).
  assert (Rg : registry s2 = registry s) by reflexivity.
  split; [|split; [|split; [|split; [|split; [|split]]]]].
  - intros t0 v H. rewrite Rg in H. destruct (HR t0 v H) as (a & Ha & Hta). exists a. split; [|exact Hta].
    unfold s2. rewrite get_app_old by (eapply get_lt; exact Ha). exact Ha.
  - intros c ac Hc Hreg Hp. unfold reg in Hreg. rewrite Rg in *. destruct (get_app_inv _ _ _ _ Hc) as [[Hlt Hc']|[-> ->]].
    + destruct (HH2 c ac Hc' Hreg Hp) as [E|(pu & pa & Hl & Hg & Hin & Hlt')]; [left; exact E|right].
      exists pu, pa. split; [exact Hl|]. split; [|split; [exact Hin|exact Hlt']]. unfold s2. rewrite get_app_old by (eapply get_lt; exact Hg). exact Hg.
    + exfalso. pose proof (RI_lt _ _ _ HR Hreg). lia.
  - intros u a Hu. unfold reg. rewrite Rg. destruct (get_app_inv _ _ _ _ Hu) as [[Hlt Hu']|[-> ->]].
    + exact (HH3 u a Hu').
    + right. left. exact Ht.
  - destruct HH4 as (g & Hg & Tg & Sg). exists g. split; [|split; [exact Tg|exact Sg]].
    unfold s2. rewrite get_app_old by (eapply get_lt; exact Hg). exact Hg.
  - intros v Hv. rewrite Rg in Hv. apply HH5. exact Hv.
  - intros u a Hu Hp. destruct (get_app_inv _ _ _ _ Hu) as [[Hlt Hu']|[-> ->]]; [exact (HH6 u a Hu' Hp)|contradiction].
  - intros u a Hu. destruct (get_app_inv _ _ _ _ Hu) as [[Hlt Hu']|[-> ->]]; [exact (HH7 u a Hu')|exact Hxt].
Qed.

Lemma Inv_stop s u self t s' o p : stop_if_parent_gone s u self t = (s', o, p) -> Inv s -> Inv s' /\ (regu u s -> regu u s').
Proof.
  intros H HI. assert (Q : qk s s').
  { revert H. unfold stop_if_parent_gone. destruct (get s u) as [pa|]; [|intros H; inversion H; subst; apply qk_refl].
    destruct (not_alive (a_st pa)); [|intros H; inversion H; subst; apply qk_refl].
    destruct (terminate s self t (a_graceful pa)) as [s1 o1] eqn:E. intros H; inversion H; subst. eapply qk_terminate; [apply HI|exact E]. }
  split; [eapply Inv_qk; eassumption|apply regu_qk; exact Q].
Qed.

Lemma Inv_spawn s u self t r s' o p a :
  spawn s u self t r = (s', o, p) -> Inv s -> 0 <= t -> get s u = Some a -> a_tok a = self ->
  (reg s u a \/ (self = rGuard /\ lookup rGuard (registry s) = None /\ a_st a = Terminated)) ->
  Inv s' /\ (regu u s -> regu u s').
Proof.
  intros E HI Ht Ha Hself Hu. revert E. unfold spawn. destruct (provide s t) as [s1 inst] eqn:Ep.
  assert (A1 : actors s1 = actors s) by (unfold provide in Ep; inversion Ep; subst; reflexivity).
  assert (R1 : registry s1 = registry s) by (unfold provide in Ep; inversion Ep; subst; reflexivity).
  assert (I1 : Inv s1) by (eapply Inv_qk; [exact HI|apply qk_same; assumption]).
  assert (Ha1 : get s1 u = Some a) by (unfold get; rewrite A1; exact Ha).
  assert (Hu1 : reg s1 u a \/ (self = rGuard /\ lookup rGuard (registry s1) = None /\ a_st a = Terminated)) by (unfold reg; rewrite R1; exact Hu).
  assert (Ru : regu u s -> regu u s1) by (apply regu_qk; apply qk_same; assumption).
  clear Ep HI Ha Hu. revert I1 Ha1 Hu1 Ru. generalize s1. clear s1 A1 R1. intros s1 I1 Ha1 Hu1 Ru.
  set (n := length (actors s1)). set (x := new_actor t self r inst). set (s2 := set_actors s1 (actors s1 ++ [x])).
  assert (Rg2 : registry s2 = registry s1) by reflexivity.
  assert (Hsn : self <> rNone) by (destruct I1 as (_ & _ & _ & _ & _ & _ & HH7'); rewrite <- Hself; eapply HH7'; exact Ha1).
  assert (Htn : t <> rNone) by (unfold rNone; lia).
  destruct (lookup t (registry s1)) as [w|] eqn:Elt.
  - intros H; inversion H; subst. split.
    + apply Inv_append_dead; [exact I1|reflexivity|exact Hsn|exact Htn].
    + intros R0. destruct (Ru R0) as (b & Hb & Rb). exists b. split; [|exact Rb]. rewrite get_app_old by (eapply get_lt; exact Hb). exact Hb.
  - intros H.
    match type of H with stop_if_parent_gone ?s5 _ _ _ = _ => cut (Inv s5 /\ (regu u s -> regu u s5)) end.
    { intros [I5 R5]. destruct (Inv_stop _ _ _ _ _ _ _ H I5) as [I6 R6]. split; [exact I6|intros R0; apply R6; apply R5; exact R0]. }
    clear H.
    destruct I1 as (HR & HH2 & HH3 & HH4 & HH5 & HH6 & HH7).
    assert (Hult : (u < n)%nat) by (eapply get_lt; exact Ha1).
    set (s3 := set_registry s2 (set_key t n (registry s1))).
    set (f := fun b : actor => w_children (insert_sorted t (a_children b)) b).
    set (s4 := upd_actor s3 u f).
    assert (G3 : forall v, get s3 v = get s2 v) by reflexivity.
    assert (G2u : get s2 u = Some a) by (unfold s2; rewrite get_app_old by exact Hult; exact Ha1).
    assert (G4u : get s4 u = Some (f a)) by (unfold s4; apply get_upd_actor_same; rewrite G3; exact G2u).
    assert (G4o : forall v, v <> u -> get s4 v = get s2 v).
    { intros v Hv. unfold s4, upd_actor. rewrite G3, G2u. rewrite get_put_other by auto. apply G3. }
    assert (G4n : get s4 n = Some x) by (rewrite G4o by lia; apply get_app_new).
    assert (Rg4 : registry s4 = set_key t n (registry s1)).
    { unfold s4, upd_actor. rewrite G3, G2u. reflexivity. }
    assert (Tne : forall t0 v, lookup t0 (registry s1) = Some v -> t0 <> t) by (intros t0 v Hl ->; congruence).
    assert (I4 : Inv s4).
    { split; [|split; [|split; [|split; [|split; [|split]]]]].
      - intros t0 v Hl. rewrite Rg4 in Hl. apply lookup_set_key in Hl. destruct Hl as [[-> ->]|Hl]; [exists x; split; [exact G4n|reflexivity]|].
        destruct (HR t0 v Hl) as (b & Hb & Tb). destruct (Nat.eq_dec v u) as [->|Hne].
        + rewrite Ha1 in Hb. inversion Hb; subst b. exists (f a). split; [exact G4u|exact Tb].
        + exists b. split; [|exact Tb]. rewrite G4o by exact Hne. unfold s2. rewrite get_app_old by (eapply get_lt; exact Hb). exact Hb.
      - intros c ac Hc Hreg Hp. unfold reg in Hreg. rewrite Rg4 in *.
        assert (Par : forall b, a_parent (f b) = a_parent b) by reflexivity.
        apply lookup_set_key in Hreg. destruct Hreg as [[Etok ->]|Hreg].
        + (* the new object *) rewrite G4n in Hc. inversion Hc; subst ac. cbn [a_parent a_tok x new_actor] in *.
          destruct Hu1 as [Hr|(Hg & Hn & _)].
          * right. unfold reg in Hr. rewrite Hself in Hr. exists u, (f a). split; [rewrite lookup_set_key_other by (eapply Tne; exact Hr); exact Hr|].
            split; [exact G4u|]. split; [cbn [a_children f w_children]; apply in_insert_sorted_self|exact Hult].
          * left. split; [exact Hg|]. rewrite lookup_set_key_other by (unfold rGuard; lia). exact Hn.
        + (* an old registered object *)
          assert (Hcn : (c < n)%nat) by (eapply RI_lt; [exact HR|exact Hreg]).
          assert (Hc1 : exists ac1, get s1 c = Some ac1 /\ a_tok ac1 = a_tok ac /\ a_parent ac1 = a_parent ac).
          { destruct (Nat.eq_dec c u) as [->|Hne].
            - rewrite G4u in Hc. inversion Hc; subst ac. exists a. auto.
            - rewrite G4o in Hc by exact Hne. unfold s2 in Hc. rewrite get_app_old in Hc by exact Hcn. exists ac. auto. }
          destruct Hc1 as (ac1 & Hc1 & T1 & P1). rewrite <- T1 in Hreg. rewrite <- P1 in Hp.
          destruct (HH2 c ac1 Hc1 Hreg Hp) as [[E1 E2]|(pu & pa & Hl & Hg & Hin & Hpc)].
          * left. split; [congruence|]. rewrite lookup_set_key_other by (unfold rGuard; lia). exact E2.
          * right. rewrite <- P1, <- T1. destruct (Nat.eq_dec pu u) as [->|Hne].
            -- rewrite Ha1 in Hg. inversion Hg; subst pa. exists u, (f a). split; [rewrite lookup_set_key_other by (eapply Tne; exact Hl); exact Hl|].
               split; [exact G4u|]. split; [cbn [a_children f w_children]; apply in_insert_sorted_keep; exact Hin|exact Hpc].
            -- exists pu, pa. split; [rewrite lookup_set_key_other by (eapply Tne; exact Hl); exact Hl|]. split; [|split; [exact Hin|exact Hpc]].
               rewrite G4o by exact Hne. unfold s2. rewrite get_app_old by (eapply get_lt; exact Hg). exact Hg.
      - intros v b Hv. unfold reg. rewrite Rg4. destruct (Nat.eq_dec v u) as [->|Hne].
        + rewrite G4u in Hv. inversion Hv; subst b. cbn [a_tok a_st f w_children].
          destruct Hu1 as [Hr|(_ & _ & Hst)]; [left; unfold reg in Hr; rewrite lookup_set_key_other by (eapply Tne; exact Hr); exact Hr|right; left; exact Hst].
        + rewrite G4o in Hv by exact Hne. unfold s2 in Hv. destruct (get_app_inv _ _ _ _ Hv) as [[Hlt Hv']|[-> ->]].
          * destruct (HH3 v b Hv') as [Hr|[Hs|Hz]]; [left; unfold reg in Hr; rewrite lookup_set_key_other by (eapply Tne; exact Hr); exact Hr|right; left; exact Hs|right; right; exact Hz].
          * left. cbn [a_tok x new_actor]. apply lookup_set_key_same.
      - destruct HH4 as (g & Hg & Tg & Sg). unfold guard_uid in *. destruct (Nat.eq_dec 0 u) as [<-|Hne].
        + rewrite Ha1 in Hg. inversion Hg; subst g. exists (f a). split; [exact G4u|]. split; [exact Tg|]. unfold reg in *. rewrite Rg4. cbn [a_tok a_st f w_children].
          destruct Sg as [Sg|Sg]; [left; rewrite lookup_set_key_other by (eapply Tne; exact Sg); exact Sg|right; exact Sg].
        + exists g. split; [rewrite G4o by auto; unfold s2; rewrite get_app_old by (eapply get_lt; exact Hg); exact Hg|]. split; [exact Tg|].
          unfold reg in *. rewrite Rg4. destruct Sg as [Sg|Sg]; [left; rewrite lookup_set_key_other by (eapply Tne; exact Sg); exact Sg|right; exact Sg].
      - intros v Hv. rewrite Rg4 in Hv. rewrite lookup_set_key_other in Hv by (unfold rGuard; lia). apply HH5. exact Hv.
      - intros v b Hv Hp. destruct (Nat.eq_dec v u) as [->|Hne].
        + rewrite G4u in Hv. inversion Hv; subst b. apply (HH6 u a Ha1). exact Hp.
        + rewrite G4o in Hv by exact Hne. unfold s2 in Hv. destruct (get_app_inv _ _ _ _ Hv) as [[Hlt Hv']|[-> ->]]; [exact (HH6 v b Hv' Hp)|].
          cbn [a_parent x new_actor] in Hp. contradiction.
      - intros v b Hv. destruct (Nat.eq_dec v u) as [->|Hne].
        + rewrite G4u in Hv. inversion Hv; subst b. apply (HH7 u a Ha1).
        + rewrite G4o in Hv by exact Hne. unfold s2 in Hv. destruct (get_app_inv _ _ _ _ Hv) as [[Hlt Hv']|[-> ->]]; [exact (HH7 v b Hv')|exact Htn]. }
    assert (Q : qk s4 (deliver_sys s4 t self SLaunch)) by (apply qk_deliver_sys; apply I4).
    split; [eapply Inv_qk; [exact I4|exact Q]|].
    intros R0. apply (regu_qk u _ _ Q). destruct (Ru R0) as (b & Hb & Rb). rewrite Ha1 in Hb. inversion Hb; subst b.
    exists (f a). split; [exact G4u|]. unfold reg in *. rewrite Rg4. cbn [a_tok f w_children]. rewrite lookup_set_key_other by (eapply Tne; exact Rb). exact Rb.
Qed.

Lemma Inv_drop_child s u w :
  Inv s -> (forall a, get s u = Some a -> reg s u a \/ a_st a = Terminated) -> Inv (drop_child s u w) /\ (regu u s -> regu u (drop_child s u w)).
Proof.
  intros HI Hu. unfold drop_child. destruct (lookup w (registry s)) eqn:Elw; [split; [exact HI|auto]|].
  destruct (get s u) as [a|] eqn:Ea; [|unfold upd_actor; rewrite Ea; split; [exact HI|auto]].
  set (f := fun b : actor => w_children (remove_ref w (a_children b)) b).
  assert (Gu : get (upd_actor s u f) u = Some (f a)) by (apply get_upd_actor_same; exact Ea).
  assert (Go : forall v, v <> u -> get (upd_actor s u f) v = get s v) by (intros v Hv; unfold upd_actor; rewrite Ea; apply get_put_other; auto).
  assert (Rg : registry (upd_actor s u f) = registry s) by (unfold upd_actor; rewrite Ea; reflexivity).
  destruct HI as (HR & HH2 & HH3 & HH4 & HH5 & HH6 & HH7). split.
  - split; [|split; [|split; [|split; [|split; [|split]]]]].
    + intros t v Hl. rewrite Rg in Hl. destruct (HR t v Hl) as (b & Hb & Tb). destruct (Nat.eq_dec v u) as [->|Hne].
      * rewrite Ea in Hb. inversion Hb; subst b. exists (f a). split; [exact Gu|exact Tb].
      * exists b. split; [rewrite Go by exact Hne; exact Hb|exact Tb].
    + intros c ac Hc Hreg Hp. unfold reg in Hreg. rewrite Rg in *.
      assert (Hc1 : exists ac1, get s c = Some ac1 /\ a_tok ac1 = a_tok ac /\ a_parent ac1 = a_parent ac).
      { destruct (Nat.eq_dec c u) as [->|Hne]; [rewrite Gu in Hc; inversion Hc; subst ac; exists a; auto|rewrite Go in Hc by exact Hne; exists ac; auto]. }
      destruct Hc1 as (ac1 & Hc1 & T1 & P1). rewrite <- T1 in Hreg. rewrite <- P1 in Hp.
      destruct (HH2 c ac1 Hc1 Hreg Hp) as [[E1 E2]|(pu & pa & Hl & Hg & Hin & Hpc)]; [left; split; [congruence|exact E2]|right].
      rewrite <- P1, <- T1. destruct (Nat.eq_dec pu u) as [->|Hne].
      * rewrite Ea in Hg. inversion Hg; subst pa. exists u, (f a). split; [exact Hl|]. split; [exact Gu|]. split; [|exact Hpc].
        cbn [a_children f w_children]. apply in_remove_ref_other; [|exact Hin]. intros E. rewrite E in Hreg. congruence.
      * exists pu, pa. split; [exact Hl|]. split; [rewrite Go by exact Hne; exact Hg|split; [exact Hin|exact Hpc]].
    + intros v b Hv. unfold reg. rewrite Rg. destruct (Nat.eq_dec v u) as [->|Hne].
      * rewrite Gu in Hv. inversion Hv; subst b. cbn [a_tok a_st f w_children]. destruct (Hu a eq_refl) as [H|H]; [left; exact H|right; left; exact H].
      * rewrite Go in Hv by exact Hne. exact (HH3 v b Hv).
    + destruct HH4 as (g & Hg & Tg & Sg). unfold guard_uid in *. destruct (Nat.eq_dec 0 u) as [<-|Hne].
      * rewrite Ea in Hg. inversion Hg; subst g. exists (f a). split; [exact Gu|]. split; [exact Tg|]. unfold reg in *. rewrite Rg. exact Sg.
      * exists g. split; [rewrite Go by auto; exact Hg|]. split; [exact Tg|]. unfold reg in *. rewrite Rg. exact Sg.
    + intros v Hv. rewrite Rg in Hv. apply HH5. exact Hv.
    + intros v b Hv Hp. destruct (Nat.eq_dec v u) as [->|Hne]; [rewrite Gu in Hv; inversion Hv; subst b; exact (HH6 u a Ea Hp)|rewrite Go in Hv by exact Hne; exact (HH6 v b Hv Hp)].
    + intros v b Hv. destruct (Nat.eq_dec v u) as [->|Hne]; [rewrite Gu in Hv; inversion Hv; subst b; exact (HH7 u a Ea)|rewrite Go in Hv by exact Hne; exact (HH7 v b Hv)].
  - intros (b & Hb & Rb). rewrite Ea in Hb. inversion Hb; subst b. exists (f a). split; [exact Gu|]. unfold reg in *. rewrite Rg. exact Rb.
Qed.

(* unregistering object u: it is terminated, registered under its address and has no children *)
Lemma Inv_unregister s u a :
  Inv s -> get s u = Some a -> reg s u a -> a_st a = Terminated -> a_children a = [] ->
  Inv (set_registry s (remove_key (a_tok a) (registry s))).
Proof.
  intros (HR & HH2 & HH3 & HH4 & HH5 & HH6 & HH7) Ha Hr Hst Hch. set (s' := set_registry s (remove_key (a_tok a) (registry s))).
  assert (G : forall v, get s' v = get s v) by reflexivity.
  assert (Rg : registry s' = remove_key (a_tok a) (registry s)) by reflexivity.
  split; [|split; [|split; [|split; [|split; [|split]]]]].
  - intros t v Hl. rewrite Rg in Hl. apply lookup_remove_key in Hl. rewrite G. apply HR. exact Hl.
  - intros c ac Hc Hreg Hp. rewrite G in Hc. unfold reg in Hreg. rewrite Rg in *.
    assert (Hne : a_tok ac <> a_tok a) by (intros E; rewrite E, lookup_remove_key_self in Hreg; discriminate).
    rewrite lookup_remove_key_other in Hreg by exact Hne.
    destruct (HH2 c ac Hc Hreg Hp) as [[E1 E2]|(pu & pa & Hl & Hg & Hin & Hpc)].
    + left. split; [exact E1|]. destruct (Z.eq_dec rGuard (a_tok a)) as [E|E]; [rewrite E; apply lookup_remove_key_self|rewrite lookup_remove_key_other by exact E; exact E2].
    + right. destruct (Z.eq_dec (a_parent ac) (a_tok a)) as [E|E].
      * exfalso. rewrite E in Hl. unfold reg in Hr. rewrite Hr in Hl. inversion Hl; subst pu. rewrite Ha in Hg. inversion Hg; subst pa. rewrite Hch in Hin. destruct Hin.
      * exists pu, pa. split; [rewrite lookup_remove_key_other by exact E; exact Hl|]. split; [rewrite G; exact Hg|split; [exact Hin|exact Hpc]].
  - intros v b Hv. rewrite G in Hv. unfold reg. rewrite Rg. destruct (HH3 v b Hv) as [H|[H|H]]; [|right; left; exact H|right; right; exact H].
    destruct (Z.eq_dec (a_tok b) (a_tok a)) as [E|E].
    + unfold reg in *. rewrite E, Hr in H. inversion H; subst v. rewrite Ha in Hv. inversion Hv; subst b. right. left. exact Hst.
    + left. rewrite lookup_remove_key_other by exact E. exact H.
  - destruct HH4 as (g & Hg & Tg & Sg). exists g. split; [rewrite G; exact Hg|]. split; [exact Tg|].
    unfold reg in *. rewrite Rg. destruct Sg as [Sg|Sg]; [|right; exact Sg].
    destruct (Z.eq_dec (a_tok g) (a_tok a)) as [E|E].
    + rewrite E, Hr in Sg. inversion Sg; subst u. unfold guard_uid in *. rewrite Ha in Hg. inversion Hg; subst g. right. exact Hst.
    + left. rewrite lookup_remove_key_other by exact E. exact Sg.
  - intros v Hv. rewrite Rg in Hv. apply lookup_remove_key in Hv. apply HH5. exact Hv.
  - intros v b Hv Hp. rewrite G in Hv. exact (HH6 v b Hv Hp).
  - intros v b Hv. rewrite G in Hv. exact (HH7 v b Hv).
Qed.

(* ---------- the traversal ---------- *)
Definition hor (u : nat) (s : kstate) : Prop := forall a, get s u = Some a -> reg s u a \/ a_st a = Terminated.
Lemma hor_of_regu u s : regu u s -> hor u s.
Proof. intros H a Ha. eapply regu_or; eassumption. Qed.
Lemma hor_qk u s s' : qk s s' -> hor u s -> hor u s'.
Proof.
  intros Q H a' Ha'. destruct (qk_back _ _ _ _ Q Ha') as (a & Ha & T & _ & _ & S & _). destruct Q as (R & _).
  unfold reg. rewrite R, T. destruct (H a Ha) as [Hr|Hs]; [left; exact Hr|right; auto].
Qed.

Lemma qk_normalize s : H3 s -> qk s (normalize s).
Proof.
  intros HH3. split; [reflexivity|]. split; [unfold normalize, set_actors; cbn [actors]; apply map_length|].
  intros v a Ha. exists (pop1 a). split; [unfold get, normalize, set_actors; cbn [actors]; rewrite nth_error_map; unfold get in Ha; rewrite Ha; reflexivity|].
  destruct (pop1_id a) as (I1 & I2 & _). split; [exact I1|]. split; [exact I2|].
  split; [unfold pop1; destruct (a_inflight a); [reflexivity|]; destruct (a_sysq a); [|reflexivity]; destruct (a_susp a); [reflexivity|]; destruct (a_userq a); reflexivity|].
  split; [rewrite pop1_st; auto|].
  intros Hn Ht. destruct (HH3 v a Ha) as [H|[H|H]]; [contradiction|contradiction|].
  destruct H as (Q1 & Q2 & Q3 & _). unfold pop1. rewrite Q3, Q1, Q2. destruct (a_susp a); reflexivity.
Qed.

Section T.
Variable roles : list role.
(* scripts spawn only under non-negative (user) addresses, and never from inside an actor's own OnTerminated handler *)
Hypothesis Hsp : forall ro ru t r, In ro roles -> In ru (rules ro) -> In (ASpawn t r) (r_do ru) -> 0 <= t /\ r_on ru <> KTS.

Lemma find_rule_in rs t inst act : In act (find_rule rs t inst) ->
  exists ru, In ru rs /\ In act (r_do ru) /\ trigk_eqb (r_on ru) (trigk_of t) = true.
Proof.
  induction rs as [|ru rest IH]; cbn [find_rule]; [intros []|].
  destruct (trigk_eqb (r_on ru) (trigk_of t)) eqn:E1; cbn [andb].
  - destruct ((r_n ru =? -1) || (r_n ru =? trig_n t)); cbn [andb].
    + destruct ((r_inst ru =? -1) || (r_inst ru =? Z.of_nat inst)).
      * intros H. exists ru. split; [left; reflexivity|]. split; [exact H|exact E1].
      * intros H. destruct (IH H) as (r0 & H0 & H1). exists r0. split; [right; exact H0|exact H1].
    + intros H. destruct (IH H) as (r0 & H0 & H1). exists r0. split; [right; exact H0|exact H1].
  - intros H. destruct (IH H) as (r0 & H0 & H1). exists r0. split; [right; exact H0|exact H1].
Qed.

Lemma role_of_cases a : role_of roles a = empty_role \/ In (role_of roles a) roles.
Proof.
  unfold role_of. destruct ((a_tok a =? rGuard) || (a_tok a =? rSub)); [left; reflexivity|].
  destruct (Nat.lt_ge_cases (a_role a) (length roles)) as [H|H]; [right; apply nth_In; exact H|left; apply nth_overflow; exact H].
Qed.

Lemma trigk_eqb_eq x y : trigk_eqb x y = true -> x = y.
Proof. destruct x, y; cbn; congruence. Qed.

Lemma acts_spec a t inst tt rr :
  In (ASpawn tt rr) (find_rule (rules (role_of roles a)) t inst) -> 0 <= tt /\ trigk_of t <> KTS.
Proof.
  intros H. destruct (find_rule_in _ _ _ _ H) as (ru & Hin & Hact & Hk). apply trigk_eqb_eq in Hk.
  destruct (role_of_cases a) as [E|E]; [rewrite E in Hin; destruct Hin|].
  destruct (Hsp _ _ _ _ E Hin Hact) as [H1 H2']. split; [exact H1|congruence].
Qed.

Definition acts_ok (acts : list action) : Prop := forall t r, In (ASpawn t r) acts -> 0 <= t.
Definition no_spawn (acts : list action) : Prop := forall act, In act acts -> is_spawn act = false.

Lemma A_do_action s u snd act s' o p :
  Inv s -> regu u s -> (forall t r, act = ASpawn t r -> 0 <= t) -> do_action roles s u snd act = (s', o, p) -> Inv s' /\ regu u s'.
Proof.
  intros HI Hu Hok H. destruct (is_spawn act) eqn:Es.
  - destruct act; try discriminate. revert H. unfold do_action. destruct Hu as (a & Ha & Hr). rewrite Ha.
    destruct (spawn s u (a_tok a) t r) as [[s1 o1] p1] eqn:E. intros H; inversion H; subst.
    destruct (Inv_spawn _ _ _ _ _ _ _ _ _ E HI (Hok t r eq_refl) Ha eq_refl (or_introl Hr)) as [I1 R1].
    split; [exact I1|apply R1; exists a; auto].
  - assert (Q : qk s s') by (eapply qk_do_action; [apply HI|exact Hu|exact Es|exact H]).
    split; [eapply Inv_qk; eassumption|eapply regu_qk; eassumption].
Qed.

Lemma bind_P (P : kstate -> Prop) (r : R) f s3 o3 p3 :
  (forall s1 o1 p1, r = (s1, o1, p1) -> P s1) -> (forall s1 s2 o2 p2, P s1 -> f s1 = (s2, o2, p2) -> P s2) ->
  r >>= f = (s3, o3, p3) -> P s3.
Proof.
  intros H1 H2'. destruct r as [[s1 o1] p1]. unfold bind. destruct p1.
  - intros H; inversion H; subst. eapply H1; reflexivity.
  - destruct (f s1) as [[s2 o2] p2] eqn:E. intros H; inversion H; subst. eapply H2'; [eapply H1; reflexivity|exact E].
Qed.

Lemma A_do_actions acts : forall s u snd s' o p,
  Inv s -> regu u s -> acts_ok acts -> do_actions roles s u snd acts = (s', o, p) -> Inv s' /\ regu u s'.
Proof.
  induction acts as [|act rest IH]; intros s u snd s' o p HI Hu Hok; cbn [do_actions].
  - intros H; inversion H; subst. auto.
  - apply (bind_P (fun x => Inv x /\ regu u x)).
    + intros s1 o1 p1 E. eapply A_do_action; [exact HI|exact Hu| |exact E]. intros t r ->. eapply Hok. left. reflexivity.
    + intros s1 s2 o2 p2 [I1 R1] E. eapply IH; [exact I1|exact R1| |exact E]. intros t r Hin. eapply Hok. right. exact Hin.
Qed.

Lemma qk_do_actions acts : forall s u snd s' o p,
  RI s -> regu u s -> no_spawn acts -> do_actions roles s u snd acts = (s', o, p) -> qk s s'.
Proof.
  induction acts as [|act rest IH]; intros s u snd s' o p HR Hu Hns; cbn [do_actions].
  - intros H; inversion H; subst. apply qk_refl.
  - intros H. assert (G : exists sm, qk s sm /\ qk sm s'); [|destruct G as (sm & Q1 & Q2); eapply qk_trans; eassumption].
    revert H. destruct (do_action roles s u snd act) as [[s1 o1] p1] eqn:E1. unfold bind.
    assert (Q1 : qk s s1) by (eapply qk_do_action; [exact HR|exact Hu|apply Hns; left; reflexivity|exact E1]).
    destruct p1.
    + intros H; inversion H; subst. exists s'. split; [exact Q1|apply qk_refl].
    + destruct (do_actions roles s1 u snd rest) as [[s2 o2] p2] eqn:E2. intros H; inversion H; subst. exists s1. split; [exact Q1|].
      eapply IH; [eapply RI_qk; eassumption|eapply regu_qk; eassumption|intros a0 H0; apply Hns; right; exact H0|exact E2].
Qed.

Lemma A_handle_q q s u t k snd s' o p :
  Inv s -> regu u s -> handle_q roles q s u t k snd = (s', o, p) -> Inv s' /\ regu u s'.
Proof.
  intros HI Hu. unfold handle_q. destruct (get s u) as [a|]; [|intros H; inversion H; subst; auto].
  destruct q; [intros H; inversion H; subst; auto|].
  destruct (do_actions roles s u snd (find_rule (rules (role_of roles a)) t (a_inst a))) as [[s1 o1] p1] eqn:E.
  intros H; inversion H; subst. eapply A_do_actions; [exact HI|exact Hu| |exact E].
  intros tt rr Hin. eapply acts_spec. exact Hin.
Qed.
Lemma A_handle s u t k snd s' o p : Inv s -> regu u s -> handle roles s u t k snd = (s', o, p) -> Inv s' /\ regu u s'.
Proof. intros HI Hu. unfold handle. destruct (get s u); [apply A_handle_q; assumption|intros H; inversion H; subst; auto]. Qed.

Lemma qk_handle_tts s u k snd s' o p : RI s -> regu u s -> handle roles s u TTS k snd = (s', o, p) -> qk s s'.
Proof.
  intros HR Hu. unfold handle. destruct (get s u) as [a0|]; [|intros H; inversion H; subst; apply qk_refl].
  unfold handle_q. destruct (get s u) as [a|]; [|intros H; inversion H; subst; apply qk_refl].
  destruct (is_sys (a_tok a0)); [intros H; inversion H; subst; apply qk_refl|].
  destruct (do_actions roles s u snd (find_rule (rules (role_of roles a)) TTS (a_inst a))) as [[s1 o1] p1] eqn:E.
  intros H; inversion H; subst. eapply qk_do_actions; [exact HR|exact Hu| |exact E].
  intros act Hin. destruct act; try reflexivity. exfalso. destruct (acts_spec _ _ _ _ _ Hin) as [_ Hk]. apply Hk. reflexivity.
Qed.

Lemma A_try_terminated s u snd s' o p : Inv s -> regu u s -> try_terminated roles s u snd = (s', o, p) -> Inv s' /\ hor u s'.
Proof.
  intros HI Hu. unfold try_terminated. destruct (get s u) as [a|] eqn:Ea; [|intros H; inversion H; subst; split; [exact HI|apply hor_of_regu; exact Hu]].
  destruct (a_children a) eqn:Ech; [|intros H; inversion H; subst; split; [exact HI|apply hor_of_regu; exact Hu]].
  destruct (a_st a) eqn:Est; try (intros H; inversion H; subst; split; [exact HI|apply hor_of_regu; exact Hu]).
  set (s1 := upd_actor s u (w_st Terminated)).
  assert (Q1 : qk s s1) by (unfold s1; apply qk_upd_actor; [intros b; repeat split; auto|intros b Hb; eapply regu_or; eassumption]).
  assert (G1 : get s1 u = Some (w_st Terminated a)) by (apply get_upd_actor_same; exact Ea).
  destruct (handle roles s1 u TTS 0%nat snd) as [[s2 o2] p2] eqn:E2.
  assert (Q2 : qk s1 s2) by (eapply qk_handle_tts; [eapply RI_qk; [apply HI|exact Q1]|eapply regu_qk; eassumption|exact E2]).
  assert (Q02 : qk s s2) by (eapply qk_trans; eassumption).
  assert (I2 : Inv s2) by (eapply Inv_qk; eassumption).
  assert (R2 : regu u s2) by (eapply regu_qk; eassumption).
  unfold bind. destruct p2.
  - intros H; inversion H; subst. split; [exact I2|apply hor_of_regu; exact R2].
  - destruct Q2 as (_ & _ & K2). destruct (K2 u _ G1) as (a2 & G2 & T2 & P2 & C2 & S2 & _). cbn [a_tok a_parent a_children a_st w_st] in *.
    destruct R2 as (a2' & G2' & Rr2). rewrite G2 in G2'. inversion G2'; subst a2'.
    assert (I3 : Inv (set_registry s2 (remove_key (a_tok a) (registry s2)))).
    { rewrite <- T2. eapply Inv_unregister; [exact I2|exact G2|exact Rr2|apply S2; reflexivity|congruence]. }
    set (s3 := set_registry s2 (remove_key (a_tok a) (registry s2))) in *.
    assert (H3u : hor u s3).
    { intros b Hb. change (get s3 u) with (get s2 u) in Hb. rewrite G2 in Hb. inversion Hb; subst b. right. apply S2. reflexivity. }
    set (ws := filter (fun w => negb (w =? a_parent a)) (a_watchers a)).
    assert (Q4 : qk s3 (notify_all s3 (a_tok a) ws)) by (apply qk_notify_all; apply I3).
    set (s4 := notify_all s3 (a_tok a) ws) in *.
    assert (I4 : Inv s4) by (eapply Inv_qk; eassumption).
    assert (H4u : hor u s4) by (eapply hor_qk; eassumption).
    destruct (a_parent a =? rNone).
    + intros H; inversion H; subst.
      match goal with |- Inv ?x /\ _ => assert (Q5 : qk s4 x) by (apply qk_same; reflexivity) end.
      split; [eapply Inv_qk; eassumption|eapply hor_qk; eassumption].
    + intros H; inversion H; subst.
      assert (Q5 : qk s4 (deliver_sys s4 (a_parent a) (a_tok a) (STerminatedOf (a_tok a)))) by (apply qk_deliver_sys; apply I4).
      split; [eapply Inv_qk; eassumption|eapply hor_qk; eassumption].
Qed.

Lemma A_start_instance s u self parent s' o p : Inv s -> regu u s -> start_instance roles s u self parent = (s', o, p) -> Inv s' /\ regu u s'.
Proof.
  intros HI Hu. unfold start_instance. destruct (handle roles s u TRD 0%nat self) as [[s1 o1] p1] eqn:E1.
  destruct (A_handle _ _ _ _ _ _ _ _ HI Hu E1) as [I1 R1].
  destruct (handle roles s1 u TL 0%nat parent) as [[s2 o2] p2] eqn:E2.
  destruct (A_handle _ _ _ _ _ _ _ _ I1 R1 E2) as [I2 R2]. intros H; inversion H; subst.
  destruct p2; [auto|].
  assert (Q : qk s2 (upd_actor s2 u (w_accidents 0%nat))) by (apply qk_upd_actor; [qp|apply hor_of_regu; exact R2]).
  split; [eapply Inv_qk; eassumption|eapply regu_qk; eassumption].
Qed.

Lemma A_try_restarted s u snd s' o p : Inv s -> regu u s -> try_restarted roles s u snd = (s', o, p) -> Inv s' /\ hor u s'.
Proof.
  intros HI Hu. unfold try_restarted. destruct (get s u) as [a|] eqn:Ea; [|intros H; inversion H; subst; split; [exact HI|apply hor_of_regu; exact Hu]].
  destruct (a_children a); [|intros H; inversion H; subst; split; [exact HI|apply hor_of_regu; exact Hu]].
  destruct (a_st a) eqn:Est; try (intros H; inversion H; subst; split; [exact HI|apply hor_of_regu; exact Hu]).
  intros H. assert (G : Inv s' /\ regu u s'); [|destruct G; split; [assumption|apply hor_of_regu; assumption]].
  revert H. destruct (provide s (a_tok a)) as [s0 inst] eqn:Ep.
  assert (Q0 : qk s s0) by (unfold provide in Ep; inversion Ep; subst; apply qk_same; reflexivity).
  assert (G0 : get s0 u = Some a) by (unfold provide in Ep; inversion Ep; subst; exact Ea).
  assert (I0 : Inv s0) by (eapply Inv_qk; eassumption).
  assert (R0 : regu u s0) by (eapply regu_qk; eassumption).
  destruct (handle roles s0 u TT 0%nat snd) as [[s1 o1] p1] eqn:E1.
  destruct (A_handle _ _ _ _ _ _ _ _ I0 R0 E1) as [I1 R1]. pose proof (keep_handle _ _ _ _ _ _ _ _ _ E1) as K1.
  unfold bind at 1. destruct p1; [intros H; inversion H; subst; auto|].
  destruct (handle roles s1 u TTS 0%nat snd) as [[s2 o2] p2] eqn:E2.
  destruct (A_handle _ _ _ _ _ _ _ _ I1 R1 E2) as [I2 R2]. pose proof (keep_handle _ _ _ _ _ _ _ _ _ E2) as K2.
  unfold bind. destruct p2; [intros H; inversion H; subst; auto|].
  match goal with |- context [start_instance ?r ?x ?y ?z ?w0] => destruct (start_instance r x y z w0) as [[s9 o9] p9] eqn:E9 end.
  intros H; inversion H; subst.
  destruct (K1 u a G0) as (a1 & G1 & S1 & _). destruct (K2 u a1 G1) as (a2 & G2 & S2 & _).
  assert (Q4 : qk s2 (upd_actor s2 u (fun b => w_st Alive (w_inst inst b)))).
  { unfold upd_actor. rewrite G2. eapply qk_put; [exact G2|reflexivity|reflexivity|reflexivity| |eapply regu_or; eassumption].
    intros Ht. rewrite S2, S1, Est in Ht. discriminate. }
  set (s4 := upd_actor s2 u (fun b => w_st Alive (w_inst inst b))) in *.
  assert (I4 : Inv s4) by (eapply Inv_qk; [exact I2|exact Q4]).
  assert (R4 : regu u s4) by (eapply regu_qk; eassumption).
  assert (Q5 : qk s4 (deliver_sys s4 (a_tok a) (a_tok a) SResume)) by (apply qk_deliver_sys; apply I4).
  set (s5 := deliver_sys s4 (a_tok a) (a_tok a) SResume) in *.
  assert (I5 : Inv s5) by (eapply Inv_qk; eassumption).
  assert (R5 : regu u s5) by (eapply regu_qk; [exact Q5|exact R4]).
  eapply A_start_instance; [exact I5|exact R5|exact E9].
Qed.

Lemma A_apply_directive s u r d snd s' o p : Inv s -> regu u s -> apply_directive roles s u r d snd = (s', o, p) -> Inv s' /\ hor u s'.
Proof.
  intros HI Hu. unfold apply_directive. destruct (get s u) as [a|]; [|intros H; inversion H; subst; split; [exact HI|apply hor_of_regu; exact Hu]].
  assert (QK : forall x, qk s x -> Inv x /\ hor u x) by (intros x Q; split; [eapply Inv_qk; eassumption|eapply hor_qk; [exact Q|apply hor_of_regu; exact Hu]]).
  destruct d.
  - intros H; inversion H; subst. apply QK. apply qk_deliver_sys. apply HI.
  - destruct (terminate s (a_tok a) (ar_vref r) false) as [s1 o1] eqn:E1.
    destruct (try_terminated roles s1 u snd) as [[s2 o2] p2] eqn:E2. intros H; inversion H; subst.
    assert (Q1 : qk s s1) by (eapply qk_terminate; [apply HI|exact E1]).
    eapply A_try_terminated; [eapply Inv_qk; eassumption|eapply regu_qk; eassumption|exact E2].
  - intros H; inversion H; subst. apply QK. apply qk_deliver_sys. apply HI.
  - destruct (escalate s u r) as [[s1 o1] p1] eqn:E. intros H; inversion H; subst. apply QK. eapply qk_escalate; [apply HI|exact E].
  - intros H; inversion H; subst. apply QK. apply qk_restart_all. apply HI.
Qed.

Lemma A_on_accident s u r snd s' o p : Inv s -> regu u s -> on_accident roles s u r snd = (s', o, p) -> Inv s' /\ hor u s'.
Proof.
  intros HI Hu. unfold on_accident. destruct (get s u) as [a|]; [|intros H; inversion H; subst; split; [exact HI|apply hor_of_regu; exact Hu]].
  destruct (ar_strategy r); [apply A_apply_directive; assumption|].
  destruct (sup (role_of roles a)); [|apply A_apply_directive; assumption].
  intros H. pose proof (qk_escalate _ _ _ _ _ _ (proj1 HI) H) as Q. split; [eapply Inv_qk; eassumption|eapply hor_qk; [exact Q|apply hor_of_regu; exact Hu]].
Qed.

Lemma A_process_sys s u e s' o p : Inv s -> hor u s -> process_sys roles s u e = (s', o, p) -> Inv s' /\ hor u s'.
Proof.
  intros HI Ho. unfold process_sys. destruct (get s u) as [a|] eqn:Ea; [|intros H; inversion H; subst; auto].
  assert (QK : forall x, qk s x -> Inv x /\ hor u x) by (intros x Q; split; [eapply Inv_qk; eassumption|eapply hor_qk; eassumption]).
  destruct (Ho a Ea) as [Hr|Hst].
  2:{ (* a terminated object: everything is dropped except a queued watch request, which is answered *)
      rewrite Hst. destruct (e_msg e); try (intros H; inversion H; subst; auto; fail).
      destruct (e_snd e =? a_parent a); [intros H; inversion H; subst; auto|]. cbn [st_ge_terminating].
      intros H; inversion H; subst. apply QK. apply qk_deliver_sys. apply HI. }
  assert (Hu : regu u s) by (exists a; auto).
  destruct (match a_st a, e_msg e with Terminated, SWatch => false | Terminated, _ => true | _, _ => false end);
    [intros H; inversion H; subst; auto|].
  destruct (e_msg e) as [| |g|who| |r| | | | |] eqn:Em.
  - (* SLaunch *) destruct (handle roles s u TL 0%nat (e_snd e)) as [[s1 o1] p1] eqn:E1.
    destruct (A_handle _ _ _ _ _ _ _ _ HI Hu E1) as [I1 R1]. unfold bind. destruct p1; [intros H; inversion H; subst; split; [exact I1|apply hor_of_regu; exact R1]|].
    intros H; inversion H; subst.
    assert (Q : qk s1 (upd_actor s1 u (w_accidents 0%nat))) by (apply qk_upd_actor; [qp|apply hor_of_regu; exact R1]).
    split; [eapply Inv_qk; eassumption|eapply hor_qk; [exact Q|apply hor_of_regu; exact R1]].
  - (* SRestarted *) intros H. destruct (A_handle _ _ _ _ _ _ _ _ HI Hu H) as [I1 R1]. split; [exact I1|apply hor_of_regu; exact R1].
  - (* STerminate *)
    assert (HT : forall s0, Inv s0 -> regu u s0 ->
       handle roles s0 u TT 0%nat (e_snd e) >>= (fun s3 => match get s3 u with
         | None => ok s3 []
         | Some a3 => let '(s4, o4) := terminate_all s3 (a_tok a3) (a_children a3) (g || a_graceful a3) in
                      let '(s5, o5, p) := try_terminated roles s4 u (e_snd e) in (s5, o4 ++ o5, p) end) = (s', o, p) ->
       Inv s' /\ hor u s').
    { intros s0 I0 R0. destruct (handle roles s0 u TT 0%nat (e_snd e)) as [[s1 o1] p1] eqn:E1.
      destruct (A_handle _ _ _ _ _ _ _ _ I0 R0 E1) as [I1 R1]. unfold bind. destruct p1; [intros H; inversion H; subst; split; [exact I1|apply hor_of_regu; exact R1]|].
      destruct (get s1 u) as [a3|]; [|intros H; inversion H; subst; split; [exact I1|apply hor_of_regu; exact R1]].
      destruct (terminate_all s1 (a_tok a3) (a_children a3) (g || a_graceful a3)) as [s4 o4] eqn:E4.
      destruct (try_terminated roles s4 u (e_snd e)) as [[s5 o5] p5] eqn:E5. intros H; inversion H; subst.
      assert (Q4 : qk s1 s4) by (eapply qk_terminate_all; [apply I1|exact E4]).
      eapply A_try_terminated; [eapply Inv_qk; eassumption|eapply regu_qk; eassumption|exact E5]. }
    assert (Pre : forall x, x = Alive \/ x = Restarting -> a_st a = x ->
       Inv (deliver_sys (upd_actor s u (w_st Terminating)) (a_tok a) (a_tok a) SResume) /\ regu u (deliver_sys (upd_actor s u (w_st Terminating)) (a_tok a) (a_tok a) SResume)).
    { intros x Hx Ex.
      assert (Q1 : qk s (upd_actor s u (w_st Terminating))).
      { unfold upd_actor. rewrite Ea. eapply qk_put; [exact Ea|reflexivity|reflexivity|reflexivity| |left; exact Hr]. intros Ht. rewrite Ex in Ht. destruct Hx; subst; discriminate. }
      assert (Q2 : qk (upd_actor s u (w_st Terminating)) (deliver_sys (upd_actor s u (w_st Terminating)) (a_tok a) (a_tok a) SResume)) by (apply qk_deliver_sys; eapply RI_qk; [apply HI|exact Q1]).
      split; [eapply Inv_qk; [eapply Inv_qk; [exact HI|exact Q1]|exact Q2]|eapply regu_qk; [exact Q2|eapply regu_qk; eassumption]]. }
    destruct (a_st a) eqn:Est; try (intros H; inversion H; subst; auto; fail).
    + destruct (Pre Alive (or_introl eq_refl) eq_refl) as [I1 R1]. apply HT; assumption.
    + destruct (Pre Restarting (or_intror eq_refl) eq_refl) as [I1 R1]. apply HT; assumption.
  - (* STerminatedOf *)
    destruct (Inv_drop_child s u who HI Ho) as [I0 R0]. specialize (R0 Hu).
    destruct (handle roles (drop_child s u who) u (if who =? a_tok a then TTS else TTO who) 0%nat (e_snd e)) as [[s1 o1] p1] eqn:E1.
    destruct (A_handle _ _ _ _ _ _ _ _ I0 R0 E1) as [I1 R1]. unfold bind. destruct p1; [intros H; inversion H; subst; split; [exact I1|apply hor_of_regu; exact R1]|].
    destruct (get s1 u) as [a2|]; [|intros H; inversion H; subst; split; [exact I1|apply hor_of_regu; exact R1]].
    destruct (a_st a2); try (intros H; inversion H; subst; split; [exact I1|apply hor_of_regu; exact R1]).
    + destruct (try_restarted roles s1 u (e_snd e)) as [[s2 o2] p2] eqn:E2. intros H; inversion H; subst. eapply A_try_restarted; eassumption.
    + destruct (try_terminated roles s1 u (e_snd e)) as [[s2 o2] p2] eqn:E2. intros H; inversion H; subst. eapply A_try_terminated; eassumption.
  - (* SRestart *) destruct (a_st a) eqn:Est; try (intros H; inversion H; subst; auto; fail).
    assert (Q1 : qk s (upd_actor s u (w_st Restarting))).
    { unfold upd_actor. rewrite Ea. eapply qk_put; [exact Ea|reflexivity|reflexivity|reflexivity| |left; exact Hr]. intros Ht. rewrite Est in Ht. discriminate. }
    set (s0 := upd_actor s u (w_st Restarting)) in *.
    assert (Q2 : qk s0 (deliver_sys s0 (a_tok a) (a_tok a) SSuspend)) by (apply qk_deliver_sys; eapply RI_qk; [apply HI|exact Q1]).
    set (s1 := deliver_sys s0 (a_tok a) (a_tok a) SSuspend) in *.
    assert (I1 : Inv s1) by (eapply Inv_qk; [eapply Inv_qk; [exact HI|exact Q1]|exact Q2]).
    assert (R1 : regu u s1) by (eapply regu_qk; [exact Q2|eapply regu_qk; eassumption]).
    destruct (handle roles s1 u TRG 0%nat (e_snd e)) as [[s2 o2] p2] eqn:E2.
    destruct (A_handle _ _ _ _ _ _ _ _ I1 R1 E2) as [I2 R2]. unfold bind. destruct p2; [intros H; inversion H; subst; split; [exact I2|apply hor_of_regu; exact R2]|].
    destruct (get s2 u) as [a2|]; [|intros H; inversion H; subst; split; [exact I2|apply hor_of_regu; exact R2]].
    destruct (terminate_all s2 (a_tok a2) (a_children a2) false) as [s3 o3] eqn:E3.
    destruct (try_restarted roles s3 u (e_snd e)) as [[s4 o4] p4] eqn:E4. intros H; inversion H; subst.
    assert (Q3 : qk s2 s3) by (eapply qk_terminate_all; [apply I2|exact E3]).
    eapply A_try_restarted; [eapply Inv_qk; eassumption|eapply regu_qk; eassumption|exact E4].
  - (* SAccident *) apply A_on_accident; assumption.
  - (* SWatch *) destruct (e_snd e =? a_parent a); [intros H; inversion H; subst; auto|].
    destruct (st_ge_terminating (a_st a)); intros H; inversion H; subst; apply QK.
    + apply qk_deliver_sys. apply HI.
    + apply qk_upd_actor; [qp|exact Ho].
  - (* SUnwatch *) intros H; inversion H; subst. apply QK. apply qk_upd_actor; [qp|exact Ho].
  - intros H; inversion H; subst; auto.
  - intros H; inversion H; subst; auto.
  - (* SResumeReq *) destruct (a_st a); intros H; inversion H; subst; auto.
    apply QK. apply qk_deliver_sys. apply HI.
Qed.

Lemma A_process_user s u e s' o p : Inv s -> hor u s -> process_user roles s u e = (s', o, p) -> Inv s' /\ hor u s'.
Proof.
  intros HI Ho. unfold process_user. destruct (get s u) as [a|] eqn:Ea; [|intros H; inversion H; subst; auto].
  assert (QK : forall x, qk s x -> Inv x /\ hor u x) by (intros x Q; split; [eapply Inv_qk; eassumption|eapply hor_qk; eassumption]).
  destruct (st_ge_terminating (a_st a)) eqn:Eg.
  - destruct (abyss_user s (e_snd e) (e_rcv e) (e_msg e)) as [s1 o1] eqn:E. intros H; inversion H; subst. apply QK. eapply qk_abyss_user; [apply HI|exact E].
  - assert (Hu : regu u s). { exists a. split; [exact Ea|]. destruct (Ho a Ea) as [Hr|Hst]; [exact Hr|rewrite Hst in Eg; discriminate]. }
    destruct (e_msg e).
    + intros H. destruct (A_handle_q _ _ _ _ _ _ _ _ _ HI Hu H) as [I1 R1]. split; [exact I1|apply hor_of_regu; exact R1].
    + intros H; inversion H; subst.
      assert (Q1 : qk s (upd_actor s u (w_graceful true))) by (apply qk_upd_actor; [qp|exact Ho]).
      apply QK. eapply qk_trans; [exact Q1|]. apply qk_deliver_sys. eapply RI_qk; [apply HI|exact Q1].
    + intros H; inversion H; subst; auto.
Qed.

Lemma A_run_actor s u s' o : Inv s -> run_actor roles s u = Some (s', o) -> Inv s'.
Proof.
  intros HI. unfold run_actor. destruct (get s u) as [a|] eqn:Ea; [|discriminate].
  destruct (a_inflight a) as [m|] eqn:Em; [|discriminate].
  assert (Ho : hor u s).
  { intros b Hb. rewrite Ea in Hb. inversion Hb; subst b. destruct HI as (_ & _ & HH3 & _). destruct (HH3 u a Ea) as [H|[H|H]]; [left; exact H|right; exact H|].
    destruct H as (_ & _ & Hi & _). congruence. }
  assert (Q0 : qk s (upd_actor s u (w_inflight None))) by (apply qk_upd_actor; [qp|exact Ho]).
  set (s0 := upd_actor s u (w_inflight None)) in *.
  assert (I0 : Inv s0) by (eapply Inv_qk; eassumption). assert (H0 : hor u s0) by (eapply hor_qk; eassumption).
  destruct (match m with MS e => process_sys roles s0 u e | MU e => process_user roles s0 u e end) as [[s1 o1] p1] eqn:E.
  assert (P1 : Inv s1 /\ hor u s1) by (destruct m; [eapply A_process_sys; eassumption|eapply A_process_user; eassumption]).
  destruct P1 as [I1 H1]. destruct p1.
  - destruct (crashed s1); [intros H; inversion H; subst; exact I1|].
    destruct (report_abnormal roles s1 u) as [[s2 o2] p2] eqn:E2. intros H; inversion H; subst.
    revert E2. unfold report_abnormal. destruct (get s1 u) as [a1|] eqn:Ea1; [|intros H2; inversion H2; subst; exact I1].
    destruct (a_st a1) eqn:Est; try (intros H2; inversion H2; subst; exact I1).
    assert (R1 : regu u s1). { exists a1. split; [exact Ea1|]. destruct (H1 a1 Ea1) as [Hr|Hs]; [exact Hr|congruence]. }
    intros H2. eapply Inv_qk; [exact I1|]. eapply qk_report_abnormal; [apply I1|exact R1|]. unfold report_abnormal. rewrite Ea1, Est. exact H2.
  - intros H; inversion H; subst. exact I1.
Qed.

Definition lab_ok (l : label) : Prop := match l with LSpawn t _ => 0 <= t | _ => True end.

Theorem kstep_Inv s l s' o : lab_ok l -> Inv s -> kstep roles s l = Some (s', o) -> Inv s'.
Proof.
  intros Hl HI.
  assert (N : forall x, Inv x -> Inv (normalize x)) by (intros x Ix; eapply Inv_qk; [exact Ix|apply qk_normalize; apply Ix]).
  destruct l; cbn [kstep].
  - destruct (run_actor roles s (Z.to_nat u)) as [[s1 o1]|] eqn:E; [|discriminate]. intros H; inversion H; subst. apply N. eapply A_run_actor; eassumption.
  - destruct (next_serial s) as [s1 k] eqn:En. destruct (deliver_user s1 t rNone (UProbe n k)) as [s2 o2] eqn:E. intros H; inversion H; subst.
    assert (Q1 : qk s s1) by (change s1 with (fst (s1, k)); rewrite <- En; apply qk_next_serial).
    apply N. eapply Inv_qk; [eapply Inv_qk; [exact HI|exact Q1]|]. eapply qk_deliver_user; [eapply RI_qk; [apply HI|exact Q1]|exact E].
  - destruct (next_serial s) as [s1 k] eqn:En. destruct (deliver_user s1 t rGuard (UProbe n k)) as [s2 o2] eqn:E. intros H; inversion H; subst.
    assert (Q1 : qk s s1) by (change s1 with (fst (s1, k)); rewrite <- En; apply qk_next_serial).
    apply N. eapply Inv_qk; [eapply Inv_qk; [exact HI|exact Q1]|]. eapply qk_deliver_user; [eapply RI_qk; [apply HI|exact Q1]|exact E].
  - destruct (terminate s rGuard t g) as [s1 o1] eqn:E. intros H; inversion H; subst. apply N. eapply Inv_qk; [exact HI|]. eapply qk_terminate; [apply HI|exact E].
  - destruct (spawn s guard_uid rGuard t r) as [[s1 o1] p] eqn:E. intros H; inversion H; subst. apply N.
    pose proof HI as (_ & _ & _ & (g & Hg & Tg & Sg) & HH5 & _).
    assert (D : reg s guard_uid g \/ (rGuard = rGuard /\ lookup rGuard (registry s) = None /\ a_st g = Terminated)).
    { destruct Sg as [Sg|Sg]; [left; exact Sg|]. destruct (lookup rGuard (registry s)) as [v|] eqn:El; [|right; auto].
      left. unfold reg. rewrite Tg, El. rewrite (HH5 v El). reflexivity. }
    destruct (Inv_spawn _ _ _ _ _ _ _ _ _ E HI Hl Hg Tg D) as [I1 _]. exact I1.
  - destruct (terminate s rGuard rGuard g) as [s1 o1] eqn:E. intros H; inversion H; subst. apply N. eapply Inv_qk; [exact HI|]. eapply qk_terminate; [apply HI|exact E].
  - intros H; inversion H; subst. exact HI.
Qed.

Theorem krun_Inv ls : forall s s' os, Forall lab_ok ls -> Inv s -> krun roles s ls = Some (s', os) -> Inv s'.
Proof.
  induction ls as [|l t IH]; intros s s' os Hl HI; cbn [krun].
  - intros H; inversion H; subst. exact HI.
  - destruct (kstep roles s l) as [[s1 o]|] eqn:E; [|discriminate].
    destruct (krun roles s1 t) as [[s2 os2]|] eqn:E2; [|discriminate]. intros H; inversion H; subst.
    inversion Hl; subst. eapply IH; [eassumption| |exact E2]. eapply kstep_Inv; eassumption.
Qed.

End T.

Lemma Inv_init : Inv kinit.
Proof.
  split; [apply RI_init|]. split; [|split; [|split; [|split; [|split]]]].
  - intros c ac Hc Hreg Hp. right. destruct c as [|[|c]]; cbn in Hc; try (destruct c; discriminate); inversion Hc; subst ac; cbn in Hp; [contradiction|].
    exists 0%nat. eexists. split; [reflexivity|]. split; [reflexivity|]. split; [left; reflexivity|lia].
  - intros u a Hu. left. destruct u as [|[|u]]; cbn in Hu; try (destruct u; discriminate); inversion Hu; subst a; reflexivity.
  - eexists. split; [reflexivity|]. split; [reflexivity|left; reflexivity].
  - intros v Hv. cbn in Hv. inversion Hv. reflexivity.
  - intros u a Hu Hp. destruct u as [|[|u]]; cbn in Hu; try (destruct u; discriminate); inversion Hu; subst a; [reflexivity|discriminate].
  - intros u a Hu. destruct u as [|[|u]]; cbn in Hu; try (destruct u; discriminate); inversion Hu; subst a; discriminate.
Qed.

(* C05, hierarchy: in every reachable state, a registered object's parent is registered and lists it *)
Theorem hierarchical roles ls s os :
  (forall ro ru t r, In ro roles -> In ru (rules ro) -> In (ASpawn t r) (r_do ru) -> 0 <= t /\ r_on ru <> KTS) ->
  Forall lab_ok ls -> krun roles kinit ls = Some (s, os) ->
  forall c ac, get s c = Some ac -> lookup (a_tok ac) (registry s) = Some c -> a_parent ac <> rNone ->
    (a_parent ac = rGuard /\ lookup rGuard (registry s) = None) \/
    exists pu pa, lookup (a_parent ac) (registry s) = Some pu /\ get s pu = Some pa /\ In (a_tok ac) (a_children pa) /\ (pu < c)%nat.
Proof.
  intros Hsp Hl Hrun. pose proof (krun_Inv roles Hsp ls kinit s os Hl Inv_init Hrun) as (_ & HH2 & _). exact HH2.
Qed.
