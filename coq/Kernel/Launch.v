(* MV.Kernel.Launch — C03, first clause: "for each incarnation the first message handled is OnLaunch, preceded only by
   OnRestarted": for every role table and every run from the freshly started system, whenever a step shows an
   incarnation (address t, instance i) of a non-system actor handling anything other than OnLaunch / OnRestarted, that
   incarnation has handled its OnLaunch in an EARLIER step of the run.

   Invariant LI (relative to the trace so far): every object is a system actor, or has its OnLaunch at the head of its
   mailbox (in flight or first in the system queue), or has handled OnLaunch with its current instance number, or is
   terminated. Objects other than the one whose message is being processed only gain messages at the tail (FrameU);
   a new object ends its creation with OnLaunch queued first, or terminated (address taken); the running object is
   followed through processMessage: only a completed restart changes its instance number, and that step handles the
   new instance's OnLaunch. *)
From MV Require Import Lib.ListX Kernel.Model Kernel.Lifecycle Kernel.Status Kernel.Registry Kernel.Frame Kernel.FrameU Kernel.FrameG Kernel.Queue Kernel.Watch.
Open Scope Z_scope.

Definition launched (tr : list obs) (t : ref) (i : nat) : Prop := exists sn sd, In (OH t i TL sn sd) tr.
Definition launch_pending (a : actor) : Prop :=
  match a_inflight a with
  | Some (MS e) => e_msg e = SLaunch
  | Some (MU _) => False
  | None => match a_sysq a with e :: _ => e_msg e = SLaunch | [] => False end
  end.
Lemma launch_pending_frame a a' : a_inflight a' = a_inflight a -> (exists app, a_sysq a' = a_sysq a ++ app) -> launch_pending a -> launch_pending a'.
Proof.
  unfold launch_pending. intros I (p & Q). rewrite I, Q. destruct (a_inflight a) as [[e|e]|]; auto. destruct (a_sysq a); [intros []|auto].
Qed.
Definition LIa (tr : list obs) (a : actor) : Prop :=
  is_sys (a_tok a) = true \/ launch_pending a \/ launched tr (a_tok a) (a_inst a) \/ a_st a = Terminated.
Definition LI (tr : list obs) (s : kstate) : Prop := forall u a, get s u = Some a -> LIa tr a.

Lemma launched_app tr o t i : launched tr t i -> launched (tr ++ o) t i.
Proof. intros (sn & sd & H). exists sn, sd. apply in_or_app. left. exact H. Qed.
Lemma launched_app_r tr o t i : launched o t i -> launched (tr ++ o) t i.
Proof. intros (sn & sd & H). exists sn, sd. apply in_or_app. right. exact H. Qed.

(* ---------- no Handled observation at all ---------- *)
Definition nh (o : list obs) : Prop := existsb is_handled o = false.
Lemma nh_nil : nh []. Proof. reflexivity. Qed.
Lemma nh_app a b : nh a -> nh b -> nh (a ++ b).
Proof. unfold nh. intros Ha Hb. rewrite existsb_app, Ha, Hb. reflexivity. Qed.
Lemma nh_cons x o : is_handled x = false -> nh o -> nh (x :: o).
Proof. unfold nh. intros Hx Ho. cbn [existsb]. rewrite Hx, Ho. reflexivity. Qed.
Lemma nh_in o x i t sn sd : nh o -> ~ In (OH x i t sn sd) o.
Proof.
  unfold nh. intros H Hin. assert (existsb is_handled o = true) by (apply existsb_exists; eexists; split; [exact Hin|reflexivity]). congruence.
Qed.

Lemma nh_abyss_user s snd rcv m s' o : abyss_user s snd rcv m = (s', o) -> nh o.
Proof. unfold abyss_user. destruct m; intros H; inversion H; subst; reflexivity. Qed.
Lemma nh_deliver_user s t snd m s' o : deliver_user s t snd m = (s', o) -> nh o.
Proof.
  unfold deliver_user. destruct (lookup t (registry s)) as [u|]; [|apply nh_abyss_user].
  destruct (get s u); [intros H; inversion H; subst; reflexivity|apply nh_abyss_user].
Qed.
Lemma nh_terminate s self t g s' o : terminate s self t g = (s', o) -> nh o.
Proof. unfold terminate. destruct g; [apply nh_deliver_user|intros H; inversion H; subst; reflexivity]. Qed.
Lemma nh_terminate_all cs : forall s self g s' o, terminate_all s self cs g = (s', o) -> nh o.
Proof.
  induction cs as [|c rest IH]; intros s self g s' o; cbn [terminate_all]; [intros H; inversion H; subst; reflexivity|].
  destruct (terminate s self c g) as [s1 o1] eqn:E1. destruct (terminate_all s1 self rest g) as [s2 o2] eqn:E2.
  intros H; inversion H; subst. apply nh_app; [eapply nh_terminate; exact E1|eapply IH; exact E2].
Qed.
Lemma nh_send_each ts : forall s self n k s' o, send_each s self ts n k = (s', o) -> nh o.
Proof.
  induction ts as [|t rest IH]; intros s self n k s' o; cbn [send_each]; [intros H; inversion H; subst; reflexivity|].
  destruct (deliver_user s t self (UProbe n k)) as [s1 o1] eqn:E1. destruct (send_each s1 self rest n k) as [s2 o2] eqn:E2.
  intros H; inversion H; subst. apply nh_app; [eapply nh_deliver_user; exact E1|eapply IH; exact E2].
Qed.
Lemma nh_stop s u self t s' o p : stop_if_parent_gone s u self t = (s', o, p) -> nh o.
Proof.
  unfold stop_if_parent_gone. destruct (get s u) as [pa|]; [|intros H; inversion H; subst; reflexivity].
  destruct (not_alive (a_st pa)); [|intros H; inversion H; subst; reflexivity].
  destruct (terminate s self t (a_graceful pa)) as [s1 o1] eqn:E. intros H; inversion H; subst. eapply nh_terminate; exact E.
Qed.
Lemma nh_spawn s u self t r s' o p : spawn s u self t r = (s', o, p) -> nh o.
Proof.
  unfold spawn. destruct (provide s t) as [s1 inst]. destruct (lookup t _); [intros H; inversion H; subst; reflexivity|apply nh_stop].
Qed.
Lemma nh_escalate s u r s' o p : escalate s u r = (s', o, p) -> nh o.
Proof.
  unfold escalate. destruct (get s u) as [a|]; [|intros H; inversion H; subst; reflexivity].
  destruct (a_parent a =? rNone); intros H; inversion H; subst; reflexivity.
Qed.
Lemma nh_map_OS self sn (l : list ref) : nh (map (fun t => OS self t sn) l).
Proof. induction l as [|x t IH]; [reflexivity|]. cbn [map]. apply nh_cons; [reflexivity|exact IH]. Qed.

Section L.
Variable roles : list role.

Lemma nh_report_abnormal s u s' o p : report_abnormal roles s u = (s', o, p) -> nh o.
Proof.
  unfold report_abnormal. destruct (get s u) as [a|]; [|intros H; inversion H; subst; reflexivity].
  destruct (a_st a); try (intros H; inversion H; subst; reflexivity). apply nh_escalate.
Qed.
Lemma nh_do_action s u snd act s' o p : do_action roles s u snd act = (s', o, p) -> nh o.
Proof.
  unfold do_action. destruct (get s u) as [a|]; [|intros H; inversion H; subst; reflexivity].
  destruct act.
  - destruct (next_serial s) as [s1 k]. destruct (deliver_user s1 t rNone (UProbe n k)) as [s2 o2] eqn:E.
    intros H; inversion H; subst. apply nh_cons; [reflexivity|eapply nh_deliver_user; exact E].
  - destruct (next_serial s) as [s1 k]. destruct (deliver_user s1 t (a_tok a) (UProbe n k)) as [s2 o2] eqn:E.
    intros H; inversion H; subst. apply nh_cons; [reflexivity|eapply nh_deliver_user; exact E].
  - destruct (next_serial s) as [s1 k]. destruct (deliver_user s1 snd (a_tok a) (UProbe n k)) as [s2 o2] eqn:E.
    intros H; inversion H; subst. apply nh_cons; [reflexivity|eapply nh_deliver_user; exact E].
  - destruct (next_serial s) as [s1 k]. destruct (send_each s1 (a_tok a) (a_children a) n k) as [s2 o2] eqn:E.
    intros H; inversion H; subst. apply nh_app; [apply nh_map_OS|eapply nh_send_each; exact E].
  - destruct (spawn s u (a_tok a) t r) as [[s1 o1] p1] eqn:E. intros H; inversion H; subst.
    apply nh_cons; [reflexivity|eapply nh_spawn; exact E].
  - destruct (terminate s (a_tok a) t g) as [s1 o1] eqn:E. intros H; inversion H; subst.
    apply nh_cons; [reflexivity|eapply nh_terminate; exact E].
  - intros H; inversion H; subst. reflexivity.
  - intros H; inversion H; subst. reflexivity.
  - destruct (report_abnormal roles s u) as [[s1 o1] p1] eqn:E. intros H; inversion H; subst.
    apply nh_cons; [reflexivity|eapply nh_report_abnormal; exact E].
  - intros H; inversion H; subst. reflexivity.
Qed.
Lemma nh_do_actions acts : forall s u snd s' o p, do_actions roles s u snd acts = (s', o, p) -> nh o.
Proof.
  induction acts as [|act rest IH]; intros s u snd s' o p; cbn [do_actions]; [intros H; inversion H; subst; reflexivity|].
  destruct (do_action roles s u snd act) as [[s1 o1] p1] eqn:E1. unfold bind. destruct p1.
  - intros H; inversion H; subst. eapply nh_do_action; exact E1.
  - destruct (do_actions roles s1 u snd rest) as [[s2 o2] p2] eqn:E2. intros H; inversion H; subst.
    apply nh_app; [eapply nh_do_action; exact E1|eapply IH; exact E2].
Qed.

(* a handler invocation shows at most one Handled observation: first, by the object's address and current instance, for
   the trigger it was invoked with *)
Lemma handle_q_obs q s u t k snd s' o p :
  handle_q roles q s u t k snd = (s', o, p) ->
  nh o \/ exists a o1 sd, get s u = Some a /\ o = OH (a_tok a) (a_inst a) t k sd :: o1 /\ nh o1.
Proof.
  unfold handle_q. destruct (get s u) as [a|]; [|intros H; inversion H; subst; left; reflexivity].
  destruct q; [intros H; inversion H; subst; left; reflexivity|].
  destruct (do_actions roles s u snd (find_rule (rules (role_of roles a)) t (a_inst a))) as [[s1 o1] p1] eqn:E.
  intros H; inversion H; subst. right. exists a, o1. eexists. split; [reflexivity|]. split; [reflexivity|eapply nh_do_actions; exact E].
Qed.
Lemma handle_obs s u t k snd s' o p :
  handle roles s u t k snd = (s', o, p) ->
  nh o \/ exists a o1 sd, get s u = Some a /\ is_sys (a_tok a) = false /\ o = OH (a_tok a) (a_inst a) t k sd :: o1 /\ nh o1.
Proof.
  unfold handle. destruct (get s u) as [a|] eqn:Ea; [|intros H; inversion H; subst; left; reflexivity].
  destruct (is_sys (a_tok a)) eqn:Es.
  - intros H. unfold handle_q in H. rewrite Ea in H. inversion H; subst. left. reflexivity.
  - intros H. destruct (handle_q_obs _ _ _ _ _ _ _ _ _ H) as [Hn|(a' & o1 & sd & Ha' & -> & Hn)]; [left; exact Hn|].
    rewrite Ea in Ha'. inversion Ha'; subst a'. right. exists a, o1, sd. auto.
Qed.

(* all Handled observations of o are by (t, i), or are OnLaunch / OnRestarted *)
Definition by_ (t : ref) (i : nat) (o : list obs) : Prop :=
  forall x j tg sn sd, In (OH x j tg sn sd) o -> (x = t /\ j = i) \/ tg = TL \/ tg = TRD.
Lemma by_nh t i o : nh o -> by_ t i o.
Proof. intros Hn x j tg sn sd Hin. exfalso. eapply nh_in; eassumption. Qed.
Lemma by_app t i a b : by_ t i a -> by_ t i b -> by_ t i (a ++ b).
Proof. intros Ha Hb x j tg sn sd Hin. apply in_app_or in Hin. destruct Hin; [eapply Ha|eapply Hb]; eassumption. Qed.
Lemma by_cons t i x o : (forall a j tg sn sd, x = OH a j tg sn sd -> (a = t /\ j = i) \/ tg = TL \/ tg = TRD) -> by_ t i o -> by_ t i (x :: o).
Proof. intros Hx Ho a j tg sn sd [Hin|Hin]; [eapply Hx; exact Hin|eapply Ho; exact Hin]. Qed.

(* ---------- identity of the running object through the operations that do not complete a restart ---------- *)
Definition IDa (_ : nat) (a a' : actor) : Prop := a_tok a' = a_tok a /\ a_inst a' = a_inst a.
Lemma ID_refl v a : IDa v a a. Proof. split; reflexivity. Qed.
Lemma ID_trans v a b c : IDa v a b -> IDa v b c -> IDa v a c.
Proof. intros [A1 A2] [B1 B2]. split; congruence. Qed.
Ltac idt := intros; split; reflexivity.

Variable u0 : nat.

Definition idf := FrameU.fr IDa.
Lemma id_do_actions acts s snd s' o p : do_actions roles s u0 snd acts = (s', o, p) -> idf s s'.
Proof. apply (FrameU.fr_do_actions IDa u0 ID_refl ID_trans); idt. Qed.
Lemma id_handle s t k snd s' o p : handle roles s u0 t k snd = (s', o, p) -> idf s s'.
Proof. apply (FrameU.fr_handle IDa u0 ID_refl ID_trans); idt. Qed.
Lemma id_handle_q q s t k snd s' o p : handle_q roles q s u0 t k snd = (s', o, p) -> idf s s'.
Proof. apply (FrameU.fr_handle_q IDa u0 ID_refl ID_trans); idt. Qed.
Lemma id_try_terminated s snd s' o p : try_terminated roles s u0 snd = (s', o, p) -> idf s s'.
Proof. apply (FrameU.fr_try_terminated IDa u0 ID_refl ID_trans); idt. Qed.
Lemma id_terminate_all cs s self g s' o : terminate_all s self cs g = (s', o) -> idf s s'.
Proof. apply (FrameU.fr_terminate_all IDa ID_refl ID_trans); idt. Qed.
Lemma id_deliver_sys s t snd m : idf s (deliver_sys s t snd m).
Proof. apply (FrameU.fr_deliver_sys IDa ID_refl); idt. Qed.
Lemma id_upd s f : (forall a, IDa u0 a (f a)) -> idf s (upd_actor s u0 f).
Proof. apply (FrameU.fr_upd_actor IDa ID_refl). Qed.

Lemma idf_get s s' a : idf s s' -> get s u0 = Some a -> exists a', get s' u0 = Some a' /\ a_tok a' = a_tok a /\ a_inst a' = a_inst a.
Proof. intros F H. destruct (F u0 a H) as (a' & G & [T I]). exists a'. auto. Qed.


Ltac idfr L := unfold idf; eapply L; try exact ID_refl; try exact ID_trans; try (intros; split; reflexivity); try eassumption.

Lemma id_report_abnormal s s' o p : report_abnormal roles s u0 = (s', o, p) -> idf s s'.
Proof. intros H. idfr (FrameU.fr_report_abnormal IDa u0). Qed.
Lemma id_apply_directive s r d snd s' o p : apply_directive roles s u0 r d snd = (s', o, p) -> idf s s'.
Proof. intros H. idfr (FrameU.fr_apply_directive IDa u0). Qed.
Lemma id_on_accident s r snd s' o p : on_accident roles s u0 r snd = (s', o, p) -> idf s s'.
Proof. intros H. idfr (FrameU.fr_on_accident IDa u0). Qed.
Lemma id_drop_child s w : idf s (drop_child s u0 w).
Proof. idfr (FrameU.fr_drop_child IDa u0). Qed.
Lemma id_process_user s e s' o p : process_user roles s u0 e = (s', o, p) -> idf s s'.
Proof. intros H. idfr (FrameU.fr_process_user IDa u0). Qed.
Lemma idf_trans a b c : idf a b -> idf b c -> idf a c.
Proof. unfold idf. apply FrameU.fr_trans. exact ID_trans. Qed.
Lemma idf_refl a : idf a a.
Proof. unfold idf. apply FrameU.fr_refl. exact ID_refl. Qed.

(* what a handler call shows, knowing the object *)
Lemma handle_obs' s a t k snd s' o p :
  get s u0 = Some a -> handle roles s u0 t k snd = (s', o, p) ->
  (is_sys (a_tok a) = true /\ o = []) \/ (is_sys (a_tok a) = false /\ exists o1 sd, o = OH (a_tok a) (a_inst a) t k sd :: o1 /\ nh o1).
Proof.
  intros Ha. unfold handle. rewrite Ha. destruct (is_sys (a_tok a)) eqn:Es.
  - unfold handle_q. rewrite Ha. intros H; inversion H; subst. left. auto.
  - intros H. right. split; [reflexivity|]. unfold handle_q in H. rewrite Ha in H.
    destruct (do_actions roles s u0 snd (find_rule (rules (role_of roles a)) t (a_inst a))) as [[s1 o1] p1] eqn:E.
    inversion H; subst. eexists. eexists. split; [reflexivity|eapply nh_do_actions; exact E].
Qed.

(* the running object after an operation: same address; same instance number, unless the operation completed a restart,
   in which case the new instance's OnLaunch is among the observations (or the object is a system actor); and every
   Handled observation other than OnLaunch / OnRestarted is by the address and the instance number it had before *)
Definition RR (a : actor) (s' : kstate) (o : list obs) : Prop :=
  (exists a', get s' u0 = Some a' /\ a_tok a' = a_tok a /\
     (a_inst a' = a_inst a \/ is_sys (a_tok a) = true \/ launched o (a_tok a) (a_inst a'))) /\
  by_ (a_tok a) (a_inst a) o.

Lemma RR_quiet a s s' o : get s u0 = Some a -> idf s s' -> nh o -> RR a s' o.
Proof.
  intros Ha F Hn. destruct (idf_get _ _ _ F Ha) as (a' & G & T & I). split; [exists a'; auto|apply by_nh; exact Hn].
Qed.

Lemma RR_handle a s t k snd s' o p : get s u0 = Some a -> handle roles s u0 t k snd = (s', o, p) -> RR a s' o.
Proof.
  intros Ha H. destruct (idf_get _ _ _ (id_handle _ _ _ _ _ _ _ H) Ha) as (a' & G & T & I).
  split; [exists a'; auto|]. destruct (handle_obs' _ _ _ _ _ _ _ _ Ha H) as [[_ ->]|(_ & o1 & sd & -> & Hn)]; [apply by_nh; reflexivity|].
  apply by_cons; [intros x j tg sn sd' E; inversion E; subst; left; auto|apply by_nh; exact Hn].
Qed.

(* composition when the first operation keeps the identity *)
Lemma RR_seq a o1 a1 s2 o2 :
  a_tok a1 = a_tok a -> a_inst a1 = a_inst a -> by_ (a_tok a) (a_inst a) o1 -> RR a1 s2 o2 -> RR a s2 (o1 ++ o2).
Proof.
  intros T I B1 [(a2 & G2 & T2 & D2) B2]. rewrite T, I in *. split.
  - exists a2. split; [exact G2|]. split; [exact T2|]. destruct D2 as [D|[D|D]]; [left; exact D|right; left; exact D|right; right; apply launched_app_r; exact D].
  - apply by_app; assumption.
Qed.

Lemma RR_try_terminated a s snd s' o p : get s u0 = Some a -> try_terminated roles s u0 snd = (s', o, p) -> RR a s' o.
Proof.
  intros Ha H. destruct (idf_get _ _ _ (id_try_terminated _ _ _ _ _ H) Ha) as (a' & G & T & I). split; [exists a'; auto|].
  revert H. unfold try_terminated. rewrite Ha. destruct (a_children a); [|intros H; inversion H; subst; apply by_nh; reflexivity].
  destruct (a_st a); try (intros H; inversion H; subst; apply by_nh; reflexivity).
  set (s1 := upd_actor s u0 (w_st Terminated)).
  assert (G1 : get s1 u0 = Some (w_st Terminated a)) by (apply get_upd_actor_same; exact Ha).
  destruct (handle roles s1 u0 TTS 0%nat snd) as [[s2 o2] p2] eqn:E2. pose proof (RR_handle _ _ _ _ _ _ _ _ G1 E2) as [_ B2]. cbn [a_tok a_inst w_st] in B2.
  unfold bind. destruct p2; [intros H; inversion H; subst; exact B2|].
  destruct (a_parent a =? rNone); intros H; inversion H; subst; rewrite app_nil_r; exact B2.
Qed.

Lemma RR_start_instance a s self parent s' o p :
  get s u0 = Some a -> start_instance roles s u0 self parent = (s', o, p) ->
  exists a', get s' u0 = Some a' /\ a_tok a' = a_tok a /\ a_inst a' = a_inst a /\
    (is_sys (a_tok a) = true \/ launched o (a_tok a) (a_inst a)) /\
    (forall x j tg sn sd, In (OH x j tg sn sd) o -> tg = TL \/ tg = TRD).
Proof.
  intros Ha. unfold start_instance. destruct (handle roles s u0 TRD 0%nat self) as [[s1 o1] p1] eqn:E1.
  destruct (idf_get _ _ _ (id_handle _ _ _ _ _ _ _ E1) Ha) as (a1 & G1 & T1 & I1).
  destruct (handle roles s1 u0 TL 0%nat parent) as [[s2 o2] p2] eqn:E2.
  destruct (idf_get _ _ _ (id_handle _ _ _ _ _ _ _ E2) G1) as (a2 & G2 & T2 & I2).
  intros H; inversion H; subst.
  assert (G3 : exists a3, get (if p2 then s2 else upd_actor s2 u0 (w_accidents 0%nat)) u0 = Some a3 /\ a_tok a3 = a_tok a2 /\ a_inst a3 = a_inst a2).
  { destruct p2; [exists a2; auto|]. eexists. split; [apply get_upd_actor_same; exact G2|auto]. }
  destruct G3 as (a3 & G3 & T3 & I3). exists a3. split; [exact G3|]. split; [congruence|]. split; [congruence|].
  destruct (handle_obs' _ _ _ _ _ _ _ _ Ha E1) as [[Hs ->]|(Hs & q1 & sd1 & -> & Hn1)].
  - split; [left; exact Hs|]. destruct (handle_obs' _ _ _ _ _ _ _ _ G1 E2) as [[_ ->]|(Hs2 & _)]; [intros x j tg sn sd []|rewrite T1 in Hs2; congruence].
  - destruct (handle_obs' _ _ _ _ _ _ _ _ G1 E2) as [[Hs2 _]|(_ & q2 & sd2 & -> & Hn2)]; [rewrite T1 in Hs2; congruence|].
    split.
    + right. exists 0%nat, sd2. apply in_or_app. right. left. rewrite T1, I1. reflexivity.
    + intros x j tg sn sd Hin. apply in_app_or in Hin. destruct Hin as [[Hin|Hin]|[Hin|Hin]].
      * inversion Hin; subst. right. reflexivity.
      * exfalso. exact (nh_in _ _ _ _ _ _ Hn1 Hin).
      * inversion Hin; subst. left. reflexivity.
      * exfalso. exact (nh_in _ _ _ _ _ _ Hn2 Hin).
Qed.


Lemma RR_of_handle_seq a s t k snd s1 o1 : get s u0 = Some a -> handle roles s u0 t k snd = (s1, o1, false) ->
  exists a1, get s1 u0 = Some a1 /\ a_tok a1 = a_tok a /\ a_inst a1 = a_inst a /\ by_ (a_tok a) (a_inst a) o1.
Proof.
  intros Ha H. destruct (idf_get _ _ _ (id_handle _ _ _ _ _ _ _ H) Ha) as (a1 & G & T & I).
  destruct (RR_handle _ _ _ _ _ _ _ _ Ha H) as [_ B]. exists a1. auto.
Qed.

Lemma RR_try_restarted a s snd s' o p : get s u0 = Some a -> try_restarted roles s u0 snd = (s', o, p) -> RR a s' o.
Proof.
  intros Ha. unfold try_restarted. rewrite Ha.
  destruct (a_children a); [|intros H; inversion H; subst; eapply RR_quiet; [eassumption|apply idf_refl|reflexivity]].
  destruct (a_st a); try (intros H; inversion H; subst; eapply RR_quiet; [eassumption|apply idf_refl|reflexivity]).
  destruct (provide s (a_tok a)) as [s0 inst] eqn:Ep.
  assert (G0 : get s0 u0 = Some a) by (unfold provide in Ep; inversion Ep; subst; exact Ha).
  destruct (handle roles s0 u0 TT 0%nat snd) as [[s1 o1] p1] eqn:E1. unfold bind at 1. destruct p1.
  - intros H; inversion H; subst. eapply RR_handle; eassumption.
  - destruct (RR_of_handle_seq _ _ _ _ _ _ _ G0 E1) as (a1 & G1 & T1 & I1 & B1).
    destruct (handle roles s1 u0 TTS 0%nat snd) as [[s2 o2] p2] eqn:E2. unfold bind. destruct p2.
    + intros H; inversion H; subst. eapply RR_seq; [exact T1|exact I1|exact B1|eapply RR_handle; eassumption].
    + destruct (RR_of_handle_seq _ _ _ _ _ _ _ G1 E2) as (a2 & G2 & T2 & I2 & B2). rewrite T1, I1 in B2.
      set (s4 := upd_actor s2 u0 (fun b => w_st Alive (w_inst inst b))).
      assert (G4 : get s4 u0 = Some (w_st Alive (w_inst inst a2))) by (exact (get_upd_actor_same s2 u0 (fun b => w_st Alive (w_inst inst b)) a2 G2)).
      set (s5 := deliver_sys s4 (a_tok a) (a_tok a) SResume).
      destruct (idf_get _ _ _ (id_deliver_sys s4 (a_tok a) (a_tok a) SResume) G4) as (a5 & G5 & T5 & I5).
      cbn [a_tok a_inst w_st w_inst] in T5, I5.
      destruct (start_instance roles s5 u0 (a_tok a) (a_parent a)) as [[s9 o9] p9] eqn:E9. intros H; inversion H; subst.
      destruct (RR_start_instance _ _ _ _ _ _ _ G5 E9) as (a9 & G9 & T9 & I9 & L9 & O9).
      split.
      * exists a9. split; [exact G9|]. split; [congruence|]. right.
        assert (Tk : a_tok a5 = a_tok a) by congruence. rewrite Tk in L9. rewrite I9.
        destruct L9 as [L9|L9]; [left; exact L9|right]. apply launched_app_r. apply launched_app_r. exact L9.
      * apply by_app; [exact B1|]. apply by_app; [exact B2|]. intros x j tg sn sd Hin. right. eapply O9. exact Hin.
Qed.

Lemma RR_apply_directive a s r d snd s' o p : get s u0 = Some a -> apply_directive roles s u0 r d snd = (s', o, p) -> RR a s' o.
Proof.
  intros Ha H. destruct (idf_get _ _ _ (id_apply_directive _ _ _ _ _ _ _ H) Ha) as (a' & G & T & I). split; [exists a'; auto|].
  revert H. unfold apply_directive. rewrite Ha. destruct d.
  - intros H; inversion H; subst. apply by_nh. reflexivity.
  - destruct (terminate s (a_tok a) (ar_vref r) false) as [s1 o1] eqn:E1.
    destruct (try_terminated roles s1 u0 snd) as [[s2 o2] p2] eqn:E2. intros H; inversion H; subst.
    assert (F1 : idf s s1) by (idfr (FrameU.fr_terminate IDa)).
    destruct (idf_get _ _ _ F1 Ha) as (a1 & G1 & T1 & I1).
    destruct (RR_try_terminated _ _ _ _ _ _ G1 E2) as [_ B2]. rewrite T1, I1 in B2.
    apply by_cons; [intros x j tg sn sd E; discriminate|]. apply by_app; [apply by_nh; eapply nh_terminate; exact E1|exact B2].
  - intros H; inversion H; subst. apply by_nh. reflexivity.
  - destruct (escalate s u0 r) as [[s1 o1] p1] eqn:E. intros H; inversion H; subst.
    apply by_cons; [intros x j tg sn sd E'; discriminate|apply by_nh; eapply nh_escalate; exact E].
  - intros H; inversion H; subst. apply by_nh. reflexivity.
Qed.

Lemma RR_on_accident a s r snd s' o p : get s u0 = Some a -> on_accident roles s u0 r snd = (s', o, p) -> RR a s' o.
Proof.
  intros Ha. unfold on_accident. rewrite Ha. destruct (ar_strategy r); [apply RR_apply_directive; exact Ha|].
  destruct (sup (role_of roles a)); [|apply RR_apply_directive; exact Ha].
  intros H. eapply RR_quiet; [exact Ha|idfr (FrameU.fr_escalate IDa)|eapply nh_escalate; exact H].
Qed.


Lemma RR_cast a a1 s' o : a_tok a1 = a_tok a -> a_inst a1 = a_inst a -> RR a1 s' o -> RR a s' o.
Proof. intros T I H. unfold RR in *. rewrite T, I in H. exact H. Qed.

(* a quiet, identity-keeping prefix followed by an operation *)
Lemma RR_after a s s1 s' o : get s u0 = Some a -> idf s s1 -> (forall a1, get s1 u0 = Some a1 -> RR a1 s' o) -> RR a s' o.
Proof. intros Ha F H. destruct (idf_get _ _ _ F Ha) as (a1 & G1 & T1 & I1). eapply RR_cast; [exact T1|exact I1|apply H; exact G1]. Qed.

(* handler, then (if it did not fail) a quiet step and a final operation *)
Lemma RR_handle_then a s t k snd (f : kstate -> R) s' o p :
  get s u0 = Some a ->
  (forall s1 a1 s2 o2 p2, get s1 u0 = Some a1 -> f s1 = (s2, o2, p2) -> RR a1 s2 o2) ->
  handle roles s u0 t k snd >>= f = (s', o, p) -> RR a s' o.
Proof.
  intros Ha Hf. destruct (handle roles s u0 t k snd) as [[s1 o1] p1] eqn:E1. unfold bind. destruct p1.
  - intros H; inversion H; subst. eapply RR_handle; eassumption.
  - destruct (RR_of_handle_seq _ _ _ _ _ _ _ Ha E1) as (a1 & G1 & T1 & I1 & B1).
    destruct (f s1) as [[s2 o2] p2] eqn:E2. intros H; inversion H; subst.
    eapply RR_seq; [exact T1|exact I1|exact B1|eapply Hf; eassumption].
Qed.

Lemma RR_process_sys a s e s' o p : get s u0 = Some a -> process_sys roles s u0 e = (s', o, p) -> RR a s' o.
Proof.
  intros Ha. unfold process_sys. rewrite Ha.
  assert (Q0 : RR a s []) by (eapply RR_quiet; [exact Ha|apply idf_refl|reflexivity]).
  match goal with |- context [if ?d then _ else _] => destruct d end; [intros H; inversion H; subst; exact Q0|].
  destruct (e_msg e) as [| |g|who| |r| | | | |].
  - (* SLaunch *) apply RR_handle_then; [exact Ha|]. intros s1 a1 s2 o2 p2 G1 H; inversion H; subst.
    eapply RR_quiet; [exact G1|apply id_upd; intros b; split; reflexivity|reflexivity].
  - (* SRestarted *) apply RR_handle; exact Ha.
  - (* STerminate *)
    assert (HT : forall s0 a0, get s0 u0 = Some a0 ->
       handle roles s0 u0 TT 0%nat (e_snd e) >>= (fun s3 => match get s3 u0 with
         | None => ok s3 []
         | Some a3 => let '(s4, o4) := terminate_all s3 (a_tok a3) (a_children a3) (g || a_graceful a3) in
                      let '(s5, o5, p) := try_terminated roles s4 u0 (e_snd e) in (s5, o4 ++ o5, p) end) = (s', o, p) ->
       RR a0 s' o).
    { intros s0 a0 G0. apply RR_handle_then; [exact G0|]. intros s1 a1 s2 o2 p2 G1. rewrite G1.
      destruct (terminate_all s1 (a_tok a1) (a_children a1) (g || a_graceful a1)) as [s4 o4] eqn:E4.
      destruct (try_terminated roles s4 u0 (e_snd e)) as [[s5 o5] p5] eqn:E5. intros H; inversion H; subst.
      destruct (idf_get _ _ _ (id_terminate_all _ _ _ _ _ _ E4) G1) as (a4 & G4 & T4 & I4).
      eapply RR_seq; [exact T4|exact I4|apply by_nh; eapply nh_terminate_all; exact E4|eapply RR_try_terminated; eassumption]. }
    assert (Pre : idf s (deliver_sys (upd_actor s u0 (w_st Terminating)) (a_tok a) (a_tok a) SResume)).
    { apply idf_trans with (b := upd_actor s u0 (w_st Terminating)); [apply id_upd; intros b; split; reflexivity|apply id_deliver_sys]. }
    destruct (a_st a); try (intros H; inversion H; subst; exact Q0);
      (intros H; eapply RR_after; [exact Ha|exact Pre|]; intros a1 G1; eapply HT; eassumption).
  - (* STerminatedOf *) intros H. eapply RR_after; [exact Ha|apply id_drop_child|]. intros a1 G1. revert H.
    apply RR_handle_then; [exact G1|]. intros s1 a2 s2 o2 p2 G2. rewrite G2.
    destruct (a_st a2); try (intros H; inversion H; subst; eapply RR_quiet; [exact G2|apply idf_refl|reflexivity]).
    + apply RR_try_restarted. exact G2.
    + apply RR_try_terminated. exact G2.
  - (* SRestart *) destruct (a_st a); try (intros H; inversion H; subst; exact Q0).
    intros H. eapply RR_after; [exact Ha| |].
    { apply idf_trans with (b := upd_actor s u0 (w_st Restarting)); [apply id_upd; intros b; split; reflexivity|apply id_deliver_sys]. }
    intros a1 G1. revert H. apply RR_handle_then; [exact G1|]. intros s1 a2 s2 o2 p2 G2. rewrite G2.
    destruct (terminate_all s1 (a_tok a2) (a_children a2) false) as [s3 o3] eqn:E3.
    destruct (try_restarted roles s3 u0 (e_snd e)) as [[s4 o4] p4] eqn:E4. intros H; inversion H; subst.
    destruct (idf_get _ _ _ (id_terminate_all _ _ _ _ _ _ E3) G2) as (a3 & G3 & T3 & I3).
    eapply RR_seq; [exact T3|exact I3|apply by_nh; eapply nh_terminate_all; exact E3|eapply RR_try_restarted; eassumption].
  - (* SAccident *) apply RR_on_accident. exact Ha.
  - (* SWatch *) destruct (e_snd e =? a_parent a); [intros H; inversion H; subst; exact Q0|].
    destruct (st_ge_terminating (a_st a)); intros H; inversion H; subst.
    + eapply RR_quiet; [exact Ha|apply id_deliver_sys|reflexivity].
    + eapply RR_quiet; [exact Ha|apply id_upd; intros b; split; reflexivity|reflexivity].
  - (* SUnwatch *) intros H; inversion H; subst. eapply RR_quiet; [exact Ha|apply id_upd; intros b; split; reflexivity|reflexivity].
  - intros H; inversion H; subst; exact Q0.
  - intros H; inversion H; subst; exact Q0.
  - (* SResumeReq *) destruct (a_st a); intros H; inversion H; subst; try exact Q0.
    eapply RR_quiet; [exact Ha|apply id_deliver_sys|reflexivity].
Qed.

(* processing the OnLaunch message shows no Handled observation other than OnLaunch *)
Lemma launch_only s e s' o p : e_msg e = SLaunch -> process_sys roles s u0 e = (s', o, p) ->
  forall x j tg sn sd, In (OH x j tg sn sd) o -> tg = TL.
Proof.
  intros Em. unfold process_sys. destruct (get s u0) as [a|] eqn:Ea; [|intros H; inversion H; subst; intros x j tg sn sd []].
  rewrite Em. destruct (match a_st a with Terminated => true | _ => false end); [intros H; inversion H; subst; intros x j tg sn sd []|].
  destruct (handle roles s u0 TL 0%nat (e_snd e)) as [[s1 o1] p1] eqn:E1. unfold bind.
  assert (O1 : forall x j tg sn sd, In (OH x j tg sn sd) o1 -> tg = TL).
  { destruct (handle_obs' _ _ _ _ _ _ _ _ Ea E1) as [[_ ->]|(_ & q & sd0 & -> & Hn)]; [intros x j tg sn sd []|].
    intros x j tg sn sd [Hin|Hin]; [inversion Hin; reflexivity|exfalso; exact (nh_in _ _ _ _ _ _ Hn Hin)]. }
  destruct p1; [intros H; inversion H; subst; exact O1|].
  intros H; inversion H; subst. rewrite app_nil_r. exact O1.
Qed.

Lemma RR_process_user a s e s' o p : get s u0 = Some a -> process_user roles s u0 e = (s', o, p) -> RR a s' o.
Proof.
  intros Ha H. destruct (idf_get _ _ _ (id_process_user _ _ _ _ _ H) Ha) as (a' & G & T & I). split; [exists a'; auto|].
  revert H. unfold process_user. rewrite Ha. destruct (st_ge_terminating (a_st a)).
  - destruct (abyss_user s (e_snd e) (e_rcv e) (e_msg e)) as [s1 o1] eqn:E. intros H; inversion H; subst. apply by_nh. eapply nh_abyss_user; exact E.
  - destruct (e_msg e).
    + intros H. destruct (handle_q_obs _ _ _ _ _ _ _ _ _ H) as [Hn|(a1 & o1 & sd & Ha1 & -> & Hn)]; [apply by_nh; exact Hn|].
      rewrite Ha in Ha1. inversion Ha1; subst a1. apply by_cons; [intros x j tg sn sd' E; inversion E; subst; left; auto|apply by_nh; exact Hn].
    + intros H; inversion H; subst. apply by_nh. reflexivity.
    + intros H; inversion H; subst. apply by_nh. reflexivity.
Qed.

Lemma RR_run_inner a s0 m s' o : get s0 u0 = Some a -> Frame.run_inner roles s0 u0 m = (s', o) -> RR a s' o.
Proof.
  intros Ha. unfold Frame.run_inner.
  destruct (match m with MS e => process_sys roles s0 u0 e | MU e => process_user roles s0 u0 e end) as [[s1 o1] p] eqn:E.
  assert (R1 : RR a s1 o1) by (destruct m; [eapply RR_process_sys; eassumption|eapply RR_process_user; eassumption]).
  destruct p; [|intros H; inversion H; subst; exact R1].
  destruct (crashed s1); [intros H; inversion H; subst; exact R1|].
  destruct (report_abnormal roles s1 u0) as [[s2 o2] p2] eqn:E2. intros H; inversion H; subst.
  destruct R1 as [(a1 & G1 & T1 & D1) B1].
  destruct (idf_get _ _ _ (id_report_abnormal _ _ _ _ E2) G1) as (a2 & G2 & T2 & I2).
  split.
  - exists a2. split; [exact G2|]. split; [congruence|]. rewrite I2.
    destruct D1 as [D|[D|D]]; [left; exact D|right; left; exact D|right; right; apply launched_app; exact D].
  - apply by_app; [exact B1|apply by_nh; eapply nh_report_abnormal; exact E2].
Qed.


(* ---------- all other objects, and the objects created meanwhile ---------- *)
Definition Pn (a : actor) : Prop := (launch_pending a /\ a_st a = Alive) \/ a_st a = Terminated.
Definition RLa (v : nat) (a a' : actor) : Prop :=
  a_tok a' = a_tok a /\
  (v <> u0 -> a_inst a' = a_inst a /\ a_inflight a' = a_inflight a /\ (exists app, a_sysq a' = a_sysq a ++ app) /\ a_st a' = a_st a).
Definition Gx (s s' : kstate) : Prop :=
  (forall v a, get s v = Some a -> exists a', get s' v = Some a' /\ RLa v a a') /\
  (forall v a', get s' v = Some a' -> v <> u0 -> (v < length (actors s))%nat \/ Pn a').

Lemma RL_refl v a : RLa v a a.
Proof. split; [reflexivity|]. intros _. split; [reflexivity|]. split; [reflexivity|]. split; [exists []; rewrite app_nil_r; reflexivity|auto]. Qed.
Lemma RL_trans v a b c : RLa v a b -> RLa v b c -> RLa v a c.
Proof.
  intros [T1 H1] [T2 H2]. split; [congruence|]. intros Hv. destruct (H1 Hv) as (I1 & F1 & (p1 & M1) & S1). destruct (H2 Hv) as (I2 & F2 & (p2 & M2) & S2).
  split; [congruence|]. split; [congruence|]. split; [exists (p1 ++ p2); rewrite M2, M1, app_assoc; reflexivity|congruence].
Qed.
Lemma Pn_RL v a a' : v <> u0 -> RLa v a a' -> Pn a -> Pn a'.
Proof.
  intros Hv [_ H] [[Lp Al]|St]; destruct (H Hv) as (_ & F & Q & S).
  - left. split; [eapply launch_pending_frame; eassumption|congruence].
  - right. congruence.
Qed.
Lemma LIa_RL tr o v a a' : v <> u0 -> RLa v a a' -> LIa tr a -> LIa (tr ++ o) a'.
Proof.
  intros Hv [T H] L. destruct (H Hv) as (I & F & Q & S). unfold LIa. rewrite T, I.
  destruct L as [L|[L|[L|L]]]; [left; exact L| |right; right; left; apply launched_app; exact L|right; right; right; congruence].
  right. left. eapply launch_pending_frame; eassumption.
Qed.

Lemma get_lt' s v a : get s v = Some a -> (v < length (actors s))%nat.
Proof. unfold get. intros H. apply nth_error_Some. congruence. Qed.
Lemma get_of_lt' s v : (v < length (actors s))%nat -> exists a, get s v = Some a.
Proof. unfold get. intros H. destruct (nth_error (actors s) v) eqn:E; [eauto|]. apply nth_error_None in E. lia. Qed.

Lemma Gx_refl s : Gx s s.
Proof. split; [intros v a H; exists a; split; [exact H|apply RL_refl]|]. intros v a' H _. left. eapply get_lt'; exact H. Qed.
Lemma Gx_trans s1 s2 s3 : Gx s1 s2 -> Gx s2 s3 -> Gx s1 s3.
Proof.
  intros [A1 B1] [A2 B2]. split.
  - intros v a H. destruct (A1 v a H) as (a2 & G2 & R2). destruct (A2 v a2 G2) as (a3 & G3 & R3). exists a3. split; [exact G3|eapply RL_trans; eassumption].
  - intros v a3 H3 Hv. destruct (B2 v a3 H3 Hv) as [Hlt|Hp]; [|right; exact Hp].
    destruct (get_of_lt' s2 v Hlt) as (a2 & G2). destruct (B1 v a2 G2 Hv) as [Hlt1|Hp1]; [left; exact Hlt1|right].
    destruct (A2 v a2 G2) as (a3' & G3' & R3). rewrite H3 in G3'. inversion G3'; subst a3'. eapply Pn_RL; eassumption.
Qed.
Lemma Gx_same_actors s s' : actors s' = actors s -> Gx s s'.
Proof.
  intros E. split; [intros v a H; exists a; unfold get in *; rewrite E; split; [exact H|apply RL_refl]|].
  intros v a' H _. left. apply get_lt' in H. rewrite E in H. exact H.
Qed.
Lemma Gx_put s u a b : get s u = Some a -> RLa u a b -> Gx s (put s u b).
Proof.
  intros Hu Hb. split.
  - intros v x Hx. destruct (Nat.eq_dec u v) as [->|Hne].
    + exists b. split; [eapply get_put_same; exact Hu|]. rewrite Hu in Hx. inversion Hx; subst. exact Hb.
    + exists x. split; [rewrite get_put_other by assumption; exact Hx|apply RL_refl].
  - intros v a' H _. left. apply get_lt' in H. unfold put, set_actors in H; cbn [actors] in H. rewrite upd_length in H. exact H.
Qed.

Lemma RL_self a b : a_tok b = a_tok a -> RLa u0 a b.
Proof. intros T. split; [exact T|]. intros H. contradiction. Qed.
Lemma RL_keep v a b : a_tok b = a_tok a -> a_inst b = a_inst a -> a_inflight b = a_inflight a -> a_sysq b = a_sysq a -> a_st b = a_st a -> RLa v a b.
Proof. intros T I F M S. split; [exact T|]. intros _. split; [exact I|]. split; [exact F|]. split; [exists []; rewrite app_nil_r; exact M|congruence]. Qed.
Lemma RL_push v a (e : env smsg) : RLa v a (w_sysq (a_sysq a ++ [e]) a).
Proof. split; [reflexivity|]. intros _. split; [reflexivity|]. split; [reflexivity|]. split; [exists [e]; reflexivity|auto]. Qed.

Lemma Gx_spawn s self t r s' o p : spawn s u0 self t r = (s', o, p) -> Gx s s'.
Proof.
  intros E. split.
  - (* existing objects: the frame theorem for the per-object relation *)
    refine (FrameU.fr_spawn RLa u0 RL_refl RL_trans _ _ _ _ s self t r s' o p E).
    + intros v a e. apply RL_keep; reflexivity.
    + intros v a e. apply RL_push.
    + intros v a b. apply RL_keep; reflexivity.
    + intros a x. apply RL_self. reflexivity.
  - (* the new object *)
    revert E. unfold spawn. destruct (provide s t) as [s1 inst] eqn:Ep.
    assert (A1 : actors s1 = actors s) by (unfold provide in Ep; inversion Ep; subst; reflexivity).
    destruct (lookup t (registry s1)) eqn:El.
    + intros H; inversion H; subst. intros v a' Hg Hv. unfold get, set_actors in Hg; cbn [actors] in Hg. rewrite A1 in Hg.
      destruct (Nat.lt_ge_cases v (length (actors s))) as [Hlt|Hge]; [left; exact Hlt|right].
      rewrite nth_error_app2 in Hg by exact Hge. destruct (v - length (actors s))%nat as [|k]; cbn in Hg; [|destruct k; discriminate].
      inversion Hg; subst a'. right. reflexivity.
    + set (n := length (actors s1)). set (s2 := set_actors s1 (actors s1 ++ [new_actor t self r inst])).
      set (s3 := set_registry s2 (set_key t n (registry s2))).
      set (s4 := upd_actor s3 u0 (fun a => w_children (insert_sorted t (a_children a)) a)).
      set (s5 := deliver_sys s4 t self SLaunch). intros H v a' Hg Hv.
      destruct (Nat.lt_ge_cases v (length (actors s))) as [Hlt|Hge]; [left; exact Hlt|right].
      (* the stop step only appends messages to other objects *)
      assert (F5 : forall w a5, get s5 w = Some a5 -> exists a6, get s' w = Some a6 /\ RLa w a5 a6).
      { refine (FrameU.fr_stop RLa RL_refl _ _ _ s5 u0 self t s' o p H).
        - intros w a e. apply RL_keep; reflexivity.
        - intros w a e. apply RL_push.
        - intros w a b. apply RL_keep; reflexivity. }
      assert (L5 : forall w a5, get s5 w = Some a5 -> (w < length (actors s5))%nat) by (intros w a5 Hw; eapply get_lt'; exact Hw).
      (* the object at index n in s5 has OnLaunch as its only message *)
      assert (G2 : get s2 n = Some (new_actor t self r inst)).
      { unfold get, s2, set_actors; cbn [actors]. rewrite nth_error_app2 by apply Nat.le_refl. unfold n. rewrite Nat.sub_diag. reflexivity. }
      assert (Hvn : v = n \/ (n < v)%nat) by (unfold n; rewrite A1; lia).
      assert (G4 : get s4 n = Some (new_actor t self r inst) \/ n = u0).
      { destruct (Nat.eq_dec u0 n) as [Eq|Ne]; [right; auto|left]. unfold s4, upd_actor. destruct (get s3 u0); [rewrite get_put_other by exact Ne|]; exact G2. }
      destruct Hvn as [->|Hgt].
      * destruct G4 as [G4|Eq]; [|congruence].
        assert (R4 : lookup t (registry s4) = Some n).
        { unfold s4, upd_actor. destruct (get s3 u0); cbn [registry put set_actors s3 set_registry]; unfold set_key; cbn [lookup]; rewrite Z.eqb_refl; reflexivity. }
        assert (G5 : get s5 n = Some (w_sysq ([] ++ [mk_env self t SLaunch]) (new_actor t self r inst))).
        { unfold s5, deliver_sys. rewrite R4. unfold push_sys, upd_actor. rewrite G4. cbn [e_msg mk_env]. eapply get_put_same. exact G4. }
        destruct (F5 _ _ G5) as (a6 & G6 & R6). rewrite Hg in G6. inversion G6; subst a6.
        eapply Pn_RL; [exact Hv|exact R6|]. left. split; reflexivity.
      * (* no object beyond n *)
        exfalso. assert (Len5 : length (actors s5) = S n).
        { assert (L2 : length (actors s2) = S n) by (unfold s2, set_actors; cbn [actors]; rewrite app_length; cbn; unfold n; lia).
          assert (L4 : length (actors s4) = S n).
          { unfold s4, upd_actor. destruct (get s3 u0); [unfold put, set_actors; cbn [actors]; rewrite upd_length|]; exact L2. }
          unfold s5, deliver_sys. destruct (lookup t (registry s4)) as [w|].
          - unfold push_sys, upd_actor. destruct (get s4 w); [unfold put, set_actors; cbn [actors]; rewrite upd_length|]; exact L4.
          - exact L4. }
        (* s' has the objects of s5: the stop step is a sequence of updates *)
        assert (Len' : length (actors s') = length (actors s5)).
        { revert H. unfold stop_if_parent_gone. destruct (get s5 u0) as [pa|]; [|intros H; inversion H; subst; reflexivity].
          destruct (not_alive (a_st pa)); [|intros H; inversion H; subst; reflexivity].
          destruct (terminate s5 self t (a_graceful pa)) as [s6 o6] eqn:E6. intros H; inversion H; subst.
          revert E6. unfold terminate. destruct (a_graceful pa).
          - unfold deliver_user. destruct (lookup t (registry s5)) as [w|].
            + destruct (get s5 w) as [aw|]; [intros H6; inversion H6; subst; unfold put, set_actors; cbn [actors]; apply upd_length|].
              unfold abyss_user. intros H6; inversion H6; subst. destruct (t =? rSub); [reflexivity|].
              unfold to_sub. destruct (lookup rSub (registry s5)); [|reflexivity]. unfold upd_actor. destruct (get s5 n0); [unfold put, set_actors; cbn [actors]; apply upd_length|reflexivity].
            + unfold abyss_user. intros H6; inversion H6; subst. destruct (t =? rSub); [reflexivity|].
              unfold to_sub. destruct (lookup rSub (registry s5)); [|reflexivity]. unfold upd_actor. destruct (get s5 n0); [unfold put, set_actors; cbn [actors]; apply upd_length|reflexivity].
          - intros H6; inversion H6; subst. unfold deliver_sys. destruct (lookup t (registry s5)) as [w|]; [|reflexivity].
            unfold push_sys, upd_actor. destruct (get s5 w); [unfold put, set_actors; cbn [actors]; apply upd_length|reflexivity]. }
        apply get_lt' in Hg. lia.
Qed.


Lemma Gx_userq s u a e : get s u = Some a -> Gx s (put s u (w_userq (a_userq a ++ [e]) a)).
Proof. intros H. eapply Gx_put; [exact H|apply RL_keep; reflexivity]. Qed.
Lemma Gx_sysq s u a e : get s u = Some a -> Gx s (put s u (w_sysq (a_sysq a ++ [e]) a)).
Proof. intros H. eapply Gx_put; [exact H|apply RL_push]. Qed.
Lemma Gx_susp s u a b : get s u = Some a -> Gx s (put s u (w_susp b a)).
Proof. intros H. eapply Gx_put; [exact H|apply RL_keep; reflexivity]. Qed.
Lemma Gx_selfset s a b : get s u0 = Some a -> a_tok b = a_tok a -> Gx s (put s u0 b).
Proof. intros H T. eapply Gx_put; [exact H|apply RL_self; exact T]. Qed.

Lemma Gx_run_inner s0 m s' o : Frame.run_inner roles s0 u0 m = (s', o) -> Gx s0 s'.
Proof.
  refine (FrameG.fr_run_inner Gx u0 Gx_refl Gx_trans Gx_same_actors Gx_userq Gx_sysq Gx_susp _ _ _ _ _ _ Gx_spawn roles s0 m s' o);
    (intros s a x H; eapply Gx_selfset; [exact H|reflexivity]).
Qed.
Lemma Gx_deliver_user s t snd m s' o : deliver_user s t snd m = (s', o) -> Gx s s'.
Proof. exact (FrameG.fr_deliver_user Gx Gx_refl Gx_userq s t snd m s' o). Qed.
Lemma Gx_terminate s self t g s' o : terminate s self t g = (s', o) -> Gx s s'.
Proof. exact (FrameG.fr_terminate Gx Gx_refl Gx_userq Gx_sysq Gx_susp s self t g s' o). Qed.

End L.

Section T.
Variable roles : list role.

(* the invariant of a run: LI, and the guard object (uid 0) carries the guard's address *)
Definition LI' (tr : list obs) (s : kstate) : Prop := LI tr s /\ exists g, get s guard_uid = Some g /\ a_tok g = rGuard.

Lemma LIa_pop1 tr a : LIa tr a -> LIa tr (pop1 a).
Proof.
  unfold LIa. destruct (pop1_id a) as (T & _). rewrite T, pop1_st.
  assert (I : a_inst (pop1 a) = a_inst a).
  { unfold pop1. destruct (a_inflight a); [reflexivity|]. destruct (a_sysq a); [|reflexivity]. destruct (a_susp a); [reflexivity|]. destruct (a_userq a); reflexivity. }
  rewrite I. intros [L|[L|[L|L]]]; auto. right. left. revert L. unfold launch_pending, pop1.
  destruct (a_inflight a) as [[e|e]|] eqn:Ei; try (rewrite Ei; auto; fail).
  destruct (a_sysq a) as [|e t]; [intros []|]. cbn [a_inflight w_inflight w_sysq]. auto.
Qed.
Lemma LI_normalize tr s : LI tr s -> LI tr (normalize s).
Proof.
  intros H u a Hg. rewrite get_normalize' in Hg. destruct (get s u) as [b|] eqn:E; [|discriminate]. inversion Hg; subst. apply LIa_pop1. eapply H; exact E.
Qed.
Lemma guard_normalize s : (exists g, get s guard_uid = Some g /\ a_tok g = rGuard) -> exists g, get (normalize s) guard_uid = Some g /\ a_tok g = rGuard.
Proof.
  intros (g & Hg & T). exists (pop1 g). rewrite get_normalize', Hg. split; [reflexivity|]. destruct (pop1_id g) as (T' & _). congruence.
Qed.

Lemma LI_frame tr o s s1 u0 : Gx u0 s s1 -> LI tr s -> (forall a', get s1 u0 = Some a' -> LIa (tr ++ o) a') -> LI (tr ++ o) s1.
Proof.
  intros [A B] H Hu v a' Hg. destruct (Nat.eq_dec v u0) as [->|Hv]; [apply Hu; exact Hg|].
  destruct (B v a' Hg Hv) as [Hlt|Hp].
  - destruct (get_of_lt' s v Hlt) as (a & Ha). destruct (A v a Ha) as (a2 & G2 & R2). rewrite Hg in G2. inversion G2; subst a2.
    eapply LIa_RL; [exact Hv|exact R2|eapply H; exact Ha].
  - destruct Hp as [[Hp _]|Hp]; [right; left; exact Hp|right; right; right; exact Hp].
Qed.

Lemma guard_Gx u0 s s' : Gx u0 s s' -> (exists g, get s guard_uid = Some g /\ a_tok g = rGuard) -> exists g, get s' guard_uid = Some g /\ a_tok g = rGuard.
Proof. intros [A _] (g & Hg & T). destruct (A _ g Hg) as (g' & Hg' & [T' _]). exists g'. split; [exact Hg'|congruence]. Qed.

Lemma not_handled_out o x i tg sn sd : nh o -> In (OH x i tg sn sd) o -> False.
Proof. intros Hn Hin. exact (nh_in _ _ _ _ _ _ Hn Hin). Qed.

(* processing OnLaunch by a living, non-system object shows its OnLaunch *)
Lemma launch_shows u0 s a e s' o p :
  get s u0 = Some a -> e_msg e = SLaunch -> is_sys (a_tok a) = false -> a_st a <> Terminated ->
  process_sys roles s u0 e = (s', o, p) -> launched o (a_tok a) (a_inst a).
Proof.
  intros Ha Em Hs Hst. unfold process_sys. rewrite Ha, Em.
  destruct (a_st a) eqn:Est; try contradiction;
    (destruct (handle roles s u0 TL 0%nat (e_snd e)) as [[s1 o1] p1] eqn:E1; unfold bind;
     destruct (handle_obs' roles u0 _ _ _ _ _ _ _ _ Ha E1) as [[Hs' _]|(_ & q & sd0 & -> & Hn)]; [congruence|];
     destruct p1; intros H; inversion H; subst; exists 0%nat, sd0; left; reflexivity).
Qed.

Lemma status_eq_dec (x y : status) : {x = y} + {x <> y}.
Proof. decide equality. Qed.

Lemma guard_sys g : a_tok g = rGuard -> is_sys (a_tok g) = true.
Proof. intros ->. reflexivity. Qed.

(* an external step: only queue appends to existing objects (and, for a spawn, one new object) *)
Lemma LI_external tr s s2 o :
  LI' tr s -> Gx guard_uid s s2 -> nh o -> LI' (tr ++ o) (normalize s2) /\
  (forall t i tg sn sd, In (OH t i tg sn sd) o -> is_sys t = false -> tg <> TL -> tg <> TRD -> launched tr t i).
Proof.
  intros [HL HG] GX Hn. split.
  - pose proof (guard_Gx _ _ _ GX HG) as HG2. split; [|apply guard_normalize; exact HG2].
    apply LI_normalize. eapply LI_frame; [exact GX|exact HL|]. intros a' Ha'. destruct HG2 as (g & Hg & Tg). rewrite Hg in Ha'. inversion Ha'; subst. left. apply guard_sys. exact Tg.
  - intros t i tg sn sd Hin. exfalso. exact (nh_in _ _ _ _ _ _ Hn Hin).
Qed.

(* ---------- one step ---------- *)
Theorem kstep_LI tr s l s' o :
  LI' tr s -> kstep roles s l = Some (s', o) ->
  LI' (tr ++ o) s' /\
  (forall t i tg sn sd, In (OH t i tg sn sd) o -> is_sys t = false -> tg <> TL -> tg <> TRD -> launched tr t i).
Proof.
  intros HLI Hk. pose proof (kstep_mono roles s l s' o Hk) as Mono. destruct HLI as [HL HG]. revert Hk. destruct l; cbn [kstep].
  - (* LRun *) destruct (run_actor roles s (Z.to_nat u)) as [[s1 o1]|] eqn:E; [|discriminate]. intros H; injection H as <- <-.
    set (u0 := Z.to_nat u) in *.
    destruct (get s u0) as [a|] eqn:Ea; [|unfold run_actor in E; rewrite Ea in E; discriminate].
    destruct (a_inflight a) as [m|] eqn:Em; [|unfold run_actor in E; rewrite Ea, Em in E; discriminate].
    pose proof E as Erun. rewrite (run_actor_inner roles s u0 a m Ea Em) in E.
    set (s0 := upd_actor s u0 (w_inflight None)) in *.
    assert (Ein : Frame.run_inner roles s0 u0 m = (s1, o1)) by (inversion E; reflexivity).
    assert (G0 : get s0 u0 = Some (w_inflight None a)) by (apply get_upd_actor_same; exact Ea).
    pose proof (RR_run_inner roles u0 _ _ _ _ _ G0 Ein) as [(a1 & G1 & T1 & D1) B1]. cbn [a_tok a_inst w_inflight] in T1, D1, B1.
    pose proof (Gx_run_inner roles u0 _ _ _ _ Ein) as GX1.
    assert (GX0 : Gx u0 s s0).
    { unfold s0, upd_actor. rewrite Ea. eapply Gx_put; [exact Ea|apply RL_self; reflexivity]. }
    pose proof (Gx_trans u0 _ _ _ GX0 GX1) as GX.
    pose proof (HL u0 a Ea) as La.
    (* a terminated runner stays terminated *)
    assert (Term : a_st a = Terminated -> a_st a1 = Terminated).
    { intros Ht. destruct (Mono u0 a Ea) as (a' & Ga' & St & _). rewrite get_normalize', G1 in Ga'. inversion Ga'; subst a'. rewrite pop1_st in St. auto. }
    (* the message being processed, when OnLaunch was pending *)
    assert (Pend : launch_pending a -> exists e, m = MS e /\ e_msg e = SLaunch).
    { unfold launch_pending. rewrite Em. destruct m as [e|e]; [intros He; exists e; auto|intros []]. }
    split.
    + split; [|apply guard_normalize; eapply guard_Gx; [exact GX|exact HG]].
      apply LI_normalize. eapply LI_frame; [exact GX|exact HL|].
      intros a' Ha'. rewrite G1 in Ha'. inversion Ha'; subst a'. unfold LIa. rewrite T1.
      destruct La as [L|[L|[L|L]]].
      * left. exact L.
      * destruct (Pend L) as (e & -> & Ee).
        destruct (is_sys (a_tok a)) eqn:Es; [left; reflexivity|].
        destruct (status_eq_dec (a_st a) Terminated) as [St|St]; [right; right; right; apply Term; exact St|].
        right. right. left.
        assert (Lo : launched o1 (a_tok a) (a_inst a)).
        { unfold Frame.run_inner in Ein. destruct (process_sys roles s0 u0 e) as [[sx ox] px] eqn:Ex.
          assert (Lx : launched ox (a_tok a) (a_inst a)) by (eapply (launch_shows u0 s0 (w_inflight None a)); [exact G0|exact Ee|exact Es|exact St|exact Ex]).
          destruct px; [destruct (crashed sx); [inversion Ein; subst; exact Lx|destruct (report_abnormal roles sx u0) as [[sy oy] py]; inversion Ein; subst; destruct Lx as (sn & sd & Hin); exists sn, sd; apply in_or_app; left; exact Hin]|inversion Ein; subst; exact Lx]. }
        destruct D1 as [D|[D|D]]; [rewrite D; apply launched_app_r; exact Lo|congruence|apply launched_app_r; exact D].
      * destruct D1 as [D|[D|D]]; [right; right; left; rewrite D; apply launched_app; exact L|left; exact D|right; right; left; apply launched_app_r; exact D].
      * right. right. right. apply Term. exact L.
    + intros t i tg sn sd Hin Hs Htl Htrd. destruct (B1 _ _ _ _ _ Hin) as [[-> ->]|[?|?]]; [|contradiction|contradiction].
      destruct La as [L|[L|[L|L]]].
      * congruence.
      * exfalso. destruct (Pend L) as (e & -> & Ee).
        unfold Frame.run_inner in Ein. destruct (process_sys roles s0 u0 e) as [[sx ox] px] eqn:Ex.
        assert (Only : forall x j tg' sn' sd', In (OH x j tg' sn' sd') ox -> tg' = TL) by (eapply launch_only; eassumption).
        destruct px.
        -- destruct (crashed sx).
           ++ inversion Ein; subst. apply Htl. eapply Only. exact Hin.
           ++ destruct (report_abnormal roles sx u0) as [[sy oy] py] eqn:Ey. inversion Ein; subst.
              apply in_app_or in Hin. destruct Hin as [Hin|Hin]; [apply Htl; eapply Only; exact Hin|].
              eapply not_handled_out; [eapply nh_report_abnormal; exact Ey|exact Hin].
        -- inversion Ein; subst. apply Htl. eapply Only. exact Hin.
      * exact L.
      * exfalso. pose proof (terminated_silent roles s u0 a s1 o1 Ea L Erun) as Hsil. exact (nh_in _ _ _ _ _ _ Hsil Hin).
  - destruct (next_serial s) as [s1 k] eqn:En. destruct (deliver_user s1 t rNone (UProbe n k)) as [s2 o2] eqn:E. intros H; injection H as <- <-.
    eapply LI_external; [exact (conj HL HG)| |apply nh_cons; [reflexivity|eapply nh_deliver_user; exact E]].
    apply (Gx_trans guard_uid s s1 s2); [apply Gx_same_actors; unfold next_serial in En; inversion En; subst; reflexivity|eapply Gx_deliver_user; exact E].
  - destruct (next_serial s) as [s1 k] eqn:En. destruct (deliver_user s1 t rGuard (UProbe n k)) as [s2 o2] eqn:E. intros H; injection H as <- <-.
    eapply LI_external; [exact (conj HL HG)| |apply nh_cons; [reflexivity|eapply nh_deliver_user; exact E]].
    apply (Gx_trans guard_uid s s1 s2); [apply Gx_same_actors; unfold next_serial in En; inversion En; subst; reflexivity|eapply Gx_deliver_user; exact E].
  - destruct (terminate s rGuard t g) as [s1 o1] eqn:E. intros H; injection H as <- <-.
    eapply LI_external; [exact (conj HL HG)|eapply Gx_terminate; exact E|apply nh_cons; [reflexivity|eapply nh_terminate; exact E]].
  - destruct (spawn s guard_uid rGuard t r) as [[s1 o1] p] eqn:E. intros H; injection H as <- <-.
    eapply LI_external; [exact (conj HL HG)|eapply Gx_spawn; exact E|].
    apply nh_cons; [reflexivity|]. apply nh_app; [eapply nh_spawn; exact E|destruct p; reflexivity].
  - destruct (terminate s rGuard rGuard g) as [s1 o1] eqn:E. intros H; injection H as <- <-.
    eapply LI_external; [exact (conj HL HG)|eapply Gx_terminate; exact E|eapply nh_terminate; exact E].
  - intros H; injection H as <- <-. split; [split|].
    + intros v a Hv. destruct (HL v a Hv) as [L|[L|[L|L]]]; [left; exact L|right; left; exact L|right; right; left; apply launched_app; exact L|right; right; right; exact L].
    + exact HG.
    + intros t i tg sn sd [Hin|[]]. discriminate.
Qed.

(* ---------- whole runs ---------- *)
Lemma LI_init : LI' [] kinit.
Proof.
  split; [|eexists; split; reflexivity].
  intros u a H. destruct u as [|[|u]]; cbn in H; try (destruct u; discriminate); inversion H; subst; left; reflexivity.
Qed.

Theorem krun_LI ls : forall tr s s' os, LI' tr s -> krun roles s ls = Some (s', os) -> LI' (tr ++ concat os) s'.
Proof.
  induction ls as [|l rest IH]; intros tr s s' os HI; cbn [krun].
  - intros H; inversion H; subst. cbn [concat]. rewrite app_nil_r. exact HI.
  - destruct (kstep roles s l) as [[s1 o]|] eqn:E; [|discriminate].
    destruct (krun roles s1 rest) as [[s2 os2]|] eqn:E2; [|discriminate]. intros H; inversion H; subst.
    destruct (kstep_LI _ _ _ _ _ HI E) as [HI1 _]. cbn [concat]. rewrite app_assoc. eapply IH; [exact HI1|exact E2].
Qed.

(* C03, first clause: an incarnation handles nothing but OnRestarted before its OnLaunch *)
Theorem launch_first ls s os l s' o t i tg sn sd :
  krun roles kinit ls = Some (s, os) -> kstep roles s l = Some (s', o) ->
  In (OH t i tg sn sd) o -> is_sys t = false -> tg <> TL -> tg <> TRD ->
  exists sn' sd', In (OH t i TL sn' sd') (concat os).
Proof.
  intros Hrun Hstep Hin Hs H1 H2.
  pose proof (krun_LI ls [] kinit s os LI_init Hrun) as HI. cbn [app] in HI.
  destruct (kstep_LI _ _ _ _ _ HI Hstep) as [_ Em]. exact (Em _ _ _ _ _ Hin Hs H1 H2).
Qed.

End T.
