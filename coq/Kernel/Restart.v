(* MV.Kernel.Restart — C03, second sentence: "a supervised restart is observed as ... OnTerminate, OnTerminated on the old
   instance, then OnRestarted and OnLaunch on a fresh instance obtained from the provider, with no user message handled in
   between". The completion of a restart (tryRestarted with no child left) is ONE step of the actor's mailbox; this file
   proves what that step shows, for every role table, from every state: exactly four Handled observations, in this order —
   OnTerminate and OnTerminated by the old instance number, OnRestarted and OnLaunch by the instance number the provider
   hands out in that step — whatever the four handlers do (send, spawn, watch, terminate, report, panic: a failure in a
   handler of a restarting actor is logged and the sequence goes on; a failure in OnRestarted does not keep OnLaunch from
   being handled). The actor is alive under the new instance number afterwards. Nothing else is handled in the step, so
   no user message can come in between. *)
From MV Require Import Lib.ListX Kernel.Model Kernel.Lifecycle Kernel.Status Kernel.Registry Kernel.Suspend Kernel.Frame Kernel.FrameU Kernel.Launch.
Open Scope Z_scope.

Definition handled (o : list obs) : list obs := filter is_handled o.

Lemma handled_app a b : handled (a ++ b) = handled a ++ handled b.
Proof. unfold handled. apply filter_app. Qed.
Lemma handled_nh o : nh o -> handled o = [].
Proof.
  unfold nh, handled. induction o as [|x o IH]; [reflexivity|]. cbn [existsb filter]. intros H.
  apply orb_false_iff in H. destruct H as [Hx Ho]. rewrite Hx. apply IH. exact Ho.
Qed.

Section R.
Variable roles : list role.

(* a handler call of a non-system actor shows exactly one Handled observation, first; the handlers of an actor that is
   restarting or terminating never abort the step *)
Lemma handle_one s u a tr snd s' o p :
  get s u = Some a -> is_sys (a_tok a) = false -> (forall n, tr <> TP n) -> handle roles s u tr 0%nat snd = (s', o, p) ->
  handled o = [OH (a_tok a) (a_inst a) tr 0%nat rNone] /\ (not_alive (a_st a) = true -> p = false).
Proof.
  intros Ha Hs Htr H. split.
  - destruct (handle_obs' roles u s a tr 0%nat snd s' o p Ha H) as [[Hs' _]|(_ & o1 & sd & Eo & Hn)]; [congruence|].
    destruct (handle_emits roles s u a tr 0%nat snd s' o p Ha Hs H) as (o' & Eo').
    rewrite Eo in Eo'. inversion Eo'; subst sd o'. rewrite Eo. unfold handled. cbn [filter is_handled].
    fold (handled o1). rewrite (handled_nh o1 Hn). destruct tr; try reflexivity. exfalso. exact (Htr n eq_refl).
  - intros Hna. revert H. unfold handle, handle_q. rewrite Ha, Hs.
    destruct (do_actions roles s u snd (find_rule (rules (role_of roles a)) tr (a_inst a))) as [[s1 o1] p1].
    intros H; inversion H; subst. rewrite Hna. apply andb_false_r.
Qed.

(* identity and status of the running object after a handler call *)
Lemma handle_keeps_obj s u a tr k snd s' o p :
  get s u = Some a -> handle roles s u tr k snd = (s', o, p) ->
  exists a', get s' u = Some a' /\ a_tok a' = a_tok a /\ a_inst a' = a_inst a /\ a_st a' = a_st a.
Proof.
  intros Ha H. destruct (idf_get u s s' a (id_handle roles u s tr k snd s' o p H) Ha) as (a' & G & T & I).
  destruct (keep_handle roles _ _ _ _ _ _ _ _ H u a Ha) as (a'' & G' & S' & _). rewrite G in G'. inversion G'; subst a''.
  exists a'. auto.
Qed.

Theorem restart_shape s u snd a s' o p :
  get s u = Some a -> a_children a = [] -> a_st a = Restarting -> is_sys (a_tok a) = false ->
  try_restarted roles s u snd = (s', o, p) ->
  exists a', get s' u = Some a' /\ a_tok a' = a_tok a /\ a_st a' = Alive /\
    handled o = [OH (a_tok a) (a_inst a) TT 0%nat rNone; OH (a_tok a) (a_inst a) TTS 0%nat rNone;
                 OH (a_tok a) (a_inst a') TRD 0%nat rNone; OH (a_tok a) (a_inst a') TL 0%nat rNone].
Proof.
  intros Ha Hc Hst Hs. unfold try_restarted. rewrite Ha, Hc, Hst.
  destruct (provide s (a_tok a)) as [s0 inst] eqn:Ep.
  assert (G0 : get s0 u = Some a) by (unfold provide in Ep; inversion Ep; subst; exact Ha).
  destruct (handle roles s0 u TT 0%nat snd) as [[s1 o1] p1] eqn:E1.
  destruct (handle_one s0 u a TT snd s1 o1 p1 G0 Hs ltac:(intros n; discriminate) E1) as [O1 P1].
  rewrite (P1 ltac:(rewrite Hst; reflexivity)). unfold bind at 1.
  destruct (handle_keeps_obj _ _ _ _ _ _ _ _ _ G0 E1) as (a1 & G1 & T1 & I1 & S1).
  destruct (handle roles s1 u TTS 0%nat snd) as [[s2 o2] p2] eqn:E2.
  assert (Hs1 : is_sys (a_tok a1) = false) by (rewrite T1; exact Hs).
  destruct (handle_one s1 u a1 TTS snd s2 o2 p2 G1 Hs1 ltac:(intros n; discriminate) E2) as [O2 P2].
  rewrite (P2 ltac:(rewrite S1, Hst; reflexivity)). unfold bind.
  destruct (handle_keeps_obj _ _ _ _ _ _ _ _ _ G1 E2) as (a2 & G2 & T2 & I2 & S2).
  set (s4 := upd_actor s2 u (fun b => w_st Alive (w_inst inst b))).
  assert (G4 : get s4 u = Some (w_st Alive (w_inst inst a2))) by (exact (get_upd_actor_same s2 u (fun b => w_st Alive (w_inst inst b)) a2 G2)).
  set (s5 := deliver_sys s4 (a_tok a) (a_tok a) SResume).
  destruct (idf_get u s4 s5 _ (id_deliver_sys s4 (a_tok a) (a_tok a) SResume) G4) as (a5 & G5 & T5 & I5).
  destruct (keep_deliver_sys s4 (a_tok a) (a_tok a) SResume u _ G4) as (a5' & G5' & S5 & _).
  fold s5 in G5'. rewrite G5 in G5'. inversion G5'; subst a5'.
  cbn [a_tok a_inst a_st w_st w_inst] in T5, I5, S5.
  unfold start_instance.
  destruct (handle roles s5 u TRD 0%nat (a_tok a)) as [[s6 o6] p6] eqn:E6.
  assert (Hs5 : is_sys (a_tok a5) = false) by (rewrite T5, T2, T1; exact Hs).
  destruct (handle_one s5 u a5 TRD (a_tok a) s6 o6 p6 G5 Hs5 ltac:(intros n; discriminate) E6) as [O6 _].
  destruct (handle_keeps_obj _ _ _ _ _ _ _ _ _ G5 E6) as (a6 & G6 & T6 & I6 & S6).
  destruct (handle roles s6 u TL 0%nat (a_parent a)) as [[s7 o7] p7] eqn:E7.
  assert (Hs6 : is_sys (a_tok a6) = false) by (rewrite T6; exact Hs5).
  destruct (handle_one s6 u a6 TL (a_parent a) s7 o7 p7 G6 Hs6 ltac:(intros n; discriminate) E7) as [O7 _].
  destruct (handle_keeps_obj _ _ _ _ _ _ _ _ _ G6 E7) as (a7 & G7 & T7 & I7 & S7).
  intros H; inversion H; subst s' o p.
  assert (G8 : exists a8, get (if p7 then s7 else upd_actor s7 u (w_accidents 0%nat)) u = Some a8 /\
                          a_tok a8 = a_tok a7 /\ a_inst a8 = a_inst a7 /\ a_st a8 = a_st a7).
  { destruct p7; [exists a7; auto|]. eexists. split; [apply get_upd_actor_same; exact G7|auto]. }
  destruct G8 as (a8 & G8 & T8 & I8 & S8).
  exists a8. split; [exact G8|]. split; [congruence|]. split; [congruence|].
  rewrite !handled_app, O1, O2, O6, O7.
  assert (X1 : a_tok a1 = a_tok a) by exact T1.
  assert (X5 : a_tok a5 = a_tok a) by congruence.
  assert (X6 : a_tok a6 = a_tok a) by congruence.
  assert (Y5 : a_inst a5 = a_inst a8) by congruence.
  assert (Y6 : a_inst a6 = a_inst a8) by congruence.
  rewrite X1, I1, X5, X6, Y5, Y6. reflexivity.
Qed.

End R.
