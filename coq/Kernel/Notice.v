(* MV.Kernel.Notice — C06, "each handles exactly one OnTerminated naming that actor", the upper half:
   for every pair of addresses x, w, every role table and every run of the kernel from the freshly started
   system, the number of times an object at address x handles OnTerminated(w) never exceeds the number of
   Watch requests x issued for w plus the number of actor objects x created under address w: no watch request
   and no parenthood is ever answered twice (a parent that also watches its child, a watcher registered twice,
   a watch that races with the termination, a watch of a dead address — one notice each, never two).

   Proved as a flow inequality. The potential Phi of a state counts what may still become such a handling:
   notices "w terminated" queued or in flight at objects at address x, Watch requests from x queued or in flight
   at objects at address w, and for every object at address w that has not terminated yet one unit per
   occurrence of x among its watchers, or one unit if x is its parent. Every operation of the kernel satisfies
   Phi after + handled <= Phi before + watch requests issued + children created. *)
From MV Require Import Lib.ListX Kernel.Model Kernel.Lifecycle Kernel.Status Kernel.Registry Kernel.Queue Kernel.Watch.
From Coq Require Import ZifyBool ZifyNat.
Open Scope nat_scope.

Section N.
Variable roles : list role.
Variables x w : ref.

Definition b2n (b : bool) : nat := if b then 1 else 0.
Definition isN (e : env smsg) : nat := match e_msg e with STerminatedOf who => b2n (Z.eqb who w) | _ => 0 end.
Definition isW (e : env smsg) : nat := match e_msg e with SWatch => b2n (Z.eqb (e_snd e) x) | _ => 0 end.
(* what the message e, held by an object at address tok, may still turn into *)
Definition ex (tok : ref) (e : env smsg) : nat := b2n (Z.eqb tok x) * isN e + b2n (Z.eqb tok w) * isW e.
Fixpoint cnt (l : list ref) : nat := match l with [] => 0 | y :: t => b2n (Z.eqb y x) + cnt t end.
(* notices this object still owes to x *)
Definition owe (a : actor) : nat :=
  match a_st a with
  | Terminated => 0
  | _ => b2n (Z.eqb (a_tok a) w) * (if Z.eqb (a_parent a) x then 1 else cnt (a_watchers a))
  end.
Definition phi (a : actor) : nat := list_sum (map (ex (a_tok a)) (msgs a)) + owe a.
Definition Phi (s : kstate) : nat := list_sum (map phi (actors s)).

Definition h1 (o : obs) : nat := match o with OH a _ (TTO t) _ _ => b2n (Z.eqb a x && Z.eqb t w) | _ => 0 end.
Definition b1 (o : obs) : nat := match o with OW a t | OSp a t => b2n (Z.eqb a x && Z.eqb t w) | _ => 0 end.
Definition hc (o : list obs) : nat := list_sum (map h1 o).
Definition bc (o : list obs) : nat := list_sum (map b1 o).

(* flow inequality of an operation; [e] = what the caller has already taken out of a mailbox *)
Definition le3 (s s' : kstate) (o : list obs) (e : nat) : Prop := Phi s' + hc o <= Phi s + bc o + e.

Lemma ls_app l1 l2 : list_sum (l1 ++ l2) = list_sum l1 + list_sum l2.
Proof. induction l1; simpl; lia. Qed.
Lemma hc_app a b : hc (a ++ b) = hc a + hc b. Proof. unfold hc. now rewrite map_app, ls_app. Qed.
Lemma bc_app a b : bc (a ++ b) = bc a + bc b. Proof. unfold bc. now rewrite map_app, ls_app. Qed.
Lemma hc_cons y b : hc (y :: b) = h1 y + hc b. Proof. reflexivity. Qed.
Lemma bc_cons y b : bc (y :: b) = b1 y + bc b. Proof. reflexivity. Qed.
Lemma hc_nil : hc [] = 0. Proof. reflexivity. Qed.
Lemma bc_nil : bc [] = 0. Proof. reflexivity. Qed.

Lemma le3_refl s : le3 s s [] 0. Proof. unfold le3. rewrite hc_nil, bc_nil. lia. Qed.
Lemma le3_trans s1 s2 s3 o1 o2 e1 e2 : le3 s1 s2 o1 e1 -> le3 s2 s3 o2 e2 -> le3 s1 s3 (o1 ++ o2) (e1 + e2).
Proof. unfold le3. rewrite hc_app, bc_app. lia. Qed.
Lemma le3_weaken s s' o e e' : le3 s s' o e -> e <= e' -> le3 s s' o e'.
Proof. unfold le3. lia. Qed.
Lemma le3_quiet s s' o e : Phi s' <= Phi s + e -> hc o = 0 -> le3 s s' o e.
Proof. unfold le3. lia. Qed.

Lemma bind_le3 s (r : R) f e s3 o3 p3 :
  RI s ->
  (forall s1 o1 p1, r = (s1, o1, p1) -> ext s s1) ->
  (forall s1 o1 p1, r = (s1, o1, p1) -> le3 s s1 o1 e) ->
  (forall s1 s2 o2 p2, RI s1 -> f s1 = (s2, o2, p2) -> le3 s1 s2 o2 0) ->
  r >>= f = (s3, o3, p3) -> le3 s s3 o3 e.
Proof.
  intros HR Hx H1 H2. destruct r as [[s1 o1] p1]. unfold bind. destruct p1.
  - intros H; inversion H; subst. eapply H1; reflexivity.
  - destruct (f s1) as [[s2 o2] p2] eqn:E. intros H; inversion H; subst.
    replace e with (e + 0) by lia. eapply le3_trans; [eapply H1; reflexivity | eapply H2; [|exact E]].
    eapply RI_ext; [exact HR|eapply Hx; reflexivity].
Qed.

(* ---- Phi under state updates ---- *)
Lemma Phi_list_upd l u a a' :
  nth_error l u = Some a -> list_sum (map phi (upd u a' l)) + phi a = list_sum (map phi l) + phi a'.
Proof.
  revert u; induction l as [|h t IH]; intros [|u] H; simpl in *; try discriminate.
  - inversion H; subst. lia.
  - specialize (IH u H). lia.
Qed.
Lemma Phi_put s u a a' : get s u = Some a -> Phi (put s u a') + phi a = Phi s + phi a'.
Proof. intros E. unfold get in E. unfold Phi, put, set_actors; simpl. exact (Phi_list_upd _ _ _ a' E). Qed.
Lemma Phi_upd s u f a : get s u = Some a -> Phi (upd_actor s u f) + phi a = Phi s + phi (f a).
Proof. intros E. unfold upd_actor. rewrite E. apply Phi_put. exact E. Qed.
Lemma Phi_upd_eq s u f : (forall a, phi (f a) = phi a) -> Phi (upd_actor s u f) = Phi s.
Proof.
  intros Hf. destruct (get s u) as [a|] eqn:E; [|unfold upd_actor; rewrite E; reflexivity].
  pose proof (Phi_upd s u f a E) as H. rewrite Hf in H. lia.
Qed.
Lemma Phi_same s s' : actors s' = actors s -> Phi s' = Phi s.
Proof. intros H. unfold Phi. rewrite H. reflexivity. Qed.
Lemma Phi_append s b : Phi (set_actors s (actors s ++ [b])) = Phi s + phi b.
Proof. unfold Phi, set_actors; cbn [actors]. rewrite map_app, ls_app. simpl. lia. Qed.

Ltac keepphi := intros; reflexivity.

Lemma ex_plain tok e : interesting e = false -> ex tok e = 0.
Proof. unfold interesting, ex, isN, isW. destruct (e_msg e); try discriminate; intros _; lia. Qed.

Lemma phi_push a e :
  phi (match e_msg e with SSuspend => w_susp true a | SResume => w_susp false a | _ => w_sysq (a_sysq a ++ [e]) a end)
  = phi a + ex (a_tok a) e.
Proof.
  assert (G : phi (w_sysq (a_sysq a ++ [e]) a) = phi a + ex (a_tok a) e).
  { unfold phi. rewrite msgs_push, map_app, ls_app. cbn [map list_sum fold_right a_tok w_sysq]. unfold owe. cbn [a_st a_tok a_parent a_watchers w_sysq]. lia. }
  destruct (e_msg e) eqn:Em; try exact G; rewrite ex_plain by (unfold interesting; rewrite Em; reflexivity);
    unfold phi, msgs, owe; cbn [a_inflight a_sysq a_tok a_st a_parent a_watchers w_susp]; lia.
Qed.

Lemma Phi_push_sys s u e a : get s u = Some a -> Phi (push_sys s u e) = Phi s + ex (a_tok a) e.
Proof.
  intros E. unfold push_sys. pose proof (Phi_upd s u (fun a => match e_msg e with SSuspend => w_susp true a | SResume => w_susp false a | _ => w_sysq (a_sysq a ++ [e]) a end) a E) as H.
  cbv beta in H. rewrite phi_push in H. lia.
Qed.
Lemma Phi_push_plain s u e : interesting e = false -> Phi (push_sys s u e) = Phi s.
Proof.
  intros Hi. destruct (get s u) as [a|] eqn:E.
  - rewrite (Phi_push_sys s u e a E), ex_plain by exact Hi. lia.
  - unfold push_sys, upd_actor. rewrite E. reflexivity.
Qed.

(* what a system message sent to t by snd can add *)
Definition dw (t snd : ref) (m : smsg) : nat :=
  match m with
  | SWatch => b2n (Z.eqb snd x && Z.eqb t w)
  | STerminatedOf who => b2n (Z.eqb t x && Z.eqb who w)
  | _ => 0
  end.

Ltac bools := unfold b2n; repeat match goal with |- context [Z.eqb ?a ?b] => destruct (Z.eqb a b) eqn:? end; cbn [andb]; try lia.

Lemma Phi_deliver_sys s t snd m : RI s -> Phi (deliver_sys s t snd m) <= Phi s + dw t snd m.
Proof.
  intros HR. unfold deliver_sys. destruct (lookup t (registry s)) as [u|] eqn:El.
  - destruct (HR t u El) as (a & Ha & Ht). rewrite (Phi_push_sys s u _ a Ha), Ht.
    unfold ex, isN, isW, dw. cbn [mk_env e_msg e_snd]. destruct m; try lia; bools.
  - destruct m; try lia. destruct (lookup snd (registry s)) as [v|] eqn:El2; [|lia].
    destruct (HR snd v El2) as (a & Ha & Ht). rewrite (Phi_push_sys s v _ a Ha), Ht.
    unfold ex, isN, isW, dw. cbn [mk_env e_msg e_snd]. bools.
Qed.
Lemma Phi_deliver_plain s t snd m :
  match m with SWatch | STerminatedOf _ => False | _ => True end -> Phi (deliver_sys s t snd m) = Phi s.
Proof.
  intros Hm. unfold deliver_sys. destruct (lookup t (registry s)) as [u|].
  - apply Phi_push_plain. unfold interesting; cbn [mk_env e_msg]. destruct m; try reflexivity; contradiction.
  - destruct m; try reflexivity; contradiction.
Qed.

(* ---- operations that neither queue a notice or a watch request nor handle one ---- *)
Definition plain (s s' : kstate) (o : list obs) : Prop := Phi s' = Phi s /\ hc o = 0 /\ bc o = 0.
Lemma plain_le3 s s' o : plain s s' o -> le3 s s' o 0.
Proof. unfold plain, le3. lia. Qed.
Lemma plain_trans s1 s2 s3 o1 o2 : plain s1 s2 o1 -> plain s2 s3 o2 -> plain s1 s3 (o1 ++ o2).
Proof. unfold plain. rewrite hc_app, bc_app. lia. Qed.

Lemma phi_userq a q : phi (w_userq q a) = phi a. Proof. reflexivity. Qed.

Lemma to_sub_Phi s : Phi (to_sub s) = Phi s.
Proof. unfold to_sub. destruct (lookup rSub (registry s)); [|reflexivity]. apply Phi_upd_eq. keepphi. Qed.

Lemma plain_abyss_user s snd rcv m s' o : abyss_user s snd rcv m = (s', o) -> plain s s' o.
Proof.
  unfold abyss_user, plain. destruct m; intros H; inversion H; subst; clear H;
    try (destruct (Z.eqb rcv rSub); rewrite ?to_sub_Phi); repeat split; reflexivity.
Qed.
Lemma plain_deliver_user s t snd m s' o : deliver_user s t snd m = (s', o) -> plain s s' o.
Proof.
  unfold deliver_user. destruct (lookup t (registry s)) as [u|]; [|apply plain_abyss_user].
  destruct (get s u) as [a|] eqn:E; [|apply plain_abyss_user].
  intros H; inversion H; subst; clear H. repeat split.
  pose proof (Phi_put s u a (w_userq (a_userq a ++ [mk_env snd t m]) a) E) as H. rewrite phi_userq in H. lia.
Qed.
Lemma plain_terminate s self t g s' o : terminate s self t g = (s', o) -> plain s s' o.
Proof.
  unfold terminate. destruct g; [apply plain_deliver_user|]. intros H; inversion H; subst.
  repeat split. apply Phi_deliver_plain. exact I.
Qed.
Lemma plain_terminate_all cs : forall s self g s' o, terminate_all s self cs g = (s', o) -> plain s s' o.
Proof.
  induction cs as [|c rest IH]; intros s self g s' o; cbn [terminate_all].
  - intros H; inversion H; subst. repeat split.
  - destruct (terminate s self c g) as [s1 o1] eqn:E1. destruct (terminate_all s1 self rest g) as [s2 o2] eqn:E2.
    intros H; inversion H; subst. eapply plain_trans; [eapply plain_terminate; exact E1|eapply IH; exact E2].
Qed.
Lemma restart_all_Phi cs : forall s self, Phi (restart_all s self cs) = Phi s.
Proof.
  induction cs as [|c rest IH]; intros s self; cbn [restart_all]; [reflexivity|].
  rewrite IH. apply Phi_deliver_plain. exact I.
Qed.
Lemma plain_send_each ts : forall s self n k s' o, send_each s self ts n k = (s', o) -> plain s s' o.
Proof.
  induction ts as [|t rest IH]; intros s self n k s' o; cbn [send_each].
  - intros H; inversion H; subst. repeat split.
  - destruct (deliver_user s t self (UProbe n k)) as [s1 o1] eqn:E1. destruct (send_each s1 self rest n k) as [s2 o2] eqn:E2.
    intros H; inversion H; subst. eapply plain_trans; [eapply plain_deliver_user; exact E1|eapply IH; exact E2].
Qed.
Lemma plain_escalate s u r s' o p : escalate s u r = (s', o, p) -> plain s s' o.
Proof.
  unfold escalate. destruct (get s u) as [a|]; [|intros H; inversion H; subst; repeat split].
  destruct (Z.eqb (a_parent a) rNone); intros H; inversion H; subst; repeat split.
  apply Phi_deliver_plain. exact I.
Qed.
Lemma plain_report_abnormal s u s' o p : report_abnormal roles s u = (s', o, p) -> plain s s' o.
Proof.
  unfold report_abnormal. destruct (get s u) as [a|]; [|intros H; inversion H; subst; repeat split].
  destruct (a_st a); try (intros H; inversion H; subst; repeat split; fail).
  intros H. apply plain_escalate in H. destruct H as (H1 & H2 & H3). repeat split; try assumption.
  rewrite H1, Phi_deliver_plain by exact I. apply Phi_upd_eq. keepphi.
Qed.
Lemma next_serial_Phi s : Phi (fst (next_serial s)) = Phi s. Proof. reflexivity. Qed.
Lemma provide_Phi s t : Phi (fst (provide s t)) = Phi s. Proof. reflexivity. Qed.

(* ---- ActorOf: the new object owes its parent one notice ---- *)
Lemma phi_new t self r inst : phi (new_actor t self r inst) = b2n (Z.eqb self x && Z.eqb t w).
Proof. unfold phi, owe, new_actor, msgs; cbn. bools. Qed.
Lemma phi_new_dead t self r inst : phi (w_st Terminated (new_actor t self r inst)) = 0.
Proof. reflexivity. Qed.

Lemma stop_Phi s u self t s' o p : stop_if_parent_gone s u self t = (s', o, p) -> plain s s' o.
Proof.
  unfold stop_if_parent_gone. destruct (get s u) as [pa|]; [|intros H; inversion H; subst; repeat split].
  destruct (not_alive (a_st pa)); [|intros H; inversion H; subst; repeat split].
  destruct (terminate s self t (a_graceful pa)) as [s1 o1] eqn:E. intros H; inversion H; subst.
  eapply plain_terminate; exact E.
Qed.

Lemma spawn_Phi s u self t r s' o p :
  spawn s u self t r = (s', o, p) -> Phi s' <= Phi s + b2n (Z.eqb self x && Z.eqb t w) /\ hc o = 0.
Proof.
  unfold spawn. destruct (provide s t) as [s1 inst] eqn:Ep.
  assert (P1 : Phi s1 = Phi s) by (change s1 with (fst (s1, inst)); rewrite <- Ep; apply provide_Phi).
  destruct (lookup t (registry s1)).
  - intros H; inversion H; subst. rewrite Phi_append, phi_new_dead. split; [lia|reflexivity].
  - intros H. apply stop_Phi in H. destruct H as (H1 & H2 & _). split; [|exact H2].
    rewrite H1, Phi_deliver_plain by exact I. rewrite Phi_upd_eq by keepphi.
    match goal with |- Phi (set_registry ?s0 ?r0) <= _ => rewrite (Phi_same s0 (set_registry s0 r0)) by reflexivity end.
    rewrite Phi_append, phi_new. lia.
Qed.

(* ---- one scripted action ---- *)
Lemma le3_do_action s u snd act s' o p : RI s -> do_action roles s u snd act = (s', o, p) -> le3 s s' o 0.
Proof.
  intros HR. unfold do_action. destruct (get s u) as [a|]; [|intros H; inversion H; subst; apply le3_refl].
  destruct act.
  - destruct (next_serial s) as [s1 k] eqn:En. destruct (deliver_user s1 t rNone (UProbe n k)) as [s2 o2] eqn:E.
    intros H; inversion H; subst. apply plain_deliver_user in E. destruct E as (E1 & E2 & E3).
    assert (Phi s1 = Phi s) by (change s1 with (fst (s1, k)); rewrite <- En; reflexivity).
    unfold le3. rewrite ?app_nil_r, hc_cons, bc_cons. cbn [h1 b1]. lia.
  - destruct (next_serial s) as [s1 k] eqn:En. destruct (deliver_user s1 t (a_tok a) (UProbe n k)) as [s2 o2] eqn:E.
    intros H; inversion H; subst. apply plain_deliver_user in E. destruct E as (E1 & E2 & E3).
    assert (Phi s1 = Phi s) by (change s1 with (fst (s1, k)); rewrite <- En; reflexivity).
    unfold le3. rewrite ?app_nil_r, hc_cons, bc_cons. cbn [h1 b1]. lia.
  - destruct (next_serial s) as [s1 k] eqn:En. destruct (deliver_user s1 snd (a_tok a) (UProbe n k)) as [s2 o2] eqn:E.
    intros H; inversion H; subst. apply plain_deliver_user in E. destruct E as (E1 & E2 & E3).
    assert (Phi s1 = Phi s) by (change s1 with (fst (s1, k)); rewrite <- En; reflexivity).
    unfold le3. rewrite ?app_nil_r, hc_cons, bc_cons. cbn [h1 b1]. lia.
  - destruct (next_serial s) as [s1 k] eqn:En. destruct (send_each s1 (a_tok a) (a_children a) n k) as [s2 o2] eqn:E.
    intros H; inversion H; subst. apply plain_send_each in E. destruct E as (E1 & E2 & E3).
    assert (Phi s1 = Phi s) by (change s1 with (fst (s1, k)); rewrite <- En; reflexivity).
    unfold le3. rewrite ?app_nil_r, hc_app, bc_app.
    assert (Hm : forall l, hc (map (fun t => OS (a_tok a) t k) l) = 0) by (induction l; [reflexivity|rewrite map_cons, hc_cons; cbn [h1]; lia]).
    rewrite Hm. lia.
  - destruct (spawn s u (a_tok a) t r) as [[s1 o1] p1] eqn:E. intros H; inversion H; subst.
    apply spawn_Phi in E. destruct E as (E1 & E2). unfold le3. rewrite hc_cons, bc_cons. cbn [h1 b1]. lia.
  - destruct (terminate s (a_tok a) t g) as [s1 o1] eqn:E. intros H; inversion H; subst.
    apply plain_terminate in E. destruct E as (E1 & E2 & E3). unfold le3. rewrite ?app_nil_r, hc_cons, bc_cons. cbn [h1 b1]. lia.
  - intros H; inversion H; subst. pose proof (Phi_deliver_sys s t (a_tok a) SWatch HR) as D. cbn [dw] in D.
    unfold le3. cbn [app]. rewrite hc_cons, bc_cons, hc_nil, bc_nil. cbn [h1 b1]. lia.
  - intros H; inversion H; subst. unfold le3. rewrite Phi_deliver_plain by exact I. cbn [app]. rewrite hc_cons, bc_cons, hc_nil, bc_nil. cbn [h1 b1]. lia.
  - destruct (report_abnormal roles s u) as [[s1 o1] p1] eqn:E. intros H; inversion H; subst.
    apply plain_report_abnormal in E. destruct E as (E1 & E2 & E3). unfold le3. rewrite hc_cons, bc_cons. cbn [h1 b1]. lia.
  - intros H; inversion H; subst. unfold le3. rewrite hc_cons, bc_cons, hc_nil, bc_nil. cbn [h1 b1]. lia.
Qed.

Lemma le3_do_actions acts : forall s u snd s' o p, RI s -> do_actions roles s u snd acts = (s', o, p) -> le3 s s' o 0.
Proof.
  induction acts as [|act rest IH]; intros s u snd s' o p HR; cbn [do_actions].
  - intros H; inversion H; subst. apply le3_refl.
  - apply bind_le3; [exact HR| | |].
    + intros s1 o1 p1 E. eapply ext_do_action; exact E.
    + intros s1 o1 p1 E. eapply le3_do_action; [exact HR|exact E].
    + intros s1 s2 o2 p2 HR1 E. eapply IH; [exact HR1|exact E].
Qed.

(* what handling trigger t at address tok counts for *)
Definition hw (tok : ref) (t : trig) : nat := match t with TTO t' => b2n (Z.eqb tok x && Z.eqb t' w) | _ => 0 end.

Lemma le3_handle_q q s u t k snd s' o p a :
  RI s -> get s u = Some a -> handle_q roles q s u t k snd = (s', o, p) -> le3 s s' o (hw (a_tok a) t).
Proof.
  intros HR Ea. unfold handle_q. rewrite Ea. destruct q; [intros H; inversion H; subst; eapply le3_weaken; [apply le3_refl|lia]|].
  destruct (do_actions roles s u snd (find_rule (rules (role_of roles a)) t (a_inst a))) as [[s1 o1] p1] eqn:E.
  intros H; inversion H; subst. apply le3_do_actions in E; [|exact HR]. unfold le3 in *. rewrite hc_cons, bc_cons.
  assert (h1 (OH (a_tok a) (a_inst a) t k match t with TP _ => snd | _ => rNone end) = hw (a_tok a) t) by (destruct t; reflexivity).
  assert (b1 (OH (a_tok a) (a_inst a) t k match t with TP _ => snd | _ => rNone end) = 0) by reflexivity.
  lia.
Qed.
Lemma le3_handle s u t k snd s' o p a :
  RI s -> get s u = Some a -> handle roles s u t k snd = (s', o, p) -> le3 s s' o (hw (a_tok a) t).
Proof. intros HR Ea. unfold handle. rewrite Ea. apply le3_handle_q; assumption. Qed.
Lemma le3_handle0 s u t k snd s' o p :
  RI s -> handle roles s u t k snd = (s', o, p) -> (forall tok, hw tok t = 0) -> le3 s s' o 0.
Proof.
  intros HR H H0. revert H. destruct (get s u) as [a|] eqn:Ea.
  - intros H. rewrite <- (H0 (a_tok a)). eapply le3_handle; eassumption.
  - unfold handle. rewrite Ea. intros H; inversion H; subst. apply le3_refl.
Qed.

Lemma bind_le3' s (r : R) f e1 e2 s3 o3 p3 :
  RI s ->
  (forall s1 o1 p1, r = (s1, o1, p1) -> ext s s1) ->
  (forall s1 o1 p1, r = (s1, o1, p1) -> le3 s s1 o1 e1) ->
  (forall s1 s2 o2 p2, RI s1 -> f s1 = (s2, o2, p2) -> le3 s1 s2 o2 e2) ->
  r >>= f = (s3, o3, p3) -> le3 s s3 o3 (e1 + e2).
Proof.
  intros HR Hx H1 H2. destruct r as [[s1 o1] p1]. unfold bind. destruct p1.
  - intros H; inversion H; subst. eapply le3_weaken; [eapply H1; reflexivity|lia].
  - destruct (f s1) as [[s2 o2] p2] eqn:E. intros H; inversion H; subst.
    eapply le3_trans; [eapply H1; reflexivity | eapply H2; [|exact E]].
    eapply RI_ext; [exact HR|eapply Hx; reflexivity].
Qed.

Lemma RI_kr s s' : RI s -> keep s s' -> regsame s s' -> RI s'.
Proof. intros HR K Rg. eapply RI_ext; [exact HR|apply ext_of_keep; assumption]. Qed.
Lemma RI_deliver_sys s t snd m : RI s -> RI (deliver_sys s t snd m).
Proof. intros HR. eapply RI_kr; [exact HR|apply keep_deliver_sys|apply regsame_deliver_sys]. Qed.

(* ---- the notices of a terminating object ---- *)
Lemma notify_all_Phi ws : forall s self, RI s -> Phi (notify_all s self ws) <= Phi s + b2n (Z.eqb self w) * cnt ws.
Proof.
  induction ws as [|y rest IH]; intros s self HR; cbn [notify_all cnt]; [lia|].
  pose proof (Phi_deliver_sys s y self (STerminatedOf self) HR) as D. cbn [dw] in D.
  pose proof (IH (deliver_sys s y self (STerminatedOf self)) self (RI_deliver_sys _ _ _ _ HR)) as G.
  revert D G. bools.
Qed.
Lemma RI_notify_all ws : forall s self, RI s -> RI (notify_all s self ws).
Proof. intros s self HR. eapply RI_kr; [exact HR|apply keep_notify_all|apply regsame_notify_all]. Qed.

Lemma cnt_filter_self l : cnt (filter (fun y => negb (Z.eqb y x)) l) = 0.
Proof. induction l as [|y t IH]; [reflexivity|]. cbn [filter]. destruct (Z.eqb y x) eqn:E; cbn [negb cnt]; [exact IH|rewrite E; cbn [b2n]; lia]. Qed.
Lemma cnt_filter_le f l : cnt (filter f l) <= cnt l.
Proof. induction l as [|y t IH]; [reflexivity|]. cbn [filter]. destruct (f y); cbn [cnt]; lia. Qed.
Lemma cnt_insert k l : cnt (insert_sorted k l) <= cnt l + b2n (Z.eqb k x).
Proof.
  induction l as [|y t IH]; cbn [insert_sorted cnt]; [lia|].
  destruct (Z.ltb k y); [cbn [cnt]; lia|]. destruct (Z.eqb k y); cbn [cnt]; lia.
Qed.
Lemma cnt_remove k l : cnt (remove_ref k l) <= cnt l.
Proof. induction l as [|y t IH]; [reflexivity|]. cbn [remove_ref]. destruct (Z.eqb k y); cbn [cnt]; lia. Qed.

Lemma phi_terminated a : a_st a <> Terminated -> phi a = phi (w_st Terminated a) + owe a.
Proof. intros _. unfold phi. change (msgs (w_st Terminated a)) with (msgs a). change (a_tok (w_st Terminated a)) with (a_tok a). unfold owe at 2. cbn [a_st w_st]. lia. Qed.

Lemma le3_try_terminated s u snd s' o p : RI s -> try_terminated roles s u snd = (s', o, p) -> le3 s s' o 0.
Proof.
  intros HR. unfold try_terminated. destruct (get s u) as [a|] eqn:Ea; [|intros H; inversion H; subst; apply le3_refl].
  destruct (a_children a); [|intros H; inversion H; subst; apply le3_refl].
  destruct (a_st a) eqn:Est; try (intros H; inversion H; subst; apply le3_refl).
  set (s1 := upd_actor s u (w_st Terminated)).
  assert (P1 : Phi s1 + owe a = Phi s).
  { pose proof (Phi_upd s u (w_st Terminated) a Ea) as H. rewrite (phi_terminated a) in H by congruence. fold s1 in H. lia. }
  assert (X1 : ext s s1) by (eapply ext_upd_status; [exact Ea|congruence]).
  assert (HR1 : RI s1) by (eapply RI_ext; eassumption).
  intros H. cut (le3 s1 s' o (0 + owe a)); [unfold le3; lia|]. revert H.
  apply bind_le3'; [exact HR1| | |].
  - intros s2 o2 p2 E. eapply ext_handle; exact E.
  - intros s2 o2 p2 E. eapply le3_handle0; [exact HR1|exact E|reflexivity].
  - intros s2 s3 o3 p3 HR2.
    set (sr := set_registry s2 (remove_key (a_tok a) (registry s2))).
    assert (HRr : RI sr) by (eapply RI_ext; [exact HR2|apply ext_remove]).
    set (ws := filter (fun y => negb (Z.eqb y (a_parent a))) (a_watchers a)).
    pose proof (notify_all_Phi ws sr (a_tok a) HRr) as N.
    assert (Pr : Phi sr = Phi s2) by reflexivity.
    assert (HRn : RI (notify_all sr (a_tok a) ws)) by (apply RI_notify_all; exact HRr).
    assert (B : b2n (Z.eqb (a_tok a) w) * cnt ws + b2n (Z.eqb (a_parent a) x && Z.eqb (a_tok a) w) <= owe a).
    { unfold owe. rewrite Est. destruct (Z.eqb (a_parent a) x) eqn:Epx.
      - apply Z.eqb_eq in Epx. unfold ws. rewrite Epx, cnt_filter_self. bools.
      - pose proof (cnt_filter_le (fun y => negb (Z.eqb y (a_parent a))) (a_watchers a)) as L. change (cnt ws <= cnt (a_watchers a)) in L. cbn [andb]. destruct (Z.eqb (a_tok a) w); cbn [b2n]; lia. }
    destruct (Z.eqb (a_parent a) rNone); intros H; inversion H; subst; apply le3_quiet; try reflexivity.
    + match goal with |- Phi ?z <= _ => rewrite (Phi_same (notify_all sr (a_tok a) ws) z) by reflexivity end. lia.
    + pose proof (Phi_deliver_sys (notify_all sr (a_tok a) ws) (a_parent a) (a_tok a) (STerminatedOf (a_tok a)) HRn) as D.
      cbn [dw] in D. lia.
Qed.

Lemma le3_start_instance s u self parent s' o p : RI s -> start_instance roles s u self parent = (s', o, p) -> le3 s s' o 0.
Proof.
  intros HR. unfold start_instance. destruct (handle roles s u TRD 0 self) as [[s1 o1] p1] eqn:E1.
  destruct (handle roles s1 u TL 0 parent) as [[s2 o2] p2] eqn:E2. intros H; inversion H; subst.
  assert (HR1 : RI s1) by (eapply RI_ext; [exact HR|eapply ext_handle; exact E1]).
  change 0 with (0 + 0). eapply le3_trans; [eapply le3_handle0; [exact HR|exact E1|reflexivity]|].
  pose proof (le3_handle0 _ _ _ _ _ _ _ _ HR1 E2 (fun _ => eq_refl)) as L.
  destruct p2; [exact L|]. unfold le3 in *. rewrite Phi_upd_eq by keepphi. exact L.
Qed.

Lemma le3_try_restarted s u snd s' o p : RI s -> try_restarted roles s u snd = (s', o, p) -> le3 s s' o 0.
Proof.
  intros HR. unfold try_restarted. destruct (get s u) as [a|] eqn:Ea; [|intros H; inversion H; subst; apply le3_refl].
  destruct (a_children a); [|intros H; inversion H; subst; apply le3_refl].
  destruct (a_st a) eqn:Est; try (intros H; inversion H; subst; apply le3_refl).
  destruct (provide s (a_tok a)) as [s0 inst] eqn:Ep.
  assert (G0 : get s0 u = Some a) by (unfold provide in Ep; inversion Ep; subst; exact Ea).
  assert (P0 : Phi s0 = Phi s) by (unfold provide in Ep; inversion Ep; subst; reflexivity).
  assert (HR0 : RI s0) by (unfold provide in Ep; inversion Ep; subst; exact HR).
  assert (KK : forall s1 s2 o2 p2 o1 p1, handle roles s0 u TT 0 snd = (s1, o1, p1) -> handle roles s1 u TTS 0 snd = (s2, o2, p2) ->
               exists b, get s2 u = Some b /\ a_st b = Restarting).
  { intros s1 s2 o2 p2 o1 p1 E1 E2. apply keep_handle in E1. apply keep_handle in E2.
    destruct (keep_status _ _ _ _ E1 G0) as (a1 & G1 & S1). destruct (keep_status _ _ _ _ E2 G1) as (a2 & G2 & S2).
    exists a2. split; [exact G2|congruence]. }
  destruct (handle roles s0 u TT 0 snd) as [[s1 o1] p1] eqn:E1. unfold bind at 1. destruct p1.
  { intros H; inversion H; subst. unfold le3. rewrite <- P0. eapply le3_handle0; [exact HR0|exact E1|reflexivity]. }
  assert (HR1 : RI s1) by (eapply RI_ext; [exact HR0|eapply ext_handle; exact E1]).
  destruct (handle roles s1 u TTS 0 snd) as [[s2 o2] p2] eqn:E2. unfold bind at 1.
  assert (L12 : le3 s s2 (o1 ++ o2) 0).
  { unfold le3. rewrite <- P0. change 0 with (0 + 0). eapply le3_trans; [eapply le3_handle0; [exact HR0|exact E1|reflexivity]|eapply le3_handle0; [exact HR1|exact E2|reflexivity]]. }
  destruct p2.
  { intros H; inversion H; subst. exact L12. }
  assert (HR2 : RI s2) by (eapply RI_ext; [exact HR1|eapply ext_handle; exact E2]).
  destruct (KK _ _ _ _ _ _ eq_refl E2) as (b & Gb & Sb).
  set (s4 := upd_actor s2 u (fun b => w_st Alive (w_inst inst b))).
  assert (P4 : Phi s4 = Phi s2).
  { pose proof (Phi_upd s2 u (fun b => w_st Alive (w_inst inst b)) b Gb) as H. fold s4 in H.
    assert (phi (w_st Alive (w_inst inst b)) = phi b) by (unfold phi, owe, msgs; cbn [a_st a_tok a_parent a_watchers a_inflight a_sysq w_st w_inst]; rewrite Sb; reflexivity).
    lia. }
  set (s5 := deliver_sys s4 (a_tok a) (a_tok a) SResume).
  assert (P5 : Phi s5 = Phi s4) by (apply Phi_deliver_plain; exact I).
  destruct (start_instance roles s5 u (a_tok a) (a_parent a)) as [[s6 o6] p6] eqn:E6.
  intros H; inversion H; subst.
  assert (HR5 : RI s5).
  { apply RI_deliver_sys. eapply RI_ext; [|apply ext_of_mono; [eapply mono_upd_f with (a0 := b); [exact Gb|congruence|intros; repeat split]|apply regsame_upd_actor]].
    exact HR2. }
  pose proof (le3_start_instance _ _ _ _ _ _ _ HR5 E6) as L6.
  unfold le3 in *. rewrite !hc_app, !bc_app in *. lia.
Qed.

Lemma le3_apply_directive s u r d snd s' o p : RI s -> apply_directive roles s u r d snd = (s', o, p) -> le3 s s' o 0.
Proof.
  intros HR. unfold apply_directive. destruct (get s u) as [a|]; [|intros H; inversion H; subst; apply le3_refl].
  destruct d.
  - intros H; inversion H; subst. apply le3_quiet; [rewrite Phi_deliver_plain by exact I; lia|reflexivity].
  - destruct (terminate s (a_tok a) (ar_vref r) false) as [s1 o1] eqn:E1.
    destruct (try_terminated roles s1 u snd) as [[s2 o2] p2] eqn:E2. intros H; inversion H; subst.
    assert (HR1 : RI s1) by (eapply RI_kr; [exact HR|eapply keep_terminate; exact E1|eapply regsame_terminate; exact E1]).
    apply plain_terminate in E1. destruct E1 as (A1 & A2 & A3). apply le3_try_terminated in E2; [|exact HR1].
    unfold le3 in *. rewrite hc_cons, bc_cons, hc_app, bc_app. cbn [h1 b1]. lia.
  - intros H; inversion H; subst. apply le3_quiet; [rewrite Phi_deliver_plain by exact I; lia|reflexivity].
  - destruct (escalate s u r) as [[s1 o1] p1] eqn:E1. intros H; inversion H; subst.
    apply plain_escalate in E1. destruct E1 as (A1 & A2 & A3). unfold le3. rewrite hc_cons, bc_cons. cbn [h1 b1]. lia.
  - intros H; inversion H; subst. apply le3_quiet; [rewrite restart_all_Phi; lia|reflexivity].
Qed.

Lemma le3_on_accident s u r snd s' o p : RI s -> on_accident roles s u r snd = (s', o, p) -> le3 s s' o 0.
Proof.
  intros HR. unfold on_accident. destruct (get s u) as [a|]; [|intros H; inversion H; subst; apply le3_refl].
  destruct (ar_strategy r); [apply le3_apply_directive; exact HR|].
  destruct (sup (role_of roles a)); [intros H; apply plain_le3; eapply plain_escalate; exact H|apply le3_apply_directive; exact HR].
Qed.

Lemma hw_to tok who : hw tok (if Z.eqb who tok then TTS else TTO who) <= b2n (Z.eqb tok x) * b2n (Z.eqb who w).
Proof. destruct (Z.eqb who tok); cbn [hw]; [lia|]. bools. Qed.

Lemma phi_st a st : a_st a <> Terminated -> st <> Terminated -> phi (w_st st a) = phi a.
Proof. intros H1 H2. unfold phi, owe, msgs. cbn [a_st a_tok a_parent a_watchers a_inflight a_sysq w_st]. destruct (a_st a), st; congruence. Qed.

Lemma le3_process_sys s u e a s' o p :
  RI s -> get s u = Some a -> process_sys roles s u e = (s', o, p) -> le3 s s' o (ex (a_tok a) e).
Proof.
  intros HR Ea. unfold process_sys. rewrite Ea.
  match goal with |- context [if ?d then _ else _] => destruct d end; [intros H; inversion H; subst; eapply le3_weaken; [apply le3_refl|lia]|].
  destruct (e_msg e) eqn:Em.
  - (* SLaunch *) intros H. eapply le3_weaken; [|apply Nat.le_0_l]. revert H. apply bind_le3; [exact HR| | |].
    + intros s1 o1 p1 E. eapply ext_handle; exact E.
    + intros s1 o1 p1 E. eapply le3_handle0; [exact HR|exact E|reflexivity].
    + intros s1 s2 o2 p2 _ H; inversion H; subst. apply le3_quiet; [rewrite Phi_upd_eq by keepphi; lia|reflexivity].
  - intros H. eapply le3_weaken; [|apply Nat.le_0_l]. eapply le3_handle0; [exact HR|exact H|reflexivity].
  - (* STerminate *)
    assert (HT : forall s0, RI s0 -> Phi s0 = Phi s ->
      (handle roles s0 u TT 0 (e_snd e) >>= (fun s3 =>
         match get s3 u with
         | None => ok s3 []
         | Some a3 =>
             let '(s4, o4) := terminate_all s3 (a_tok a3) (a_children a3) (g || a_graceful a3) in
             let '(s5, o5, p) := try_terminated roles s4 u (e_snd e) in (s5, o4 ++ o5, p)
         end)) = (s', o, p) -> le3 s s' o (ex (a_tok a) e)).
    { intros s0 HR0 P0 H. eapply le3_weaken; [|apply Nat.le_0_l]. cut (le3 s0 s' o 0); [unfold le3; lia|]. revert H.
      apply bind_le3; [exact HR0| | |].
      - intros s1 o1 p1 E. eapply ext_handle; exact E.
      - intros s1 o1 p1 E. eapply le3_handle0; [exact HR0|exact E|reflexivity].
      - intros s1 s2 o2 p2 HR1. destruct (get s1 u) as [a3|]; [|intros H; inversion H; subst; apply le3_refl].
        destruct (terminate_all s1 (a_tok a3) (a_children a3) (g || a_graceful a3)) as [s4 o4] eqn:E4.
        destruct (try_terminated roles s4 u (e_snd e)) as [[s5 o5] p5] eqn:E5. intros H; inversion H; subst.
        assert (HR4 : RI s4) by (eapply RI_kr; [exact HR1|eapply keep_terminate_all; exact E4|eapply regsame_terminate_all; exact E4]).
        change 0 with (0 + 0). eapply le3_trans; [apply plain_le3; eapply plain_terminate_all; exact E4|eapply le3_try_terminated; [exact HR4|exact E5]]. }
    destruct (a_st a) eqn:Est; try (intros H; inversion H; subst; eapply le3_weaken; [apply le3_refl|lia]); apply HT.
    + apply RI_deliver_sys. eapply RI_ext; [exact HR|eapply ext_upd_status; [exact Ea|congruence]].
    + rewrite Phi_deliver_plain by exact I. pose proof (Phi_upd s u (w_st Terminating) a Ea) as H. rewrite phi_st in H by congruence. lia.
    + apply RI_deliver_sys. eapply RI_ext; [exact HR|eapply ext_upd_status; [exact Ea|congruence]].
    + rewrite Phi_deliver_plain by exact I. pose proof (Phi_upd s u (w_st Terminating) a Ea) as H. rewrite phi_st in H by congruence. lia.
  - (* STerminatedOf *)
    assert (X : ex (a_tok a) e = b2n (Z.eqb (a_tok a) x) * b2n (Z.eqb who w)) by (unfold ex, isN, isW; rewrite Em; lia).
    rewrite X. clear X.
    assert (P1 : Phi (drop_child s u who) = Phi s).
    { unfold drop_child. destruct (lookup who (registry s)); [reflexivity|]. apply Phi_upd_eq. keepphi. }
    assert (HR1 : RI (drop_child s u who)) by (eapply RI_kr; [exact HR|apply keep_drop_child|apply regsame_drop_child]).
    destruct (keep_drop_child s u who u a Ea) as (a1 & Ea1 & _ & (I1 & _)).
    intros H. cut (le3 (drop_child s u who) s' o (b2n (Z.eqb (a_tok a) x) * b2n (Z.eqb who w) + 0)); [unfold le3; lia|]. revert H.
    apply bind_le3'; [exact HR1| | |].
    + intros s1 o1 p1 E. eapply ext_handle; exact E.
    + intros s1 o1 p1 E. eapply le3_weaken; [eapply le3_handle; [exact HR1|exact Ea1|exact E]|]. rewrite I1. apply hw_to.
    + intros s1 s2 o2 p2 HR2. destruct (get s1 u) as [a2|]; [|intros H; inversion H; subst; apply le3_refl].
      destruct (a_st a2); try (intros H; inversion H; subst; apply le3_refl).
      * apply le3_try_restarted; exact HR2.
      * apply le3_try_terminated; exact HR2.
  - (* SRestart *) destruct (a_st a) eqn:Est; try (intros H; inversion H; subst; eapply le3_weaken; [apply le3_refl|lia]).
    intros H. eapply le3_weaken; [|apply Nat.le_0_l].
    set (s1 := deliver_sys (upd_actor s u (w_st Restarting)) (a_tok a) (a_tok a) SSuspend) in *.
    assert (HR1 : RI s1) by (apply RI_deliver_sys; eapply RI_ext; [exact HR|eapply ext_upd_status; [exact Ea|congruence]]).
    assert (P1 : Phi s1 = Phi s).
    { unfold s1. rewrite Phi_deliver_plain by exact I. pose proof (Phi_upd s u (w_st Restarting) a Ea) as H1. rewrite phi_st in H1 by congruence. lia. }
    cut (le3 s1 s' o 0); [unfold le3; lia|]. revert H. apply bind_le3; [exact HR1| | |].
    + intros s2 o2 p2 E. eapply ext_handle; exact E.
    + intros s2 o2 p2 E. eapply le3_handle0; [exact HR1|exact E|reflexivity].
    + intros s2 s3 o3 p3 HR2. destruct (get s2 u) as [a2|]; [|intros H; inversion H; subst; apply le3_refl].
      destruct (terminate_all s2 (a_tok a2) (a_children a2) false) as [s4 o4] eqn:E4.
      destruct (try_restarted roles s4 u (e_snd e)) as [[s5 o5] p5] eqn:E5. intros H; inversion H; subst.
      assert (HR4 : RI s4) by (eapply RI_kr; [exact HR2|eapply keep_terminate_all; exact E4|eapply regsame_terminate_all; exact E4]).
      change 0 with (0 + 0). eapply le3_trans; [apply plain_le3; eapply plain_terminate_all; exact E4|eapply le3_try_restarted; [exact HR4|exact E5]].
  - (* SAccident *) intros H. eapply le3_weaken; [|apply Nat.le_0_l]. eapply le3_on_accident; [exact HR|exact H].
  - (* SWatch *)
    assert (X : ex (a_tok a) e = b2n (Z.eqb (a_tok a) w) * b2n (Z.eqb (e_snd e) x)) by (unfold ex, isN, isW; rewrite Em; lia).
    rewrite X. clear X.
    destruct (Z.eqb (e_snd e) (a_parent a)) eqn:Esp; [intros H; inversion H; subst; eapply le3_weaken; [apply le3_refl|lia]|].
    destruct (st_ge_terminating (a_st a)) eqn:Esg; intros H; inversion H; subst; apply le3_quiet; try reflexivity.
    + pose proof (Phi_deliver_sys s (e_snd e) (a_tok a) (STerminatedOf (a_tok a)) HR) as D. cbn [dw] in D. revert D. bools.
    + pose proof (Phi_upd s u (fun b => w_watchers (insert_sorted (e_snd e) (a_watchers b)) b) a Ea) as U. cbv beta in U.
      assert (phi (w_watchers (insert_sorted (e_snd e) (a_watchers a)) a) <= phi a + b2n (Z.eqb (a_tok a) w) * b2n (Z.eqb (e_snd e) x)).
      { unfold phi, owe, msgs. cbn [a_st a_tok a_parent a_watchers a_inflight a_sysq w_watchers].
        pose proof (cnt_insert (e_snd e) (a_watchers a)) as CI. destruct (a_st a); try lia;
          destruct (Z.eqb (a_tok a) w); destruct (Z.eqb (a_parent a) x); cbn [b2n] in *; lia. }
      lia.
  - (* SUnwatch *) intros H; inversion H; subst. apply le3_quiet; [|reflexivity].
    pose proof (Phi_upd s u (fun b => w_watchers (remove_ref (e_snd e) (a_watchers b)) b) a Ea) as U. cbv beta in U.
    assert (phi (w_watchers (remove_ref (e_snd e) (a_watchers a)) a) <= phi a).
    { unfold phi, owe, msgs. cbn [a_st a_tok a_parent a_watchers a_inflight a_sysq w_watchers].
      pose proof (cnt_remove (e_snd e) (a_watchers a)) as CR. destruct (a_st a); try lia;
        destruct (Z.eqb (a_tok a) w); destruct (Z.eqb (a_parent a) x); cbn [b2n] in *; lia. }
    lia.
  - intros H; inversion H; subst. eapply le3_weaken; [apply le3_refl|lia].
  - intros H; inversion H; subst. eapply le3_weaken; [apply le3_refl|lia].
  - (* SResumeReq *) destruct (a_st a); intros H; inversion H; subst;
      try (eapply le3_weaken; [apply le3_refl|lia]).
    eapply le3_weaken; [|apply Nat.le_0_l]. apply le3_quiet; [rewrite Phi_deliver_plain by exact I; lia|reflexivity].
Qed.

Lemma le3_process_user s u e s' o p : RI s -> process_user roles s u e = (s', o, p) -> le3 s s' o 0.
Proof.
  intros HR. unfold process_user. destruct (get s u) as [a|] eqn:Ea; [|intros H; inversion H; subst; apply le3_refl].
  destruct (st_ge_terminating (a_st a)).
  - destruct (abyss_user s (e_snd e) (e_rcv e) (e_msg e)) as [s1 o1] eqn:E. intros H; inversion H; subst.
    apply plain_le3. eapply plain_abyss_user; exact E.
  - destruct (e_msg e).
    + intros H. change 0 with (hw (a_tok a) (TP n)). eapply le3_handle_q; [exact HR|exact Ea|exact H].
    + intros H; inversion H; subst. apply le3_quiet; [|reflexivity]. rewrite Phi_deliver_plain by exact I.
      rewrite Phi_upd_eq by keepphi. lia.
    + intros H; inversion H; subst. apply le3_refl.
Qed.

Lemma phi_inflight a m : a_inflight a = Some m ->
  phi a = phi (w_inflight None a) + match m with MS e => ex (a_tok a) e | MU _ => 0 end.
Proof.
  intros Ei. unfold phi, owe, msgs. cbn [a_st a_tok a_parent a_watchers a_inflight a_sysq w_inflight]. rewrite Ei.
  destruct m; cbn [app map list_sum fold_right]; lia.
Qed.

Lemma le3_run_actor s u s' o : RI s -> run_actor roles s u = Some (s', o) -> le3 s s' o 0.
Proof.
  intros HR. unfold run_actor. destruct (get s u) as [a|] eqn:Ea; [|discriminate]. destruct (a_inflight a) as [m|] eqn:Ei; [|discriminate].
  set (s0 := upd_actor s u (w_inflight None)).
  assert (G0 : get s0 u = Some (w_inflight None a)) by (apply get_upd_actor_same; exact Ea).
  assert (HR0 : RI s0) by (eapply RI_kr; [exact HR|apply keep_upd_actor; intros; repeat split|apply regsame_upd_actor]).
  pose proof (Phi_upd s u (w_inflight None) a Ea) as U. fold s0 in U. rewrite (phi_inflight a m Ei) in U.
  assert (M : forall s1 o1 p, (match m with MS e => process_sys roles s0 u e | MU e => process_user roles s0 u e end) = (s1, o1, p) ->
              le3 s s1 o1 0 /\ RI s1).
  { intros s1 o1 p E. destruct m as [e|e].
    - split; [|eapply RI_ext; [exact HR0|eapply ext_process_sys; exact E]].
      pose proof (le3_process_sys _ _ _ _ _ _ _ HR0 G0 E) as L. cbn [a_tok w_inflight] in L. unfold le3 in *. lia.
    - split; [|eapply RI_ext; [exact HR0|eapply ext_process_user; exact E]].
      pose proof (le3_process_user _ _ _ _ _ _ HR0 E) as L. unfold le3 in *. lia. }
  destruct (match m with MS e => process_sys roles s0 u e | MU e => process_user roles s0 u e end) as [[s1 o1] p] eqn:E.
  destruct (M _ _ _ eq_refl) as (L1 & HR1).
  destruct p; [|intros H; inversion H; subst; exact L1].
  destruct (crashed s1); [intros H; inversion H; subst; exact L1|].
  destruct (report_abnormal roles s1 u) as [[s2 o2] p2] eqn:E2. intros H; inversion H; subst.
  change 0 with (0 + 0). eapply le3_trans; [exact L1|apply plain_le3; eapply plain_report_abnormal; exact E2].
Qed.

Lemma phi_pop1 a : phi (pop1 a) = phi a.
Proof.
  unfold phi, owe. rewrite msgs_pop1, pop1_watchers, pop1_st. destruct (pop1_id a) as (I1 & I2 & _). rewrite I1, I2. reflexivity.
Qed.
Lemma Phi_normalize s : Phi (normalize s) = Phi s.
Proof.
  unfold Phi, normalize, set_actors; cbn [actors]. rewrite map_map. f_equal. apply map_ext. intros a. apply phi_pop1.
Qed.

Theorem kstep_notices s l s' o : RI s -> kstep roles s l = Some (s', o) -> le3 s s' o 0.
Proof.
  intros HR. destruct l; cbn [kstep].
  - destruct (run_actor roles s (Z.to_nat u)) as [[s1 o1]|] eqn:E; [|discriminate]. intros H; inversion H; subst.
    apply le3_run_actor in E; [|exact HR]. unfold le3 in *. rewrite Phi_normalize. exact E.
  - destruct (next_serial s) as [s1 k] eqn:En. destruct (deliver_user s1 t rNone (UProbe n k)) as [s2 o2] eqn:E.
    intros H; inversion H; subst. apply plain_deliver_user in E. destruct E as (E1 & E2 & E3).
    assert (Phi s1 = Phi s) by (change s1 with (fst (s1, k)); rewrite <- En; reflexivity).
    unfold le3. rewrite Phi_normalize, hc_cons, bc_cons. cbn [h1 b1]. lia.
  - destruct (next_serial s) as [s1 k] eqn:En. destruct (deliver_user s1 t rGuard (UProbe n k)) as [s2 o2] eqn:E.
    intros H; inversion H; subst. apply plain_deliver_user in E. destruct E as (E1 & E2 & E3).
    assert (Phi s1 = Phi s) by (change s1 with (fst (s1, k)); rewrite <- En; reflexivity).
    unfold le3. rewrite Phi_normalize, hc_cons, bc_cons. cbn [h1 b1]. lia.
  - destruct (terminate s rGuard t g) as [s1 o1] eqn:E. intros H; inversion H; subst.
    apply plain_terminate in E. destruct E as (E1 & E2 & E3). unfold le3. rewrite Phi_normalize, hc_cons, bc_cons. cbn [h1 b1]. lia.
  - destruct (spawn s guard_uid rGuard t r) as [[s1 o1] p1] eqn:E. intros H; inversion H; subst.
    apply spawn_Phi in E. destruct E as (E1 & E2). unfold le3. rewrite Phi_normalize, hc_cons, bc_cons, hc_app. cbn [h1 b1].
    assert (hc (if p1 then [OXs rGuard t] else []) = 0) by (destruct p1; reflexivity). lia.
  - destruct (terminate s rGuard rGuard g) as [s1 o1] eqn:E. intros H; inversion H; subst.
    apply plain_terminate in E. destruct E as (E1 & E2 & E3). unfold le3. rewrite Phi_normalize. lia.
  - intros H; inversion H; subst. apply le3_quiet; [lia|reflexivity].
Qed.

Theorem krun_notices ls : forall s s' os, RI s -> krun roles s ls = Some (s', os) -> le3 s s' (concat os) 0.
Proof.
  induction ls as [|l t IH]; intros s s' os HR; cbn [krun].
  - intros H; inversion H; subst. apply le3_refl.
  - destruct (kstep roles s l) as [[s1 o]|] eqn:E; [|discriminate].
    destruct (krun roles s1 t) as [[s2 os2]|] eqn:E2; [|discriminate]. intros H; inversion H; subst.
    cbn [concat]. change 0 with (0 + 0). eapply le3_trans; [eapply kstep_notices; [exact HR|exact E]|].
    eapply IH; [|exact E2]. eapply RI_ext; [exact HR|eapply kstep_ext; exact E].
Qed.

Lemma Phi_init : Phi kinit = b2n (Z.eqb rNone x && Z.eqb rGuard w) + b2n (Z.eqb rGuard x && Z.eqb rSub w).
Proof.
  unfold Phi, kinit, phi, owe, msgs; cbn [actors map a_inflight a_sysq a_st a_tok a_parent a_watchers app list_sum fold_right cnt].
  change (Z.eqb rNone x) with (Z.eqb rNone x). unfold b2n.
  destruct (Z.eqb rGuard w); destruct (Z.eqb rNone x); destruct (Z.eqb rSub w); destruct (Z.eqb rGuard x); cbn [andb]; lia.
Qed.

End N.

(* C06, no duplicate: along every run from the freshly started system, address x handles OnTerminated(w) at most once per
   Watch request it issued for w and per actor object it created at address w (the two objects that exist before the run starts
   account for the constants: the guard /user, child of nobody, and the subscription actor /user/sub, child of the guard) *)
Theorem at_most_one_per_entitlement roles ls s' os x w :
  krun roles kinit ls = Some (s', os) ->
  hc x w (concat os) <= bc x w (concat os) + b2n (Z.eqb rNone x && Z.eqb rGuard w) + b2n (Z.eqb rGuard x && Z.eqb rSub w).
Proof.
  intros H. pose proof (krun_notices roles x w ls kinit s' os RI_init H) as L. unfold le3 in L. rewrite Phi_init in L. lia.
Qed.

(* the same with plain counts over the trace, for user addresses (w >= 0: neither /user nor /user/sub) *)
Definition n_handled (x w : ref) (o : list obs) : nat :=
  length (filter (fun ob => match ob with OH a _ (TTO t) _ _ => Z.eqb a x && Z.eqb t w | _ => false end) o).
Definition n_watch (x w : ref) (o : list obs) : nat :=
  length (filter (fun ob => match ob with OW a t => Z.eqb a x && Z.eqb t w | _ => false end) o).
Definition n_spawn (x w : ref) (o : list obs) : nat :=
  length (filter (fun ob => match ob with OSp a t => Z.eqb a x && Z.eqb t w | _ => false end) o).

Lemma hc_count x w o : hc x w o = n_handled x w o.
Proof.
  unfold n_handled. induction o as [|ob t IH]; [reflexivity|]. rewrite hc_cons, IH. cbn [filter].
  destruct ob as [a i tg k sd| | | | | | | | | | | |]; try reflexivity. destruct tg as [| | | | |t'|]; try reflexivity. cbn [h1]. destruct (Z.eqb a x && Z.eqb t' w); reflexivity.
Qed.
Lemma bc_count x w o : bc x w o = n_watch x w o + n_spawn x w o.
Proof.
  unfold n_watch, n_spawn. induction o as [|ob t IH]; [reflexivity|]. rewrite bc_cons, IH. cbn [filter].
  destruct ob as [| | |a t'|a t' g|a t'| | | | | | |]; try reflexivity; cbn [b1]; destruct (Z.eqb a x && Z.eqb t' w); cbn [b2n length]; lia.
Qed.

Theorem no_duplicate_notice roles ls s' os x w :
  (0 <= w)%Z -> krun roles kinit ls = Some (s', os) ->
  n_handled x w (concat os) <= n_watch x w (concat os) + n_spawn x w (concat os).
Proof.
  intros Hw H. pose proof (at_most_one_per_entitlement roles ls s' os x w H) as L. rewrite hc_count, bc_count in L.
  assert (Z.eqb rGuard w = false) by (apply Z.eqb_neq; unfold rGuard; lia).
  assert (Z.eqb rSub w = false) by (apply Z.eqb_neq; unfold rSub; lia).
  rewrite H0, H1, !Bool.andb_false_r in L. cbn [b2n] in L. lia.
Qed.
