(* MV.Kernel.Terminate — C03, "OnTerminate is handled before the incarnation's own OnTerminated": for every role table and every
   run from the freshly started system, an incarnation (address t, instance i) of a non-system actor whose status becomes
   Terminated in a step — the step that handles its own OnTerminated — has handled OnTerminate before: in an earlier step of the
   run, or earlier in the same step (a termination that finds no child completes within the step that handles OnTerminate).
   Invariant TI (relative to the trace so far): every object is a system actor, or is not Terminating, or its current incarnation
   has handled OnTerminate. The running object is followed through processMessage ([sys_status]: the status reaches
   Terminating only by processing the terminate request, which handles OnTerminate at once with the unchanged instance number;
   from Terminating it can only go to Terminated, again with the same instance number); the other objects keep status and instance
   (Launch.Gx); objects created in the step are alive or terminated.
   (The restart's OnTerminate / OnTerminated pair is Kernel.Restart.restart_shape: one step, in this order.) *)
From MV Require Import Lib.ListX Kernel.Model Kernel.Lifecycle Kernel.Status Kernel.Registry Kernel.Suspend Kernel.Frame Kernel.FrameU Kernel.FrameG Kernel.Queue Kernel.Watch Kernel.Launch Kernel.Restart.
Open Scope Z_scope.

Definition tt_seen (tr : list obs) (t : ref) (i : nat) : Prop := exists sn sd, In (OH t i TT sn sd) tr.
Lemma tt_seen_app tr o t i : tt_seen tr t i -> tt_seen (tr ++ o) t i.
Proof. intros (sn & sd & H). exists sn, sd. apply in_or_app. left. exact H. Qed.
Lemma tt_seen_app_r tr o t i : tt_seen o t i -> tt_seen (tr ++ o) t i.
Proof. intros (sn & sd & H). exists sn, sd. apply in_or_app. right. exact H. Qed.

Definition TIa (tr : list obs) (a : actor) : Prop :=
  is_sys (a_tok a) = true \/ a_st a <> Terminating \/ tt_seen tr (a_tok a) (a_inst a).
Definition TI (tr : list obs) (s : kstate) : Prop := forall u a, get s u = Some a -> TIa tr a.

Section T.
Variable roles : list role.

(* identity, instance number and status of the running object after a handler call / a quiet operation *)
Lemma obj_handle s u a tr k snd s' o p :
  get s u = Some a -> handle roles s u tr k snd = (s', o, p) ->
  exists a', get s' u = Some a' /\ a_tok a' = a_tok a /\ a_inst a' = a_inst a /\ a_st a' = a_st a.
Proof. apply handle_keeps_obj. Qed.

Definition same3 (a a' : actor) : Prop := a_tok a' = a_tok a /\ a_inst a' = a_inst a /\ a_st a' = a_st a.
Lemma same3_refl a : same3 a a. Proof. repeat split. Qed.
Lemma same3_trans a b c : same3 a b -> same3 b c -> same3 a c.
Proof. intros (A1 & A2 & A3) (B1 & B2 & B3). repeat split; congruence. Qed.

(* keep (status, address) + idf (address, instance) of the running object *)
Lemma obj_of s s' u a : keep s s' -> idf s s' -> get s u = Some a -> exists a', get s' u = Some a' /\ same3 a a'.
Proof.
  intros K F Ha. destruct (K u a Ha) as (a' & G & S & _). destruct (F u a Ha) as (a'' & G' & [T I]). rewrite G in G'. inversion G'; subst a''.
  exists a'. repeat split; assumption.
Qed.

Lemma obj_try_terminated s u a snd s' o p :
  get s u = Some a -> try_terminated roles s u snd = (s', o, p) ->
  exists a', get s' u = Some a' /\ a_tok a' = a_tok a /\ a_inst a' = a_inst a /\
    (a_st a' = a_st a \/ (a_st a = Terminating /\ a_st a' = Terminated)).
Proof.
  intros Ha H. destruct (idf_get u s s' a (id_try_terminated roles u s snd s' o p H) Ha) as (a' & G & T & I).
  exists a'. split; [exact G|]. split; [exact T|]. split; [exact I|].
  revert H. unfold try_terminated. rewrite Ha.
  destruct (a_children a); [|intros H; inversion H; subst; rewrite Ha in G; inversion G; subst; left; reflexivity].
  destruct (a_st a) eqn:Est; try (intros H; inversion H; subst; rewrite Ha in G; inversion G; subst; left; congruence).
  intros H. right. split; [reflexivity|].
  pose proof (mono_try_terminated roles s u snd s' o p) as M.
  (* the status was set to Terminated before the handler ran, and is final *)
  set (s1 := upd_actor s u (w_st Terminated)) in *.
  assert (G1 : get s1 u = Some (w_st Terminated a)) by (apply get_upd_actor_same; exact Ha).
  assert (M1 : mono s1 s').
  { revert H. apply (bind_rel mono); [apply mono_trans| |].
    - intros sa oa pa E. apply keep_mono. eapply keep_handle; exact E.
    - intros sa sb ob pb. set (sr := set_registry sa (remove_key (a_tok a) (registry sa))).
      set (sn := notify_all sr (a_tok a) (filter (fun w0 => negb (w0 =? a_parent a)) (a_watchers a))).
      assert (Kn : keep sa sn) by (eapply keep_trans; [apply keep_set_registry|apply keep_notify_all]).
      destruct (a_parent a =? rNone); intros H; inversion H; subst; apply keep_mono.
      + eapply keep_trans; [exact Kn|apply keep_same_actors; reflexivity].
      + eapply keep_trans; [exact Kn|apply keep_deliver_sys]. }
  destruct (M1 u _ G1) as (a2 & G2 & S2 & _). rewrite G in G2. inversion G2; subst a2. apply S2. reflexivity.
Qed.

Lemma obj_start_instance s u a self parent s' o p :
  get s u = Some a -> start_instance roles s u self parent = (s', o, p) -> exists a', get s' u = Some a' /\ same3 a a'.
Proof.
  intros Ha. unfold start_instance. destruct (handle roles s u TRD 0%nat self) as [[s1 o1] p1] eqn:E1.
  destruct (obj_handle _ _ _ _ _ _ _ _ _ Ha E1) as (a1 & G1 & T1 & I1 & S1).
  destruct (handle roles s1 u TL 0%nat parent) as [[s2 o2] p2] eqn:E2.
  destruct (obj_handle _ _ _ _ _ _ _ _ _ G1 E2) as (a2 & G2 & T2 & I2 & S2). intros H; inversion H; subst.
  destruct p2.
  - exists a2. split; [exact G2|]. repeat split; congruence.
  - eexists. split; [apply get_upd_actor_same; exact G2|]. unfold same3. cbn [a_tok a_inst a_st w_accidents]. repeat split; congruence.
Qed.

Lemma obj_try_restarted s u a snd s' o p :
  get s u = Some a -> try_restarted roles s u snd = (s', o, p) ->
  exists a', get s' u = Some a' /\ a_tok a' = a_tok a /\
    ((a_inst a' = a_inst a /\ a_st a' = a_st a) \/ (a_st a = Restarting /\ a_st a' = Alive)).
Proof.
  intros Ha. unfold try_restarted. rewrite Ha.
  assert (Q : forall x y z, (s, x, y) = (s', o, p) -> z = a -> exists a', get s' u = Some a' /\ a_tok a' = a_tok a /\
    ((a_inst a' = a_inst a /\ a_st a' = a_st a) \/ (a_st a = Restarting /\ a_st a' = Alive))).
  { intros x y z H _. inversion H; subst. exists a. split; [exact Ha|]. split; [reflexivity|left; split; reflexivity]. }
  destruct (a_children a); [|intros H; eapply Q; [exact H|reflexivity]].
  destruct (a_st a) eqn:Est; try (intros H; eapply Q; [exact H|reflexivity]).
  destruct (provide s (a_tok a)) as [s0 inst] eqn:Ep.
  assert (G0 : get s0 u = Some a) by (unfold provide in Ep; inversion Ep; subst; exact Ha).
  destruct (handle roles s0 u TT 0%nat snd) as [[s1 o1] p1] eqn:E1.
  destruct (obj_handle _ _ _ _ _ _ _ _ _ G0 E1) as (a1 & G1 & T1 & I1 & S1). unfold bind at 1. destruct p1.
  - intros H; inversion H; subst. exists a1. split; [exact G1|]. split; [exact T1|]. left. split; congruence.
  - destruct (handle roles s1 u TTS 0%nat snd) as [[s2 o2] p2] eqn:E2.
    destruct (obj_handle _ _ _ _ _ _ _ _ _ G1 E2) as (a2 & G2 & T2 & I2 & S2). unfold bind. destruct p2.
    + intros H; inversion H; subst. exists a2. split; [exact G2|]. split; [congruence|]. left. split; congruence.
    + set (s4 := upd_actor s2 u (fun b => w_st Alive (w_inst inst b))).
      assert (G4 : get s4 u = Some (w_st Alive (w_inst inst a2))) by (exact (get_upd_actor_same s2 u (fun b => w_st Alive (w_inst inst b)) a2 G2)).
      destruct (obj_of _ _ u _ (keep_deliver_sys s4 (a_tok a) (a_tok a) SResume) (id_deliver_sys s4 (a_tok a) (a_tok a) SResume) G4) as (a5 & G5 & T5 & I5 & S5).
      destruct (start_instance roles (deliver_sys s4 (a_tok a) (a_tok a) SResume) u (a_tok a) (a_parent a)) as [[s9 o9] p9] eqn:E9.
      destruct (obj_start_instance _ _ _ _ _ _ _ _ G5 E9) as (a9 & G9 & T9 & I9 & S9).
      intros H; inversion H; subst. exists a9. split; [exact G9|]. cbn [a_tok a_st w_st w_inst] in T5, S5.
      split; [congruence|]. right. split; [reflexivity|congruence].
Qed.

(* what one system message does to the running object's status and instance number *)
Definition ev (a a' : actor) (o : list obs) : Prop :=
  a_tok a' = a_tok a /\
  ((a_st a' = a_st a /\ a_inst a' = a_inst a)
   \/ st_ge_terminating (a_st a') = false
   \/ (st_ge_terminating (a_st a) = false /\ st_ge_terminating (a_st a') = true /\ a_inst a' = a_inst a /\ tt_seen o (a_tok a) (a_inst a))
   \/ (a_st a = Terminating /\ a_st a' = Terminated /\ a_inst a' = a_inst a)).

Lemma ev_same a a' o : same3 a a' -> ev a a' o.
Proof. intros (T & I & S). split; [exact T|left; auto]. Qed.
(* a quiet, identity-keeping prefix *)
Lemma ev_pre a a1 a' o1 o2 : same3 a a1 -> ev a1 a' o2 -> ev a a' (o1 ++ o2).
Proof.
  intros (T & I & S) [T' E]. split; [congruence|]. destruct E as [[E1 E2]|[E|[(E1 & E2 & E3 & E4)|(E1 & E2 & E3)]]].
  - left. split; congruence.
  - right. left. exact E.
  - right. right. left. rewrite S in E1. split; [exact E1|]. split; [exact E2|]. split; [congruence|]. rewrite T, I in E4. apply tt_seen_app_r. exact E4.
  - right. right. right. split; [congruence|]. split; [exact E2|congruence].
Qed.
Lemma ev_nil a a' o : ev a a' o -> ev a a' (o ++ []).
Proof. rewrite app_nil_r. auto. Qed.

Lemma obj_q s s' u a : keep s s' -> idf s s' -> get s u = Some a -> exists a', get s' u = Some a' /\ same3 a a'.
Proof. apply obj_of. Qed.

Ltac idfr L := unfold idf; eapply L; try exact ID_refl; try exact ID_trans; try (intros; split; reflexivity); try eassumption.

Lemma ev_try_terminated s u a snd s' o p : get s u = Some a -> try_terminated roles s u snd = (s', o, p) -> exists a', get s' u = Some a' /\ ev a a' o.
Proof.
  intros Ha H. destruct (obj_try_terminated _ _ _ _ _ _ _ Ha H) as (a' & G & T & I & [S|[S1 S2]]); exists a'; (split; [exact G|]); (split; [exact T|]).
  - left. auto.
  - right. right. right. auto.
Qed.
Lemma ev_try_restarted s u a snd s' o p : get s u = Some a -> try_restarted roles s u snd = (s', o, p) -> exists a', get s' u = Some a' /\ ev a a' o.
Proof.
  intros Ha H. destruct (obj_try_restarted _ _ _ _ _ _ _ Ha H) as (a' & G & T & [[I S]|[S1 S2]]); exists a'; (split; [exact G|]); (split; [exact T|]).
  - left. auto.
  - right. left. rewrite S2. reflexivity.
Qed.

Lemma ev_apply_directive s u a r d snd s' o p : get s u = Some a -> apply_directive roles s u r d snd = (s', o, p) -> exists a', get s' u = Some a' /\ ev a a' o.
Proof.
  intros Ha. unfold apply_directive. rewrite Ha.
  assert (Q : forall x, keep s x -> idf s x -> exists a', get x u = Some a' /\ ev a a' o).
  { intros x K F. destruct (obj_of _ _ u a K F Ha) as (a' & G & S3). exists a'. split; [exact G|apply ev_same; exact S3]. }
  destruct d.
  - intros H; inversion H; subst. apply Q; [apply keep_deliver_sys|apply id_deliver_sys].
  - destruct (terminate s (a_tok a) (ar_vref r) false) as [s1 o1] eqn:E1.
    destruct (try_terminated roles s1 u snd) as [[s2 o2] p2] eqn:E2. intros H; inversion H; subst.
    assert (F1 : idf s s1) by (idfr (FrameU.fr_terminate IDa)).
    destruct (obj_of _ _ u a (keep_terminate _ _ _ _ _ _ E1) F1 Ha) as (a1 & G1 & S1).
    destruct (ev_try_terminated _ _ _ _ _ _ _ G1 E2) as (a2 & G2 & V2). exists a2. split; [exact G2|].
    change (ODec (a_tok a) (ar_vref r) DStop (match get s (ar_victim r) with Some v => a_accidents v | None => 0%nat end) :: o1 ++ o2)
      with (([ODec (a_tok a) (ar_vref r) DStop (match get s (ar_victim r) with Some v => a_accidents v | None => 0%nat end)] ++ o1) ++ o2).
    eapply ev_pre; [exact S1|exact V2].
  - intros H; inversion H; subst. apply Q; [apply keep_deliver_sys|apply id_deliver_sys].
  - destruct (escalate s u r) as [[s1 o1] p1] eqn:E. intros H; inversion H; subst. apply Q; [eapply keep_escalate; exact E|idfr (FrameU.fr_escalate IDa)].
  - intros H; inversion H; subst. apply Q; [apply keep_restart_all|idfr (FrameU.fr_restart_all IDa)].
Qed.

Lemma ev_on_accident s u a r snd s' o p : get s u = Some a -> on_accident roles s u r snd = (s', o, p) -> exists a', get s' u = Some a' /\ ev a a' o.
Proof.
  intros Ha. unfold on_accident. rewrite Ha. destruct (ar_strategy r); [apply ev_apply_directive; exact Ha|].
  destruct (sup (role_of roles a)); [|apply ev_apply_directive; exact Ha].
  intros H. destruct (obj_of _ _ u a (keep_escalate _ _ _ _ _ _ H) ltac:(idfr (FrameU.fr_escalate IDa)) Ha) as (a' & G & S3).
  exists a'. split; [exact G|apply ev_same; exact S3].
Qed.

Lemma ev_process_sys s u a e s' o p :
  get s u = Some a -> is_sys (a_tok a) = false -> process_sys roles s u e = (s', o, p) -> exists a', get s' u = Some a' /\ ev a a' o.
Proof.
  intros Ha Hs. unfold process_sys. rewrite Ha.
  assert (Q0 : exists a', get s u = Some a' /\ ev a a' []) by (exists a; split; [exact Ha|apply ev_same, same3_refl]).
  assert (Q : forall x o', keep s x -> idf s x -> exists a', get x u = Some a' /\ ev a a' o').
  { intros x o' K F. destruct (obj_of _ _ u a K F Ha) as (a' & G & S3). exists a'. split; [exact G|apply ev_same; exact S3]. }
  match goal with |- context [if ?d then _ else _] => destruct d end; [intros H; inversion H; subst; exact Q0|].
  destruct (e_msg e) as [| |g|who| |r| | | | |].
  - (* SLaunch *) destruct (handle roles s u TL 0%nat (e_snd e)) as [[s1 o1] p1] eqn:E1.
    destruct (obj_handle _ _ _ _ _ _ _ _ _ Ha E1) as (a1 & G1 & T1 & I1 & S1). unfold bind. destruct p1.
    + intros H; inversion H; subst. exists a1. split; [exact G1|apply ev_same; repeat split; assumption].
    + intros H; inversion H; subst. eexists. split; [apply get_upd_actor_same; exact G1|]. apply ev_same. unfold same3. cbn [a_tok a_inst a_st w_accidents]. auto.
  - (* SRestarted *) intros H. destruct (obj_handle _ _ _ _ _ _ _ _ _ Ha H) as (a1 & G1 & T1 & I1 & S1). exists a1. split; [exact G1|apply ev_same; repeat split; assumption].
  - (* STerminate *)
    assert (HT : st_ge_terminating (a_st a) = false ->
      (handle roles (deliver_sys (upd_actor s u (w_st Terminating)) (a_tok a) (a_tok a) SResume) u TT 0 (e_snd e) >>= (fun s3 =>
         match get s3 u with
         | None => ok s3 []
         | Some a3 =>
             let '(s4, o4) := terminate_all s3 (a_tok a3) (a_children a3) (g || a_graceful a3) in
             let '(s5, o5, p) := try_terminated roles s4 u (e_snd e) in (s5, o4 ++ o5, p)
         end)) = (s', o, p) -> exists a', get s' u = Some a' /\ ev a a' o).
    { intros Hpre H. set (s1 := upd_actor s u (w_st Terminating)) in *.
      assert (G1 : get s1 u = Some (w_st Terminating a)) by (apply get_upd_actor_same; exact Ha).
      destruct (obj_of _ _ u _ (keep_deliver_sys s1 (a_tok a) (a_tok a) SResume) (id_deliver_sys s1 (a_tok a) (a_tok a) SResume) G1) as (a2 & G2 & T2 & I2 & S2).
      cbn [a_tok a_inst a_st w_st] in T2, I2, S2.
      destruct (handle roles (deliver_sys s1 (a_tok a) (a_tok a) SResume) u TT 0 (e_snd e)) as [[s3 o3] p3] eqn:E3.
      assert (Hs2 : is_sys (a_tok a2) = false) by (rewrite T2; exact Hs).
      destruct (handle_emits roles _ u a2 TT 0%nat (e_snd e) s3 o3 p3 G2 Hs2 E3) as (o3' & Eo3).
      destruct (obj_handle _ _ _ _ _ _ _ _ _ G2 E3) as (a3 & G3 & T3 & I3 & S3).
      assert (TT3 : tt_seen o3 (a_tok a) (a_inst a)) by (rewrite Eo3, T2, I2; exists 0%nat, rNone; left; reflexivity).
      unfold bind in H. destruct p3.
      - inversion H; subst. exists a3. split; [exact G3|]. split; [congruence|]. right. right. left.
        split; [exact Hpre|]. split; [rewrite S3, S2; reflexivity|]. split; [congruence|exact TT3].
      - rewrite G3 in H. destruct (terminate_all s3 (a_tok a3) (a_children a3) (g || a_graceful a3)) as [s4 o4] eqn:E4.
        destruct (try_terminated roles s4 u (e_snd e)) as [[s5 o5] p5] eqn:E5. inversion H; subst.
        destruct (obj_of _ _ u a3 (keep_terminate_all _ _ _ _ _ _ E4) (id_terminate_all _ _ _ _ _ _ E4) G3) as (a4 & G4 & T4 & I4 & S4).
        destruct (obj_try_terminated _ _ _ _ _ _ _ G4 E5) as (a5 & G5 & T5 & I5 & S5).
        exists a5. split; [exact G5|]. split; [congruence|]. right. right. left.
        split; [exact Hpre|]. split; [|split; [congruence|apply tt_seen_app; exact TT3]].
        destruct S5 as [S5|[_ S5]]; [rewrite S5, S4, S3, S2; reflexivity|rewrite S5; reflexivity]. }
    destruct (a_st a) eqn:Est; try (intros H; inversion H; subst; exact Q0); apply HT; reflexivity.
  - (* STerminatedOf *)
    destruct (obj_of _ _ u a (keep_drop_child s u who) (id_drop_child u s who) Ha) as (ad & Gd & Sd).
    destruct (handle roles (drop_child s u who) u (if who =? a_tok a then TTS else TTO who) 0 (e_snd e)) as [[s1 o1] p1] eqn:E1.
    destruct (obj_handle _ _ _ _ _ _ _ _ _ Gd E1) as (a1 & G1 & T1 & I1 & S1).
    assert (S01 : same3 a a1) by (eapply same3_trans; [exact Sd|repeat split; assumption]).
    unfold bind. destruct p1; [intros H; inversion H; subst; exists a1; split; [exact G1|apply ev_same; exact S01]|].
    rewrite G1. destruct (a_st a1) eqn:Est1.
    + intros H; inversion H; subst. exists a1. split; [exact G1|apply ev_same; exact S01].
    + destruct (try_restarted roles s1 u (e_snd e)) as [[s2 o2] p2] eqn:E2. intros H; inversion H; subst.
      destruct (ev_try_restarted _ _ _ _ _ _ _ G1 E2) as (a2 & G2 & V2). exists a2. split; [exact G2|eapply ev_pre; eassumption].
    + destruct (try_terminated roles s1 u (e_snd e)) as [[s2 o2] p2] eqn:E2. intros H; inversion H; subst.
      destruct (ev_try_terminated _ _ _ _ _ _ _ G1 E2) as (a2 & G2 & V2). exists a2. split; [exact G2|eapply ev_pre; eassumption].
    + intros H; inversion H; subst. exists a1. split; [exact G1|apply ev_same; exact S01].
  - (* SRestart *) destruct (a_st a) eqn:Est; try (intros H; inversion H; subst; exact Q0).
    set (s0 := upd_actor s u (w_st Restarting)).
    assert (G0 : get s0 u = Some (w_st Restarting a)) by (apply get_upd_actor_same; exact Ha).
    destruct (obj_of _ _ u _ (keep_deliver_sys s0 (a_tok a) (a_tok a) SSuspend) (id_deliver_sys s0 (a_tok a) (a_tok a) SSuspend) G0) as (a1 & G1 & T1 & I1 & S1).
    cbn [a_tok a_inst a_st w_st] in T1, I1, S1.
    destruct (handle roles (deliver_sys s0 (a_tok a) (a_tok a) SSuspend) u TRG 0 (e_snd e)) as [[s2 o2] p2] eqn:E2.
    destruct (obj_handle _ _ _ _ _ _ _ _ _ G1 E2) as (a2 & G2 & T2 & I2 & S2). unfold bind. destruct p2.
    + intros H; inversion H; subst. exists a2. split; [exact G2|]. split; [congruence|]. right. left. rewrite S2, S1. reflexivity.
    + rewrite G2. destruct (terminate_all s2 (a_tok a2) (a_children a2) false) as [s3 o3] eqn:E3.
      destruct (try_restarted roles s3 u (e_snd e)) as [[s4 o4] p4] eqn:E4. intros H; inversion H; subst.
      destruct (obj_of _ _ u a2 (keep_terminate_all _ _ _ _ _ _ E3) (id_terminate_all _ _ _ _ _ _ E3) G2) as (a3 & G3 & T3 & I3 & S3).
      destruct (obj_try_restarted _ _ _ _ _ _ _ G3 E4) as (a4 & G4 & T4 & D4).
      exists a4. split; [exact G4|]. split; [congruence|]. right. left.
      destruct D4 as [[_ S4]|[_ S4]]; [rewrite S4, S3, S2, S1; reflexivity|rewrite S4; reflexivity].
  - (* SAccident *) apply ev_on_accident. exact Ha.
  - (* SWatch *) destruct (e_snd e =? a_parent a); [intros H; inversion H; subst; exact Q0|].
    destruct (st_ge_terminating (a_st a)); intros H; inversion H; subst.
    + apply Q; [apply keep_deliver_sys|apply id_deliver_sys].
    + apply Q; [apply keep_upd_actor; kp|apply id_upd; intros b; split; reflexivity].
  - (* SUnwatch *) intros H; inversion H; subst. apply Q; [apply keep_upd_actor; kp|apply id_upd; intros b; split; reflexivity].
  - intros H; inversion H; subst; exact Q0.
  - intros H; inversion H; subst; exact Q0.
  - (* SResumeReq *) destruct (a_st a); intros H; inversion H; subst; try exact Q0. apply Q; [apply keep_deliver_sys|apply id_deliver_sys].
Qed.

Lemma ev_post a a1 a2 o1 o2 : ev a a1 o1 -> same3 a1 a2 -> ev a a2 (o1 ++ o2).
Proof.
  intros [T E] (T2 & I2 & S2). split; [congruence|]. destruct E as [[E1 E2]|[E|[(E1 & E2 & E3 & E4)|(E1 & E2 & E3)]]].
  - left. split; congruence.
  - right. left. rewrite S2. exact E.
  - right. right. left. split; [exact E1|]. split; [rewrite S2; exact E2|]. split; [congruence|apply tt_seen_app; exact E4].
  - right. right. right. split; [exact E1|]. split; [congruence|congruence].
Qed.

Lemma ev_run_inner s0 u a m s1 o1 :
  get s0 u = Some a -> is_sys (a_tok a) = false -> Frame.run_inner roles s0 u m = (s1, o1) -> exists a1, get s1 u = Some a1 /\ ev a a1 o1.
Proof.
  intros Ha Hs. unfold Frame.run_inner.
  destruct (match m with MS e => process_sys roles s0 u e | MU e => process_user roles s0 u e end) as [[sx ox] px] eqn:E.
  assert (V : exists ax, get sx u = Some ax /\ ev a ax ox).
  { destruct m as [e|e]; [eapply ev_process_sys; eassumption|].
    destruct (obj_of _ _ u a (keep_process_user roles _ _ _ _ _ _ E) (id_process_user roles u _ _ _ _ _ E) Ha) as (ax & Gx & Sx).
    exists ax. split; [exact Gx|apply ev_same; exact Sx]. }
  destruct V as (ax & Gx & Vx). destruct px; [|intros H; inversion H; subst; exists ax; auto].
  destruct (crashed sx); [intros H; inversion H; subst; exists ax; auto|].
  destruct (report_abnormal roles sx u) as [[sy oy] py] eqn:Ey. intros H; inversion H; subst.
  destruct (obj_of _ _ u ax (keep_report_abnormal roles _ _ _ _ _ Ey) (id_report_abnormal roles u _ _ _ _ Ey) Gx) as (ay & Gy & Sy).
  exists ay. split; [exact Gy|eapply ev_post; eassumption].
Qed.

(* ---------- the invariant through a step ---------- *)
Definition TI' (tr : list obs) (s : kstate) : Prop := TI tr s /\ exists g, get s guard_uid = Some g /\ a_tok g = rGuard.

Lemma pop1_inst a : a_inst (pop1 a) = a_inst a.
Proof. unfold pop1. destruct (a_inflight a); [reflexivity|]. destruct (a_sysq a); [|reflexivity]. destruct (a_susp a); [reflexivity|]. destruct (a_userq a); reflexivity. Qed.
Lemma TIa_pop1 tr a : TIa tr a -> TIa tr (pop1 a).
Proof. unfold TIa. destruct (pop1_id a) as (T & _). rewrite T, pop1_st, pop1_inst. auto. Qed.
Lemma TI_normalize tr s : TI tr s -> TI tr (normalize s).
Proof.
  intros H u a Hg. rewrite get_normalize' in Hg. destruct (get s u) as [b|] eqn:E; [|discriminate]. inversion Hg; subst. apply TIa_pop1. eapply H; exact E.
Qed.
Lemma TIa_RL u0 tr o v a a' : v <> u0 -> RLa u0 v a a' -> TIa tr a -> TIa (tr ++ o) a'.
Proof.
  intros Hv [T H] L. destruct (H Hv) as (I & _ & _ & S). unfold TIa. rewrite T, I, S.
  destruct L as [L|[L|L]]; [left; exact L|right; left; exact L|right; right; apply tt_seen_app; exact L].
Qed.
Lemma TI_frame tr o s s1 u0 : Gx u0 s s1 -> TI tr s -> (forall a', get s1 u0 = Some a' -> TIa (tr ++ o) a') -> TI (tr ++ o) s1.
Proof.
  intros [A B] H Hu v a' Hg. destruct (Nat.eq_dec v u0) as [->|Hv]; [apply Hu; exact Hg|].
  destruct (B v a' Hg Hv) as [Hlt|Hp].
  - destruct (get_of_lt' s v Hlt) as (a & Ha). destruct (A v a Ha) as (a2 & G2 & R2). rewrite Hg in G2. inversion G2; subst a2.
    eapply TIa_RL; [exact Hv|exact R2|eapply H; exact Ha].
  - right. left. destruct Hp as [[_ Hp]|Hp]; rewrite Hp; discriminate.
Qed.

(* what a step can say about an object whose status becomes Terminated *)
Definition became (tr : list obs) (s s' : kstate) : Prop :=
  forall u a a', get s u = Some a -> get s' u = Some a' -> is_sys (a_tok a) = false -> a_st a <> Terminated -> a_st a' = Terminated ->
    tt_seen tr (a_tok a') (a_inst a').

Lemma became_others u0 tr s s2 : Gx u0 s s2 -> (forall a a', get s u0 = Some a -> get s2 u0 = Some a' -> is_sys (a_tok a) = false -> a_st a <> Terminated -> a_st a' = Terminated -> tt_seen tr (a_tok a') (a_inst a')) ->
  became tr s (normalize s2).
Proof.
  intros [A _] Hu v a a' Ha Ha' Hs Hn Ht. rewrite get_normalize' in Ha'. destruct (get s2 v) as [b|] eqn:Eb; [|discriminate]. cbn in Ha'. inversion Ha'; subst a'.
  destruct (pop1_id b) as (Tb & _). rewrite Tb, pop1_inst. rewrite pop1_st in Ht.
  destruct (Nat.eq_dec v u0) as [->|Hv]; [eapply Hu; eassumption|].
  exfalso. destruct (A v a Ha) as (b' & Gb' & [_ R]). rewrite Eb in Gb'. inversion Gb'; subst b'. destruct (R Hv) as (_ & _ & _ & S). congruence.
Qed.

Lemma TI_external tr s s2 o :
  TI' tr s -> Gx guard_uid s s2 -> TI' (tr ++ o) (normalize s2) /\ became (tr ++ o) s (normalize s2).
Proof.
  intros [HL HG] GX. pose proof (guard_Gx _ _ _ GX HG) as HG2. split; [split; [|apply guard_normalize; exact HG2]|].
  - apply TI_normalize. eapply TI_frame; [exact GX|exact HL|]. intros a' Ha'. destruct HG2 as (g & Hg & Tg). rewrite Hg in Ha'. inversion Ha'; subst. left. apply guard_sys. exact Tg.
  - eapply became_others; [exact GX|]. intros a a' Ha _ Hs. exfalso. destruct HG as (g & Hg & Tg). rewrite Hg in Ha. inversion Ha; subst. rewrite (guard_sys _ Tg) in Hs. discriminate.
Qed.

Theorem kstep_TI tr s l s' o :
  TI' tr s -> kstep roles s l = Some (s', o) -> TI' (tr ++ o) s' /\ became (tr ++ o) s s'.
Proof.
  intros HTI Hk. destruct HTI as [HL HG]. revert Hk. destruct l; cbn [kstep].
  - (* LRun *) destruct (run_actor roles s (Z.to_nat u)) as [[s1 o1]|] eqn:E; [|discriminate]. intros H; injection H as <- <-.
    set (u0 := Z.to_nat u) in *.
    destruct (get s u0) as [a|] eqn:Ea; [|unfold run_actor in E; rewrite Ea in E; discriminate].
    destruct (a_inflight a) as [m|] eqn:Em; [|unfold run_actor in E; rewrite Ea, Em in E; discriminate].
    rewrite (run_actor_inner roles s u0 a m Ea Em) in E.
    set (s0 := upd_actor s u0 (w_inflight None)) in *.
    assert (Ein : Frame.run_inner roles s0 u0 m = (s1, o1)) by (inversion E; reflexivity).
    assert (G0 : get s0 u0 = Some (w_inflight None a)) by (apply get_upd_actor_same; exact Ea).
    pose proof (Gx_run_inner roles u0 _ _ _ _ Ein) as GX1.
    assert (GX0 : Gx u0 s s0) by (unfold s0, upd_actor; rewrite Ea; eapply Gx_put; [exact Ea|apply RL_self; reflexivity]).
    pose proof (Gx_trans u0 _ _ _ GX0 GX1) as GX.
    pose proof (HL u0 a Ea) as La.
    (* the running object *)
    assert (Run : forall a1, get s1 u0 = Some a1 -> a_tok a1 = a_tok a /\ TIa (tr ++ o1) a1 /\
              (is_sys (a_tok a) = false -> a_st a <> Terminated -> a_st a1 = Terminated -> tt_seen (tr ++ o1) (a_tok a1) (a_inst a1))).
    { intros a1 G1. destruct (is_sys (a_tok a)) eqn:Es.
      - destruct (proj1 GX u0 a Ea) as (a1' & G1' & [T1 _]). rewrite G1 in G1'. inversion G1'; subst a1'.
        split; [exact T1|]. split; [left; rewrite T1; exact Es|intros; discriminate].
      - destruct (ev_run_inner s0 u0 (w_inflight None a) m s1 o1 G0 Es Ein) as (a1' & G1' & [T1 V]). rewrite G1 in G1'. inversion G1'; subst a1'.
        cbn [a_tok a_inst a_st w_inflight] in T1, V. split; [exact T1|]. unfold TIa. rewrite T1.
        destruct V as [[V1 V2]|[V|[(V1 & V2 & V3 & V4)|(V1 & V2 & V3)]]].
        + split.
          * rewrite V1, V2. destruct La as [L|[L|L]]; [left; exact L|right; left; exact L|right; right; apply tt_seen_app; exact L].
          * intros _ Hn Ht. congruence.
        + split; [right; left; intros Hx; rewrite Hx in V; discriminate|]. intros _ _ Ht. rewrite Ht in V. discriminate.
        + split; [right; right; rewrite V3; apply tt_seen_app_r; exact V4|]. intros _ _ _. rewrite V3. apply tt_seen_app_r. exact V4.
        + split; [right; left; rewrite V2; discriminate|]. intros _ _ _. rewrite V3.
          destruct La as [L|[L|L]]; [congruence|congruence|apply tt_seen_app; exact L]. }
    split; [split; [|apply guard_normalize; eapply guard_Gx; [exact GX|exact HG]]|].
    + apply TI_normalize. eapply TI_frame; [exact GX|exact HL|]. intros a1 G1. apply (Run a1 G1).
    + eapply became_others; [exact GX|]. intros a0 a1 Ha0 G1 Hs Hn Ht. rewrite Ea in Ha0. inversion Ha0; subst a0.
      destruct (Run a1 G1) as (_ & _ & R). apply R; assumption.
  - destruct (next_serial s) as [s1 k] eqn:En. destruct (deliver_user s1 t rNone (UProbe n k)) as [s2 o2] eqn:E. intros H; injection H as <- <-.
    eapply TI_external; [exact (conj HL HG)|].
    apply (Gx_trans guard_uid s s1 s2); [apply Gx_same_actors; unfold next_serial in En; inversion En; subst; reflexivity|eapply Gx_deliver_user; exact E].
  - destruct (next_serial s) as [s1 k] eqn:En. destruct (deliver_user s1 t rGuard (UProbe n k)) as [s2 o2] eqn:E. intros H; injection H as <- <-.
    eapply TI_external; [exact (conj HL HG)|].
    apply (Gx_trans guard_uid s s1 s2); [apply Gx_same_actors; unfold next_serial in En; inversion En; subst; reflexivity|eapply Gx_deliver_user; exact E].
  - destruct (terminate s rGuard t g) as [s1 o1] eqn:E. intros H; injection H as <- <-.
    eapply TI_external; [exact (conj HL HG)|eapply Gx_terminate; exact E].
  - destruct (spawn s guard_uid rGuard t r) as [[s1 o1] p] eqn:E. intros H; injection H as <- <-.
    eapply TI_external; [exact (conj HL HG)|eapply Gx_spawn; exact E].
  - destruct (terminate s rGuard rGuard g) as [s1 o1] eqn:E. intros H; injection H as <- <-.
    eapply TI_external; [exact (conj HL HG)|eapply Gx_terminate; exact E].
  - intros H; injection H as <- <-. split; [split|].
    + intros v a Hv. destruct (HL v a Hv) as [L|[L|L]]; [left; exact L|right; left; exact L|right; right; apply tt_seen_app; exact L].
    + exact HG.
    + intros v a a' Ha Ha' _ Hn Ht. rewrite Ha in Ha'. inversion Ha'; subst. congruence.
Qed.

Lemma TI_init : TI' [] kinit.
Proof.
  split; [|eexists; split; reflexivity].
  intros u a H. destruct u as [|[|u]]; cbn in H; try (destruct u; discriminate); inversion H; subst; left; reflexivity.
Qed.

Theorem krun_TI ls : forall tr s s' os, TI' tr s -> krun roles s ls = Some (s', os) -> TI' (tr ++ concat os) s'.
Proof.
  induction ls as [|l rest IH]; intros tr s s' os HI; cbn [krun].
  - intros H; inversion H; subst. cbn [concat]. rewrite app_nil_r. exact HI.
  - destruct (kstep roles s l) as [[s1 o]|] eqn:E; [|discriminate].
    destruct (krun roles s1 rest) as [[s2 os2]|] eqn:E2; [|discriminate]. intros H; inversion H; subst.
    destruct (kstep_TI _ _ _ _ _ HI E) as [HI1 _]. cbn [concat]. rewrite app_assoc. eapply IH; [exact HI1|exact E2].
Qed.

(* C03: an incarnation whose status becomes Terminated — the step that handles its own OnTerminated — has handled OnTerminate
   before: in an earlier step of the run or earlier in this one *)
Theorem terminate_before_terminated ls s os l s' o u a a' :
  krun roles kinit ls = Some (s, os) -> kstep roles s l = Some (s', o) ->
  get s u = Some a -> get s' u = Some a' -> is_sys (a_tok a) = false -> a_st a <> Terminated -> a_st a' = Terminated ->
  exists sn sd, In (OH (a_tok a') (a_inst a') TT sn sd) (concat os ++ o).
Proof.
  intros Hrun Hstep Ha Ha' Hs Hn Ht.
  pose proof (krun_TI ls [] kinit s os TI_init Hrun) as HI. cbn [app] in HI.
  destruct (kstep_TI _ _ _ _ _ HI Hstep) as [_ B]. exact (B u a a' Ha Ha' Hs Hn Ht).
Qed.

End T.
