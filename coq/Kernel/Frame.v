(* MV.Kernel.Frame — a reusable frame theorem for the kernel: let Ra be any reflexive, transitive relation between an
   actor object and its later self that is respected by the elementary field updates the kernel performs (append to
   the user queue, append to the system queue, set the suspension flag, children, accident count, status, instance,
   watchers, graceful flag). Then every operation the kernel performs while processing one message (everything
   except taking the in-flight message out and the mailbox pop at the end of a step) relates every existing object to
   its successor by Ra, and no object disappears. Instantiated by Kernel.Queue (mailbox discipline). *)
From MV Require Import Lib.ListX Kernel.Model Kernel.Lifecycle Kernel.Status.
Open Scope Z_scope.

Section F.
Variable Ra : actor -> actor -> Prop.
Hypothesis R_refl : forall a, Ra a a.
Hypothesis R_trans : forall a b c, Ra a b -> Ra b c -> Ra a c.
Hypothesis R_userq_app : forall a e, Ra a (w_userq (a_userq a ++ [e]) a).
Hypothesis R_sysq_app : forall a e, Ra a (w_sysq (a_sysq a ++ [e]) a).
Hypothesis R_susp : forall a b, Ra a (w_susp b a).
Hypothesis R_children : forall a x, Ra a (w_children x a).
Hypothesis R_accidents : forall a x, Ra a (w_accidents x a).
Hypothesis R_st : forall a x, Ra a (w_st x a).
Hypothesis R_inst : forall a x, Ra a (w_inst x a).
Hypothesis R_watchers : forall a x, Ra a (w_watchers x a).
Hypothesis R_graceful : forall a x, Ra a (w_graceful x a).

Definition fr (s s' : kstate) : Prop := forall v a, get s v = Some a -> exists a', get s' v = Some a' /\ Ra a a'.

Lemma fr_refl s : fr s s.
Proof. intros v a H. exists a. auto. Qed.
Lemma fr_trans s1 s2 s3 : fr s1 s2 -> fr s2 s3 -> fr s1 s3.
Proof. intros H1 H2 v a Hg. destruct (H1 v a Hg) as (a2 & G2 & X2). destruct (H2 v a2 G2) as (a3 & G3 & X3). exists a3. split; [exact G3|eapply R_trans; eassumption]. Qed.
Lemma fr_same_actors s s' : actors s' = actors s -> fr s s'.
Proof. intros E v a Hg. exists a. unfold get in *. rewrite E. auto. Qed.
Lemma fr_put s u a0 b : get s u = Some a0 -> Ra a0 b -> fr s (put s u b).
Proof.
  intros Hu Hb v a Hg. destruct (Nat.eq_dec u v) as [->|Hne].
  - exists b. split; [eapply get_put_same; exact Hu|]. rewrite Hu in Hg. inversion Hg; subst. exact Hb.
  - exists a. split; [rewrite get_put_other by assumption; exact Hg|apply R_refl].
Qed.
Lemma fr_upd_actor s u f : (forall a, Ra a (f a)) -> fr s (upd_actor s u f).
Proof. intros Hf. unfold upd_actor. destruct (get s u) as [a0|] eqn:E; [|apply fr_refl]. eapply fr_put; [exact E|apply Hf]. Qed.
Lemma fr_append s x : fr s (set_actors s (actors s ++ [x])).
Proof.
  intros v a Hg. exists a. split; [|apply R_refl]. unfold get, set_actors in *; cbn [actors].
  rewrite nth_error_app1; [exact Hg|]. apply nth_error_Some. congruence.
Qed.

Lemma fr_drop_child s u w : fr s (drop_child s u w).
Proof. unfold drop_child. destruct (lookup w (registry s)); [apply fr_refl|]. apply fr_upd_actor. intros a. apply R_children. Qed.
Lemma fr_push_sys s u e : fr s (push_sys s u e).
Proof. unfold push_sys. apply fr_upd_actor. intros a. destruct (e_msg e); try apply R_sysq_app; apply R_susp. Qed.
Lemma fr_deliver_sys s t snd m : fr s (deliver_sys s t snd m).
Proof.
  unfold deliver_sys. destruct (lookup t (registry s)); [apply fr_push_sys|].
  destruct m; try apply fr_refl. destruct (lookup snd (registry s)); [apply fr_push_sys|apply fr_refl].
Qed.
Lemma fr_to_sub s : fr s (to_sub s).
Proof. unfold to_sub. destruct (lookup rSub (registry s)); [apply fr_upd_actor; intros a; apply R_userq_app|apply fr_refl]. Qed.
Lemma fr_abyss_user s snd rcv m s' o : abyss_user s snd rcv m = (s', o) -> fr s s'.
Proof.
  unfold abyss_user. destruct m; intros H; inversion H; subst; try apply fr_refl;
    destruct (rcv =? rSub); try apply fr_refl; apply fr_to_sub.
Qed.
Lemma fr_deliver_user s t snd m s' o : deliver_user s t snd m = (s', o) -> fr s s'.
Proof.
  unfold deliver_user. destruct (lookup t (registry s)) as [u|]; [|apply fr_abyss_user].
  destruct (get s u) as [a|] eqn:E; [|apply fr_abyss_user].
  intros H; inversion H; subst. eapply fr_put; [exact E|apply R_userq_app].
Qed.
Lemma fr_terminate s self t g s' o : terminate s self t g = (s', o) -> fr s s'.
Proof. unfold terminate. destruct g; [apply fr_deliver_user|]. intros H; inversion H; subst. apply fr_deliver_sys. Qed.
Lemma fr_terminate_all cs : forall s self g s' o, terminate_all s self cs g = (s', o) -> fr s s'.
Proof.
  induction cs as [|c rest IH]; intros s self g s' o; cbn [terminate_all].
  - intros H; inversion H; subst. apply fr_refl.
  - destruct (terminate s self c g) as [s1 o1] eqn:E1. destruct (terminate_all s1 self rest g) as [s2 o2] eqn:E2.
    intros H; inversion H; subst. eapply fr_trans; [eapply fr_terminate; exact E1|eapply IH; exact E2].
Qed.
Lemma fr_notify_all ws : forall s self, fr s (notify_all s self ws).
Proof. induction ws as [|w rest IH]; intros s self; cbn [notify_all]; [apply fr_refl|]. eapply fr_trans; [apply fr_deliver_sys|apply IH]. Qed.
Lemma fr_restart_all cs : forall s self, fr s (restart_all s self cs).
Proof. induction cs as [|c rest IH]; intros s self; cbn [restart_all]; [apply fr_refl|]. eapply fr_trans; [apply fr_deliver_sys|apply IH]. Qed.
Lemma fr_set_registry s r : fr s (set_registry s r).
Proof. apply fr_same_actors. reflexivity. Qed.

Lemma fr_stop s u self t s' o p : stop_if_parent_gone s u self t = (s', o, p) -> fr s s'.
Proof.
  unfold stop_if_parent_gone. destruct (get s u) as [pa|]; [|intros H; inversion H; subst; apply fr_refl].
  destruct (not_alive (a_st pa)); [|intros H; inversion H; subst; apply fr_refl].
  destruct (terminate s self t (a_graceful pa)) as [s1 o1] eqn:E. intros H; inversion H; subst. eapply fr_terminate; exact E.
Qed.

Lemma fr_spawn s u self t r s' o p : spawn s u self t r = (s', o, p) -> fr s s'.
Proof.
  unfold spawn. destruct (provide s t) as [s1 inst] eqn:Ep.
  assert (K1 : fr s s1) by (apply fr_same_actors; unfold provide in Ep; inversion Ep; subst; reflexivity).
  set (s2 := set_actors s1 (actors s1 ++ [new_actor t self r inst])).
  assert (K2 : fr s s2) by (eapply fr_trans; [exact K1|apply fr_append]).
  change (registry s2) with (registry s1) in *. destruct (lookup t (registry s1)).
  - intros H; inversion H; subst. eapply fr_trans; [exact K1|apply fr_append].
  - intros H. eapply fr_trans; [|eapply fr_stop; exact H]. eapply fr_trans; [exact K2|].
    eapply fr_trans; [|apply fr_deliver_sys]. eapply fr_trans; [|apply fr_upd_actor; intros a; apply R_children]. apply fr_set_registry.
Qed.
Lemma fr_escalate s u r s' o p : escalate s u r = (s', o, p) -> fr s s'.
Proof.
  unfold escalate. destruct (get s u) as [a|]; [|intros H; inversion H; subst; apply fr_refl].
  destruct (a_parent a =? rNone); intros H; inversion H; subst; [apply fr_same_actors; reflexivity|apply fr_deliver_sys].
Qed.

Section S.
Variable roles : list role.

Lemma fr_report_abnormal s u s' o p : report_abnormal roles s u = (s', o, p) -> fr s s'.
Proof.
  unfold report_abnormal. destruct (get s u) as [a|]; [|intros H; inversion H; subst; apply fr_refl].
  destruct (a_st a); try (intros H; inversion H; subst; apply fr_refl).
  intros H. apply fr_escalate in H. eapply fr_trans; [|exact H].
  eapply fr_trans; [|apply fr_deliver_sys]. apply fr_upd_actor. intros b. apply R_accidents.
Qed.
Lemma fr_send_each ts : forall s self n k s' o, send_each s self ts n k = (s', o) -> fr s s'.
Proof.
  induction ts as [|t rest IH]; intros s self n k s' o; cbn [send_each].
  - intros H; inversion H; subst. apply fr_refl.
  - destruct (deliver_user s t self (UProbe n k)) as [s1 o1] eqn:E1.
    destruct (send_each s1 self rest n k) as [s2 o2] eqn:E2. intros H; inversion H; subst.
    eapply fr_trans; [eapply fr_deliver_user; exact E1|eapply IH; exact E2].
Qed.
Lemma fr_next_serial s : fr s (fst (next_serial s)).
Proof. apply fr_same_actors. reflexivity. Qed.

Lemma fr_do_action s u snd act s' o p : do_action roles s u snd act = (s', o, p) -> fr s s'.
Proof.
  unfold do_action. destruct (get s u) as [a|]; [|intros H; inversion H; subst; apply fr_refl].
  destruct act.
  - destruct (next_serial s) as [s1 k] eqn:En. destruct (deliver_user s1 t rNone (UProbe n k)) as [s2 o2] eqn:E.
    intros H; inversion H; subst. eapply fr_trans; [|eapply fr_deliver_user; exact E]. change s1 with (fst (s1, k)). rewrite <- En. apply fr_next_serial.
  - destruct (next_serial s) as [s1 k] eqn:En. destruct (deliver_user s1 t (a_tok a) (UProbe n k)) as [s2 o2] eqn:E.
    intros H; inversion H; subst. eapply fr_trans; [|eapply fr_deliver_user; exact E]. change s1 with (fst (s1, k)). rewrite <- En. apply fr_next_serial.
  - destruct (next_serial s) as [s1 k] eqn:En. destruct (deliver_user s1 snd (a_tok a) (UProbe n k)) as [s2 o2] eqn:E.
    intros H; inversion H; subst. eapply fr_trans; [|eapply fr_deliver_user; exact E]. change s1 with (fst (s1, k)). rewrite <- En. apply fr_next_serial.
  - destruct (next_serial s) as [s1 k] eqn:En. destruct (send_each s1 (a_tok a) (a_children a) n k) as [s2 o2] eqn:E.
    intros H; inversion H; subst. eapply fr_trans; [|eapply fr_send_each; exact E]. change s1 with (fst (s1, k)). rewrite <- En. apply fr_next_serial.
  - destruct (spawn s u (a_tok a) t r) as [[s1 o1] p1] eqn:E. intros H; inversion H; subst. eapply fr_spawn; exact E.
  - destruct (terminate s (a_tok a) t g) as [s1 o1] eqn:E. intros H; inversion H; subst. eapply fr_terminate; exact E.
  - intros H; inversion H; subst. apply fr_deliver_sys.
  - intros H; inversion H; subst. apply fr_deliver_sys.
  - destruct (report_abnormal roles s u) as [[s1 o1] p1] eqn:E. intros H; inversion H; subst. eapply fr_report_abnormal; exact E.
  - intros H; inversion H; subst. apply fr_refl.
Qed.
Lemma fr_do_actions acts : forall s u snd s' o p, do_actions roles s u snd acts = (s', o, p) -> fr s s'.
Proof.
  induction acts as [|act rest IH]; intros s u snd s' o p; cbn [do_actions].
  - intros H; inversion H; subst. apply fr_refl.
  - apply (bind_rel fr); [apply fr_trans| |].
    + intros s1 o1 p1 E. eapply fr_do_action; exact E.
    + intros s1 s2 o2 p2 E. eapply IH; exact E.
Qed.
Lemma fr_handle_q q s u t k snd s' o p : handle_q roles q s u t k snd = (s', o, p) -> fr s s'.
Proof.
  unfold handle_q. destruct (get s u) as [a|]; [|intros H; inversion H; subst; apply fr_refl].
  destruct q; [intros H; inversion H; subst; apply fr_refl|].
  destruct (do_actions roles s u snd (find_rule (rules (role_of roles a)) t (a_inst a))) as [[s1 o1] p1] eqn:E.
  intros H; inversion H; subst. eapply fr_do_actions; exact E.
Qed.
Lemma fr_handle s u t k snd s' o p : handle roles s u t k snd = (s', o, p) -> fr s s'.
Proof. unfold handle. destruct (get s u) as [a|]; [apply fr_handle_q|intros H; inversion H; subst; apply fr_refl]. Qed.

Lemma fr_try_terminated s u snd s' o p : try_terminated roles s u snd = (s', o, p) -> fr s s'.
Proof.
  unfold try_terminated. destruct (get s u) as [a|] eqn:Ea; [|intros H; inversion H; subst; apply fr_refl].
  destruct (a_children a); [|intros H; inversion H; subst; apply fr_refl].
  destruct (a_st a) eqn:Est; try (intros H; inversion H; subst; apply fr_refl).
  apply (bind_rel fr); [apply fr_trans| |].
  - intros s1 o1 p1 E. eapply fr_trans; [|eapply fr_handle; exact E]. apply fr_upd_actor; intros b; apply R_st.
  - intros s1 s2 o2 p2. destruct (a_parent a =? rNone); intros H; inversion H; subst.
    + eapply fr_trans; [|apply fr_same_actors; reflexivity]. eapply fr_trans; [|apply fr_notify_all]. apply fr_set_registry.
    + eapply fr_trans; [|apply fr_deliver_sys]. eapply fr_trans; [|apply fr_notify_all]. apply fr_set_registry.
Qed.
Lemma fr_start_instance s u self parent s' o p : start_instance roles s u self parent = (s', o, p) -> fr s s'.
Proof.
  unfold start_instance. destruct (handle roles s u TRD 0%nat self) as [[s1 o1] p1] eqn:E1.
  destruct (handle roles s1 u TL 0%nat parent) as [[s2 o2] p2] eqn:E2. intros H; inversion H; subst.
  eapply fr_trans; [eapply fr_handle; exact E1|]. eapply fr_trans; [eapply fr_handle; exact E2|].
  destruct p2; [apply fr_refl|apply fr_upd_actor; intros b; apply R_accidents].
Qed.
Lemma fr_try_restarted s u snd s' o p : try_restarted roles s u snd = (s', o, p) -> fr s s'.
Proof.
  unfold try_restarted. destruct (get s u) as [a|] eqn:Ea; [|intros H; inversion H; subst; apply fr_refl].
  destruct (a_children a); [|intros H; inversion H; subst; apply fr_refl].
  destruct (a_st a) eqn:Est; try (intros H; inversion H; subst; apply fr_refl).
  destruct (provide s (a_tok a)) as [s0 inst] eqn:Ep. intros H.
  apply (fr_trans s s0); [apply fr_same_actors; unfold provide in Ep; inversion Ep; subst; reflexivity|]. revert H.
  apply (bind_rel fr); [apply fr_trans| |].
  - intros s1 o1 p1 E. eapply fr_handle; exact E.
  - intros s1 s2 o2 p2. apply (bind_rel fr); [apply fr_trans| |].
    + intros sa oa pa E. eapply fr_handle; exact E.
    + intros sa sb ob pb. intros H.
      eapply fr_trans; [|eapply fr_start_instance; exact H]. eapply fr_trans; [|apply fr_deliver_sys].
      apply fr_upd_actor; intros b; apply (R_trans b (w_inst inst b)); [apply R_inst|apply R_st].
Qed.
Lemma fr_apply_directive s u r d snd s' o p : apply_directive roles s u r d snd = (s', o, p) -> fr s s'.
Proof.
  unfold apply_directive. destruct (get s u) as [a|]; [|intros H; inversion H; subst; apply fr_refl].
  destruct d.
  - intros H; inversion H; subst. apply fr_deliver_sys.
  - destruct (terminate s (a_tok a) (ar_vref r) false) as [s1 o1] eqn:E1.
    destruct (try_terminated roles s1 u snd) as [[s2 o2] p2] eqn:E2. intros H; inversion H; subst.
    eapply fr_trans; [eapply fr_terminate; exact E1|eapply fr_try_terminated; exact E2].
  - intros H; inversion H; subst. apply fr_deliver_sys.
  - destruct (escalate s u r) as [[s1 o1] p1] eqn:E. intros H; inversion H; subst. eapply fr_escalate; exact E.
  - intros H; inversion H; subst. apply fr_restart_all.
Qed.
Lemma fr_on_accident s u r snd s' o p : on_accident roles s u r snd = (s', o, p) -> fr s s'.
Proof.
  unfold on_accident. destruct (get s u) as [a|]; [|intros H; inversion H; subst; apply fr_refl].
  destruct (ar_strategy r); [apply fr_apply_directive|].
  destruct (sup (role_of roles a)); [apply fr_escalate|apply fr_apply_directive].
Qed.

Lemma fr_process_sys s u e s' o p : process_sys roles s u e = (s', o, p) -> fr s s'.
Proof.
  unfold process_sys. destruct (get s u) as [a|] eqn:Ea; [|intros H; inversion H; subst; apply fr_refl].
  match goal with |- context [if ?d then _ else _] => destruct d end; [intros H; inversion H; subst; apply fr_refl|].
  destruct (e_msg e).
  - apply (bind_rel fr); [apply fr_trans| |].
    + intros s1 o1 p1 E. eapply fr_handle; exact E.
    + intros s1 s2 o2 p2 H; inversion H; subst. apply fr_upd_actor. intros b. apply R_accidents.
  - apply fr_handle.
  - assert (HT : forall s0, fr s s0 ->
      (handle roles s0 u TT 0%nat (e_snd e) >>= (fun s3 =>
         match get s3 u with
         | None => ok s3 []
         | Some a3 =>
             let '(s4, o4) := terminate_all s3 (a_tok a3) (a_children a3) (g || a_graceful a3) in
             let '(s5, o5, p) := try_terminated roles s4 u (e_snd e) in (s5, o4 ++ o5, p)
         end)) = (s', o, p) -> fr s s').
    { intros s0 M0 H. eapply fr_trans; [exact M0|]. revert H. apply (bind_rel fr); [apply fr_trans| |].
      - intros s1 o1 p1 E. eapply fr_handle; exact E.
      - intros s1 s2 o2 p2. destruct (get s1 u) as [a3|]; [|intros H; inversion H; subst; apply fr_refl].
        destruct (terminate_all s1 (a_tok a3) (a_children a3) (g || a_graceful a3)) as [s4 o4] eqn:E4.
        destruct (try_terminated roles s4 u (e_snd e)) as [[s5 o5] p5] eqn:E5. intros H; inversion H; subst.
        eapply fr_trans; [eapply fr_terminate_all; exact E4|eapply fr_try_terminated; exact E5]. }
    destruct (a_st a) eqn:Est; try (intros H; inversion H; subst; apply fr_refl); apply HT;
      (apply fr_trans with (s2 := upd_actor s u (w_st Terminating)); [apply fr_upd_actor; intros b; apply R_st|apply fr_deliver_sys]).
  - apply (bind_rel fr); [apply fr_trans| |].
    + intros s1 o1 p1 E. eapply fr_trans; [|eapply fr_handle; exact E]. apply fr_drop_child.
    + intros s1 s2 o2 p2. destruct (get s1 u) as [a2|]; [|intros H; inversion H; subst; apply fr_refl].
      destruct (a_st a2); try (intros H; inversion H; subst; apply fr_refl); [apply fr_try_restarted|apply fr_try_terminated].
  - destruct (a_st a) eqn:Est; try (intros H; inversion H; subst; apply fr_refl).
    intros H. apply fr_trans with (s2 := upd_actor s u (w_st Restarting)); [apply fr_upd_actor; intros b; apply R_st|]. revert H.
    apply (bind_rel fr); [apply fr_trans| |].
    + intros s1 o1 p1 E. eapply fr_trans; [|eapply fr_handle; exact E]. apply fr_deliver_sys.
    + intros s1 s2 o2 p2. destruct (get s1 u) as [a2|]; [|intros H; inversion H; subst; apply fr_refl].
      destruct (terminate_all s1 (a_tok a2) (a_children a2) false) as [s3 o3] eqn:E3.
      destruct (try_restarted roles s3 u (e_snd e)) as [[s4 o4] p4] eqn:E4. intros H; inversion H; subst.
      eapply fr_trans; [eapply fr_terminate_all; exact E3|eapply fr_try_restarted; exact E4].
  - apply fr_on_accident.
  - destruct (e_snd e =? a_parent a); [intros H; inversion H; subst; apply fr_refl|].
    destruct (st_ge_terminating (a_st a)); intros H; inversion H; subst.
    + apply fr_deliver_sys.
    + apply fr_upd_actor. intros b. apply R_watchers.
  - intros H; inversion H; subst. apply fr_upd_actor. intros b. apply R_watchers.
  - intros H; inversion H; subst. apply fr_refl.
  - intros H; inversion H; subst. apply fr_refl.
  - (* SResumeReq *) destruct (a_st a); intros H; inversion H; subst; try apply fr_refl. apply fr_deliver_sys.
Qed.

Lemma fr_process_user s u e s' o p : process_user roles s u e = (s', o, p) -> fr s s'.
Proof.
  unfold process_user. destruct (get s u) as [a|]; [|intros H; inversion H; subst; apply fr_refl].
  destruct (st_ge_terminating (a_st a)).
  - destruct (abyss_user s (e_snd e) (e_rcv e) (e_msg e)) as [s1 o1] eqn:E. intros H; inversion H; subst. eapply fr_abyss_user; exact E.
  - destruct (e_msg e).
    + apply fr_handle_q.
    + intros H; inversion H; subst. eapply fr_trans; [|apply fr_deliver_sys]. apply fr_upd_actor. intros b. apply R_graceful.
    + intros H; inversion H; subst. apply fr_refl.
Qed.

(* everything run_actor does after taking the in-flight message m out of the mailbox of u *)
Definition run_inner (s0 : kstate) (u : nat) (m : anymsg) : kstate * list obs :=
  let '(s1, o1, p) := match m with MS e => process_sys roles s0 u e | MU e => process_user roles s0 u e end in
  if p then if crashed s1 then (s1, o1) else let '(s2, o2, _) := report_abnormal roles s1 u in (s2, o1 ++ o2) else (s1, o1).

Lemma run_actor_inner s u a m : get s u = Some a -> a_inflight a = Some m ->
  run_actor roles s u = Some (run_inner (upd_actor s u (w_inflight None)) u m).
Proof.
  intros Ha Hm. unfold run_actor, run_inner. rewrite Ha, Hm.
  destruct (match m with MS e => _ | MU e => _ end) as [[s1 o1] p]. destruct p; [|reflexivity].
  destruct (crashed s1); [reflexivity|]. destruct (report_abnormal roles s1 u) as [[s2 o2] p2]. reflexivity.
Qed.

Lemma fr_run_inner s0 u m s' o : run_inner s0 u m = (s', o) -> fr s0 s'.
Proof.
  unfold run_inner.
  destruct (match m with MS e => process_sys roles s0 u e | MU e => process_user roles s0 u e end) as [[s1 o1] p] eqn:E.
  assert (F1 : fr s0 s1) by (destruct m; [eapply fr_process_sys; exact E|eapply fr_process_user; exact E]).
  destruct p; [|intros H; inversion H; subst; exact F1].
  destruct (crashed s1); [intros H; inversion H; subst; exact F1|].
  destruct (report_abnormal roles s1 u) as [[s2 o2] p2] eqn:E2. intros H; inversion H; subst.
  eapply fr_trans; [exact F1|eapply fr_report_abnormal; exact E2].
Qed.

End S.
End F.
