(* MV.Kernel.Queue — mailbox discipline of the kernel, for every role table, from ANY state:
   let seq(a) be the in-flight user message of an actor object (if any) followed by its user queue. One step of the
   kernel changes seq of every object only by (i) removing its head — exactly when the step is the run of that
   object's own in-flight user message — and (ii) appending at the tail. Nothing is ever inserted in front of or
   between queued messages, removed from the middle, or reordered; over a whole run seq(a') = skipn k (seq a) ++ app.
   (C02: messages are taken in the order they were enqueued; C05: a graceful terminate request is an ordinary user
   message, so everything enqueued before it is taken before it.) *)
From MV Require Import Lib.ListX Kernel.Model Kernel.Lifecycle Kernel.Status Kernel.Frame.
Open Scope Z_scope.

Definition inflight_user (a : actor) : list (env umsg) := match a_inflight a with Some (MU e) => [e] | _ => [] end.
Definition seq (a : actor) : list (env umsg) := inflight_user a ++ a_userq a.

Definition uqA (a a' : actor) : Prop := a_inflight a' = a_inflight a /\ exists app, a_userq a' = a_userq a ++ app.

Lemma uqA_refl a : uqA a a.
Proof. split; [reflexivity|]. exists []. rewrite app_nil_r. reflexivity. Qed.
Lemma uqA_trans a b c : uqA a b -> uqA b c -> uqA a c.
Proof. intros [I1 (p1 & Q1)] [I2 (p2 & Q2)]. split; [congruence|]. exists (p1 ++ p2). rewrite Q2, Q1, app_assoc. reflexivity. Qed.
Lemma uqA_keepq a b : a_inflight b = a_inflight a -> a_userq b = a_userq a -> uqA a b.
Proof. intros H1 H2. split; [exact H1|]. exists []. rewrite app_nil_r. exact H2. Qed.

Definition uq := fr uqA.

Lemma seq_pop1 a : seq (pop1 a) = seq a.
Proof.
  unfold pop1, seq, inflight_user. destruct (a_inflight a) as [m|] eqn:Ei; [rewrite Ei; reflexivity|].
  destruct (a_sysq a) as [|e t] eqn:Es.
  - destruct (a_susp a); [rewrite Ei; reflexivity|]. destruct (a_userq a) as [|e t] eqn:Eu; [rewrite Ei, Eu; reflexivity|].
    cbn [a_inflight a_userq w_inflight w_userq]. reflexivity.
  - cbn [a_inflight a_userq w_inflight w_sysq]. reflexivity.
Qed.

Lemma seq_uqA a a' : uqA a a' -> exists app, seq a' = seq a ++ app.
Proof. intros [I (p & Q)]. exists p. unfold seq, inflight_user. rewrite I, Q, app_assoc. reflexivity. Qed.

Lemma U_userq a e : uqA a (w_userq (a_userq a ++ [e]) a).
Proof. split; [reflexivity|]. exists [e]. reflexivity. Qed.
Lemma U_sysq a (e : env smsg) : uqA a (w_sysq (a_sysq a ++ [e]) a). Proof. apply uqA_keepq; reflexivity. Qed.
Lemma U_susp a b : uqA a (w_susp b a). Proof. apply uqA_keepq; reflexivity. Qed.
Lemma U_children a x : uqA a (w_children x a). Proof. apply uqA_keepq; reflexivity. Qed.
Lemma U_accidents a x : uqA a (w_accidents x a). Proof. apply uqA_keepq; reflexivity. Qed.
Lemma U_st a x : uqA a (w_st x a). Proof. apply uqA_keepq; reflexivity. Qed.
Lemma U_inst a x : uqA a (w_inst x a). Proof. apply uqA_keepq; reflexivity. Qed.
Lemma U_watchers a x : uqA a (w_watchers x a). Proof. apply uqA_keepq; reflexivity. Qed.
Lemma U_graceful a x : uqA a (w_graceful x a). Proof. apply uqA_keepq; reflexivity. Qed.

Section Q.
Variable roles : list role.

Lemma uq_run_inner s0 u m s' o : run_inner roles s0 u m = (s', o) -> uq s0 s'.
Proof. apply (fr_run_inner uqA uqA_refl uqA_trans U_userq U_sysq U_susp U_children U_accidents U_st U_inst U_watchers U_graceful). Qed.
Lemma uq_deliver_user s t snd m s' o : deliver_user s t snd m = (s', o) -> uq s s'.
Proof. apply (fr_deliver_user uqA uqA_refl U_userq). Qed.
Lemma uq_terminate s self t g s' o : terminate s self t g = (s', o) -> uq s s'.
Proof. apply (fr_terminate uqA uqA_refl U_userq U_sysq U_susp). Qed.
Lemma uq_spawn s u self t r s' o p : spawn s u self t r = (s', o, p) -> uq s s'.
Proof. apply (fr_spawn uqA uqA_refl uqA_trans U_userq U_sysq U_susp U_children). Qed.

(* does the step take the head of seq of object v (whose record in the pre-state is a)? *)
Definition consumes (l : label) (v : nat) (a : actor) : bool :=
  match l, a_inflight a with
  | LRun u, Some (MU _) => Nat.eqb (Z.to_nat u) v
  | _, _ => false
  end.

Lemma get_normalize' s v : get (normalize s) v = option_map pop1 (get s v).
Proof. unfold get, normalize, set_actors; cbn [actors]. apply nth_error_map. Qed.

Lemma uq_seq s s' v a : uq s s' -> get s v = Some a -> exists a' app, get (normalize s') v = Some a' /\ seq a' = seq a ++ app.
Proof.
  intros U Ha. destruct (U v a Ha) as (a1 & G1 & X1). destruct (seq_uqA _ _ X1) as (app & Happ).
  exists (pop1 a1), app. split; [rewrite get_normalize', G1; reflexivity|rewrite seq_pop1; exact Happ].
Qed.

Theorem kstep_queue s l s' o : kstep roles s l = Some (s', o) ->
  forall v a, get s v = Some a -> exists a' app, get s' v = Some a' /\
    seq a' = (if consumes l v a then tl (seq a) else seq a) ++ app.
Proof.
  destruct l; cbn [kstep].
  - (* LRun *) destruct (run_actor roles s (Z.to_nat u)) as [[s1 o1]|] eqn:E; [|discriminate]. intros H; injection H as <- <-. intros v a Ha.
    destruct (get s (Z.to_nat u)) as [au|] eqn:Eu; [|unfold run_actor in E; rewrite Eu in E; discriminate].
    destruct (a_inflight au) as [m|] eqn:Em; [|unfold run_actor in E; rewrite Eu, Em in E; discriminate].
    rewrite (run_actor_inner roles s (Z.to_nat u) au m Eu Em) in E.
    set (s0 := upd_actor s (Z.to_nat u) (w_inflight None)) in *.
    assert (Ein : run_inner roles s0 (Z.to_nat u) m = (s1, o1)) by (inversion E; reflexivity).
    pose proof (uq_run_inner _ _ _ _ _ Ein) as U.
    destruct (Nat.eq_dec (Z.to_nat u) v) as [Ev|Ev].
    + subst v. rewrite Eu in Ha. inversion Ha; subst a.
      assert (G0 : get s0 (Z.to_nat u) = Some (w_inflight None au)) by (apply get_upd_actor_same; exact Eu).
      destruct (uq_seq _ _ _ _ U G0) as (a' & app & G' & S'). exists a', app. split; [exact G'|]. rewrite S'.
      unfold consumes. rewrite Em. unfold seq, inflight_user. cbn [a_inflight a_userq w_inflight]. rewrite Em.
      destruct m; [reflexivity|]. rewrite Nat.eqb_refl. reflexivity.
    + assert (G0 : get s0 v = Some a) by (unfold s0, upd_actor; rewrite Eu; rewrite get_put_other by exact Ev; exact Ha).
      destruct (uq_seq _ _ _ _ U G0) as (a' & app & G' & S'). exists a', app. split; [exact G'|]. rewrite S'.
      unfold consumes. destruct (a_inflight a) as [[?|?]|]; try reflexivity. apply Nat.eqb_neq in Ev. rewrite Ev. reflexivity.
  - destruct (next_serial s) as [s1 k] eqn:En. destruct (deliver_user s1 t rNone (UProbe n k)) as [s2 o2] eqn:E. intros H; inversion H; subst. intros v a Ha.
    assert (G1 : get s1 v = Some a) by (unfold next_serial in En; inversion En; subst; exact Ha).
    destruct (uq_seq _ _ _ _ (uq_deliver_user _ _ _ _ _ _ E) G1) as (a' & app & G' & S'). exists a', app. split; [exact G'|]. rewrite S'. reflexivity.
  - destruct (next_serial s) as [s1 k] eqn:En. destruct (deliver_user s1 t rGuard (UProbe n k)) as [s2 o2] eqn:E. intros H; inversion H; subst. intros v a Ha.
    assert (G1 : get s1 v = Some a) by (unfold next_serial in En; inversion En; subst; exact Ha).
    destruct (uq_seq _ _ _ _ (uq_deliver_user _ _ _ _ _ _ E) G1) as (a' & app & G' & S'). exists a', app. split; [exact G'|]. rewrite S'. reflexivity.
  - destruct (terminate s rGuard t g) as [s1 o1] eqn:E. intros H; inversion H; subst. intros v a Ha.
    destruct (uq_seq _ _ _ _ (uq_terminate _ _ _ _ _ _ E) Ha) as (a' & app & G' & S'). exists a', app. split; [exact G'|]. rewrite S'. reflexivity.
  - destruct (spawn s guard_uid rGuard t r) as [[s1 o1] p] eqn:E. intros H; inversion H; subst. intros v a Ha.
    destruct (uq_seq _ _ _ _ (uq_spawn _ _ _ _ _ _ _ _ E) Ha) as (a' & app & G' & S'). exists a', app. split; [exact G'|]. rewrite S'. reflexivity.
  - destruct (terminate s rGuard rGuard g) as [s1 o1] eqn:E. intros H; inversion H; subst. intros v a Ha.
    destruct (uq_seq _ _ _ _ (uq_terminate _ _ _ _ _ _ E) Ha) as (a' & app & G' & S'). exists a', app. split; [exact G'|]. rewrite S'. reflexivity.
  - intros H; inversion H; subst. intros v a Ha. exists a, []. split; [exact Ha|]. rewrite app_nil_r. reflexivity.
Qed.

(* over a whole run: some heads were taken, some messages appended — the order of what was queued is preserved *)
Theorem krun_queue ls : forall s s' os, krun roles s ls = Some (s', os) ->
  forall v a, get s v = Some a -> exists a' k app, get s' v = Some a' /\ seq a' = skipn k (seq a) ++ app.
Proof.
  induction ls as [|l t IH]; intros s s' os; cbn [krun].
  - intros H; inversion H; subst. intros v a Ha. exists a, 0%nat, []. split; [exact Ha|]. cbn [skipn]. rewrite app_nil_r. reflexivity.
  - destruct (kstep roles s l) as [[s1 o]|] eqn:E; [|discriminate].
    destruct (krun roles s1 t) as [[s2 os2]|] eqn:E2; [|discriminate]. intros H; inversion H; subst. intros v a Ha.
    destruct (kstep_queue _ _ _ _ E v a Ha) as (a1 & app1 & G1 & S1).
    destruct (IH _ _ _ E2 v a1 G1) as (a2 & k & app2 & G2 & S2). rewrite S1 in S2.
    destruct (consumes l v a).
    + (* one head taken first *)
      destruct (seq a) as [|e q] eqn:Eq; cbn [tl] in S2.
      * exists a2, k, (skipn k app1 ++ app2). split; [exact G2|]. rewrite S2. rewrite skipn_nil. cbn [app]. reflexivity.
      * destruct (Nat.le_gt_cases k (length q)) as [Hle|Hgt].
        -- exists a2, (S k), (app1 ++ app2). split; [exact G2|]. rewrite S2. cbn [skipn]. rewrite skipn_app.
           replace (k - length q)%nat with 0%nat by lia. cbn [skipn]. rewrite app_assoc. reflexivity.
        -- exists a2, (S k), (skipn (k - length q) app1 ++ app2). split; [exact G2|]. rewrite S2. cbn [skipn]. rewrite skipn_app.
           rewrite (skipn_all2 q) by lia. reflexivity.
    + destruct (Nat.le_gt_cases k (length (seq a))) as [Hle|Hgt].
      * exists a2, k, (app1 ++ app2). split; [exact G2|]. rewrite S2, skipn_app. replace (k - length (seq a))%nat with 0%nat by lia. cbn [skipn]. rewrite app_assoc. reflexivity.
      * exists a2, k, (skipn (k - length (seq a)) app1 ++ app2). split; [exact G2|]. rewrite S2, skipn_app. rewrite skipn_all2 by lia. reflexivity.
Qed.

End Q.

(* C05: a graceful terminate request for a registered actor is an ordinary user message appended at the tail of its
   mailbox: every user message enqueued before the request is ahead of it (and, by kstep_queue / krun_queue, stays ahead
   of it until taken) *)
Lemma graceful_request_at_tail roles s t v a s' o :
  lookup t (registry s) = Some v -> get s v = Some a -> kstep roles s (LTerm t true) = Some (s', o) ->
  exists a', get s' v = Some a' /\ seq a' = seq a ++ [mk_env rNone t UTermG].
Proof.
  intros Hl Ha. cbn [kstep]. unfold terminate, deliver_user. rewrite Hl, Ha. intros H; inversion H; subst.
  exists (pop1 (w_userq (a_userq a ++ [mk_env rNone t UTermG]) a)). split.
  - rewrite get_normalize'. erewrite get_put_same by exact Ha. reflexivity.
  - rewrite seq_pop1. unfold seq, inflight_user. cbn [a_inflight a_userq w_userq]. rewrite app_assoc. reflexivity.
Qed.
