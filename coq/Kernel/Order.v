(* MV.Kernel.Order — C02, "messages are handled in the order they were sent": every send takes the next serial number of the
   system-wide counter, and for every role table and every run from the freshly started system the serial numbers of the user
   messages one actor object handles never decrease (two copies of one broadcast carry the same number; they go to different
   children). Invariant SI: the user messages of every object (in flight, then queued) are sorted by serial number and none
   exceeds the counter; relation sr ("queues only grow at the tail, by messages numbered with the counter's current values")
   through every kernel operation. With Kernel.Queue (only the head is taken, only by the object's own run) the handled
   serials of an object form a sorted sequence. *)
From MV Require Import Lib.ListX Kernel.Model Kernel.Run Kernel.Lifecycle Kernel.Status Kernel.Registry Kernel.Frame Kernel.Queue Kernel.Launch Kernel.Held.
From Coq Require Import Sorted.
Open Scope Z_scope.

Definition pserial (e : env umsg) : list nat := match e_msg e with UProbe _ k => [k] | _ => [] end.
Definition serials (l : list (env umsg)) : list nat := flat_map pserial l.
Lemma serials_app a b : serials (a ++ b) = serials a ++ serials b.
Proof. unfold serials. apply flat_map_app. Qed.

(* the appended messages are numbered, in order, with values of the counter between lo and hi *)
Definition fresh (lo hi : nat) (app : list (env umsg)) : Prop :=
  Sorted le (serials app) /\ Forall (fun k => (lo <= k <= hi)%nat) (serials app).
Lemma fresh_nil lo hi : fresh lo hi []. Proof. split; constructor. Qed.
Lemma fresh_noprobe lo hi e : pserial e = [] -> fresh lo hi [e].
Proof. intros H. unfold fresh, serials. cbn [flat_map]. rewrite H. split; constructor. Qed.
Lemma Sorted_app_le (a b : list nat) m : Sorted le a -> Sorted le b -> Forall (fun k => (k <= m)%nat) a -> Forall (fun k => (m <= k)%nat) b -> Sorted le (a ++ b).
Proof.
  intros Sa Sb Fa Fb. induction a as [|x a IH]; [exact Sb|]. cbn [app]. inversion Sa; subst. inversion Fa; subst.
  constructor; [apply IH; assumption|]. destruct a as [|y a]; cbn [app].
  - destruct b as [|z b]; [constructor|]. constructor. inversion Fb; subst. lia.
  - constructor. inversion H2; subst. assumption.
Qed.
Lemma fresh_app lo mid hi a b : (lo <= mid)%nat -> (mid <= hi)%nat -> fresh lo mid a -> fresh mid hi b -> fresh lo hi (a ++ b).
Proof.
  intros H1 H2 [Sa Fa] [Sb Fb]. split; rewrite serials_app.
  - apply Sorted_app_le with (m := mid); [exact Sa|exact Sb| |]; eapply Forall_impl; [|exact Fa| |exact Fb]; cbn; intros; lia.
  - apply Forall_app. split; (eapply Forall_impl; [|eassumption]); cbn; intros; lia.
Qed.

Lemma fresh_widen lo hi lo' hi' l : fresh lo hi l -> (lo' <= lo)%nat -> (hi <= hi')%nat -> fresh lo' hi' l.
Proof. intros [S F] H1 H2. split; [exact S|]. eapply Forall_impl; [|exact F]. cbn. intros; lia. Qed.

Definition sr (s s' : kstate) : Prop :=
  (serial s <= serial s')%nat /\
  (forall v a, get s v = Some a -> exists a' app, get s' v = Some a' /\ a_inflight a' = a_inflight a /\ a_userq a' = a_userq a ++ app /\ fresh (serial s) (serial s') app) /\
  (forall v a', get s' v = Some a' -> (length (actors s) <= v)%nat -> a_inflight a' = None /\ fresh (serial s) (serial s') (a_userq a')).
Definition probe_ok (s : kstate) (m : umsg) : Prop := match m with UProbe _ k => k = serial s | _ => True end.

Lemma get_lt s v a : get s v = Some a -> (v < length (actors s))%nat.
Proof. unfold get. intros H. apply nth_error_Some. congruence. Qed.
Lemma get_of_lt s v : (v < length (actors s))%nat -> exists a, get s v = Some a.
Proof. unfold get. intros H. destruct (nth_error (actors s) v) eqn:E; [eauto|]. apply nth_error_None in E. lia. Qed.

Lemma sr_refl s : sr s s.
Proof.
  split; [lia|]. split.
  - intros v a H. exists a, []. split; [exact H|]. split; [reflexivity|]. split; [rewrite app_nil_r; reflexivity|apply fresh_nil].
  - intros v a' H Hge. apply get_lt in H. lia.
Qed.
Lemma sr_len s s' : sr s s' -> (length (actors s) <= length (actors s'))%nat.
Proof.
  intros (_ & A & _). destruct (Nat.le_gt_cases (length (actors s)) (length (actors s'))) as [H|H]; [exact H|].
  destruct (get_of_lt s (length (actors s')) H) as (a & Ha). destruct (A _ _ Ha) as (a' & app & G & _). apply get_lt in G. lia.
Qed.
Lemma sr_trans s1 s2 s3 : sr s1 s2 -> sr s2 s3 -> sr s1 s3.
Proof.
  intros K1 K2. pose proof (sr_len _ _ K1) as Len1. destruct K1 as (L1 & A1 & B1). destruct K2 as (L2 & A2 & B2). split; [lia|]. split.
  - intros v a H. destruct (A1 v a H) as (a2 & p1 & G2 & I2 & Q2 & F2).
    destruct (A2 v a2 G2) as (a3 & p2 & G3 & I3 & Q3 & F3). exists a3, (p1 ++ p2). split; [exact G3|]. split; [congruence|].
    split; [rewrite Q3, Q2, app_assoc; reflexivity|eapply fresh_app; eassumption].
  - intros v a3 H3 Hge. destruct (Nat.lt_ge_cases v (length (actors s2))) as [Hlt|Hge2].
    + destruct (get_of_lt s2 v Hlt) as (a2 & G2). destruct (B1 v a2 G2 Hge) as [I2 F2].
      destruct (A2 v a2 G2) as (a3' & p2 & G3 & I3 & Q3 & F3). rewrite H3 in G3. inversion G3; subst a3'.
      split; [congruence|]. rewrite Q3. eapply fresh_app; eassumption.
    + destruct (B2 v a3 H3 Hge2) as [I3 F3]. split; [exact I3|]. eapply fresh_widen; [exact F3|lia|lia].
Qed.
Lemma sr_same s s' : actors s' = actors s -> serial s' = serial s -> sr s s'.
Proof.
  intros A S. split; [lia|]. split.
  - intros v a H. exists a, []. unfold get in *. rewrite A. split; [exact H|]. split; [reflexivity|].
    split; [rewrite app_nil_r; reflexivity|apply fresh_nil].
  - intros v a' H Hge. apply get_lt in H. rewrite A in H. lia.
Qed.
Lemma sr_put s w a0 b : get s w = Some a0 -> a_inflight b = a_inflight a0 ->
  (exists app, a_userq b = a_userq a0 ++ app /\ fresh (serial s) (serial s) app) -> sr s (put s w b).
Proof.
  intros Hw Hi (app & Hq & Hf). split; [cbn [serial put set_actors]; lia|]. split.
  - intros v a H. destruct (Nat.eq_dec w v) as [->|Hne].
    + rewrite Hw in H. inversion H; subst a. exists b, app. split; [eapply get_put_same; exact Hw|]. auto.
    + exists a, []. split; [rewrite get_put_other by assumption; exact H|]. split; [reflexivity|]. split; [rewrite app_nil_r; reflexivity|apply fresh_nil].
  - intros v a' H Hge. apply get_lt in H. unfold put, set_actors in H; cbn [actors] in H. rewrite upd_length in H. lia.
Qed.
Lemma sr_upd_actor s w f : (forall a, a_inflight (f a) = a_inflight a /\ a_userq (f a) = a_userq a) -> sr s (upd_actor s w f).
Proof.
  intros Hf. unfold upd_actor. destruct (get s w) as [a0|] eqn:E; [|apply sr_refl]. destruct (Hf a0) as [H1 H2].
  eapply sr_put; [exact E|exact H1|]. exists []. split; [rewrite app_nil_r; exact H2|apply fresh_nil].
Qed.
Ltac ks := intros; split; reflexivity.
Lemma sr_append s x : a_inflight x = None -> a_userq x = [] -> sr s (set_actors s (actors s ++ [x])).
Proof.
  intros Hi Hq. split; [cbn [serial set_actors]; lia|]. split.
  - intros v a H. exists a, []. split; [|split; [reflexivity|split; [rewrite app_nil_r; reflexivity|apply fresh_nil]]].
    unfold get, set_actors in *; cbn [actors]. rewrite nth_error_app1; [exact H|]. apply nth_error_Some. congruence.
  - intros v a' H Hge. unfold get, set_actors in H; cbn [actors] in H. rewrite nth_error_app2 in H by exact Hge.
    destruct (v - length (actors s))%nat as [|k]; cbn in H; [|destruct k; discriminate]. inversion H; subst a'.
    split; [exact Hi|]. rewrite Hq. apply fresh_nil.
Qed.
Lemma sr_push_sys s w e : sr s (push_sys s w e).
Proof. unfold push_sys. apply sr_upd_actor. intros a. destruct (e_msg e); split; reflexivity. Qed.
Lemma sr_deliver_sys s t' snd m : sr s (deliver_sys s t' snd m).
Proof.
  unfold deliver_sys. destruct (lookup t' (registry s)); [apply sr_push_sys|].
  destruct m; try apply sr_refl. destruct (lookup snd (registry s)); [apply sr_push_sys|apply sr_refl].
Qed.

Section O.
Variable roles : list role.


Lemma sr_to_sub s : sr s (to_sub s).
Proof.
  unfold to_sub. destruct (lookup rSub (registry s)) as [u|]; [|apply sr_refl]. unfold upd_actor. destruct (get s u) as [a|] eqn:E; [|apply sr_refl].
  eapply sr_put; [exact E|reflexivity|]. exists [mk_env rGuard rSub UPub]. split; [reflexivity|apply fresh_noprobe; reflexivity].
Qed.
Lemma sr_abyss_user s snd rcv m s' o : abyss_user s snd rcv m = (s', o) -> sr s s'.
Proof.
  unfold abyss_user. destruct m; intros H; inversion H; subst; try apply sr_refl;
    destruct (rcv =? rSub); try apply sr_refl; apply sr_to_sub.
Qed.
Lemma sr_deliver_user s t' snd m s' o : probe_ok s m -> deliver_user s t' snd m = (s', o) -> sr s s'.
Proof.
  intros Hm. unfold deliver_user. destruct (lookup t' (registry s)) as [w|]; [|apply sr_abyss_user].
  destruct (get s w) as [a|] eqn:E; [|apply sr_abyss_user].
  intros H; inversion H; subst. eapply sr_put; [exact E|reflexivity|]. exists [mk_env snd t' m]. split; [reflexivity|].
  unfold fresh, serials, pserial. cbn [flat_map e_msg mk_env app]. destruct m as [n k| |]; cbn [probe_ok] in Hm; [|split; constructor|split; constructor].
  subst k. cbn [app]. split; [repeat constructor|repeat constructor; lia].
Qed.
Lemma sr_terminate s self t' g s' o : terminate s self t' g = (s', o) -> sr s s'.
Proof.
  unfold terminate. destruct g; [apply sr_deliver_user; exact I|]. intros H; inversion H; subst. apply sr_deliver_sys.
Qed.
Lemma sr_terminate_all cs : forall s self g s' o, terminate_all s self cs g = (s', o) -> sr s s'.
Proof.
  induction cs as [|c rest IH]; intros s self g s' o; cbn [terminate_all].
  - intros H; inversion H; subst. apply sr_refl.
  - destruct (terminate s self c g) as [s1 o1] eqn:E1. destruct (terminate_all s1 self rest g) as [s2 o2] eqn:E2.
    intros H; inversion H; subst. eapply sr_trans; [eapply sr_terminate; exact E1|eapply IH; exact E2].
Qed.
Lemma sr_notify_all ws : forall s self, sr s (notify_all s self ws).
Proof.
  induction ws as [|w rest IH]; intros s self; cbn [notify_all]; [apply sr_refl|].
  eapply sr_trans; [|apply IH]. apply sr_deliver_sys.
Qed.
Lemma sr_restart_all cs : forall s self, sr s (restart_all s self cs).
Proof.
  induction cs as [|c rest IH]; intros s self; cbn [restart_all]; [apply sr_refl|].
  eapply sr_trans; [|apply IH]. apply sr_deliver_sys.
Qed.
Lemma sr_stop s w self t' s' o p : stop_if_parent_gone s w self t' = (s', o, p) -> sr s s'.
Proof.
  unfold stop_if_parent_gone. destruct (get s w) as [pa|]; [|intros H; inversion H; subst; apply sr_refl].
  destruct (not_alive (a_st pa)); [|intros H; inversion H; subst; apply sr_refl].
  destruct (terminate s self t' (a_graceful pa)) as [s1 o1] eqn:E. intros H; inversion H; subst. eapply sr_terminate; exact E.
Qed.
Lemma sr_spawn s w self t' r s' o p : spawn s w self t' r = (s', o, p) -> sr s s'.
Proof.
  unfold spawn. destruct (provide s t') as [s1 inst] eqn:Ep.
  assert (K1 : sr s s1) by (apply sr_same; unfold provide in Ep; inversion Ep; subst; reflexivity).
  set (s2 := set_actors s1 (actors s1 ++ [new_actor t' self r inst])).
  assert (K2 : sr s s2) by (eapply sr_trans; [exact K1|apply sr_append; reflexivity]).
  change (registry s2) with (registry s1) in *. destruct (lookup t' (registry s1)).
  - intros H; inversion H; subst. eapply sr_trans; [exact K1|apply sr_append; reflexivity].
  - intros H. eapply sr_trans; [|eapply sr_stop; exact H]. eapply sr_trans; [exact K2|].
    eapply sr_trans; [|apply sr_deliver_sys]. eapply sr_trans; [|apply sr_upd_actor; ks].
    apply sr_same; reflexivity.
Qed.
Lemma sr_escalate s w r s' o p : escalate s w r = (s', o, p) -> sr s s'.
Proof.
  unfold escalate. destruct (get s w) as [a|]; [|intros H; inversion H; subst; apply sr_refl].
  destruct (a_parent a =? rNone); intros H; inversion H; subst.
  - apply sr_same; reflexivity.
  - apply sr_deliver_sys.
Qed.
Lemma sr_report_abnormal s w s' o p : report_abnormal roles s w = (s', o, p) -> sr s s'.
Proof.
  unfold report_abnormal. destruct (get s w) as [a|]; [|intros H; inversion H; subst; apply sr_refl].
  destruct (a_st a); try (intros H; inversion H; subst; apply sr_refl).
  intros H. apply sr_escalate in H. eapply sr_trans; [|exact H].
  eapply sr_trans; [|apply sr_deliver_sys]. apply sr_upd_actor; ks.
Qed.
Lemma serial_upd_actor s u f : serial (upd_actor s u f) = serial s.
Proof. unfold upd_actor. destruct (get s u); reflexivity. Qed.
Lemma serial_deliver_user s t snd m s' o : deliver_user s t snd m = (s', o) -> serial s' = serial s.
Proof.
  unfold deliver_user. assert (A : forall s1 o1, abyss_user s snd t m = (s1, o1) -> serial s1 = serial s).
  { unfold abyss_user. intros s1 o1. destruct m; intros H; inversion H; subst; try reflexivity; destruct (t =? rSub); try reflexivity;
      unfold to_sub; destruct (lookup rSub (registry s)); try reflexivity; apply serial_upd_actor. }
  destruct (lookup t (registry s)) as [u|]; [|apply A]. destruct (get s u); [|apply A]. intros H; inversion H; subst. reflexivity.
Qed.
Lemma sr_send_each ts : forall s self n k s' o, k = serial s -> send_each s self ts n k = (s', o) -> sr s s'.
Proof.
  induction ts as [|t' rest IH]; intros s self n k s' o Hk; cbn [send_each].
  - intros H; inversion H; subst. apply sr_refl.
  - destruct (deliver_user s t' self (UProbe n k)) as [s1 o1] eqn:E1.
    destruct (send_each s1 self rest n k) as [s2 o2] eqn:E2. intros H; injection H as <- <-.
    eapply sr_trans; [eapply (sr_deliver_user s t' self (UProbe n k)); [exact Hk|exact E1]|eapply IH; [|exact E2]]. rewrite (serial_deliver_user _ _ _ _ _ _ E1). exact Hk.
Qed.
Lemma sr_next s s1 k : next_serial s = (s1, k) -> sr s s1 /\ k = serial s1.
Proof.
  unfold next_serial. intros H; inversion H; subst. split; [|reflexivity]. split; [cbn [serial]; lia|]. split.
  - intros v a Ha. exists a, []. split; [exact Ha|]. split; [reflexivity|]. split; [rewrite app_nil_r; reflexivity|split; constructor].
  - intros v a' Ha Hge. apply get_lt in Ha. cbn [actors] in Ha. lia.
Qed.
Lemma sr_do_action s w snd act s' o p : do_action roles s w snd act = (s', o, p) -> sr s s'.
Proof.
  unfold do_action. destruct (get s w) as [a|]; [|intros H; inversion H; subst; apply sr_refl].
  destruct act.
  - destruct (next_serial s) as [s1 k] eqn:En. destruct (sr_next _ _ _ En) as [N1 Hk]. destruct (deliver_user s1 t rNone (UProbe n k)) as [s2 o2] eqn:E.
    intros H; inversion H; subst. eapply sr_trans; [exact N1|eapply sr_deliver_user; [|exact E]]. reflexivity.
  - destruct (next_serial s) as [s1 k] eqn:En. destruct (sr_next _ _ _ En) as [N1 Hk]. destruct (deliver_user s1 t (a_tok a) (UProbe n k)) as [s2 o2] eqn:E.
    intros H; inversion H; subst. eapply sr_trans; [exact N1|eapply sr_deliver_user; [|exact E]]. reflexivity.
  - destruct (next_serial s) as [s1 k] eqn:En. destruct (sr_next _ _ _ En) as [N1 Hk]. destruct (deliver_user s1 snd (a_tok a) (UProbe n k)) as [s2 o2] eqn:E.
    intros H; inversion H; subst. eapply sr_trans; [exact N1|eapply sr_deliver_user; [|exact E]]. reflexivity.
  - destruct (next_serial s) as [s1 k] eqn:En. destruct (sr_next _ _ _ En) as [N1 Hk]. destruct (send_each s1 (a_tok a) (a_children a) n k) as [s2 o2] eqn:E.
    intros H; inversion H; subst. eapply sr_trans; [exact N1|eapply sr_send_each; [|exact E]]. reflexivity.
  - destruct (spawn s w (a_tok a) t r) as [[s1 o1] p1] eqn:E. intros H; inversion H; subst. eapply sr_spawn; exact E.
  - destruct (terminate s (a_tok a) t g) as [s1 o1] eqn:E. intros H; inversion H; subst. eapply sr_terminate; exact E.
  - intros H; inversion H; subst. apply sr_deliver_sys.
  - intros H; inversion H; subst. apply sr_deliver_sys.
  - destruct (report_abnormal roles s w) as [[s1 o1] p1] eqn:E. intros H; inversion H; subst. eapply sr_report_abnormal; exact E.
  - intros H; inversion H; subst. apply sr_refl.
Qed.
Lemma sr_do_actions acts : forall s w snd s' o p, do_actions roles s w snd acts = (s', o, p) -> sr s s'.
Proof.
  induction acts as [|act rest IH]; intros s w snd s' o p; cbn [do_actions].
  - intros H; inversion H; subst. apply sr_refl.
  - apply (bind_rel sr); [apply sr_trans| |].
    + intros s1 o1 p1 E. eapply sr_do_action; exact E.
    + intros s1 s2 o2 p2 E. eapply IH; exact E.
Qed.
Lemma sr_handle_q q s w tr k snd s' o p : handle_q roles q s w tr k snd = (s', o, p) -> sr s s'.
Proof.
  unfold handle_q. destruct (get s w) as [a|]; [|intros H; inversion H; subst; apply sr_refl].
  destruct q; [intros H; inversion H; subst; apply sr_refl|].
  destruct (do_actions roles s w snd (find_rule (rules (role_of roles a)) tr (a_inst a))) as [[s1 o1] p1] eqn:E.
  intros H; inversion H; subst. eapply sr_do_actions; exact E.
Qed.
Lemma sr_handle s w tr k snd s' o p : handle roles s w tr k snd = (s', o, p) -> sr s s'.
Proof. unfold handle. destruct (get s w); [apply sr_handle_q|intros H; inversion H; subst; apply sr_refl]. Qed.

Lemma sr_try_terminated s w snd s' o p : try_terminated roles s w snd = (s', o, p) -> sr s s'.
Proof.
  unfold try_terminated. destruct (get s w) as [a|]; [|intros H; inversion H; subst; apply sr_refl].
  destruct (a_children a); [|intros H; inversion H; subst; apply sr_refl].
  destruct (a_st a); try (intros H; inversion H; subst; apply sr_refl).
  apply (bind_rel sr); [apply sr_trans| |].
  - intros s1 o1 p1 E. eapply sr_trans; [|eapply sr_handle; exact E]. apply sr_upd_actor; ks.
  - intros s1 s2 o2 p2.
    set (sreg := set_registry s1 (remove_key (a_tok a) (registry s1))).
    set (sn := notify_all sreg (a_tok a) (filter (fun w0 => negb (w0 =? a_parent a)) (a_watchers a))).
    assert (Kn : sr s1 sn).
    { apply sr_trans with (s2 := sreg); [apply sr_same; reflexivity|apply sr_notify_all]. }
    destruct (a_parent a =? rNone); intros H; inversion H; subst.
    + eapply sr_trans; [exact Kn|apply sr_same; reflexivity].
    + eapply sr_trans; [exact Kn|]. apply sr_deliver_sys.
Qed.

Lemma sr_start_instance s w self parent s' o p : start_instance roles s w self parent = (s', o, p) -> sr s s'.
Proof.
  unfold start_instance. destruct (handle roles s w TRD 0%nat self) as [[s1 o1] p1] eqn:E1.
  destruct (handle roles s1 w TL 0%nat parent) as [[s2 o2] p2] eqn:E2. intros H; inversion H; subst.
  eapply sr_trans; [eapply sr_handle; exact E1|]. eapply sr_trans; [eapply sr_handle; exact E2|].
  destruct p2; [apply sr_refl|apply sr_upd_actor; ks].
Qed.

Lemma sr_process_user s w e s' o p : process_user roles s w e = (s', o, p) -> sr s s'.
Proof.
  unfold process_user. destruct (get s w) as [a|]; [|intros H; inversion H; subst; apply sr_refl].
  destruct (st_ge_terminating (a_st a)).
  - destruct (abyss_user s (e_snd e) (e_rcv e) (e_msg e)) as [s1 o1] eqn:E. intros H; inversion H; subst. eapply sr_abyss_user; exact E.
  - destruct (e_msg e).
    + apply sr_handle_q.
    + intros H; inversion H; subst. eapply sr_trans; [|apply sr_deliver_sys]. apply sr_upd_actor; ks.
    + intros H; inversion H; subst. apply sr_refl.
Qed.


Lemma sr_apply_directive s w r d snd s' o p : apply_directive roles s w r d snd = (s', o, p) -> sr s s'.
Proof.
  unfold apply_directive. destruct (get s w) as [a|]; [|intros H; inversion H; subst; apply sr_refl].
  destruct d.
  - intros H; inversion H; subst. apply sr_deliver_sys.
  - destruct (terminate s (a_tok a) (ar_vref r) false) as [s1 o1] eqn:E1.
    destruct (try_terminated roles s1 w snd) as [[s2 o2] p2] eqn:E2. intros H; inversion H; subst.
    eapply sr_trans; [eapply sr_terminate; exact E1|eapply sr_try_terminated; exact E2].
  - intros H; inversion H; subst. apply sr_deliver_sys.
  - destruct (escalate s w r) as [[s1 o1] p1] eqn:E. intros H; inversion H; subst. eapply sr_escalate; exact E.
  - intros H; inversion H; subst. apply sr_restart_all.
Qed.
Lemma sr_on_accident s w r snd s' o p : on_accident roles s w r snd = (s', o, p) -> sr s s'.
Proof.
  unfold on_accident. destruct (get s w) as [a|]; [|intros H; inversion H; subst; apply sr_refl].
  destruct (ar_strategy r); [apply sr_apply_directive|].
  destruct (sup (role_of roles a)); [apply sr_escalate|apply sr_apply_directive].
Qed.
Lemma sr_drop_child s w who : sr s (drop_child s w who).
Proof. unfold drop_child. destruct (lookup who (registry s)); [apply sr_refl|apply sr_upd_actor; ks]. Qed.


Lemma sr_try_restarted s w snd s' o p : try_restarted roles s w snd = (s', o, p) -> sr s s'.
Proof.
  unfold try_restarted. destruct (get s w) as [a|]; [|intros H; inversion H; subst; apply sr_refl].
  destruct (a_children a); [|intros H; inversion H; subst; apply sr_refl].
  destruct (a_st a); try (intros H; inversion H; subst; apply sr_refl).
  destruct (provide s (a_tok a)) as [s0 inst] eqn:Ep.
  assert (K0 : sr s s0) by (apply sr_same; unfold provide in Ep; inversion Ep; subst; reflexivity).
  intros H. eapply sr_trans; [exact K0|]. revert H.
  apply (bind_rel sr); [apply sr_trans|intros s1 o1 p1 E; eapply sr_handle; exact E|].
  intros s1 s2 o2 p2. apply (bind_rel sr); [apply sr_trans|intros sa oa pa E; eapply sr_handle; exact E|].
  intros sa sb ob pb H. eapply sr_trans; [|eapply sr_start_instance; exact H].
  eapply sr_trans; [|apply sr_deliver_sys]. apply sr_upd_actor; ks.
Qed.

Lemma sr_process_sys s w e s' o p : process_sys roles s w e = (s', o, p) -> sr s s'.
Proof.
  unfold process_sys. destruct (get s w) as [a|]; [|intros H; inversion H; subst; apply sr_refl].
  match goal with |- context [if ?d then _ else _] => destruct d end; [intros H; inversion H; subst; apply sr_refl|].
  destruct (e_msg e) as [| |g|who| |r| | | | |].
  - apply (bind_rel sr); [apply sr_trans|intros s1 o1 p1 E; eapply sr_handle; exact E|].
    intros s1 s2 o2 p2 H; inversion H; subst. apply sr_upd_actor; ks.
  - apply sr_handle.
  - assert (HT : forall x,
      (handle roles x w TT 0 (e_snd e) >>= (fun s3 =>
         match get s3 w with
         | None => ok s3 []
         | Some a3 =>
             let '(s4, o4) := terminate_all s3 (a_tok a3) (a_children a3) (g || a_graceful a3) in
             let '(s5, o5, p) := try_terminated roles s4 w (e_snd e) in (s5, o4 ++ o5, p)
         end)) = (s', o, p) -> sr x s').
    { intros x. apply (bind_rel sr); [apply sr_trans|intros s1 o1 p1 E; eapply sr_handle; exact E|].
      intros s1 s2 o2 p2. destruct (get s1 w) as [a3|]; [|intros H; inversion H; subst; apply sr_refl].
      destruct (terminate_all s1 (a_tok a3) (a_children a3) (g || a_graceful a3)) as [s4 o4] eqn:E4.
      destruct (try_terminated roles s4 w (e_snd e)) as [[s5 o5] p5] eqn:E5. intros H; inversion H; subst.
      eapply sr_trans; [eapply sr_terminate_all; exact E4|eapply sr_try_terminated; exact E5]. }
    assert (Pre : sr s (deliver_sys (upd_actor s w (w_st Terminating)) (a_tok a) (a_tok a) SResume)).
    { apply sr_trans with (s2 := upd_actor s w (w_st Terminating)); [apply sr_upd_actor; ks|apply sr_deliver_sys]. }
    destruct (a_st a); try (intros H; inversion H; subst; apply sr_refl); (intros H; eapply sr_trans; [exact Pre|apply HT; exact H]).
  - intros H. apply sr_trans with (s2 := drop_child s w who); [apply sr_drop_child|]. revert H.
    apply (bind_rel sr); [apply sr_trans|intros s1 o1 p1 E; eapply sr_handle; exact E|].
    intros s1 s2 o2 p2. destruct (get s1 w) as [a2|]; [|intros H; inversion H; subst; apply sr_refl].
    destruct (a_st a2); try (intros H; inversion H; subst; apply sr_refl); [apply sr_try_restarted|apply sr_try_terminated].
  - destruct (a_st a); try (intros H; inversion H; subst; apply sr_refl).
    assert (Pre : sr s (deliver_sys (upd_actor s w (w_st Restarting)) (a_tok a) (a_tok a) SSuspend)).
    { apply sr_trans with (s2 := upd_actor s w (w_st Restarting)); [apply sr_upd_actor; ks|apply sr_deliver_sys]. }
    intros H. eapply sr_trans; [exact Pre|]. revert H.
    apply (bind_rel sr); [apply sr_trans|intros s1 o1 p1 E; eapply sr_handle; exact E|].
    intros s1 s2 o2 p2. destruct (get s1 w) as [a2|]; [|intros H; inversion H; subst; apply sr_refl].
    destruct (terminate_all s1 (a_tok a2) (a_children a2) false) as [s3 o3] eqn:E3.
    destruct (try_restarted roles s3 w (e_snd e)) as [[s4 o4] p4] eqn:E4. intros H; inversion H; subst.
    eapply sr_trans; [eapply sr_terminate_all; exact E3|eapply sr_try_restarted; exact E4].
  - apply sr_on_accident.
  - destruct (e_snd e =? a_parent a); [intros H; inversion H; subst; apply sr_refl|].
    destruct (st_ge_terminating (a_st a)); intros H; inversion H; subst; [apply sr_deliver_sys|apply sr_upd_actor; ks].
  - intros H; inversion H; subst. apply sr_upd_actor; ks.
  - intros H; inversion H; subst. apply sr_refl.
  - intros H; inversion H; subst. apply sr_refl.
  - destruct (a_st a); intros H; inversion H; subst; try apply sr_refl. apply sr_deliver_sys.
Qed.

Lemma sr_run_inner s0 w m s1 o1 : Frame.run_inner roles s0 w m = (s1, o1) -> sr s0 s1.
Proof.
  unfold Frame.run_inner. destruct (match m with MS e => process_sys roles s0 w e | MU e => process_user roles s0 w e end) as [[sx ox] px] eqn:E.
  assert (X : sr s0 sx) by (destruct m; [eapply sr_process_sys; exact E|eapply sr_process_user; exact E]).
  destruct px; [|intros H; inversion H; subst; exact X]. destruct (crashed sx); [intros H; inversion H; subst; exact X|].
  destruct (report_abnormal roles sx w) as [[sy oy] py] eqn:Ey. intros H; inversion H; subst.
  eapply sr_trans; [exact X|eapply sr_report_abnormal; exact Ey].
Qed.

(* ---------- what one run of a mailbox shows: at most the number of the message that was in flight ---------- *)
Definition tser1 (x : obs) : list nat := match x with OH _ _ (TP _) sn _ => [sn] | _ => [] end.
Definition tser (o : list obs) : list nat := flat_map tser1 o.
Lemma tser_notp o : notp o -> tser o = [].
Proof.
  induction o as [|x o IH]; intros H; [reflexivity|]. unfold tser in *. cbn [flat_map]. rewrite IH.
  - destruct x as [a i tr sn sd| | | | | | | | | | | |]; try reflexivity. destruct tr; try reflexivity. exfalso. eapply H. left. reflexivity.
  - intros a i n sn sd Hin. eapply H. right. exact Hin.
Qed.
Lemma tser_app a b : tser (a ++ b) = tser a ++ tser b.
Proof. unfold tser. apply flat_map_app. Qed.
Definition mser (m : anymsg) : list nat := match m with MU e => pserial e | MS _ => [] end.

Lemma tser_process_user s w e s' o p : process_user roles s w e = (s', o, p) -> tser o = [] \/ tser o = pserial e.
Proof.
  unfold process_user. destruct (get s w) as [a|]; [|intros H; inversion H; subst; left; reflexivity].
  destruct (st_ge_terminating (a_st a)).
  - destruct (abyss_user s (e_snd e) (e_rcv e) (e_msg e)) as [s1 o1] eqn:E. intros H; inversion H; subst. left.
    apply tser_notp, notp_nh. eapply nh_abyss_user; exact E.
  - unfold pserial. destruct (e_msg e) as [n k| |].
    + intros H. destruct (handle_q_obs roles _ _ _ _ _ _ _ _ _ H) as [Hn|(a' & o1 & sd & _ & -> & Hn)]; [left; apply tser_notp, notp_nh; exact Hn|].
      right. unfold tser. cbn [flat_map tser1]. fold (tser o1). rewrite (tser_notp o1) by (apply notp_nh; exact Hn). reflexivity.
    + intros H; inversion H; subst. left. reflexivity.
    + intros H; inversion H; subst. left. reflexivity.
Qed.
Lemma tser_run_inner s0 w m s1 o1 : Frame.run_inner roles s0 w m = (s1, o1) -> tser o1 = [] \/ tser o1 = mser m.
Proof.
  unfold Frame.run_inner. destruct (match m with MS e => process_sys roles s0 w e | MU e => process_user roles s0 w e end) as [[sx ox] px] eqn:E.
  assert (X : tser ox = [] \/ tser ox = mser m).
  { destruct m as [e|e]; [left; apply tser_notp; eapply notp_process_sys; exact E|eapply tser_process_user; exact E]. }
  destruct px; [|intros H; inversion H; subst; exact X]. destruct (crashed sx); [intros H; inversion H; subst; exact X|].
  destruct (report_abnormal roles sx w) as [[sy oy] py] eqn:Ey. intros H; inversion H; subst.
  rewrite tser_app, (tser_notp oy) by (apply notp_nh; eapply nh_report_abnormal; exact Ey). rewrite app_nil_r. exact X.
Qed.

(* the numbers object v shows as handled in a step *)
Definition hser (v : nat) (l : label) (o : list obs) : list nat :=
  match l with LRun u => if Nat.eqb (Z.to_nat u) v then tser o else [] | _ => [] end.

(* one step, seen from object v: its sequence loses at most its head — shown as handled, if anything is — and gains fresh numbers at the tail *)
Definition stepv (s s1 : kstate) (v : nat) (h : list nat) : Prop :=
  match get s v with
  | None => h = [] /\ forall a1, get s1 v = Some a1 -> fresh (serial s) (serial s1) (seq a1)
  | Some a => exists a1 app, get s1 v = Some a1 /\ fresh (serial s) (serial s1) app /\
      ((seq a1 = seq a ++ app /\ h = []) \/
       (exists e q, seq a = e :: q /\ seq a1 = q ++ app /\ (h = [] \/ h = pserial e)))
  end.

Lemma sr_normalize_stepv s s1 v : sr s s1 -> stepv s (normalize s1) v [].
Proof.
  intros (L & A & B). unfold stepv. destruct (get s v) as [a|] eqn:Ea.
  - destruct (A v a Ea) as (a1 & app & G1 & I1 & Q1 & F1). exists (pop1 a1), app. split; [rewrite get_normalize', G1; reflexivity|].
    split; [exact F1|]. left. split; [|reflexivity]. rewrite seq_pop1. unfold seq, inflight_user. rewrite I1, Q1, app_assoc. reflexivity.
  - split; [reflexivity|]. intros a1 G1. rewrite get_normalize' in G1. destruct (get s1 v) as [b|] eqn:Eb; [|discriminate]. cbn in G1. inversion G1; subst a1.
    assert (Hge : (length (actors s) <= v)%nat) by (unfold get in Ea; apply nth_error_None; exact Ea).
    destruct (B v b Eb Hge) as [I F]. rewrite seq_pop1. unfold seq, inflight_user. rewrite I. exact F.
Qed.
Lemma stepv_serial s s0 s1 v h : actors s0 = actors s -> (serial s <= serial s0 <= serial s1)%nat -> stepv s0 s1 v h -> stepv s s1 v h.
Proof.
  intros HA [H1 H2]. unfold stepv, get. rewrite HA. destruct (nth_error (actors s) v) as [a|].
  - intros (a1 & app & G & F & X). exists a1, app. split; [exact G|]. split; [|exact X]. eapply fresh_widen; [exact F|lia|lia].
  - intros [Hh X]. split; [exact Hh|]. intros a1 G. eapply fresh_widen; [apply X; exact G|lia|lia].
Qed.

Theorem kstep_stepv s l s1 o : kstep roles s l = Some (s1, o) -> (serial s <= serial s1)%nat /\ forall v, stepv s s1 v (hser v l o).
Proof.
  destruct l; cbn [kstep hser].
  - (* LRun *) destruct (run_actor roles s (Z.to_nat u)) as [[sx ox]|] eqn:E; [|discriminate]. intros H; injection H as <- <-.
    destruct (get s (Z.to_nat u)) as [au|] eqn:Eu; [|unfold run_actor in E; rewrite Eu in E; discriminate].
    destruct (a_inflight au) as [m|] eqn:Em; [|unfold run_actor in E; rewrite Eu, Em in E; discriminate].
    rewrite (run_actor_inner roles s (Z.to_nat u) au m Eu Em) in E.
    set (s0 := upd_actor s (Z.to_nat u) (w_inflight None)) in *.
    assert (Ein : Frame.run_inner roles s0 (Z.to_nat u) m = (sx, ox)) by (inversion E; reflexivity).
    pose proof (sr_run_inner _ _ _ _ _ Ein) as K. pose proof (tser_run_inner _ _ _ _ _ Ein) as T.
    assert (S0 : serial s0 = serial s) by apply serial_upd_actor.
    split; [destruct K as (L & _); cbn [serial normalize set_actors]; lia|]. intros v.
    destruct K as (L & A & B). unfold stepv. destruct (Nat.eq_dec (Z.to_nat u) v) as [Ev|Ev].
    + subst v. rewrite Nat.eqb_refl, Eu.
      assert (G0 : get s0 (Z.to_nat u) = Some (w_inflight None au)) by (apply get_upd_actor_same; exact Eu).
      destruct (A _ _ G0) as (a1 & ap & G1 & I1 & Q1 & F1). exists (pop1 a1), ap. split; [rewrite get_normalize', G1; reflexivity|].
      split; [rewrite <- S0; exact F1|]. rewrite seq_pop1.
      assert (Sa1 : seq a1 = a_userq au ++ ap) by (unfold seq, inflight_user; rewrite I1, Q1; reflexivity).
      assert (Sau : seq au = match m with MU e => e :: a_userq au | MS _ => a_userq au end) by (unfold seq, inflight_user; rewrite Em; destruct m; reflexivity).
      rewrite Sa1, Sau. destruct m as [e|e]; cbn [mser] in T.
      * left. split; [reflexivity|]. destruct T as [T|T]; exact T.
      * right. exists e, (a_userq au). split; [reflexivity|]. split; [reflexivity|exact T].
    + apply Nat.eqb_neq in Ev. rewrite Ev. apply Nat.eqb_neq in Ev. destruct (get s v) as [a|] eqn:Ea.
      * assert (G0 : get s0 v = Some a) by (unfold s0, upd_actor; rewrite Eu; rewrite get_put_other by exact Ev; exact Ea).
        destruct (A _ _ G0) as (a1 & ap & G1 & I1 & Q1 & F1). exists (pop1 a1), ap. split; [rewrite get_normalize', G1; reflexivity|].
        split; [rewrite <- S0; exact F1|]. left. split; [|reflexivity]. rewrite seq_pop1. unfold seq, inflight_user. rewrite I1, Q1, app_assoc. reflexivity.
      * split; [reflexivity|]. intros a1 G1. rewrite get_normalize' in G1. destruct (get sx v) as [b|] eqn:Eb; [|discriminate]. cbn in G1. inversion G1; subst a1.
        assert (Hge : (length (actors s0) <= v)%nat).
        { unfold s0, upd_actor. rewrite Eu. unfold put, set_actors; cbn [actors]. rewrite upd_length. unfold get in Ea. apply nth_error_None; exact Ea. }
        destruct (B v b Eb Hge) as [I F]. rewrite seq_pop1. unfold seq, inflight_user. rewrite I. rewrite <- S0. exact F.
  - destruct (next_serial s) as [s0 k] eqn:En. destruct (sr_next _ _ _ En) as [N1 Hk]. destruct (deliver_user s0 t rNone (UProbe n k)) as [s2 o2] eqn:E.
    intros H; inversion H; subst s1 o. pose proof (sr_trans _ _ _ N1 (sr_deliver_user s0 _ _ (UProbe n k) _ _ Hk E)) as K.
    split; [destruct K as (L & _); cbn [serial normalize set_actors]; exact L|]. intros v. apply sr_normalize_stepv. exact K.
  - destruct (next_serial s) as [s0 k] eqn:En. destruct (sr_next _ _ _ En) as [N1 Hk]. destruct (deliver_user s0 t rGuard (UProbe n k)) as [s2 o2] eqn:E.
    intros H; inversion H; subst s1 o. pose proof (sr_trans _ _ _ N1 (sr_deliver_user s0 _ _ (UProbe n k) _ _ Hk E)) as K.
    split; [destruct K as (L & _); cbn [serial normalize set_actors]; exact L|]. intros v. apply sr_normalize_stepv. exact K.
  - destruct (terminate s rGuard t g) as [s2 o2] eqn:E. intros H; inversion H; subst s1 o. pose proof (sr_terminate _ _ _ _ _ _ E) as K.
    split; [destruct K as (L & _); cbn [serial normalize set_actors]; exact L|]. intros v. apply sr_normalize_stepv. exact K.
  - destruct (spawn s guard_uid rGuard t r) as [[s2 o2] p] eqn:E. intros H; inversion H; subst s1 o. pose proof (sr_spawn _ _ _ _ _ _ _ _ E) as K.
    split; [destruct K as (L & _); cbn [serial normalize set_actors]; exact L|]. intros v. apply sr_normalize_stepv. exact K.
  - destruct (terminate s rGuard rGuard g) as [s2 o2] eqn:E. intros H; inversion H; subst s1 o. pose proof (sr_terminate _ _ _ _ _ _ E) as K.
    split; [destruct K as (L & _); cbn [serial normalize set_actors]; exact L|]. intros v. apply sr_normalize_stepv. exact K.
  - intros H; inversion H; subst s1 o. split; [lia|]. intros v. unfold stepv. destruct (get s v) as [a|] eqn:Ea.
    + exists a, []. split; [reflexivity|]. split; [apply fresh_nil|]. left. split; [rewrite app_nil_r; reflexivity|reflexivity].
    + split; [reflexivity|]. intros a1 G. discriminate.
Qed.

(* ---------- the invariant and the trace theorem ---------- *)
Definition SIa (n : nat) (a : actor) : Prop := Sorted le (serials (seq a)) /\ Forall (fun k => (k <= n)%nat) (serials (seq a)).
Definition SI (s : kstate) : Prop := forall v a, get s v = Some a -> SIa (serial s) a.

Lemma Sorted_app_r (a b : list nat) : Sorted le (a ++ b) -> Sorted le b.
Proof. induction a as [|x a IH]; cbn [app]; intros H; [exact H|]. inversion H; subst. apply IH. assumption. Qed.
Lemma Sorted_app_all (a b : list nat) : Sorted le a -> Sorted le b -> (forall x y, In x a -> In y b -> (x <= y)%nat) -> Sorted le (a ++ b).
Proof.
  intros Sa Sb Hab. induction a as [|x a IH]; [exact Sb|]. cbn [app]. inversion Sa; subst.
  constructor; [apply IH; [assumption|intros x0 y Hx Hy; apply Hab; [right; exact Hx|exact Hy]]|].
  destruct a as [|y a]; cbn [app].
  - destruct b as [|z b]; [constructor|]. constructor. apply Hab; left; reflexivity.
  - constructor. inversion H2; subst. assumption.
Qed.
Lemma sorted_head_le x (l : list nat) : Sorted le (x :: l) -> Forall (le x) l.
Proof. apply Sorted_extends. intros a b c; lia. Qed.

Lemma SIa_step n n1 (sq sq1 ap : list (env umsg)) :
  (n <= n1)%nat -> Sorted le (serials sq) -> Forall (fun k => (k <= n)%nat) (serials sq) -> fresh n n1 ap ->
  Sorted le (serials (sq ++ ap)) /\ Forall (fun k => (k <= n1)%nat) (serials (sq ++ ap)).
Proof.
  intros L S F [Sp Fp]. rewrite serials_app. split.
  - apply Sorted_app_le with (m := n); [exact S|exact Sp|exact F|]. eapply Forall_impl; [|exact Fp]. cbn. intros; lia.
  - apply Forall_app. split; (eapply Forall_impl; [|eassumption]); cbn; intros; lia.
Qed.

Lemma SI_step s s1 : (serial s <= serial s1)%nat -> (forall v, exists h, stepv s s1 v h) -> SI s -> SI s1.
Proof.
  intros L St Hs v a1 G1. destruct (St v) as (h & X). unfold stepv in X. destruct (get s v) as [a|] eqn:Ea.
  - destruct X as (a1' & ap & G1' & F & C). rewrite G1 in G1'. inversion G1'; subst a1'. destruct (Hs v a Ea) as [Sa Fa].
    unfold SIa. destruct C as [[Q _]|(e & q & Qa & Q & _)]; rewrite Q.
    + apply SIa_step with (n := serial s); assumption.
    + rewrite Qa in Sa, Fa. unfold serials in Sa, Fa. cbn [flat_map] in Sa, Fa. apply Sorted_app_r in Sa. apply Forall_app in Fa. destruct Fa as [_ Fa].
      apply SIa_step with (n := serial s); assumption.
  - destruct X as [_ X]. destruct (X a1 G1) as [S F]. split; [exact S|]. eapply Forall_impl; [|exact F]. cbn. intros; lia.
Qed.
Lemma SI_kstep s l s1 o : kstep roles s l = Some (s1, o) -> SI s -> SI s1.
Proof. intros E. destruct (kstep_stepv _ _ _ _ E) as [L St]. apply SI_step; [exact L|]. intros v. eexists. apply St. Qed.
Lemma SI_init : SI kinit.
Proof.
  intros v a H. unfold kinit, get in H; cbn [actors] in H. destruct v as [|[|v]]; cbn in H; [| |destruct v; discriminate];
    inversion H; subst; split; constructor.
Qed.

Fixpoint trace (v : nat) (ls : list label) (os : list (list obs)) : list nat :=
  match ls, os with l :: ls', o :: os' => hser v l o ++ trace v ls' os' | _, _ => [] end.

Lemma order_run ls : forall s s' os, SI s -> krun roles s ls = Some (s', os) ->
  forall v, Sorted le (trace v ls os) /\
    forall a, get s v = Some a -> Forall (fun k => In k (serials (seq a)) \/ (serial s <= k)%nat) (trace v ls os).
Proof.
  induction ls as [|l t IH]; intros s s' os Hs; cbn [krun].
  - intros H; inversion H; subst. intros v. split; [constructor|intros; constructor].
  - destruct (kstep roles s l) as [[s1 o]|] eqn:E; [|discriminate].
    destruct (krun roles s1 t) as [[s2 os2]|] eqn:E2; [|discriminate]. intros H; inversion H; subst. intros v. cbn [trace].
    destruct (kstep_stepv _ _ _ _ E) as [L St]. pose proof (SI_kstep _ _ _ _ E Hs) as Hs1.
    destruct (IH _ _ _ Hs1 E2 v) as [ST FT]. specialize (St v). unfold stepv in St. destruct (get s v) as [a|] eqn:Ea.
    + destruct St as (a1 & ap & G1 & [Sp Fp] & C). specialize (FT a1 G1). destruct (Hs v a Ea) as [Sa Fa].
      enough (G : Sorted le (hser v l o ++ trace v t os2) /\
                  Forall (fun k => In k (serials (seq a)) \/ (serial s <= k)%nat) (hser v l o ++ trace v t os2))
        by (destruct G as [Ga Gb]; split; [exact Ga|intros a0 H0; inversion H0; subst a0; exact Gb]).
      (* every later number is a queued one, an appended one, or a newer one *)
      assert (Tl : forall sq, seq a1 = sq ++ ap -> Forall (fun k => In k (serials sq) \/ (serial s <= k)%nat) (trace v t os2)).
      { intros sq Q. eapply Forall_impl; [|exact FT]. cbn. intros k [Hin|Hge]; [|right; lia].
        rewrite Q, serials_app in Hin. apply in_app_or in Hin. destruct Hin as [Hin|Hin]; [left; exact Hin|right].
        rewrite Forall_forall in Fp. apply Fp in Hin. lia. }
      destruct C as [[Q ->]|(e & q & Qa & Q & Hh)].
      * cbn [app]. split; [exact ST|]. apply Tl. exact Q.
      * specialize (Tl q Q). rewrite Qa in *. unfold serials in Sa, Fa |- *; cbn [flat_map] in Sa, Fa |- *. fold (serials q) in *.
        assert (Tq : Forall (fun k => In k (pserial e ++ serials q) \/ (serial s <= k)%nat) (trace v t os2)).
        { eapply Forall_impl; [|exact Tl]. cbn. intros k [Hin|Hge]; [left; apply in_or_app; right; exact Hin|right; exact Hge]. }
        destruct Hh as [->| ->]; [cbn [app]; split; [exact ST|exact Tq]|].
        split.
        -- apply Sorted_app_all; [|exact ST|].
           ++ unfold pserial. destruct (e_msg e); repeat constructor.
           ++ intros x y Hx Hy. rewrite Forall_forall in Tl. destruct (Tl y Hy) as [Hin|Hge].
              ** unfold pserial in *. destruct (e_msg e) as [n k| |]; [|destruct Hx|destruct Hx]. destruct Hx as [<-|[]].
                 cbn [app] in Sa. apply sorted_head_le in Sa. rewrite Forall_forall in Sa. apply Sa. exact Hin.
              ** rewrite Forall_forall in Fa. assert (x <= serial s)%nat by (apply Fa; apply in_or_app; left; exact Hx). lia.
        -- apply Forall_app. split; [|exact Tq].
           rewrite Forall_forall. intros k Hk. left. apply in_or_app. left. exact Hk.
    + destruct St as [-> _]. cbn [app]. split; [exact ST|]. intros a0 H0. discriminate.
Qed.

(* C02: for every role table and every run from the freshly started system, the serial numbers of the user messages that
   one actor object shows as handled, in the order in which it handles them, never decrease *)
Theorem handled_in_send_order ls s os v : krun roles kinit ls = Some (s, os) -> Sorted le (trace v ls os).
Proof. intros H. exact (proj1 (order_run ls kinit s os SI_init H v)). Qed.

(* ... and in every reachable state what is waiting in a mailbox is sorted by serial number, none above the counter *)
Theorem mailboxes_sorted ls : forall s s' os, SI s -> krun roles s ls = Some (s', os) -> SI s'.
Proof.
  induction ls as [|l t IH]; intros s s' os Hs; cbn [krun]; [intros H; inversion H; subst; exact Hs|].
  destruct (kstep roles s l) as [[s1 o]|] eqn:E; [|discriminate].
  destruct (krun roles s1 t) as [[s2 os2]|] eqn:E2; [|discriminate]. intros H; inversion H; subst.
  eapply IH; [|exact E2]. eapply SI_kstep; eassumption.
Qed.

End O.
