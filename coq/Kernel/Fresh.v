(* MV.Kernel.Fresh — C03, "... on a fresh instance obtained from the provider": instance numbers are handed out by the
   provider of an address, one after the other; invariant PI: every non-system object's instance number is below the number of
   instances its address's provider has produced so far. Hence the instance a completed restart installs — the provider's count at
   that moment — is strictly greater than the instance it replaces (and than every instance any holder of that address ever had).
   [sig s] = the provider counts and the (address, instance) pairs of all objects: everything the kernel does except creating an
   object and completing a restart leaves it alone. *)
From MV Require Import Lib.ListX Kernel.Model Kernel.Run Kernel.Lifecycle Kernel.Status Kernel.Registry Kernel.Queue Kernel.Launch Kernel.Restart Kernel.Terminate.
Open Scope Z_scope.

Definition pcount (s : kstate) (t : ref) : nat := match lookup t (provided s) with Some k => k | None => 0%nat end.
Definition PIa (s : kstate) (a : actor) : Prop := is_sys (a_tok a) = false -> (a_inst a < pcount s (a_tok a))%nat.
Definition PI (s : kstate) : Prop := forall u a, get s u = Some a -> PIa s a.

Definition ids (s : kstate) : list (ref * nat) := map (fun a => (a_tok a, a_inst a)) (actors s).
Definition sig (s : kstate) : list (ref * nat) * list (ref * nat) := (provided s, ids s).

Lemma PI_sig s s' : sig s' = sig s -> PI s -> PI s'.
Proof.
  unfold sig. intros E H u a' Ha'. inversion E as [[Ep Ei]]. unfold PIa, pcount. rewrite Ep.
  assert (Hn : nth_error (ids s') u = Some (a_tok a', a_inst a')) by (unfold ids; rewrite nth_error_map; unfold get in Ha'; rewrite Ha'; reflexivity).
  rewrite Ei in Hn. unfold ids in Hn. rewrite nth_error_map in Hn. destruct (nth_error (actors s) u) as [a|] eqn:Ea; [|discriminate].
  cbn in Hn. inversion Hn as [[T I]]. intros Hs. exact (H u a Ea Hs).
Qed.

Lemma map_upd_same {A B} (f : A -> B) u x (l : list A) y : nth_error l u = Some y -> f x = f y -> map f (upd u x l) = map f l.
Proof.
  revert u. induction l as [|h t IH]; intros u; [destruct u; discriminate|].
  destruct u as [|u]; cbn [nth_error upd map].
  - intros H E. inversion H; subst. rewrite E. reflexivity.
  - intros H E. f_equal. apply IH; assumption.
Qed.

Lemma sig_same s s' : provided s' = provided s -> actors s' = actors s -> sig s' = sig s.
Proof. intros P A. unfold sig, ids. rewrite P, A. reflexivity. Qed.
Lemma sig_put s u a b : get s u = Some a -> a_tok b = a_tok a -> a_inst b = a_inst a -> sig (put s u b) = sig s.
Proof.
  intros Ha T I. unfold sig, ids, put, set_actors; cbn [provided actors]. f_equal.
  eapply map_upd_same; [exact Ha|]. rewrite T, I. reflexivity.
Qed.
Lemma sig_upd_actor s u f : (forall a, a_tok (f a) = a_tok a /\ a_inst (f a) = a_inst a) -> sig (upd_actor s u f) = sig s.
Proof. intros Hf. unfold upd_actor. destruct (get s u) as [a|] eqn:E; [|reflexivity]. destruct (Hf a). eapply sig_put; eassumption. Qed.
Ltac sg := intros; split; reflexivity.
Lemma sig_trans a b c : sig b = sig a -> sig c = sig b -> sig c = sig a. Proof. congruence. Qed.

(* ---------- operations that leave provider counts and identities alone ---------- *)
Lemma sig_push_sys s u e : sig (push_sys s u e) = sig s.
Proof. unfold push_sys. apply sig_upd_actor. intros a. destruct (e_msg e); split; reflexivity. Qed.
Lemma sig_deliver_sys s t snd m : sig (deliver_sys s t snd m) = sig s.
Proof.
  unfold deliver_sys. destruct (lookup t (registry s)); [apply sig_push_sys|].
  destruct m; try reflexivity. destruct (lookup snd (registry s)); [apply sig_push_sys|reflexivity].
Qed.
Lemma sig_to_sub s : sig (to_sub s) = sig s.
Proof. unfold to_sub. destruct (lookup rSub (registry s)); [apply sig_upd_actor; sg|reflexivity]. Qed.
Lemma sig_abyss_user s snd rcv m s' o : abyss_user s snd rcv m = (s', o) -> sig s' = sig s.
Proof. unfold abyss_user. destruct m; intros H; inversion H; subst; try reflexivity; destruct (rcv =? rSub); try reflexivity; apply sig_to_sub. Qed.
Lemma sig_deliver_user s t snd m s' o : deliver_user s t snd m = (s', o) -> sig s' = sig s.
Proof.
  unfold deliver_user. destruct (lookup t (registry s)) as [u|]; [|apply sig_abyss_user].
  destruct (get s u) as [a|] eqn:E; [|apply sig_abyss_user]. intros H; inversion H; subst. eapply sig_put; [exact E|reflexivity|reflexivity].
Qed.
Lemma sig_terminate s self t g s' o : terminate s self t g = (s', o) -> sig s' = sig s.
Proof. unfold terminate. destruct g; [apply sig_deliver_user|]. intros H; inversion H; subst. apply sig_deliver_sys. Qed.
Lemma sig_terminate_all cs : forall s self g s' o, terminate_all s self cs g = (s', o) -> sig s' = sig s.
Proof.
  induction cs as [|c rest IH]; intros s self g s' o; cbn [terminate_all]; [intros H; inversion H; subst; reflexivity|].
  destruct (terminate s self c g) as [s1 o1] eqn:E1. destruct (terminate_all s1 self rest g) as [s2 o2] eqn:E2.
  intros H; inversion H; subst. eapply sig_trans; [eapply sig_terminate; exact E1|eapply IH; exact E2].
Qed.
Lemma sig_notify_all ws : forall s self, sig (notify_all s self ws) = sig s.
Proof. induction ws as [|w rest IH]; intros s self; cbn [notify_all]; [reflexivity|]. eapply sig_trans; [apply sig_deliver_sys|apply IH]. Qed.
Lemma sig_restart_all cs : forall s self, sig (restart_all s self cs) = sig s.
Proof. induction cs as [|c rest IH]; intros s self; cbn [restart_all]; [reflexivity|]. eapply sig_trans; [apply sig_deliver_sys|apply IH]. Qed.
Lemma sig_stop s u self t s' o p : stop_if_parent_gone s u self t = (s', o, p) -> sig s' = sig s.
Proof.
  unfold stop_if_parent_gone. destruct (get s u) as [pa|]; [|intros H; inversion H; subst; reflexivity].
  destruct (not_alive (a_st pa)); [|intros H; inversion H; subst; reflexivity].
  destruct (terminate s self t (a_graceful pa)) as [s1 o1] eqn:E. intros H; inversion H; subst. eapply sig_terminate; exact E.
Qed.
Lemma sig_escalate s u r s' o p : escalate s u r = (s', o, p) -> sig s' = sig s.
Proof.
  unfold escalate. destruct (get s u) as [a|]; [|intros H; inversion H; subst; reflexivity].
  destruct (a_parent a =? rNone); intros H; inversion H; subst; [reflexivity|apply sig_deliver_sys].
Qed.
Lemma sig_drop_child s u w : sig (drop_child s u w) = sig s.
Proof. unfold drop_child. destruct (lookup w (registry s)); [reflexivity|apply sig_upd_actor; sg]. Qed.
Lemma sig_send_each ts : forall s self n k s' o, send_each s self ts n k = (s', o) -> sig s' = sig s.
Proof.
  induction ts as [|t rest IH]; intros s self n k s' o; cbn [send_each]; [intros H; inversion H; subst; reflexivity|].
  destruct (deliver_user s t self (UProbe n k)) as [s1 o1] eqn:E1. destruct (send_each s1 self rest n k) as [s2 o2] eqn:E2.
  intros H; inversion H; subst. eapply sig_trans; [eapply sig_deliver_user; exact E1|eapply IH; exact E2].
Qed.
Lemma sig_normalize s : sig (normalize s) = sig s.
Proof.
  unfold sig, ids, normalize, set_actors; cbn [provided actors]. f_equal. rewrite map_map. apply map_ext. intros a.
  destruct (pop1_id a) as (T & _). rewrite T. f_equal.
  unfold pop1. destruct (a_inflight a); [reflexivity|]. destruct (a_sysq a); [|reflexivity]. destruct (a_susp a); [reflexivity|]. destruct (a_userq a); reflexivity.
Qed.

(* ---------- the provider ---------- *)
Lemma lookup_remove_other' {A} k t (l : list (ref * A)) u : t <> k -> lookup t l = Some u -> lookup t (remove_key k l) = Some u.
Proof.
  intros Hne. induction l as [|[k' v] l IH]; cbn [lookup remove_key]; [discriminate|].
  destruct (t =? k') eqn:E1; destruct (k =? k') eqn:E2.
  - apply Z.eqb_eq in E1. apply Z.eqb_eq in E2. congruence.
  - intros H. cbn [lookup]. rewrite E1. exact H.
  - exact IH.
  - intros H. cbn [lookup]. rewrite E1. apply IH. exact H.
Qed.
Lemma pcount_provide s t s1 k : provide s t = (s1, k) -> k = pcount s t /\ actors s1 = actors s /\ registry s1 = registry s /\
  pcount s1 t = S k /\ forall t', t' <> t -> pcount s1 t' = pcount s t'.
Proof.
  unfold provide, pcount. intros H; inversion H; subst; clear H. cbn [provided actors registry]. split; [reflexivity|]. split; [reflexivity|]. split; [reflexivity|].
  unfold set_key. cbn [lookup]. rewrite Z.eqb_refl. split; [reflexivity|]. intros t' Hne.
  destruct (t' =? t) eqn:E; [apply Z.eqb_eq in E; contradiction|].
  destruct (lookup t' (provided s)) as [k'|] eqn:El.
  - rewrite (lookup_remove_other' _ _ _ _ Hne El). reflexivity.
  - destruct (lookup t' (remove_key t (provided s))) as [k''|] eqn:El2; [|reflexivity]. apply lookup_remove_key in El2. congruence.
Qed.

(* provider counts only grow: PI survives a provide *)
Lemma PI_provide s t s1 k : PI s -> provide s t = (s1, k) -> PI s1.
Proof.
  intros H Ep. destruct (pcount_provide _ _ _ _ Ep) as (Ek & A1 & _ & P1 & P2).
  intros u a Ha Hs. unfold get in Ha. rewrite A1 in Ha. pose proof (H u a Ha Hs) as L.
  destruct (Z.eq_dec (a_tok a) t) as [E|Hne]; [rewrite E in *; rewrite P1; lia|rewrite (P2 _ Hne); exact L].
Qed.

Lemma PI_spawn s u self t r s' o p : PI s -> spawn s u self t r = (s', o, p) -> PI s'.
Proof.
  intros H. unfold spawn. destruct (provide s t) as [s1 inst] eqn:Ep.
  pose proof (PI_provide _ _ _ _ H Ep) as H1. destruct (pcount_provide _ _ _ _ Ep) as (Ek & A1 & _ & P1 & _).
  assert (App : forall x, a_tok x = t -> a_inst x = inst -> PI (set_actors s1 (actors s1 ++ [x]))).
  { intros x Tx Ix v a Ha. unfold get, set_actors in Ha; cbn [actors] in Ha.
    destruct (Nat.lt_ge_cases v (length (actors s1))) as [Hlt|Hge].
    - rewrite nth_error_app1 in Ha by exact Hlt. exact (H1 v a Ha).
    - rewrite nth_error_app2 in Ha by exact Hge. destruct (v - length (actors s1))%nat as [|k]; cbn in Ha; [|destruct k; discriminate].
      inversion Ha; subst a. intros _. unfold pcount in *. cbn [provided set_actors]. rewrite Tx, Ix, P1. lia. }
  destruct (lookup t (registry s1)).
  - intros E; inversion E; subst. apply App; reflexivity.
  - intros E. eapply PI_sig; [eapply sig_stop; exact E|]. eapply PI_sig; [apply sig_deliver_sys|].
    eapply PI_sig; [apply sig_upd_actor; sg|]. eapply PI_sig; [|apply (App (new_actor t self r inst)); reflexivity].
    apply sig_same; reflexivity.
Qed.

(* provider counts only grow *)
Definition pge (s s' : kstate) : Prop := forall t, (pcount s t <= pcount s' t)%nat.
Lemma pge_refl s : pge s s. Proof. intros t. apply le_n. Qed.
Lemma pge_trans a b c : pge a b -> pge b c -> pge a c.
Proof. intros H1 H2 t. eapply Nat.le_trans; [apply H1|apply H2]. Qed.
Lemma pge_prov s s' : provided s' = provided s -> pge s s'.
Proof. intros E t. unfold pcount. rewrite E. apply le_n. Qed.
Lemma sig_prov s s' : sig s' = sig s -> provided s' = provided s.
Proof. unfold sig. intros E. inversion E. reflexivity. Qed.
Lemma pge_sig s s' : sig s' = sig s -> pge s s'.
Proof. intros E. apply pge_prov, sig_prov. exact E. Qed.
Lemma pge_provide s t s1 k : provide s t = (s1, k) -> pge s s1.
Proof.
  intros Ep. destruct (pcount_provide _ _ _ _ Ep) as (Ek & _ & _ & P1 & P2). intros t'.
  destruct (Z.eq_dec t' t) as [->|Hne]; [rewrite P1; lia|rewrite (P2 _ Hne); apply le_n].
Qed.
Lemma pge_spawn s u self t r s' o p : spawn s u self t r = (s', o, p) -> pge s s'.
Proof.
  unfold spawn. destruct (provide s t) as [s1 inst] eqn:Ep. pose proof (pge_provide _ _ _ _ Ep) as G1.
  destruct (lookup t (registry s1)).
  - intros E; inversion E; subst. exact G1.
  - intros E. eapply pge_trans; [exact G1|]. apply pge_prov.
    eapply eq_trans; [eapply sig_prov, sig_stop; exact E|]. eapply eq_trans; [apply sig_prov, sig_deliver_sys|].
    eapply eq_trans; [apply sig_prov, sig_upd_actor; sg|]. reflexivity.
Qed.

Section F.
Variable roles : list role.

Lemma sig_report_abnormal s u s' o p : report_abnormal roles s u = (s', o, p) -> sig s' = sig s.
Proof.
  unfold report_abnormal. destruct (get s u) as [a|]; [|intros H; inversion H; subst; reflexivity].
  destruct (a_st a); try (intros H; inversion H; subst; reflexivity).
  intros H. eapply sig_trans; [|eapply sig_escalate; exact H]. eapply sig_trans; [|apply sig_deliver_sys]. apply sig_upd_actor; sg.
Qed.

Lemma PI_do_action s u snd act s' o p : PI s -> do_action roles s u snd act = (s', o, p) -> PI s'.
Proof.
  intros HP. unfold do_action. destruct (get s u) as [a|]; [|intros H; inversion H; subst; exact HP].
  assert (NS : forall s1 k, next_serial s = (s1, k) -> sig s1 = sig s) by (intros s1 k En; unfold next_serial in En; inversion En; subst; reflexivity).
  destruct act.
  - destruct (next_serial s) as [s1 k] eqn:En. destruct (deliver_user s1 t rNone (UProbe n k)) as [s2 o2] eqn:E.
    intros H; inversion H; subst. eapply PI_sig; [|exact HP]. eapply sig_trans; [eapply NS; reflexivity|eapply sig_deliver_user; exact E].
  - destruct (next_serial s) as [s1 k] eqn:En. destruct (deliver_user s1 t (a_tok a) (UProbe n k)) as [s2 o2] eqn:E.
    intros H; inversion H; subst. eapply PI_sig; [|exact HP]. eapply sig_trans; [eapply NS; reflexivity|eapply sig_deliver_user; exact E].
  - destruct (next_serial s) as [s1 k] eqn:En. destruct (deliver_user s1 snd (a_tok a) (UProbe n k)) as [s2 o2] eqn:E.
    intros H; inversion H; subst. eapply PI_sig; [|exact HP]. eapply sig_trans; [eapply NS; reflexivity|eapply sig_deliver_user; exact E].
  - destruct (next_serial s) as [s1 k] eqn:En. destruct (send_each s1 (a_tok a) (a_children a) n k) as [s2 o2] eqn:E.
    intros H; inversion H; subst. eapply PI_sig; [|exact HP]. eapply sig_trans; [eapply NS; reflexivity|eapply sig_send_each; exact E].
  - destruct (spawn s u (a_tok a) t r) as [[s1 o1] p1] eqn:E. intros H; inversion H; subst. eapply PI_spawn; eassumption.
  - destruct (terminate s (a_tok a) t g) as [s1 o1] eqn:E. intros H; inversion H; subst. eapply PI_sig; [eapply sig_terminate; exact E|exact HP].
  - intros H; inversion H; subst. eapply PI_sig; [apply sig_deliver_sys|exact HP].
  - intros H; inversion H; subst. eapply PI_sig; [apply sig_deliver_sys|exact HP].
  - destruct (report_abnormal roles s u) as [[s1 o1] p1] eqn:E. intros H; inversion H; subst. eapply PI_sig; [eapply sig_report_abnormal; exact E|exact HP].
  - intros H; inversion H; subst. exact HP.
Qed.
Lemma PI_do_actions acts : forall s u snd s' o p, PI s -> do_actions roles s u snd acts = (s', o, p) -> PI s'.
Proof.
  induction acts as [|act rest IH]; intros s u snd s' o p HP; cbn [do_actions]; [intros H; inversion H; subst; exact HP|].
  destruct (do_action roles s u snd act) as [[s1 o1] p1] eqn:E1. unfold bind. destruct p1.
  - intros H; inversion H; subst. eapply PI_do_action; eassumption.
  - destruct (do_actions roles s1 u snd rest) as [[s2 o2] p2] eqn:E2. intros H; inversion H; subst.
    eapply IH; [eapply PI_do_action; eassumption|exact E2].
Qed.
Lemma PI_handle s u t k snd s' o p : PI s -> handle roles s u t k snd = (s', o, p) -> PI s'.
Proof.
  intros HP. unfold handle, handle_q. destruct (get s u) as [a|]; [|intros H; inversion H; subst; exact HP].
  destruct (is_sys (a_tok a)); [intros H; inversion H; subst; exact HP|].
  destruct (do_actions roles s u snd (find_rule (rules (role_of roles a)) t (a_inst a))) as [[s1 o1] p1] eqn:E.
  intros H; inversion H; subst. eapply PI_do_actions; eassumption.
Qed.
Lemma pge_do_action s u snd act s' o p : do_action roles s u snd act = (s', o, p) -> pge s s'.
Proof.
  unfold do_action. destruct (get s u) as [a|]; [|intros H; inversion H; subst; apply pge_refl].
  assert (NS : forall s1 k, next_serial s = (s1, k) -> sig s1 = sig s) by (intros s1 k En; unfold next_serial in En; inversion En; subst; reflexivity).
  destruct act.
  - destruct (next_serial s) as [s1 k] eqn:En. destruct (deliver_user s1 t rNone (UProbe n k)) as [s2 o2] eqn:E.
    intros H; inversion H; subst. apply pge_sig. eapply sig_trans; [eapply NS; reflexivity|eapply sig_deliver_user; exact E].
  - destruct (next_serial s) as [s1 k] eqn:En. destruct (deliver_user s1 t (a_tok a) (UProbe n k)) as [s2 o2] eqn:E.
    intros H; inversion H; subst. apply pge_sig. eapply sig_trans; [eapply NS; reflexivity|eapply sig_deliver_user; exact E].
  - destruct (next_serial s) as [s1 k] eqn:En. destruct (deliver_user s1 snd (a_tok a) (UProbe n k)) as [s2 o2] eqn:E.
    intros H; inversion H; subst. apply pge_sig. eapply sig_trans; [eapply NS; reflexivity|eapply sig_deliver_user; exact E].
  - destruct (next_serial s) as [s1 k] eqn:En. destruct (send_each s1 (a_tok a) (a_children a) n k) as [s2 o2] eqn:E.
    intros H; inversion H; subst. apply pge_sig. eapply sig_trans; [eapply NS; reflexivity|eapply sig_send_each; exact E].
  - destruct (spawn s u (a_tok a) t r) as [[s1 o1] p1] eqn:E. intros H; inversion H; subst. eapply pge_spawn; exact E.
  - destruct (terminate s (a_tok a) t g) as [s1 o1] eqn:E. intros H; inversion H; subst. apply pge_sig. eapply sig_terminate; exact E.
  - intros H; inversion H; subst. apply pge_sig, sig_deliver_sys.
  - intros H; inversion H; subst. apply pge_sig, sig_deliver_sys.
  - destruct (report_abnormal roles s u) as [[s1 o1] p1] eqn:E. intros H; inversion H; subst. apply pge_sig. eapply sig_report_abnormal; exact E.
  - intros H; inversion H; subst. apply pge_refl.
Qed.
Lemma pge_do_actions acts : forall s u snd s' o p, do_actions roles s u snd acts = (s', o, p) -> pge s s'.
Proof.
  induction acts as [|act rest IH]; intros s u snd s' o p; cbn [do_actions]; [intros H; inversion H; subst; apply pge_refl|].
  destruct (do_action roles s u snd act) as [[s1 o1] p1] eqn:E1. unfold bind. destruct p1.
  - intros H; inversion H; subst. eapply pge_do_action; exact E1.
  - destruct (do_actions roles s1 u snd rest) as [[s2 o2] p2] eqn:E2. intros H; inversion H; subst.
    eapply pge_trans; [eapply pge_do_action; exact E1|eapply IH; exact E2].
Qed.
Lemma pge_handle s u t k snd s' o p : handle roles s u t k snd = (s', o, p) -> pge s s'.
Proof.
  unfold handle, handle_q. destruct (get s u) as [a|]; [|intros H; inversion H; subst; apply pge_refl].
  destruct (is_sys (a_tok a)); [intros H; inversion H; subst; apply pge_refl|].
  destruct (do_actions roles s u snd (find_rule (rules (role_of roles a)) t (a_inst a))) as [[s1 o1] p1] eqn:E.
  intros H; inversion H; subst. eapply pge_do_actions; exact E.
Qed.
Lemma PI_handle_q q s u t k snd s' o p : PI s -> handle_q roles q s u t k snd = (s', o, p) -> PI s'.
Proof.
  intros HP. unfold handle_q. destruct (get s u) as [a|]; [|intros H; inversion H; subst; exact HP].
  destruct q; [intros H; inversion H; subst; exact HP|].
  destruct (do_actions roles s u snd (find_rule (rules (role_of roles a)) t (a_inst a))) as [[s1 o1] p1] eqn:E.
  intros H; inversion H; subst. eapply PI_do_actions; eassumption.
Qed.
Lemma PI_bind (r : R) f s3 o3 p3 :
  (forall s1 o1 p1, r = (s1, o1, p1) -> PI s1) -> (forall s1 s2 o2 p2, PI s1 -> f s1 = (s2, o2, p2) -> PI s2) -> r >>= f = (s3, o3, p3) -> PI s3.
Proof.
  intros H1 H2. destruct r as [[s1 o1] p1]. unfold bind. destruct p1.
  - intros H; inversion H; subst. eapply H1; reflexivity.
  - destruct (f s1) as [[s2 o2] p2] eqn:E. intros H; inversion H; subst. eapply H2; [eapply H1; reflexivity|exact E].
Qed.
Lemma PI_try_terminated s u snd s' o p : PI s -> try_terminated roles s u snd = (s', o, p) -> PI s'.
Proof.
  intros HP. unfold try_terminated. destruct (get s u) as [a|]; [|intros H; inversion H; subst; exact HP].
  destruct (a_children a); [|intros H; inversion H; subst; exact HP].
  destruct (a_st a); try (intros H; inversion H; subst; exact HP).
  apply PI_bind.
  - intros s1 o1 p1 E. eapply PI_handle; [|exact E]. eapply PI_sig; [apply sig_upd_actor; sg|exact HP].
  - intros s1 s2 o2 p2 H1.
    assert (Hn : PI (notify_all (set_registry s1 (remove_key (a_tok a) (registry s1))) (a_tok a) (filter (fun w => negb (w =? a_parent a)) (a_watchers a)))).
    { eapply PI_sig; [apply sig_notify_all|]. eapply PI_sig; [|exact H1]. apply sig_same; reflexivity. }
    destruct (a_parent a =? rNone); intros H; inversion H; subst.
    + eapply PI_sig; [|exact Hn]. apply sig_same; reflexivity.
    + eapply PI_sig; [apply sig_deliver_sys|exact Hn].
Qed.
Lemma PI_start_instance s u self parent s' o p : PI s -> start_instance roles s u self parent = (s', o, p) -> PI s'.
Proof.
  intros HP. unfold start_instance. destruct (handle roles s u TRD 0%nat self) as [[s1 o1] p1] eqn:E1.
  destruct (handle roles s1 u TL 0%nat parent) as [[s2 o2] p2] eqn:E2. intros H; inversion H; subst.
  pose proof (PI_handle _ _ _ _ _ _ _ _ (PI_handle _ _ _ _ _ _ _ _ HP E1) E2) as H2.
  destruct p2; [exact H2|eapply PI_sig; [apply sig_upd_actor; sg|exact H2]].
Qed.

(* the completion of a restart installs the provider's count, which is above the old instance number *)
Lemma PI_try_restarted s u snd s' o p : PI s -> try_restarted roles s u snd = (s', o, p) ->
  PI s' /\ forall a a', get s u = Some a -> get s' u = Some a' -> is_sys (a_tok a) = false -> a_inst a' <> a_inst a -> (a_inst a < a_inst a')%nat.
Proof.
  intros HP. unfold try_restarted. destruct (get s u) as [a|] eqn:Ea; [|intros H; inversion H; subst; split; [exact HP|intros a0 a' H0; discriminate]].
  assert (Q : forall x, PI x -> (forall a', get x u = Some a' -> a_inst a' = a_inst a) ->
    PI x /\ forall a0 a', Some a = Some a0 -> get x u = Some a' -> is_sys (a_tok a0) = false -> a_inst a' <> a_inst a0 -> (a_inst a0 < a_inst a')%nat).
  { intros x Hx Hi. split; [exact Hx|]. intros a0 a' E0 Ga' _ Hne. inversion E0; subst a0. exfalso. apply Hne. apply Hi. exact Ga'. }
  destruct (a_children a); [|intros H; inversion H; subst; apply Q; [exact HP|intros a' Ha'; rewrite Ea in Ha'; inversion Ha'; reflexivity]].
  destruct (a_st a) eqn:Est; try (intros H; inversion H; subst; apply Q; [exact HP|intros a' Ha'; rewrite Ea in Ha'; inversion Ha'; reflexivity]).
  (* the new instance number is the provider's count BEFORE the old instance's last two handler calls *)
  destruct (provide s (a_tok a)) as [s0 inst] eqn:Ep.
  destruct (pcount_provide _ _ _ _ Ep) as (Ek & A0 & _ & P1 & _).
  pose proof (PI_provide _ _ _ _ HP Ep) as H0.
  assert (G0 : get s0 u = Some a) by (unfold get in *; rewrite A0; exact Ea).
  pose proof (HP u a Ea) as L. unfold PIa in L. rewrite <- Ek in L.
  destruct (handle roles s0 u TT 0%nat snd) as [[s1 o1] p1] eqn:E1.
  pose proof (PI_handle _ _ _ _ _ _ _ _ H0 E1) as H1.
  destruct (handle_keeps_obj roles _ _ _ _ _ _ _ _ _ G0 E1) as (a1 & G1 & T1 & I1 & S1). unfold bind at 1. destruct p1.
  - intros H; inversion H; subst. apply Q; [exact H1|intros a' Ha'; rewrite G1 in Ha'; inversion Ha'; subst; exact I1].
  - destruct (handle roles s1 u TTS 0%nat snd) as [[s2 o2] p2] eqn:E2.
    pose proof (PI_handle _ _ _ _ _ _ _ _ H1 E2) as H2.
    destruct (handle_keeps_obj roles _ _ _ _ _ _ _ _ _ G1 E2) as (a2 & G2 & T2 & I2 & S2). unfold bind. destruct p2.
    + intros H; inversion H; subst. apply Q; [exact H2|intros a' Ha'; rewrite G2 in Ha'; inversion Ha'; subst; congruence].
    + set (s4 := upd_actor s2 u (fun b => w_st Alive (w_inst inst b))).
      assert (G4 : get s4 u = Some (w_st Alive (w_inst inst a2))) by (exact (get_upd_actor_same s2 u (fun b => w_st Alive (w_inst inst b)) a2 G2)).
      assert (M2 : (S inst <= pcount s2 (a_tok a))%nat).
      { rewrite <- P1. eapply pge_trans; [eapply pge_handle; exact E1|eapply pge_handle; exact E2]. }
      assert (H4 : PI s4).
      { assert (Pv : forall t0, pcount s4 t0 = pcount s2 t0) by (intros t0; unfold pcount, s4, upd_actor; rewrite G2; reflexivity).
        intros v b Hb. unfold PIa. rewrite Pv. unfold s4, upd_actor in Hb. rewrite G2 in Hb. destruct (Nat.eq_dec u v) as [->|Hne].
        - rewrite (get_put_same s2 v _ _ G2) in Hb. inversion Hb; subst b. intros _. cbn [a_tok a_inst w_st w_inst].
          rewrite T2, T1. lia.
        - rewrite get_put_other in Hb by exact Hne. intros Hs. exact (H2 v b Hb Hs). }
      destruct (start_instance roles (deliver_sys s4 (a_tok a) (a_tok a) SResume) u (a_tok a) (a_parent a)) as [[s9 o9] p9] eqn:E9.
      intros H; inversion H; subst. split.
      * eapply PI_start_instance; [|exact E9]. eapply PI_sig; [apply sig_deliver_sys|exact H4].
      * intros a0 a' E0 Ga' Hs _. inversion E0; subst a0.
        (* the instance after the step is the provider's count before the step *)
        destruct (obj_of _ _ u _ (keep_deliver_sys s4 (a_tok a) (a_tok a) SResume) (id_deliver_sys s4 (a_tok a) (a_tok a) SResume) G4) as (a5 & G5 & _ & I5 & _).
        destruct (obj_start_instance roles _ _ _ _ _ _ _ _ G5 E9) as (a9 & G9 & _ & I9 & _). rewrite Ga' in G9. inversion G9; subst a9. rewrite I9, I5. cbn [a_inst w_st w_inst].
        exact (L Hs).
Qed.

(* the running object's instance number after an operation: unchanged, or greater *)
Definition FR (u : nat) (s s' : kstate) : Prop :=
  forall a a', get s u = Some a -> get s' u = Some a' -> is_sys (a_tok a) = false -> a_inst a' <> a_inst a -> (a_inst a < a_inst a')%nat.
Lemma FR_idf u s s' : idf s s' -> FR u s s'.
Proof. intros F a a' Ha Ha' _ Hne. destruct (idf_get u s s' a F Ha) as (a2 & G2 & _ & I2). rewrite Ha' in G2. inversion G2; subst. contradiction. Qed.
Lemma FR_pre u s s1 s2 : idf s s1 -> FR u s1 s2 -> FR u s s2.
Proof.
  intros F H a a' Ha Ha' Hs Hne. destruct (idf_get u s s1 a F Ha) as (a1 & G1 & T1 & I1).
  rewrite <- I1 in *. apply (H a1 a' G1 Ha'); [rewrite T1; exact Hs|exact Hne].
Qed.
Lemma FR_post u s s1 s2 : FR u s s1 -> idf s1 s2 -> (forall a, get s u = Some a -> exists a1, get s1 u = Some a1) -> FR u s s2.
Proof.
  intros H F Hex a a' Ha Ha' Hs Hne. destruct (Hex a Ha) as (a1 & G1). destruct (idf_get u s1 s2 a1 F G1) as (a2 & G2 & _ & I2).
  rewrite Ha' in G2. inversion G2; subst a2. rewrite I2 in *. exact (H a a1 Ha G1 Hs Hne).
Qed.
Ltac idu := match goal with |- idf ?x (upd_actor ?x ?w ?f) => apply (id_upd w x f); intros b; split; reflexivity end.
Ltac idfr L := unfold idf; eapply L; try exact ID_refl; try exact ID_trans; try (intros; split; reflexivity); try eassumption.

Lemma PI_apply_directive s u r d snd s' o p : PI s -> apply_directive roles s u r d snd = (s', o, p) -> PI s'.
Proof.
  intros HP. unfold apply_directive. destruct (get s u) as [a|]; [|intros H; inversion H; subst; exact HP]. destruct d.
  - intros H; inversion H; subst. eapply PI_sig; [apply sig_deliver_sys|exact HP].
  - destruct (terminate s (a_tok a) (ar_vref r) false) as [s1 o1] eqn:E1.
    destruct (try_terminated roles s1 u snd) as [[s2 o2] p2] eqn:E2. intros H; inversion H; subst.
    eapply PI_try_terminated; [|exact E2]. eapply PI_sig; [eapply sig_terminate; exact E1|exact HP].
  - intros H; inversion H; subst. eapply PI_sig; [apply sig_deliver_sys|exact HP].
  - destruct (escalate s u r) as [[s1 o1] p1] eqn:E. intros H; inversion H; subst. eapply PI_sig; [eapply sig_escalate; exact E|exact HP].
  - intros H; inversion H; subst. eapply PI_sig; [apply sig_restart_all|exact HP].
Qed.
Lemma PI_on_accident s u r snd s' o p : PI s -> on_accident roles s u r snd = (s', o, p) -> PI s'.
Proof.
  intros HP. unfold on_accident. destruct (get s u) as [a|]; [|intros H; inversion H; subst; exact HP].
  destruct (ar_strategy r); [apply PI_apply_directive; exact HP|].
  destruct (sup (role_of roles a)); [|apply PI_apply_directive; exact HP].
  intros H. eapply PI_sig; [eapply sig_escalate; exact H|exact HP].
Qed.

Lemma PI_process_sys s u e s' o p : PI s -> process_sys roles s u e = (s', o, p) -> PI s' /\ FR u s s'.
Proof.
  intros HP. unfold process_sys. destruct (get s u) as [a|] eqn:Ea; [|intros H; inversion H; subst; split; [exact HP|apply FR_idf, idf_refl]].
  assert (Q0 : PI s /\ FR u s s) by (split; [exact HP|apply FR_idf, idf_refl]).
  match goal with |- context [if ?d then _ else _] => destruct d end; [intros H; inversion H; subst; exact Q0|].
  destruct (e_msg e) as [| |g|who| |r| | | | |].
  - (* SLaunch *) intros H. split.
    + revert H. apply PI_bind; [intros s1 o1 p1 E; eapply PI_handle; eassumption|].
      intros s1 s2 o2 p2 H1 H; inversion H; subst. eapply PI_sig; [apply sig_upd_actor; sg|exact H1].
    + apply FR_idf. revert H. apply (bind_rel idf); [apply idf_trans| |].
      * intros s1 o1 p1 E. eapply id_handle; exact E.
      * intros s1 s2 o2 p2 H; inversion H; subst. idu.
  - (* SRestarted *) intros H. split; [eapply PI_handle; eassumption|apply FR_idf; eapply id_handle; exact H].
  - (* STerminate *)
    assert (HT :
      (handle roles (deliver_sys (upd_actor s u (w_st Terminating)) (a_tok a) (a_tok a) SResume) u TT 0 (e_snd e) >>= (fun s3 =>
         match get s3 u with
         | None => ok s3 []
         | Some a3 =>
             let '(s4, o4) := terminate_all s3 (a_tok a3) (a_children a3) (g || a_graceful a3) in
             let '(s5, o5, p) := try_terminated roles s4 u (e_snd e) in (s5, o4 ++ o5, p)
         end)) = (s', o, p) -> PI s' /\ FR u s s').
    { intros H. set (s2 := deliver_sys (upd_actor s u (w_st Terminating)) (a_tok a) (a_tok a) SResume) in *.
      assert (P2 : PI s2) by (unfold s2; eapply PI_sig; [apply sig_deliver_sys|]; eapply PI_sig; [apply sig_upd_actor; sg|exact HP]).
      assert (F2 : idf s s2) by (unfold s2; apply idf_trans with (b := upd_actor s u (w_st Terminating)); [idu|apply id_deliver_sys]).
      split.
      - revert H. apply PI_bind; [intros s3 o3 p3 E; eapply PI_handle; eassumption|].
        intros s3 s5 o5 p5 H3. destruct (get s3 u) as [a3|]; [|intros H; inversion H; subst; exact H3].
        destruct (terminate_all s3 (a_tok a3) (a_children a3) (g || a_graceful a3)) as [s4 o4] eqn:E4.
        destruct (try_terminated roles s4 u (e_snd e)) as [[s6 o6] p6] eqn:E6. intros H; inversion H; subst.
        eapply PI_try_terminated; [|exact E6]. eapply PI_sig; [eapply sig_terminate_all; exact E4|exact H3].
      - apply FR_idf. eapply idf_trans; [exact F2|]. revert H. apply (bind_rel idf); [apply idf_trans| |].
        + intros s3 o3 p3 E. eapply id_handle; exact E.
        + intros s3 s5 o5 p5. destruct (get s3 u) as [a3|]; [|intros H; inversion H; subst; apply idf_refl].
          destruct (terminate_all s3 (a_tok a3) (a_children a3) (g || a_graceful a3)) as [s4 o4] eqn:E4.
          destruct (try_terminated roles s4 u (e_snd e)) as [[s6 o6] p6] eqn:E6. intros H; inversion H; subst.
          eapply idf_trans; [eapply id_terminate_all; exact E4|eapply id_try_terminated; exact E6]. }
    destruct (a_st a); try (intros H; inversion H; subst; exact Q0); exact HT.
  - (* STerminatedOf *)
    set (sd := drop_child s u who).
    assert (Pd : PI sd) by (eapply PI_sig; [apply sig_drop_child|exact HP]).
    destruct (handle roles sd u (if who =? a_tok a then TTS else TTO who) 0 (e_snd e)) as [[s1 o1] p1] eqn:E1.
    pose proof (PI_handle _ _ _ _ _ _ _ _ Pd E1) as P1.
    assert (F1 : idf s s1) by (eapply idf_trans; [apply id_drop_child|eapply id_handle; exact E1]).
    unfold bind. destruct p1; [intros H; inversion H; subst; split; [exact P1|apply FR_idf; exact F1]|].
    destruct (get s1 u) as [a2|] eqn:Ea2; [|intros H; inversion H; subst; split; [exact P1|apply FR_idf; exact F1]].
    destruct (a_st a2); try (intros H; inversion H; subst; split; [exact P1|apply FR_idf; exact F1]).
    + destruct (try_restarted roles s1 u (e_snd e)) as [[s2 o2] p2] eqn:E2. intros H; inversion H; subst.
      destruct (PI_try_restarted _ _ _ _ _ _ P1 E2) as [P2 R2]. split; [exact P2|]. eapply FR_pre; [exact F1|exact R2].
    + destruct (try_terminated roles s1 u (e_snd e)) as [[s2 o2] p2] eqn:E2. intros H; inversion H; subst.
      split; [eapply PI_try_terminated; eassumption|]. apply FR_idf. eapply idf_trans; [exact F1|eapply id_try_terminated; exact E2].
  - (* SRestart *) destruct (a_st a); try (intros H; inversion H; subst; exact Q0).
    set (s1 := deliver_sys (upd_actor s u (w_st Restarting)) (a_tok a) (a_tok a) SSuspend).
    assert (P1 : PI s1) by (unfold s1; eapply PI_sig; [apply sig_deliver_sys|]; eapply PI_sig; [apply sig_upd_actor; sg|exact HP]).
    assert (F1 : idf s s1) by (unfold s1; apply idf_trans with (b := upd_actor s u (w_st Restarting)); [idu|apply id_deliver_sys]).
    destruct (handle roles s1 u TRG 0 (e_snd e)) as [[s2 o2] p2] eqn:E2.
    pose proof (PI_handle _ _ _ _ _ _ _ _ P1 E2) as P2.
    assert (F2 : idf s s2) by (eapply idf_trans; [exact F1|eapply id_handle; exact E2]).
    unfold bind. destruct p2; [intros H; inversion H; subst; split; [exact P2|apply FR_idf; exact F2]|].
    destruct (get s2 u) as [a2|] eqn:Ea2; [|intros H; inversion H; subst; split; [exact P2|apply FR_idf; exact F2]].
    destruct (terminate_all s2 (a_tok a2) (a_children a2) false) as [s3 o3] eqn:E3.
    destruct (try_restarted roles s3 u (e_snd e)) as [[s4 o4] p4] eqn:E4. intros H; inversion H; subst.
    assert (P3 : PI s3) by (eapply PI_sig; [eapply sig_terminate_all; exact E3|exact P2]).
    destruct (PI_try_restarted _ _ _ _ _ _ P3 E4) as [P4 R4]. split; [exact P4|].
    eapply FR_pre; [eapply idf_trans; [exact F2|eapply id_terminate_all; exact E3]|exact R4].
  - (* SAccident *) intros H. split; [eapply PI_on_accident; eassumption|apply FR_idf; eapply id_on_accident; exact H].
  - (* SWatch *) destruct (e_snd e =? a_parent a); [intros H; inversion H; subst; exact Q0|].
    destruct (st_ge_terminating (a_st a)); intros H; inversion H; subst.
    + split; [eapply PI_sig; [apply sig_deliver_sys|exact HP]|apply FR_idf, id_deliver_sys].
    + split; [eapply PI_sig; [apply sig_upd_actor; sg|exact HP]|apply FR_idf; idu].
  - (* SUnwatch *) intros H; inversion H; subst. split; [eapply PI_sig; [apply sig_upd_actor; sg|exact HP]|apply FR_idf; idu].
  - intros H; inversion H; subst; exact Q0.
  - intros H; inversion H; subst; exact Q0.
  - (* SResumeReq *) destruct (a_st a); intros H; inversion H; subst; try exact Q0.
    split; [eapply PI_sig; [apply sig_deliver_sys|exact HP]|apply FR_idf, id_deliver_sys].
Qed.

(* the completion of a restart installs a NEW instance number: with PI, the provider's count is above the old number *)
Lemma restart_fresh s u snd a s' o p :
  PI s -> get s u = Some a -> a_children a = [] -> a_st a = Restarting -> is_sys (a_tok a) = false ->
  try_restarted roles s u snd = (s', o, p) -> exists a', get s' u = Some a' /\ (a_inst a < a_inst a')%nat.
Proof.
  intros HP Ha Hc Hst Hs H. destruct (restart_shape roles s u snd a s' o p Ha Hc Hst Hs H) as (a' & G' & _ & _ & Ho).
  exists a'. split; [exact G'|]. destruct (PI_try_restarted _ _ _ _ _ _ HP H) as [_ R].
  destruct (Nat.eq_dec (a_inst a') (a_inst a)) as [E|Hne]; [|exact (R a a' Ha G' Hs Hne)].
  exfalso. revert H. unfold try_restarted. rewrite Ha, Hc, Hst.
  destruct (provide s (a_tok a)) as [s0 inst] eqn:Ep.
  destruct (pcount_provide _ _ _ _ Ep) as (Ek & A0 & _ & _ & _).
  assert (G0 : get s0 u = Some a) by (unfold get in *; rewrite A0; exact Ha).
  pose proof (HP u a Ha) as L. unfold PIa in L. rewrite <- Ek in L. specialize (L Hs).
  destruct (handle roles s0 u TT 0%nat snd) as [[s1 o1] p1] eqn:E1.
  destruct (handle_keeps_obj roles _ _ _ _ _ _ _ _ _ G0 E1) as (a1 & G1 & T1 & I1 & S1).
  destruct (handle_one roles s0 u a TT snd s1 o1 p1 G0 Hs ltac:(intros n; discriminate) E1) as [_ Pf1].
  rewrite (Pf1 ltac:(rewrite Hst; reflexivity)). unfold bind at 1.
  destruct (handle roles s1 u TTS 0%nat snd) as [[s2 o2] p2] eqn:E2.
  destruct (handle_keeps_obj roles _ _ _ _ _ _ _ _ _ G1 E2) as (a2 & G2 & T2 & I2 & S2).
  assert (Hs1 : is_sys (a_tok a1) = false) by (rewrite T1; exact Hs).
  destruct (handle_one roles s1 u a1 TTS snd s2 o2 p2 G1 Hs1 ltac:(intros n; discriminate) E2) as [_ Pf2].
  rewrite (Pf2 ltac:(rewrite S1, Hst; reflexivity)). unfold bind.
  set (s4 := upd_actor s2 u (fun b => w_st Alive (w_inst inst b))).
  assert (G4 : get s4 u = Some (w_st Alive (w_inst inst a2))) by (exact (get_upd_actor_same s2 u (fun b => w_st Alive (w_inst inst b)) a2 G2)).
  destruct (start_instance roles (deliver_sys s4 (a_tok a) (a_tok a) SResume) u (a_tok a) (a_parent a)) as [[s9 o9] p9] eqn:E9.
  intros H; inversion H; subst.
  destruct (obj_of _ _ u _ (keep_deliver_sys s4 (a_tok a) (a_tok a) SResume) (id_deliver_sys s4 (a_tok a) (a_tok a) SResume) G4) as (a5 & G5 & _ & I5 & _).
  destruct (obj_start_instance roles _ _ _ _ _ _ _ _ G5 E9) as (a9 & G9 & _ & I9 & _). rewrite G' in G9. inversion G9; subst a9.
  rewrite I9, I5 in E. cbn [a_inst w_st w_inst] in E. lia.
Qed.

Lemma PI_process_user s u e s' o p : PI s -> process_user roles s u e = (s', o, p) -> PI s'.
Proof.
  intros HP. unfold process_user. destruct (get s u) as [a|]; [|intros H; inversion H; subst; exact HP].
  destruct (st_ge_terminating (a_st a)).
  - destruct (abyss_user s (e_snd e) (e_rcv e) (e_msg e)) as [s1 o1] eqn:E. intros H; inversion H; subst. eapply PI_sig; [eapply sig_abyss_user; exact E|exact HP].
  - destruct (e_msg e).
    + apply PI_handle_q. exact HP.
    + intros H; inversion H; subst. eapply PI_sig; [apply sig_deliver_sys|]. eapply PI_sig; [apply sig_upd_actor; sg|exact HP].
    + intros H; inversion H; subst. exact HP.
Qed.

(* one step: PI is kept, and an instance number that changes in the step grows *)
Definition grows (s s' : kstate) : Prop :=
  forall u a a', get s u = Some a -> get s' u = Some a' -> is_sys (a_tok a) = false -> a_inst a' <> a_inst a -> (a_inst a < a_inst a')%nat.
Lemma grows_sig_idf s s' : idf s s' -> grows s s'.
Proof. intros F u. apply FR_idf. exact F. Qed.

Lemma inst_pop1 a : a_inst (pop1 a) = a_inst a /\ a_tok (pop1 a) = a_tok a.
Proof. destruct (pop1_id a) as (T & _). split; [|exact T]. unfold pop1. destruct (a_inflight a); [reflexivity|]. destruct (a_sysq a); [|reflexivity]. destruct (a_susp a); [reflexivity|]. destruct (a_userq a); reflexivity. Qed.
Lemma grows_normalize s s2 : grows s s2 -> grows s (normalize s2).
Proof.
  intros G u a a' Ha Ha'. rewrite get_normalize' in Ha'. destruct (get s2 u) as [b|] eqn:Eb; [|discriminate]. cbn in Ha'. inversion Ha'; subst a'.
  destruct (inst_pop1 b) as [I _]. rewrite I. exact (G u a b Ha Eb).
Qed.

Lemma PI_run_inner s0 w m s1 o1 : PI s0 -> Frame.run_inner roles s0 w m = (s1, o1) -> PI s1 /\ FR w s0 s1.
Proof.
  intros P0. unfold Frame.run_inner.
  destruct (match m with MS e => process_sys roles s0 w e | MU e => process_user roles s0 w e end) as [[sx ox] px] eqn:Ex.
  assert (X : PI sx /\ FR w s0 sx /\ (forall a, get s0 w = Some a -> exists a1, get sx w = Some a1)).
  { destruct m as [e|e].
    - destruct (PI_process_sys _ _ _ _ _ _ P0 Ex) as [Px Rx]. split; [exact Px|]. split; [exact Rx|].
      intros a Ha. destruct (mono_process_sys roles _ _ _ _ _ _ Ex w a Ha) as (a1 & G1 & _). exists a1. exact G1.
    - split; [eapply PI_process_user; eassumption|]. split; [apply FR_idf; eapply id_process_user; exact Ex|].
      intros a Ha. destruct (keep_process_user roles _ _ _ _ _ _ Ex w a Ha) as (a1 & G1 & _). exists a1. exact G1. }
  destruct X as (Px & Rx & Hex). destruct px; [|intros H; inversion H; subst; auto].
  destruct (crashed sx); [intros H; inversion H; subst; auto|].
  destruct (report_abnormal roles sx w) as [[sy oy] py] eqn:Ey. intros H; inversion H; subst.
  split; [eapply PI_sig; [eapply sig_report_abnormal; exact Ey|exact Px]|].
  eapply FR_post; [exact Rx|eapply id_report_abnormal; exact Ey|exact Hex].
Qed.

Theorem kstep_PI s l s' o : PI s -> kstep roles s l = Some (s', o) -> PI s' /\ grows s s'.
Proof.
  intros HP.
  assert (EXT : forall s2, sig s2 = sig s -> idf s s2 -> PI (normalize s2) /\ grows s (normalize s2)).
  { intros s2 Hsig F. split; [eapply PI_sig; [apply sig_normalize|]; eapply PI_sig; [exact Hsig|exact HP]|apply grows_normalize, grows_sig_idf; exact F]. }
  destruct l; cbn [kstep].
  - destruct (run_actor roles s (Z.to_nat u)) as [[s1 o1]|] eqn:E; [|discriminate]. intros H; injection H as <- <-.
    set (w := Z.to_nat u) in *.
    destruct (get s w) as [a|] eqn:Ea; [|unfold run_actor in E; rewrite Ea in E; discriminate].
    destruct (a_inflight a) as [m|] eqn:Em; [|unfold run_actor in E; rewrite Ea, Em in E; discriminate].
    rewrite (Frame.run_actor_inner roles s w a m Ea Em) in E.
    set (s0 := upd_actor s w (w_inflight None)) in *.
    assert (Ein : Frame.run_inner roles s0 w m = (s1, o1)) by (inversion E; reflexivity).
    assert (P0 : PI s0) by (eapply PI_sig; [apply sig_upd_actor; sg|exact HP]).
    assert (F0 : idf s s0) by (unfold s0; match goal with |- idf ?x (upd_actor ?x ?v ?f) => apply (id_upd v x f); intros b; split; reflexivity end).
    destruct (PI_run_inner _ _ _ _ _ P0 Ein) as [P1 R1].
    split; [eapply PI_sig; [apply sig_normalize|exact P1]|]. apply grows_normalize.
    intros v b b' Hb Hb' Hs Hne. destruct (Nat.eq_dec v w) as [->|Hv].
    + exact (FR_pre w s s0 s1 F0 R1 b b' Hb Hb' Hs Hne).
    + exfalso. apply Hne. pose proof (Gx_run_inner roles w _ _ _ _ Ein) as [A _].
      assert (G0 : get s0 v = Some b) by (unfold s0, upd_actor; rewrite Ea; rewrite get_put_other by (intros X; apply Hv; auto); exact Hb).
      destruct (A v b G0) as (b2 & G2 & [_ R]). rewrite Hb' in G2. inversion G2; subst b2. destruct (R Hv) as (I & _). exact I.
  - destruct (next_serial s) as [s1 k] eqn:En. destruct (deliver_user s1 t rNone (UProbe n k)) as [s2 o2] eqn:E. intros H; inversion H; subst.
    assert (Sg : sig s1 = sig s) by (unfold next_serial in En; inversion En; subst; reflexivity).
    assert (Fi : idf s s1) by (unfold idf; apply FrameU.fr_same_actors; [exact ID_refl|unfold next_serial in En; inversion En; subst; reflexivity]).
    apply EXT; [eapply sig_trans; [exact Sg|eapply sig_deliver_user; exact E]|apply idf_trans with (b := s1); [exact Fi|idfr (FrameU.fr_deliver_user IDa)]].
  - destruct (next_serial s) as [s1 k] eqn:En. destruct (deliver_user s1 t rGuard (UProbe n k)) as [s2 o2] eqn:E. intros H; inversion H; subst.
    assert (Sg : sig s1 = sig s) by (unfold next_serial in En; inversion En; subst; reflexivity).
    assert (Fi : idf s s1) by (unfold idf; apply FrameU.fr_same_actors; [exact ID_refl|unfold next_serial in En; inversion En; subst; reflexivity]).
    apply EXT; [eapply sig_trans; [exact Sg|eapply sig_deliver_user; exact E]|apply idf_trans with (b := s1); [exact Fi|idfr (FrameU.fr_deliver_user IDa)]].
  - destruct (terminate s rGuard t g) as [s1 o1] eqn:E. intros H; inversion H; subst.
    apply EXT; [eapply sig_terminate; exact E|idfr (FrameU.fr_terminate IDa)].
  - destruct (spawn s guard_uid rGuard t r) as [[s1 o1] p] eqn:E. intros H; inversion H; subst.
    split; [eapply PI_sig; [apply sig_normalize|eapply PI_spawn; eassumption]|]. apply grows_normalize, grows_sig_idf.
    unfold idf. eapply (FrameU.fr_spawn IDa guard_uid); try exact ID_refl; try exact ID_trans; try (intros; split; reflexivity); exact E.
  - destruct (terminate s rGuard rGuard g) as [s1 o1] eqn:E. intros H; inversion H; subst.
    apply EXT; [eapply sig_terminate; exact E|idfr (FrameU.fr_terminate IDa)].
  - intros H; inversion H; subst. split; [exact HP|apply grows_sig_idf, idf_refl].
Qed.

Lemma PI_init : PI kinit.
Proof.
  intros u a Ha Hs. unfold get, kinit in Ha; cbn [actors] in Ha.
  destruct u as [|[|u]]; cbn in Ha; [inversion Ha; subst; discriminate Hs|inversion Ha; subst; discriminate Hs|destruct u; discriminate].
Qed.

Theorem krun_PI ls : forall s s' os, PI s -> krun roles s ls = Some (s', os) -> PI s'.
Proof.
  induction ls as [|l rest IH]; intros s s' os HP; cbn [krun]; [intros H; inversion H; subst; exact HP|].
  destruct (kstep roles s l) as [[s1 o]|] eqn:E; [|discriminate].
  destruct (krun roles s1 rest) as [[s2 os2]|] eqn:E2; [|discriminate]. intros H; inversion H; subst.
  eapply IH; [|exact E2]. eapply kstep_PI; eassumption.
Qed.

(* C03: the instance number of an object changes only by growing (a completed restart installs the provider's next number), for
   every role table and every run from the freshly started system *)
Theorem instance_numbers_only_grow ls s os l s' o u a a' :
  krun roles kinit ls = Some (s, os) -> kstep roles s l = Some (s', o) ->
  get s u = Some a -> get s' u = Some a' -> is_sys (a_tok a) = false -> a_inst a' <> a_inst a -> (a_inst a < a_inst a')%nat.
Proof.
  intros Hr Hk. destruct (kstep_PI s l s' o (krun_PI ls kinit s os PI_init Hr) Hk) as [_ G]. apply G.
Qed.
(* ... and is below the number of instances the provider of its address has produced *)
Theorem instance_below_provider_count ls s os u a :
  krun roles kinit ls = Some (s, os) -> get s u = Some a -> is_sys (a_tok a) = false -> (a_inst a < pcount s (a_tok a))%nat.
Proof. intros Hr Ha. exact (krun_PI ls kinit s os PI_init Hr u a Ha). Qed.

End F.
