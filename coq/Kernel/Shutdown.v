(* MV.Kernel.Shutdown — C05, "Shutdown returns only after every actor has terminated, and afterwards no actor remains
   registered": in every run of the kernel from the freshly started system, for every role table whose scripts never
   spawn from inside an actor's own OnTerminated handler and never claim a system address, the step that sets the
   closed flag (the event Shutdown waits for) leaves the registry EMPTY, and every actor object that exists is
   terminated (or was never registered). The flag is set in one place only — the guard completing its termination — and
   there the guard's children table is empty; by the hierarchy invariant (Kernel.Hierarchy, now with "the registered
   parent is an older object", so ancestor chains are well-founded) every registered object other than the guard would
   have a registered ancestor listed in that table. *)
From MV Require Import Lib.ListX Kernel.Model Kernel.Lifecycle Kernel.Status Kernel.Registry Kernel.Hierarchy.
Open Scope Z_scope.

Definition empty_reg (s : kstate) : Prop := forall t, lookup t (registry s) = None.

(* ---- the closed flag is left alone by everything but tryTerminated ---- *)
Definition cs (s s' : kstate) : Prop := closed s' = closed s.
Lemma cs_refl s : cs s s. Proof. reflexivity. Qed.
Lemma cs_trans a b c : cs a b -> cs b c -> cs a c. Proof. unfold cs. congruence. Qed.
Lemma cs_upd_actor s u f : cs s (upd_actor s u f).
Proof. unfold cs, upd_actor. destruct (get s u); reflexivity. Qed.
Lemma cs_push_sys s u e : cs s (push_sys s u e). Proof. apply cs_upd_actor. Qed.
Lemma cs_deliver_sys s t snd m : cs s (deliver_sys s t snd m).
Proof.
  unfold deliver_sys. destruct (lookup t (registry s)); [apply cs_push_sys|].
  destruct m; try apply cs_refl. destruct (lookup snd (registry s)); [apply cs_push_sys|apply cs_refl].
Qed.
Lemma cs_to_sub s : cs s (to_sub s).
Proof. unfold to_sub. destruct (lookup rSub (registry s)); [apply cs_upd_actor|apply cs_refl]. Qed.
Lemma cs_abyss_user s snd rcv m s' o : abyss_user s snd rcv m = (s', o) -> cs s s'.
Proof. unfold abyss_user. destruct m; intros H; inversion H; subst; try apply cs_refl; destruct (rcv =? rSub); try apply cs_refl; apply cs_to_sub. Qed.
Lemma cs_deliver_user s t snd m s' o : deliver_user s t snd m = (s', o) -> cs s s'.
Proof.
  unfold deliver_user. destruct (lookup t (registry s)) as [u|]; [|apply cs_abyss_user].
  destruct (get s u); [intros H; inversion H; subst; reflexivity|apply cs_abyss_user].
Qed.
Lemma cs_terminate s self t g s' o : terminate s self t g = (s', o) -> cs s s'.
Proof. unfold terminate. destruct g; [apply cs_deliver_user|intros H; inversion H; subst; apply cs_deliver_sys]. Qed.
Lemma cs_terminate_all l : forall s self g s' o, terminate_all s self l g = (s', o) -> cs s s'.
Proof.
  induction l as [|c rest IH]; intros s self g s' o; cbn [terminate_all]; [intros H; inversion H; subst; apply cs_refl|].
  destruct (terminate s self c g) as [s1 o1] eqn:E1. destruct (terminate_all s1 self rest g) as [s2 o2] eqn:E2.
  intros H; inversion H; subst. eapply cs_trans; [eapply cs_terminate; exact E1|eapply IH; exact E2].
Qed.
Lemma cs_restart_all l : forall s self, cs s (restart_all s self l).
Proof. induction l as [|c rest IH]; intros s self; cbn [restart_all]; [apply cs_refl|]. eapply cs_trans; [apply cs_deliver_sys|apply IH]. Qed.
Lemma cs_send_each ts : forall s self n k s' o, send_each s self ts n k = (s', o) -> cs s s'.
Proof.
  induction ts as [|t rest IH]; intros s self n k s' o; cbn [send_each]; [intros H; inversion H; subst; apply cs_refl|].
  destruct (deliver_user s t self (UProbe n k)) as [s1 o1] eqn:E1. destruct (send_each s1 self rest n k) as [s2 o2] eqn:E2.
  intros H; inversion H; subst. eapply cs_trans; [eapply cs_deliver_user; exact E1|eapply IH; exact E2].
Qed.
Lemma cs_escalate s u r s' o p : escalate s u r = (s', o, p) -> cs s s'.
Proof.
  unfold escalate. destruct (get s u) as [a|]; [|intros H; inversion H; subst; apply cs_refl].
  destruct (a_parent a =? rNone); intros H; inversion H; subst; [reflexivity|apply cs_deliver_sys].
Qed.
Lemma cs_drop_child s u w : cs s (drop_child s u w).
Proof. unfold drop_child. destruct (lookup w (registry s)); [apply cs_refl|apply cs_upd_actor]. Qed.
Lemma cs_stop s u self t s' o p : stop_if_parent_gone s u self t = (s', o, p) -> cs s s'.
Proof.
  unfold stop_if_parent_gone. destruct (get s u) as [pa|]; [|intros H; inversion H; subst; apply cs_refl].
  destruct (not_alive (a_st pa)); [|intros H; inversion H; subst; apply cs_refl].
  destruct (terminate s self t (a_graceful pa)) as [s1 o1] eqn:E. intros H; inversion H; subst. eapply cs_terminate; exact E.
Qed.
Lemma cs_spawn s u self t r s' o p : spawn s u self t r = (s', o, p) -> cs s s'.
Proof.
  unfold spawn. destruct (provide s t) as [s1 inst] eqn:Ep.
  assert (C1 : cs s s1) by (unfold provide in Ep; inversion Ep; subst; reflexivity).
  destruct (lookup t (registry s1)).
  - intros H; inversion H; subst. exact C1.
  - intros H. apply cs_stop in H. eapply cs_trans; [exact C1|]. eapply cs_trans; [|exact H].
    eapply cs_trans; [|apply cs_deliver_sys]. eapply cs_trans; [|apply cs_upd_actor]. reflexivity.
Qed.

Section SD.
Variable roles : list role.

Lemma cs_report_abnormal s u s' o p : report_abnormal roles s u = (s', o, p) -> cs s s'.
Proof.
  unfold report_abnormal. destruct (get s u) as [a|]; [|intros H; inversion H; subst; apply cs_refl].
  destruct (a_st a); try (intros H; inversion H; subst; apply cs_refl; fail).
  intros H. apply cs_escalate in H. eapply cs_trans; [|exact H]. eapply cs_trans; [apply cs_upd_actor|apply cs_deliver_sys].
Qed.
Lemma cs_do_action s u snd act s' o p : do_action roles s u snd act = (s', o, p) -> cs s s'.
Proof.
  unfold do_action. destruct (get s u) as [a|]; [|intros H; inversion H; subst; apply cs_refl].
  destruct act.
  - destruct (next_serial s) as [s1 k] eqn:En. destruct (deliver_user s1 t rNone (UProbe n k)) as [s2 o2] eqn:E.
    intros H; inversion H; subst. apply cs_deliver_user in E. unfold next_serial in En; inversion En; subst. exact E.
  - destruct (next_serial s) as [s1 k] eqn:En. destruct (deliver_user s1 t (a_tok a) (UProbe n k)) as [s2 o2] eqn:E.
    intros H; inversion H; subst. apply cs_deliver_user in E. unfold next_serial in En; inversion En; subst. exact E.
  - destruct (next_serial s) as [s1 k] eqn:En. destruct (deliver_user s1 snd (a_tok a) (UProbe n k)) as [s2 o2] eqn:E.
    intros H; inversion H; subst. apply cs_deliver_user in E. unfold next_serial in En; inversion En; subst. exact E.
  - destruct (next_serial s) as [s1 k] eqn:En. destruct (send_each s1 (a_tok a) (a_children a) n k) as [s2 o2] eqn:E.
    intros H; inversion H; subst. apply cs_send_each in E. unfold next_serial in En; inversion En; subst. exact E.
  - destruct (spawn s u (a_tok a) t r) as [[s1 o1] p1] eqn:E. intros H; inversion H; subst. eapply cs_spawn; exact E.
  - destruct (terminate s (a_tok a) t g) as [s1 o1] eqn:E. intros H; inversion H; subst. eapply cs_terminate; exact E.
  - intros H; inversion H; subst. apply cs_deliver_sys.
  - intros H; inversion H; subst. apply cs_deliver_sys.
  - destruct (report_abnormal roles s u) as [[s1 o1] p1] eqn:E. intros H; inversion H; subst. eapply cs_report_abnormal; exact E.
  - intros H; inversion H; subst. apply cs_refl.
Qed.
Lemma cs_do_actions acts : forall s u snd s' o p, do_actions roles s u snd acts = (s', o, p) -> cs s s'.
Proof.
  induction acts as [|act rest IH]; intros s u snd s' o p; cbn [do_actions]; [intros H; inversion H; subst; apply cs_refl|].
  apply (bind_rel cs); [apply cs_trans| |].
  - intros s1 o1 p1 E. eapply cs_do_action; exact E.
  - intros s1 s2 o2 p2 E. eapply IH; exact E.
Qed.
Lemma cs_handle_q q s u t k snd s' o p : handle_q roles q s u t k snd = (s', o, p) -> cs s s'.
Proof.
  unfold handle_q. destruct (get s u) as [a|]; [|intros H; inversion H; subst; apply cs_refl].
  destruct q; [intros H; inversion H; subst; apply cs_refl|].
  destruct (do_actions roles s u snd (find_rule (rules (role_of roles a)) t (a_inst a))) as [[s1 o1] p1] eqn:E.
  intros H; inversion H; subst. eapply cs_do_actions; exact E.
Qed.
Lemma cs_handle s u t k snd s' o p : handle roles s u t k snd = (s', o, p) -> cs s s'.
Proof. unfold handle. destruct (get s u); [apply cs_handle_q|intros H; inversion H; subst; apply cs_refl]. Qed.
Lemma cs_start_instance s u self parent s' o p : start_instance roles s u self parent = (s', o, p) -> cs s s'.
Proof.
  unfold start_instance. destruct (handle roles s u TRD 0 self) as [[s1 o1] p1] eqn:E1.
  destruct (handle roles s1 u TL 0 parent) as [[s2 o2] p2] eqn:E2. intros H; inversion H; subst.
  eapply cs_trans; [eapply cs_handle; exact E1|]. eapply cs_trans; [eapply cs_handle; exact E2|].
  destruct p2; [apply cs_refl|apply cs_upd_actor].
Qed.
Lemma cs_try_restarted s u snd s' o p : try_restarted roles s u snd = (s', o, p) -> cs s s'.
Proof.
  unfold try_restarted. destruct (get s u) as [a|]; [|intros H; inversion H; subst; apply cs_refl].
  destruct (a_children a); [|intros H; inversion H; subst; apply cs_refl].
  destruct (a_st a); try (intros H; inversion H; subst; apply cs_refl).
  destruct (provide s (a_tok a)) as [s0 inst] eqn:Ep. intros H.
  apply (cs_trans s s0); [unfold provide in Ep; inversion Ep; subst; reflexivity|]. revert H.
  apply (bind_rel cs); [apply cs_trans| |].
  - intros s1 o1 p1 E. eapply cs_handle; exact E.
  - intros s1 s2 o2 p2. apply (bind_rel cs); [apply cs_trans| |].
    + intros s3 o3 p3 E. eapply cs_handle; exact E.
    + intros s3 s4 o4 p4. intros H. apply cs_start_instance in H.
      eapply cs_trans; [|exact H]. eapply cs_trans; [|apply cs_deliver_sys]. apply cs_upd_actor.
Qed.
Lemma cs_process_user s u e s' o p : process_user roles s u e = (s', o, p) -> cs s s'.
Proof.
  unfold process_user. destruct (get s u) as [a|]; [|intros H; inversion H; subst; apply cs_refl].
  destruct (st_ge_terminating (a_st a)).
  - destruct (abyss_user s (e_snd e) (e_rcv e) (e_msg e)) as [s1 o1] eqn:E. intros H; inversion H; subst. eapply cs_abyss_user; exact E.
  - destruct (e_msg e).
    + apply cs_handle_q.
    + intros H; inversion H; subst. eapply cs_trans; [apply cs_upd_actor|apply cs_deliver_sys].
    + intros H; inversion H; subst. apply cs_refl.
Qed.

(* ---- when the guard's children table is empty, nothing but the guard is registered ---- *)
Lemma only_guard s g :
  Inv s -> get s guard_uid = Some g -> reg s guard_uid g -> a_children g = [] ->
  forall c ac, get s c = Some ac -> reg s c ac -> c = guard_uid.
Proof.
  intros (HR & HH2 & HH3 & HH4 & HH5 & HH6 & HH7) Hg Rg Hch c.
  induction c as [c IH] using lt_wf_ind. intros ac Hc Hreg.
  destruct (Z.eq_dec (a_parent ac) rNone) as [Ep|Ep]; [exact (HH6 c ac Hc Ep)|].
  destruct (HH2 c ac Hc Hreg Ep) as [[_ E2]|(pu & pa & Hl & Hpa & Hin & Hlt)].
  - exfalso. destruct HH4 as (g' & Hg' & Tg & _). rewrite Hg in Hg'. inversion Hg'; subst g'. unfold reg in Rg. rewrite Tg in Rg. congruence.
  - exfalso. destruct (HR _ _ Hl) as (pa' & Hpa' & Tpa). rewrite Hpa in Hpa'. inversion Hpa'; subst pa'.
    assert (Rp : reg s pu pa) by (unfold reg; rewrite Tpa; exact Hl).
    pose proof (IH pu Hlt pa Hpa Rp) as E. subst pu. rewrite Hg in Hpa. inversion Hpa; subst pa. rewrite Hch in Hin. destruct Hin.
Qed.

Hypothesis Hsp : forall ro ru t r, In ro roles -> In ru (rules ro) -> In (ASpawn t r) (r_do ru) -> 0 <= t /\ r_on ru <> KTS.

(* the closed flag is unchanged, or the registry has just been emptied *)
Definition fl (s s' : kstate) : Prop := cs s s' \/ empty_reg s'.
Lemma fl_cs s s' : cs s s' -> fl s s'. Proof. left. assumption. Qed.
Lemma fl_pre a b c : cs a b -> fl b c -> fl a c.
Proof. intros H [H2|H2]; [left; eapply cs_trans; eassumption|right; exact H2]. Qed.

Lemma fl_try_terminated s u snd s' o p : Inv s -> regu u s -> try_terminated roles s u snd = (s', o, p) -> fl s s'.
Proof.
  intros HI Hu. unfold try_terminated. destruct (get s u) as [a|] eqn:Ea; [|intros H; inversion H; subst; apply fl_cs, cs_refl].
  destruct (a_children a) eqn:Ech; [|intros H; inversion H; subst; apply fl_cs, cs_refl].
  destruct (a_st a) eqn:Est; try (intros H; inversion H; subst; apply fl_cs, cs_refl).
  set (s1 := upd_actor s u (w_st Terminated)).
  assert (Q1 : qk s s1) by (unfold s1; apply qk_upd_actor; [intros b; repeat split; auto|intros b Hb; eapply regu_or; eassumption]).
  assert (G1 : get s1 u = Some (w_st Terminated a)) by (apply get_upd_actor_same; exact Ea).
  destruct (handle roles s1 u TTS 0%nat snd) as [[s2 o2] p2] eqn:E2.
  assert (Q2 : qk s1 s2) by (eapply qk_handle_tts; [exact Hsp|eapply RI_qk; [apply HI|exact Q1]|eapply regu_qk; eassumption|exact E2]).
  assert (C02 : cs s s2) by (eapply cs_trans; [apply cs_upd_actor|eapply cs_handle; exact E2]).
  assert (I2 : Inv s2) by (eapply Inv_qk; [eapply Inv_qk; [exact HI|exact Q1]|exact Q2]).
  assert (R2 : regu u s2) by (eapply regu_qk; [exact Q2|eapply regu_qk; eassumption]).
  unfold bind. destruct p2; [intros H; inversion H; subst; left; exact C02|].
  destruct Q2 as (_ & _ & K2). destruct (K2 u _ G1) as (a2 & G2 & T2 & P2 & C2 & S2 & _). cbn [a_tok a_parent a_children a_st w_st] in *.
  destruct R2 as (a2' & G2' & Rr2). rewrite G2 in G2'. inversion G2'; subst a2'.
  destruct (a_parent a =? rNone) eqn:Epn.
  - (* the guard: Shutdown is released *)
    intros H; inversion H; subst. right. intros t. cbn [registry].
    rewrite (regsame_notify_all _ (set_registry s2 (remove_key (a_tok a) (registry s2))) (a_tok a)). cbn [registry set_registry].
    apply Z.eqb_eq in Epn.
    assert (Eu : u = guard_uid).
    { destruct I2 as (_ & _ & _ & _ & _ & HH6 & _). apply (HH6 u a2 G2). congruence. }
    subst u.
    destruct (Z.eq_dec t (a_tok a)) as [->|Ht]; [apply lookup_remove_key_self|].
    rewrite lookup_remove_key_other by exact Ht.
    destruct (lookup t (registry s2)) as [c|] eqn:El; [exfalso|reflexivity].
    destruct (proj1 I2 t c El) as (ac & Hc & Tc).
    assert (Rc : reg s2 c ac) by (unfold reg; rewrite Tc; exact El).
    assert (Ec : c = guard_uid) by (eapply only_guard; [exact I2|exact G2|exact Rr2|congruence|exact Hc|exact Rc]).
    subst c. rewrite G2 in Hc. inversion Hc; subst ac. congruence.
  - intros H; inversion H; subst. left. eapply cs_trans; [exact C02|]. eapply cs_trans; [|apply cs_deliver_sys].
    assert (N : forall l z, closed (notify_all z (a_tok a) l) = closed z).
    { induction l as [|y l IH]; intros z; cbn [notify_all]; [reflexivity|]. rewrite IH. apply cs_deliver_sys. }
    unfold cs. rewrite N. reflexivity.
Qed.

Lemma fl_post a b c : fl a b -> regsame b c -> cs b c -> fl a c.
Proof. intros [H|H] Rg C; [left; eapply cs_trans; eassumption|right; intros t; rewrite Rg; apply H]. Qed.

Lemma fl_apply_directive s u r d snd s' o p : Inv s -> regu u s -> apply_directive roles s u r d snd = (s', o, p) -> fl s s'.
Proof.
  intros HI Hu. unfold apply_directive. destruct (get s u) as [a|] eqn:Ea; [|intros H; inversion H; subst; apply fl_cs, cs_refl].
  destruct d.
  - intros H; inversion H; subst. apply fl_cs, cs_deliver_sys.
  - destruct (terminate s (a_tok a) (ar_vref r) false) as [s1 o1] eqn:E1.
    destruct (try_terminated roles s1 u snd) as [[s2 o2] p2] eqn:E2. intros H; inversion H; subst.
    assert (Q1 : qk s s1) by (eapply qk_terminate; [apply HI|exact E1]).
    eapply fl_pre; [eapply cs_terminate; exact E1|]. eapply fl_try_terminated; [eapply Inv_qk; eassumption|eapply regu_qk; eassumption|exact E2].
  - intros H; inversion H; subst. apply fl_cs, cs_deliver_sys.
  - destruct (escalate s u r) as [[s1 o1] p1] eqn:E. intros H; inversion H; subst. apply fl_cs. eapply cs_escalate; exact E.
  - intros H; inversion H; subst. apply fl_cs, cs_restart_all.
Qed.

Lemma fl_on_accident s u r snd s' o p : Inv s -> regu u s -> on_accident roles s u r snd = (s', o, p) -> fl s s'.
Proof.
  intros HI Hu. unfold on_accident. destruct (get s u) as [a|]; [|intros H; inversion H; subst; apply fl_cs, cs_refl].
  destruct (ar_strategy r); [apply fl_apply_directive; assumption|].
  destruct (sup (role_of roles a)); [|apply fl_apply_directive; assumption].
  intros H. apply fl_cs. eapply cs_escalate; exact H.
Qed.

Lemma fl_process_sys s u e s' o p : Inv s -> hor u s -> process_sys roles s u e = (s', o, p) -> fl s s'.
Proof.
  intros HI Ho. unfold process_sys. destruct (get s u) as [a|] eqn:Ea; [|intros H; inversion H; subst; apply fl_cs, cs_refl].
  destruct (Ho a Ea) as [Hr|Hst].
  2:{ rewrite Hst. destruct (e_msg e); try (intros H; inversion H; subst; apply fl_cs, cs_refl; fail).
      destruct (e_snd e =? a_parent a); [intros H; inversion H; subst; apply fl_cs, cs_refl|]. cbn [st_ge_terminating].
      intros H; inversion H; subst. apply fl_cs, cs_deliver_sys. }
  assert (Hu : regu u s) by (exists a; auto).
  destruct (match a_st a, e_msg e with Terminated, SWatch => false | Terminated, _ => true | _, _ => false end);
    [intros H; inversion H; subst; apply fl_cs, cs_refl|].
  destruct (e_msg e) as [| |g|who| |r| | | | |] eqn:Em.
  - (* SLaunch *) intros H. apply fl_cs. revert H. apply (bind_rel cs); [apply cs_trans| |].
    + intros s1 o1 p1 E. eapply cs_handle; exact E.
    + intros s1 s2 o2 p2 H; inversion H; subst. apply cs_upd_actor.
  - intros H. apply fl_cs. eapply cs_handle; exact H.
  - (* STerminate *)
    assert (HT : forall s0, Inv s0 -> regu u s0 -> cs s s0 ->
       handle roles s0 u TT 0%nat (e_snd e) >>= (fun s3 => match get s3 u with
         | None => ok s3 []
         | Some a3 => let '(s4, o4) := terminate_all s3 (a_tok a3) (a_children a3) (g || a_graceful a3) in
                      let '(s5, o5, p) := try_terminated roles s4 u (e_snd e) in (s5, o4 ++ o5, p) end) = (s', o, p) ->
       fl s s').
    { intros s0 I0 R0 C0. destruct (handle roles s0 u TT 0%nat (e_snd e)) as [[s1 o1] p1] eqn:E1.
      destruct (A_handle roles Hsp _ _ _ _ _ _ _ _ I0 R0 E1) as [I1 R1].
      assert (C1 : cs s s1) by (eapply cs_trans; [exact C0|eapply cs_handle; exact E1]).
      unfold bind. destruct p1; [intros H; inversion H; subst; left; exact C1|].
      destruct (get s1 u) as [a3|]; [|intros H; inversion H; subst; left; exact C1].
      destruct (terminate_all s1 (a_tok a3) (a_children a3) (g || a_graceful a3)) as [s4 o4] eqn:E4.
      destruct (try_terminated roles s4 u (e_snd e)) as [[s5 o5] p5] eqn:E5. intros H; inversion H; subst.
      assert (Q4 : qk s1 s4) by (eapply qk_terminate_all; [apply I1|exact E4]).
      eapply fl_pre; [eapply cs_trans; [exact C1|eapply cs_terminate_all; exact E4]|].
      eapply fl_try_terminated; [eapply Inv_qk; eassumption|eapply regu_qk; eassumption|exact E5]. }
    assert (Pre : forall x, x = Alive \/ x = Restarting -> a_st a = x ->
       Inv (deliver_sys (upd_actor s u (w_st Terminating)) (a_tok a) (a_tok a) SResume) /\ regu u (deliver_sys (upd_actor s u (w_st Terminating)) (a_tok a) (a_tok a) SResume)).
    { intros x Hx Ex.
      assert (Q1 : qk s (upd_actor s u (w_st Terminating))).
      { unfold upd_actor. rewrite Ea. eapply qk_put; [exact Ea|reflexivity|reflexivity|reflexivity| |left; exact Hr]. intros Ht. rewrite Ex in Ht. destruct Hx; subst; discriminate. }
      assert (Q2 : qk (upd_actor s u (w_st Terminating)) (deliver_sys (upd_actor s u (w_st Terminating)) (a_tok a) (a_tok a) SResume)) by (apply qk_deliver_sys; eapply RI_qk; [apply HI|exact Q1]).
      split; [eapply Inv_qk; [eapply Inv_qk; [exact HI|exact Q1]|exact Q2]|eapply regu_qk; [exact Q2|eapply regu_qk; eassumption]]. }
    assert (C0 : cs s (deliver_sys (upd_actor s u (w_st Terminating)) (a_tok a) (a_tok a) SResume)) by (eapply cs_trans; [apply cs_upd_actor|apply cs_deliver_sys]).
    destruct (a_st a) eqn:Est; try (intros H; inversion H; subst; apply fl_cs, cs_refl; fail).
    + destruct (Pre Alive (or_introl eq_refl) eq_refl) as [I1 R1]. apply HT; assumption.
    + destruct (Pre Restarting (or_intror eq_refl) eq_refl) as [I1 R1]. apply HT; assumption.
  - (* STerminatedOf *)
    destruct (Inv_drop_child s u who HI Ho) as [I0 R0]. specialize (R0 Hu).
    destruct (handle roles (drop_child s u who) u (if who =? a_tok a then TTS else TTO who) 0%nat (e_snd e)) as [[s1 o1] p1] eqn:E1.
    destruct (A_handle roles Hsp _ _ _ _ _ _ _ _ I0 R0 E1) as [I1 R1].
    assert (C1 : cs s s1) by (eapply cs_trans; [apply cs_drop_child|eapply cs_handle; exact E1]).
    unfold bind. destruct p1; [intros H; inversion H; subst; left; exact C1|].
    destruct (get s1 u) as [a2|]; [|intros H; inversion H; subst; left; exact C1].
    destruct (a_st a2); try (intros H; inversion H; subst; left; exact C1).
    + destruct (try_restarted roles s1 u (e_snd e)) as [[s2 o2] p2] eqn:E2. intros H; inversion H; subst.
      left. eapply cs_trans; [exact C1|eapply cs_try_restarted; exact E2].
    + destruct (try_terminated roles s1 u (e_snd e)) as [[s2 o2] p2] eqn:E2. intros H; inversion H; subst.
      eapply fl_pre; [exact C1|eapply fl_try_terminated; eassumption].
  - (* SRestart *) destruct (a_st a) eqn:Est; try (intros H; inversion H; subst; apply fl_cs, cs_refl; fail).
    intros H. apply fl_cs.
    apply cs_trans with (b := upd_actor s u (w_st Restarting)); [apply cs_upd_actor|].
    apply cs_trans with (b := deliver_sys (upd_actor s u (w_st Restarting)) (a_tok a) (a_tok a) SSuspend); [apply cs_deliver_sys|]. revert H.
    apply (bind_rel cs); [apply cs_trans| |].
    + intros s1 o1 p1 E. eapply cs_handle; exact E.
    + intros s1 s2 o2 p2. destruct (get s1 u) as [a2|]; [|intros H; inversion H; subst; apply cs_refl].
      destruct (terminate_all s1 (a_tok a2) (a_children a2) false) as [s3 o3] eqn:E3.
      destruct (try_restarted roles s3 u (e_snd e)) as [[s4 o4] p4] eqn:E4. intros H; inversion H; subst.
      eapply cs_trans; [eapply cs_terminate_all; exact E3|eapply cs_try_restarted; exact E4].
  - (* SAccident *) apply fl_on_accident; assumption.
  - (* SWatch *) destruct (e_snd e =? a_parent a); [intros H; inversion H; subst; apply fl_cs, cs_refl|].
    destruct (st_ge_terminating (a_st a)); intros H; inversion H; subst; apply fl_cs; [apply cs_deliver_sys|apply cs_upd_actor].
  - intros H; inversion H; subst. apply fl_cs, cs_upd_actor.
  - intros H; inversion H; subst; apply fl_cs, cs_refl.
  - intros H; inversion H; subst; apply fl_cs, cs_refl.
  - (* SResumeReq *) destruct (a_st a); intros H; inversion H; subst; apply fl_cs; try apply cs_refl. apply cs_deliver_sys.
Qed.

Lemma fl_run_actor s u s' o : Inv s -> run_actor roles s u = Some (s', o) -> fl s s'.
Proof.
  intros HI. unfold run_actor. destruct (get s u) as [a|] eqn:Ea; [|discriminate].
  destruct (a_inflight a) as [m|] eqn:Em; [|discriminate].
  assert (Ho : hor u s).
  { intros b Hb. rewrite Ea in Hb. inversion Hb; subst b. destruct HI as (_ & _ & HH3 & _). destruct (HH3 u a Ea) as [H|[H|H]]; [left; exact H|right; exact H|].
    destruct H as (_ & _ & Hi & _). congruence. }
  assert (Q0 : qk s (upd_actor s u (w_inflight None))) by (apply qk_upd_actor; [intros; split; [reflexivity|split; [reflexivity|split; [reflexivity|auto]]]|exact Ho]).
  set (s0 := upd_actor s u (w_inflight None)) in *.
  assert (I0 : Inv s0) by (eapply Inv_qk; eassumption). assert (H0 : hor u s0) by (eapply hor_qk; eassumption).
  assert (C0 : cs s s0) by apply cs_upd_actor.
  destruct (match m with MS e => process_sys roles s0 u e | MU e => process_user roles s0 u e end) as [[s1 o1] p1] eqn:E.
  assert (F1 : fl s s1).
  { eapply fl_pre; [exact C0|]. destruct m; [eapply fl_process_sys; eassumption|apply fl_cs; eapply cs_process_user; exact E]. }
  destruct p1; [|intros H; inversion H; subst; exact F1].
  destruct (crashed s1); [intros H; inversion H; subst; exact F1|].
  destruct (report_abnormal roles s1 u) as [[s2 o2] p2] eqn:E2. intros H; inversion H; subst.
  eapply fl_post; [exact F1|eapply regsame_report_abnormal; exact E2|eapply cs_report_abnormal; exact E2].
Qed.

(* the step that sets the closed flag leaves the registry empty *)
Theorem kstep_shutdown s l s' o :
  lab_ok l -> Inv s -> kstep roles s l = Some (s', o) -> closed s = false -> closed s' = true -> empty_reg s'.
Proof.
  intros Hl HI Hk C0 C1.
  assert (F : fl s s').
  { revert Hk. destruct l; cbn [kstep].
    - destruct (run_actor roles s (Z.to_nat u)) as [[s1 o1]|] eqn:E; [|discriminate]. intros H; inversion H; subst.
      eapply fl_post; [eapply fl_run_actor; eassumption|reflexivity|reflexivity].
    - destruct (next_serial s) as [s1 k] eqn:En. destruct (deliver_user s1 t rNone (UProbe n k)) as [s2 o2] eqn:E. intros H; inversion H; subst.
      left. apply cs_deliver_user in E. unfold next_serial in En; inversion En; subst. exact E.
    - destruct (next_serial s) as [s1 k] eqn:En. destruct (deliver_user s1 t rGuard (UProbe n k)) as [s2 o2] eqn:E. intros H; inversion H; subst.
      left. apply cs_deliver_user in E. unfold next_serial in En; inversion En; subst. exact E.
    - destruct (terminate s rGuard t g) as [s1 o1] eqn:E. intros H; inversion H; subst. left. eapply cs_terminate in E. exact E.
    - destruct (spawn s guard_uid rGuard t r) as [[s1 o1] p] eqn:E. intros H; inversion H; subst. left. eapply cs_spawn in E. exact E.
    - destruct (terminate s rGuard rGuard g) as [s1 o1] eqn:E. intros H; inversion H; subst. left. eapply cs_terminate in E. exact E.
    - intros H; inversion H; subst. left. apply cs_refl. }
  destruct F as [F|F]; [unfold cs in F; congruence|exact F].
Qed.

End SD.

(* C05: in every run from the freshly started system, when the closed flag gets set (Shutdown is released) nothing is
   registered any more, and every actor object that exists is terminated or was never registered *)
Theorem shutdown_leaves_nothing roles ls s os l s' o :
  (forall ro ru t r, In ro roles -> In ru (rules ro) -> In (ASpawn t r) (r_do ru) -> 0 <= t /\ r_on ru <> KTS) ->
  Forall lab_ok ls -> lab_ok l ->
  krun roles kinit ls = Some (s, os) -> kstep roles s l = Some (s', o) -> closed s = false -> closed s' = true ->
  (forall t, lookup t (registry s') = None) /\
  (forall u a, get s' u = Some a -> a_st a = Terminated \/ zombie a).
Proof.
  intros Hsp Hls Hl Hrun Hk C0 C1.
  assert (HI : Inv s) by (eapply krun_Inv; [exact Hsp|exact Hls|apply Inv_init|exact Hrun]).
  assert (HE : empty_reg s') by (eapply kstep_shutdown; eassumption).
  split; [exact HE|]. intros u a Ha.
  assert (HI' : Inv s') by (eapply kstep_Inv; eassumption).
  destruct HI' as (_ & _ & HH3 & _). destruct (HH3 u a Ha) as [H|[H|H]]; [|left; exact H|right; exact H].
  unfold reg in H. rewrite HE in H. discriminate.
Qed.
