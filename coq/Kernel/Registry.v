(* MV.Kernel.Registry — registry well-formedness in every reachable state: an address resolves to an existing
   actor object that carries that address (objects never disappear, never change address). *)
From MV Require Import Lib.ListX Kernel.Model Kernel.Lifecycle Kernel.Status.
Open Scope Z_scope.

Definition regsame (s s' : kstate) : Prop := registry s' = registry s.
Lemma regsame_refl s : regsame s s. Proof. reflexivity. Qed.
Lemma regsame_trans a b c : regsame a b -> regsame b c -> regsame a c.
Proof. unfold regsame. congruence. Qed.

Lemma regsame_put s u a : regsame s (put s u a). Proof. reflexivity. Qed.
Lemma regsame_upd_actor s u f : regsame s (upd_actor s u f).
Proof. unfold upd_actor. destruct (get s u); reflexivity. Qed.
Lemma regsame_drop_child s u w : regsame s (drop_child s u w).
Proof. unfold drop_child. destruct (lookup w (registry s)); [apply regsame_refl|apply regsame_upd_actor]. Qed.
Lemma regsame_push_sys s u e : regsame s (push_sys s u e).
Proof. apply regsame_upd_actor. Qed.
Lemma regsame_deliver_sys s t snd m : regsame s (deliver_sys s t snd m).
Proof.
  unfold deliver_sys. destruct (lookup t (registry s)); [apply regsame_push_sys|].
  destruct m; try reflexivity. destruct (lookup snd (registry s)); [apply regsame_push_sys|reflexivity].
Qed.
Lemma regsame_to_sub s : regsame s (to_sub s).
Proof. unfold to_sub. destruct (lookup rSub (registry s)); [apply regsame_upd_actor|reflexivity]. Qed.
Lemma regsame_abyss_user s snd rcv m s' o : abyss_user s snd rcv m = (s', o) -> regsame s s'.
Proof.
  unfold abyss_user. destruct m; intros H; inversion H; subst; try reflexivity;
    destruct (rcv =? rSub); try reflexivity; apply regsame_to_sub.
Qed.
Lemma regsame_deliver_user s t snd m s' o : deliver_user s t snd m = (s', o) -> regsame s s'.
Proof.
  unfold deliver_user. destruct (lookup t (registry s)) as [u|]; [|apply regsame_abyss_user].
  destruct (get s u); [|apply regsame_abyss_user]. intros H; inversion H; subst. reflexivity.
Qed.
Lemma regsame_terminate s self t g s' o : terminate s self t g = (s', o) -> regsame s s'.
Proof. unfold terminate. destruct g; [apply regsame_deliver_user|]. intros H; inversion H; subst. apply regsame_deliver_sys. Qed.
Lemma regsame_terminate_all cs : forall s self g s' o, terminate_all s self cs g = (s', o) -> regsame s s'.
Proof.
  induction cs as [|c rest IH]; intros s self g s' o; cbn [terminate_all].
  - intros H; inversion H; subst. reflexivity.
  - destruct (terminate s self c g) as [s1 o1] eqn:E1. destruct (terminate_all s1 self rest g) as [s2 o2] eqn:E2.
    intros H; inversion H; subst. eapply regsame_trans; [eapply regsame_terminate; exact E1|eapply IH; exact E2].
Qed.
Lemma regsame_notify_all ws : forall s self, regsame s (notify_all s self ws).
Proof.
  induction ws as [|w rest IH]; intros s self; cbn [notify_all]; [reflexivity|].
  eapply regsame_trans; [apply regsame_deliver_sys|apply IH].
Qed.
Lemma regsame_restart_all cs : forall s self, regsame s (restart_all s self cs).
Proof.
  induction cs as [|c rest IH]; intros s self; cbn [restart_all]; [reflexivity|].
  eapply regsame_trans; [apply regsame_deliver_sys|apply IH].
Qed.
Lemma regsame_escalate s u r s' o p : escalate s u r = (s', o, p) -> regsame s s'.
Proof.
  unfold escalate. destruct (get s u) as [a|]; [|intros H; inversion H; subst; reflexivity].
  destruct (a_parent a =? rNone); intros H; inversion H; subst; [reflexivity|apply regsame_deliver_sys].
Qed.

(* ---- extension: objects persist with their identity; every registry entry is old or fresh-and-correct ---- *)
Definition ext (s s' : kstate) : Prop :=
  mono s s' /\
  (forall t u, lookup t (registry s') = Some u -> lookup t (registry s) = Some u \/ exists a, get s' u = Some a /\ a_tok a = t).

Lemma ext_refl s : ext s s.
Proof. split; [apply mono_refl|auto]. Qed.
Lemma ext_trans s1 s2 s3 : ext s1 s2 -> ext s2 s3 -> ext s1 s3.
Proof.
  intros [M1 R1] [M2 R2]. split; [eapply mono_trans; eassumption|].
  intros t u H. destruct (R2 t u H) as [H2|H2]; [|right; exact H2].
  destruct (R1 t u H2) as [H1|(a & Ha & Ht)]; [left; exact H1|].
  right. destruct (M2 u a Ha) as (a' & Ha' & _ & (I1 & _)). exists a'. split; [assumption|congruence].
Qed.
Lemma ext_of_keep s s' : keep s s' -> regsame s s' -> ext s s'.
Proof. intros K Rg. split; [apply keep_mono; exact K|]. intros t u H. left. rewrite Rg in H. exact H. Qed.
Lemma ext_of_mono s s' : mono s s' -> regsame s s' -> ext s s'.
Proof. intros K Rg. split; [exact K|]. intros t u H. left. rewrite Rg in H. exact H. Qed.

Lemma lookup_remove_key_self {A} k (l : list (ref * A)) : lookup k (remove_key k l) = None.
Proof.
  induction l as [|[k' v] rest IH]; cbn [remove_key lookup]; [reflexivity|].
  destruct (k =? k') eqn:E; [exact IH|]. cbn [lookup]. rewrite E. exact IH.
Qed.
Lemma lookup_remove_key {A} k t (l : list (ref * A)) u : lookup t (remove_key k l) = Some u -> lookup t l = Some u.
Proof.
  destruct (Z.eq_dec t k) as [->|Hne]; [rewrite lookup_remove_key_self; discriminate|].
  induction l as [|[k' v] rest IH]; cbn [remove_key lookup]; [auto|].
  destruct (k =? k') eqn:E.
  - intros H. apply Z.eqb_eq in E. subst k'. destruct (t =? k) eqn:E2; [apply Z.eqb_eq in E2; contradiction|]. exact (IH H).
  - cbn [lookup]. destruct (t =? k'); [auto|exact IH].
Qed.

Lemma lookup_set_key {A} k (v : A) t l u :
  lookup t (set_key k v l) = Some u -> (t = k /\ u = v) \/ lookup t l = Some u.
Proof.
  unfold set_key. cbn [lookup]. destruct (t =? k) eqn:E.
  - intros H; inversion H; subst. left. split; [apply Z.eqb_eq; exact E|reflexivity].
  - intros H. right. eapply lookup_remove_key; exact H.
Qed.

Lemma ext_stop s u self t s' o p : stop_if_parent_gone s u self t = (s', o, p) -> ext s s'.
Proof.
  intros H. apply ext_of_keep; [eapply keep_stop; exact H|]. revert H.
  unfold stop_if_parent_gone. destruct (get s u) as [pa|]; [|intros H; inversion H; subst; apply regsame_refl].
  destruct (not_alive (a_st pa)); [|intros H; inversion H; subst; apply regsame_refl].
  destruct (terminate s self t (a_graceful pa)) as [s1 o1] eqn:E. intros H; inversion H; subst. eapply regsame_terminate; exact E.
Qed.

Lemma ext_spawn s u self t r s' o p : spawn s u self t r = (s', o, p) -> ext s s'.
Proof.
  intros Hsp. pose proof (keep_spawn _ _ _ _ _ _ _ _ Hsp) as K. revert Hsp.
  unfold spawn. destruct (provide s t) as [s1 inst] eqn:Ep.
  assert (R1 : registry s1 = registry s) by (unfold provide in Ep; inversion Ep; subst; reflexivity).
  assert (A1 : actors s1 = actors s) by (unfold provide in Ep; inversion Ep; subst; reflexivity).
  set (s2 := set_actors s1 (actors s1 ++ [new_actor t self r inst])).
  change (registry s2) with (registry s1) in *. destruct (lookup t (registry s1)).
  - intros H; inversion H; subst. apply ext_of_keep; [exact K|]. unfold regsame, set_actors; cbn [registry]. exact R1.
  - intros H. eapply ext_trans; [|eapply ext_stop; exact H].
    assert (K5 : keep s (deliver_sys (upd_actor (set_registry s2 (set_key t (length (actors s1)) (registry s2))) u
                      (fun a => w_children (insert_sorted t (a_children a)) a)) t self SLaunch)).
    { eapply keep_trans; [|apply keep_deliver_sys]. eapply keep_trans; [|apply keep_upd_actor; kp]. eapply keep_trans; [|apply keep_set_registry].
      eapply keep_trans; [apply keep_same_actors; exact A1|apply keep_append]. }
    split; [apply keep_mono; exact K5|].
    intros t' u' Hl.
    rewrite regsame_deliver_sys, regsame_upd_actor in Hl. cbn [registry set_registry s2 set_actors] in Hl.
    apply lookup_set_key in Hl. destruct Hl as [[-> ->]|Hl]; [|left; rewrite <- R1; exact Hl].
    right.
    (* the fresh object sits at index length (actors s1) and carries token t; later updates keep its token *)
    assert (G2 : get s2 (length (actors s1)) = Some (new_actor t self r inst)).
    { unfold get, s2, set_actors; cbn [actors]. rewrite nth_error_app2 by lia. rewrite Nat.sub_diag. reflexivity. }
    assert (K2 : keep s2 (deliver_sys (upd_actor (set_registry s2 (set_key t (length (actors s1)) (registry s2))) u
                      (fun a => w_children (insert_sorted t (a_children a)) a)) t self SLaunch)).
    { eapply keep_trans; [|apply keep_deliver_sys]. eapply keep_trans; [|apply keep_upd_actor; kp]. apply keep_set_registry. }
    destruct (K2 _ _ G2) as (a' & Ha' & _ & (I1 & _)). exists a'. split; [exact Ha'|]. rewrite I1. reflexivity.
Qed.

Section S.
Variable roles : list role.

Lemma regsame_report_abnormal s u s' o p : report_abnormal roles s u = (s', o, p) -> regsame s s'.
Proof.
  unfold report_abnormal. destruct (get s u) as [a|]; [|intros H; inversion H; subst; reflexivity].
  destruct (a_st a); try (intros H; inversion H; subst; reflexivity).
  intros H. apply regsame_escalate in H. eapply regsame_trans; [|exact H].
  eapply regsame_trans; [|apply regsame_deliver_sys]. apply regsame_upd_actor.
Qed.
Lemma regsame_send_each ts : forall s self n k s' o, send_each s self ts n k = (s', o) -> regsame s s'.
Proof.
  induction ts as [|t rest IH]; intros s self n k s' o; cbn [send_each].
  - intros H; inversion H; subst. reflexivity.
  - destruct (deliver_user s t self (UProbe n k)) as [s1 o1] eqn:E1.
    destruct (send_each s1 self rest n k) as [s2 o2] eqn:E2. intros H; inversion H; subst.
    eapply regsame_trans; [eapply regsame_deliver_user; exact E1|eapply IH; exact E2].
Qed.

Lemma ext_do_action s u snd act s' o p : do_action roles s u snd act = (s', o, p) -> ext s s'.
Proof.
  intros Hd. pose proof (keep_do_action roles _ _ _ _ _ _ _ Hd) as K. revert Hd.
  unfold do_action. destruct (get s u) as [a|]; [|intros H; inversion H; subst; apply ext_refl].
  destruct act.
  - destruct (next_serial s) as [s1 k] eqn:En. destruct (deliver_user s1 t rNone (UProbe n k)) as [s2 o2] eqn:E.
    intros H; inversion H; subst. apply ext_of_keep; [exact K|]. eapply regsame_trans; [|eapply regsame_deliver_user; exact E].
    unfold next_serial in En. inversion En; subst. reflexivity.
  - destruct (next_serial s) as [s1 k] eqn:En. destruct (deliver_user s1 t (a_tok a) (UProbe n k)) as [s2 o2] eqn:E.
    intros H; inversion H; subst. apply ext_of_keep; [exact K|]. eapply regsame_trans; [|eapply regsame_deliver_user; exact E].
    unfold next_serial in En. inversion En; subst. reflexivity.
  - destruct (next_serial s) as [s1 k] eqn:En. destruct (deliver_user s1 snd (a_tok a) (UProbe n k)) as [s2 o2] eqn:E.
    intros H; inversion H; subst. apply ext_of_keep; [exact K|]. eapply regsame_trans; [|eapply regsame_deliver_user; exact E].
    unfold next_serial in En. inversion En; subst. reflexivity.
  - destruct (next_serial s) as [s1 k] eqn:En. destruct (send_each s1 (a_tok a) (a_children a) n k) as [s2 o2] eqn:E.
    intros H; inversion H; subst. apply ext_of_keep; [exact K|]. eapply regsame_trans; [|eapply regsame_send_each; exact E].
    unfold next_serial in En. inversion En; subst. reflexivity.
  - destruct (spawn s u (a_tok a) t r) as [[s1 o1] p1] eqn:E. intros H; inversion H; subst. eapply ext_spawn; exact E.
  - destruct (terminate s (a_tok a) t g) as [s1 o1] eqn:E. intros H; inversion H; subst.
    apply ext_of_keep; [exact K|eapply regsame_terminate; exact E].
  - intros H; inversion H; subst. apply ext_of_keep; [exact K|apply regsame_deliver_sys].
  - intros H; inversion H; subst. apply ext_of_keep; [exact K|apply regsame_deliver_sys].
  - destruct (report_abnormal roles s u) as [[s1 o1] p1] eqn:E. intros H; inversion H; subst.
    apply ext_of_keep; [exact K|eapply regsame_report_abnormal; exact E].
  - intros H; inversion H; subst. apply ext_refl.
Qed.

Lemma ext_do_actions acts : forall s u snd s' o p, do_actions roles s u snd acts = (s', o, p) -> ext s s'.
Proof.
  induction acts as [|act rest IH]; intros s u snd s' o p; cbn [do_actions].
  - intros H; inversion H; subst. apply ext_refl.
  - apply (bind_rel ext); [apply ext_trans| |].
    + intros s1 o1 p1 E. eapply ext_do_action; exact E.
    + intros s1 s2 o2 p2 E. eapply IH; exact E.
Qed.
Lemma ext_handle_q q s u t k snd s' o p : handle_q roles q s u t k snd = (s', o, p) -> ext s s'.
Proof.
  unfold handle_q. destruct (get s u) as [a|]; [|intros H; inversion H; subst; apply ext_refl].
  destruct q; [intros H; inversion H; subst; apply ext_refl|].
  destruct (do_actions roles s u snd (find_rule (rules (role_of roles a)) t (a_inst a))) as [[s1 o1] p1] eqn:E.
  intros H; inversion H; subst. eapply ext_do_actions; exact E.
Qed.
Lemma ext_handle s u t k snd s' o p : handle roles s u t k snd = (s', o, p) -> ext s s'.
Proof. unfold handle. destruct (get s u); [apply ext_handle_q|intros H; inversion H; subst; apply ext_refl]. Qed.

Lemma ext_upd_status s u x a0 : get s u = Some a0 -> a_st a0 <> Terminated -> ext s (upd_actor s u (w_st x)).
Proof. intros H1 H2. apply ext_of_mono; [eapply mono_upd_status; eassumption|apply regsame_upd_actor]. Qed.

Lemma ext_remove s k : ext s (set_registry s (remove_key k (registry s))).
Proof.
  split; [apply keep_mono, keep_set_registry|]. intros t u H. left. cbn [registry set_registry] in H.
  eapply lookup_remove_key; exact H.
Qed.

Lemma ext_try_terminated s u snd s' o p : try_terminated roles s u snd = (s', o, p) -> ext s s'.
Proof.
  unfold try_terminated. destruct (get s u) as [a|] eqn:Ea; [|intros H; inversion H; subst; apply ext_refl].
  destruct (a_children a); [|intros H; inversion H; subst; apply ext_refl].
  destruct (a_st a) eqn:Est; try (intros H; inversion H; subst; apply ext_refl).
  apply (bind_rel ext); [apply ext_trans| |].
  - intros s1 o1 p1 E. eapply ext_trans; [eapply ext_upd_status; [exact Ea|congruence]|eapply ext_handle; exact E].
  - intros s1 s2 o2 p2. destruct (a_parent a =? rNone); intros H; inversion H; subst.
    + eapply ext_trans; [apply ext_remove|]. apply ext_of_keep.
      * eapply keep_trans; [apply keep_notify_all|apply keep_same_actors; reflexivity].
      * eapply regsame_trans; [apply regsame_notify_all|reflexivity].
    + eapply ext_trans; [apply ext_remove|]. apply ext_of_keep.
      * eapply keep_trans; [apply keep_notify_all|apply keep_deliver_sys].
      * eapply regsame_trans; [apply regsame_notify_all|apply regsame_deliver_sys].
Qed.

Lemma ext_start_instance s u self parent s' o p : start_instance roles s u self parent = (s', o, p) -> ext s s'.
Proof.
  unfold start_instance. destruct (handle roles s u TRD 0 self) as [[s1 o1] p1] eqn:E1.
  destruct (handle roles s1 u TL 0 parent) as [[s2 o2] p2] eqn:E2. intros H; inversion H; subst.
  eapply ext_trans; [eapply ext_handle; exact E1|]. eapply ext_trans; [eapply ext_handle; exact E2|].
  destruct p2; [apply ext_refl|apply ext_of_keep; [apply keep_upd_actor; kp|apply regsame_upd_actor]].
Qed.

Lemma ext_try_restarted s u snd s' o p : try_restarted roles s u snd = (s', o, p) -> ext s s'.
Proof.
  intros Hr. pose proof (mono_try_restarted roles _ _ _ _ _ _ Hr) as M. revert Hr.
  unfold try_restarted. destruct (get s u) as [a|] eqn:Ea; [|intros H; inversion H; subst; apply ext_refl].
  destruct (a_children a); [|intros H; inversion H; subst; apply ext_refl].
  destruct (a_st a) eqn:Est; try (intros H; inversion H; subst; apply ext_refl).
  intros H. split; [exact M|].
  destruct (provide s (a_tok a)) as [s0 inst] eqn:Ep.
  assert (R0 : registry s0 = registry s) by (unfold provide in Ep; inversion Ep; subst; reflexivity).
  assert (K0 : keep s s0) by (apply keep_same_actors; unfold provide in Ep; inversion Ep; subst; reflexivity).
  assert (X0 : ext s s0) by (apply ext_of_keep; [exact K0|exact R0]).
  destruct (handle roles s0 u TT 0 snd) as [[s1 o1] p1] eqn:E1. unfold bind in H. destruct p1.
  - inversion H; subst. exact (proj2 (ext_trans _ _ _ X0 (ext_handle _ _ _ _ _ _ _ _ E1))).
  - destruct (handle roles s1 u TTS 0 snd) as [[s2 o2] p2] eqn:E2. destruct p2.
    + inversion H; subst. exact (proj2 (ext_trans _ _ _ X0 (ext_trans _ _ _ (ext_handle _ _ _ _ _ _ _ _ E1) (ext_handle _ _ _ _ _ _ _ _ E2)))).
    + pose proof (ext_trans _ _ _ X0 (ext_trans _ _ _ (ext_handle _ _ _ _ _ _ _ _ E1) (ext_handle _ _ _ _ _ _ _ _ E2))) as X12.
      match type of H with context [start_instance ?r ?x ?y ?z ?w] => destruct (start_instance r x y z w) as [[s9 o9] p9] eqn:E9 end.
      inversion H; subst.
      assert (K02 : keep s s2) by (eapply keep_trans; [exact K0|]; eapply keep_trans; [eapply keep_handle; exact E1|eapply keep_handle; exact E2]).
      destruct (keep_status _ _ _ _ K02 Ea) as (a3 & Ha3 & Hs3).
      assert (X34 : ext s2 (upd_actor s2 u (fun b => w_st Alive (w_inst inst b)))).
      { apply ext_of_mono; [|apply regsame_upd_actor]. eapply mono_upd_f; [exact Ha3|rewrite Hs3, Est; discriminate|intros b; repeat split]. }
      assert (X45 : ext (upd_actor s2 u (fun b => w_st Alive (w_inst inst b)))
                        (deliver_sys (upd_actor s2 u (fun b => w_st Alive (w_inst inst b))) (a_tok a) (a_tok a) SResume))
        by (apply ext_of_keep; [apply keep_deliver_sys|apply regsame_deliver_sys]).
      exact (proj2 (ext_trans _ _ _ X12 (ext_trans _ _ _ X34 (ext_trans _ _ _ X45 (ext_start_instance _ _ _ _ _ _ _ E9))))).
Qed.

Lemma ext_apply_directive s u r d snd s' o p : apply_directive roles s u r d snd = (s', o, p) -> ext s s'.
Proof.
  unfold apply_directive. destruct (get s u) as [a|]; [|intros H; inversion H; subst; apply ext_refl].
  destruct d.
  - intros H; inversion H; subst. apply ext_of_keep; [apply keep_deliver_sys|apply regsame_deliver_sys].
  - destruct (terminate s (a_tok a) (ar_vref r) false) as [s1 o1] eqn:E1.
    destruct (try_terminated roles s1 u snd) as [[s2 o2] p2] eqn:E2. intros H; inversion H; subst.
    eapply ext_trans; [apply ext_of_keep; [eapply keep_terminate; exact E1|eapply regsame_terminate; exact E1]|eapply ext_try_terminated; exact E2].
  - intros H; inversion H; subst. apply ext_of_keep; [apply keep_deliver_sys|apply regsame_deliver_sys].
  - destruct (escalate s u r) as [[s1 o1] p1] eqn:E. intros H; inversion H; subst.
    apply ext_of_keep; [eapply keep_escalate; exact E|eapply regsame_escalate; exact E].
  - intros H; inversion H; subst. apply ext_of_keep; [apply keep_restart_all|apply regsame_restart_all].
Qed.
Lemma ext_on_accident s u r snd s' o p : on_accident roles s u r snd = (s', o, p) -> ext s s'.
Proof.
  unfold on_accident. destruct (get s u) as [a|]; [|intros H; inversion H; subst; apply ext_refl].
  destruct (ar_strategy r); [apply ext_apply_directive|].
  destruct (sup (role_of roles a)); [|apply ext_apply_directive].
  intros H. apply ext_of_keep; [eapply keep_escalate; exact H|eapply regsame_escalate; exact H].
Qed.

Lemma ext_process_sys s u e s' o p : process_sys roles s u e = (s', o, p) -> ext s s'.
Proof.
  unfold process_sys. destruct (get s u) as [a|] eqn:Ea; [|intros H; inversion H; subst; apply ext_refl].
  match goal with |- context [if ?d then _ else _] => destruct d end; [intros H; inversion H; subst; apply ext_refl|].
  destruct (e_msg e).
  - apply (bind_rel ext); [apply ext_trans| |].
    + intros s1 o1 p1 E. eapply ext_handle; exact E.
    + intros s1 s2 o2 p2 H; inversion H; subst. apply ext_of_keep; [apply keep_upd_actor; kp|apply regsame_upd_actor].
  - apply ext_handle.
  - assert (HT : forall s0, ext s s0 ->
      (handle roles s0 u TT 0 (e_snd e) >>= (fun s3 =>
         match get s3 u with
         | None => ok s3 []
         | Some a3 =>
             let '(s4, o4) := terminate_all s3 (a_tok a3) (a_children a3) (g || a_graceful a3) in
             let '(s5, o5, p) := try_terminated roles s4 u (e_snd e) in (s5, o4 ++ o5, p)
         end)) = (s', o, p) -> ext s s').
    { intros s0 M0 H. eapply ext_trans; [exact M0|]. revert H. apply (bind_rel ext); [apply ext_trans| |].
      - intros s1 o1 p1 E. eapply ext_handle; exact E.
      - intros s1 s2 o2 p2. destruct (get s1 u) as [a3|]; [|intros H; inversion H; subst; apply ext_refl].
        destruct (terminate_all s1 (a_tok a3) (a_children a3) (g || a_graceful a3)) as [s4 o4] eqn:E4.
        destruct (try_terminated roles s4 u (e_snd e)) as [[s5 o5] p5] eqn:E5. intros H; inversion H; subst.
        eapply ext_trans; [apply ext_of_keep; [eapply keep_terminate_all; exact E4|eapply regsame_terminate_all; exact E4]|
                           eapply ext_try_terminated; exact E5]. }
    destruct (a_st a) eqn:Est; try (intros H; inversion H; subst; apply ext_refl); apply HT;
      (apply ext_trans with (s2 := upd_actor s u (w_st Terminating));
       [eapply ext_upd_status; [exact Ea|congruence]|apply ext_of_keep; [apply keep_deliver_sys|apply regsame_deliver_sys]]).
  - apply (bind_rel ext); [apply ext_trans| |].
    + intros s1 o1 p1 E. eapply ext_trans; [|eapply ext_handle; exact E].
      apply ext_of_keep; [apply keep_drop_child|apply regsame_drop_child].
    + intros s1 s2 o2 p2. destruct (get s1 u) as [a2|]; [|intros H; inversion H; subst; apply ext_refl].
      destruct (a_st a2); try (intros H; inversion H; subst; apply ext_refl).
      * apply ext_try_restarted.
      * apply ext_try_terminated.
  - destruct (a_st a) eqn:Est; try (intros H; inversion H; subst; apply ext_refl).
    intros H. apply ext_trans with (s2 := upd_actor s u (w_st Restarting)); [eapply ext_upd_status; [exact Ea|congruence]|]. revert H.
    apply (bind_rel ext); [apply ext_trans| |].
    + intros s1 o1 p1 E. eapply ext_trans; [|eapply ext_handle; exact E].
      apply ext_of_keep; [apply keep_deliver_sys|apply regsame_deliver_sys].
    + intros s1 s2 o2 p2. destruct (get s1 u) as [a2|]; [|intros H; inversion H; subst; apply ext_refl].
      destruct (terminate_all s1 (a_tok a2) (a_children a2) false) as [s3 o3] eqn:E3.
      destruct (try_restarted roles s3 u (e_snd e)) as [[s4 o4] p4] eqn:E4. intros H; inversion H; subst.
      eapply ext_trans; [apply ext_of_keep; [eapply keep_terminate_all; exact E3|eapply regsame_terminate_all; exact E3]|
                         eapply ext_try_restarted; exact E4].
  - apply ext_on_accident.
  - destruct (e_snd e =? a_parent a); [intros H; inversion H; subst; apply ext_refl|].
    destruct (st_ge_terminating (a_st a)); intros H; inversion H; subst.
    + apply ext_of_keep; [apply keep_deliver_sys|apply regsame_deliver_sys].
    + apply ext_of_keep; [apply keep_upd_actor; kp|apply regsame_upd_actor].
  - intros H; inversion H; subst. apply ext_of_keep; [apply keep_upd_actor; kp|apply regsame_upd_actor].
  - intros H; inversion H; subst. apply ext_refl.
  - intros H; inversion H; subst. apply ext_refl.
  - (* SResumeReq *) destruct (a_st a); intros H; inversion H; subst; try apply ext_refl.
    apply ext_of_keep; [apply keep_deliver_sys|apply regsame_deliver_sys].
Qed.

Lemma ext_process_user s u e s' o p : process_user roles s u e = (s', o, p) -> ext s s'.
Proof.
  unfold process_user. destruct (get s u) as [a|]; [|intros H; inversion H; subst; apply ext_refl].
  destruct (st_ge_terminating (a_st a)).
  - destruct (abyss_user s (e_snd e) (e_rcv e) (e_msg e)) as [s1 o1] eqn:E. intros H; inversion H; subst.
    apply ext_of_keep; [eapply keep_abyss_user; exact E|eapply regsame_abyss_user; exact E].
  - destruct (e_msg e).
    + apply ext_handle_q.
    + intros H; inversion H; subst. apply ext_of_keep.
      * eapply keep_trans; [|apply keep_deliver_sys]. apply keep_upd_actor; kp.
      * eapply regsame_trans; [|apply regsame_deliver_sys]. apply regsame_upd_actor.
    + intros H; inversion H; subst. apply ext_refl.
Qed.

Lemma ext_run_actor s u s' o : run_actor roles s u = Some (s', o) -> ext s s'.
Proof.
  unfold run_actor. destruct (get s u) as [a|]; [|discriminate]. destruct (a_inflight a) as [m|]; [|discriminate].
  assert (K0 : ext s (upd_actor s u (w_inflight None))) by (apply ext_of_keep; [apply keep_upd_actor; kp|apply regsame_upd_actor]).
  assert (RA : forall s1 s2 o2 p2, report_abnormal roles s1 u = (s2, o2, p2) -> ext s1 s2).
  { intros s1 s2 o2 p2 E. apply ext_of_keep; [eapply keep_report_abnormal; exact E|eapply regsame_report_abnormal; exact E]. }
  destruct m as [e|e].
  - destruct (process_sys roles (upd_actor s u (w_inflight None)) u e) as [[s1 o1] p] eqn:E1. apply ext_process_sys in E1.
    destruct p.
    + destruct (crashed s1).
      * intros H; inversion H; subst. eapply ext_trans; eassumption.
      * destruct (report_abnormal roles s1 u) as [[s2 o2] p2] eqn:E2. intros H; inversion H; subst.
        eapply ext_trans; [exact K0|]. eapply ext_trans; [exact E1|eapply RA; exact E2].
    + intros H; inversion H; subst. eapply ext_trans; eassumption.
  - destruct (process_user roles (upd_actor s u (w_inflight None)) u e) as [[s1 o1] p] eqn:E1. apply ext_process_user in E1.
    destruct p.
    + destruct (crashed s1).
      * intros H; inversion H; subst. eapply ext_trans; eassumption.
      * destruct (report_abnormal roles s1 u) as [[s2 o2] p2] eqn:E2. intros H; inversion H; subst.
        eapply ext_trans; [exact K0|]. eapply ext_trans; [exact E1|eapply RA; exact E2].
    + intros H; inversion H; subst. eapply ext_trans; eassumption.
Qed.

Lemma ext_normalize s : ext s (normalize s).
Proof. apply ext_of_keep; [apply keep_normalize|reflexivity]. Qed.

Theorem kstep_ext s l s' o : kstep roles s l = Some (s', o) -> ext s s'.
Proof.
  destruct l; cbn [kstep].
  - destruct (run_actor roles s (Z.to_nat u)) as [[s1 o1]|] eqn:E; [|discriminate]. intros H; inversion H; subst.
    eapply ext_trans; [eapply ext_run_actor; exact E|apply ext_normalize].
  - destruct (next_serial s) as [s1 k] eqn:En. destruct (deliver_user s1 t rNone (UProbe n k)) as [s2 o2] eqn:E.
    intros H; inversion H; subst. eapply ext_trans; [|apply ext_normalize]. apply ext_of_keep.
    + eapply keep_trans; [|eapply keep_deliver_user; exact E]. apply keep_same_actors. unfold next_serial in En. inversion En; subst. reflexivity.
    + eapply regsame_trans; [|eapply regsame_deliver_user; exact E]. unfold next_serial in En. inversion En; subst. reflexivity.
  - destruct (next_serial s) as [s1 k] eqn:En. destruct (deliver_user s1 t rGuard (UProbe n k)) as [s2 o2] eqn:E.
    intros H; inversion H; subst. eapply ext_trans; [|apply ext_normalize]. apply ext_of_keep.
    + eapply keep_trans; [|eapply keep_deliver_user; exact E]. apply keep_same_actors. unfold next_serial in En. inversion En; subst. reflexivity.
    + eapply regsame_trans; [|eapply regsame_deliver_user; exact E]. unfold next_serial in En. inversion En; subst. reflexivity.
  - destruct (terminate s rGuard t g) as [s1 o1] eqn:E. intros H; inversion H; subst.
    eapply ext_trans; [|apply ext_normalize]. apply ext_of_keep; [eapply keep_terminate; exact E|eapply regsame_terminate; exact E].
  - destruct (spawn s guard_uid rGuard t r) as [[s1 o1] p] eqn:E. intros H; inversion H; subst.
    eapply ext_trans; [eapply ext_spawn; exact E|apply ext_normalize].
  - destruct (terminate s rGuard rGuard g) as [s1 o1] eqn:E. intros H; inversion H; subst.
    eapply ext_trans; [|apply ext_normalize]. apply ext_of_keep; [eapply keep_terminate; exact E|eapply regsame_terminate; exact E].
  - intros H; inversion H; subst. apply ext_refl.
Qed.

(* registry well-formedness *)
Definition RI (s : kstate) : Prop :=
  forall t u, lookup t (registry s) = Some u -> exists a, get s u = Some a /\ a_tok a = t.

Lemma RI_ext s s' : RI s -> ext s s' -> RI s'.
Proof.
  intros HR [M X] t u H. destruct (X t u H) as [Hold|Hnew]; [|exact Hnew].
  destruct (HR t u Hold) as (a & Ha & Ht). destruct (M u a Ha) as (a' & Ha' & _ & (I1 & _)).
  exists a'. split; [exact Ha'|congruence].
Qed.

Lemma RI_init : RI kinit.
Proof.
  intros t u H. cbn in H. destruct (t =? rGuard) eqn:E1.
  - inversion H; subst. apply Z.eqb_eq in E1. subst. eexists. split; reflexivity.
  - destruct (t =? rSub) eqn:E2; [|discriminate]. inversion H; subst. apply Z.eqb_eq in E2. subst. eexists. split; reflexivity.
Qed.

Theorem RI_reachable ls : forall s s' os, RI s -> krun roles s ls = Some (s', os) -> RI s'.
Proof.
  induction ls as [|l t IH]; intros s s' os HR; cbn [krun].
  - intros H; inversion H; subst. exact HR.
  - destruct (kstep roles s l) as [[s1 o]|] eqn:E; [|discriminate].
    destruct (krun roles s1 t) as [[s2 os2]|] eqn:E2; [|discriminate]. intros H; inversion H; subst.
    eapply IH; [|exact E2]. eapply RI_ext; [exact HR|eapply kstep_ext; exact E].
Qed.

End S.
