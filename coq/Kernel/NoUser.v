(* MV.Kernel.NoUser — C04, "the failing actor handles no further user message until its supervisor has decided":
   for every role table, from every well-formed state, an actor object (other than the two system actors) whose mailbox
   is suspended and has no user message in flight — the situation right after a failure: ReportAbnormal / a panic
   suspends the mailbox within the failing step, and the pop at the end of that step takes no user message from a
   suspended mailbox — and for whose address no resume request (an earlier Resume decision not yet applied) is pending,
   stays in that situation through every step whose observations show none of the three events
   that legitimately lift the suspension (a supervisor applying Resume to its address, the completion of its restart,
   the start of its termination). While it lasts, a run of that mailbox can only process system messages, so no user
   message is handed to the actor; its queued user messages wait, in order (Kernel.Queue). *)
From MV Require Import Lib.ListX Kernel.Model Kernel.Lifecycle Kernel.Status Kernel.Registry Kernel.Suspend Kernel.Frame Kernel.Queue.
Open Scope Z_scope.

Section N.
Variable roles : list role.

(* the state just before the final mailbox pop of a step: every object's in-flight message is unchanged or was taken *)
Lemma kstep_pre s l s' o : kstep roles s l = Some (s', o) ->
  (s' = s /\ l = LEnd) \/
  exists s1, s' = normalize s1 /\ forall v a, get s v = Some a -> exists a1, get s1 v = Some a1 /\ (a_inflight a1 = a_inflight a \/ a_inflight a1 = None).
Proof.
  assert (U : forall s0 s1, uq s0 s1 -> forall v a, get s0 v = Some a -> exists a1, get s1 v = Some a1 /\ (a_inflight a1 = a_inflight a \/ a_inflight a1 = None)).
  { intros s0 s1 H v a Ha. destruct (H v a Ha) as (a1 & G1 & (I1 & _)). exists a1. auto. }
  destruct l; cbn [kstep].
  - destruct (run_actor roles s (Z.to_nat u)) as [[s1 o1]|] eqn:E; [|discriminate]. intros H; injection H as <- <-. right. exists s1. split; [reflexivity|].
    destruct (get s (Z.to_nat u)) as [au|] eqn:Eu; [|unfold run_actor in E; rewrite Eu in E; discriminate].
    destruct (a_inflight au) as [m|] eqn:Em; [|unfold run_actor in E; rewrite Eu, Em in E; discriminate].
    rewrite (run_actor_inner roles s (Z.to_nat u) au m Eu Em) in E.
    set (s0 := upd_actor s (Z.to_nat u) (w_inflight None)) in *.
    assert (Ein : run_inner roles s0 (Z.to_nat u) m = (s1, o1)) by (inversion E; reflexivity).
    pose proof (uq_run_inner _ _ _ _ _ _ Ein) as Q. intros v a Ha. destruct (Nat.eq_dec (Z.to_nat u) v) as [Ev|Ev].
    + subst v. rewrite Eu in Ha. inversion Ha; subst a.
      assert (G0 : get s0 (Z.to_nat u) = Some (w_inflight None au)) by (apply get_upd_actor_same; exact Eu).
      destruct (U _ _ Q _ _ G0) as (a1 & G1 & D). exists a1. split; [exact G1|]. right. cbn [a_inflight w_inflight] in D. destruct D; assumption.
    + assert (G0 : get s0 v = Some a) by (unfold s0, upd_actor; rewrite Eu; rewrite get_put_other by exact Ev; exact Ha).
      exact (U _ _ Q _ _ G0).
  - destruct (next_serial s) as [s1 k] eqn:En. destruct (deliver_user s1 t rNone (UProbe n k)) as [s2 o2] eqn:E. intros H; injection H as <- <-.
    right. exists s2. split; [reflexivity|]. intros v a Ha. apply (U s1 s2 (uq_deliver_user _ _ _ _ _ _ E)). unfold next_serial in En. inversion En; subst. exact Ha.
  - destruct (next_serial s) as [s1 k] eqn:En. destruct (deliver_user s1 t rGuard (UProbe n k)) as [s2 o2] eqn:E. intros H; injection H as <- <-.
    right. exists s2. split; [reflexivity|]. intros v a Ha. apply (U s1 s2 (uq_deliver_user _ _ _ _ _ _ E)). unfold next_serial in En. inversion En; subst. exact Ha.
  - destruct (terminate s rGuard t g) as [s1 o1] eqn:E. intros H; injection H as <- <-. right. exists s1. split; [reflexivity|]. apply (U s s1 (uq_terminate _ _ _ _ _ _ E)).
  - destruct (spawn s guard_uid rGuard t r) as [[s1 o1] p] eqn:E. intros H; injection H as <- <-. right. exists s1. split; [reflexivity|]. apply (U s s1 (uq_spawn _ _ _ _ _ _ _ _ E)).
  - destruct (terminate s rGuard rGuard g) as [s1 o1] eqn:E. intros H; injection H as <- <-. right. exists s1. split; [reflexivity|]. apply (U s s1 (uq_terminate _ _ _ _ _ _ E)).
  - intros H; injection H as <- <-. left. auto.
Qed.

Definition waiting (t : ref) (a : actor) : Prop := a_tok a = t /\ a_susp a = true /\ inflight_user a = [].

Lemma pop1_susp' a : a_susp (pop1 a) = a_susp a.
Proof. unfold pop1. destruct (a_inflight a); [reflexivity|]. destruct (a_sysq a); [|reflexivity]. destruct (a_susp a) eqn:E; [exact E|]. destruct (a_userq a); [exact E|cbn [a_susp w_inflight w_userq]; exact E]. Qed.

Theorem no_user_step s l s' o u a :
  RI s -> get s u = Some a -> is_sys (a_tok a) = false -> waiting (a_tok a) a -> nrp (a_tok a) s ->
  kstep roles s l = Some (s', o) -> marker (a_tok a) o = false ->
  (exists a', get s' u = Some a' /\ waiting (a_tok a) a') /\ nrp (a_tok a) s'.
Proof.
  intros HR Ha Hsys (_ & Hsu & Hin) HN Hk Hm.
  destruct (suspension_lifted_only_by_directive roles s l s' o u a HR Ha Hsys Hsu HN Hk) as [[(a' & G' & T' & S') N']|M]; [|congruence].
  split; [|exact N'].
  exists a'. split; [exact G'|]. split; [exact T'|]. split; [exact S'|].
  destruct (kstep_pre _ _ _ _ Hk) as [[-> _]|(s1 & -> & P)].
  - rewrite Ha in G'. inversion G'; subst. exact Hin.
  - destruct (P u a Ha) as (a1 & G1 & D). rewrite get_normalize', G1 in G'. inversion G'; subst a'.
    rewrite pop1_susp' in S'. unfold inflight_user in *. destruct D as [D|D].
    + destruct (a_inflight a) as [m|] eqn:Em.
      * unfold pop1. rewrite D. rewrite D. destruct m; [reflexivity|discriminate].
      * pose proof (suspended_pops_no_user a1 S' D) as Q. destruct (a_inflight (pop1 a1)) as [[?|?]|]; [reflexivity|destruct Q|reflexivity].
    + pose proof (suspended_pops_no_user a1 S' D) as Q. destruct (a_inflight (pop1 a1)) as [[?|?]|]; [reflexivity|destruct Q|reflexivity].
Qed.

(* how the situation arises: whenever an actor's own step ends with its mailbox suspended — the step in which it failed
   (ReportAbnormal / the panic path suspend it) or began a restart — it has no user message in flight: the message it
   was processing had been taken out, and the pop at the end of the step takes none from a suspended mailbox *)
Theorem own_step_ending_suspended_is_waiting s u s' o a' :
  kstep roles s (LRun u) = Some (s', o) -> get s' (Z.to_nat u) = Some a' -> a_susp a' = true -> waiting (a_tok a') a'.
Proof.
  cbn [kstep]. destruct (run_actor roles s (Z.to_nat u)) as [[s1 o1]|] eqn:E; [|discriminate]. intros H; injection H as <- <-.
  intros Hg Hs. split; [reflexivity|]. split; [exact Hs|].
  destruct (get s (Z.to_nat u)) as [au|] eqn:Eu; [|unfold run_actor in E; rewrite Eu in E; discriminate].
  destruct (a_inflight au) as [m|] eqn:Em; [|unfold run_actor in E; rewrite Eu, Em in E; discriminate].
  rewrite (run_actor_inner roles s (Z.to_nat u) au m Eu Em) in E.
  set (s0 := upd_actor s (Z.to_nat u) (w_inflight None)) in *.
  assert (Ein : run_inner roles s0 (Z.to_nat u) m = (s1, o1)) by (inversion E; reflexivity).
  pose proof (uq_run_inner _ _ _ _ _ _ Ein) as Q.
  assert (G0 : get s0 (Z.to_nat u) = Some (w_inflight None au)) by (apply get_upd_actor_same; exact Eu).
  destruct (Q _ _ G0) as (a1 & G1 & (I1 & _)). cbn [a_inflight w_inflight] in I1.
  rewrite get_normalize', G1 in Hg. inversion Hg; subst a'. rewrite pop1_susp' in Hs.
  pose proof (suspended_pops_no_user a1 Hs I1) as P. unfold inflight_user. destruct (a_inflight (pop1 a1)) as [[?|?]|]; [reflexivity|destruct P|reflexivity].
Qed.

(* over any run without a marker for the address: the actor is still waiting at the end, hence at every step in between *)
Theorem no_user_run ls : forall s s' os u a,
  RI s -> get s u = Some a -> is_sys (a_tok a) = false -> waiting (a_tok a) a -> nrp (a_tok a) s ->
  krun roles s ls = Some (s', os) -> (forall o, In o os -> marker (a_tok a) o = false) ->
  exists a', get s' u = Some a' /\ waiting (a_tok a) a'.
Proof.
  induction ls as [|l rest IH]; intros s s' os u a HR Ha Hsys Hw HN; cbn [krun].
  - intros H _; inversion H; subst. exists a. auto.
  - destruct (kstep roles s l) as [[s1 o]|] eqn:E; [|discriminate].
    destruct (krun roles s1 rest) as [[s2 os2]|] eqn:E2; [|discriminate]. intros H Hm; inversion H; subst.
    destruct (no_user_step _ _ _ _ _ _ HR Ha Hsys Hw HN E (Hm o (or_introl eq_refl))) as [(a1 & G1 & W1) N1].
    pose proof W1 as (T1 & _).
    assert (R1 : RI s1) by (eapply RI_ext; [exact HR|eapply kstep_ext; exact E]).
    rewrite <- T1 in *. destruct (IH s1 s' os2 u a1 R1 G1 Hsys W1 N1 E2) as (a2 & G2 & W2).
    + intros o' Ho'. apply Hm. right. exact Ho'.
    + exists a2. auto.
Qed.

End N.
