(* MV.Kernel.Status — the status Terminated is final: for every role table, from any state, no step of the
   kernel changes the status of an actor object that is Terminated (in particular a restart request cannot
   revive it), and no object ever disappears. Together with Lifecycle.terminated_silent: once an actor has handled
   its own OnTerminated it never handles anything again, in every run. *)
From MV Require Import Lib.ListX Kernel.Model Kernel.Lifecycle.
Open Scope Z_scope.

(* every existing object still exists, with the same status *)
Definition same_id (a a' : actor) : Prop := a_tok a' = a_tok a /\ a_parent a' = a_parent a /\ a_role a' = a_role a.
Definition keep (s s' : kstate) : Prop :=
  forall v a, get s v = Some a -> exists a', get s' v = Some a' /\ a_st a' = a_st a /\ same_id a a'.
(* every existing object still exists, and Terminated objects stay Terminated *)
Definition mono (s s' : kstate) : Prop :=
  forall v a, get s v = Some a -> exists a', get s' v = Some a' /\ (a_st a = Terminated -> a_st a' = Terminated) /\ same_id a a'.

Lemma same_id_refl a : same_id a a. Proof. repeat split. Qed.
Lemma same_id_trans a b c : same_id a b -> same_id b c -> same_id a c.
Proof. unfold same_id. intros (A1 & A2 & A3) (B1 & B2 & B3). repeat split; congruence. Qed.

Lemma keep_refl s : keep s s.
Proof. intros v a H. exists a. split; [assumption|]. split; [reflexivity|apply same_id_refl]. Qed.
Lemma keep_trans s1 s2 s3 : keep s1 s2 -> keep s2 s3 -> keep s1 s3.
Proof.
  intros H1 H2 v a Hg. destruct (H1 v a Hg) as (a2 & Hg2 & E2 & I2). destruct (H2 v a2 Hg2) as (a3 & Hg3 & E3 & I3).
  exists a3. split; [assumption|]. split; [congruence|eapply same_id_trans; eassumption].
Qed.
Lemma keep_mono s s' : keep s s' -> mono s s'.
Proof. intros H v a Hg. destruct (H v a Hg) as (a' & Hg' & E & I). exists a'. split; [assumption|]. split; [congruence|assumption]. Qed.
Lemma mono_refl s : mono s s.
Proof. apply keep_mono, keep_refl. Qed.
Lemma mono_trans s1 s2 s3 : mono s1 s2 -> mono s2 s3 -> mono s1 s3.
Proof.
  intros H1 H2 v a Hg. destruct (H1 v a Hg) as (a2 & Hg2 & E2 & I2). destruct (H2 v a2 Hg2) as (a3 & Hg3 & E3 & I3).
  exists a3. split; [assumption|]. split; [auto|eapply same_id_trans; eassumption].
Qed.

Lemma keep_same_actors s s' : actors s' = actors s -> keep s s'.
Proof. intros E v a Hg. exists a. unfold get in *. rewrite E. split; [assumption|]. split; [reflexivity|apply same_id_refl]. Qed.

Lemma keep_put s u a0 b : get s u = Some a0 -> a_st b = a_st a0 /\ same_id a0 b -> keep s (put s u b).
Proof.
  intros Hu [Hb Hi] v a Hg. destruct (Nat.eq_dec u v) as [->|Hne].
  - exists b. split; [eapply get_put_same; exact Hu|]. rewrite Hu in Hg. inversion Hg; subst. split; assumption.
  - exists a. split; [rewrite get_put_other by assumption; exact Hg|]. split; [reflexivity|apply same_id_refl].
Qed.

Lemma keep_upd_actor s u f : (forall a, a_st (f a) = a_st a /\ same_id a (f a)) -> keep s (upd_actor s u f).
Proof.
  intros Hf. unfold upd_actor. destruct (get s u) as [a0|] eqn:E; [|apply keep_refl].
  eapply keep_put; [exact E|apply Hf].
Qed.

(* changing the status of u is monotone as long as u was not Terminated *)
Lemma mono_upd_status s u x a0 : get s u = Some a0 -> a_st a0 <> Terminated -> mono s (upd_actor s u (w_st x)).
Proof.
  intros Hu Hn v a Hg. unfold upd_actor. rewrite Hu. destruct (Nat.eq_dec u v) as [->|Hne].
  - exists (w_st x a0). split; [eapply get_put_same; exact Hu|]. rewrite Hu in Hg. inversion Hg; subst.
    split; [intros Ht; contradiction|repeat split].
  - exists a. split; [rewrite get_put_other by assumption; exact Hg|]. split; [auto|apply same_id_refl].
Qed.

Lemma mono_upd_f s u f a0 : get s u = Some a0 -> a_st a0 <> Terminated -> (forall b, same_id b (f b)) -> mono s (upd_actor s u f).
Proof.
  intros Hu Hn Hf v a Hg. unfold upd_actor. rewrite Hu. destruct (Nat.eq_dec u v) as [->|Hne].
  - exists (f a0). split; [eapply get_put_same; exact Hu|]. rewrite Hu in Hg. inversion Hg; subst.
    split; [intros Ht; contradiction|apply Hf].
  - exists a. split; [rewrite get_put_other by assumption; exact Hg|]. split; [auto|apply same_id_refl].
Qed.

Ltac kp := intros; split; [reflexivity|repeat split].

Lemma keep_drop_child s u w : keep s (drop_child s u w).
Proof. unfold drop_child. destruct (lookup w (registry s)); [apply keep_refl|]. apply keep_upd_actor; kp. Qed.

Lemma keep_push_sys s u e : keep s (push_sys s u e).
Proof. unfold push_sys. apply keep_upd_actor. intros a. destruct (e_msg e); split; try reflexivity; repeat split. Qed.
Lemma keep_deliver_sys s t snd m : keep s (deliver_sys s t snd m).
Proof.
  unfold deliver_sys. destruct (lookup t (registry s)); [apply keep_push_sys|].
  destruct m; try apply keep_refl. destruct (lookup snd (registry s)); [apply keep_push_sys|apply keep_refl].
Qed.
Lemma keep_to_sub s : keep s (to_sub s).
Proof. unfold to_sub. destruct (lookup rSub (registry s)); [apply keep_upd_actor; kp|apply keep_refl]. Qed.
Lemma keep_abyss_user s snd rcv m s' o : abyss_user s snd rcv m = (s', o) -> keep s s'.
Proof.
  unfold abyss_user. destruct m; intros H; inversion H; subst; try apply keep_refl;
    destruct (rcv =? rSub); try apply keep_refl; apply keep_to_sub.
Qed.
Lemma keep_deliver_user s t snd m s' o : deliver_user s t snd m = (s', o) -> keep s s'.
Proof.
  unfold deliver_user. destruct (lookup t (registry s)) as [u|]; [|apply keep_abyss_user].
  destruct (get s u) as [a|] eqn:E; [|apply keep_abyss_user].
  intros H; inversion H; subst. eapply keep_put; [exact E|split; [reflexivity|repeat split]].
Qed.
Lemma keep_terminate s self t g s' o : terminate s self t g = (s', o) -> keep s s'.
Proof.
  unfold terminate. destruct g; [apply keep_deliver_user|]. intros H; inversion H; subst. apply keep_deliver_sys.
Qed.
Lemma keep_terminate_all cs : forall s self g s' o, terminate_all s self cs g = (s', o) -> keep s s'.
Proof.
  induction cs as [|c rest IH]; intros s self g s' o; cbn [terminate_all].
  - intros H; inversion H; subst. apply keep_refl.
  - destruct (terminate s self c g) as [s1 o1] eqn:E1. destruct (terminate_all s1 self rest g) as [s2 o2] eqn:E2.
    intros H; inversion H; subst. eapply keep_trans; [eapply keep_terminate; exact E1|eapply IH; exact E2].
Qed.
Lemma keep_notify_all ws : forall s self, keep s (notify_all s self ws).
Proof.
  induction ws as [|w rest IH]; intros s self; cbn [notify_all]; [apply keep_refl|].
  eapply keep_trans; [apply keep_deliver_sys|apply IH].
Qed.
Lemma keep_restart_all cs : forall s self, keep s (restart_all s self cs).
Proof.
  induction cs as [|c rest IH]; intros s self; cbn [restart_all]; [apply keep_refl|].
  eapply keep_trans; [apply keep_deliver_sys|apply IH].
Qed.
Lemma keep_set_registry s r : keep s (set_registry s r).
Proof. apply keep_same_actors. reflexivity. Qed.

Lemma keep_append s x : keep s (set_actors s (actors s ++ [x])).
Proof.
  intros v a Hg. exists a. split; [|split; [reflexivity|apply same_id_refl]]. unfold get, set_actors in *; cbn [actors].
  rewrite nth_error_app1; [exact Hg|]. apply nth_error_Some. congruence.
Qed.

Lemma keep_stop s u self t s' o p : stop_if_parent_gone s u self t = (s', o, p) -> keep s s'.
Proof.
  unfold stop_if_parent_gone. destruct (get s u) as [pa|]; [|intros H; inversion H; subst; apply keep_refl].
  destruct (not_alive (a_st pa)); [|intros H; inversion H; subst; apply keep_refl].
  destruct (terminate s self t (a_graceful pa)) as [s1 o1] eqn:E. intros H; inversion H; subst. eapply keep_terminate; exact E.
Qed.

Lemma keep_spawn s u self t r s' o p : spawn s u self t r = (s', o, p) -> keep s s'.
Proof.
  unfold spawn. destruct (provide s t) as [s1 inst] eqn:Ep.
  assert (K1 : keep s s1).
  { apply keep_same_actors. unfold provide in Ep. inversion Ep; subst. reflexivity. }
  set (s2 := set_actors s1 (actors s1 ++ [new_actor t self r inst])).
  assert (K2 : keep s s2) by (eapply keep_trans; [exact K1|apply keep_append]).
  change (registry s2) with (registry s1) in *. destruct (lookup t (registry s1)).
  - intros H; inversion H; subst. eapply keep_trans; [exact K1|apply keep_append].
  - intros H. eapply keep_trans; [|eapply keep_stop; exact H]. eapply keep_trans; [exact K2|].
    eapply keep_trans; [|apply keep_deliver_sys]. eapply keep_trans; [|apply keep_upd_actor; kp]. apply keep_set_registry.
Qed.

Lemma keep_escalate s u r s' o p : escalate s u r = (s', o, p) -> keep s s'.
Proof.
  unfold escalate. destruct (get s u) as [a|]; [|intros H; inversion H; subst; apply keep_refl].
  destruct (a_parent a =? rNone); intros H; inversion H; subst.
  - apply keep_same_actors. reflexivity.
  - apply keep_deliver_sys.
Qed.

Section S.
Variable roles : list role.

Lemma keep_report_abnormal s u s' o p : report_abnormal roles s u = (s', o, p) -> keep s s'.
Proof.
  unfold report_abnormal. destruct (get s u) as [a|]; [|intros H; inversion H; subst; apply keep_refl].
  destruct (a_st a); try (intros H; inversion H; subst; apply keep_refl).
  intros H. apply keep_escalate in H. eapply keep_trans; [|exact H].
  eapply keep_trans; [|apply keep_deliver_sys]. apply keep_upd_actor; kp.
Qed.

Lemma keep_send_each ts : forall s self n k s' o, send_each s self ts n k = (s', o) -> keep s s'.
Proof.
  induction ts as [|t rest IH]; intros s self n k s' o; cbn [send_each].
  - intros H; inversion H; subst. apply keep_refl.
  - destruct (deliver_user s t self (UProbe n k)) as [s1 o1] eqn:E1.
    destruct (send_each s1 self rest n k) as [s2 o2] eqn:E2. intros H; inversion H; subst.
    eapply keep_trans; [eapply keep_deliver_user; exact E1|eapply IH; exact E2].
Qed.

Lemma keep_next_serial s : keep s (fst (next_serial s)).
Proof. apply keep_same_actors. reflexivity. Qed.

Lemma keep_do_action s u snd act s' o p : do_action roles s u snd act = (s', o, p) -> keep s s'.
Proof.
  unfold do_action. destruct (get s u) as [a|]; [|intros H; inversion H; subst; apply keep_refl].
  destruct act.
  - destruct (next_serial s) as [s1 k] eqn:En. destruct (deliver_user s1 t rNone (UProbe n k)) as [s2 o2] eqn:E.
    intros H; inversion H; subst. eapply keep_trans; [|eapply keep_deliver_user; exact E].
    change s1 with (fst (s1, k)). rewrite <- En. apply keep_next_serial.
  - destruct (next_serial s) as [s1 k] eqn:En. destruct (deliver_user s1 t (a_tok a) (UProbe n k)) as [s2 o2] eqn:E.
    intros H; inversion H; subst. eapply keep_trans; [|eapply keep_deliver_user; exact E].
    change s1 with (fst (s1, k)). rewrite <- En. apply keep_next_serial.
  - destruct (next_serial s) as [s1 k] eqn:En. destruct (deliver_user s1 snd (a_tok a) (UProbe n k)) as [s2 o2] eqn:E.
    intros H; inversion H; subst. eapply keep_trans; [|eapply keep_deliver_user; exact E].
    change s1 with (fst (s1, k)). rewrite <- En. apply keep_next_serial.
  - destruct (next_serial s) as [s1 k] eqn:En. destruct (send_each s1 (a_tok a) (a_children a) n k) as [s2 o2] eqn:E.
    intros H; inversion H; subst. eapply keep_trans; [|eapply keep_send_each; exact E].
    change s1 with (fst (s1, k)). rewrite <- En. apply keep_next_serial.
  - destruct (spawn s u (a_tok a) t r) as [[s1 o1] p1] eqn:E. intros H; inversion H; subst. eapply keep_spawn; exact E.
  - destruct (terminate s (a_tok a) t g) as [s1 o1] eqn:E. intros H; inversion H; subst. eapply keep_terminate; exact E.
  - intros H; inversion H; subst. apply keep_deliver_sys.
  - intros H; inversion H; subst. apply keep_deliver_sys.
  - destruct (report_abnormal roles s u) as [[s1 o1] p1] eqn:E. intros H; inversion H; subst. eapply keep_report_abnormal; exact E.
  - intros H; inversion H; subst. apply keep_refl.
Qed.

Lemma bind_rel (Rel : kstate -> kstate -> Prop) s (r : R) f s3 o3 p3 :
  (forall a b c, Rel a b -> Rel b c -> Rel a c) ->
  (forall s1 o1 p1, r = (s1, o1, p1) -> Rel s s1) ->
  (forall s1 s2 o2 p2, f s1 = (s2, o2, p2) -> Rel s1 s2) ->
  r >>= f = (s3, o3, p3) -> Rel s s3.
Proof.
  intros Ht H1 H2. destruct r as [[s1 o1] p1]. unfold bind. destruct p1.
  - intros H; inversion H; subst. eapply H1; reflexivity.
  - destruct (f s1) as [[s2 o2] p2] eqn:E. intros H; inversion H; subst.
    eapply Ht; [eapply H1; reflexivity|eapply H2; exact E].
Qed.

Lemma keep_do_actions acts : forall s u snd s' o p, do_actions roles s u snd acts = (s', o, p) -> keep s s'.
Proof.
  induction acts as [|act rest IH]; intros s u snd s' o p; cbn [do_actions].
  - intros H; inversion H; subst. apply keep_refl.
  - apply (bind_rel keep); [apply keep_trans| |].
    + intros s1 o1 p1 E. eapply keep_do_action; exact E.
    + intros s1 s2 o2 p2 E. eapply IH; exact E.
Qed.

Lemma keep_handle_q q s u t k snd s' o p : handle_q roles q s u t k snd = (s', o, p) -> keep s s'.
Proof.
  unfold handle_q. destruct (get s u) as [a|]; [|intros H; inversion H; subst; apply keep_refl].
  destruct q; [intros H; inversion H; subst; apply keep_refl|].
  destruct (do_actions roles s u snd (find_rule (rules (role_of roles a)) t (a_inst a))) as [[s1 o1] p1] eqn:E.
  intros H; inversion H; subst. eapply keep_do_actions; exact E.
Qed.
Lemma keep_handle s u t k snd s' o p : handle roles s u t k snd = (s', o, p) -> keep s s'.
Proof.
  unfold handle. destruct (get s u) as [a|]; [|intros H; inversion H; subst; apply keep_refl]. apply keep_handle_q.
Qed.

(* status of u after a status-keeping operation *)
Lemma keep_status s s' u a : keep s s' -> get s u = Some a -> exists a', get s' u = Some a' /\ a_st a' = a_st a.
Proof. intros K H. destruct (K u a H) as (a' & H1 & H2 & _). eauto. Qed.

Lemma mono_try_terminated s u snd s' o p : try_terminated roles s u snd = (s', o, p) -> mono s s'.
Proof.
  unfold try_terminated. destruct (get s u) as [a|] eqn:Ea; [|intros H; inversion H; subst; apply mono_refl].
  destruct (a_children a); [|intros H; inversion H; subst; apply mono_refl].
  destruct (a_st a) eqn:Est; try (intros H; inversion H; subst; apply mono_refl).
  apply (bind_rel mono); [apply mono_trans| |].
  - intros s1 o1 p1 E. eapply mono_trans; [eapply mono_upd_status; [exact Ea|congruence]|].
    apply keep_mono. eapply keep_handle; exact E.
  - intros s1 s2 o2 p2. destruct (a_parent a =? rNone); intros H; inversion H; subst; apply keep_mono.
    + eapply keep_trans; [apply keep_set_registry|]. eapply keep_trans; [apply keep_notify_all|].
      apply keep_same_actors. reflexivity.
    + eapply keep_trans; [apply keep_set_registry|]. eapply keep_trans; [apply keep_notify_all|apply keep_deliver_sys].
Qed.

Lemma keep_start_instance s u self parent s' o p : start_instance roles s u self parent = (s', o, p) -> keep s s'.
Proof.
  unfold start_instance. destruct (handle roles s u TRD 0 self) as [[s1 o1] p1] eqn:E1.
  destruct (handle roles s1 u TL 0 parent) as [[s2 o2] p2] eqn:E2. intros H; inversion H; subst.
  eapply keep_trans; [eapply keep_handle; exact E1|]. eapply keep_trans; [eapply keep_handle; exact E2|].
  destruct p2; [apply keep_refl|apply keep_upd_actor; kp].
Qed.

Lemma mono_try_restarted s u snd s' o p : try_restarted roles s u snd = (s', o, p) -> mono s s'.
Proof.
  unfold try_restarted. destruct (get s u) as [a|] eqn:Ea; [|intros H; inversion H; subst; apply mono_refl].
  destruct (a_children a); [|intros H; inversion H; subst; apply mono_refl].
  destruct (a_st a) eqn:Est; try (intros H; inversion H; subst; apply mono_refl).
  (* Restarting *)
  intros H.
  destruct (provide s (a_tok a)) as [s0 inst] eqn:Ep.
  assert (K0 : keep s s0) by (apply keep_same_actors; unfold provide in Ep; inversion Ep; subst; reflexivity).
  destruct (handle roles s0 u TT 0 snd) as [[s1 o1] p1] eqn:E1. unfold bind in H. destruct p1.
  - inversion H; subst. apply keep_mono. eapply keep_trans; [exact K0|eapply keep_handle; exact E1].
  - destruct (handle roles s1 u TTS 0 snd) as [[s2 o2] p2] eqn:E2. destruct p2.
    + inversion H; subst. apply keep_mono. eapply keep_trans; [exact K0|]. eapply keep_trans; [eapply keep_handle; exact E1|eapply keep_handle; exact E2].
    + assert (K12 : keep s s2) by (eapply keep_trans; [exact K0|]; eapply keep_trans; [eapply keep_handle; exact E1|eapply keep_handle; exact E2]).
      destruct (keep_status _ _ _ _ K12 Ea) as (a3 & Ha3 & Hs3).
      match type of H with context [start_instance ?r ?x ?y ?z ?w] => destruct (start_instance r x y z w) as [[s9 o9] p9] eqn:E9 end.
      inversion H; subst.
      eapply mono_trans; [apply keep_mono; exact K12|].
      apply mono_trans with (s2 := upd_actor s2 u (fun b => w_st Alive (w_inst inst b))).
      * intros v b Hg. unfold upd_actor. rewrite Ha3. destruct (Nat.eq_dec u v) as [->|Hne].
        -- eexists. split; [eapply get_put_same; exact Ha3|]. rewrite Ha3 in Hg. inversion Hg; subst.
           split; [intros Ht; congruence|repeat split].
        -- exists b. split; [rewrite get_put_other by assumption; exact Hg|]. split; [auto|apply same_id_refl].
      * apply keep_mono. eapply keep_trans; [apply keep_deliver_sys|eapply keep_start_instance; exact E9].
Qed.

Lemma mono_apply_directive s u r d snd s' o p : apply_directive roles s u r d snd = (s', o, p) -> mono s s'.
Proof.
  unfold apply_directive. destruct (get s u) as [a|]; [|intros H; inversion H; subst; apply mono_refl].
  destruct d.
  - intros H; inversion H; subst. apply keep_mono, keep_deliver_sys.
  - destruct (terminate s (a_tok a) (ar_vref r) false) as [s1 o1] eqn:E1.
    destruct (try_terminated roles s1 u snd) as [[s2 o2] p2] eqn:E2. intros H; inversion H; subst.
    eapply mono_trans; [apply keep_mono; eapply keep_terminate; exact E1|eapply mono_try_terminated; exact E2].
  - intros H; inversion H; subst. apply keep_mono, keep_deliver_sys.
  - destruct (escalate s u r) as [[s1 o1] p1] eqn:E. intros H; inversion H; subst. apply keep_mono. eapply keep_escalate; exact E.
  - intros H; inversion H; subst. apply keep_mono, keep_restart_all.
Qed.

Lemma mono_on_accident s u r snd s' o p : on_accident roles s u r snd = (s', o, p) -> mono s s'.
Proof.
  unfold on_accident. destruct (get s u) as [a|]; [|intros H; inversion H; subst; apply mono_refl].
  destruct (ar_strategy r); [apply mono_apply_directive|].
  destruct (sup (role_of roles a)); [intros H; apply keep_mono; eapply keep_escalate; exact H|apply mono_apply_directive].
Qed.

Lemma mono_process_sys s u e s' o p : process_sys roles s u e = (s', o, p) -> mono s s'.
Proof.
  unfold process_sys. destruct (get s u) as [a|] eqn:Ea; [|intros H; inversion H; subst; apply mono_refl].
  match goal with |- context [if ?d then _ else _] => destruct d end; [intros H; inversion H; subst; apply mono_refl|].
  destruct (e_msg e).
  - (* SLaunch *) apply (bind_rel mono); [apply mono_trans| |].
    + intros s1 o1 p1 E. apply keep_mono. eapply keep_handle; exact E.
    + intros s1 s2 o2 p2 H; inversion H; subst. apply keep_mono. apply keep_upd_actor; kp.
  - intros H. apply keep_mono. eapply keep_handle; exact H.
  - (* STerminate *)
    assert (HT : forall s0, mono s s0 ->
      (handle roles s0 u TT 0 (e_snd e) >>= (fun s3 =>
         match get s3 u with
         | None => ok s3 []
         | Some a3 =>
             let '(s4, o4) := terminate_all s3 (a_tok a3) (a_children a3) (g || a_graceful a3) in
             let '(s5, o5, p) := try_terminated roles s4 u (e_snd e) in (s5, o4 ++ o5, p)
         end)) = (s', o, p) -> mono s s').
    { intros s0 M0 H. eapply mono_trans; [exact M0|]. revert H. apply (bind_rel mono); [apply mono_trans| |].
      - intros s1 o1 p1 E. apply keep_mono. eapply keep_handle; exact E.
      - intros s1 s2 o2 p2. destruct (get s1 u) as [a3|]; [|intros H; inversion H; subst; apply mono_refl].
        destruct (terminate_all s1 (a_tok a3) (a_children a3) (g || a_graceful a3)) as [s4 o4] eqn:E4.
        destruct (try_terminated roles s4 u (e_snd e)) as [[s5 o5] p5] eqn:E5. intros H; inversion H; subst.
        eapply mono_trans; [apply keep_mono; eapply keep_terminate_all; exact E4|eapply mono_try_terminated; exact E5]. }
    destruct (a_st a) eqn:Est; try (intros H; inversion H; subst; apply mono_refl); apply HT;
      (apply mono_trans with (s2 := upd_actor s u (w_st Terminating)); [eapply mono_upd_status; [exact Ea|congruence]|apply keep_mono, keep_deliver_sys]).
  - (* STerminatedOf *) apply (bind_rel mono); [apply mono_trans| |].
    + intros s1 o1 p1 E. apply keep_mono. eapply keep_trans; [|eapply keep_handle; exact E]. apply keep_drop_child.
    + intros s1 s2 o2 p2. destruct (get s1 u) as [a2|]; [|intros H; inversion H; subst; apply mono_refl].
      destruct (a_st a2); try (intros H; inversion H; subst; apply mono_refl).
      * apply mono_try_restarted.
      * apply mono_try_terminated.
  - (* SRestart *) destruct (a_st a) eqn:Est; try (intros H; inversion H; subst; apply mono_refl).
    intros H. apply mono_trans with (s2 := upd_actor s u (w_st Restarting)); [eapply mono_upd_status; [exact Ea|congruence]|]. revert H.
    apply (bind_rel mono); [apply mono_trans| |].
    + intros s1 o1 p1 E. apply keep_mono. eapply keep_trans; [apply keep_deliver_sys|eapply keep_handle; exact E].
    + intros s1 s2 o2 p2. destruct (get s1 u) as [a2|]; [|intros H; inversion H; subst; apply mono_refl].
      destruct (terminate_all s1 (a_tok a2) (a_children a2) false) as [s3 o3] eqn:E3.
      destruct (try_restarted roles s3 u (e_snd e)) as [[s4 o4] p4] eqn:E4. intros H; inversion H; subst.
      eapply mono_trans; [apply keep_mono; eapply keep_terminate_all; exact E3|eapply mono_try_restarted; exact E4].
  - apply mono_on_accident.
  - destruct (e_snd e =? a_parent a); [intros H; inversion H; subst; apply mono_refl|].
    destruct (st_ge_terminating (a_st a)); intros H; inversion H; subst; apply keep_mono.
    + apply keep_deliver_sys.
    + apply keep_upd_actor; kp.
  - intros H; inversion H; subst. apply keep_mono. apply keep_upd_actor; kp.
  - intros H; inversion H; subst. apply mono_refl.
  - intros H; inversion H; subst. apply mono_refl.
  - (* SResumeReq *) destruct (a_st a); intros H; inversion H; subst; try apply mono_refl.
    apply keep_mono, keep_deliver_sys.
Qed.

Lemma keep_process_user s u e s' o p : process_user roles s u e = (s', o, p) -> keep s s'.
Proof.
  unfold process_user. destruct (get s u) as [a|]; [|intros H; inversion H; subst; apply keep_refl].
  destruct (st_ge_terminating (a_st a)).
  - destruct (abyss_user s (e_snd e) (e_rcv e) (e_msg e)) as [s1 o1] eqn:E. intros H; inversion H; subst.
    eapply keep_abyss_user; exact E.
  - destruct (e_msg e).
    + apply keep_handle_q.
    + intros H; inversion H; subst. eapply keep_trans; [|apply keep_deliver_sys]. apply keep_upd_actor; kp.
    + intros H; inversion H; subst. apply keep_refl.
Qed.

Lemma mono_run_actor s u s' o : run_actor roles s u = Some (s', o) -> mono s s'.
Proof.
  unfold run_actor. destruct (get s u) as [a|]; [|discriminate]. destruct (a_inflight a) as [m|]; [|discriminate].
  assert (K0 : mono s (upd_actor s u (w_inflight None))) by (apply keep_mono, keep_upd_actor; kp).
  destruct m as [e|e].
  - destruct (process_sys roles (upd_actor s u (w_inflight None)) u e) as [[s1 o1] p] eqn:E1.
    apply mono_process_sys in E1. destruct p.
    + destruct (crashed s1).
      * intros H; inversion H; subst. eapply mono_trans; eassumption.
      * destruct (report_abnormal roles s1 u) as [[s2 o2] p2] eqn:E2. intros H; inversion H; subst.
        eapply mono_trans; [exact K0|]. eapply mono_trans; [exact E1|apply keep_mono; eapply keep_report_abnormal; exact E2].
    + intros H; inversion H; subst. eapply mono_trans; eassumption.
  - destruct (process_user roles (upd_actor s u (w_inflight None)) u e) as [[s1 o1] p] eqn:E1.
    apply keep_process_user in E1. apply keep_mono in E1. destruct p.
    + destruct (crashed s1).
      * intros H; inversion H; subst. eapply mono_trans; eassumption.
      * destruct (report_abnormal roles s1 u) as [[s2 o2] p2] eqn:E2. intros H; inversion H; subst.
        eapply mono_trans; [exact K0|]. eapply mono_trans; [exact E1|apply keep_mono; eapply keep_report_abnormal; exact E2].
    + intros H; inversion H; subst. eapply mono_trans; eassumption.
Qed.

Lemma pop1_st a : a_st (pop1 a) = a_st a.
Proof.
  unfold pop1. destruct (a_inflight a); [reflexivity|]. destruct (a_sysq a); [|reflexivity].
  destruct (a_susp a); [reflexivity|]. destruct (a_userq a); reflexivity.
Qed.
Lemma pop1_id a : same_id a (pop1 a).
Proof.
  unfold pop1. destruct (a_inflight a); [apply same_id_refl|]. destruct (a_sysq a); [|repeat split].
  destruct (a_susp a); [apply same_id_refl|]. destruct (a_userq a); [apply same_id_refl|repeat split].
Qed.
Lemma keep_normalize s : keep s (normalize s).
Proof.
  intros v a Hg. exists (pop1 a). split; [|split; [apply pop1_st|apply pop1_id]].
  unfold normalize, get, set_actors in *; cbn [actors]. rewrite nth_error_map, Hg. reflexivity.
Qed.

Theorem kstep_mono s l s' o : kstep roles s l = Some (s', o) -> mono s s'.
Proof.
  destruct l; cbn [kstep].
  - destruct (run_actor roles s (Z.to_nat u)) as [[s1 o1]|] eqn:E; [|discriminate]. intros H; inversion H; subst.
    eapply mono_trans; [eapply mono_run_actor; exact E|apply keep_mono, keep_normalize].
  - destruct (next_serial s) as [s1 k] eqn:En. destruct (deliver_user s1 t rNone (UProbe n k)) as [s2 o2] eqn:E.
    intros H; inversion H; subst. apply keep_mono. eapply keep_trans; [|apply keep_normalize].
    eapply keep_trans; [|eapply keep_deliver_user; exact E]. change s1 with (fst (s1, k)). rewrite <- En. apply keep_next_serial.
  - destruct (next_serial s) as [s1 k] eqn:En. destruct (deliver_user s1 t rGuard (UProbe n k)) as [s2 o2] eqn:E.
    intros H; inversion H; subst. apply keep_mono. eapply keep_trans; [|apply keep_normalize].
    eapply keep_trans; [|eapply keep_deliver_user; exact E]. change s1 with (fst (s1, k)). rewrite <- En. apply keep_next_serial.
  - destruct (terminate s rGuard t g) as [s1 o1] eqn:E. intros H; inversion H; subst. apply keep_mono.
    eapply keep_trans; [eapply keep_terminate; exact E|apply keep_normalize].
  - destruct (spawn s guard_uid rGuard t r) as [[s1 o1] p] eqn:E. intros H; inversion H; subst. apply keep_mono.
    eapply keep_trans; [eapply keep_spawn; exact E|apply keep_normalize].
  - destruct (terminate s rGuard rGuard g) as [s1 o1] eqn:E. intros H; inversion H; subst. apply keep_mono.
    eapply keep_trans; [eapply keep_terminate; exact E|apply keep_normalize].
  - intros H; inversion H; subst. apply mono_refl.
Qed.

(* over whole runs: a Terminated object is Terminated in every later state, and its later steps emit no Handled *)
Theorem krun_mono ls : forall s s' os, krun roles s ls = Some (s', os) -> mono s s'.
Proof.
  induction ls as [|l t IH]; intros s s' os; cbn [krun].
  - intros H; inversion H; subst. apply mono_refl.
  - destruct (kstep roles s l) as [[s1 o]|] eqn:E; [|discriminate].
    destruct (krun roles s1 t) as [[s2 os2]|] eqn:E2; [|discriminate]. intros H; inversion H; subst.
    eapply mono_trans; [eapply kstep_mono; exact E|eapply IH; exact E2].
Qed.

Theorem terminated_is_final s u a ls s' os :
  get s u = Some a -> a_st a = Terminated -> krun roles s ls = Some (s', os) ->
  exists a', get s' u = Some a' /\ a_st a' = Terminated.
Proof.
  intros Hg Ht Hr. destruct (krun_mono ls s s' os Hr u a Hg) as (a' & Hg' & Hm & _). exists a'. auto.
Qed.

(* after an object is Terminated, any later step of its mailbox, after any further run, handles nothing *)
Theorem nothing_handled_after_terminated s u a ls s1 os s2 o :
  get s u = Some a -> a_st a = Terminated -> krun roles s ls = Some (s1, os) ->
  kstep roles s1 (LRun (Z.of_nat u)) = Some (s2, o) -> existsb is_handled o = false.
Proof.
  intros Hg Ht Hr Hs. destruct (terminated_is_final s u a ls s1 os Hg Ht Hr) as (a1 & Hg1 & Ht1).
  cbn [kstep] in Hs. rewrite Nat2Z.id in Hs.
  destruct (run_actor roles s1 u) as [[s3 o3]|] eqn:E; [|discriminate]. inversion Hs; subst.
  eapply terminated_silent; eassumption.
Qed.

End S.
