(* MV.Kernel.Descend — C05 / C04 "terminating an actor terminates all of its descendants" ("Stop terminates it with its
   descendants"), one level at a time, for every role table and from ANY state: the step in which a living or restarting
   actor object takes a terminate request out of its mailbox hands a terminate request to the object registered under the
   address of EVERY child it had when the step began (its OnTerminate handler runs first and may spawn more children — they are
   told as well, Kernel.Hierarchy — but cannot remove one): a non-graceful one as a system message from the parent when neither
   the request nor the actor is graceful, otherwise the graceful request at the tail of the child's user queue. By induction on
   the depth of the tree (Kernel.Hierarchy: a registered child has a registered, older parent that lists it) the request
   reaches every descendant that is still registered when its parent processes the request.

   Relation hA through the handler: the children table of the running object only grows (ActorOf inserts), its graceful flag,
   status and address stay. *)
From MV Require Import Lib.ListX Kernel.Model Kernel.Lifecycle Kernel.Status Kernel.Registry Kernel.Frame Kernel.Queue Kernel.Watch Kernel.Hierarchy Kernel.Fanout Kernel.Terminate Kernel.Directive.
Open Scope Z_scope.

Definition hA (a a' : actor) : Prop :=
  incl (a_children a) (a_children a') /\ a_graceful a' = a_graceful a /\ a_st a' = a_st a /\ a_tok a' = a_tok a.
Lemma hA_refl a : hA a a. Proof. repeat split. apply incl_refl. Qed.
Lemma hA_trans a b c : hA a b -> hA b c -> hA a c.
Proof. intros (I1 & G1 & S1 & T1) (I2 & G2 & S2 & T2). repeat split; try congruence. eapply incl_tran; eassumption. Qed.
Lemma hA_keep a b : a_children b = a_children a -> a_graceful b = a_graceful a -> a_st b = a_st a -> a_tok b = a_tok a -> hA a b.
Proof. intros H1 H2 H3 H4. repeat split; try assumption. rewrite H1. apply incl_refl. Qed.
Lemma H_userq a (e : env umsg) : hA a (w_userq (a_userq a ++ [e]) a). Proof. apply hA_keep; reflexivity. Qed.
Lemma H_sysq a e : hA a (w_sysq (a_sysq a ++ [e]) a). Proof. apply hA_keep; reflexivity. Qed.
Lemma H_susp a b : hA a (w_susp b a). Proof. apply hA_keep; reflexivity. Qed.
Lemma H_accidents a x : hA a (w_accidents x a). Proof. apply hA_keep; reflexivity. Qed.
Lemma H_ins a t : hA a (w_children (insert_sorted t (a_children a)) a).
Proof. repeat split. intros x Hx. cbn [a_children w_children]. apply in_insert_sorted_keep. exact Hx. Qed.

Definition hq := Frame.fr hA.
Lemma hq_refl s : hq s s. Proof. apply fr_refl, hA_refl. Qed.
Lemma hq_trans a b c : hq a b -> hq b c -> hq a c. Proof. apply fr_trans, hA_trans. Qed.

(* user messages of one kind in a mailbox (in flight, then queued) *)
Definition ucnt (P : env umsg -> bool) (a : actor) : nat := length (filter P (seq a)).
Lemma ucnt_uqA P a a' : uqA a a' -> (ucnt P a <= ucnt P a')%nat.
Proof. intros U. destruct (seq_uqA a a' U) as (app & E). unfold ucnt. rewrite E, filter_app, app_length. lia. Qed.
Definition ugains (P : env umsg -> bool) (v : nat) (s s' : kstate) : Prop :=
  forall b, get s v = Some b -> exists b', get s' v = Some b' /\ (ucnt P b + 1 <= ucnt P b')%nat.
Lemma ugains_pre P v s1 s2 s3 : uq s1 s2 -> ugains P v s2 s3 -> ugains P v s1 s3.
Proof.
  intros Q G b Hb. destruct (Q v b Hb) as (b2 & G2 & X2). destruct (G b2 G2) as (b3 & G3 & N3).
  exists b3. split; [exact G3|]. pose proof (ucnt_uqA P _ _ X2). lia.
Qed.
Lemma ugains_post P v s1 s2 s3 : ugains P v s1 s2 -> uq s2 s3 -> ugains P v s1 s3.
Proof.
  intros G Q b Hb. destruct (G b Hb) as (b2 & G2 & N2). destruct (Q v b2 G2) as (b3 & G3 & X3).
  exists b3. split; [exact G3|]. pose proof (ucnt_uqA P _ _ X3). lia.
Qed.
Lemma ugains_normalize P v s s' : ugains P v s s' -> ugains P v s (normalize s').
Proof.
  intros G b Hb. destruct (G b Hb) as (b' & G' & N). exists (pop1 b'). split; [rewrite get_normalize, G'; reflexivity|].
  unfold ucnt. rewrite seq_pop1. exact N.
Qed.

(* the graceful terminate request of a parent to the child registered under c *)
Definition is_gterm (c : ref) (e : env umsg) : bool :=
  (e_rcv e =? c) && match e_msg e with UTermG => true | _ => false end.

Section DS.
Variable roles : list role.

Ltac hhyps := try solve [exact hA_refl | exact hA_trans | exact H_userq | exact H_sysq | exact H_susp | exact H_accidents | eassumption].
Ltac hq_by lem := unfold hq; eapply lem; hhyps.

Lemma hq_upd s u f : (forall a, hA a (f a)) -> hq s (upd_actor s u f).
Proof. intros H. unfold hq. apply Frame.fr_upd_actor; [exact hA_refl|exact H]. Qed.

Lemma hq_spawn s u self t r s' o p : spawn s u self t r = (s', o, p) -> hq s s'.
Proof.
  unfold spawn. destruct (provide s t) as [s1 inst] eqn:Ep.
  assert (K1 : hq s s1) by (unfold hq; apply Frame.fr_same_actors; [exact hA_refl|unfold provide in Ep; inversion Ep; subst; reflexivity]).
  set (s2 := set_actors s1 (actors s1 ++ [new_actor t self r inst])).
  assert (K12 : hq s1 s2) by (unfold hq; apply Frame.fr_append; exact hA_refl).
  change (registry s2) with (registry s1) in *. destruct (lookup t (registry s1)).
  - intros H; inversion H; subst. eapply hq_trans; [exact K1|apply Frame.fr_append; exact hA_refl].
  - intros H. eapply hq_trans; [|hq_by Frame.fr_stop]. eapply hq_trans; [exact K1|]. eapply hq_trans; [exact K12|].
    eapply hq_trans; [|hq_by Frame.fr_deliver_sys]. eapply hq_trans; [|apply hq_upd; intros a; apply H_ins].
    unfold hq. apply Frame.fr_set_registry. exact hA_refl.
Qed.

Lemma hq_do_action s u snd act s' o p : do_action roles s u snd act = (s', o, p) -> hq s s'.
Proof.
  unfold do_action. destruct (get s u) as [a|]; [|intros H; inversion H; subst; apply hq_refl].
  assert (NS : forall s1 k, next_serial s = (s1, k) -> hq s s1).
  { intros s1 k En. unfold hq. apply Frame.fr_same_actors; [exact hA_refl|]. unfold next_serial in En. inversion En; subst. reflexivity. }
  destruct act.
  - destruct (next_serial s) as [s1 k] eqn:En. destruct (deliver_user s1 t rNone (UProbe n k)) as [s2 o2] eqn:E.
    intros H; inversion H; subst. eapply hq_trans; [eapply NS; reflexivity|hq_by Frame.fr_deliver_user].
  - destruct (next_serial s) as [s1 k] eqn:En. destruct (deliver_user s1 t (a_tok a) (UProbe n k)) as [s2 o2] eqn:E.
    intros H; inversion H; subst. eapply hq_trans; [eapply NS; reflexivity|hq_by Frame.fr_deliver_user].
  - destruct (next_serial s) as [s1 k] eqn:En. destruct (deliver_user s1 snd (a_tok a) (UProbe n k)) as [s2 o2] eqn:E.
    intros H; inversion H; subst. eapply hq_trans; [eapply NS; reflexivity|hq_by Frame.fr_deliver_user].
  - destruct (next_serial s) as [s1 k] eqn:En. destruct (send_each s1 (a_tok a) (a_children a) n k) as [s2 o2] eqn:E.
    intros H; inversion H; subst. eapply hq_trans; [eapply NS; reflexivity|hq_by Frame.fr_send_each].
  - destruct (spawn s u (a_tok a) t r) as [[s1 o1] p1] eqn:E. intros H; inversion H; subst. eapply hq_spawn; exact E.
  - destruct (terminate s (a_tok a) t g) as [s1 o1] eqn:E. intros H; inversion H; subst. hq_by Frame.fr_terminate.
  - intros H; inversion H; subst. hq_by Frame.fr_deliver_sys.
  - intros H; inversion H; subst. hq_by Frame.fr_deliver_sys.
  - destruct (report_abnormal roles s u) as [[s1 o1] p1] eqn:E. intros H; inversion H; subst. hq_by Frame.fr_report_abnormal.
  - intros H; inversion H; subst. apply hq_refl.
Qed.
Lemma hq_do_actions acts : forall s u snd s' o p, do_actions roles s u snd acts = (s', o, p) -> hq s s'.
Proof.
  induction acts as [|act rest IH]; intros s u snd s' o p; cbn [do_actions].
  - intros H; inversion H; subst. apply hq_refl.
  - apply (bind_rel hq); [apply hq_trans| |].
    + intros s1 o1 p1 E. eapply hq_do_action; exact E.
    + intros s1 s2 o2 p2 E. eapply IH; exact E.
Qed.
Lemma hq_handle s u t k snd s' o p : handle roles s u t k snd = (s', o, p) -> hq s s'.
Proof.
  unfold handle. destruct (get s u) as [a|]; [|intros H; inversion H; subst; apply hq_refl].
  unfold handle_q. destruct (get s u) as [a2|]; [|intros H; inversion H; subst; apply hq_refl].
  destruct (is_sys (a_tok a)); [intros H; inversion H; subst; apply hq_refl|].
  destruct (do_actions roles s u snd (find_rule (rules (role_of roles a2)) t (a_inst a2))) as [[s1 o1] p1] eqn:E.
  intros H; inversion H; subst. eapply hq_do_actions; exact E.
Qed.

(* frames of the other relations through the operations of the terminate branch *)
Ltac dhyps := try solve [exact dqA_refl | exact dqA_trans | exact D_userq | exact D_sysq | exact D_susp | exact D_children
                        | exact D_accidents | exact D_st | exact D_inst | exact D_watchers | exact D_graceful | eassumption].
Ltac dq_by lem := unfold dq; eapply lem; dhyps.
Ltac uhyps := try solve [exact uqA_refl | exact uqA_trans | exact U_userq | exact U_sysq | exact U_susp | exact U_children
                        | exact U_accidents | exact U_st | exact U_inst | exact U_watchers | exact U_graceful | eassumption].
Ltac uq_by lem := unfold uq; eapply lem; uhyps.

Lemma regsame_terminate s self t g s' o : terminate s self t g = (s', o) -> regsame s s'.
Proof.
  unfold terminate. destruct g.
  - unfold deliver_user. destruct (lookup t (registry s)) as [u|].
    + destruct (get s u); [intros H; inversion H; subst; apply regsame_put|].
      unfold abyss_user. intros H; inversion H; subst. destruct (t =? rSub); [apply regsame_refl|]. unfold to_sub. destruct (lookup rSub (registry s)); [apply regsame_upd_actor|apply regsame_refl].
    + unfold abyss_user. intros H; inversion H; subst. destruct (t =? rSub); [apply regsame_refl|]. unfold to_sub. destruct (lookup rSub (registry s)); [apply regsame_upd_actor|apply regsame_refl].
  - intros H; inversion H; subst. apply regsame_deliver_sys.
Qed.

(* terminate_all hands the request to the object registered under every listed child *)
Lemma terminate_all_sys cs : forall s self c w s' o,
  In c cs -> lookup c (registry s) = Some w -> terminate_all s self cs false = (s', o) -> gains (carries DStop self c) w s s'.
Proof.
  induction cs as [|x cs IH]; intros s self c w s' o Hin Hl; [contradiction|]. cbn [terminate_all].
  destruct (terminate s self x false) as [s1 o1] eqn:E1. destruct (terminate_all s1 self cs false) as [s2 o2] eqn:E2.
  intros H; inversion H; subst. destruct (Z.eq_dec x c) as [->|Hne].
  - eapply gains_post; [|dq_by Frame.fr_terminate_all]. unfold terminate in E1. inversion E1; subst.
    apply gains_deliver_sys; [exact Hl|reflexivity|]. unfold carries, mk_env. cbn [e_snd e_rcv e_msg]. rewrite !Z.eqb_refl. reflexivity.
  - destruct Hin as [->|Hin]; [contradiction|]. eapply gains_pre; [dq_by Frame.fr_terminate|].
    eapply IH; [exact Hin| |exact E2]. rewrite (regsame_terminate _ _ _ _ _ _ E1). exact Hl.
Qed.

Lemma ugains_deliver_user P s t snd m w s' o :
  lookup t (registry s) = Some w -> P (mk_env snd t m) = true -> deliver_user s t snd m = (s', o) -> ugains P w s s'.
Proof.
  intros Hl HP. unfold deliver_user. rewrite Hl. intros H b Hb. rewrite Hb in H. inversion H; subst.
  eexists. split; [eapply get_put_same; exact Hb|].
  assert (M : seq (w_userq (a_userq b ++ [mk_env snd t m]) b) = seq b ++ [mk_env snd t m]).
  { unfold seq, inflight_user. cbn [a_inflight a_userq w_userq]. rewrite app_assoc. reflexivity. }
  unfold ucnt. rewrite M, filter_app, app_length. cbn [filter]. rewrite HP. cbn [length]. lia.
Qed.

Lemma terminate_all_user cs : forall s self c w s' o,
  In c cs -> lookup c (registry s) = Some w -> terminate_all s self cs true = (s', o) -> ugains (is_gterm c) w s s'.
Proof.
  induction cs as [|x cs IH]; intros s self c w s' o Hin Hl; [contradiction|]. cbn [terminate_all].
  destruct (terminate s self x true) as [s1 o1] eqn:E1. destruct (terminate_all s1 self cs true) as [s2 o2] eqn:E2.
  intros H; inversion H; subst. destruct (Z.eq_dec x c) as [->|Hne].
  - eapply ugains_post; [|uq_by Frame.fr_terminate_all]. unfold terminate in E1.
    eapply ugains_deliver_user; [exact Hl| |exact E1]. unfold is_gterm, mk_env. cbn [e_rcv e_msg]. rewrite Z.eqb_refl. reflexivity.
  - destruct Hin as [->|Hin]; [contradiction|]. eapply ugains_pre; [uq_by Frame.fr_terminate|].
    eapply IH; [exact Hin| |exact E2]. rewrite (regsame_terminate _ _ _ _ _ _ E1). exact Hl.
Qed.

Theorem terminate_reaches_children s v b e g s' o :
  get s v = Some b -> a_inflight b = Some (MS e) -> e_msg e = STerminate g -> (a_st b = Alive \/ a_st b = Restarting) ->
  kstep roles s (LRun (Z.of_nat v)) = Some (s', o) ->
  forall c w, In c (a_children b) -> lookup c (registry s) = Some w -> w <> v ->
    if g || a_graceful b then ugains (is_gterm c) w s s' else gains (carries DStop (a_tok b) c) w s s'.
Proof.
  intros Hb Hi He Hst Hk c w Hc Hl Hwv. cbn [kstep] in Hk. rewrite Nat2Z.id in Hk.
  rewrite (run_actor_inner roles s v b (MS e) Hb Hi) in Hk.
  set (s0 := upd_actor s v (w_inflight None)) in *.
  assert (G0 : get s0 v = Some (w_inflight None b)) by (apply get_upd_actor_same; exact Hb).
  assert (R0 : registry s0 = registry s) by (apply regsame_upd_actor).
  assert (W0 : forall d, get s w = Some d -> get s0 w = Some d).
  { intros d Hd. unfold s0, upd_actor. rewrite Hb. rewrite get_put_other by congruence. exact Hd. }
  unfold run_inner in Hk. destruct (process_sys roles s0 v e) as [[sp op] pp] eqn:Ep.
  (* what follows the message handler inside the step keeps every mailbox growing *)
  assert (TAILD : dq sp (fst (if pp then if crashed sp then (sp, op) else let '(s2, o2, _) := report_abnormal roles sp v in (s2, op ++ o2) else (sp, op)))).
  { destruct pp; [|apply dq_refl]. destruct (crashed sp); [apply dq_refl|].
    destruct (report_abnormal roles sp v) as [[s2 o2] p2] eqn:E2. cbn [fst]. dq_by Frame.fr_report_abnormal. }
  assert (TAILU : uq sp (fst (if pp then if crashed sp then (sp, op) else let '(s2, o2, _) := report_abnormal roles sp v in (s2, op ++ o2) else (sp, op)))).
  { destruct pp; [|apply fr_refl, uqA_refl]. destruct (crashed sp); [apply fr_refl, uqA_refl|].
    destruct (report_abnormal roles sp v) as [[s2 o2] p2] eqn:E2. cbn [fst]. uq_by Frame.fr_report_abnormal. }
  assert (S' : s' = normalize (fst (if pp then if crashed sp then (sp, op) else let '(s2, o2, _) := report_abnormal roles sp v in (s2, op ++ o2) else (sp, op)))).
  { destruct pp; [destruct (crashed sp); [|destruct (report_abnormal roles sp v) as [[s2 o2] p2]]|]; inversion Hk; reflexivity. }
  clear Hk.
  (* the terminate branch *)
  revert Ep. unfold process_sys. rewrite G0, He. cbn [a_st w_inflight a_tok].
  assert (HT :
      (handle roles (deliver_sys (upd_actor s0 v (w_st Terminating)) (a_tok b) (a_tok b) SResume) v TT 0 (e_snd e) >>= (fun s3 =>
         match get s3 v with
         | None => ok s3 []
         | Some a3 =>
             let '(s4, o4) := terminate_all s3 (a_tok a3) (a_children a3) (g || a_graceful a3) in
             let '(s5, o5, p) := try_terminated roles s4 v (e_snd e) in (s5, o4 ++ o5, p)
         end)) = (sp, op, pp) ->
      if g || a_graceful b then ugains (is_gterm c) w s0 sp else gains (carries DStop (a_tok b) c) w s0 sp).
  { set (s1 := upd_actor s0 v (w_st Terminating)). set (s2 := deliver_sys s1 (a_tok b) (a_tok b) SResume).
    assert (G1 : get s1 v = Some (w_st Terminating (w_inflight None b))) by (apply get_upd_actor_same; exact G0).
    assert (Q12 : hq s1 s2) by (unfold s2; hq_by Frame.fr_deliver_sys).
    destruct (Q12 v _ G1) as (a2 & G2 & X2).
    destruct (handle roles s2 v TT 0 (e_snd e)) as [[s3 o3] p3] eqn:E3.
    pose proof (hq_handle _ _ _ _ _ _ _ _ E3) as Q23. destruct (Q23 v a2 G2) as (a3 & G3 & X3).
    pose proof (hA_trans _ _ _ X2 X3) as (I3 & Gr3 & St3 & T3). cbn [a_children a_graceful a_st a_tok w_st w_inflight] in I3, Gr3, St3, T3.
    assert (NA : not_alive (a_st a2) = true).
    { destruct X2 as (_ & _ & S2 & _). rewrite S2. reflexivity. }
    assert (P3 : p3 = false).
    { revert E3. unfold handle. rewrite G2. unfold handle_q. rewrite G2. destruct (is_sys (a_tok a2)); [intros H; inversion H; reflexivity|].
      destruct (do_actions roles s2 v (e_snd e) (find_rule (rules (role_of roles a2)) TT (a_inst a2))) as [[sx ox] px].
      intros H; inversion H; subst. rewrite NA. apply andb_false_r. }
    subst p3. unfold bind. rewrite G3.
    destruct (terminate_all s3 (a_tok a3) (a_children a3) (g || a_graceful a3)) as [s4 o4] eqn:E4.
    destruct (try_terminated roles s4 v (e_snd e)) as [[s5 o5] p5] eqn:E5. intros H; inversion H; subst sp op pp.
    assert (L3 : lookup c (registry s3) = Some w).
    { apply (rm_handle roles _ _ _ _ _ _ _ _ E3). unfold s2. rewrite (regsame_deliver_sys s1 (a_tok b) (a_tok b) SResume).
      unfold s1. rewrite (regsame_upd_actor s0 v _). rewrite R0. exact Hl. }
    assert (C3 : In c (a_children a3)) by (apply I3; exact Hc).
    rewrite Gr3, T3 in E4.
    destruct (g || a_graceful b) eqn:EG.
    - eapply ugains_pre; [|eapply ugains_post; [eapply terminate_all_user; [exact C3|exact L3|exact E4]|uq_by Frame.fr_try_terminated]].
      eapply fr_trans; [exact uqA_trans| |uq_by Frame.fr_handle].
      eapply fr_trans; [exact uqA_trans| |uq_by Frame.fr_deliver_sys]. apply Frame.fr_upd_actor; [exact uqA_refl|intros x; apply U_st].
    - eapply gains_pre; [|eapply gains_post; [eapply terminate_all_sys; [exact C3|exact L3|exact E4]|eapply dq_try_terminated; exact E5]].
      eapply dq_trans; [|dq_by Frame.fr_handle].
      eapply dq_trans; [|apply dq_deliver_sys]. apply Frame.fr_upd_actor; [exact dqA_refl|intros x; apply D_st]. }
  intros Ep.
  assert (MAIN : if g || a_graceful b then ugains (is_gterm c) w s0 sp else gains (carries DStop (a_tok b) c) w s0 sp).
  { destruct Hst as [Hst|Hst]; rewrite Hst in Ep; apply HT; exact Ep. }
  clear HT Ep. subst s'. destruct (g || a_graceful b).
  - apply ugains_normalize. intros d Hd. apply (ugains_post _ _ _ _ _ MAIN TAILU d). apply W0. exact Hd.
  - apply gains_normalize. intros d Hd. apply (gains_post _ _ _ _ _ MAIN TAILD d). apply W0. exact Hd.
Qed.

End DS.
