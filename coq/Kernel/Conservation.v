(* MV.Kernel.Conservation — C02 at the actor level: message conservation in the kernel.
   For every role table, every state and every step: a user message (identified by its serial) that is
   sent is, from then on, in exactly one place — queued / in flight at exactly one mailbox, or handled
   (one OH), or a dead letter (one OD). Stated as a flow equation per step and lifted to whole runs:
   sent = handled + dead-lettered + still pending. *)
From MV Require Import Lib.ListX Kernel.Model Kernel.Lifecycle.
From Coq Require Import ZifyBool ZifyNat.
Open Scope nat_scope.

Section Cons.
Variable roles : list role.
Variable sn : nat.                               (* the serial we follow *)
Variable wt : ref -> nat.                        (* weight of a receiver address: 1 everywhere = all receivers; an indicator = one receiver *)

Definition is_probe (m : umsg) : nat := match m with UProbe _ k => if Nat.eqb k sn then 1 else 0 | _ => 0 end.
Definition nsys (t : ref) : nat := if is_sys t then 0 else wt t.
Definition pend_env (e : env umsg) : nat := nsys (e_rcv e) * is_probe (e_msg e).
Definition pend_inflight (o : option anymsg) : nat := match o with Some (MU e) => pend_env e | _ => 0 end.
Definition pend_actor (a : actor) : nat := list_sum (map pend_env (a_userq a)) + pend_inflight (a_inflight a).
Definition pend_list (l : list actor) : nat := list_sum (map pend_actor l).
Definition pending (s : kstate) : nat := pend_list (actors s).

Definition sent1 (o : obs) : nat := match o with OS _ r k => nsys r * (if Nat.eqb k sn then 1 else 0) | _ => 0 end.
Definition hand1 (o : obs) : nat := match o with OH a _ (TP _) k _ => wt a * (if Nat.eqb k sn then 1 else 0) | _ => 0 end.
Definition dead1 (o : obs) : nat := match o with OD _ r k => nsys r * (if Nat.eqb k sn then 1 else 0) | _ => 0 end.
Definition sentc (o : list obs) := list_sum (map sent1 o).
Definition handc (o : list obs) := list_sum (map hand1 o).
Definition deadc (o : list obs) := list_sum (map dead1 o).

(* flow equation of an operation; [extra] = messages the caller has already taken out of a mailbox *)
Definition bal (s s' : kstate) (o : list obs) (extra : nat) : Prop :=
  pending s' + handc o + deadc o = pending s + sentc o + extra.

Lemma list_sum_app' l1 l2 : list_sum (l1 ++ l2) = list_sum l1 + list_sum l2.
Proof. induction l1; simpl; lia. Qed.
Lemma sentc_app a b : sentc (a ++ b) = sentc a + sentc b.
Proof. unfold sentc. now rewrite map_app, list_sum_app'. Qed.
Lemma handc_app a b : handc (a ++ b) = handc a + handc b.
Proof. unfold handc. now rewrite map_app, list_sum_app'. Qed.
Lemma deadc_app a b : deadc (a ++ b) = deadc a + deadc b.
Proof. unfold deadc. now rewrite map_app, list_sum_app'. Qed.
Lemma sentc_cons x b : sentc (x :: b) = sent1 x + sentc b. Proof. reflexivity. Qed.
Lemma handc_cons x b : handc (x :: b) = hand1 x + handc b. Proof. reflexivity. Qed.
Lemma deadc_cons x b : deadc (x :: b) = dead1 x + deadc b. Proof. reflexivity. Qed.

Lemma bal_refl s : bal s s [] 0.
Proof. unfold bal, handc, deadc, sentc; simpl; lia. Qed.
Lemma bal_trans s1 s2 s3 o1 o2 e1 e2 : bal s1 s2 o1 e1 -> bal s2 s3 o2 e2 -> bal s1 s3 (o1 ++ o2) (e1 + e2).
Proof. unfold bal. rewrite sentc_app, handc_app, deadc_app. lia. Qed.
Lemma bal_quiet s s' o : pending s' = pending s -> sentc o = 0 -> handc o = 0 -> deadc o = 0 -> bal s s' o 0.
Proof. unfold bal. lia. Qed.

Lemma bind_bal s (r : R) f e s3 o3 p3 :
  (forall s1 o1 p1, r = (s1, o1, p1) -> bal s s1 o1 e) ->
  (forall s1 s2 o2 p2, f s1 = (s2, o2, p2) -> bal s1 s2 o2 0) ->
  r >>= f = (s3, o3, p3) -> bal s s3 o3 e.
Proof.
  intros H1 H2. destruct r as [[s1 o1] p1]. unfold bind. destruct p1.
  - intros H; inversion H; subst. eapply H1; reflexivity.
  - destruct (f s1) as [[s2 o2] p2] eqn:E. intros H; inversion H; subst.
    replace e with (e + 0) by lia. eapply bal_trans; [eapply H1; reflexivity | eapply H2; exact E].
Qed.

(* ---- pending under state updates ---- *)
Lemma pend_list_upd l u a a' :
  nth_error l u = Some a -> pend_list (upd u a' l) + pend_actor a = pend_list l + pend_actor a'.
Proof.
  unfold pend_list. revert u; induction l as [|h t IH]; intros [|u] H; simpl in *; try discriminate.
  - inversion H; subst. lia.
  - specialize (IH u H). lia.
Qed.

Lemma pending_put s u a a' : get s u = Some a -> pending (put s u a') + pend_actor a = pending s + pend_actor a'.
Proof. intros E. unfold get in E. unfold pending, put, set_actors; simpl. exact (pend_list_upd _ _ _ a' E). Qed.

Lemma pending_upd_actor s u f :
  (forall a, pend_actor (f a) = pend_actor a) -> pending (upd_actor s u f) = pending s.
Proof.
  intros Hf. unfold upd_actor. destruct (get s u) as [a|] eqn:E; [|reflexivity].
  pose proof (pending_put s u a (f a) E). rewrite Hf in H. lia.
Qed.

Ltac keep := intros; reflexivity.

Lemma pending_drop_child s u w : pending (drop_child s u w) = pending s.
Proof. unfold drop_child. destruct (lookup w (registry s)); [reflexivity|]. apply pending_upd_actor; keep. Qed.

Lemma pend_actor_push a e : pend_actor (w_userq (a_userq a ++ [e]) a) = pend_actor a + pend_env e.
Proof. unfold pend_actor. cbn [a_userq a_inflight w_userq]. rewrite map_app, list_sum_app'. cbn [map]. unfold list_sum at 2; cbn [fold_right]. lia. Qed.

Lemma push_sys_pending s u e : pending (push_sys s u e) = pending s.
Proof. unfold push_sys. apply pending_upd_actor. intros a. destruct (e_msg e); reflexivity. Qed.

Lemma deliver_sys_pending s t snd m : pending (deliver_sys s t snd m) = pending s.
Proof.
  unfold deliver_sys. destruct (lookup t (registry s)); [apply push_sys_pending|].
  destruct m; try reflexivity. destruct (lookup snd (registry s)); [apply push_sys_pending|reflexivity].
Qed.

Lemma to_sub_pending s : pending (to_sub s) = pending s.
Proof.
  unfold to_sub. destruct (lookup rSub (registry s)) as [u|]; [|reflexivity].
  unfold upd_actor. destruct (get s u) as [a|] eqn:E; [|reflexivity].
  pose proof (pending_put s u a (w_userq (a_userq a ++ [mk_env rGuard rSub UPub]) a) E) as H.
  rewrite pend_actor_push in H. unfold pend_env in H at 1. cbn [e_msg e_rcv mk_env is_probe] in H. lia.
Qed.

Lemma abyss_user_bal s snd rcv m s' o :
  abyss_user s snd rcv m = (s', o) -> pending s' = pending s /\ sentc o = 0 /\ handc o = 0 /\ deadc o = nsys rcv * is_probe m.
Proof.
  unfold abyss_user. destruct m as [n k| |]; intros H; inversion H; subst; clear H;
    try (destruct (Z.eqb rcv rSub); rewrite ?to_sub_pending);
    unfold sentc, handc, deadc; cbn [map list_sum fold_right sent1 hand1 dead1 is_probe]; repeat split; try lia; try reflexivity;
    unfold list_sum; cbn [fold_right]; lia.
Qed.

Lemma deliver_user_bal s t snd m s' o :
  deliver_user s t snd m = (s', o) ->
  pending s' + deadc o = pending s + nsys t * is_probe m /\ sentc o = 0 /\ handc o = 0 /\ deadc o <= nsys t * is_probe m.
Proof.
  unfold deliver_user. destruct (lookup t (registry s)) as [u|].
  - destruct (get s u) as [a|] eqn:E.
    + intros H; inversion H; subst; clear H.
      pose proof (pending_put s u a (w_userq (a_userq a ++ [mk_env snd t m]) a) E) as H.
      rewrite pend_actor_push in H. unfold pend_env in H at 1. cbn [e_msg e_rcv mk_env] in H.
      unfold deadc, sentc, handc; cbn [map list_sum fold_right]. lia.
    + intros H. apply abyss_user_bal in H. lia.
  - intros H. apply abyss_user_bal in H. lia.
Qed.

Lemma terminate_bal s self t g s' o :
  terminate s self t g = (s', o) -> pending s' = pending s /\ sentc o = 0 /\ handc o = 0 /\ deadc o = 0.
Proof.
  unfold terminate. destruct g.
  - intros H. apply deliver_user_bal in H. cbn [is_probe] in H. lia.
  - intros H; inversion H; subst. rewrite deliver_sys_pending. repeat split; reflexivity.
Qed.

Lemma terminate_all_bal cs : forall s self g s' o,
  terminate_all s self cs g = (s', o) -> pending s' = pending s /\ sentc o = 0 /\ handc o = 0 /\ deadc o = 0.
Proof.
  induction cs as [|c rest IH]; intros s self g s' o; cbn [terminate_all].
  - intros H; inversion H; subst. repeat split; reflexivity.
  - destruct (terminate s self c g) as [s1 o1] eqn:E1. destruct (terminate_all s1 self rest g) as [s2 o2] eqn:E2.
    intros H; inversion H; subst. apply terminate_bal in E1. apply IH in E2.
    rewrite sentc_app, handc_app, deadc_app. lia.
Qed.

Lemma notify_all_pending ws : forall s self, pending (notify_all s self ws) = pending s.
Proof. induction ws as [|w rest IH]; intros s self; cbn [notify_all]; [reflexivity|]. rewrite IH. apply deliver_sys_pending. Qed.

Lemma restart_all_pending cs : forall s self, pending (restart_all s self cs) = pending s.
Proof. induction cs as [|c rest IH]; intros s self; cbn [restart_all]; [reflexivity|]. rewrite IH. apply deliver_sys_pending. Qed.

Lemma next_serial_pending s : pending (fst (next_serial s)) = pending s. Proof. reflexivity. Qed.
Lemma provide_pending s t : pending (fst (provide s t)) = pending s. Proof. reflexivity. Qed.

Lemma pend_list_app l1 l2 : pend_list (l1 ++ l2) = pend_list l1 + pend_list l2.
Proof. unfold pend_list. now rewrite map_app, list_sum_app'. Qed.

Lemma spawn_bal s u self t r s' o p : spawn s u self t r = (s', o, p) -> bal s s' o 0.
Proof.
  unfold spawn. destruct (provide s t) as [s1 inst] eqn:Ep.
  assert (H1 : pending s1 = pending s) by (change s1 with (fst (s1, inst)); rewrite <- Ep; apply provide_pending).
  set (s2 := set_actors s1 (actors s1 ++ [new_actor t self r inst])).
  assert (H2 : pending s2 = pending s).
  { unfold s2, pending, set_actors; cbn [actors]. rewrite pend_list_app. unfold pend_list at 2. cbn. unfold pending in H1. lia. }
  change (registry s2) with (registry s1) in *. destruct (lookup t (registry s1)).
  - intros H; inversion H; subst. apply bal_quiet; auto.
    unfold pending, set_actors; cbn [actors]. rewrite pend_list_app. unfold pend_list at 2. cbn. unfold pending in H1. lia.
  - set (s5 := deliver_sys _ t self SLaunch).
    assert (H5 : pending s5 = pending s) by (unfold s5; rewrite deliver_sys_pending; rewrite pending_upd_actor by keep; exact H2).
    unfold stop_if_parent_gone. destruct (get s5 u) as [pa|]; [|intros H; inversion H; subst; apply bal_quiet; auto].
    destruct (not_alive (a_st pa)); [|intros H; inversion H; subst; apply bal_quiet; auto].
    destruct (terminate s5 self t (a_graceful pa)) as [s6 o6] eqn:E6. intros H; inversion H; subst.
    apply terminate_bal in E6. unfold bal. lia.
Qed.

Lemma escalate_bal s u r s' o p : escalate s u r = (s', o, p) -> bal s s' o 0.
Proof.
  unfold escalate. destruct (get s u) as [a|]; [|intros H; inversion H; subst; apply bal_refl].
  destruct (Z.eqb (a_parent a) rNone); intros H; inversion H; subst; apply bal_quiet; try reflexivity.
  apply deliver_sys_pending.
Qed.

Lemma report_abnormal_bal s u s' o p : report_abnormal roles s u = (s', o, p) -> bal s s' o 0.
Proof.
  unfold report_abnormal. destruct (get s u) as [a|]; [|intros H; inversion H; subst; apply bal_refl].
  destruct (a_st a); try (intros H; inversion H; subst; apply bal_refl).
  intros H. apply escalate_bal in H. unfold bal in *.
  rewrite deliver_sys_pending in H. rewrite pending_upd_actor in H by keep. exact H.
Qed.

Definition bc (ts : list ref) (k : nat) : nat := list_sum (map (fun t => nsys t * (if Nat.eqb k sn then 1 else 0)) ts).

Lemma send_each_bal ts : forall s self n k s' o,
  send_each s self ts n k = (s', o) -> pending s' + deadc o = pending s + bc ts k /\ handc o = 0 /\ sentc o = 0.
Proof.
  induction ts as [|t rest IH]; intros s self n k s' o; cbn [send_each].
  - intros H; inversion H; subst. unfold deadc, sentc, handc, bc; cbn [map list_sum fold_right]; lia.
  - destruct (deliver_user s t self (UProbe n k)) as [s1 o1] eqn:E1.
    destruct (send_each s1 self rest n k) as [s2 o2] eqn:E2.
    intros H; inversion H; subst. apply deliver_user_bal in E1. apply IH in E2.
    rewrite sentc_app, handc_app, deadc_app.
    assert (Hb : bc (t :: rest) k = nsys t * (if Nat.eqb k sn then 1 else 0) + bc rest k) by reflexivity.
    rewrite Hb. cbn [is_probe] in *. lia.
Qed.

Lemma sentc_bcast self ts k : sentc (map (fun t => OS self t k) ts) = bc ts k.
Proof.
  unfold sentc, bc. rewrite map_map. cbn [sent1]. reflexivity.
Qed.
Lemma handc_bcast self ts k : handc (map (fun t => OS self t k) ts) = 0.
Proof. unfold handc. rewrite map_map. cbn [hand1]. induction ts; cbn; auto. Qed.
Lemma deadc_bcast self ts k : deadc (map (fun t => OS self t k) ts) = 0.
Proof. unfold deadc. rewrite map_map. cbn [dead1]. induction ts; cbn; auto. Qed.

Lemma do_action_bal s u snd act s' o p : do_action roles s u snd act = (s', o, p) -> bal s s' o 0.
Proof.
  unfold do_action. destruct (get s u) as [a|]; [|intros H; inversion H; subst; apply bal_refl].
  destruct act.
  - (* ATell *) destruct (next_serial s) as [s1 k] eqn:En.
    assert (Hp : pending s1 = pending s) by (change s1 with (fst (s1, k)); rewrite <- En; reflexivity).
    destruct (deliver_user s1 t rNone (UProbe n k)) as [s2 o2] eqn:E. intros H; inversion H; subst.
    apply deliver_user_bal in E. unfold bal. rewrite sentc_cons, handc_cons, deadc_cons. cbn [sent1 hand1 dead1 is_probe] in *. lia.
  - (* AAsk *) destruct (next_serial s) as [s1 k] eqn:En.
    assert (Hp : pending s1 = pending s) by (change s1 with (fst (s1, k)); rewrite <- En; reflexivity).
    destruct (deliver_user s1 t (a_tok a) (UProbe n k)) as [s2 o2] eqn:E. intros H; inversion H; subst.
    apply deliver_user_bal in E. unfold bal. rewrite sentc_cons, handc_cons, deadc_cons. cbn [sent1 hand1 dead1 is_probe] in *. lia.
  - (* AReply *) destruct (next_serial s) as [s1 k] eqn:En.
    assert (Hp : pending s1 = pending s) by (change s1 with (fst (s1, k)); rewrite <- En; reflexivity).
    destruct (deliver_user s1 snd (a_tok a) (UProbe n k)) as [s2 o2] eqn:E. intros H; inversion H; subst.
    apply deliver_user_bal in E. unfold bal. rewrite sentc_cons, handc_cons, deadc_cons. cbn [sent1 hand1 dead1 is_probe] in *. lia.
  - (* ABcast *) destruct (next_serial s) as [s1 k] eqn:En.
    assert (Hp : pending s1 = pending s) by (change s1 with (fst (s1, k)); rewrite <- En; reflexivity).
    destruct (send_each s1 (a_tok a) (a_children a) n k) as [s2 o2] eqn:E. intros H; inversion H; subst.
    apply send_each_bal in E. unfold bal. rewrite sentc_app, handc_app, deadc_app, sentc_bcast, handc_bcast, deadc_bcast. lia.
  - (* ASpawn *) destruct (spawn s u (a_tok a) t r) as [[s1 o1] p1] eqn:E. intros H; inversion H; subst.
    apply spawn_bal in E. unfold bal in *. rewrite sentc_cons, handc_cons, deadc_cons. cbn [sent1 hand1 dead1]. lia.
  - (* ATerm *) destruct (terminate s (a_tok a) t g) as [s1 o1] eqn:E. intros H; inversion H; subst.
    apply terminate_bal in E. unfold bal. rewrite sentc_cons, handc_cons, deadc_cons. cbn [sent1 hand1 dead1]. lia.
  - (* AWatch *) intros H; inversion H; subst. apply bal_quiet; try reflexivity. apply deliver_sys_pending.
  - (* AUnwatch *) intros H; inversion H; subst. apply bal_quiet; try reflexivity. apply deliver_sys_pending.
  - (* AReport *) destruct (report_abnormal roles s u) as [[s1 o1] p1] eqn:E. intros H; inversion H; subst.
    apply report_abnormal_bal in E. unfold bal in *. rewrite sentc_cons, handc_cons, deadc_cons. cbn [sent1 hand1 dead1]. lia.
  - (* APanic *) intros H; inversion H; subst. apply bal_quiet; reflexivity.
Qed.

Lemma do_actions_bal acts : forall s u snd s' o p, do_actions roles s u snd acts = (s', o, p) -> bal s s' o 0.
Proof.
  induction acts as [|act rest IH]; intros s u snd s' o p; cbn [do_actions].
  - intros H; inversion H; subst. apply bal_refl.
  - apply bind_bal.
    + intros s1 o1 p1 E. eapply do_action_bal; exact E.
    + intros s1 s2 o2 p2 E. eapply IH; exact E.
Qed.

Definition hp (t : trig) (k : nat) : nat := match t with TP _ => if Nat.eqb k sn then 1 else 0 | _ => 0 end.

Lemma handle_q_bal q s u t k snd s' o p :
  handle_q roles q s u t k snd = (s', o, p) ->
  (exists a, get s u = Some a /\ bal s s' o (if q then 0 else wt (a_tok a) * hp t k)) \/ (bal s s' o 0 /\ get s u = None).
Proof.
  unfold handle_q. destruct (get s u) as [a|]; [|intros H; inversion H; subst; right; split; [apply bal_refl|reflexivity]].
  destruct q.
  - intros H; inversion H; subst. left. exists a. split; [reflexivity|apply bal_refl].
  - destruct (do_actions roles s u snd (find_rule (rules (role_of roles a)) t (a_inst a))) as [[s1 o1] p1] eqn:E.
    intros H; inversion H; subst. left. exists a. split; [reflexivity|]. apply do_actions_bal in E. unfold bal in *.
    rewrite sentc_cons, handc_cons, deadc_cons. cbn [sent1 dead1]. unfold hand1, hp. destruct t; try lia; destruct (Nat.eqb k sn); lia.
Qed.

(* lifecycle handlers never consume a user message *)
Lemma handle_life_bal s u t snd s' o p :
  (forall n, t <> TP n) -> handle roles s u t 0 snd = (s', o, p) -> bal s s' o 0.
Proof.
  intros Ht. unfold handle. destruct (get s u) as [a|]; [|intros H; inversion H; subst; apply bal_refl].
  intros H. apply handle_q_bal in H. destruct H as [(a' & _ & H)|[H _]]; [|exact H].
  destruct (is_sys (a_tok a)); [exact H|]. destruct t; cbn [hp] in H; rewrite ?Nat.mul_0_r in H; try exact H. exfalso. eapply Ht. reflexivity.
Qed.

Lemma set_closed_pending s b c : pending {| actors := actors s; registry := registry s; provided := provided s; serial := serial s;
                                           closed := b; crashed := c |} = pending s.
Proof. reflexivity. Qed.

Lemma try_terminated_bal s u snd s' o p : try_terminated roles s u snd = (s', o, p) -> bal s s' o 0.
Proof.
  unfold try_terminated. destruct (get s u) as [a|]; [|intros H; inversion H; subst; apply bal_refl].
  destruct (a_children a); [|intros H; inversion H; subst; apply bal_refl].
  destruct (a_st a); try (intros H; inversion H; subst; apply bal_refl).
  apply bind_bal.
  - intros s1 o1 p1 E. apply handle_life_bal in E; [|intros n; discriminate].
    unfold bal in *. rewrite pending_upd_actor in E by keep. exact E.
  - intros s1 s2 o2 p2. destruct (Z.eqb (a_parent a) rNone); intros H; inversion H; subst; apply bal_quiet; try reflexivity.
    + rewrite set_closed_pending, notify_all_pending. reflexivity.
    + rewrite deliver_sys_pending, notify_all_pending. reflexivity.
Qed.

Lemma start_instance_bal s u self parent s' o p : start_instance roles s u self parent = (s', o, p) -> bal s s' o 0.
Proof.
  unfold start_instance. destruct (handle roles s u TRD 0 self) as [[s1 o1] p1] eqn:E1.
  destruct (handle roles s1 u TL 0 parent) as [[s2 o2] p2] eqn:E2. intros H; inversion H; subst.
  apply handle_life_bal in E1; [|intros n; discriminate]. apply handle_life_bal in E2; [|intros n; discriminate].
  unfold bal in *. rewrite sentc_app, handc_app, deadc_app.
  destruct p2; [lia|rewrite pending_upd_actor by keep; lia].
Qed.

Lemma try_restarted_bal s u snd s' o p : try_restarted roles s u snd = (s', o, p) -> bal s s' o 0.
Proof.
  unfold try_restarted. destruct (get s u) as [a|]; [|intros H; inversion H; subst; apply bal_refl].
  destruct (a_children a); [|intros H; inversion H; subst; apply bal_refl].
  destruct (a_st a); try (intros H; inversion H; subst; apply bal_refl).
  destruct (provide s (a_tok a)) as [s0 inst] eqn:Ep.
  assert (H0 : pending s0 = pending s) by (change s0 with (fst (s0, inst)); rewrite <- Ep; reflexivity).
  intros H. cut (bal s0 s' o 0); [unfold bal; rewrite H0; trivial|]. revert H.
  apply bind_bal.
  - intros s1 o1 p1 E. apply handle_life_bal in E; [exact E|intros n; discriminate].
  - intros s1 s2 o2 p2. apply bind_bal.
    + intros s3 o3 p3 E. apply handle_life_bal in E; [exact E|intros n; discriminate].
    + intros s3 s4 o4 p4.
      intros H. apply start_instance_bal in H. unfold bal in *.
      rewrite deliver_sys_pending in H. rewrite pending_upd_actor in H by keep. lia.
Qed.

Lemma apply_directive_bal s u r d snd s' o p : apply_directive roles s u r d snd = (s', o, p) -> bal s s' o 0.
Proof.
  unfold apply_directive. destruct (get s u) as [a|]; [|intros H; inversion H; subst; apply bal_refl].
  destruct d.
  - intros H; inversion H; subst. apply bal_quiet; try reflexivity. apply deliver_sys_pending.
  - destruct (terminate s (a_tok a) (ar_vref r) false) as [s1 o1] eqn:E1.
    destruct (try_terminated roles s1 u snd) as [[s2 o2] p2] eqn:E2. intros H; inversion H; subst.
    apply terminate_bal in E1. apply try_terminated_bal in E2. unfold bal in *.
    rewrite sentc_cons, handc_cons, deadc_cons, !sentc_app, !handc_app, !deadc_app. cbn [sent1 hand1 dead1]. lia.
  - intros H; inversion H; subst. apply bal_quiet; try reflexivity. apply deliver_sys_pending.
  - destruct (escalate s u r) as [[s1 o1] p1] eqn:E. intros H; inversion H; subst. apply escalate_bal in E.
    unfold bal in *. rewrite sentc_cons, handc_cons, deadc_cons. cbn [sent1 hand1 dead1]. lia.
  - intros H; inversion H; subst. apply bal_quiet; try reflexivity. apply restart_all_pending.
Qed.

Lemma on_accident_bal s u r snd s' o p : on_accident roles s u r snd = (s', o, p) -> bal s s' o 0.
Proof.
  unfold on_accident. destruct (get s u) as [a|]; [|intros H; inversion H; subst; apply bal_refl].
  destruct (ar_strategy r); [apply apply_directive_bal|].
  destruct (sup (role_of roles a)); [apply escalate_bal | apply apply_directive_bal].
Qed.

Lemma process_sys_bal s u e s' o p : process_sys roles s u e = (s', o, p) -> bal s s' o 0.
Proof.
  unfold process_sys. destruct (get s u) as [a|] eqn:Ea; [|intros H; inversion H; subst; apply bal_refl].
  match goal with |- context [if ?d then _ else _] => destruct d end; [intros H; inversion H; subst; apply bal_refl|].
  destruct (e_msg e).
  - (* SLaunch *) apply bind_bal.
    + intros s1 o1 p1 E. apply handle_life_bal in E; [exact E|intros n; discriminate].
    + intros s1 s2 o2 p2 H; inversion H; subst. apply bal_quiet; try reflexivity. apply pending_upd_actor; keep.
  - (* SRestarted *) intros H. apply handle_life_bal in H; [exact H|intros n; discriminate].
  - (* STerminate *)
    assert (HT : forall s0, pending s0 = pending s ->
      (handle roles s0 u TT 0 (e_snd e) >>= (fun s3 =>
         match get s3 u with
         | None => ok s3 []
         | Some a3 =>
             let '(s4, o4) := terminate_all s3 (a_tok a3) (a_children a3) (g || a_graceful a3) in
             let '(s5, o5, p) := try_terminated roles s4 u (e_snd e) in (s5, o4 ++ o5, p)
         end)) = (s', o, p) -> bal s s' o 0).
    { intros s0 H0. apply bind_bal.
      - intros s1 o1 p1 E. apply handle_life_bal in E; [|intros n; discriminate]. unfold bal in *. lia.
      - intros s1 s2 o2 p2. destruct (get s1 u) as [a3|]; [|intros H; inversion H; subst; apply bal_refl].
        destruct (terminate_all s1 (a_tok a3) (a_children a3) (g || a_graceful a3)) as [s4 o4] eqn:E4.
        destruct (try_terminated roles s4 u (e_snd e)) as [[s5 o5] p5] eqn:E5. intros H; inversion H; subst.
        apply terminate_all_bal in E4. apply try_terminated_bal in E5. unfold bal in *.
        rewrite sentc_app, handc_app, deadc_app. lia. }
    destruct (a_st a); try (intros H; inversion H; subst; apply bal_refl);
      apply HT; rewrite deliver_sys_pending; apply pending_upd_actor; keep.
  - (* STerminatedOf *) apply bind_bal.
    + intros s1 o1 p1 E. apply handle_life_bal in E; [|intros n; destruct (Z.eqb who (a_tok a)); discriminate].
      unfold bal in *. rewrite pending_drop_child in E. exact E.
    + intros s1 s2 o2 p2. destruct (get s1 u) as [a2|]; [|intros H; inversion H; subst; apply bal_refl].
      destruct (a_st a2); try (intros H; inversion H; subst; apply bal_refl).
      * apply try_restarted_bal.
      * apply try_terminated_bal.
  - (* SRestart *) destruct (a_st a); try (intros H; inversion H; subst; apply bal_refl).
    apply bind_bal.
    + intros s1 o1 p1 E. apply handle_life_bal in E; [|intros n; discriminate].
      unfold bal in *. rewrite deliver_sys_pending in E. rewrite pending_upd_actor in E by keep. exact E.
    + intros s1 s2 o2 p2. destruct (get s1 u) as [a2|]; [|intros H; inversion H; subst; apply bal_refl].
      destruct (terminate_all s1 (a_tok a2) (a_children a2) false) as [s3 o3] eqn:E3.
      destruct (try_restarted roles s3 u (e_snd e)) as [[s4 o4] p4] eqn:E4. intros H; inversion H; subst.
      apply terminate_all_bal in E3. apply try_restarted_bal in E4. unfold bal in *.
      rewrite sentc_app, handc_app, deadc_app. lia.
  - (* SAccident *) apply on_accident_bal.
  - (* SWatch *) destruct (e_snd e =? a_parent a)%Z; [intros H; inversion H; subst; apply bal_refl|].
    destruct (st_ge_terminating (a_st a)); intros H; inversion H; subst; apply bal_quiet; try reflexivity.
    + apply deliver_sys_pending.
    + apply pending_upd_actor; keep.
  - (* SUnwatch *) intros H; inversion H; subst. apply bal_quiet; try reflexivity. apply pending_upd_actor; keep.
  - intros H; inversion H; subst. apply bal_refl.
  - intros H; inversion H; subst. apply bal_refl.
  - (* SResumeReq *) destruct (a_st a); intros H; inversion H; subst; try apply bal_refl.
    apply bal_quiet; try reflexivity. apply deliver_sys_pending.
Qed.

(* the user message e has been taken out of the mailbox by the caller *)
Lemma process_user_bal s u e s' o p :
  get s u <> None -> (forall a, get s u = Some a -> is_sys (e_rcv e) = false -> wt (a_tok a) = wt (e_rcv e)) ->
  process_user roles s u e = (s', o, p) -> bal s s' o (pend_env e).
Proof.
  intros Hg Hw. unfold process_user. destruct (get s u) as [a|] eqn:Ea; [|congruence].
  destruct (st_ge_terminating (a_st a)).
  - destruct (abyss_user s (e_snd e) (e_rcv e) (e_msg e)) as [s1 o1] eqn:E. intros H; inversion H; subst.
    apply abyss_user_bal in E. unfold bal, pend_env. lia.
  - unfold pend_env. destruct (e_msg e) as [n k| |]; cbn [is_probe].
    + intros H. apply handle_q_bal in H. destruct H as [(a' & Ha' & H)|[_ H]]; [|congruence].
      rewrite Ea in Ha'. inversion Ha'; subst a'. unfold nsys. destruct (is_sys (e_rcv e)) eqn:Es; [unfold bal, hp in *; lia|].
      rewrite <- (Hw a eq_refl eq_refl). unfold bal, hp in *. destruct (Nat.eqb k sn); lia.
    + intros H; inversion H; subst. unfold bal. rewrite deliver_sys_pending. rewrite pending_upd_actor by keep.
      unfold sentc, handc, deadc; cbn [map list_sum fold_right]. lia.
    + intros H; inversion H; subst. unfold bal, sentc, handc, deadc; cbn [map list_sum fold_right]. lia.
Qed.

(* QW: the in-flight user message of every object weighs as much under its receiver field as under the address of the
   object holding it (trivial for a constant weight; for an indicator weight it follows from "addressed to the holder") *)
Definition QW (s : kstate) : Prop :=
  forall u a e, get s u = Some a -> a_inflight a = Some (MU e) -> is_sys (e_rcv e) = false -> wt (a_tok a) = wt (e_rcv e).

Lemma run_actor_bal s u s' o : QW s -> run_actor roles s u = Some (s', o) -> bal s s' o 0.
Proof.
  intros HQ. unfold run_actor. destruct (get s u) as [a|] eqn:Ea; [|discriminate].
  destruct (a_inflight a) as [m|] eqn:Em; [|discriminate].
  set (s0 := upd_actor s u (w_inflight None)).
  assert (H0 : pending s0 + pend_inflight (Some m) = pending s).
  { unfold s0, upd_actor. rewrite Ea. pose proof (pending_put s u a (w_inflight None a) Ea) as H.
    unfold pend_actor in H at 1 2. cbn [a_userq a_inflight w_inflight] in H. rewrite Em in H.
    cbn [pend_inflight] in *. lia. }
  assert (Hg0 : get s0 u <> None).
  { unfold s0, upd_actor. rewrite Ea. unfold get, put, set_actors; cbn [actors]. unfold get in Ea.
    intros Hn. apply nth_error_None in Hn. rewrite upd_length in Hn.
    assert (u < length (actors s)) by (apply nth_error_Some; congruence). lia. }
  destruct m as [e|e].
  - destruct (process_sys roles s0 u e) as [[s1 o1] p] eqn:E1. apply process_sys_bal in E1.
    cbn [pend_inflight] in H0. destruct p.
    + destruct (crashed s1).
      * intros H; inversion H; subst. unfold bal in *. lia.
      * destruct (report_abnormal roles s1 u) as [[s2 o2] p2] eqn:E2. intros H; inversion H; subst.
        apply report_abnormal_bal in E2. unfold bal in *. rewrite sentc_app, handc_app, deadc_app. lia.
    + intros H; inversion H; subst. unfold bal in *. lia.
  - destruct (process_user roles s0 u e) as [[s1 o1] p] eqn:E1. apply process_user_bal in E1; [|exact Hg0|].
    2:{ intros a0 Ha0 Hs. unfold s0 in Ha0. rewrite (get_upd_actor_same s u (w_inflight None) a Ea) in Ha0. inversion Ha0; subst a0.
        cbn [a_tok w_inflight]. eapply HQ; eassumption. }
    cbn [pend_inflight] in H0. destruct p.
    + destruct (crashed s1).
      * intros H; inversion H; subst. unfold bal in *. lia.
      * destruct (report_abnormal roles s1 u) as [[s2 o2] p2] eqn:E2. intros H; inversion H; subst.
        apply report_abnormal_bal in E2. unfold bal in *. rewrite sentc_app, handc_app, deadc_app. lia.
    + intros H; inversion H; subst. unfold bal in *. lia.
Qed.

Lemma pop1_pend a : pend_actor (pop1 a) = pend_actor a.
Proof.
  unfold pop1. destruct (a_inflight a) eqn:Ei; [reflexivity|].
  destruct (a_sysq a) eqn:Es.
  - destruct (a_susp a); [reflexivity|]. destruct (a_userq a) eqn:Eu; [reflexivity|].
    unfold pend_actor. cbn [a_userq a_inflight w_userq w_inflight]. rewrite Ei, Eu. unfold list_sum. cbn [map fold_right pend_inflight]. lia.
  - unfold pend_actor. cbn [a_userq a_inflight w_sysq w_inflight]. rewrite Ei. cbn [pend_inflight]. lia.
Qed.

Lemma normalize_pending s : pending (normalize s) = pending s.
Proof.
  unfold normalize, pending, set_actors; cbn [actors]. unfold pend_list. rewrite map_map.
  f_equal. apply map_ext. intros a. apply pop1_pend.
Qed.

Lemma bal_normalize s s' o : bal s s' o 0 -> bal s (normalize s') o 0.
Proof. unfold bal. rewrite normalize_pending. auto. Qed.

Theorem kstep_bal s l s' o : QW s -> kstep roles s l = Some (s', o) -> bal s s' o 0.
Proof.
  intros HQ. destruct l; cbn [kstep].
  - destruct (run_actor roles s (Z.to_nat u)) as [[s1 o1]|] eqn:E; [|discriminate].
    intros H; inversion H; subst. apply bal_normalize. eapply run_actor_bal; [exact HQ|exact E].
  - destruct (next_serial s) as [s1 k] eqn:En.
    assert (Hp : pending s1 = pending s) by (change s1 with (fst (s1, k)); rewrite <- En; reflexivity).
    destruct (deliver_user s1 t rNone (UProbe n k)) as [s2 o2] eqn:E. intros H; inversion H; subst.
    apply bal_normalize. apply deliver_user_bal in E. unfold bal. rewrite sentc_cons, handc_cons, deadc_cons.
    cbn [sent1 hand1 dead1 is_probe] in *. lia.
  - destruct (next_serial s) as [s1 k] eqn:En.
    assert (Hp : pending s1 = pending s) by (change s1 with (fst (s1, k)); rewrite <- En; reflexivity).
    destruct (deliver_user s1 t rGuard (UProbe n k)) as [s2 o2] eqn:E. intros H; inversion H; subst.
    apply bal_normalize. apply deliver_user_bal in E. unfold bal. rewrite sentc_cons, handc_cons, deadc_cons.
    cbn [sent1 hand1 dead1 is_probe] in *. lia.
  - destruct (terminate s rGuard t g) as [s1 o1] eqn:E. intros H; inversion H; subst.
    apply bal_normalize. apply terminate_bal in E. unfold bal. rewrite sentc_cons, handc_cons, deadc_cons. cbn [sent1 hand1 dead1]. lia.
  - destruct (spawn s guard_uid rGuard t r) as [[s1 o1] p] eqn:E. intros H; inversion H; subst.
    apply bal_normalize. apply spawn_bal in E. unfold bal in *.
    rewrite sentc_cons, handc_cons, deadc_cons, sentc_app, handc_app, deadc_app. cbn [sent1 hand1 dead1].
    destruct p; unfold sentc, handc, deadc in *; cbn [map list_sum fold_right sent1 hand1 dead1]; lia.
  - destruct (terminate s rGuard rGuard g) as [s1 o1] eqn:E. intros H; inversion H; subst.
    apply bal_normalize. apply terminate_bal in E. unfold bal. lia.
  - intros H; inversion H; subst. apply bal_quiet; reflexivity.
Qed.

(* whole runs *)
Fixpoint sum_over (f : list obs -> nat) (os : list (list obs)) : nat :=
  match os with [] => 0 | o :: t => f o + sum_over f t end.

(* P: any predicate on states that is preserved by the steps of the kernel and implies QW *)
Theorem krun_conservation (P : kstate -> Prop)
  (P_step : forall s l s' o, P s -> kstep roles s l = Some (s', o) -> P s') (P_QW : forall s, P s -> QW s) ls : forall s s' os,
  P s -> krun roles s ls = Some (s', os) ->
  pending s' + sum_over handc os + sum_over deadc os = pending s + sum_over sentc os.
Proof.
  induction ls as [|l t IH]; intros s s' os HP; cbn [krun].
  - intros H; inversion H; subst. cbn. lia.
  - destruct (kstep roles s l) as [[s1 o]|] eqn:E; [|discriminate].
    destruct (krun roles s1 t) as [[s2 os2]|] eqn:E2; [|discriminate].
    intros H; inversion H; subst. pose proof (P_step _ _ _ _ HP E) as HP1. apply kstep_bal in E; [|apply P_QW; exact HP].
    apply (IH _ _ _ HP1) in E2. unfold bal in E. cbn [sum_over]. lia.
Qed.

End Cons.

(* from the initial system (no message anywhere): for every serial, over every run,
   sent = handled + dead-lettered + still pending, counting messages addressed to user actors *)
Definition w1 (_ : ref) : nat := 1.      (* every receiver *)

Theorem conservation_from_init roles sn ls s' os :
  krun roles kinit ls = Some (s', os) ->
  sum_over (sentc sn w1) os = sum_over (handc sn w1) os + sum_over (deadc sn w1) os + pending sn w1 s'.
Proof.
  intros H. apply (krun_conservation roles sn w1 (fun _ => True)) in H; [cbn in H; lia| | |exact I].
  - intros; exact I.
  - intros s _ u a e _ _ _. reflexivity.
Qed.
