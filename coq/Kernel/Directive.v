(* MV.Kernel.Directive — C04, "exactly the decided directive takes effect", one step at a time, for every role table and
   from ANY state:

   (1) directive_step: the step in which a supervisor object handles an accident record decides what the configuration
       says — the victim's own strategy when it has one, otherwise the supervisor's list of directives indexed by the
       victim's accident count (the last entry once the list is exhausted: the restart limit), otherwise (no strategy
       anywhere) the record is escalated — shows that decision as the first observation of the step, and puts exactly the
       message that carries the directive, from the supervisor, into the mailbox of the object registered under the
       victim's address: a restart request for Restart, a resume request for Resume, a non-graceful terminate request for
       Stop, a restart request to every registered child for "restart all", and for Escalate (or no strategy) the SAME
       record — victim object, victim address, victim strategy unchanged — into the mailbox of the object registered under
       the supervisor's parent; beyond the root the process crashes (OCrash).
   (2) resume_request_applied: the step in which a living actor takes a resume request out of its mailbox leaves it alive
       under the SAME instance number, with its mailbox no longer suspended and its user messages — in flight and queued —
       exactly as they were: "Resume continues with the same instance and the queued messages".
   (3) stop_request_applied: the step in which a living or restarting actor takes a terminate request leaves it
       terminating or terminated.

   Mailboxes only grow at the tail within a step (relation dq through every kernel operation, by the generic frame theorem
   of Kernel.Frame), so "has one more such message afterwards" can be read off the operation that delivers it. *)
From MV Require Import Lib.ListX Kernel.Model Kernel.Lifecycle Kernel.Status Kernel.Registry Kernel.Frame Kernel.Queue Kernel.Watch Kernel.Launch Kernel.Terminate Kernel.Restart.
Open Scope Z_scope.

(* ---------- inside one step: in-flight message untouched, system queue only appended to ---------- *)
Definition dqA (a a' : actor) : Prop := a_inflight a' = a_inflight a /\ exists app, a_sysq a' = a_sysq a ++ app.
Lemma dqA_refl a : dqA a a.
Proof. split; [reflexivity|]. exists []. rewrite app_nil_r. reflexivity. Qed.
Lemma dqA_trans a b c : dqA a b -> dqA b c -> dqA a c.
Proof. intros [I1 (p1 & Q1)] [I2 (p2 & Q2)]. split; [congruence|]. exists (p1 ++ p2). rewrite Q2, Q1, app_assoc. reflexivity. Qed.
Lemma dqA_keep a b : a_inflight b = a_inflight a -> a_sysq b = a_sysq a -> dqA a b.
Proof. intros H1 H2. split; [exact H1|]. exists []. rewrite app_nil_r. exact H2. Qed.
Lemma D_userq a (e : env umsg) : dqA a (w_userq (a_userq a ++ [e]) a). Proof. apply dqA_keep; reflexivity. Qed.
Lemma D_sysq a e : dqA a (w_sysq (a_sysq a ++ [e]) a). Proof. split; [reflexivity|]. exists [e]. reflexivity. Qed.
Lemma D_susp a b : dqA a (w_susp b a). Proof. apply dqA_keep; reflexivity. Qed.
Lemma D_children a x : dqA a (w_children x a). Proof. apply dqA_keep; reflexivity. Qed.
Lemma D_accidents a x : dqA a (w_accidents x a). Proof. apply dqA_keep; reflexivity. Qed.
Lemma D_st a x : dqA a (w_st x a). Proof. apply dqA_keep; reflexivity. Qed.
Lemma D_inst a x : dqA a (w_inst x a). Proof. apply dqA_keep; reflexivity. Qed.
Lemma D_watchers a x : dqA a (w_watchers x a). Proof. apply dqA_keep; reflexivity. Qed.
Lemma D_graceful a x : dqA a (w_graceful x a). Proof. apply dqA_keep; reflexivity. Qed.

Definition dq := fr dqA.
Lemma dq_refl s : dq s s. Proof. apply fr_refl, dqA_refl. Qed.
Lemma dq_trans a b c : dq a b -> dq b c -> dq a c. Proof. apply fr_trans, dqA_trans. Qed.

(* ---------- counting the messages of one kind in a mailbox (in flight, then queued) ---------- *)
Definition cnt (P : env smsg -> bool) (a : actor) : nat := length (filter P (msgs a)).
Lemma cnt_dqA P a a' : dqA a a' -> (cnt P a <= cnt P a')%nat.
Proof. intros [I (p & Q)]. unfold cnt, msgs. rewrite I, Q. rewrite !filter_app, !app_length. lia. Qed.
Lemma cnt_pop1 P a : cnt P (pop1 a) = cnt P a.
Proof. unfold cnt. rewrite msgs_pop1. reflexivity. Qed.

(* the mailbox of object v has one more message satisfying P *)
Definition gains (P : env smsg -> bool) (v : nat) (s s' : kstate) : Prop :=
  forall b, get s v = Some b -> exists b', get s' v = Some b' /\ (cnt P b + 1 <= cnt P b')%nat.
Lemma gains_pre P v s1 s2 s3 : dq s1 s2 -> gains P v s2 s3 -> gains P v s1 s3.
Proof.
  intros Q G b Hb. destruct (Q v b Hb) as (b2 & G2 & X2). destruct (G b2 G2) as (b3 & G3 & N3).
  exists b3. split; [exact G3|]. pose proof (cnt_dqA P _ _ X2). lia.
Qed.
Lemma gains_post P v s1 s2 s3 : gains P v s1 s2 -> dq s2 s3 -> gains P v s1 s3.
Proof.
  intros G Q b Hb. destruct (G b Hb) as (b2 & G2 & N2). destruct (Q v b2 G2) as (b3 & G3 & X3).
  exists b3. split; [exact G3|]. pose proof (cnt_dqA P _ _ X3). lia.
Qed.
Lemma gains_normalize P v s s' : gains P v s s' -> gains P v s (normalize s').
Proof.
  intros G b Hb. destruct (G b Hb) as (b' & G' & N). exists (pop1 b'). split; [rewrite get_normalize, G'; reflexivity|].
  rewrite cnt_pop1. exact N.
Qed.

Definition queued_kind (m : smsg) : bool := match m with SSuspend | SResume => false | _ => true end.

Lemma gains_deliver_sys P s t snd m v :
  lookup t (registry s) = Some v -> queued_kind m = true -> P (mk_env snd t m) = true -> gains P v s (deliver_sys s t snd m).
Proof.
  intros Hl Hq HP b Hb. unfold deliver_sys. rewrite Hl. unfold push_sys. cbn [e_msg mk_env].
  assert (E : (fun a : actor => match m with SSuspend => w_susp true a | SResume => w_susp false a
                                | _ => w_sysq (a_sysq a ++ [mk_env snd t m]) a end)
              = (fun a : actor => w_sysq (a_sysq a ++ [mk_env snd t m]) a)).
  { destruct m; try reflexivity; discriminate. }
  rewrite E. eexists. split; [apply get_upd_actor_same; exact Hb|].
  assert (M : msgs (w_sysq (a_sysq b ++ [mk_env snd t m]) b) = msgs b ++ [mk_env snd t m]).
  { unfold msgs. cbn [a_inflight a_sysq w_sysq]. rewrite app_assoc. reflexivity. }
  unfold cnt. rewrite M, filter_app, app_length. cbn [filter]. rewrite HP. cbn [length]. lia.
Qed.

(* ---------- what carries a directive ---------- *)
Definition odir_eqb (a b : option directive) : bool :=
  match a, b with
  | None, None => true
  | Some DRestart, Some DRestart | Some DStop, Some DStop | Some DResume, Some DResume
  | Some DEscalate, Some DEscalate | Some DRestartAll, Some DRestartAll => true
  | _, _ => false
  end.
Definition arec_eqb (r r' : arec) : bool :=
  Nat.eqb (ar_victim r) (ar_victim r') && (ar_vref r =? ar_vref r') && odir_eqb (ar_strategy r) (ar_strategy r').
Lemma arec_eqb_refl r : arec_eqb r r = true.
Proof.
  unfold arec_eqb. rewrite Nat.eqb_refl, Z.eqb_refl. destruct (ar_strategy r) as [[]|]; reflexivity.
Qed.
Lemma arec_eqb_eq r r' : arec_eqb r r' = true -> r = r'.
Proof.
  unfold arec_eqb. intros H. apply andb_true_iff in H. destruct H as [H H3]. apply andb_true_iff in H. destruct H as [H1 H2].
  apply Nat.eqb_eq in H1. apply Z.eqb_eq in H2. destruct r as [v1 t1 s1], r' as [v2 t2 s2]. cbn in *. subst.
  destruct s1 as [[]|], s2 as [[]|]; try discriminate; reflexivity.
Qed.

(* a message from [self] to address [t] that carries directive d *)
Definition carries (d : directive) (self t : ref) (e : env smsg) : bool :=
  (e_snd e =? self) && (e_rcv e =? t) &&
  match d, e_msg e with
  | DRestart, SRestart | DRestartAll, SRestart | DResume, SResumeReq | DStop, STerminate false => true
  | _, _ => false
  end.
(* a message from [self] to address [t] that hands on the accident record r, unchanged *)
Definition carries_rec (r : arec) (self t : ref) (e : env smsg) : bool :=
  (e_snd e =? self) && (e_rcv e =? t) && match e_msg e with SAccident r' => arec_eqb r r' | _ => false end.

Section D.
Variable roles : list role.

Lemma dq_run_inner s0 u m s' o : run_inner roles s0 u m = (s', o) -> dq s0 s'.
Proof. apply (fr_run_inner dqA dqA_refl dqA_trans D_userq D_sysq D_susp D_children D_accidents D_st D_inst D_watchers D_graceful). Qed.
Lemma dq_deliver_sys s t snd m : dq s (deliver_sys s t snd m).
Proof. apply (fr_deliver_sys dqA dqA_refl D_sysq D_susp). Qed.
Lemma dq_try_terminated s u snd s' o p : try_terminated roles s u snd = (s', o, p) -> dq s s'.
Proof. apply (fr_try_terminated dqA dqA_refl dqA_trans D_userq D_sysq D_susp D_children D_accidents D_st). Qed.
Lemma dq_restart_all cs s self : dq s (restart_all s self cs).
Proof. apply (fr_restart_all dqA dqA_refl dqA_trans D_sysq D_susp). Qed.

Definition acc_count (s : kstate) (r : arec) : nat :=
  match get s (ar_victim r) with Some v => a_accidents v | None => 0%nat end.

(* what the configuration says: the victim's own strategy, else the supervisor's directive list indexed by the victim's
   accident count (its last entry from then on), else nothing: escalate *)
Definition decision (a : actor) (r : arec) (count : nat) : option directive :=
  match ar_strategy r with
  | Some d => Some d
  | None => match sup (role_of roles a) with [] => None | l => Some (nth_dir l (count - 1)) end
  end.

(* the record goes to the parent unchanged; beyond the root the process crashes *)
Definition escalated (a : actor) (r : arec) (s s' : kstate) (o : list obs) : Prop :=
  (a_parent a <> rNone -> forall v, lookup (a_parent a) (registry s) = Some v -> gains (carries_rec r (a_tok a) (a_parent a)) v s s') /\
  (a_parent a = rNone -> crashed s' = true /\ In OCrash o).

Definition effect (d : directive) (a : actor) (r : arec) (s s' : kstate) (o : list obs) : Prop :=
  match d with
  | DRestart | DResume | DStop =>
      forall v, lookup (ar_vref r) (registry s) = Some v -> gains (carries d (a_tok a) (ar_vref r)) v s s'
  | DRestartAll =>
      forall c v, In c (a_children a) -> lookup c (registry s) = Some v -> gains (carries DRestartAll (a_tok a) c) v s s'
  | DEscalate => escalated a r s s' o
  end.

Lemma escalate_effect s u a r s' o p :
  get s u = Some a -> escalate s u r = (s', o, p) -> escalated a r s s' o.
Proof.
  intros Ha. unfold escalate. rewrite Ha. destruct (a_parent a =? rNone) eqn:Ep.
  - apply Z.eqb_eq in Ep. intros H; inversion H; subst. split; [intros N; contradiction|]. intros _. split; [reflexivity|left; reflexivity].
  - apply Z.eqb_neq in Ep. intros H; inversion H; subst. split; [|intros N; contradiction].
    intros _ v Hl. apply gains_deliver_sys; [exact Hl|reflexivity|].
    unfold carries_rec, mk_env. cbn [e_snd e_rcv e_msg]. rewrite !Z.eqb_refl, arec_eqb_refl. reflexivity.
Qed.

Lemma regsame_deliver_sys s t snd m : regsame s (deliver_sys s t snd m).
Proof.
  unfold deliver_sys, push_sys. destruct (lookup t (registry s)); [apply regsame_upd_actor|].
  destruct m; try apply regsame_refl. destruct (lookup snd (registry s)); [apply regsame_upd_actor|apply regsame_refl].
Qed.

Lemma restart_all_effect cs : forall s self c v,
  In c cs -> lookup c (registry s) = Some v -> gains (carries DRestartAll self c) v s (restart_all s self cs).
Proof.
  induction cs as [|x cs IH]; intros s self c v Hin Hl; [contradiction|]. cbn [restart_all].
  destruct (Z.eq_dec x c) as [->|Hne].
  - eapply gains_post; [|apply dq_restart_all]. apply gains_deliver_sys; [exact Hl|reflexivity|].
    unfold carries, mk_env. cbn [e_snd e_rcv e_msg]. rewrite !Z.eqb_refl. reflexivity.
  - destruct Hin as [->|Hin]; [contradiction|]. eapply gains_pre; [apply dq_deliver_sys|].
    apply IH; [exact Hin|]. rewrite (regsame_deliver_sys s x self SRestart). exact Hl.
Qed.

Lemma apply_directive_effect s u a r d snd s' o p :
  get s u = Some a -> apply_directive roles s u r d snd = (s', o, p) ->
  hd_error o = Some (ODec (a_tok a) (ar_vref r) d (acc_count s r)) /\ effect d a r s s' o.
Proof.
  intros Ha. unfold apply_directive. rewrite Ha. fold (acc_count s r). destruct d; cbn [effect].
  - intros H; inversion H; subst. split; [reflexivity|]. intros v Hl. apply gains_deliver_sys; [exact Hl|reflexivity|].
    unfold carries, mk_env. cbn [e_snd e_rcv e_msg]. rewrite !Z.eqb_refl. reflexivity.
  - unfold terminate. destruct (try_terminated roles (deliver_sys s (ar_vref r) (a_tok a) (STerminate false)) u snd) as [[s2 o2] p2] eqn:E.
    intros H; inversion H; subst. split; [reflexivity|]. intros v Hl. eapply gains_post; [|eapply dq_try_terminated; exact E].
    apply gains_deliver_sys; [exact Hl|reflexivity|]. unfold carries, mk_env. cbn [e_snd e_rcv e_msg]. rewrite !Z.eqb_refl. reflexivity.
  - intros H; inversion H; subst. split; [reflexivity|]. intros v Hl. apply gains_deliver_sys; [exact Hl|reflexivity|].
    unfold carries, mk_env. cbn [e_snd e_rcv e_msg]. rewrite !Z.eqb_refl. reflexivity.
  - destruct (escalate s u r) as [[s1 o1] p1] eqn:E. intros H; inversion H; subst. split; [reflexivity|].
    destruct (escalate_effect s u a r s' o1 p Ha E) as [E1 E2]. split; [exact E1|]. intros N. destruct (E2 N) as [C I]. split; [exact C|right; exact I].
  - intros H; inversion H; subst. split; [reflexivity|]. intros c v Hin Hl. apply restart_all_effect; assumption.
Qed.

Lemma on_accident_effect s u a r snd s' o p :
  get s u = Some a -> on_accident roles s u r snd = (s', o, p) ->
  match decision a r (acc_count s r) with
  | Some d => hd_error o = Some (ODec (a_tok a) (ar_vref r) d (acc_count s r)) /\ effect d a r s s' o
  | None => escalated a r s s' o
  end.
Proof.
  intros Ha. unfold on_accident, decision. rewrite Ha. destruct (ar_strategy r) as [d|].
  - intros H. eapply apply_directive_effect; eassumption.
  - fold (acc_count s r). destruct (sup (role_of roles a)) as [|d0 l].
    + intros H. eapply escalate_effect; eassumption.
    + intros H. eapply apply_directive_effect; eassumption.
Qed.

(* lifting a "gains" fact about the inner step to the whole step, for a message kind the in-flight record is not of *)
Lemma effect_lift P s u a e v s1 :
  get s u = Some a -> a_inflight a = Some (MS e) -> (v = u -> P e = false) ->
  gains P v (upd_actor s u (w_inflight None)) s1 -> gains P v s (normalize s1).
Proof.
  intros Ha Hi HP G. apply gains_normalize. intros b Hb.
  destruct (Nat.eq_dec v u) as [->|Hne].
  - rewrite Ha in Hb. inversion Hb; subst b.
    destruct (G (w_inflight None a) (get_upd_actor_same s u _ a Ha)) as (b' & G' & N). exists b'. split; [exact G'|].
    assert (X : cnt P a = cnt P (w_inflight None a)).
    { unfold cnt, msgs. rewrite Hi. cbn [a_inflight w_inflight a_sysq app filter]. rewrite (HP eq_refl). reflexivity. }
    lia.
  - apply G. unfold upd_actor. rewrite Ha. rewrite get_put_other by congruence. exact Hb.
Qed.

Lemma carries_not_accident d self t e r : e_msg e = SAccident r -> carries d self t e = false.
Proof. intros H. unfold carries. rewrite H. destruct d; apply andb_false_r. Qed.

Lemma acc_count_clear s u a r : get s u = Some a -> acc_count (upd_actor s u (w_inflight None)) r = acc_count s r.
Proof.
  intros Ha. unfold acc_count. destruct (Nat.eq_dec (ar_victim r) u) as [->|Hne].
  - rewrite (get_upd_actor_same s u _ a Ha), Ha. reflexivity.
  - unfold upd_actor. rewrite Ha, get_put_other by congruence. reflexivity.
Qed.

(* the observations of the inner step begin with those of the message handler *)
Lemma run_inner_obs s0 u e s1 o1 p s' o :
  process_sys roles s0 u e = (s1, o1, p) -> run_inner roles s0 u (MS e) = (s', o) -> exists o2, o = o1 ++ o2 /\ dq s1 s' /\ (crashed s1 = true -> s' = s1).
Proof.
  intros E. unfold run_inner. rewrite E. destruct p.
  - destruct (crashed s1) eqn:C.
    + intros H; inversion H; subst. exists []. rewrite app_nil_r. split; [reflexivity|]. split; [apply dq_refl|reflexivity].
    + destruct (report_abnormal roles s1 u) as [[s2 o2] p2] eqn:E2. intros H; inversion H; subst. exists o2. split; [reflexivity|].
      split; [|discriminate].
      eapply (fr_report_abnormal dqA dqA_refl dqA_trans D_sysq D_susp D_accidents); exact E2.
  - intros H; inversion H; subst. exists []. rewrite app_nil_r. split; [reflexivity|]. split; [apply dq_refl|reflexivity].
Qed.

Lemma hd_error_app_some {A} (l l' : list A) x : hd_error l = Some x -> hd_error (l ++ l') = Some x.
Proof. destruct l; [discriminate|]. intros H. exact H. Qed.

(* (1) the step that handles an accident record *)
Theorem directive_step s u a e r s' o :
  get s u = Some a -> a_inflight a = Some (MS e) -> e_msg e = SAccident r -> a_st a <> Terminated ->
  kstep roles s (LRun (Z.of_nat u)) = Some (s', o) ->
  let esc :=
    (a_parent a <> rNone -> forall v, lookup (a_parent a) (registry s) = Some v -> v <> u -> gains (carries_rec r (a_tok a) (a_parent a)) v s s') /\
    (a_parent a = rNone -> crashed s' = true /\ In OCrash o) in
  match decision a r (acc_count s r) with
  | Some d =>
      hd_error o = Some (ODec (a_tok a) (ar_vref r) d (acc_count s r)) /\
      match d with
      | DRestart | DResume | DStop =>
          forall v, lookup (ar_vref r) (registry s) = Some v -> gains (carries d (a_tok a) (ar_vref r)) v s s'
      | DRestartAll =>
          forall c v, In c (a_children a) -> lookup c (registry s) = Some v -> gains (carries DRestartAll (a_tok a) c) v s s'
      | DEscalate => esc
      end
  | None => esc
  end.
Proof.
  intros Ha Hi He Hst Hk esc. cbn [kstep] in Hk. rewrite Nat2Z.id in Hk.
  rewrite (run_actor_inner roles s u a (MS e) Ha Hi) in Hk.
  set (s0 := upd_actor s u (w_inflight None)) in *.
  destruct (run_inner roles s0 u (MS e)) as [s1 o1] eqn:Ein. inversion Hk; subst s' o. clear Hk.
  assert (G0 : get s0 u = Some (w_inflight None a)) by (apply get_upd_actor_same; exact Ha).
  assert (R0 : registry s0 = registry s) by (apply regsame_upd_actor).
  destruct (process_sys roles s0 u e) as [[sp op] pp] eqn:Ep.
  destruct (run_inner_obs _ _ _ _ _ _ _ _ Ep Ein) as (o2 & Eo & Dq & Cr).
  assert (Eacc : on_accident roles s0 u r (e_snd e) = (sp, op, pp)).
  { revert Ep. unfold process_sys. rewrite G0, He. cbn [a_st w_inflight].
    destruct (a_st a); try (intros H; exact H). contradiction Hst; reflexivity. }
  pose proof (on_accident_effect s0 u (w_inflight None a) r (e_snd e) sp op pp G0 Eacc) as X.
  pose proof (acc_count_clear s u a r Ha) as AC. fold s0 in AC. rewrite AC in X.
  change (decision (w_inflight None a) r (acc_count s r)) with (decision a r (acc_count s r)) in X.
  cbn [a_tok a_parent a_children w_inflight] in X.
  assert (ESC : escalated (w_inflight None a) r s0 sp op -> esc).
  { intros [E1 E2]. cbn [a_tok a_parent w_inflight] in E1, E2. split.
    - intros N v Hl Hv. eapply effect_lift; [exact Ha|exact Hi|intros ->; contradiction|].
      eapply gains_post; [|exact Dq]. apply E1; [exact N|rewrite R0; exact Hl].
    - intros N. destruct (E2 N) as [C I]. rewrite (Cr C). split; [exact C|]. rewrite Eo. apply in_or_app. left. exact I. }
  destruct (decision a r (acc_count s r)) as [d|]; [|apply ESC; exact X].
  destruct X as [Hh Hf]. split; [rewrite Eo; apply hd_error_app_some; exact Hh|].
  assert (L : forall d' t v, gains (carries d' (a_tok a) t) v s0 sp -> gains (carries d' (a_tok a) t) v s (normalize s1)).
  { intros d' t v G. eapply effect_lift; [exact Ha|exact Hi|intros _; eapply carries_not_accident; exact He|].
    eapply gains_post; [exact G|exact Dq]. }
  destruct d; cbn [effect] in Hf.
  - intros v Hl. apply L, Hf. rewrite R0. exact Hl.
  - intros v Hl. apply L, Hf. rewrite R0. exact Hl.
  - intros v Hl. apply L, Hf. rewrite R0. exact Hl.
  - apply ESC. exact Hf.
  - intros c v Hin Hl. apply L, Hf; [exact Hin|rewrite R0; exact Hl].
Qed.

(* (2) Resume: same instance, mailbox released, user messages untouched *)
Theorem resume_request_applied s v b e s' o :
  get s v = Some b -> a_inflight b = Some (MS e) -> e_msg e = SResumeReq -> a_st b = Alive ->
  lookup (a_tok b) (registry s) = Some v ->
  kstep roles s (LRun (Z.of_nat v)) = Some (s', o) ->
  o = [] /\ exists b0 : actor, get s' v = Some (pop1 b0) /\ a_susp b0 = false /\
    a_st b0 = Alive /\ a_inst b0 = a_inst b /\ a_tok b0 = a_tok b /\ a_userq b0 = a_userq b /\ a_sysq b0 = a_sysq b /\ a_inflight b0 = None.
Proof.
  intros Hb Hi He Hst Hl Hk. cbn [kstep] in Hk. rewrite Nat2Z.id in Hk.
  rewrite (run_actor_inner roles s v b (MS e) Hb Hi) in Hk.
  set (s0 := upd_actor s v (w_inflight None)) in *.
  assert (G0 : get s0 v = Some (w_inflight None b)) by (apply get_upd_actor_same; exact Hb).
  assert (R0 : registry s0 = registry s) by (apply regsame_upd_actor).
  unfold run_inner in Hk. unfold process_sys in Hk. rewrite G0, He in Hk. cbn [a_st w_inflight a_tok] in Hk. rewrite Hst in Hk.
  cbn [ok] in Hk. inversion Hk; subst s' o. clear Hk. split; [reflexivity|].
  unfold deliver_sys. rewrite R0, Hl. unfold push_sys. cbn [e_msg mk_env].
  exists (w_susp false (w_inflight None b)). split.
  - rewrite get_normalize. rewrite (get_upd_actor_same s0 v _ _ G0). reflexivity.
  - cbn. repeat split; auto.
Qed.

(* (4) Restart: the step in which a living actor takes a restart request shows OnRestarting handled by the present instance
   as its first Handled observation, leaves the actor restarting (it waits for its children) or alive again (the restart
   completed within the step: Kernel.Restart says what that shows, Kernel.Fresh that the instance is a new one), and keeps
   every user message that was in flight or queued, in order, at the front of its mailbox: "Restart replaces the instance ...
   and then handles the queued messages" *)
Theorem restart_request_applied s v b e s' o :
  get s v = Some b -> a_inflight b = Some (MS e) -> e_msg e = SRestart -> a_st b = Alive -> is_sys (a_tok b) = false ->
  kstep roles s (LRun (Z.of_nat v)) = Some (s', o) ->
  exists b', get s' v = Some b' /\ a_tok b' = a_tok b /\ (a_st b' = Restarting \/ a_st b' = Alive) /\
    hd_error (handled o) = Some (OH (a_tok b) (a_inst b) TRG 0%nat rNone) /\
    exists app, seq b' = seq b ++ app.
Proof.
  intros Hb Hi He Hst Hsys Hk. cbn [kstep] in Hk. rewrite Nat2Z.id in Hk.
  rewrite (run_actor_inner roles s v b (MS e) Hb Hi) in Hk.
  set (s0 := upd_actor s v (w_inflight None)) in *.
  assert (G0 : get s0 v = Some (w_inflight None b)) by (apply get_upd_actor_same; exact Hb).
  destruct (run_inner roles s0 v (MS e)) as [s1 o1] eqn:Ein. inversion Hk; subst s' o. clear Hk.
  (* the user messages *)
  pose proof (uq_run_inner roles _ _ _ _ _ Ein) as UQ.
  destruct (uq_seq _ _ v _ UQ G0) as (bq & app & Gq & Sq).
  assert (S0 : seq (w_inflight None b) = seq b).
  { unfold seq, inflight_user. rewrite Hi. reflexivity. }
  rewrite S0 in Sq.
  (* status, address and the first Handled observation *)
  assert (X : exists b1, get s1 v = Some b1 /\ a_tok b1 = a_tok b /\ (a_st b1 = Restarting \/ a_st b1 = Alive) /\
                         hd_error (handled o1) = Some (OH (a_tok b) (a_inst b) TRG 0%nat rNone)).
  { revert Ein. unfold run_inner, process_sys. rewrite G0, He. cbn [a_st w_inflight a_tok]. rewrite Hst.
    set (sa := upd_actor s0 v (w_st Restarting)).
    assert (Ga : get sa v = Some (w_st Restarting (w_inflight None b))) by (apply get_upd_actor_same; exact G0).
    set (sb := deliver_sys sa (a_tok b) (a_tok b) SSuspend).
    destruct (obj_of _ _ v _ (keep_deliver_sys sa (a_tok b) (a_tok b) SSuspend) (id_deliver_sys sa (a_tok b) (a_tok b) SSuspend) Ga) as (a2 & G2 & T2 & I2 & S2).
    cbn [a_tok a_inst a_st w_st w_inflight] in T2, I2, S2.
    destruct (handle roles sb v TRG 0%nat (e_snd e)) as [[s3 o3] p3] eqn:E3.
    assert (Hs2 : is_sys (a_tok a2) = false) by (rewrite T2; exact Hsys).
    destruct (handle_one roles sb v a2 TRG (e_snd e) s3 o3 p3 G2 Hs2 ltac:(intros n; discriminate) E3) as [O3 P3].
    rewrite (P3 ltac:(rewrite S2; reflexivity)). unfold bind.
    destruct (obj_handle roles _ _ _ _ _ _ _ _ _ G2 E3) as (a3 & G3 & T3 & I3 & S3). rewrite G3.
    destruct (terminate_all s3 (a_tok a3) (a_children a3) false) as [s4 o4] eqn:E4.
    destruct (obj_of _ _ v a3 (keep_terminate_all _ _ _ _ _ _ E4) (id_terminate_all _ _ _ _ _ _ E4) G3) as (a4 & G4 & T4 & I4 & S4).
    destruct (try_restarted roles s4 v (e_snd e)) as [[s5 o5] p5] eqn:E5.
    destruct (obj_try_restarted roles _ _ _ _ _ _ _ G4 E5) as (a5 & G5 & T5 & S5).
    assert (ST5 : a_st a5 = Restarting \/ a_st a5 = Alive).
    { destruct S5 as [[_ S5]|[_ S5]]; [left; rewrite S5, S4, S3, S2; reflexivity|right; exact S5]. }
    assert (HD : forall rest, hd_error (handled ((o3 ++ o4 ++ o5) ++ rest)) = Some (OH (a_tok b) (a_inst b) TRG 0%nat rNone)).
    { intros rest. rewrite !handled_app, O3, T2, I2. reflexivity. }
    destruct p5.
    - destruct (crashed s5).
      + intros H; inversion H; subst. exists a5. split; [exact G5|]. split; [congruence|]. split; [exact ST5|].
        rewrite <- (app_nil_r (o3 ++ o4 ++ o5)). apply HD.
      + destruct (report_abnormal roles s5 v) as [[s6 o6] p6] eqn:E6. intros H; inversion H; subst.
        destruct (keep_report_abnormal roles _ _ _ _ _ E6 v a5 G5) as (a6 & G6 & S6 & (T6 & _)).
        exists a6. split; [exact G6|]. split; [congruence|]. split; [rewrite S6; exact ST5|apply HD].
    - intros H; inversion H; subst. exists a5. split; [exact G5|]. split; [congruence|]. split; [exact ST5|].
      rewrite <- (app_nil_r (o3 ++ o4 ++ o5)). apply HD. }
  destruct X as (b1 & G1 & T1 & ST1 & HD1).
  rewrite get_normalize, G1 in Gq. cbn in Gq. inversion Gq; subst bq.
  exists (pop1 b1). split; [rewrite get_normalize, G1; reflexivity|].
  destruct (pop1_id b1) as (Tp & _). split; [congruence|]. split; [rewrite pop1_st; exact ST1|]. split; [exact HD1|].
  exists app. exact Sq.
Qed.

(* (3) Stop: the terminate request makes the actor terminating (or terminated at once), under its address *)
Theorem stop_request_applied s v b e g s' o :
  get s v = Some b -> a_inflight b = Some (MS e) -> e_msg e = STerminate g -> (a_st b = Alive \/ a_st b = Restarting) ->
  kstep roles s (LRun (Z.of_nat v)) = Some (s', o) ->
  exists b', get s' v = Some b' /\ st_ge_terminating (a_st b') = true /\ a_tok b' = a_tok b.
Proof.
  intros Hb Hi He Hst Hk. cbn [kstep] in Hk. rewrite Nat2Z.id in Hk.
  rewrite (run_actor_inner roles s v b (MS e) Hb Hi) in Hk.
  set (s0 := upd_actor s v (w_inflight None)) in *.
  assert (G0 : get s0 v = Some (w_inflight None b)) by (apply get_upd_actor_same; exact Hb).
  assert (X : forall s1 o1 p1, process_sys roles s0 v e = (s1, o1, p1) ->
              exists b1, get s1 v = Some b1 /\ st_ge_terminating (a_st b1) = true /\ a_tok b1 = a_tok b).
  { intros sx ox px. unfold process_sys. rewrite G0, He. cbn [a_st w_inflight a_tok].
    assert (HT :
      (handle roles (deliver_sys (upd_actor s0 v (w_st Terminating)) (a_tok b) (a_tok b) SResume) v TT 0 (e_snd e) >>= (fun s3 =>
         match get s3 v with
         | None => ok s3 []
         | Some a3 =>
             let '(s4, o4) := terminate_all s3 (a_tok a3) (a_children a3) (g || a_graceful a3) in
             let '(s5, o5, p) := try_terminated roles s4 v (e_snd e) in (s5, o4 ++ o5, p)
         end)) = (sx, ox, px) -> exists b1, get sx v = Some b1 /\ st_ge_terminating (a_st b1) = true /\ a_tok b1 = a_tok b).
    { intros H. set (s1 := upd_actor s0 v (w_st Terminating)) in *.
      assert (G1 : get s1 v = Some (w_st Terminating (w_inflight None b))) by (apply get_upd_actor_same; exact G0).
      destruct (keep_deliver_sys s1 (a_tok b) (a_tok b) SResume v _ G1) as (a2 & G2 & S2 & (T2 & _)).
      cbn [a_st a_tok w_st w_inflight] in S2, T2.
      destruct (handle roles (deliver_sys s1 (a_tok b) (a_tok b) SResume) v TT 0 (e_snd e)) as [[s3 o3] p3] eqn:E3.
      destruct (keep_handle roles _ _ _ _ _ _ _ _ E3 v a2 G2) as (a3 & G3 & S3 & (T3 & _)).
      unfold bind in H. destruct p3.
      - inversion H; subst. exists a3. split; [exact G3|]. split; [rewrite S3, S2; reflexivity|congruence].
      - rewrite G3 in H. destruct (terminate_all s3 (a_tok a3) (a_children a3) (g || a_graceful a3)) as [s4 o4] eqn:E4.
        destruct (try_terminated roles s4 v (e_snd e)) as [[s5 o5] p5] eqn:E5. inversion H; subst.
        destruct (keep_terminate_all _ _ _ _ _ _ E4 v a3 G3) as (a4 & G4 & S4 & (T4 & _)).
        destruct (obj_try_terminated roles _ _ _ _ _ _ _ G4 E5) as (a5 & G5 & T5 & _ & S5).
        exists a5. split; [exact G5|]. split; [|congruence].
        destruct S5 as [S5|[_ S5]]; [rewrite S5, S4, S3, S2; reflexivity|rewrite S5; reflexivity]. }
    destruct Hst as [Hst|Hst]; rewrite Hst; exact HT. }
  unfold run_inner in Hk.
  destruct (process_sys roles s0 v e) as [[s1 o1] p1] eqn:Ep.
  destruct (X s1 o1 p1 eq_refl) as (b1 & G1 & S1 & T1).
  assert (Y : forall sz, keep s1 sz -> exists b', get (normalize sz) v = Some b' /\ st_ge_terminating (a_st b') = true /\ a_tok b' = a_tok b).
  { intros sz K. destruct (K v b1 G1) as (bz & Gz & Sz & (Tz & _)). exists (pop1 bz). split; [rewrite get_normalize, Gz; reflexivity|].
    rewrite pop1_st. destruct (pop1_id bz) as (Tp & _). split; [rewrite Sz; exact S1|congruence]. }
  destruct p1.
  - destruct (crashed s1).
    + inversion Hk; subst. apply Y, keep_refl.
    + destruct (report_abnormal roles s1 v) as [[s2 o2] p2] eqn:E2. inversion Hk; subst. apply Y. eapply keep_report_abnormal; exact E2.
  - inversion Hk; subst. apply Y, keep_refl.
Qed.

End D.
