(* MV.Kernel.Fanout — C06, the lower half of "exactly one", one step at a time: in the very step in which an actor object
   becomes Terminated, a notice naming it is appended to the mailbox of the object registered under the address of every
   entry of the watcher table it terminated with, and of its parent — for every role table, from any state with a
   well-formed registry. Nothing is taken out of a mailbox except its head by the owner's own step (Kernel.Queue for user
   messages; here the system queue only grows within a step), so the notice is there to be handled; together with
   Kernel.Notice (never more than one per entitlement) and Kernel.Watch (only the entitled): one notice per watcher and
   termination, unless the watcher's own object has terminated or its address is no longer registered. *)
From MV Require Import Lib.ListX Kernel.Model Kernel.Lifecycle Kernel.Status Kernel.Registry Kernel.Frame Kernel.Watch Kernel.Hierarchy.
From MV Require Kernel.FrameU.
Open Scope Z_scope.

Definition is_n (w : ref) (e : env smsg) : bool := match e_msg e with STerminatedOf who => who =? w | _ => false end.
Definition nn (w : ref) (a : actor) : nat := length (filter (is_n w) (msgs a)).

(* the relation between an object and its later self inside one step: in-flight message, address, parent and watcher
   table untouched, the system queue only appended to *)
Definition sqA (a a' : actor) : Prop :=
  a_inflight a' = a_inflight a /\ a_tok a' = a_tok a /\ a_parent a' = a_parent a /\ a_watchers a' = a_watchers a /\
  exists app, a_sysq a' = a_sysq a ++ app.
Lemma sqA_refl a : sqA a a.
Proof. repeat split. exists []. rewrite app_nil_r. reflexivity. Qed.
Lemma sqA_trans a b c : sqA a b -> sqA b c -> sqA a c.
Proof.
  intros (I1 & T1 & P1 & W1 & (p1 & Q1)) (I2 & T2 & P2 & W2 & (p2 & Q2)). repeat split; try congruence.
  exists (p1 ++ p2). rewrite Q2, Q1, app_assoc. reflexivity.
Qed.
Lemma sqA_keep a b : a_inflight b = a_inflight a -> a_tok b = a_tok a -> a_parent b = a_parent a -> a_watchers b = a_watchers a ->
  a_sysq b = a_sysq a -> sqA a b.
Proof. intros. repeat split; try assumption. exists []. rewrite app_nil_r. assumption. Qed.
Lemma S_userq a (e : env umsg) : sqA a (w_userq (a_userq a ++ [e]) a). Proof. apply sqA_keep; reflexivity. Qed.
Lemma S_sysq a e : sqA a (w_sysq (a_sysq a ++ [e]) a). Proof. repeat split. exists [e]. reflexivity. Qed.
Lemma S_susp a b : sqA a (w_susp b a). Proof. apply sqA_keep; reflexivity. Qed.
Lemma S_children a x : sqA a (w_children x a). Proof. apply sqA_keep; reflexivity. Qed.
Lemma S_accidents a x : sqA a (w_accidents x a). Proof. apply sqA_keep; reflexivity. Qed.
Lemma S_st a x : sqA a (w_st x a). Proof. apply sqA_keep; reflexivity. Qed.
Lemma S_inst a x : sqA a (w_inst x a). Proof. apply sqA_keep; reflexivity. Qed.
Lemma S_graceful a x : sqA a (w_graceful x a). Proof. apply sqA_keep; reflexivity. Qed.

Definition sq := fr sqA.
Lemma sq_refl s : sq s s. Proof. apply fr_refl, sqA_refl. Qed.
Lemma sq_trans a b c : sq a b -> sq b c -> sq a c. Proof. apply fr_trans, sqA_trans. Qed.

Lemma nn_sqA w a a' : sqA a a' -> (nn w a <= nn w a')%nat.
Proof.
  intros (I & _ & _ & _ & (p & Q)). unfold nn, msgs. rewrite I, Q. rewrite !filter_app, !app_length. lia.
Qed.

(* the mailbox of object v gains a notice naming w *)
Definition gain (w : ref) (v : nat) (s s' : kstate) : Prop :=
  forall b, get s v = Some b -> exists b', get s' v = Some b' /\ (nn w b + 1 <= nn w b')%nat.
Lemma gain_pre w v s1 s2 s3 : sq s1 s2 -> gain w v s2 s3 -> gain w v s1 s3.
Proof.
  intros Q G b Hb. destruct (Q v b Hb) as (b2 & G2 & X2). destruct (G b2 G2) as (b3 & G3 & N3).
  exists b3. split; [exact G3|]. pose proof (nn_sqA w _ _ X2). lia.
Qed.
Lemma gain_post w v s1 s2 s3 : gain w v s1 s2 -> sq s2 s3 -> gain w v s1 s3.
Proof.
  intros G Q b Hb. destruct (G b Hb) as (b2 & G2 & N2). destruct (Q v b2 G2) as (b3 & G3 & X3).
  exists b3. split; [exact G3|]. pose proof (nn_sqA w _ _ X3). lia.
Qed.

Lemma sq_deliver_sys s t snd m : sq s (deliver_sys s t snd m).
Proof. apply (fr_deliver_sys sqA sqA_refl S_sysq S_susp). Qed.
Lemma sq_notify_all ws s self : sq s (notify_all s self ws).
Proof. apply (fr_notify_all sqA sqA_refl sqA_trans S_sysq S_susp). Qed.

(* one delivery of the notice to a registered address *)
Lemma gain_deliver s x self v : lookup x (registry s) = Some v -> gain self v s (deliver_sys s x self (STerminatedOf self)).
Proof.
  intros Hl b Hb. unfold deliver_sys. rewrite Hl. unfold push_sys. cbn [mk_env e_msg].
  exists (w_sysq (a_sysq b ++ [mk_env self x (STerminatedOf self)]) b).
  split; [exact (get_upd_actor_same s v (fun a => w_sysq (a_sysq a ++ [mk_env self x (STerminatedOf self)]) a) b Hb)|].
  unfold nn. rewrite msgs_push, filter_app, app_length. cbn [filter is_n mk_env e_msg]. rewrite Z.eqb_refl. cbn [length]. lia.
Qed.

Lemma gain_notify_all ws : forall s self x v,
  In x ws -> lookup x (registry s) = Some v -> gain self v s (notify_all s self ws).
Proof.
  induction ws as [|y rest IH]; intros s self x v Hin Hl; [destruct Hin|]. cbn [notify_all].
  destruct (Z.eq_dec y x) as [->|Hne].
  - eapply gain_post; [apply gain_deliver; exact Hl|apply sq_notify_all].
  - destruct Hin as [E|Hin]; [contradiction|]. eapply gain_pre; [apply sq_deliver_sys|].
    apply IH with (x := x); [exact Hin|]. rewrite (regsame_deliver_sys s y self (STerminatedOf self)). exact Hl.
Qed.

(* ---- registry entries persist through everything but the owner's unregistration ---- *)
Definition regmono (s s' : kstate) : Prop := forall t u, lookup t (registry s) = Some u -> lookup t (registry s') = Some u.
Lemma rm_refl s : regmono s s. Proof. intros t u H. exact H. Qed.
Lemma rm_trans a b c : regmono a b -> regmono b c -> regmono a c. Proof. intros H1 H2 t u H. apply H2, H1, H. Qed.
Lemma rm_same s s' : regsame s s' -> regmono s s'. Proof. intros R t u H. rewrite R. exact H. Qed.

Lemma lookup_set_key_fresh {A} k (v : A) t l u : lookup k l = None -> lookup t l = Some u -> lookup t (set_key k v l) = Some u.
Proof.
  intros Hk Ht. unfold set_key. cbn [lookup]. destruct (t =? k) eqn:E; [apply Z.eqb_eq in E; subst; congruence|].
  apply Z.eqb_neq in E. clear Hk. induction l as [|[k' v'] rest IH]; [discriminate|]. cbn [lookup remove_key] in *.
  destruct (k =? k') eqn:E1.
  - apply Z.eqb_eq in E1. subst k'. destruct (t =? k) eqn:E2; [apply Z.eqb_eq in E2; contradiction|]. apply IH. exact Ht.
  - cbn [lookup]. destruct (t =? k'); [exact Ht|apply IH; exact Ht].
Qed.

Lemma rm_spawn s u self t r s' o p : spawn s u self t r = (s', o, p) -> regmono s s'.
Proof.
  unfold spawn. destruct (provide s t) as [s1 inst] eqn:Ep.
  assert (R1 : registry s1 = registry s) by (unfold provide in Ep; inversion Ep; subst; reflexivity).
  destruct (lookup t (registry s1)) eqn:El.
  - intros H; inversion H; subst. apply rm_same. unfold regsame, set_actors; cbn [registry]. exact R1.
  - intros H. apply rm_trans with (b := deliver_sys (upd_actor (set_registry (set_actors s1 (actors s1 ++ [new_actor t self r inst]))
        (set_key t (length (actors s1)) (registry (set_actors s1 (actors s1 ++ [new_actor t self r inst]))))) u
        (fun a => w_children (insert_sorted t (a_children a)) a)) t self SLaunch).
    + intros t0 u0 H0. rewrite (regsame_deliver_sys _ t self SLaunch), (regsame_upd_actor _ u _). cbn [registry set_registry set_actors].
      apply lookup_set_key_fresh; [exact El|rewrite R1; exact H0].
    + apply rm_same. revert H. unfold stop_if_parent_gone.
      match goal with |- context [get ?z u] => destruct (get z u) as [pa|] end; [|intros H; inversion H; subst; reflexivity].
      destruct (not_alive (a_st pa)); [|intros H; inversion H; subst; reflexivity].
      match goal with |- context [terminate ?z self t ?g] => destruct (terminate z self t g) as [s9 o9] eqn:E9 end.
      intros H; inversion H; subst. eapply regsame_terminate; exact E9.
Qed.

Section FO.
Variable roles : list role.

Lemma rm_do_action s u snd act s' o p : do_action roles s u snd act = (s', o, p) -> regmono s s'.
Proof.
  unfold do_action. destruct (get s u) as [a|]; [|intros H; inversion H; subst; apply rm_refl].
  destruct act.
  - destruct (next_serial s) as [s1 k] eqn:En. destruct (deliver_user s1 t rNone (UProbe n k)) as [s2 o2] eqn:E.
    intros H; inversion H; subst. apply rm_same. apply regsame_deliver_user in E. unfold next_serial in En; inversion En; subst. exact E.
  - destruct (next_serial s) as [s1 k] eqn:En. destruct (deliver_user s1 t (a_tok a) (UProbe n k)) as [s2 o2] eqn:E.
    intros H; inversion H; subst. apply rm_same. apply regsame_deliver_user in E. unfold next_serial in En; inversion En; subst. exact E.
  - destruct (next_serial s) as [s1 k] eqn:En. destruct (deliver_user s1 snd (a_tok a) (UProbe n k)) as [s2 o2] eqn:E.
    intros H; inversion H; subst. apply rm_same. apply regsame_deliver_user in E. unfold next_serial in En; inversion En; subst. exact E.
  - destruct (next_serial s) as [s1 k] eqn:En. destruct (send_each s1 (a_tok a) (a_children a) n k) as [s2 o2] eqn:E.
    intros H; inversion H; subst. apply rm_same. apply regsame_send_each in E. unfold next_serial in En; inversion En; subst. exact E.
  - destruct (spawn s u (a_tok a) t r) as [[s1 o1] p1] eqn:E. intros H; inversion H; subst. eapply rm_spawn; exact E.
  - destruct (terminate s (a_tok a) t g) as [s1 o1] eqn:E. intros H; inversion H; subst. apply rm_same. eapply regsame_terminate; exact E.
  - intros H; inversion H; subst. apply rm_same, regsame_deliver_sys.
  - intros H; inversion H; subst. apply rm_same, regsame_deliver_sys.
  - destruct (report_abnormal roles s u) as [[s1 o1] p1] eqn:E. intros H; inversion H; subst. apply rm_same. eapply regsame_report_abnormal; exact E.
  - intros H; inversion H; subst. apply rm_refl.
Qed.
Lemma rm_do_actions acts : forall s u snd s' o p, do_actions roles s u snd acts = (s', o, p) -> regmono s s'.
Proof.
  induction acts as [|act rest IH]; intros s u snd s' o p; cbn [do_actions]; [intros H; inversion H; subst; apply rm_refl|].
  apply (bind_rel regmono); [apply rm_trans| |].
  - intros s1 o1 p1 E. eapply rm_do_action; exact E.
  - intros s1 s2 o2 p2 E. eapply IH; exact E.
Qed.
Lemma rm_handle s u t k snd s' o p : handle roles s u t k snd = (s', o, p) -> regmono s s'.
Proof.
  unfold handle. destruct (get s u) as [a|]; [|intros H; inversion H; subst; apply rm_refl].
  unfold handle_q. destruct (get s u) as [a0|]; [|intros H; inversion H; subst; apply rm_refl].
  destruct (is_sys (a_tok a)); [intros H; inversion H; subst; apply rm_refl|].
  destruct (do_actions roles s u snd (find_rule (rules (role_of roles a0)) t (a_inst a0))) as [[s1 o1] p1] eqn:E.
  intros H; inversion H; subst. eapply rm_do_actions; exact E.
Qed.

Lemma sq_handle s u t k snd s' o p : handle roles s u t k snd = (s', o, p) -> sq s s'.
Proof. apply (fr_handle sqA sqA_refl sqA_trans S_userq S_sysq S_susp S_children S_accidents). Qed.

(* a handler of an object that is not alive never aborts the lifecycle step *)
Lemma handle_notalive s u t k snd s' o p a :
  get s u = Some a -> not_alive (a_st a) = true -> handle roles s u t k snd = (s', o, p) -> p = false.
Proof.
  intros Ea Hn. unfold handle, handle_q. rewrite Ea. destruct (is_sys (a_tok a)); [intros H; inversion H; reflexivity|].
  destruct (do_actions roles s u snd (find_rule (rules (role_of roles a)) t (a_inst a))) as [[s1 o1] p1].
  intros H; inversion H; subst. rewrite Hn. apply Bool.andb_false_r.
Qed.

(* u is not newly terminated *)
Definition NT (u : nat) (s s' : kstate) : Prop :=
  forall b, get s u = Some b -> exists b', get s' u = Some b' /\ (a_st b' = Terminated -> a_st b = Terminated).
(* u has terminated and its notices are in the mailboxes *)
Definition FAN (u : nat) (s s' : kstate) : Prop :=
  exists a', get s' u = Some a' /\ a_st a' = Terminated /\
    forall x v, In x (a_watchers a') \/ x = a_parent a' -> x <> a_tok a' -> x <> rNone -> lookup x (registry s) = Some v ->
      gain (a_tok a') v s s'.
Definition FO (u : nat) (s s' : kstate) : Prop := NT u s s' \/ FAN u s s'.

Lemma NT_refl u s : NT u s s. Proof. intros b H. exists b. auto. Qed.
Lemma NT_trans u a b c : NT u a b -> NT u b c -> NT u a c.
Proof. intros H1 H2 x Hx. destruct (H1 x Hx) as (y & Hy & S1). destruct (H2 y Hy) as (z & Hz & S2). exists z. split; [exact Hz|auto]. Qed.
Lemma NT_keep u s s' : keep s s' -> NT u s s'.
Proof. intros K b Hb. destruct (K u b Hb) as (b' & G & S & _). exists b'. split; [exact G|congruence]. Qed.
Lemma NT_upd_st u s x : x <> Terminated -> NT u s (upd_actor s u (w_st x)).
Proof. intros Hx b Hb. exists (w_st x b). split; [apply get_upd_actor_same; exact Hb|]. cbn [a_st w_st]. congruence. Qed.

Lemma FO_pre u s s1 s' : sq s s1 -> regmono s s1 -> NT u s s1 -> FO u s1 s' -> FO u s s'.
Proof.
  intros Q R N [H|(a' & G & St & F)]; [left; eapply NT_trans; eassumption|right].
  exists a'. split; [exact G|]. split; [exact St|]. intros x v He Hx Hn Hl. eapply gain_pre; [exact Q|]. apply (F x v He Hx Hn). apply R. exact Hl.
Qed.

Lemma FO_try_terminated s u snd s' o p : try_terminated roles s u snd = (s', o, p) -> FO u s s'.
Proof.
  unfold try_terminated. destruct (get s u) as [a|] eqn:Ea; [|intros H; inversion H; subst; left; apply NT_refl].
  destruct (a_children a); [|intros H; inversion H; subst; left; apply NT_refl].
  destruct (a_st a) eqn:Est; try (intros H; inversion H; subst; left; apply NT_refl).
  set (s1 := upd_actor s u (w_st Terminated)).
  assert (G1 : get s1 u = Some (w_st Terminated a)) by (apply get_upd_actor_same; exact Ea).
  assert (Q1 : sq s s1) by (apply (fr_upd_actor sqA sqA_refl); intros b; apply S_st).
  destruct (handle roles s1 u TTS 0%nat snd) as [[s2 o2] p2] eqn:E2.
  assert (P2 : p2 = false) by (eapply handle_notalive; [exact G1|reflexivity|exact E2]). subst p2.
  assert (Q2 : sq s1 s2) by (eapply sq_handle; exact E2).
  assert (R2 : regmono s s2) by (eapply rm_trans; [apply rm_same, regsame_upd_actor|eapply rm_handle; exact E2]).
  assert (K2 : keep s1 s2) by (eapply keep_handle; exact E2).
  unfold bind.
  set (s3 := set_registry s2 (remove_key (a_tok a) (registry s2))).
  assert (Q3 : sq s s3).
  { eapply sq_trans; [exact Q1|]. eapply sq_trans; [exact Q2|]. apply (fr_same_actors sqA sqA_refl); reflexivity. }
  set (ws := filter (fun w => negb (w =? a_parent a)) (a_watchers a)).
  set (s4 := notify_all s3 (a_tok a) ws).
  assert (Q4 : sq s3 s4) by apply sq_notify_all.
  assert (K14 : keep s1 s4).
  { eapply keep_trans; [exact K2|]. eapply keep_trans; [apply keep_set_registry|apply keep_notify_all]. }
  assert (L3 : forall x v, x <> a_tok a -> lookup x (registry s) = Some v -> lookup x (registry s3) = Some v).
  { intros x v Hx Hl. unfold s3. cbn [registry set_registry]. rewrite lookup_remove_key_other by exact Hx. apply R2. exact Hl. }
  assert (FIN : forall z, sq s4 z -> keep s4 z ->
            (forall v, lookup (a_parent a) (registry s4) = Some v -> a_parent a <> rNone -> gain (a_tok a) v s4 z) -> FAN u s z).
  { intros z Qz Kz Gp.
    assert (Qsz : sq s z) by (eapply sq_trans; [exact Q3|]; eapply sq_trans; [exact Q4|exact Qz]).
    destruct (Qsz u a Ea) as (a' & Ga' & (_ & T' & P' & W' & _)).
    exists a'. split; [exact Ga'|]. split.
    { destruct (K14 u _ G1) as (a4 & G4 & S4 & _). destruct (Kz u a4 G4) as (az & Gz & Sz & _). rewrite Ga' in Gz. inversion Gz; subst az.
      rewrite Sz, S4. reflexivity. }
    rewrite T', P', W'. intros x v [Hw|Hp] Hx Hn Hl.
    - destruct (Z.eq_dec x (a_parent a)) as [Ep|Ep].
      + subst x. eapply gain_pre; [eapply sq_trans; [exact Q3|exact Q4]|]. apply Gp; [|exact Hn].
        unfold s4. rewrite (regsame_notify_all ws s3 (a_tok a)). apply L3; assumption.
      + eapply gain_pre; [exact Q3|]. eapply gain_post; [|exact Qz]. apply gain_notify_all with (x := x); [|apply L3; assumption].
        unfold ws. apply filter_In. split; [exact Hw|]. apply Bool.negb_true_iff, Z.eqb_neq. exact Ep.
    - subst x. eapply gain_pre; [eapply sq_trans; [exact Q3|exact Q4]|]. apply Gp; [|exact Hn].
      unfold s4. rewrite (regsame_notify_all ws s3 (a_tok a)). apply L3; assumption. }
  destruct (a_parent a =? rNone) eqn:Epn.
  - intros H; inversion H; subst. right. apply FIN.
    + apply (fr_same_actors sqA sqA_refl); reflexivity.
    + apply keep_same_actors. reflexivity.
    + intros v _ Hne. apply Z.eqb_eq in Epn. contradiction.
  - intros H; inversion H; subst. right. apply FIN.
    + apply sq_deliver_sys.
    + apply keep_deliver_sys.
    + intros v Hl _. apply gain_deliver. exact Hl.
Qed.

Lemma FO_post u s s1 s' : FO u s s1 -> sq s1 s' -> keep s1 s' -> FO u s s'.
Proof.
  intros [H|(a' & G & St & F)] Q K; [left; eapply NT_trans; [exact H|apply NT_keep; exact K]|right].
  destruct (Q u a' G) as (a2 & G2 & (_ & T2 & P2 & W2 & _)). destruct (K u a' G) as (a3 & G3 & S3 & _).
  rewrite G2 in G3. inversion G3; subst a3.
  exists a2. split; [exact G2|]. split; [congruence|]. rewrite T2, P2, W2. intros x v He Hx Hn Hl.
  eapply gain_post; [exact (F x v He Hx Hn Hl)|exact Q].
Qed.

Lemma sq_terminate s self t g s' o : terminate s self t g = (s', o) -> sq s s'.
Proof. apply (fr_terminate sqA sqA_refl S_userq S_sysq S_susp). Qed.
Lemma sq_terminate_all cs s self g s' o : terminate_all s self cs g = (s', o) -> sq s s'.
Proof. apply (fr_terminate_all sqA sqA_refl sqA_trans S_userq S_sysq S_susp). Qed.
Lemma sq_drop_child s u w : sq s (drop_child s u w).
Proof. apply (fr_drop_child sqA sqA_refl S_children). Qed.
Lemma sq_report_abnormal s u s' o p : report_abnormal roles s u = (s', o, p) -> sq s s'.
Proof. apply (fr_report_abnormal sqA sqA_refl sqA_trans S_sysq S_susp S_accidents). Qed.

Lemma NT_try_restarted s u snd s' o p : try_restarted roles s u snd = (s', o, p) -> NT u s s'.
Proof.
  unfold try_restarted. destruct (get s u) as [a|]; [|intros H; inversion H; subst; apply NT_refl].
  destruct (a_children a); [|intros H; inversion H; subst; apply NT_refl].
  destruct (a_st a); try (intros H; inversion H; subst; apply NT_refl).
  destruct (provide s (a_tok a)) as [s0 inst] eqn:Ep. intros H.
  assert (K0 : keep s s0) by (apply keep_same_actors; unfold provide in Ep; inversion Ep; subst; reflexivity).
  apply (NT_trans u s s0); [apply NT_keep; exact K0|]. revert H.
  apply (bind_rel (NT u)); [apply NT_trans| |].
  - intros s1 o1 p1 E. apply NT_keep. eapply keep_handle; exact E.
  - intros s1 s2 o2 p2. apply (bind_rel (NT u)); [apply NT_trans| |].
    + intros s3 o3 p3 E. apply NT_keep. eapply keep_handle; exact E.
    + intros s3 s4 o4 p4. intros H. apply keep_start_instance in H.
      eapply NT_trans; [|apply NT_keep; exact H].
      eapply NT_trans; [|apply NT_keep, keep_deliver_sys].
      intros b Hb. exists (w_st Alive (w_inst inst b)). split; [exact (get_upd_actor_same s3 u (fun b => w_st Alive (w_inst inst b)) b Hb)|]. cbn [a_st w_st]. discriminate.
Qed.

Lemma FO_apply_directive s u r d snd s' o p : apply_directive roles s u r d snd = (s', o, p) -> FO u s s'.
Proof.
  unfold apply_directive. destruct (get s u) as [a|] eqn:Ea; [|intros H; inversion H; subst; left; apply NT_refl].
  destruct d.
  - intros H; inversion H; subst. left. apply NT_keep, keep_deliver_sys.
  - destruct (terminate s (a_tok a) (ar_vref r) false) as [s1 o1] eqn:E1.
    destruct (try_terminated roles s1 u snd) as [[s2 o2] p2] eqn:E2. intros H; inversion H; subst.
    eapply FO_pre; [eapply sq_terminate; exact E1|apply rm_same; eapply regsame_terminate; exact E1|apply NT_keep; eapply keep_terminate; exact E1|].
    eapply FO_try_terminated; exact E2.
  - intros H; inversion H; subst. left. apply NT_keep, keep_deliver_sys.
  - destruct (escalate s u r) as [[s1 o1] p1] eqn:E. intros H; inversion H; subst. left. apply NT_keep. eapply keep_escalate; exact E.
  - intros H; inversion H; subst. left. apply NT_keep, keep_restart_all.
Qed.

Lemma FO_on_accident s u r snd s' o p : on_accident roles s u r snd = (s', o, p) -> FO u s s'.
Proof.
  unfold on_accident. destruct (get s u) as [a|]; [|intros H; inversion H; subst; left; apply NT_refl].
  destruct (ar_strategy r); [apply FO_apply_directive|].
  destruct (sup (role_of roles a)); [|apply FO_apply_directive].
  intros H. left. apply NT_keep. eapply keep_escalate; exact H.
Qed.

Lemma FO_process_sys s u e s' o p : process_sys roles s u e = (s', o, p) -> FO u s s'.
Proof.
  unfold process_sys. destruct (get s u) as [a|] eqn:Ea; [|intros H; inversion H; subst; left; apply NT_refl].
  match goal with |- context [if ?d then _ else _] => destruct d end; [intros H; inversion H; subst; left; apply NT_refl|].
  destruct (e_msg e) as [| |g|who| |r| | | | |].
  - (* SLaunch *) intros H. left. revert H. apply (bind_rel (NT u)); [apply NT_trans| |].
    + intros s1 o1 p1 E. apply NT_keep. eapply keep_handle; exact E.
    + intros s1 s2 o2 p2 H; inversion H; subst. apply NT_keep. apply keep_upd_actor; kp.
  - intros H. left. apply NT_keep. eapply keep_handle; exact H.
  - (* STerminate *)
    assert (HT : forall s0, sq s s0 -> regmono s s0 -> NT u s s0 ->
       handle roles s0 u TT 0%nat (e_snd e) >>= (fun s3 => match get s3 u with
         | None => ok s3 []
         | Some a3 => let '(s4, o4) := terminate_all s3 (a_tok a3) (a_children a3) (g || a_graceful a3) in
                      let '(s5, o5, p) := try_terminated roles s4 u (e_snd e) in (s5, o4 ++ o5, p) end) = (s', o, p) ->
       FO u s s').
    { intros s0 Q0 R0 N0. destruct (handle roles s0 u TT 0%nat (e_snd e)) as [[s1 o1] p1] eqn:E1.
      assert (Q1 : sq s s1) by (eapply sq_trans; [exact Q0|eapply sq_handle; exact E1]).
      assert (R1 : regmono s s1) by (eapply rm_trans; [exact R0|eapply rm_handle; exact E1]).
      assert (N1 : NT u s s1) by (eapply NT_trans; [exact N0|apply NT_keep; eapply keep_handle; exact E1]).
      unfold bind. destruct p1; [intros H; inversion H; subst; left; exact N1|].
      destruct (get s1 u) as [a3|]; [|intros H; inversion H; subst; left; exact N1].
      destruct (terminate_all s1 (a_tok a3) (a_children a3) (g || a_graceful a3)) as [s4 o4] eqn:E4.
      destruct (try_terminated roles s4 u (e_snd e)) as [[s5 o5] p5] eqn:E5. intros H; inversion H; subst.
      eapply FO_pre; [eapply sq_trans; [exact Q1|eapply sq_terminate_all; exact E4]
                     |eapply rm_trans; [exact R1|apply rm_same; eapply regsame_terminate_all; exact E4]
                     |eapply NT_trans; [exact N1|apply NT_keep; eapply keep_terminate_all; exact E4]|].
      eapply FO_try_terminated; exact E5. }
    assert (Pre : sq s (deliver_sys (upd_actor s u (w_st Terminating)) (a_tok a) (a_tok a) SResume) /\
                  regmono s (deliver_sys (upd_actor s u (w_st Terminating)) (a_tok a) (a_tok a) SResume) /\
                  NT u s (deliver_sys (upd_actor s u (w_st Terminating)) (a_tok a) (a_tok a) SResume)).
    { split; [|split].
      - eapply sq_trans; [apply (fr_upd_actor sqA sqA_refl); intros b; apply S_st|apply sq_deliver_sys].
      - eapply rm_trans; [apply rm_same, regsame_upd_actor|apply rm_same, regsame_deliver_sys].
      - apply NT_trans with (b := upd_actor s u (w_st Terminating)); [apply NT_upd_st; discriminate|apply NT_keep, keep_deliver_sys]. }
    destruct Pre as (Q0 & R0 & N0).
    destruct (a_st a); try (intros H; inversion H; subst; left; apply NT_refl; fail); apply HT; assumption.
  - (* STerminatedOf *)
    assert (Q0 : sq s (drop_child s u who)) by apply sq_drop_child.
    assert (R0 : regmono s (drop_child s u who)) by apply rm_same, regsame_drop_child.
    assert (N0 : NT u s (drop_child s u who)) by apply NT_keep, keep_drop_child.
    destruct (handle roles (drop_child s u who) u (if who =? a_tok a then TTS else TTO who) 0%nat (e_snd e)) as [[s1 o1] p1] eqn:E1.
    assert (Q1 : sq s s1) by (eapply sq_trans; [exact Q0|eapply sq_handle; exact E1]).
    assert (R1 : regmono s s1) by (eapply rm_trans; [exact R0|eapply rm_handle; exact E1]).
    assert (N1 : NT u s s1) by (eapply NT_trans; [exact N0|apply NT_keep; eapply keep_handle; exact E1]).
    unfold bind. destruct p1; [intros H; inversion H; subst; left; exact N1|].
    destruct (get s1 u) as [a2|]; [|intros H; inversion H; subst; left; exact N1].
    destruct (a_st a2); try (intros H; inversion H; subst; left; exact N1).
    + destruct (try_restarted roles s1 u (e_snd e)) as [[s2 o2] p2] eqn:E2. intros H; inversion H; subst.
      left. eapply NT_trans; [exact N1|eapply NT_try_restarted; exact E2].
    + destruct (try_terminated roles s1 u (e_snd e)) as [[s2 o2] p2] eqn:E2. intros H; inversion H; subst.
      eapply FO_pre; [exact Q1|exact R1|exact N1|eapply FO_try_terminated; exact E2].
  - (* SRestart *) destruct (a_st a); try (intros H; inversion H; subst; left; apply NT_refl; fail).
    intros H. left.
    apply NT_trans with (b := upd_actor s u (w_st Restarting)); [apply NT_upd_st; discriminate|].
    apply NT_trans with (b := deliver_sys (upd_actor s u (w_st Restarting)) (a_tok a) (a_tok a) SSuspend); [apply NT_keep, keep_deliver_sys|].
    revert H. apply (bind_rel (NT u)); [apply NT_trans| |].
    + intros s1 o1 p1 E. apply NT_keep. eapply keep_handle; exact E.
    + intros s1 s2 o2 p2. destruct (get s1 u) as [a2|]; [|intros H; inversion H; subst; apply NT_refl].
      destruct (terminate_all s1 (a_tok a2) (a_children a2) false) as [s3 o3] eqn:E3.
      destruct (try_restarted roles s3 u (e_snd e)) as [[s4 o4] p4] eqn:E4. intros H; inversion H; subst.
      eapply NT_trans; [apply NT_keep; eapply keep_terminate_all; exact E3|eapply NT_try_restarted; exact E4].
  - (* SAccident *) apply FO_on_accident.
  - (* SWatch *) destruct (e_snd e =? a_parent a); [intros H; inversion H; subst; left; apply NT_refl|].
    destruct (st_ge_terminating (a_st a)); intros H; inversion H; subst; left; apply NT_keep; [apply keep_deliver_sys|apply keep_upd_actor; kp].
  - intros H; inversion H; subst. left. apply NT_keep. apply keep_upd_actor; kp.
  - intros H; inversion H; subst; left; apply NT_refl.
  - intros H; inversion H; subst; left; apply NT_refl.
  - (* SResumeReq *) destruct (a_st a); intros H; inversion H; subst; left; try apply NT_refl.
    apply NT_keep, keep_deliver_sys.
Qed.

Lemma FO_run_inner s0 u m s' o : run_inner roles s0 u m = (s', o) -> FO u s0 s'.
Proof.
  unfold run_inner.
  destruct (match m with MS e => process_sys roles s0 u e | MU e => process_user roles s0 u e end) as [[s1 o1] p1] eqn:E.
  assert (F1 : FO u s0 s1) by (destruct m; [eapply FO_process_sys; exact E|left; apply NT_keep; eapply keep_process_user; exact E]).
  destruct p1; [|intros H; inversion H; subst; exact F1].
  destruct (crashed s1); [intros H; inversion H; subst; exact F1|].
  destruct (report_abnormal roles s1 u) as [[s2 o2] p2] eqn:E2. intros H; inversion H; subst.
  eapply FO_post; [exact F1|eapply sq_report_abnormal; exact E2|eapply keep_report_abnormal; exact E2].
Qed.

(* the status of every object other than the running one is left alone by a run step *)
Definition oth (u0 v : nat) (a a' : actor) : Prop := v <> u0 -> a_st a' = a_st a.
Lemma others_status s0 u m s' o v b :
  run_inner roles s0 u m = (s', o) -> v <> u -> get s0 v = Some b -> exists b', get s' v = Some b' /\ a_st b' = a_st b.
Proof.
  intros H Hv Hb.
  assert (F : FrameU.fr (oth u) s0 s').
  { revert H. apply (FrameU.fr_run_inner (oth u) u); unfold oth.
    - reflexivity.
    - intros w a1 a2 a3 H1 H2 Hw. rewrite H2, H1 by exact Hw. reflexivity.
    - reflexivity.
    - reflexivity.
    - reflexivity.
    - intros a1 x Hw. contradiction.
    - intros a1 x Hw. contradiction.
    - intros a1 x Hw. contradiction.
    - intros a1 x Hw. contradiction.
    - intros a1 x Hw. contradiction.
    - intros a1 x Hw. contradiction. }
  destruct (F v b Hb) as (b' & G & X). exists b'. split; [exact G|apply X; exact Hv].
Qed.


(* C06, fan-out: in the step in which object u becomes Terminated, every object registered under the address of an entry
   of the watcher table u terminated with, or of u's parent, has one more notice naming u in its mailbox *)
Theorem fanout_step s l s' o u a a' :
  RI s -> kstep roles s l = Some (s', o) -> get s u = Some a -> a_st a <> Terminated -> get s' u = Some a' -> a_st a' = Terminated ->
  forall x v b, In x (a_watchers a') \/ x = a_parent a' -> x <> a_tok a' -> x <> rNone ->
    lookup x (registry s) = Some v -> get s v = Some b ->
    exists b', get s' v = Some b' /\ (nn (a_tok a') b + 1 <= nn (a_tok a') b')%nat.
Proof.
  intros HR Hk Ha Hst Ha' Hst'.
  assert (Tok : a_tok a' = a_tok a).
  { destruct (kstep_ext roles _ _ _ _ Hk) as [M _]. destruct (M u a Ha) as (a2 & G2 & _ & (I1 & _)). rewrite Ha' in G2. inversion G2; subst a2. exact I1. }
  assert (NTK : forall z, keep s z -> s' = normalize z -> False).
  { intros z K ->. destruct (K u a Ha) as (az & Gz & Sz & _). rewrite get_normalize, Gz in Ha'. cbn in Ha'. inversion Ha'; subst a'.
    rewrite pop1_st in Hst'. congruence. }
  destruct l; cbn [kstep] in Hk.
  - destruct (run_actor roles s (Z.to_nat u0)) as [[s1 o1]|] eqn:E; [|discriminate]. inversion Hk; subst s' o. clear Hk.
    set (r := Z.to_nat u0) in *.
    assert (Er : exists ar m, get s r = Some ar /\ a_inflight ar = Some m).
    { revert E. unfold run_actor. destruct (get s r) as [ar|]; [|discriminate]. destruct (a_inflight ar) as [m|] eqn:Em; [|discriminate]. intros _. eauto. }
    destruct Er as (ar & m & Er & Em).
    pose proof (run_actor_inner roles s r ar m Er Em) as RI'. rewrite E in RI'.
    set (s0 := upd_actor s r (w_inflight None)) in *.
    assert (Hin : run_inner roles s0 r m = (s1, o1)) by (inversion RI'; reflexivity).
    assert (G0o : forall v, v <> r -> get s0 v = get s v) by (intros v Hv; unfold s0, upd_actor; rewrite Er; apply get_put_other; auto).
    rewrite get_normalize in Ha'. destruct (get s1 u) as [a1|] eqn:G1; [|discriminate]. cbn in Ha'. inversion Ha'; subst a'. clear Ha'.
    rewrite pop1_st in Hst'. destruct (pop1_id a1) as (T1 & P1 & _). rewrite pop1_watchers, P1. rewrite T1 in *.
    destruct (Nat.eq_dec u r) as [->|Hne].
    + (* the running object *)
      assert (G0 : get s0 r = Some (w_inflight None ar)) by (apply get_upd_actor_same; exact Er).
      rewrite Er in Ha. inversion Ha; subst ar.
      destruct (FO_run_inner _ _ _ _ _ Hin) as [N|(a2 & G2 & S2 & F)].
      * destruct (N _ G0) as (b' & Gb' & Sb'). rewrite G1 in Gb'. inversion Gb'; subst b'. exfalso. apply Hst. apply Sb'. exact Hst'.
      * rewrite G1 in G2. inversion G2; subst a2. intros x v b He Hx Hn Hl Hb.
        assert (Hvr : v <> r).
        { intros ->. destruct (HR x r Hl) as (c & Hc & Tc). rewrite Er in Hc. inversion Hc; subst c. apply Hx. congruence. }
        assert (Hl0 : lookup x (registry s0) = Some v) by (unfold s0; rewrite (regsame_upd_actor s r _); exact Hl).
        destruct (F x v He Hx Hn Hl0 b) as (b1 & Gb1 & Nb1); [rewrite G0o by exact Hvr; exact Hb|].
        exists (pop1 b1). split; [rewrite get_normalize, Gb1; reflexivity|]. unfold nn in *. rewrite msgs_pop1. exact Nb1.
    + exfalso. destruct (others_status _ _ _ _ _ u a Hin Hne) as (b' & Gb' & Sb'); [rewrite G0o by exact Hne; exact Ha|].
      rewrite G1 in Gb'. inversion Gb'; subst b'. congruence.
  - exfalso. destruct (next_serial s) as [s1 k] eqn:En. destruct (deliver_user s1 t rNone (UProbe n k)) as [s2 o2] eqn:E. inversion Hk; subst.
    eapply NTK; [|reflexivity]. eapply keep_trans; [|eapply keep_deliver_user; exact E]. change s1 with (fst (s1, k)). rewrite <- En. apply keep_next_serial.
  - exfalso. destruct (next_serial s) as [s1 k] eqn:En. destruct (deliver_user s1 t rGuard (UProbe n k)) as [s2 o2] eqn:E. inversion Hk; subst.
    eapply NTK; [|reflexivity]. eapply keep_trans; [|eapply keep_deliver_user; exact E]. change s1 with (fst (s1, k)). rewrite <- En. apply keep_next_serial.
  - exfalso. destruct (terminate s rGuard t g) as [s1 o1] eqn:E. inversion Hk; subst. eapply NTK; [eapply keep_terminate; exact E|reflexivity].
  - exfalso. destruct (spawn s guard_uid rGuard t r) as [[s1 o1] p] eqn:E. inversion Hk; subst. eapply NTK; [eapply keep_spawn; exact E|reflexivity].
  - exfalso. destruct (terminate s rGuard rGuard g) as [s1 o1] eqn:E. inversion Hk; subst. eapply NTK; [eapply keep_terminate; exact E|reflexivity].
  - exfalso. inversion Hk; subst. congruence.
Qed.

End FO.
