(* MV.Kernel.Reuse — C02 across ADDRESS REUSE: an actor object terminates, later a new object is created under the same
   address. For every role table and every run from the freshly started system, and any two objects u1 < u2 (uid = creation
   index) that carry the same address, EVERY serial u1 ever shows as handled is STRICTLY below EVERY serial u2 shows as
   handled (strict: the copies of one broadcast go to different addresses, and the counter is advanced before every send).

   Why: a user message goes to the object REGISTERED under the target address at send time; an object is registered at
   its creation or never (a spawn under an occupied address creates a "ghost": never registered, never receives, never
   runs), registry entries are only added for NEW uids, so once a second object u2 of the address has been registered,
   u1 is unregistered for ever and receives nothing more; and every send takes a number above everything that exists.

   Invariant OI (over every elementary kernel operation, not only whole steps): for u1 < u2 of one address, either u2 is a
   ghost (unregistered, holds nothing, has handled nothing) or u1 is unregistered and everything u1 holds or has handled is
   below everything u2 holds or has handled; every number held is at most the counter; RI (Kernel.Registry).
   H0 v = what v has handled so far ++ the number of its in-flight user message: constant while one message is processed.
   Second part (relation nr, from ANY state): an object registered under no address has nothing appended to its mailbox by
   any kernel operation and stays unregistered (unregistered_receives_nothing_step, unregistered_object_receives_nothing). *)
From MV Require Import Lib.ListX Kernel.Model Kernel.Run Kernel.Lifecycle Kernel.Status Kernel.Registry Kernel.Frame Kernel.Queue Kernel.Launch Kernel.Held Kernel.Order.
Open Scope Z_scope.

(* v is not registered under any address *)
Definition unregA (s : kstate) (v : nat) : Prop := forall t, lookup t (registry s) <> Some v.
Definition held (H0 : nat -> list nat) (v : nat) (a : actor) : list nat := H0 v ++ serials (a_userq a).

Definition OI (H0 : nat -> list nat) (b : nat) (s : kstate) : Prop :=
  RI s /\ (b <= serial s)%nat /\
  (forall v, Forall (fun k => (k <= b)%nat) (H0 v)) /\
  (forall v a, get s v = Some a -> Forall (fun k => (k <= serial s)%nat) (serials (a_userq a))) /\
  (forall v, (length (actors s) <= v)%nat -> H0 v = []) /\
  (forall u1 u2 a1 a2, (u1 < u2)%nat -> get s u1 = Some a1 -> get s u2 = Some a2 -> a_tok a1 = a_tok a2 ->
     (unregA s u2 /\ held H0 u2 a2 = []) \/
     (unregA s u1 /\ forall x y, In x (held H0 u1 a1) -> In y (held H0 u2 a2) -> (x < y)%nat)).

Lemma OI_mono H0 b s H1 b1 s1 :
  OI H0 b s -> registry s1 = registry s -> (serial s <= serial s1)%nat -> length (actors s1) = length (actors s) ->
  (b1 <= serial s1)%nat -> (forall v, Forall (fun k => (k <= b1)%nat) (H1 v)) -> (forall v, (length (actors s) <= v)%nat -> H1 v = []) ->
  (forall v a1, get s1 v = Some a1 -> exists a, get s v = Some a /\ a_tok a1 = a_tok a /\ incl (held H1 v a1) (held H0 v a)) ->
  OI H1 b1 s1.
Proof.
  intros (Ri & Bb & Hb & Uq & Hn & Pp) Rg Sr Ln Bb1 Hb1 Hn1 Sim.
  assert (Bnd : forall v a, get s v = Some a -> Forall (fun k => (k <= serial s)%nat) (held H0 v a)).
  { intros v a G. unfold held. apply Forall_app. split; [|apply (Uq v a G)]. eapply Forall_impl; [|apply Hb]. cbn. intros; lia. }
  split; [|split; [exact Bb1|split; [exact Hb1|split; [|split]]]].
  - intros t u Hl. rewrite Rg in Hl. destruct (Ri t u Hl) as (a & Ga & Ta).
    destruct (get_of_lt s1 u) as (a1 & G1). { rewrite Ln. eapply get_lt; exact Ga. }
    exists a1. split; [exact G1|]. destruct (Sim u a1 G1) as (a' & Ga' & Tk & _). congruence.
  - intros v a1 G1. destruct (Sim v a1 G1) as (a & Ga & _ & Inc).
    rewrite Forall_forall. intros k Hk. specialize (Bnd v a Ga). rewrite Forall_forall in Bnd.
    assert (k <= serial s)%nat by (apply Bnd, Inc; unfold held; apply in_or_app; right; exact Hk). lia.
  - intros v Hv. apply Hn1. lia.
  - intros u1 u2 a1 a2 Lt G1 G2 Tk. destruct (Sim u1 a1 G1) as (c1 & Gc1 & T1 & I1). destruct (Sim u2 a2 G2) as (c2 & Gc2 & T2 & I2).
    assert (Ur : forall v, unregA s v -> unregA s1 v) by (intros v Hu t; rewrite Rg; apply Hu).
    assert (Tc : a_tok c1 = a_tok c2) by congruence.
    destruct (Pp u1 u2 c1 c2 Lt Gc1 Gc2 Tc) as [[U E]|[U O]].
    + left. split; [apply Ur; exact U|]. rewrite E in I2. destruct (held H1 u2 a2) as [|z l]; [reflexivity|]. exfalso. apply (I2 z). left. reflexivity.
    + right. split; [apply Ur; exact U|]. intros x y Hx Hy. apply O; [apply I1; exact Hx|apply I2; exact Hy].
Qed.

Lemma OI_ext H0 H1 b s : (forall v, H1 v = H0 v) -> OI H0 b s -> OI H1 b s.
Proof.
  intros E Hoi. pose proof Hoi as (Ri & Bb & Hb & Uq & Hn & Pp).
  eapply OI_mono; [exact Hoi|reflexivity|lia|reflexivity|exact Bb| | |].
  - intros v. rewrite E. apply Hb.
  - intros v Hv. rewrite E. apply Hn. exact Hv.
  - intros v a1 G. exists a1. split; [exact G|split; [reflexivity|]]. unfold held. rewrite E. apply incl_refl.
Qed.

(* the operation preserves the invariant, whatever has been handled so far *)
Definition oi (s s' : kstate) : Prop := forall H0 b, OI H0 b s -> OI H0 b s'.
Lemma oi_refl s : oi s s. Proof. intros H0 b H. exact H. Qed.
Lemma oi_trans s1 s2 s3 : oi s1 s2 -> oi s2 s3 -> oi s1 s3.
Proof. intros A B H0 b H. apply B, A, H. Qed.

(* same registry and counter, same objects with the same address and the same serials queued *)
Definition simq (s s' : kstate) : Prop :=
  registry s' = registry s /\ serial s' = serial s /\ length (actors s') = length (actors s) /\
  (forall v a', get s' v = Some a' -> exists a, get s v = Some a /\ a_tok a' = a_tok a /\ serials (a_userq a') = serials (a_userq a)).
Lemma simq_refl s : simq s s.
Proof. repeat split. intros v a G. exists a. auto. Qed.
Lemma simq_oi s s' : simq s s' -> oi s s'.
Proof.
  intros (Rg & Sr & Ln & Sim) H0 b Hoi. pose proof Hoi as (Ri & Bb & Hb & Uq & Hn & Pp).
  eapply OI_mono; [exact Hoi|exact Rg|lia|exact Ln|lia|exact Hb|exact Hn|].
  intros v a' G. destruct (Sim v a' G) as (a & Ga & T & Q). exists a. split; [exact Ga|split; [exact T|]]. unfold held. rewrite Q. apply incl_refl.
Qed.
Lemma simq_same s s' : actors s' = actors s -> registry s' = registry s -> serial s' = serial s -> simq s s'.
Proof.
  intros A Rg Sr. split; [exact Rg|split; [exact Sr|split; [rewrite A; reflexivity|]]].
  intros v a G. exists a. unfold get in *. rewrite A in G. auto.
Qed.
Lemma simq_put s w a0 bb : get s w = Some a0 -> a_tok bb = a_tok a0 -> serials (a_userq bb) = serials (a_userq a0) -> simq s (put s w bb).
Proof.
  intros Hw Ht Hq. split; [reflexivity|split; [reflexivity|split]].
  - unfold put, set_actors; cbn [actors]. apply upd_length.
  - intros v a' G. destruct (Nat.eq_dec w v) as [->|Hne].
    + rewrite (get_put_same _ _ _ _ Hw) in G. inversion G; subst a'. exists a0. auto.
    + rewrite get_put_other in G by exact Hne. exists a'. auto.
Qed.
Lemma simq_to_sub s : simq s (to_sub s).
Proof.
  unfold to_sub. destruct (lookup rSub (registry s)) as [u|]; [|apply simq_refl]. unfold upd_actor. destruct (get s u) as [a|] eqn:E; [|apply simq_refl].
  eapply simq_put; [exact E|reflexivity|]. cbn [a_userq w_userq]. rewrite serials_app. unfold serials at 2. cbn. apply app_nil_r.
Qed.
Lemma simq_abyss_user s snd rcv m s' o : abyss_user s snd rcv m = (s', o) -> simq s s'.
Proof.
  unfold abyss_user. destruct m; intros H; inversion H; subst; try apply simq_refl;
    destruct (rcv =? rSub); try apply simq_refl; apply simq_to_sub.
Qed.

Lemma oi_same s s' : actors s' = actors s -> registry s' = registry s -> serial s' = serial s -> oi s s'.
Proof. intros. apply simq_oi, simq_same; assumption. Qed.
Lemma oi_upd_actor s w f : (forall a, a_tok (f a) = a_tok a /\ a_userq (f a) = a_userq a) -> oi s (upd_actor s w f).
Proof.
  intros Hf. unfold upd_actor. destruct (get s w) as [a0|] eqn:E; [|apply oi_refl]. destruct (Hf a0) as [H1 H2].
  apply simq_oi. eapply simq_put; [exact E|exact H1|rewrite H2; reflexivity].
Qed.
Lemma oi_push_sys s w e : oi s (push_sys s w e).
Proof. unfold push_sys. apply oi_upd_actor. intros a. destruct (e_msg e); split; reflexivity. Qed.
Lemma oi_deliver_sys s t' snd m : oi s (deliver_sys s t' snd m).
Proof.
  unfold deliver_sys. destruct (lookup t' (registry s)); [apply oi_push_sys|].
  destruct m; try apply oi_refl. destruct (lookup snd (registry s)); [apply oi_push_sys|apply oi_refl].
Qed.
Lemma oi_abyss_user s snd rcv m s' o : abyss_user s snd rcv m = (s', o) -> oi s s'.
Proof. intros H. eapply simq_oi, simq_abyss_user; exact H. Qed.
Lemma oi_deliver_termg s t' snd s' o : deliver_user s t' snd UTermG = (s', o) -> oi s s'.
Proof.
  unfold deliver_user. destruct (lookup t' (registry s)) as [w|]; [|apply oi_abyss_user].
  destruct (get s w) as [a|] eqn:E; [|apply oi_abyss_user].
  intros H; inversion H; subst. apply simq_oi. eapply simq_put; [exact E|reflexivity|].
  cbn [a_userq w_userq]. rewrite serials_app. unfold serials at 2. cbn. apply app_nil_r.
Qed.
Lemma oi_terminate s self t' g s' o : terminate s self t' g = (s', o) -> oi s s'.
Proof.
  unfold terminate. destruct g; [apply oi_deliver_termg|]. intros H; inversion H; subst. apply oi_deliver_sys.
Qed.

(* ---------- sending: the counter has just been advanced; unregistered objects hold only older numbers ---------- *)
Definition LI (k : nat) (s : kstate) : Prop :=
  forall v a, get s v = Some a -> unregA s v -> Forall (fun x => (x < k)%nat) (serials (a_userq a)).
Lemma LI_simq k s s' : simq s s' -> LI k s -> LI k s'.
Proof.
  intros (Rg & Sr & Ln & Sim) L v a' G U. destruct (Sim v a' G) as (a & Ga & _ & Q). rewrite Q. apply (L v a Ga).
  intros t. rewrite <- Rg. apply U.
Qed.

Lemma get_put_inv s w bb a0 v a' : get s w = Some a0 -> get (put s w bb) v = Some a' -> (v = w /\ a' = bb) \/ (v <> w /\ get s v = Some a').
Proof.
  intros Hw G. destruct (Nat.eq_dec w v) as [->|Hne].
  - rewrite (get_put_same _ _ _ _ Hw) in G. inversion G. left. auto.
  - rewrite get_put_other in G by exact Hne. right. split; [congruence|exact G].
Qed.

Lemma oi_probe H0 b s t' snd n k s' o : k = serial s -> OI H0 b s -> LI k s -> (b < k)%nat ->
  deliver_user s t' snd (UProbe n k) = (s', o) -> OI H0 b s' /\ LI k s' /\ serial s' = serial s.
Proof.
  intros Hk Hoi Li Bk. unfold deliver_user.
  assert (AB : forall s1 o1, abyss_user s snd t' (UProbe n k) = (s1, o1) -> OI H0 b s1 /\ LI k s1 /\ serial s1 = serial s).
  { intros s1 o1 E. pose proof (simq_abyss_user _ _ _ _ _ _ E) as Sq. split; [apply (simq_oi _ _ Sq); exact Hoi|].
    split; [eapply LI_simq; eassumption|apply Sq]. }
  destruct (lookup t' (registry s)) as [w|] eqn:El; [|apply AB]. destruct (get s w) as [aw|] eqn:Ew; [|apply AB].
  intros H; inversion H; subst s' o. clear H AB.
  set (bb := w_userq (a_userq aw ++ [mk_env snd t' (UProbe n k)]) aw).
  assert (Qb : serials (a_userq bb) = serials (a_userq aw) ++ [k]) by (unfold bb; cbn [a_userq w_userq]; rewrite serials_app; reflexivity).
  assert (Hb' : forall v, held H0 v bb = held H0 v aw ++ [k]) by (intros v; unfold held; rewrite Qb, app_assoc; reflexivity).
  assert (Nw : ~ unregA s w) by (intros U; exact (U t' El)).
  destruct Hoi as (Ri & Bb & Hb & Uq & Hn & Pp).
  split; [|split; [|reflexivity]].
  - split; [|split; [exact Bb|split; [exact Hb|split; [|split]]]].
    + intros t u L. change (registry (put s w bb)) with (registry s) in L. destruct (Ri t u L) as (a & Ga & Ta).
      destruct (Nat.eq_dec w u) as [->|Hne].
      * exists bb. split; [eapply get_put_same; exact Ew|]. rewrite Ew in Ga. inversion Ga; subst a. exact Ta.
      * exists a. split; [rewrite get_put_other by exact Hne; exact Ga|exact Ta].
    + intros v a G. change (serial (put s w bb)) with (serial s). destruct (get_put_inv _ _ _ _ _ _ Ew G) as [[-> ->]|[_ G']]; [|apply (Uq v a G')].
      rewrite Qb. apply Forall_app. split; [apply (Uq w aw Ew)|]. constructor; [lia|constructor].
    + intros v Hv. apply Hn. unfold put, set_actors in Hv; cbn [actors] in Hv. rewrite upd_length in Hv. exact Hv.
    + intros u1 u2 a1 a2 Lt G1 G2 Tk. change (unregA (put s w bb) u1) with (unregA s u1). change (unregA (put s w bb) u2) with (unregA s u2).
      destruct (get_put_inv _ _ _ _ _ _ Ew G1) as [[-> ->]|[N1 G1']]; destruct (get_put_inv _ _ _ _ _ _ Ew G2) as [[-> ->]|[N2 G2']].
      * lia.
      * destruct (Pp w u2 aw a2 Lt Ew G2' Tk) as [X|[U _]]; [left; exact X|contradiction].
      * destruct (Pp u1 w a1 aw Lt G1' Ew Tk) as [[U _]|[U O]]; [contradiction|]. right. split; [exact U|].
        intros x y Hx Hy. rewrite Hb' in Hy. apply in_app_or in Hy. destruct Hy as [Hy|[<-|[]]]; [apply O; assumption|].
        unfold held in Hx. apply in_app_or in Hx. destruct Hx as [Hx|Hx].
        -- specialize (Hb u1). rewrite Forall_forall in Hb. apply Hb in Hx. lia.
        -- specialize (Li u1 a1 G1' U). rewrite Forall_forall in Li. apply Li. exact Hx.
      * apply (Pp u1 u2 a1 a2 Lt G1' G2' Tk).
  - intros v a G U. change (unregA (put s w bb) v) with (unregA s v) in U.
    destruct (get_put_inv _ _ _ _ _ _ Ew G) as [[-> ->]|[_ G']]; [contradiction|apply (Li v a G' U)].
Qed.

Lemma oi_send_each_aux H0 b ts : forall s self n k s' o, k = serial s -> OI H0 b s -> LI k s -> (b < k)%nat ->
  send_each s self ts n k = (s', o) -> OI H0 b s'.
Proof.
  induction ts as [|t' rest IH]; intros s self n k s' o Hk Hoi Li Bk; cbn [send_each].
  - intros H; inversion H; subst. exact Hoi.
  - destruct (deliver_user s t' self (UProbe n k)) as [s1 o1] eqn:E1.
    destruct (send_each s1 self rest n k) as [s2 o2] eqn:E2. intros H; injection H as <- <-.
    destruct (oi_probe _ _ _ _ _ _ _ _ _ Hk Hoi Li Bk E1) as (O1 & L1 & S1).
    eapply IH; [|exact O1|exact L1|exact Bk|exact E2]. congruence.
Qed.

Lemma OI_next H0 b s s1 k : next_serial s = (s1, k) -> OI H0 b s -> k = serial s1 /\ OI H0 b s1 /\ LI k s1 /\ (b < k)%nat.
Proof.
  unfold next_serial. intros H Hoi; inversion H; subst s1 k. clear H. cbn [serial]. split; [reflexivity|].
  pose proof Hoi as (Ri & Bb & Hb & Uq & Hn & Pp). split; [|split; [|lia]].
  - eapply OI_mono; [exact Hoi|reflexivity|cbn [serial]; lia|reflexivity|cbn [serial]; lia|exact Hb|exact Hn|].
    intros v a G. exists a. split; [exact G|split; [reflexivity|apply incl_refl]].
  - intros v a G _. eapply Forall_impl; [|apply (Uq v a G)]. cbn. intros; lia.
Qed.
Lemma oi_tell s s1 k t' snd n s2 o : next_serial s = (s1, k) -> deliver_user s1 t' snd (UProbe n k) = (s2, o) -> oi s s2.
Proof.
  intros En E H0 b Hoi. destruct (OI_next _ _ _ _ _ En Hoi) as (Hk & O1 & L1 & Bk).
  exact (proj1 (oi_probe _ _ _ _ _ _ _ _ _ Hk O1 L1 Bk E)).
Qed.
Lemma oi_bcast s s1 k self ts n s2 o : next_serial s = (s1, k) -> send_each s1 self ts n k = (s2, o) -> oi s s2.
Proof.
  intros En E H0 b Hoi. destruct (OI_next _ _ _ _ _ En Hoi) as (Hk & O1 & L1 & Bk).
  eapply oi_send_each_aux; eassumption.
Qed.

(* ---------- the registry: unregistration, creation of an object ---------- *)
Lemma oi_remove s k : oi s (set_registry s (remove_key k (registry s))).
Proof.
  intros H0 b (Ri & Bb & Hb & Uq & Hn & Pp).
  assert (Ur : forall v, unregA s v -> unregA (set_registry s (remove_key k (registry s))) v).
  { intros v U t L. cbn [registry set_registry] in L. apply lookup_remove_key in L. exact (U t L). }
  split; [|split; [exact Bb|split; [exact Hb|split; [exact Uq|split; [exact Hn|]]]]].
  - intros t u L. cbn [registry set_registry] in L. apply lookup_remove_key in L. exact (Ri t u L).
  - intros u1 u2 a1 a2 Lt G1 G2 Tk. destruct (Pp u1 u2 a1 a2 Lt G1 G2 Tk) as [[U E]|[U O]]; [left|right]; (split; [apply Ur; exact U|assumption]).
Qed.

Lemma get_append s x v a : get (set_actors s (actors s ++ [x])) v = Some a ->
  (get s v = Some a /\ (v < length (actors s))%nat) \/ (v = length (actors s) /\ a = x).
Proof.
  unfold get, set_actors; cbn [actors]. destruct (Nat.lt_ge_cases v (length (actors s))) as [Hlt|Hge].
  - rewrite nth_error_app1 by exact Hlt. intros H. left. auto.
  - rewrite nth_error_app2 by exact Hge. destruct (v - length (actors s))%nat as [|j] eqn:Ej; cbn.
    + intros H; inversion H. right. split; [lia|reflexivity].
    + destruct j; discriminate.
Qed.
Lemma get_append_old s x v a : get s v = Some a -> get (set_actors s (actors s ++ [x])) v = Some a.
Proof. intros G. unfold get, set_actors in *; cbn [actors]. rewrite nth_error_app1; [exact G|]. apply nth_error_Some. congruence. Qed.
Lemma get_append_new s x : get (set_actors s (actors s ++ [x])) (length (actors s)) = Some x.
Proof. unfold get, set_actors; cbn [actors]. rewrite nth_error_app2 by lia. rewrite Nat.sub_diag. reflexivity. Qed.

(* a ghost: created, never registered *)
Lemma oi_append_ghost s x : a_userq x = [] -> oi s (set_actors s (actors s ++ [x])).
Proof.
  intros Hq H0 b (Ri & Bb & Hb & Uq & Hn & Pp). set (s' := set_actors s (actors s ++ [x])).
  split; [|split; [exact Bb|split; [exact Hb|split; [|split]]]].
  - intros t u L. change (registry s') with (registry s) in L. destruct (Ri t u L) as (a & G & T). exists a. split; [apply get_append_old; exact G|exact T].
  - intros v a G. change (serial s') with (serial s). apply get_append in G. destruct G as [[G _]|[_ ->]]; [apply (Uq v a G)|rewrite Hq; constructor].
  - intros v Hv. apply Hn. unfold s', set_actors in Hv; cbn [actors] in Hv. rewrite app_length in Hv. cbn in Hv. lia.
  - intros u1 u2 a1 a2 Lt G1 G2 Tk. change (unregA s' u1) with (unregA s u1). change (unregA s' u2) with (unregA s u2).
    apply get_append in G1. apply get_append in G2. destruct G2 as [[G2 L2]|[-> ->]].
    + destruct G1 as [[G1 L1]|[-> ->]]; [|lia]. apply (Pp u1 u2 a1 a2 Lt G1 G2 Tk).
    + left. split.
      * intros t L. destruct (Ri t _ L) as (a & G & _). apply get_lt in G. lia.
      * unfold held. rewrite Hn by lia. rewrite Hq. reflexivity.
Qed.

(* a new object registered under a free address *)
Lemma oi_append_reg s x : a_userq x = [] -> lookup (a_tok x) (registry s) = None ->
  oi s (set_registry (set_actors s (actors s ++ [x])) (set_key (a_tok x) (length (actors s)) (registry s))).
Proof.
  intros Hq Hl H0 b (Ri & Bb & Hb & Uq & Hn & Pp).
  set (s' := set_registry (set_actors s (actors s ++ [x])) (set_key (a_tok x) (length (actors s)) (registry s))).
  assert (Ur : forall v, (v < length (actors s))%nat -> unregA s v -> unregA s' v).
  { intros v Hv U t L. unfold s' in L; cbn [registry set_registry] in L. apply lookup_set_key in L. destruct L as [[_ E]|L]; [lia|exact (U t L)]. }
  split; [|split; [exact Bb|split; [exact Hb|split; [|split]]]].
  - intros t u L. unfold s' in L; cbn [registry set_registry] in L. apply lookup_set_key in L. destruct L as [[-> ->]|L].
    + exists x. split; [apply get_append_new|reflexivity].
    + destruct (Ri t u L) as (a & G & T). exists a. split; [apply (get_append_old s x); exact G|exact T].
  - intros v a G. change (serial s') with (serial s). apply (get_append s x) in G. destruct G as [[G _]|[_ ->]]; [apply (Uq v a G)|rewrite Hq; constructor].
  - intros v Hv. apply Hn. unfold s', set_registry, set_actors in Hv; cbn [actors] in Hv. rewrite app_length in Hv. cbn in Hv. lia.
  - intros u1 u2 a1 a2 Lt G1 G2 Tk. apply (get_append s x) in G1. apply (get_append s x) in G2. destruct G2 as [[G2 L2]|[-> ->]].
    + destruct G1 as [[G1 L1]|[-> ->]]; [|lia].
      destruct (Pp u1 u2 a1 a2 Lt G1 G2 Tk) as [[U E]|[U O]]; [left|right]; (split; [apply Ur; assumption|assumption]).
    + destruct G1 as [[G1 L1]|[E1 _]]; [|lia]. right. split.
      * intros t L. unfold s' in L; cbn [registry set_registry] in L. apply lookup_set_key in L. destruct L as [[_ E]|L]; [lia|].
        destruct (Ri t u1 L) as (a & G & T). rewrite G1 in G. inversion G; subst a. rewrite <- Tk, T, L in Hl. discriminate.
      * intros x0 y _ Hy. unfold held in Hy. rewrite Hn in Hy by lia. rewrite Hq in Hy. destruct Hy.
Qed.

Ltac ks := intros; split; reflexivity.

Section RU.
Variable roles : list role.

(* ---------- every kernel operation preserves the invariant (traversal as in Kernel.Order) ---------- *)
Lemma oi_terminate_all cs : forall s self g s' o, terminate_all s self cs g = (s', o) -> oi s s'.
Proof.
  induction cs as [|c rest IH]; intros s self g s' o; cbn [terminate_all].
  - intros H; inversion H; subst. apply oi_refl.
  - destruct (terminate s self c g) as [s1 o1] eqn:E1. destruct (terminate_all s1 self rest g) as [s2 o2] eqn:E2.
    intros H; inversion H; subst. eapply oi_trans; [eapply oi_terminate; exact E1|eapply IH; exact E2].
Qed.
Lemma oi_notify_all ws : forall s self, oi s (notify_all s self ws).
Proof.
  induction ws as [|w rest IH]; intros s self; cbn [notify_all]; [apply oi_refl|].
  eapply oi_trans; [|apply IH]. apply oi_deliver_sys.
Qed.
Lemma oi_restart_all cs : forall s self, oi s (restart_all s self cs).
Proof.
  induction cs as [|c rest IH]; intros s self; cbn [restart_all]; [apply oi_refl|].
  eapply oi_trans; [|apply IH]. apply oi_deliver_sys.
Qed.
Lemma oi_stop s w self t' s' o p : stop_if_parent_gone s w self t' = (s', o, p) -> oi s s'.
Proof.
  unfold stop_if_parent_gone. destruct (get s w) as [pa|]; [|intros H; inversion H; subst; apply oi_refl].
  destruct (not_alive (a_st pa)); [|intros H; inversion H; subst; apply oi_refl].
  destruct (terminate s self t' (a_graceful pa)) as [s1 o1] eqn:E. intros H; inversion H; subst. eapply oi_terminate; exact E.
Qed.
Lemma oi_spawn s w self t' r s' o p : spawn s w self t' r = (s', o, p) -> oi s s'.
Proof.
  unfold spawn. destruct (provide s t') as [s1 inst] eqn:Ep.
  assert (K1 : oi s s1) by (apply oi_same; unfold provide in Ep; inversion Ep; subst; reflexivity).
  destruct (lookup t' (registry s1)) eqn:El.
  - intros H; inversion H; subst. eapply oi_trans; [exact K1|apply oi_append_ghost; reflexivity].
  - intros H. eapply oi_trans; [|eapply oi_stop; exact H]. eapply oi_trans; [exact K1|].
    eapply oi_trans; [|apply oi_deliver_sys]. eapply oi_trans; [|apply oi_upd_actor; ks].
    apply (oi_append_reg s1 (new_actor t' self r inst)); [reflexivity|exact El].
Qed.
Lemma oi_escalate s w r s' o p : escalate s w r = (s', o, p) -> oi s s'.
Proof.
  unfold escalate. destruct (get s w) as [a|]; [|intros H; inversion H; subst; apply oi_refl].
  destruct (a_parent a =? rNone); intros H; inversion H; subst.
  - apply oi_same; reflexivity.
  - apply oi_deliver_sys.
Qed.
Lemma oi_report_abnormal s w s' o p : report_abnormal roles s w = (s', o, p) -> oi s s'.
Proof.
  unfold report_abnormal. destruct (get s w) as [a|]; [|intros H; inversion H; subst; apply oi_refl].
  destruct (a_st a); try (intros H; inversion H; subst; apply oi_refl).
  intros H. apply oi_escalate in H. eapply oi_trans; [|exact H].
  eapply oi_trans; [|apply oi_deliver_sys]. apply oi_upd_actor; ks.
Qed.
Lemma oi_do_action s w snd act s' o p : do_action roles s w snd act = (s', o, p) -> oi s s'.
Proof.
  unfold do_action. destruct (get s w) as [a|]; [|intros H; inversion H; subst; apply oi_refl].
  destruct act.
  - destruct (next_serial s) as [s1 k] eqn:En. destruct (deliver_user s1 t rNone (UProbe n k)) as [s2 o2] eqn:E.
    intros H; inversion H; subst. eapply oi_tell; eassumption.
  - destruct (next_serial s) as [s1 k] eqn:En. destruct (deliver_user s1 t (a_tok a) (UProbe n k)) as [s2 o2] eqn:E.
    intros H; inversion H; subst. eapply oi_tell; eassumption.
  - destruct (next_serial s) as [s1 k] eqn:En. destruct (deliver_user s1 snd (a_tok a) (UProbe n k)) as [s2 o2] eqn:E.
    intros H; inversion H; subst. eapply oi_tell; eassumption.
  - destruct (next_serial s) as [s1 k] eqn:En. destruct (send_each s1 (a_tok a) (a_children a) n k) as [s2 o2] eqn:E.
    intros H; inversion H; subst. eapply oi_bcast; eassumption.
  - destruct (spawn s w (a_tok a) t r) as [[s1 o1] p1] eqn:E. intros H; inversion H; subst. eapply oi_spawn; exact E.
  - destruct (terminate s (a_tok a) t g) as [s1 o1] eqn:E. intros H; inversion H; subst. eapply oi_terminate; exact E.
  - intros H; inversion H; subst. apply oi_deliver_sys.
  - intros H; inversion H; subst. apply oi_deliver_sys.
  - destruct (report_abnormal roles s w) as [[s1 o1] p1] eqn:E. intros H; inversion H; subst. eapply oi_report_abnormal; exact E.
  - intros H; inversion H; subst. apply oi_refl.
Qed.
Lemma oi_do_actions acts : forall s w snd s' o p, do_actions roles s w snd acts = (s', o, p) -> oi s s'.
Proof.
  induction acts as [|act rest IH]; intros s w snd s' o p; cbn [do_actions].
  - intros H; inversion H; subst. apply oi_refl.
  - apply (bind_rel oi); [apply oi_trans| |].
    + intros s1 o1 p1 E. eapply oi_do_action; exact E.
    + intros s1 s2 o2 p2 E. eapply IH; exact E.
Qed.
Lemma oi_handle_q q s w tr k snd s' o p : handle_q roles q s w tr k snd = (s', o, p) -> oi s s'.
Proof.
  unfold handle_q. destruct (get s w) as [a|]; [|intros H; inversion H; subst; apply oi_refl].
  destruct q; [intros H; inversion H; subst; apply oi_refl|].
  destruct (do_actions roles s w snd (find_rule (rules (role_of roles a)) tr (a_inst a))) as [[s1 o1] p1] eqn:E.
  intros H; inversion H; subst. eapply oi_do_actions; exact E.
Qed.
Lemma oi_handle s w tr k snd s' o p : handle roles s w tr k snd = (s', o, p) -> oi s s'.
Proof. unfold handle. destruct (get s w); [apply oi_handle_q|intros H; inversion H; subst; apply oi_refl]. Qed.

Lemma oi_try_terminated s w snd s' o p : try_terminated roles s w snd = (s', o, p) -> oi s s'.
Proof.
  unfold try_terminated. destruct (get s w) as [a|]; [|intros H; inversion H; subst; apply oi_refl].
  destruct (a_children a); [|intros H; inversion H; subst; apply oi_refl].
  destruct (a_st a); try (intros H; inversion H; subst; apply oi_refl).
  apply (bind_rel oi); [apply oi_trans| |].
  - intros s1 o1 p1 E. eapply oi_trans; [|eapply oi_handle; exact E]. apply oi_upd_actor; ks.
  - intros s1 s2 o2 p2.
    set (sreg := set_registry s1 (remove_key (a_tok a) (registry s1))).
    set (sn := notify_all sreg (a_tok a) (filter (fun w0 => negb (w0 =? a_parent a)) (a_watchers a))).
    assert (Kn : oi s1 sn).
    { apply oi_trans with (s2 := sreg); [apply oi_remove|apply oi_notify_all]. }
    destruct (a_parent a =? rNone); intros H; inversion H; subst.
    + eapply oi_trans; [exact Kn|apply oi_same; reflexivity].
    + eapply oi_trans; [exact Kn|]. apply oi_deliver_sys.
Qed.

Lemma oi_start_instance s w self parent s' o p : start_instance roles s w self parent = (s', o, p) -> oi s s'.
Proof.
  unfold start_instance. destruct (handle roles s w TRD 0%nat self) as [[s1 o1] p1] eqn:E1.
  destruct (handle roles s1 w TL 0%nat parent) as [[s2 o2] p2] eqn:E2. intros H; inversion H; subst.
  eapply oi_trans; [eapply oi_handle; exact E1|]. eapply oi_trans; [eapply oi_handle; exact E2|].
  destruct p2; [apply oi_refl|apply oi_upd_actor; ks].
Qed.

Lemma oi_process_user s w e s' o p : process_user roles s w e = (s', o, p) -> oi s s'.
Proof.
  unfold process_user. destruct (get s w) as [a|]; [|intros H; inversion H; subst; apply oi_refl].
  destruct (st_ge_terminating (a_st a)).
  - destruct (abyss_user s (e_snd e) (e_rcv e) (e_msg e)) as [s1 o1] eqn:E. intros H; inversion H; subst. eapply oi_abyss_user; exact E.
  - destruct (e_msg e).
    + apply oi_handle_q.
    + intros H; inversion H; subst. eapply oi_trans; [|apply oi_deliver_sys]. apply oi_upd_actor; ks.
    + intros H; inversion H; subst. apply oi_refl.
Qed.


Lemma oi_apply_directive s w r d snd s' o p : apply_directive roles s w r d snd = (s', o, p) -> oi s s'.
Proof.
  unfold apply_directive. destruct (get s w) as [a|]; [|intros H; inversion H; subst; apply oi_refl].
  destruct d.
  - intros H; inversion H; subst. apply oi_deliver_sys.
  - destruct (terminate s (a_tok a) (ar_vref r) false) as [s1 o1] eqn:E1.
    destruct (try_terminated roles s1 w snd) as [[s2 o2] p2] eqn:E2. intros H; inversion H; subst.
    eapply oi_trans; [eapply oi_terminate; exact E1|eapply oi_try_terminated; exact E2].
  - intros H; inversion H; subst. apply oi_deliver_sys.
  - destruct (escalate s w r) as [[s1 o1] p1] eqn:E. intros H; inversion H; subst. eapply oi_escalate; exact E.
  - intros H; inversion H; subst. apply oi_restart_all.
Qed.
Lemma oi_on_accident s w r snd s' o p : on_accident roles s w r snd = (s', o, p) -> oi s s'.
Proof.
  unfold on_accident. destruct (get s w) as [a|]; [|intros H; inversion H; subst; apply oi_refl].
  destruct (ar_strategy r); [apply oi_apply_directive|].
  destruct (sup (role_of roles a)); [apply oi_escalate|apply oi_apply_directive].
Qed.
Lemma oi_drop_child s w who : oi s (drop_child s w who).
Proof. unfold drop_child. destruct (lookup who (registry s)); [apply oi_refl|apply oi_upd_actor; ks]. Qed.


Lemma oi_try_restarted s w snd s' o p : try_restarted roles s w snd = (s', o, p) -> oi s s'.
Proof.
  unfold try_restarted. destruct (get s w) as [a|]; [|intros H; inversion H; subst; apply oi_refl].
  destruct (a_children a); [|intros H; inversion H; subst; apply oi_refl].
  destruct (a_st a); try (intros H; inversion H; subst; apply oi_refl).
  destruct (provide s (a_tok a)) as [s0 inst] eqn:Ep.
  assert (K0 : oi s s0) by (apply oi_same; unfold provide in Ep; inversion Ep; subst; reflexivity).
  intros H. eapply oi_trans; [exact K0|]. revert H.
  apply (bind_rel oi); [apply oi_trans|intros s1 o1 p1 E; eapply oi_handle; exact E|].
  intros s1 s2 o2 p2. apply (bind_rel oi); [apply oi_trans|intros sa oa pa E; eapply oi_handle; exact E|].
  intros sa sb ob pb H. eapply oi_trans; [|eapply oi_start_instance; exact H].
  eapply oi_trans; [|apply oi_deliver_sys]. apply oi_upd_actor; ks.
Qed.

Lemma oi_process_sys s w e s' o p : process_sys roles s w e = (s', o, p) -> oi s s'.
Proof.
  unfold process_sys. destruct (get s w) as [a|]; [|intros H; inversion H; subst; apply oi_refl].
  match goal with |- context [if ?d then _ else _] => destruct d end; [intros H; inversion H; subst; apply oi_refl|].
  destruct (e_msg e) as [| |g|who| |r| | | | |].
  - apply (bind_rel oi); [apply oi_trans|intros s1 o1 p1 E; eapply oi_handle; exact E|].
    intros s1 s2 o2 p2 H; inversion H; subst. apply oi_upd_actor; ks.
  - apply oi_handle.
  - assert (HT : forall x,
      (handle roles x w TT 0 (e_snd e) >>= (fun s3 =>
         match get s3 w with
         | None => ok s3 []
         | Some a3 =>
             let '(s4, o4) := terminate_all s3 (a_tok a3) (a_children a3) (g || a_graceful a3) in
             let '(s5, o5, p) := try_terminated roles s4 w (e_snd e) in (s5, o4 ++ o5, p)
         end)) = (s', o, p) -> oi x s').
    { intros x. apply (bind_rel oi); [apply oi_trans|intros s1 o1 p1 E; eapply oi_handle; exact E|].
      intros s1 s2 o2 p2. destruct (get s1 w) as [a3|]; [|intros H; inversion H; subst; apply oi_refl].
      destruct (terminate_all s1 (a_tok a3) (a_children a3) (g || a_graceful a3)) as [s4 o4] eqn:E4.
      destruct (try_terminated roles s4 w (e_snd e)) as [[s5 o5] p5] eqn:E5. intros H; inversion H; subst.
      eapply oi_trans; [eapply oi_terminate_all; exact E4|eapply oi_try_terminated; exact E5]. }
    assert (Pre : oi s (deliver_sys (upd_actor s w (w_st Terminating)) (a_tok a) (a_tok a) SResume)).
    { apply oi_trans with (s2 := upd_actor s w (w_st Terminating)); [apply oi_upd_actor; ks|apply oi_deliver_sys]. }
    destruct (a_st a); try (intros H; inversion H; subst; apply oi_refl); (intros H; eapply oi_trans; [exact Pre|apply HT; exact H]).
  - intros H. apply oi_trans with (s2 := drop_child s w who); [apply oi_drop_child|]. revert H.
    apply (bind_rel oi); [apply oi_trans|intros s1 o1 p1 E; eapply oi_handle; exact E|].
    intros s1 s2 o2 p2. destruct (get s1 w) as [a2|]; [|intros H; inversion H; subst; apply oi_refl].
    destruct (a_st a2); try (intros H; inversion H; subst; apply oi_refl); [apply oi_try_restarted|apply oi_try_terminated].
  - destruct (a_st a); try (intros H; inversion H; subst; apply oi_refl).
    assert (Pre : oi s (deliver_sys (upd_actor s w (w_st Restarting)) (a_tok a) (a_tok a) SSuspend)).
    { apply oi_trans with (s2 := upd_actor s w (w_st Restarting)); [apply oi_upd_actor; ks|apply oi_deliver_sys]. }
    intros H. eapply oi_trans; [exact Pre|]. revert H.
    apply (bind_rel oi); [apply oi_trans|intros s1 o1 p1 E; eapply oi_handle; exact E|].
    intros s1 s2 o2 p2. destruct (get s1 w) as [a2|]; [|intros H; inversion H; subst; apply oi_refl].
    destruct (terminate_all s1 (a_tok a2) (a_children a2) false) as [s3 o3] eqn:E3.
    destruct (try_restarted roles s3 w (e_snd e)) as [[s4 o4] p4] eqn:E4. intros H; inversion H; subst.
    eapply oi_trans; [eapply oi_terminate_all; exact E3|eapply oi_try_restarted; exact E4].
  - apply oi_on_accident.
  - destruct (e_snd e =? a_parent a); [intros H; inversion H; subst; apply oi_refl|].
    destruct (st_ge_terminating (a_st a)); intros H; inversion H; subst; [apply oi_deliver_sys|apply oi_upd_actor; ks].
  - intros H; inversion H; subst. apply oi_upd_actor; ks.
  - intros H; inversion H; subst. apply oi_refl.
  - intros H; inversion H; subst. apply oi_refl.
  - destruct (a_st a); intros H; inversion H; subst; try apply oi_refl. apply oi_deliver_sys.
Qed.

Lemma oi_run_inner s0 w m s1 o1 : Frame.run_inner roles s0 w m = (s1, o1) -> oi s0 s1.
Proof.
  unfold Frame.run_inner. destruct (match m with MS e => process_sys roles s0 w e | MU e => process_user roles s0 w e end) as [[sx ox] px] eqn:E.
  assert (X : oi s0 sx) by (destruct m; [eapply oi_process_sys; exact E|eapply oi_process_user; exact E]).
  destruct px; [|intros H; inversion H; subst; exact X]. destruct (crashed sx); [intros H; inversion H; subst; exact X|].
  destruct (report_abnormal roles sx w) as [[sy oy] py] eqn:Ey. intros H; inversion H; subst.
  eapply oi_trans; [exact X|eapply oi_report_abnormal; exact Ey].
Qed.

(* ---------- whole steps: what an object has handled so far joins the invariant ---------- *)
Definition infl (s : kstate) (v : nat) : list nat := match get s v with Some a => serials (inflight_user a) | None => [] end.
(* T v = the serials object v has shown as handled so far *)
Definition INV (s : kstate) (T : nat -> list nat) : Prop := OI (fun v => T v ++ infl s v) (serial s) s.

Lemma tok_pop1 a : a_tok (pop1 a) = a_tok a.
Proof.
  unfold pop1. destruct (a_inflight a); [reflexivity|]. destruct (a_sysq a); [|reflexivity].
  destruct (a_susp a); [reflexivity|]. destruct (a_userq a); reflexivity.
Qed.

(* s0: the state in which the message is processed (the in-flight slot of the running object emptied); sx: after processing *)
Lemma INV_finish s0 sx H0 b T1 : OI H0 b sx -> sr s0 sx ->
  (forall v, (length (actors s0) <= v)%nat -> H0 v = [] /\ T1 v = []) ->
  (forall v a0, get s0 v = Some a0 -> incl (T1 v ++ serials (inflight_user a0)) (H0 v)) ->
  INV (normalize sx) T1.
Proof.
  intros Hoi (Ls & A & B) Hnew Hinc. pose proof Hoi as (Ri & Bb & Hb & Uq & Hn & Pp). unfold INV.
  assert (Sim : forall v a1, get (normalize sx) v = Some a1 -> exists a, get sx v = Some a /\ a_tok a1 = a_tok a /\
            incl (held (fun v => T1 v ++ infl (normalize sx) v) v a1) (held H0 v a)).
  { intros v a1 G1. rewrite get_normalize' in G1. destruct (get sx v) as [ax|] eqn:Ex; [|discriminate]. cbn in G1. inversion G1; subst a1.
    exists ax. split; [reflexivity|split; [apply tok_pop1|]].
    assert (Ei : infl (normalize sx) v = serials (inflight_user (pop1 ax))) by (unfold infl; rewrite get_normalize', Ex; reflexivity).
    assert (Es : serials (inflight_user (pop1 ax)) ++ serials (a_userq (pop1 ax)) = serials (inflight_user ax) ++ serials (a_userq ax)).
    { rewrite <- !serials_app. change (serials (seq (pop1 ax)) = serials (seq ax)). rewrite seq_pop1. reflexivity. }
    unfold held. rewrite Ei. intros x Hx. rewrite <- app_assoc, Es in Hx. apply in_app_or in Hx. apply in_or_app.
    destruct (Nat.lt_ge_cases v (length (actors s0))) as [Hlt|Hge].
    - destruct (get_of_lt s0 v Hlt) as (a0 & G0). destruct (A v a0 G0) as (a' & ap & G' & I' & _). rewrite Ex in G'. inversion G'; subst a'.
      destruct Hx as [Hx|Hx]; [left; apply (Hinc v a0 G0), in_or_app; left; exact Hx|].
      apply in_app_or in Hx. destruct Hx as [Hx|Hx]; [|right; exact Hx].
      left. apply (Hinc v a0 G0), in_or_app. right. unfold inflight_user in *. rewrite <- I'. exact Hx.
    - destruct (B v ax Ex Hge) as [I' _]. destruct (Hnew v Hge) as [_ Tn]. rewrite Tn in Hx. destruct Hx as [[]|Hx].
      unfold inflight_user in Hx. rewrite I' in Hx. right. exact Hx. }
  assert (Len : length (actors (normalize sx)) = length (actors sx)) by (unfold normalize, set_actors; cbn [actors]; apply map_length).
  eapply OI_mono; [exact Hoi|reflexivity|cbn; lia|exact Len|cbn; lia| | |exact Sim].
  - intros v. destruct (get (normalize sx) v) as [a1|] eqn:G1.
    + destruct (Sim v a1 G1) as (ax & Gx & _ & Inc). rewrite Forall_forall. intros k Hk.
      assert (Hin : In k (held H0 v ax)) by (apply Inc; unfold held; apply in_or_app; left; exact Hk).
      unfold held in Hin. apply in_app_or in Hin. change (serial (normalize sx)) with (serial sx). destruct Hin as [Hin|Hin].
      * specialize (Hb v). rewrite Forall_forall in Hb. apply Hb in Hin. lia.
      * specialize (Uq v ax Gx). rewrite Forall_forall in Uq. apply Uq. exact Hin.
    + unfold infl. rewrite G1, app_nil_r. assert (Hge : (length (actors s0) <= v)%nat).
      { pose proof (sr_len _ _ (conj Ls (conj A B))) as L1. unfold get in G1. apply nth_error_None in G1. rewrite Len in G1. lia. }
      rewrite (proj2 (Hnew v Hge)). constructor.
  - intros v Hv. assert (Hge : (length (actors s0) <= v)%nat) by (pose proof (sr_len _ _ (conj Ls (conj A B))); lia).
    rewrite (proj2 (Hnew v Hge)). unfold infl. destruct (get (normalize sx) v) as [a1|] eqn:G1; [|reflexivity].
    apply get_lt in G1. rewrite Len in G1. lia.
Qed.

(* steps that do not run a mailbox: nothing is shown as handled *)
Lemma INV_plain s sx T T1 : INV s T -> oi s sx -> sr s sx -> (forall v, T1 v = T v ++ []) -> INV (normalize sx) T1.
Proof.
  intros Hi Ho Hs E. pose proof Hi as (Ri & Bb & Hb & Uq & Hn & Pp). eapply INV_finish; [apply Ho; exact Hi|exact Hs| |].
  - intros v Hv. pose proof (Hn v Hv) as Z. cbn beta in Z. apply app_eq_nil in Z. rewrite E, app_nil_r. split; [apply Hn; exact Hv|apply Z].
  - intros v a0 G0. cbn beta. rewrite E, app_nil_r. unfold infl. rewrite G0. apply incl_refl.
Qed.

Lemma INV_kstep s l s1 o T T1 : kstep roles s l = Some (s1, o) -> INV s T -> (forall v, T1 v = T v ++ hser v l o) -> INV s1 T1.
Proof.
  destruct l; cbn [kstep hser].
  - (* LRun *) destruct (run_actor roles s (Z.to_nat u)) as [[sx ox]|] eqn:E; [|discriminate]. intros H; injection H as <- <-. intros Hi ET.
    destruct (get s (Z.to_nat u)) as [au|] eqn:Eu; [|unfold run_actor in E; rewrite Eu in E; discriminate].
    destruct (a_inflight au) as [m|] eqn:Em; [|unfold run_actor in E; rewrite Eu, Em in E; discriminate].
    rewrite (run_actor_inner roles s (Z.to_nat u) au m Eu Em) in E.
    set (s0 := upd_actor s (Z.to_nat u) (w_inflight None)) in *.
    assert (Ein : Frame.run_inner roles s0 (Z.to_nat u) m = (sx, ox)) by (inversion E; reflexivity).
    pose proof (sr_run_inner _ _ _ _ _ _ Ein) as K. pose proof (tser_run_inner _ _ _ _ _ _ Ein) as Tm.
    pose proof Hi as (Ri & Bb & Hb & Uq & Hn & Pp).
    assert (L0 : length (actors s0) = length (actors s)).
    { unfold s0, upd_actor. rewrite Eu. unfold put, set_actors; cbn [actors]. apply upd_length. }
    eapply INV_finish; [eapply oi_run_inner; [exact Ein|]; apply (oi_upd_actor s (Z.to_nat u) (w_inflight None)); [ks|exact Hi]|exact K| |].
    + intros v Hv. rewrite L0 in Hv. pose proof (Hn v Hv) as Z. cbn beta in Z. split; [exact Z|]. apply app_eq_nil in Z. rewrite ET.
      destruct (Nat.eqb_spec (Z.to_nat u) v) as [Ev|Ev]; [|rewrite app_nil_r; apply Z]. subst v. apply get_lt in Eu. lia.
    + intros v a0 G0. cbn beta. rewrite ET. unfold infl. destruct (Nat.eqb_spec (Z.to_nat u) v) as [Ev|Ev].
      * subst v. rewrite Eu. unfold s0 in G0. rewrite (get_upd_actor_same _ _ _ _ Eu) in G0. inversion G0; subst a0.
        unfold inflight_user at 1. cbn [a_inflight w_inflight]. unfold serials at 1. cbn [flat_map]. rewrite app_nil_r.
        intros x Hx. apply in_app_or in Hx. apply in_or_app. destruct Hx as [Hx|Hx]; [left; exact Hx|right].
        unfold inflight_user. rewrite Em. destruct Tm as [Tm|Tm]; rewrite Tm in Hx; [destruct Hx|].
        destruct m as [e|e]; cbn [mser] in Hx; [destruct Hx|]. unfold serials. cbn [flat_map]. rewrite app_nil_r. exact Hx.
      * assert (G : get s v = Some a0) by (unfold s0, upd_actor in G0; rewrite Eu in G0; rewrite get_put_other in G0 by exact Ev; exact G0).
        rewrite G, app_nil_r. apply incl_refl.
  - destruct (next_serial s) as [s0 k] eqn:En. destruct (sr_next _ _ _ En) as [N1 Hk]. destruct (deliver_user s0 t rNone (UProbe n k)) as [s2 o2] eqn:E.
    intros H; inversion H; subst s1 o. intros Hi ET. eapply INV_plain; [exact Hi|eapply oi_tell; eassumption| |exact ET].
    exact (sr_trans _ _ _ N1 (sr_deliver_user s0 _ _ (UProbe n k) _ _ Hk E)).
  - destruct (next_serial s) as [s0 k] eqn:En. destruct (sr_next _ _ _ En) as [N1 Hk]. destruct (deliver_user s0 t rGuard (UProbe n k)) as [s2 o2] eqn:E.
    intros H; inversion H; subst s1 o. intros Hi ET. eapply INV_plain; [exact Hi|eapply oi_tell; eassumption| |exact ET].
    exact (sr_trans _ _ _ N1 (sr_deliver_user s0 _ _ (UProbe n k) _ _ Hk E)).
  - destruct (terminate s rGuard t g) as [s2 o2] eqn:E. intros H; inversion H; subst s1 o. intros Hi ET.
    eapply INV_plain; [exact Hi|eapply oi_terminate; exact E|eapply sr_terminate; exact E|exact ET].
  - destruct (spawn s guard_uid rGuard t r) as [[s2 o2] p] eqn:E. intros H; inversion H; subst s1 o. intros Hi ET.
    eapply INV_plain; [exact Hi|eapply oi_spawn; exact E|eapply sr_spawn; exact E|exact ET].
  - destruct (terminate s rGuard rGuard g) as [s2 o2] eqn:E. intros H; inversion H; subst s1 o. intros Hi ET.
    eapply INV_plain; [exact Hi|eapply oi_terminate; exact E|eapply sr_terminate; exact E|exact ET].
  - intros H; inversion H; subst s1 o. intros Hi ET. unfold INV in *. eapply OI_ext; [|exact Hi]. intros v. cbn beta. rewrite ET, app_nil_r. reflexivity.
Qed.

Lemma INV_run ls : forall s s' os T T', INV s T -> krun roles s ls = Some (s', os) -> (forall v, T' v = T v ++ trace v ls os) -> INV s' T'.
Proof.
  induction ls as [|l t IH]; intros s s' os T T' Hi; cbn [krun].
  - intros H; inversion H; subst. intros ET. unfold INV in *. eapply OI_ext; [|exact Hi]. intros v. cbn beta. rewrite ET. cbn [trace]. rewrite app_nil_r. reflexivity.
  - destruct (kstep roles s l) as [[s1 o]|] eqn:E; [|discriminate].
    destruct (krun roles s1 t) as [[s2 os2]|] eqn:E2; [|discriminate]. intros H; inversion H; subst. intros ET.
    eapply (IH s1 s' os2 (fun v => T v ++ hser v l o)); [eapply INV_kstep; [exact E|exact Hi|reflexivity]|exact E2|].
    intros v. rewrite ET. cbn [trace]. apply app_assoc.
Qed.

Lemma INV_init : INV kinit (fun _ => []).
Proof.
  unfold INV. split; [apply RI_init|split; [cbn; lia|split; [|split; [|split]]]].
  - intros v. unfold infl, kinit, get; cbn [actors]. destruct v as [|[|v]]; cbn; [constructor|constructor|]. destruct v; cbn; constructor.
  - intros v a H. unfold kinit, get in H; cbn [actors] in H. destruct v as [|[|v]]; cbn in H; [| |destruct v; discriminate]; inversion H; subst; constructor.
  - intros v Hv. cbn in Hv. unfold infl, kinit, get; cbn [actors]. destruct v as [|[|v]]; [lia|lia|]. destruct v; reflexivity.
  - intros u1 u2 a1 a2 Lt G1 G2 Tk. unfold kinit, get in G1, G2; cbn [actors] in G1, G2.
    destruct u2 as [|[|u2]]; [lia| |cbn in G2; destruct u2; discriminate]. destruct u1 as [|u1]; [|lia].
    cbn in G1, G2. inversion G1; subst a1. inversion G2; subst a2. discriminate.
Qed.

(* C02 across address reuse: two objects of one address, the one created first has handled only lower serials *)
Theorem handled_order_across_reuse_run ls s os u1 u2 a1 a2 :
  krun roles kinit ls = Some (s, os) ->
  get s u1 = Some a1 -> get s u2 = Some a2 -> a_tok a1 = a_tok a2 -> (u1 < u2)%nat ->
  forall x y, In x (trace u1 ls os) -> In y (trace u2 ls os) -> (x < y)%nat.
Proof.
  intros Hr G1 G2 Tk Lt x y Hx Hy.
  assert (Hi : INV s (fun v => trace v ls os)) by (eapply INV_run; [apply INV_init|exact Hr|reflexivity]).
  destruct Hi as (_ & _ & _ & _ & _ & Pp). destruct (Pp u1 u2 a1 a2 Lt G1 G2 Tk) as [[_ E]|[_ O]].
  - unfold held in E. apply app_eq_nil in E. destruct E as [E _]. apply app_eq_nil in E. destruct E as [E _]. rewrite E in Hy. destruct Hy.
  - apply O; unfold held; apply in_or_app; left; apply in_or_app; left; assumption.
Qed.


(* in every reachable state, for two objects of one address: the later one is a ghost (created while the address was
   occupied: registered under no address, holds nothing, has handled nothing), or the earlier one is registered under no
   address and everything it has handled or still holds is numbered below everything the later one has handled or holds *)
Theorem same_address_objects_ordered ls s os u1 u2 a1 a2 :
  krun roles kinit ls = Some (s, os) ->
  get s u1 = Some a1 -> get s u2 = Some a2 -> a_tok a1 = a_tok a2 -> (u1 < u2)%nat ->
  (unregA s u2 /\ serials (seq a2) = [] /\ trace u2 ls os = []) \/
  (unregA s u1 /\ forall x y, In x (trace u1 ls os ++ serials (seq a1)) -> In y (trace u2 ls os ++ serials (seq a2)) -> (x < y)%nat).
Proof.
  intros Hr G1 G2 Tk Lt.
  assert (Hi : INV s (fun v => trace v ls os)) by (eapply INV_run; [apply INV_init|exact Hr|reflexivity]).
  destruct Hi as (_ & _ & _ & _ & _ & Pp).
  assert (Hh : forall u a, get s u = Some a -> held (fun v => trace v ls os ++ infl s v) u a = trace u ls os ++ serials (seq a)).
  { intros u a G. unfold held, infl. rewrite G. rewrite <- app_assoc, <- serials_app. reflexivity. }
  destruct (Pp u1 u2 a1 a2 Lt G1 G2 Tk) as [[U E]|[U O]].
  - left. split; [exact U|]. rewrite (Hh u2 a2 G2) in E. apply app_eq_nil in E. destruct E as [E1 E2]. auto.
  - right. split; [exact U|]. rewrite (Hh u1 a1 G1), (Hh u2 a2 G2) in O. exact O.
Qed.

(* the object registered under an address is the newest one that was ever reachable under it: every object of that address
   with a larger uid is a ghost *)
Theorem registered_is_newest_but_ghosts ls s os t u u' a' :
  krun roles kinit ls = Some (s, os) -> lookup t (registry s) = Some u ->
  get s u' = Some a' -> a_tok a' = t -> (u < u')%nat ->
  unregA s u' /\ serials (seq a') = [] /\ trace u' ls os = [].
Proof.
  intros Hr Hl G' Tk Lt. destruct (RI_reachable roles ls kinit s os RI_init Hr t u Hl) as (a & G & Ta).
  assert (Tq : a_tok a = a_tok a') by congruence.
  destruct (same_address_objects_ordered ls s os u u' a a' Hr G G' Tq Lt) as [X|[U _]]; [exact X|]. exfalso. exact (U t Hl).
Qed.

End RU.

Theorem handled_order_across_reuse : forall roles ls s os u1 u2 a1 a2,
  krun roles kinit ls = Some (s, os) ->
  get s u1 = Some a1 -> get s u2 = Some a2 -> a_tok a1 = a_tok a2 -> (u1 < u2)%nat ->
  forall x y, In x (trace u1 ls os) -> In y (trace u2 ls os) -> (x < y)%nat.
Proof. exact handled_order_across_reuse_run. Qed.

(* ---------- who can receive: an object registered under no address gets nothing, from ANY state ---------- *)
(* through every kernel operation: an unregistered object stays unregistered (registry entries are only added for NEW uids)
   and its user queue and in-flight slot are untouched (user messages are resolved through the registry) *)
Definition nr (s s' : kstate) : Prop :=
  forall v a, get s v = Some a -> unregA s v ->
    exists a', get s' v = Some a' /\ a_inflight a' = a_inflight a /\ a_userq a' = a_userq a /\ unregA s' v.
Lemma nr_refl s : nr s s. Proof. intros v a G U. exists a. auto. Qed.
Lemma nr_trans s1 s2 s3 : nr s1 s2 -> nr s2 s3 -> nr s1 s3.
Proof.
  intros A B v a G U. destruct (A v a G U) as (a2 & G2 & I2 & Q2 & U2). destruct (B v a2 G2 U2) as (a3 & G3 & I3 & Q3 & U3).
  exists a3. split; [exact G3|split; [congruence|split; [congruence|exact U3]]].
Qed.
Lemma nr_same s s' : actors s' = actors s -> registry s' = registry s -> serial s' = serial s -> nr s s'.
Proof.
  intros A Rg _ v a G U. exists a. unfold get in *. rewrite A. split; [exact G|split; [reflexivity|split; [reflexivity|]]].
  intros t. rewrite Rg. apply U.
Qed.
Lemma nr_put s w a0 bb : get s w = Some a0 -> (~ unregA s w \/ (a_inflight bb = a_inflight a0 /\ a_userq bb = a_userq a0)) -> nr s (put s w bb).
Proof.
  intros Hw Hc v a G U. change (unregA (put s w bb) v) with (unregA s v). destruct (Nat.eq_dec w v) as [->|Hne].
  - destruct Hc as [Hc|[Hi Hq]]; [contradiction|]. rewrite Hw in G. inversion G; subst a. exists bb. split; [eapply get_put_same; exact Hw|auto].
  - exists a. split; [rewrite get_put_other by exact Hne; exact G|auto].
Qed.
Lemma nr_upd_actor s w f : (forall a, a_inflight (f a) = a_inflight a /\ a_userq (f a) = a_userq a) -> nr s (upd_actor s w f).
Proof.
  intros Hf. unfold upd_actor. destruct (get s w) as [a0|] eqn:E; [|apply nr_refl]. eapply nr_put; [exact E|right; apply Hf].
Qed.
Lemma nr_push_sys s w e : nr s (push_sys s w e).
Proof. unfold push_sys. apply nr_upd_actor. intros a. destruct (e_msg e); split; reflexivity. Qed.
Lemma nr_deliver_sys s t' snd m : nr s (deliver_sys s t' snd m).
Proof.
  unfold deliver_sys. destruct (lookup t' (registry s)); [apply nr_push_sys|].
  destruct m; try apply nr_refl. destruct (lookup snd (registry s)); [apply nr_push_sys|apply nr_refl].
Qed.
Lemma nr_to_sub s : nr s (to_sub s).
Proof.
  unfold to_sub. destruct (lookup rSub (registry s)) as [u|] eqn:El; [|apply nr_refl]. unfold upd_actor. destruct (get s u) as [a|] eqn:E; [|apply nr_refl].
  eapply nr_put; [exact E|left]. intros U. exact (U rSub El).
Qed.
Lemma nr_abyss_user s snd rcv m s' o : abyss_user s snd rcv m = (s', o) -> nr s s'.
Proof.
  unfold abyss_user. destruct m; intros H; inversion H; subst; try apply nr_refl;
    destruct (rcv =? rSub); try apply nr_refl; apply nr_to_sub.
Qed.
Lemma nr_deliver_user s t' snd m s' o : deliver_user s t' snd m = (s', o) -> nr s s'.
Proof.
  unfold deliver_user. destruct (lookup t' (registry s)) as [w|] eqn:El; [|apply nr_abyss_user].
  destruct (get s w) as [a|] eqn:E; [|apply nr_abyss_user].
  intros H; inversion H; subst. eapply nr_put; [exact E|left]. intros U. exact (U t' El).
Qed.
Lemma nr_terminate s self t' g s' o : terminate s self t' g = (s', o) -> nr s s'.
Proof. unfold terminate. destruct g; [apply nr_deliver_user|]. intros H; inversion H; subst. apply nr_deliver_sys. Qed.
Lemma nr_next s s1 k : next_serial s = (s1, k) -> nr s s1.
Proof. unfold next_serial. intros H; inversion H; subst. intros v a G U. exists a. split; [exact G|split; [reflexivity|split; [reflexivity|exact U]]]. Qed.
Lemma nr_tell s s1 k t' snd n s2 o : next_serial s = (s1, k) -> deliver_user s1 t' snd (UProbe n k) = (s2, o) -> nr s s2.
Proof. intros En E. eapply nr_trans; [eapply nr_next; exact En|eapply nr_deliver_user; exact E]. Qed.
Lemma nr_send_each ts : forall s self n k s' o, send_each s self ts n k = (s', o) -> nr s s'.
Proof.
  induction ts as [|t' rest IH]; intros s self n k s' o; cbn [send_each].
  - intros H; inversion H; subst. apply nr_refl.
  - destruct (deliver_user s t' self (UProbe n k)) as [s1 o1] eqn:E1.
    destruct (send_each s1 self rest n k) as [s2 o2] eqn:E2. intros H; injection H as <- <-.
    eapply nr_trans; [eapply nr_deliver_user; exact E1|eapply IH; exact E2].
Qed.
Lemma nr_bcast s s1 k self ts n s2 o : next_serial s = (s1, k) -> send_each s1 self ts n k = (s2, o) -> nr s s2.
Proof. intros En E. eapply nr_trans; [eapply nr_next; exact En|eapply nr_send_each; exact E]. Qed.
Lemma nr_remove s k : nr s (set_registry s (remove_key k (registry s))).
Proof.
  intros v a G U. exists a. split; [exact G|split; [reflexivity|split; [reflexivity|]]].
  intros t L. cbn [registry set_registry] in L. apply lookup_remove_key in L. exact (U t L).
Qed.
Lemma nr_append_ghost s x : a_userq x = [] -> nr s (set_actors s (actors s ++ [x])).
Proof. intros _ v a G U. exists a. split; [apply get_append_old; exact G|auto]. Qed.
Lemma nr_append_reg s x : a_userq x = [] -> lookup (a_tok x) (registry s) = None ->
  nr s (set_registry (set_actors s (actors s ++ [x])) (set_key (a_tok x) (length (actors s)) (registry s))).
Proof.
  intros _ _ v a G U. exists a. split; [apply (get_append_old s x); exact G|split; [reflexivity|split; [reflexivity|]]].
  intros t L. cbn [registry set_registry] in L. apply lookup_set_key in L. destruct L as [[_ E]|L]; [|exact (U t L)].
  apply get_lt in G. lia.
Qed.

Section NR.
Variable roles : list role.

Lemma nr_terminate_all cs : forall s self g s' o, terminate_all s self cs g = (s', o) -> nr s s'.
Proof.
  induction cs as [|c rest IH]; intros s self g s' o; cbn [terminate_all].
  - intros H; inversion H; subst. apply nr_refl.
  - destruct (terminate s self c g) as [s1 o1] eqn:E1. destruct (terminate_all s1 self rest g) as [s2 o2] eqn:E2.
    intros H; inversion H; subst. eapply nr_trans; [eapply nr_terminate; exact E1|eapply IH; exact E2].
Qed.
Lemma nr_notify_all ws : forall s self, nr s (notify_all s self ws).
Proof.
  induction ws as [|w rest IH]; intros s self; cbn [notify_all]; [apply nr_refl|].
  eapply nr_trans; [|apply IH]. apply nr_deliver_sys.
Qed.
Lemma nr_restart_all cs : forall s self, nr s (restart_all s self cs).
Proof.
  induction cs as [|c rest IH]; intros s self; cbn [restart_all]; [apply nr_refl|].
  eapply nr_trans; [|apply IH]. apply nr_deliver_sys.
Qed.
Lemma nr_stop s w self t' s' o p : stop_if_parent_gone s w self t' = (s', o, p) -> nr s s'.
Proof.
  unfold stop_if_parent_gone. destruct (get s w) as [pa|]; [|intros H; inversion H; subst; apply nr_refl].
  destruct (not_alive (a_st pa)); [|intros H; inversion H; subst; apply nr_refl].
  destruct (terminate s self t' (a_graceful pa)) as [s1 o1] eqn:E. intros H; inversion H; subst. eapply nr_terminate; exact E.
Qed.
Lemma nr_spawn s w self t' r s' o p : spawn s w self t' r = (s', o, p) -> nr s s'.
Proof.
  unfold spawn. destruct (provide s t') as [s1 inst] eqn:Ep.
  assert (K1 : nr s s1) by (apply nr_same; unfold provide in Ep; inversion Ep; subst; reflexivity).
  destruct (lookup t' (registry s1)) eqn:El.
  - intros H; inversion H; subst. eapply nr_trans; [exact K1|apply nr_append_ghost; reflexivity].
  - intros H. eapply nr_trans; [|eapply nr_stop; exact H]. eapply nr_trans; [exact K1|].
    eapply nr_trans; [|apply nr_deliver_sys]. eapply nr_trans; [|apply nr_upd_actor; ks].
    apply (nr_append_reg s1 (new_actor t' self r inst)); [reflexivity|exact El].
Qed.
Lemma nr_escalate s w r s' o p : escalate s w r = (s', o, p) -> nr s s'.
Proof.
  unfold escalate. destruct (get s w) as [a|]; [|intros H; inversion H; subst; apply nr_refl].
  destruct (a_parent a =? rNone); intros H; inversion H; subst.
  - apply nr_same; reflexivity.
  - apply nr_deliver_sys.
Qed.
Lemma nr_report_abnormal s w s' o p : report_abnormal roles s w = (s', o, p) -> nr s s'.
Proof.
  unfold report_abnormal. destruct (get s w) as [a|]; [|intros H; inversion H; subst; apply nr_refl].
  destruct (a_st a); try (intros H; inversion H; subst; apply nr_refl).
  intros H. apply nr_escalate in H. eapply nr_trans; [|exact H].
  eapply nr_trans; [|apply nr_deliver_sys]. apply nr_upd_actor; ks.
Qed.
Lemma nr_do_action s w snd act s' o p : do_action roles s w snd act = (s', o, p) -> nr s s'.
Proof.
  unfold do_action. destruct (get s w) as [a|]; [|intros H; inversion H; subst; apply nr_refl].
  destruct act.
  - destruct (next_serial s) as [s1 k] eqn:En. destruct (deliver_user s1 t rNone (UProbe n k)) as [s2 o2] eqn:E.
    intros H; inversion H; subst. eapply nr_tell; eassumption.
  - destruct (next_serial s) as [s1 k] eqn:En. destruct (deliver_user s1 t (a_tok a) (UProbe n k)) as [s2 o2] eqn:E.
    intros H; inversion H; subst. eapply nr_tell; eassumption.
  - destruct (next_serial s) as [s1 k] eqn:En. destruct (deliver_user s1 snd (a_tok a) (UProbe n k)) as [s2 o2] eqn:E.
    intros H; inversion H; subst. eapply nr_tell; eassumption.
  - destruct (next_serial s) as [s1 k] eqn:En. destruct (send_each s1 (a_tok a) (a_children a) n k) as [s2 o2] eqn:E.
    intros H; inversion H; subst. eapply nr_bcast; eassumption.
  - destruct (spawn s w (a_tok a) t r) as [[s1 o1] p1] eqn:E. intros H; inversion H; subst. eapply nr_spawn; exact E.
  - destruct (terminate s (a_tok a) t g) as [s1 o1] eqn:E. intros H; inversion H; subst. eapply nr_terminate; exact E.
  - intros H; inversion H; subst. apply nr_deliver_sys.
  - intros H; inversion H; subst. apply nr_deliver_sys.
  - destruct (report_abnormal roles s w) as [[s1 o1] p1] eqn:E. intros H; inversion H; subst. eapply nr_report_abnormal; exact E.
  - intros H; inversion H; subst. apply nr_refl.
Qed.
Lemma nr_do_actions acts : forall s w snd s' o p, do_actions roles s w snd acts = (s', o, p) -> nr s s'.
Proof.
  induction acts as [|act rest IH]; intros s w snd s' o p; cbn [do_actions].
  - intros H; inversion H; subst. apply nr_refl.
  - apply (bind_rel nr); [apply nr_trans| |].
    + intros s1 o1 p1 E. eapply nr_do_action; exact E.
    + intros s1 s2 o2 p2 E. eapply IH; exact E.
Qed.
Lemma nr_handle_q q s w tr k snd s' o p : handle_q roles q s w tr k snd = (s', o, p) -> nr s s'.
Proof.
  unfold handle_q. destruct (get s w) as [a|]; [|intros H; inversion H; subst; apply nr_refl].
  destruct q; [intros H; inversion H; subst; apply nr_refl|].
  destruct (do_actions roles s w snd (find_rule (rules (role_of roles a)) tr (a_inst a))) as [[s1 o1] p1] eqn:E.
  intros H; inversion H; subst. eapply nr_do_actions; exact E.
Qed.
Lemma nr_handle s w tr k snd s' o p : handle roles s w tr k snd = (s', o, p) -> nr s s'.
Proof. unfold handle. destruct (get s w); [apply nr_handle_q|intros H; inversion H; subst; apply nr_refl]. Qed.

Lemma nr_try_terminated s w snd s' o p : try_terminated roles s w snd = (s', o, p) -> nr s s'.
Proof.
  unfold try_terminated. destruct (get s w) as [a|]; [|intros H; inversion H; subst; apply nr_refl].
  destruct (a_children a); [|intros H; inversion H; subst; apply nr_refl].
  destruct (a_st a); try (intros H; inversion H; subst; apply nr_refl).
  apply (bind_rel nr); [apply nr_trans| |].
  - intros s1 o1 p1 E. eapply nr_trans; [|eapply nr_handle; exact E]. apply nr_upd_actor; ks.
  - intros s1 s2 o2 p2.
    set (sreg := set_registry s1 (remove_key (a_tok a) (registry s1))).
    set (sn := notify_all sreg (a_tok a) (filter (fun w0 => negb (w0 =? a_parent a)) (a_watchers a))).
    assert (Kn : nr s1 sn).
    { apply nr_trans with (s2 := sreg); [apply nr_remove|apply nr_notify_all]. }
    destruct (a_parent a =? rNone); intros H; inversion H; subst.
    + eapply nr_trans; [exact Kn|apply nr_same; reflexivity].
    + eapply nr_trans; [exact Kn|]. apply nr_deliver_sys.
Qed.

Lemma nr_start_instance s w self parent s' o p : start_instance roles s w self parent = (s', o, p) -> nr s s'.
Proof.
  unfold start_instance. destruct (handle roles s w TRD 0%nat self) as [[s1 o1] p1] eqn:E1.
  destruct (handle roles s1 w TL 0%nat parent) as [[s2 o2] p2] eqn:E2. intros H; inversion H; subst.
  eapply nr_trans; [eapply nr_handle; exact E1|]. eapply nr_trans; [eapply nr_handle; exact E2|].
  destruct p2; [apply nr_refl|apply nr_upd_actor; ks].
Qed.

Lemma nr_process_user s w e s' o p : process_user roles s w e = (s', o, p) -> nr s s'.
Proof.
  unfold process_user. destruct (get s w) as [a|]; [|intros H; inversion H; subst; apply nr_refl].
  destruct (st_ge_terminating (a_st a)).
  - destruct (abyss_user s (e_snd e) (e_rcv e) (e_msg e)) as [s1 o1] eqn:E. intros H; inversion H; subst. eapply nr_abyss_user; exact E.
  - destruct (e_msg e).
    + apply nr_handle_q.
    + intros H; inversion H; subst. eapply nr_trans; [|apply nr_deliver_sys]. apply nr_upd_actor; ks.
    + intros H; inversion H; subst. apply nr_refl.
Qed.


Lemma nr_apply_directive s w r d snd s' o p : apply_directive roles s w r d snd = (s', o, p) -> nr s s'.
Proof.
  unfold apply_directive. destruct (get s w) as [a|]; [|intros H; inversion H; subst; apply nr_refl].
  destruct d.
  - intros H; inversion H; subst. apply nr_deliver_sys.
  - destruct (terminate s (a_tok a) (ar_vref r) false) as [s1 o1] eqn:E1.
    destruct (try_terminated roles s1 w snd) as [[s2 o2] p2] eqn:E2. intros H; inversion H; subst.
    eapply nr_trans; [eapply nr_terminate; exact E1|eapply nr_try_terminated; exact E2].
  - intros H; inversion H; subst. apply nr_deliver_sys.
  - destruct (escalate s w r) as [[s1 o1] p1] eqn:E. intros H; inversion H; subst. eapply nr_escalate; exact E.
  - intros H; inversion H; subst. apply nr_restart_all.
Qed.
Lemma nr_on_accident s w r snd s' o p : on_accident roles s w r snd = (s', o, p) -> nr s s'.
Proof.
  unfold on_accident. destruct (get s w) as [a|]; [|intros H; inversion H; subst; apply nr_refl].
  destruct (ar_strategy r); [apply nr_apply_directive|].
  destruct (sup (role_of roles a)); [apply nr_escalate|apply nr_apply_directive].
Qed.
Lemma nr_drop_child s w who : nr s (drop_child s w who).
Proof. unfold drop_child. destruct (lookup who (registry s)); [apply nr_refl|apply nr_upd_actor; ks]. Qed.


Lemma nr_try_restarted s w snd s' o p : try_restarted roles s w snd = (s', o, p) -> nr s s'.
Proof.
  unfold try_restarted. destruct (get s w) as [a|]; [|intros H; inversion H; subst; apply nr_refl].
  destruct (a_children a); [|intros H; inversion H; subst; apply nr_refl].
  destruct (a_st a); try (intros H; inversion H; subst; apply nr_refl).
  destruct (provide s (a_tok a)) as [s0 inst] eqn:Ep.
  assert (K0 : nr s s0) by (apply nr_same; unfold provide in Ep; inversion Ep; subst; reflexivity).
  intros H. eapply nr_trans; [exact K0|]. revert H.
  apply (bind_rel nr); [apply nr_trans|intros s1 o1 p1 E; eapply nr_handle; exact E|].
  intros s1 s2 o2 p2. apply (bind_rel nr); [apply nr_trans|intros sa oa pa E; eapply nr_handle; exact E|].
  intros sa sb ob pb H. eapply nr_trans; [|eapply nr_start_instance; exact H].
  eapply nr_trans; [|apply nr_deliver_sys]. apply nr_upd_actor; ks.
Qed.

Lemma nr_process_sys s w e s' o p : process_sys roles s w e = (s', o, p) -> nr s s'.
Proof.
  unfold process_sys. destruct (get s w) as [a|]; [|intros H; inversion H; subst; apply nr_refl].
  match goal with |- context [if ?d then _ else _] => destruct d end; [intros H; inversion H; subst; apply nr_refl|].
  destruct (e_msg e) as [| |g|who| |r| | | | |].
  - apply (bind_rel nr); [apply nr_trans|intros s1 o1 p1 E; eapply nr_handle; exact E|].
    intros s1 s2 o2 p2 H; inversion H; subst. apply nr_upd_actor; ks.
  - apply nr_handle.
  - assert (HT : forall x,
      (handle roles x w TT 0 (e_snd e) >>= (fun s3 =>
         match get s3 w with
         | None => ok s3 []
         | Some a3 =>
             let '(s4, o4) := terminate_all s3 (a_tok a3) (a_children a3) (g || a_graceful a3) in
             let '(s5, o5, p) := try_terminated roles s4 w (e_snd e) in (s5, o4 ++ o5, p)
         end)) = (s', o, p) -> nr x s').
    { intros x. apply (bind_rel nr); [apply nr_trans|intros s1 o1 p1 E; eapply nr_handle; exact E|].
      intros s1 s2 o2 p2. destruct (get s1 w) as [a3|]; [|intros H; inversion H; subst; apply nr_refl].
      destruct (terminate_all s1 (a_tok a3) (a_children a3) (g || a_graceful a3)) as [s4 o4] eqn:E4.
      destruct (try_terminated roles s4 w (e_snd e)) as [[s5 o5] p5] eqn:E5. intros H; inversion H; subst.
      eapply nr_trans; [eapply nr_terminate_all; exact E4|eapply nr_try_terminated; exact E5]. }
    assert (Pre : nr s (deliver_sys (upd_actor s w (w_st Terminating)) (a_tok a) (a_tok a) SResume)).
    { apply nr_trans with (s2 := upd_actor s w (w_st Terminating)); [apply nr_upd_actor; ks|apply nr_deliver_sys]. }
    destruct (a_st a); try (intros H; inversion H; subst; apply nr_refl); (intros H; eapply nr_trans; [exact Pre|apply HT; exact H]).
  - intros H. apply nr_trans with (s2 := drop_child s w who); [apply nr_drop_child|]. revert H.
    apply (bind_rel nr); [apply nr_trans|intros s1 o1 p1 E; eapply nr_handle; exact E|].
    intros s1 s2 o2 p2. destruct (get s1 w) as [a2|]; [|intros H; inversion H; subst; apply nr_refl].
    destruct (a_st a2); try (intros H; inversion H; subst; apply nr_refl); [apply nr_try_restarted|apply nr_try_terminated].
  - destruct (a_st a); try (intros H; inversion H; subst; apply nr_refl).
    assert (Pre : nr s (deliver_sys (upd_actor s w (w_st Restarting)) (a_tok a) (a_tok a) SSuspend)).
    { apply nr_trans with (s2 := upd_actor s w (w_st Restarting)); [apply nr_upd_actor; ks|apply nr_deliver_sys]. }
    intros H. eapply nr_trans; [exact Pre|]. revert H.
    apply (bind_rel nr); [apply nr_trans|intros s1 o1 p1 E; eapply nr_handle; exact E|].
    intros s1 s2 o2 p2. destruct (get s1 w) as [a2|]; [|intros H; inversion H; subst; apply nr_refl].
    destruct (terminate_all s1 (a_tok a2) (a_children a2) false) as [s3 o3] eqn:E3.
    destruct (try_restarted roles s3 w (e_snd e)) as [[s4 o4] p4] eqn:E4. intros H; inversion H; subst.
    eapply nr_trans; [eapply nr_terminate_all; exact E3|eapply nr_try_restarted; exact E4].
  - apply nr_on_accident.
  - destruct (e_snd e =? a_parent a); [intros H; inversion H; subst; apply nr_refl|].
    destruct (st_ge_terminating (a_st a)); intros H; inversion H; subst; [apply nr_deliver_sys|apply nr_upd_actor; ks].
  - intros H; inversion H; subst. apply nr_upd_actor; ks.
  - intros H; inversion H; subst. apply nr_refl.
  - intros H; inversion H; subst. apply nr_refl.
  - destruct (a_st a); intros H; inversion H; subst; try apply nr_refl. apply nr_deliver_sys.
Qed.

Lemma nr_run_inner s0 w m s1 o1 : Frame.run_inner roles s0 w m = (s1, o1) -> nr s0 s1.
Proof.
  unfold Frame.run_inner. destruct (match m with MS e => process_sys roles s0 w e | MU e => process_user roles s0 w e end) as [[sx ox] px] eqn:E.
  assert (X : nr s0 sx) by (destruct m; [eapply nr_process_sys; exact E|eapply nr_process_user; exact E]).
  destruct px; [|intros H; inversion H; subst; exact X]. destruct (crashed sx); [intros H; inversion H; subst; exact X|].
  destruct (report_abnormal roles sx w) as [[sy oy] py] eqn:Ey. intros H; inversion H; subst.
  eapply nr_trans; [exact X|eapply nr_report_abnormal; exact Ey].
Qed.

(* a step appends nothing to the mailbox of an object that is registered under no address (its own run still takes the head);
   the object stays unregistered. No reachability premise: this holds from any state *)
Theorem unregistered_receives_nothing_step s l s1 o v a :
  kstep roles s l = Some (s1, o) -> get s v = Some a -> unregA s v ->
  exists a1, get s1 v = Some a1 /\ unregA s1 v /\ seq a1 = (if consumes l v a then tl (seq a) else seq a).
Proof.
  assert (Fin : forall s0 sx a0, nr s0 sx -> get s0 v = Some a0 -> unregA s0 v ->
            exists a1, get (normalize sx) v = Some a1 /\ unregA (normalize sx) v /\ seq a1 = seq a0).
  { intros s0 sx a0 K G U. destruct (K v a0 G U) as (a' & G' & I' & Q' & U'). exists (pop1 a').
    split; [rewrite get_normalize', G'; reflexivity|split; [exact U'|]]. rewrite seq_pop1. unfold seq, inflight_user. rewrite I', Q'. reflexivity. }
  destruct l; cbn [kstep].
  - (* LRun *) destruct (run_actor roles s (Z.to_nat u)) as [[sx ox]|] eqn:E; [|discriminate]. intros H; injection H as <- <-. intros G U.
    destruct (get s (Z.to_nat u)) as [au|] eqn:Eu; [|unfold run_actor in E; rewrite Eu in E; discriminate].
    destruct (a_inflight au) as [m|] eqn:Em; [|unfold run_actor in E; rewrite Eu, Em in E; discriminate].
    rewrite (run_actor_inner roles s (Z.to_nat u) au m Eu Em) in E.
    set (s0 := upd_actor s (Z.to_nat u) (w_inflight None)) in *.
    assert (Ein : Frame.run_inner roles s0 (Z.to_nat u) m = (sx, ox)) by (inversion E; reflexivity).
    pose proof (nr_run_inner _ _ _ _ _ Ein) as K.
    assert (U0 : unregA s0 v) by (intros t; unfold s0; rewrite regsame_upd_actor; apply U).
    destruct (Nat.eq_dec (Z.to_nat u) v) as [Ev|Ev].
    + subst v. rewrite Eu in G. inversion G; subst a.
      assert (G0 : get s0 (Z.to_nat u) = Some (w_inflight None au)) by (apply get_upd_actor_same; exact Eu).
      destruct (Fin _ _ _ K G0 U0) as (a1 & G1 & U1 & S1). exists a1. split; [exact G1|split; [exact U1|]]. rewrite S1.
      unfold consumes. rewrite Em. unfold seq, inflight_user. cbn [a_inflight a_userq w_inflight]. rewrite Em.
      destruct m; [reflexivity|]. rewrite Nat.eqb_refl. reflexivity.
    + assert (G0 : get s0 v = Some a) by (unfold s0, upd_actor; rewrite Eu; rewrite get_put_other by exact Ev; exact G).
      destruct (Fin _ _ _ K G0 U0) as (a1 & G1 & U1 & S1). exists a1. split; [exact G1|split; [exact U1|]]. rewrite S1.
      unfold consumes. destruct (a_inflight a) as [[?|?]|]; try reflexivity. apply Nat.eqb_neq in Ev. rewrite Ev. reflexivity.
  - destruct (next_serial s) as [s0 k] eqn:En. destruct (deliver_user s0 t rNone (UProbe n k)) as [s2 o2] eqn:E. intros H; inversion H; subst. intros G U.
    exact (Fin _ _ _ (nr_tell _ _ _ _ _ _ _ _ En E) G U).
  - destruct (next_serial s) as [s0 k] eqn:En. destruct (deliver_user s0 t rGuard (UProbe n k)) as [s2 o2] eqn:E. intros H; inversion H; subst. intros G U.
    exact (Fin _ _ _ (nr_tell _ _ _ _ _ _ _ _ En E) G U).
  - destruct (terminate s rGuard t g) as [s2 o2] eqn:E. intros H; inversion H; subst. intros G U. exact (Fin _ _ _ (nr_terminate _ _ _ _ _ _ E) G U).
  - destruct (spawn s guard_uid rGuard t r) as [[s2 o2] p] eqn:E. intros H; inversion H; subst. intros G U. exact (Fin _ _ _ (nr_spawn _ _ _ _ _ _ _ _ E) G U).
  - destruct (terminate s rGuard rGuard g) as [s2 o2] eqn:E. intros H; inversion H; subst. intros G U. exact (Fin _ _ _ (nr_terminate _ _ _ _ _ _ E) G U).
  - intros H; inversion H; subst. intros G U. exists a. auto.
Qed.

(* in every reachable state and for every step: an object that is not the registered object of its address has no user
   message appended to its mailbox, and is still not registered afterwards *)
Theorem unregistered_object_receives_nothing ls s os l s1 o v a :
  krun roles kinit ls = Some (s, os) -> kstep roles s l = Some (s1, o) ->
  get s v = Some a -> lookup (a_tok a) (registry s) <> Some v ->
  exists a1, get s1 v = Some a1 /\ lookup (a_tok a1) (registry s1) <> Some v /\ seq a1 = (if consumes l v a then tl (seq a) else seq a).
Proof.
  intros Hr Hs G Hn. pose proof (RI_reachable roles ls kinit s os RI_init Hr) as Ri.
  assert (U : unregA s v). { intros t L. destruct (Ri t v L) as (a' & G' & T'). rewrite G in G'. inversion G'; subst a'. rewrite T' in Hn. contradiction. }
  destruct (unregistered_receives_nothing_step s l s1 o v a Hs G U) as (a1 & G1 & U1 & S1). exists a1. split; [exact G1|split; [apply U1|exact S1]].
Qed.

End NR.
