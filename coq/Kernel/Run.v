(* MV.Kernel.Run — tie T1 for the kernel: replay of the label sequence recorded by the lockstep harness
   (harness/klock) on the real vivid.ActorSystem; the observations of every step must be equal. *)
From MV Require Import Lib.ListX Kernel.Model.
Open Scope Z_scope.

Definition dir_eqb (a b : directive) : bool :=
  match a, b with DRestart, DRestart | DStop, DStop | DResume, DResume | DEscalate, DEscalate | DRestartAll, DRestartAll => true | _, _ => false end.
Definition trig_eqb (a b : trig) : bool :=
  match a, b with
  | TL, TL | TRD, TRD | TRG, TRG | TT, TT | TTS, TTS => true
  | TTO x, TTO y => x =? y
  | TP x, TP y => x =? y
  | _, _ => false
  end.
Definition obs_eqb (a b : obs) : bool :=
  match a, b with
  | OH a1 i1 t1 s1 d1, OH a2 i2 t2 s2 d2 => (a1 =? a2) && Nat.eqb i1 i2 && trig_eqb t1 t2 && Nat.eqb s1 s2 && (d1 =? d2)
  | OD a1 b1 s1, OD a2 b2 s2 => (a1 =? a2) && (b1 =? b2) && Nat.eqb s1 s2
  | OS a1 b1 s1, OS a2 b2 s2 => (a1 =? a2) && (b1 =? b2) && Nat.eqb s1 s2
  | OSp a1 b1, OSp a2 b2 | OW a1 b1, OW a2 b2 | OUw a1 b1, OUw a2 b2 | OXs a1 b1, OXs a2 b2 => (a1 =? a2) && (b1 =? b2)
  | OTr a1 b1 g1, OTr a2 b2 g2 => (a1 =? a2) && (b1 =? b2) && Bool.eqb g1 g2
  | OF a1 i1, OF a2 i2 => (a1 =? a2) && Nat.eqb i1 i2
  | ODec a1 b1 d1 c1, ODec a2 b2 d2 c2 => (a1 =? a2) && (b1 =? b2) && dir_eqb d1 d2 && Nat.eqb c1 c2
  | OEnd c1 r1, OEnd c2 r2 => Bool.eqb c1 c2 && list_eqb Z.eqb r1 r2
  | OCrash, OCrash => true
  | _, _ => false
  end.

Record kcase := { kid : nat; kroles : list role; ksteps : list (label * list obs) }.

(* None = every step is enabled in the model and yields exactly the recorded observations;
   Some k = index of the first step that differs *)
Fixpoint kreplay (roles : list role) (s : kstate) (steps : list (label * list obs)) (k : nat) : option nat :=
  match steps with
  | [] => None
  | (l, o) :: t =>
      match kstep roles s l with
      | Some (s', o') => if list_eqb obs_eqb o o' then kreplay roles s' t (S k) else Some k
      | None => Some k
      end
  end.

Definition kdivergence (c : kcase) : option nat := kreplay (kroles c) kinit (ksteps c) 0.
Definition kcase_ok (c : kcase) : bool := match kdivergence c with None => true | Some _ => false end.
Definition kmismatches (cs : list kcase) : list nat := fail_ids kcase_ok kid cs.

(* for diagnosis: what the model observes at the diverging step *)
Fixpoint kmodel_obs (roles : list role) (s : kstate) (steps : list (label * list obs)) (k : nat) : option (list obs) :=
  match steps with
  | [] => None
  | (l, o) :: t =>
      match kstep roles s l with
      | Some (s', o') => match k with O => Some o' | S k' => kmodel_obs roles s' t k' end
      | None => None
      end
  end.

(* a deterministic scheduler for examples: repeatedly run the lowest-numbered enabled mailbox *)
Fixpoint first_enabled (l : list actor) (k : nat) : option nat :=
  match l with
  | [] => None
  | a :: t => match a_inflight a with Some _ => Some k | None => first_enabled t (S k) end
  end.
Fixpoint drain (roles : list role) (fuel : nat) (s : kstate) : kstate * list (list obs) :=
  match fuel with
  | O => (s, [])
  | S f =>
      match first_enabled (actors s) 0 with
      | None => (s, [])
      | Some u =>
          match kstep roles s (LRun (Z.of_nat u)) with
          | Some (s', o) => let '(s'', os) := drain roles f s' in (s'', o :: os)
          | None => (s, [])
          end
      end
  end.
(* external labels, each followed by draining to quiescence *)
Fixpoint play (roles : list role) (s : kstate) (ls : list label) : kstate * list (list obs) :=
  match ls with
  | [] => (s, [])
  | l :: t =>
      match kstep roles s l with
      | Some (s1, o) =>
          let '(s2, os2) := drain roles 200 s1 in
          let '(s3, os3) := play roles s2 t in (s3, (o :: os2) ++ os3)
      | None => (s, [])
      end
  end.
Definition quiet (s : kstate) : bool := match first_enabled (actors s) 0 with None => true | Some _ => false end.
