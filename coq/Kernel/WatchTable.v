(* MV.Kernel.WatchTable — C06, "every actor that has watched it and not unwatched it": the watcher table of an actor object
   is a function of the watch / unwatch requests that object has taken out of its mailbox, and of nothing else. For every
   role table, from ANY state and for EVERY label: after one step of the kernel the watcher table of every object is
   [next_table] of its table before — unchanged, unless the step is that object's own run of a Watch request (from somebody
   other than its parent, while it is not yet terminating: the sender is inserted) or of an Unwatch request (while it is not
   terminated: the sender is removed). No send, spawn, failure, restart (the table survives a restart), termination of
   another actor, decision or timer touches it; a request changes the table of its receiver only.
   Together with Kernel.Fanout (the terminating step queues a notice for every entry of the table it terminated with, and for
   the parent) and Kernel.Notice (never more than one notice per entitlement): who is notified at the termination is
   determined by the requests the target processed — a watcher whose Unwatch was processed after its Watch is not in the
   table. Requests travel in the target's system queue, which is FIFO (mailbox specification, C01/C02), so they are processed
   in the order one watcher issued them. *)
From MV Require Import Lib.ListX Kernel.Model Kernel.Lifecycle Kernel.Status Kernel.Registry Kernel.Frame Kernel.Watch Kernel.Hierarchy Kernel.Fanout.
Open Scope Z_scope.

Definition next_table (l : label) (v : nat) (b : actor) : list ref :=
  match l with
  | LRun u =>
      if Nat.eqb (Z.to_nat u) v then
        match a_inflight b with
        | Some (MS e) =>
            match e_msg e with
            | SWatch =>
                if (e_snd e =? a_parent b) || st_ge_terminating (a_st b) then a_watchers b
                else insert_sorted (e_snd e) (a_watchers b)
            | SUnwatch =>
                match a_st b with Terminated => a_watchers b | _ => remove_ref (e_snd e) (a_watchers b) end
            | _ => a_watchers b
            end
        | _ => a_watchers b
        end
      else a_watchers b
  | _ => a_watchers b
  end.

Lemma sq_watchers s s' v b : sq s s' -> get s v = Some b -> exists b', get s' v = Some b' /\ a_watchers b' = a_watchers b.
Proof. intros Q G. destruct (Q v b G) as (b' & G' & (_ & _ & _ & W & _)). exists b'. split; assumption. Qed.

Section WT.
Variable roles : list role.

Ltac hyps := try solve [exact sqA_refl | exact sqA_trans | exact S_userq | exact S_sysq | exact S_susp | exact S_children
                       | exact S_accidents | exact S_st | exact S_inst | exact S_graceful | eassumption].
Ltac fr_by lem := eapply lem; hyps.

Lemma sq_try_terminated s u snd s' o p : try_terminated roles s u snd = (s', o, p) -> sq s s'.
Proof. intros H. unfold sq. fr_by Frame.fr_try_terminated. Qed.
Lemma sq_try_restarted s u snd s' o p : try_restarted roles s u snd = (s', o, p) -> sq s s'.
Proof. intros H. unfold sq. fr_by Frame.fr_try_restarted. Qed.
Lemma sq_on_accident s u r snd s' o p : on_accident roles s u r snd = (s', o, p) -> sq s s'.
Proof. intros H. unfold sq. fr_by Frame.fr_on_accident. Qed.
Lemma sq_process_user s u e s' o p : process_user roles s u e = (s', o, p) -> sq s s'.
Proof. intros H. unfold sq. fr_by Frame.fr_process_user. Qed.
Lemma sq_deliver_user s t snd m s' o : deliver_user s t snd m = (s', o) -> sq s s'.
Proof. intros H. unfold sq. fr_by Frame.fr_deliver_user. Qed.
Lemma sq_spawn s u self t r s' o p : spawn s u self t r = (s', o, p) -> sq s s'.
Proof. intros H. unfold sq. fr_by Frame.fr_spawn. Qed.
Lemma sq_upd s u f : (forall a, sqA a (f a)) -> sq s (upd_actor s u f).
Proof. intros H. unfold sq. apply Frame.fr_upd_actor; [exact sqA_refl|exact H]. Qed.

(* every message other than a watch / unwatch request leaves every watcher table alone *)
Lemma sq_process_sys_nw s u e s' o p :
  e_msg e <> SWatch -> e_msg e <> SUnwatch -> process_sys roles s u e = (s', o, p) -> sq s s'.
Proof.
  intros NW NU. unfold process_sys. destruct (get s u) as [a|] eqn:Ea; [|intros H; inversion H; subst; apply sq_refl].
  match goal with |- context [if ?d then _ else _] => destruct d end; [intros H; inversion H; subst; apply sq_refl|].
  destruct (e_msg e) eqn:Em; try congruence.
  - apply (bind_rel sq); [apply sq_trans| |].
    + intros s1 o1 p1 E. eapply sq_handle; exact E.
    + intros s1 s2 o2 p2 H; inversion H; subst. apply sq_upd. intros b. apply S_accidents.
  - apply sq_handle.
  - assert (HT : forall s0, sq s s0 ->
      (handle roles s0 u TT 0%nat (e_snd e) >>= (fun s3 =>
         match get s3 u with
         | None => ok s3 []
         | Some a3 =>
             let '(s4, o4) := terminate_all s3 (a_tok a3) (a_children a3) (g || a_graceful a3) in
             let '(s5, o5, p) := try_terminated roles s4 u (e_snd e) in (s5, o4 ++ o5, p)
         end)) = (s', o, p) -> sq s s').
    { intros s0 M0 H. eapply sq_trans; [exact M0|]. revert H. apply (bind_rel sq); [apply sq_trans| |].
      - intros s1 o1 p1 E. eapply sq_handle; exact E.
      - intros s1 s2 o2 p2. destruct (get s1 u) as [a3|]; [|intros H; inversion H; subst; apply sq_refl].
        destruct (terminate_all s1 (a_tok a3) (a_children a3) (g || a_graceful a3)) as [s4 o4] eqn:E4.
        destruct (try_terminated roles s4 u (e_snd e)) as [[s5 o5] p5] eqn:E5. intros H; inversion H; subst.
        eapply sq_trans; [eapply sq_terminate_all; exact E4|eapply sq_try_terminated; exact E5]. }
    destruct (a_st a) eqn:Est; try (intros H; inversion H; subst; apply sq_refl); apply HT;
      (apply sq_trans with (b := upd_actor s u (w_st Terminating)); [apply sq_upd; intros b; apply S_st|apply sq_deliver_sys]).
  - apply (bind_rel sq); [apply sq_trans| |].
    + intros s1 o1 p1 E. eapply sq_trans; [|eapply sq_handle; exact E]. apply sq_drop_child.
    + intros s1 s2 o2 p2. destruct (get s1 u) as [a2|]; [|intros H; inversion H; subst; apply sq_refl].
      destruct (a_st a2); try (intros H; inversion H; subst; apply sq_refl); [apply sq_try_restarted|apply sq_try_terminated].
  - destruct (a_st a) eqn:Est; try (intros H; inversion H; subst; apply sq_refl).
    intros H. apply sq_trans with (b := upd_actor s u (w_st Restarting)); [apply sq_upd; intros b; apply S_st|]. revert H.
    apply (bind_rel sq); [apply sq_trans| |].
    + intros s1 o1 p1 E. eapply sq_trans; [|eapply sq_handle; exact E]. apply sq_deliver_sys.
    + intros s1 s2 o2 p2. destruct (get s1 u) as [a2|]; [|intros H; inversion H; subst; apply sq_refl].
      destruct (terminate_all s1 (a_tok a2) (a_children a2) false) as [s3 o3] eqn:E3.
      destruct (try_restarted roles s3 u (e_snd e)) as [[s4 o4] p4] eqn:E4. intros H; inversion H; subst.
      eapply sq_trans; [eapply sq_terminate_all; exact E3|eapply sq_try_restarted; exact E4].
  - apply sq_on_accident.
  - intros H; inversion H; subst. apply sq_refl.
  - intros H; inversion H; subst. apply sq_refl.
  - destruct (a_st a); intros H; inversion H; subst; try apply sq_refl. apply sq_deliver_sys.
Qed.

Definition is_wreq (m : anymsg) : bool :=
  match m with MS e => match e_msg e with SWatch | SUnwatch => true | _ => false end | MU _ => false end.

Lemma sq_run_inner_nw s0 u m s' o : is_wreq m = false -> run_inner roles s0 u m = (s', o) -> sq s0 s'.
Proof.
  intros Hw. unfold run_inner.
  destruct (match m with MS e => process_sys roles s0 u e | MU e => process_user roles s0 u e end) as [[s1 o1] p] eqn:E.
  assert (F1 : sq s0 s1).
  { destruct m as [e|e]; [|eapply sq_process_user; exact E]. cbn [is_wreq] in Hw.
    eapply sq_process_sys_nw; [| |exact E]; intros X; rewrite X in Hw; discriminate. }
  destruct p; [|intros H; inversion H; subst; exact F1].
  destruct (crashed s1); [intros H; inversion H; subst; exact F1|].
  destruct (report_abnormal roles s1 u) as [[s2 o2] p2] eqn:E2. intros H; inversion H; subst.
  eapply sq_trans; [exact F1|eapply sq_report_abnormal; exact E2].
Qed.

(* table of object v after normalize *)
Lemma table_normalize s v b : get s v = Some b -> exists b', get (normalize s) v = Some b' /\ a_watchers b' = a_watchers b.
Proof. intros G. exists (pop1 b). split; [rewrite get_normalize, G; reflexivity|apply pop1_watchers]. Qed.

(* the table the running object has after a watch / unwatch request, computed from its record a0 *)
Definition req_table (a0 : actor) (e : env smsg) : list ref :=
  match e_msg e with
  | SWatch => if (e_snd e =? a_parent a0) || st_ge_terminating (a_st a0) then a_watchers a0 else insert_sorted (e_snd e) (a_watchers a0)
  | SUnwatch => match a_st a0 with Terminated => a_watchers a0 | _ => remove_ref (e_snd e) (a_watchers a0) end
  | _ => a_watchers a0
  end.

Lemma wreq_tables s0 r a0 e s1 o1 :
  get s0 r = Some a0 -> is_wreq (MS e) = true -> run_inner roles s0 r (MS e) = (s1, o1) ->
  forall v b0, get s0 v = Some b0 ->
    exists b1, get s1 v = Some b1 /\ a_watchers b1 = (if Nat.eqb r v then req_table a0 e else a_watchers b0).
Proof.
  intros G0 Hw Hin v b0 Gv. unfold run_inner, process_sys in Hin. rewrite G0 in Hin. unfold req_table. cbn [is_wreq] in Hw.
  assert (SAME : forall sx, sq s0 sx -> exists b1, get sx v = Some b1 /\ a_watchers b1 = a_watchers b0).
  { intros sx Q. apply (sq_watchers s0 sx v b0 Q Gv). }
  assert (ID : (if Nat.eqb r v then a_watchers a0 else a_watchers b0) = a_watchers b0).
  { destruct (Nat.eqb_spec r v) as [<-|_]; [|reflexivity]. rewrite G0 in Gv. inversion Gv; reflexivity. }
  destruct (e_msg e) eqn:Em; try discriminate.
  - (* SWatch *)
    assert (D : match a_st a0 with Terminated => false | _ => false end = false) by (destruct (a_st a0); reflexivity).
    rewrite D in Hin. destruct (e_snd e =? a_parent a0) eqn:Ep; cbn [orb].
    + inversion Hin; subst. rewrite ID. apply SAME, sq_refl.
    + destruct (st_ge_terminating (a_st a0)) eqn:Eg.
      * inversion Hin; subst. rewrite ID. apply SAME, sq_deliver_sys.
      * inversion Hin; subst. unfold upd_actor. rewrite G0. destruct (Nat.eqb_spec r v) as [<-|Hne].
        -- eexists. split; [eapply get_put_same; exact G0|reflexivity].
        -- exists b0. split; [rewrite get_put_other by exact Hne; exact Gv|reflexivity].
  - (* SUnwatch *)
    destruct (a_st a0) eqn:Est.
    + inversion Hin; subst. unfold upd_actor. rewrite G0. destruct (Nat.eqb_spec r v) as [<-|Hne].
      * eexists. split; [eapply get_put_same; exact G0|reflexivity].
      * exists b0. split; [rewrite get_put_other by exact Hne; exact Gv|reflexivity].
    + inversion Hin; subst. unfold upd_actor. rewrite G0. destruct (Nat.eqb_spec r v) as [<-|Hne].
      * eexists. split; [eapply get_put_same; exact G0|reflexivity].
      * exists b0. split; [rewrite get_put_other by exact Hne; exact Gv|reflexivity].
    + inversion Hin; subst. unfold upd_actor. rewrite G0. destruct (Nat.eqb_spec r v) as [<-|Hne].
      * eexists. split; [eapply get_put_same; exact G0|reflexivity].
      * exists b0. split; [rewrite get_put_other by exact Hne; exact Gv|reflexivity].
    + inversion Hin; subst. rewrite ID. apply SAME, sq_refl.
Qed.

Theorem watch_table_step s l s' o v b :
  kstep roles s l = Some (s', o) -> get s v = Some b ->
  exists b', get s' v = Some b' /\ a_watchers b' = next_table l v b.
Proof.
  intros Hk Hb.
  assert (EXT : forall s1, sq s s1 -> s' = normalize s1 -> exists b', get s' v = Some b' /\ a_watchers b' = a_watchers b).
  { intros s1 Q ->. destruct (sq_watchers s s1 v b Q Hb) as (b1 & G1 & W1).
    destruct (table_normalize s1 v b1 G1) as (b' & G' & W'). exists b'. split; [exact G'|congruence]. }
  destruct l; cbn [kstep next_table] in *.
  - (* LRun *)
    set (r := Z.to_nat u) in *.
    destruct (run_actor roles s r) as [[s1 o1]|] eqn:E; [|discriminate]. inversion Hk; subst s' o. clear Hk EXT.
    assert (Er : exists ar m, get s r = Some ar /\ a_inflight ar = Some m).
    { revert E. unfold run_actor. destruct (get s r) as [ar|]; [|discriminate]. destruct (a_inflight ar) as [m|] eqn:Em; [|discriminate]. intros _. eauto. }
    destruct Er as (ar & m & Er & Em).
    pose proof (run_actor_inner roles s r ar m Er Em) as RI'. rewrite E in RI'.
    set (s0 := upd_actor s r (w_inflight None)) in *.
    assert (Hin : run_inner roles s0 r m = (s1, o1)) by (inversion RI'; reflexivity).
    assert (Gr : get s0 r = Some (w_inflight None ar)) by (apply get_upd_actor_same; exact Er).
    assert (G0 : exists b0, get s0 v = Some b0 /\ a_watchers b0 = a_watchers b).
    { unfold s0, upd_actor. rewrite Er. destruct (Nat.eq_dec r v) as [<-|Hne].
      - rewrite Er in Hb. inversion Hb; subst b. eexists. split; [eapply get_put_same; exact Er|reflexivity].
      - exists b. split; [rewrite get_put_other by exact Hne; exact Hb|reflexivity]. }
    destruct G0 as (b0 & G0 & W0).
    assert (FIN : forall T, (exists b1, get s1 v = Some b1 /\ a_watchers b1 = T) -> exists b', get (normalize s1) v = Some b' /\ a_watchers b' = T).
    { intros T (b1 & G1 & W1). destruct (table_normalize s1 v b1 G1) as (b' & G' & W'). exists b'. split; [exact G'|congruence]. }
    apply FIN.
    destruct (is_wreq m) eqn:Hw.
    + destruct m as [e|e]; [|discriminate].
      destruct (wreq_tables s0 r _ e s1 o1 Gr Hw Hin v b0 G0) as (b1 & G1 & W1). exists b1. split; [exact G1|]. rewrite W1.
      destruct (Nat.eqb_spec r v) as [<-|Hne].
      * rewrite Er in Hb. inversion Hb; subst b. rewrite Em. unfold req_table. cbn [a_parent a_st a_watchers w_inflight].
        cbn [is_wreq] in Hw. destruct (e_msg e); try discriminate; reflexivity.
      * exact W0.
    + pose proof (sq_run_inner_nw s0 r m s1 o1 Hw Hin) as Q. destruct (sq_watchers s0 s1 v b0 Q G0) as (b1 & G1 & W1).
      exists b1. split; [exact G1|]. rewrite W1, W0.
      destruct (Nat.eqb_spec r v) as [<-|Hne]; [|reflexivity].
      rewrite Er in Hb. inversion Hb; subst b. rewrite Em. destruct m as [e|e]; [|reflexivity].
      cbn [is_wreq] in Hw. destruct (e_msg e); try discriminate; reflexivity.
  - destruct (next_serial s) as [s1 k] eqn:En. destruct (deliver_user s1 t rNone (UProbe n k)) as [s2 o2] eqn:E. inversion Hk; subst.
    apply (EXT s2); [|reflexivity]. eapply sq_trans; [|eapply sq_deliver_user; exact E].
    intros w c Gc. exists c. split; [unfold next_serial in En; inversion En; subst; exact Gc|apply sqA_refl].
  - destruct (next_serial s) as [s1 k] eqn:En. destruct (deliver_user s1 t rGuard (UProbe n k)) as [s2 o2] eqn:E. inversion Hk; subst.
    apply (EXT s2); [|reflexivity]. eapply sq_trans; [|eapply sq_deliver_user; exact E].
    intros w c Gc. exists c. split; [unfold next_serial in En; inversion En; subst; exact Gc|apply sqA_refl].
  - destruct (terminate s rGuard t g) as [s1 o1] eqn:E. inversion Hk; subst. apply (EXT s1); [eapply sq_terminate; exact E|reflexivity].
  - destruct (spawn s guard_uid rGuard t r) as [[s1 o1] p] eqn:E. inversion Hk; subst. apply (EXT s1); [eapply sq_spawn; exact E|reflexivity].
  - destruct (terminate s rGuard rGuard g) as [s1 o1] eqn:E. inversion Hk; subst. apply (EXT s1); [eapply sq_terminate; exact E|reflexivity].
  - inversion Hk; subst. exists b. split; [exact Hb|reflexivity].
Qed.

End WT.
