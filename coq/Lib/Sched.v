(* MV.Lib.Sched — layer A: atomic-step machines over an unbounded pool of threads.
   A machine gives the effect of ONE atomic step of one thread on the shared memory
   (sync/atomic operations are sequentially consistent single steps; a plain load/store
   pair on shared memory is two steps). Threads are pool slots; a step may end its thread and
   may spawn new threads (appended to the pool), so "any number of goroutines" is the
   environment thread spawning at will. A schedule is a list of (thread id, choice); the
   choice resolves data non-determinism (payloads, which thread the environment spawns,
   whether a handler panics). All theorems are invariants over [reach], i.e. over every
   schedule of every length with every number of threads. *)
From MV Require Import Lib.ListX.
Open Scope Z_scope.

Record machine := {
  shared : Type; local : Type; choice : Type; ev : Type;
  tstep : shared -> local -> choice -> option (shared * option local * list local * ev)
}.

Section Sched.
Variable M : machine.
Definition pool := list (option (local M)).
Definition state := (shared M * pool)%type.

Definition gstep (st : state) (i : nat) (c : choice M) : option (state * ev M) :=
  match nth_error (snd st) i with
  | Some (Some l) =>
      match tstep M (fst st) l c with
      | Some (s', ol, spawned, e) => Some ((s', upd i ol (snd st) ++ map Some spawned), e)
      | None => None
      end
  | _ => None
  end.

Fixpoint run (st : state) (sched : list (nat * choice M)) : option (state * list (nat * ev M)) :=
  match sched with
  | [] => Some (st, [])
  | (i, c) :: t =>
      match gstep st i c with
      | Some (st', e) =>
          match run st' t with
          | Some (st'', es) => Some (st'', (i, e) :: es)
          | None => None
          end
      | None => None
      end
  end.

Inductive reach (init : state) : state -> Prop :=
| reach_init : reach init init
| reach_step st i c st' e : reach init st -> gstep st i c = Some (st', e) -> reach init st'.

Lemma inv_reach (init : state) (Inv : state -> Prop) :
  Inv init ->
  (forall st i c st' e, Inv st -> gstep st i c = Some (st', e) -> Inv st') ->
  forall st, reach init st -> Inv st.
Proof. intros H0 Hs st Hr. induction Hr; eauto. Qed.

Lemma run_reach init sched : forall st st' es,
  reach init st -> run st sched = Some (st', es) -> reach init st'.
Proof.
  induction sched as [|[i c] t IH]; intros st st' es Hr H; simpl in H.
  - inversion H; subst; assumption.
  - destruct (gstep st i c) as [[st1 e]|] eqn:E; [|discriminate].
    destruct (run st1 t) as [[st2 es2]|] eqn:E2; [|discriminate].
    inversion H; subst. eapply IH; [|exact E2]. econstructor; eauto.
Qed.

(* ---- sums of indicator functions over the live threads of a pool ---- *)
Fixpoint total (f : local M -> Z) (p : pool) : Z :=
  match p with
  | [] => 0
  | None :: t => total f t
  | Some l :: t => f l + total f t
  end.

Definition fo (f : local M -> Z) (o : option (local M)) : Z :=
  match o with Some l => f l | None => 0 end.

Lemma total_app f p q : total f (p ++ q) = total f p + total f q.
Proof. induction p as [|[l|] t IH]; simpl; lia. Qed.

Lemma total_map_Some f ls : total f (map Some ls) = fold_right (fun l a => f l + a) 0 ls.
Proof. induction ls as [|l t IH]; simpl; lia. Qed.

Lemma total_upd f p i l x :
  nth_error p i = Some (Some l) -> total f (upd i x p) = total f p - f l + fo f x.
Proof.
  revert i; induction p as [|h t IH]; intros [|i] H; simpl in *; try discriminate.
  - inversion H; subst. destruct x; simpl; lia.
  - rewrite (IH i H). destruct h; lia.
Qed.

Lemma total_nonneg f p : (forall l, 0 <= f l) -> 0 <= total f p.
Proof. intros Hf. induction p as [|[l|] t IH]; simpl; try lia. specialize (Hf l). lia. Qed.

Lemma total_ge_nth f p i l :
  (forall l, 0 <= f l) -> nth_error p i = Some (Some l) -> f l <= total f p.
Proof.
  intros Hf. revert i; induction p as [|h t IH]; intros [|i] H; simpl in *; try discriminate.
  - inversion H; subst. pose proof (total_nonneg f t Hf). lia.
  - specialize (IH i H). destruct h as [l'|]; [specialize (Hf l')|]; lia.
Qed.

Lemma total_le f g p : (forall l, f l <= g l) -> total f p <= total g p.
Proof. intros H. induction p as [|[l|] t IH]; simpl; try lia. specialize (H l). lia. Qed.

Definition all_done (p : pool) : Prop := Forall (fun o => o = None) p.

Lemma total_all_done f p : all_done p -> total f p = 0.
Proof. induction 1 as [|o t Ho _ IH]; simpl; [reflexivity|]. subst. assumption. Qed.

(* every live thread satisfies P *)
Definition all_live (P : local M -> Prop) (p : pool) : Prop :=
  forall i l, nth_error p i = Some (Some l) -> P l.

Lemma total_zero_live f p : (forall l, 0 <= f l) -> total f p = 0 -> all_live (fun l => f l = 0) p.
Proof.
  intros Hf Ht i l Hn. pose proof (total_ge_nth f p i l Hf Hn). specialize (Hf l). lia.
Qed.

End Sched.

Arguments total {M} f p.
Arguments fo {M} f o.
Arguments gstep {M} st i c.
Arguments run {M} st sched.
Arguments reach {M} init st.
Arguments all_done {M} p.
Arguments all_live {M} P p.
