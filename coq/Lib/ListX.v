(* MV.Lib.ListX — small list toolkit shared by the sequential models (layer C). *)
From Coq Require Export List Arith ZArith Lia Bool.
Export ListNotations.

(* [upd i v l]: slice assignment l[i] = v (no-op out of range, like a guarded store). *)
Fixpoint upd {A} (i : nat) (v : A) (l : list A) : list A :=
  match l, i with
  | [], _ => []
  | _ :: t, O => v :: t
  | h :: t, S j => h :: upd j v t
  end.

Lemma upd_length {A} i (v : A) l : length (upd i v l) = length l.
Proof. revert i; induction l as [|h t IH]; intros [|i]; simpl; auto. Qed.

Lemma upd_upd {A} i (v w : A) l : upd i w (upd i v l) = upd i w l.
Proof. revert i; induction l as [|h t IH]; intros [|i]; simpl; try reflexivity. f_equal. apply IH. Qed.

Lemma upd_split {A} i (v : A) l :
  i < length l -> upd i v l = firstn i l ++ v :: skipn (S i) l.
Proof.
  revert i; induction l as [|h t IH]; intros [|i] H; simpl in *; try lia; auto.
  rewrite IH by lia. reflexivity.
Qed.

Lemma nth_upd_same {A} i (v d : A) l : i < length l -> nth i (upd i v l) d = v.
Proof. revert i; induction l as [|h t IH]; intros [|i] H; simpl in *; try lia; auto. apply IH; lia. Qed.

Lemma nth_upd_other {A} i j (v d : A) l : i <> j -> nth j (upd i v l) d = nth j l d.
Proof.
  revert i j; induction l as [|h t IH]; intros [|i] [|j] H; simpl in *; try lia; auto.
Qed.

Lemma firstn_upd_le {A} i k (v : A) l : k <= i -> firstn k (upd i v l) = firstn k l.
Proof.
  revert i k; induction l as [|h t IH]; intros [|i] [|k] H; simpl in *; try lia; auto.
  f_equal. apply IH; lia.
Qed.

Lemma skipn_upd_gt {A} i k (v : A) l : i < k -> skipn k (upd i v l) = skipn k l.
Proof.
  revert i k; induction l as [|h t IH]; intros [|i] [|k] H; simpl in *; try lia; auto.
  apply IH; lia.
Qed.

Lemma firstn_S_upd {A} i (v : A) l :
  i < length l -> firstn (S i) (upd i v l) = firstn i l ++ [v].
Proof.
  revert i; induction l as [|h t IH]; intros [|i] H; simpl in *; try lia; auto.
  f_equal. apply IH; lia.
Qed.

Lemma skipn_upd_le {A} i k (v : A) l :
  k <= i -> i < length l -> skipn k (upd i v l) = upd (i - k) v (skipn k l).
Proof.
  revert i k; induction l as [|h t IH]; intros [|i] [|k] H H2; simpl in *; try lia; auto.
  apply IH; lia.
Qed.

Lemma upd_last {A} (v : A) l :
  0 < length l -> upd (length l - 1) v l = firstn (length l - 1) l ++ [v].
Proof.
  intros H. rewrite upd_split by lia.
  replace (S (length l - 1)) with (length l) by lia.
  rewrite skipn_all. reflexivity.
Qed.

Lemma firstn_skipn_succ {A} (l : list A) r k d :
  r + k < length l ->
  firstn (S k) (skipn r l) = firstn k (skipn r l) ++ [nth (r + k) l d].
Proof.
  revert r k; induction l as [|h t IH]; intros r k H; simpl in *; try lia.
  destruct r as [|r]; simpl.
  - destruct k as [|k]; simpl; auto. f_equal.
    specialize (IH 0 k). simpl in IH. apply IH. lia.
  - apply IH. lia.
Qed.

Lemma skipn_nth_cons {A} (l : list A) r d :
  r < length l -> skipn r l = nth r l d :: skipn (S r) l.
Proof.
  revert r; induction l as [|h t IH]; intros [|r] H; simpl in *; try lia; auto.
  apply IH; lia.
Qed.

Lemma firstn_succ_nth {A} (l : list A) k d :
  k < length l -> firstn (S k) l = firstn k l ++ [nth k l d].
Proof.
  revert k; induction l as [|h t IH]; intros [|k] H; simpl in *; try lia; auto.
  f_equal. apply IH. lia.
Qed.

(* list equality on Z, boolean *)
Fixpoint list_eqb {A} (eqb : A -> A -> bool) (l1 l2 : list A) : bool :=
  match l1, l2 with
  | [], [] => true
  | a :: t1, b :: t2 => eqb a b && list_eqb eqb t1 t2
  | _, _ => false
  end.

Lemma list_eqb_eq {A} (eqb : A -> A -> bool) :
  (forall a b, eqb a b = true <-> a = b) ->
  forall l1 l2, list_eqb eqb l1 l2 = true <-> l1 = l2.
Proof.
  intros He. induction l1 as [|a t IH]; intros [|b t2]; simpl; split; intros H;
    try discriminate; auto.
  - apply andb_true_iff in H as [H1 H2]. apply He in H1. apply IH in H2. congruence.
  - inversion H; subst. apply andb_true_iff. split; [apply He; auto | apply IH; auto].
Qed.

Definition opt_eqb {A} (eqb : A -> A -> bool) (a b : option A) : bool :=
  match a, b with
  | None, None => true
  | Some x, Some y => eqb x y
  | _, _ => false
  end.

(* indices of the cases on which a check fails *)
Fixpoint fail_ids {C} (ok : C -> bool) (id : C -> nat) (cs : list C) : list nat :=
  match cs with
  | [] => []
  | c :: t => if ok c then fail_ids ok id t else id c :: fail_ids ok id t
  end.
