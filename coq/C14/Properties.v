(* MV.C14.Properties — the statements of property C14 and nothing else.
   Every theorem is closed by [exact <lemma>] and followed by Print Assumptions.

   Vocabulary (EcsModel.v, EcsSpec.v):
     step / world_init   the executable model of engine/ecs that follows the Go code (slot table with
                         intrusive free list and generations, archetype graph keyed by bit masks, member
                         lists, entity index, column storage with primaryKeys/rows/invalids);
     spec                the bookkeeping a user can do from the history alone: [living] = handles returned
                         by Spawn/Spawns and not annihilated since, [issued] = every handle ever returned,
                         [comps e] = the component ids e was spawned with, [data e c] = the value last
                         written to component c of e (0 = the zero struct before any write; writes are
                         recorded only for a living e that has c: [owns]);
     reach ops w sp      running the history [ops] from the empty world gives model state w and
                         bookkeeping sp, and every operation met the API's precondition [valid_op]:
                         Annihilate(s) only living handles, each once (double / stale annihilate is the
                         malformed stream, not claimed); data is reached through a query result only for
                         a living entity and a component it has.  Alive, Get and the write through
                         World.Get accept any handle. *)
From MV Require Import Lib.ListX C14.EcsModel C14.EcsSpec C14.EcsProofs.
From Coq Require Import Permutation.

(* 1. Handles of simultaneously living entities are pairwise distinct ... *)
Theorem C14_distinct_living : forall ops w sp,
  reach ops w sp -> NoDup (living sp).
Proof. exact distinct_living. Qed.
Print Assumptions C14_distinct_living.

(* ... and no handle is ever handed out twice, not even after its slot has been recycled:
   the list of all handles ever issued has no duplicate, and a new spawn returns a handle outside it. *)
Theorem C14_never_reissued : forall ops w sp,
  reach ops w sp -> NoDup (issued sp) /\ incl (living sp) (issued sp).
Proof. exact never_reissued. Qed.
Print Assumptions C14_never_reissued.

Theorem C14_spawn_fresh : forall ops w sp cs,
  reach ops w sp -> exists e, snd (step w (Spawn cs)) = OHandle e /\ ~ In e (issued sp).
Proof. exact spawn_fresh. Qed.
Print Assumptions C14_spawn_fresh.

(* 2. For every handle ever issued — including stale handles whose slot now carries a newer entity —
   Alive answers true exactly while the entity is living: from its spawn until it is annihilated and
   never again afterwards. *)
Theorem C14_alive_iff_living : forall ops w sp e,
  reach ops w sp -> In e (issued sp) -> snd (step w (Alive e)) = OBool (inb e (living sp)).
Proof. exact alive_iff_living. Qed.
Print Assumptions C14_alive_iff_living.

(* 3. A query returns each living entity whose component set satisfies the filter exactly once and
   no other entity, for every And/Or/In/NotIn/Equal filter. *)
Theorem C14_query_exact : forall ops w sp q,
  reach ops w sp ->
  exists l, snd (step w (Query q)) = OHandles l /\ NoDup l /\
            Permutation l (filter (fun e => sat q (comps sp e)) (living sp)).
Proof. exact query_exact. Qed.
Print Assumptions C14_query_exact.

(* 4. Component data.  Reading through the world returns the value last written to that entity's
   component (nil for a dead entity or a component it lacks) ... *)
Theorem C14_data_get_last_write : forall ops w sp e c,
  reach ops w sp -> In e (issued sp) ->
  snd (step w (Get e c)) = OVal (if owns sp e c then Some (data sp e c) else None).
Proof. exact get_last_write. Qed.
Print Assumptions C14_data_get_last_write.

(* ... reading through a query result returns the same cell ... *)
Theorem C14_data_result_get_last_write : forall ops w sp e c,
  reach ops w sp -> owns sp e c = true -> snd (step w (RGet e c)) = OVal (Some (data sp e c)).
Proof. exact rget_last_write. Qed.
Print Assumptions C14_data_result_get_last_write.

(* ... a write through the world changes the cell of that entity's component and no other cell
   (self-contained form: what any later read of any issued handle returns) ... *)
Theorem C14_data_isolation : forall ops w sp e c v e' c',
  reach ops w sp -> In e' (issued sp) ->
  snd (step (fst (step w (Write e c v))) (Get e' c')) =
  if owns sp e c && hc_eqb (e, c) (e', c') then OVal (Some v) else snd (step w (Get e' c')).
Proof. exact write_isolated. Qed.
Print Assumptions C14_data_isolation.

(* ... and so does a write through a query result. *)
Theorem C14_data_isolation_result : forall ops w sp e c v e' c',
  reach ops w sp -> owns sp e c = true -> In e' (issued sp) ->
  snd (step (fst (step w (RWrite e c v))) (Get e' c')) =
  if hc_eqb (e, c) (e', c') then OVal (Some v) else snd (step w (Get e' c')).
Proof. exact rwrite_isolated. Qed.
Print Assumptions C14_data_isolation_result.

(* A new entity's components start from the zero value, whatever the recycled slot and the recycled
   storage row held before. *)
Theorem C14_data_fresh_zero : forall ops w sp cs c,
  reach ops w sp -> In c cs ->
  exists e, snd (step w (Spawn cs)) = OHandle e /\
            snd (step (fst (step w (Spawn cs))) (Get e c)) = OVal (Some 0%Z).
Proof. exact fresh_component_zero. Qed.
Print Assumptions C14_data_fresh_zero.

(* ---------- non-vacuity: a valid history with two slot reuses, three archetypes, bulk spawn and bulk
   annihilate is reachable; its bookkeeping and the model's answers ---------- *)
Definition ex_ops : list op :=
  [Reg 7; Reg 3; Spawn [1]; Spawn [1; 2]; Write (2, 0) 2 5%Z; Annihilate (1, 0); Spawn [2];
   Spawns 2 [1]; Annihilates [(2, 0); (3, 0)]; Spawn [1; 2]; Spawn []].

Example C14_example_reach :
  option_map (fun p => (living (snd p), issued (snd p))) (exec world_init spec_init ex_ops)
  = Some ([(1, 1); (4, 0); (3, 1); (2, 1)], [(1, 0); (2, 0); (1, 1); (3, 0); (4, 0); (3, 1); (2, 1)]).
Proof. vm_compute. reflexivity. Qed.

Example C14_example_answers :
  snd (run world_init (ex_ops ++ [Alive (2, 0); Alive (2, 1); Alive (3, 0); Query (QIn [2]); Query (QEqual []);
                                  Query (QOr [QEqual [1]; QNotIn [1]]); Get (3, 1) 2; Get (2, 0) 2; Get (1, 1) 1]))
  = [OCid 1; OCid 2; OHandle (1, 0); OHandle (2, 0); OBool true; OUnit; OHandle (1, 1); OHandles [(3, 0); (4, 0)];
     OUnit; OHandle (3, 1); OHandle (2, 1);
     OBool false; OBool true; OBool false; OHandles [(3, 1); (1, 1)]; OHandles [(2, 1)];
     OHandles [(2, 1); (4, 0); (1, 1)]; OVal (Some 0%Z); OVal None; OVal None].
Proof. vm_compute. reflexivity. Qed.
