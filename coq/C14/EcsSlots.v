(* MV.C14.EcsSlots — the slot table with its intrusive free list and per-slot generation
   (entities.go) against the specification's lists of living and issued handles. *)
From MV Require Import Lib.ListX C14.EcsModel C14.EcsSpec C14.EcsLemmas.
Open Scope nat_scope.
Arguments Nat.sub : simpl never.

(* the free list: eavail slots chained through their id fields, starting at enext *)
Fixpoint fchain (s : list handle) (start n : nat) : list nat :=
  match n with
  | 0 => []
  | S k => start :: fchain s (fst (nth start s dslot)) k
  end.

Definition gen_of (s : list handle) (i : nat) : nat := snd (nth i s dslot).
Definition free (p : ents) : list nat := fchain (slots p) (enext p) (eavail p).

Record slots_ok (p : ents) (liv iss : list handle) : Prop := {
  so_len : 1 <= length (slots p);
  so_nodup : NoDup (free p);
  so_range : forall i, In i (free p) -> 1 <= i < length (slots p);
  so_used : forall i, 1 <= i < length (slots p) -> ~ In i (free p) ->
            fst (nth i (slots p) dslot) = i /\ In (i, gen_of (slots p) i) liv;
  so_liv : forall i g, In (i, g) liv ->
           1 <= i < length (slots p) /\ ~ In i (free p) /\ g = gen_of (slots p) i;
  so_iss : forall i g, In (i, g) iss ->
           1 <= i < length (slots p) /\ g <= gen_of (slots p) i /\ (In i (free p) -> g < gen_of (slots p) i);
  so_sub : incl liv iss;
  so_nd_liv : NoDup liv;
  so_nd_iss : NoDup iss
}.

Lemma fchain_upd s i v start n :
  ~ In i (fchain s start n) -> fchain (upd i v s) start n = fchain s start n.
Proof.
  revert start. induction n as [|n IH]; intros start H; simpl in *; auto.
  assert (i <> start) by (intros E; apply H; left; auto).
  rewrite nth_upd_other by auto. f_equal. apply IH. tauto.
Qed.

Lemma fchain_app s t start n :
  (forall x, In x (fchain s start n) -> x < length s) -> fchain (s ++ t) start n = fchain s start n.
Proof.
  revert start. induction n as [|n IH]; intros start H; simpl in *; auto.
  rewrite app_nth1 by (apply H; auto). f_equal. apply IH. intros; apply H; auto.
Qed.

Lemma gen_of_upd_same s i v : i < length s -> gen_of (upd i v s) i = snd v.
Proof. intros. unfold gen_of. rewrite nth_upd_same; auto. Qed.
Lemma gen_of_upd_other s i j v : i <> j -> gen_of (upd i v s) j = gen_of s j.
Proof. intros. unfold gen_of. rewrite nth_upd_other; auto. Qed.
Lemma gen_of_app1 s t i : i < length s -> gen_of (s ++ t) i = gen_of s i.
Proof. intros. unfold gen_of. rewrite app_nth1; auto. Qed.

Lemma slots_init_ok : slots_ok ents_init [] [].
Proof.
  constructor; unfold free; simpl.
  - lia.
  - constructor.
  - intros i [].
  - intros i Hi; lia.
  - intros i g [].
  - intros i g [].
  - intros x Hx; exact Hx.
  - constructor.
  - constructor.
Qed.

Lemma liv_id_unique p liv iss i g g' :
  slots_ok p liv iss -> In (i, g) liv -> In (i, g') liv -> g = g'.
Proof.
  intros H H1 H2. destruct (so_liv _ _ _ H _ _ H1) as (_ & _ & ->).
  destruct (so_liv _ _ _ H _ _ H2) as (_ & _ & ->). reflexivity.
Qed.

Lemma alive_spec p liv iss e : slots_ok p liv iss -> In e iss -> ent_alive p e = inb e liv.
Proof.
  intros H Hi. destruct e as [i g]. unfold ent_alive; simpl.
  destruct (so_iss _ _ _ H _ _ Hi) as (Hr & Hle & Hf).
  apply bool_eq_iff. rewrite Nat.eqb_eq, inb_In. fold (gen_of (slots p) i). split.
  - intros ->. destruct (in_dec Nat.eq_dec i (free p)) as [Hin|Hn].
    + specialize (Hf Hin). lia.
    + apply (so_used _ _ _ H); auto.
  - intros Hl. apply (so_liv _ _ _ H) in Hl. tauto.
Qed.

Lemma alive_living p liv iss e : slots_ok p liv iss -> In e liv -> ent_alive p e = true.
Proof.
  intros H Hl. rewrite (alive_spec _ _ _ _ H); [apply inb_In; auto | apply (so_sub _ _ _ H); auto].
Qed.

(* a brand-new slot at the end of the table *)
Lemma push_ok p liv iss :
  slots_ok p liv iss ->
  let e := (length (slots p), 0) in
  slots_ok {| slots := slots p ++ [e]; enext := enext p; eavail := eavail p |} (liv ++ [e]) (iss ++ [e])
  /\ ~ In e iss.
Proof.
  intros H e. pose proof (so_len _ _ _ H) as Hlen.
  assert (Hfree : free {| slots := slots p ++ [e]; enext := enext p; eavail := eavail p |} = free p).
  { unfold free; simpl. apply fchain_app. intros x Hx. apply (so_range _ _ _ H) in Hx. lia. }
  assert (Hni : ~ In e iss).
  { intros Hin. apply (so_iss _ _ _ H) in Hin. lia. }
  split; auto.
  constructor; rewrite ?Hfree; simpl; rewrite ?app_length; simpl.
  - lia.
  - apply (so_nodup _ _ _ H).
  - intros i Hi. apply (so_range _ _ _ H) in Hi. lia.
  - intros i Hi Hn. destruct (Nat.eq_dec i (length (slots p))) as [->|Hne].
    + rewrite app_nth2 by lia. replace (length (slots p) - length (slots p)) with 0 by lia. simpl.
      split; auto. apply in_or_app. right. left. unfold e, gen_of.
      rewrite app_nth2 by lia. replace (length (slots p) - length (slots p)) with 0 by lia. reflexivity.
    + assert (Hlt : i < length (slots p)) by lia.
      rewrite app_nth1 by auto. rewrite gen_of_app1 by auto.
      destruct (so_used _ _ _ H i) as [H1 H2]; auto; [lia|]. split; auto. apply in_or_app; auto.
  - intros i g Hin. apply in_app_or in Hin as [Hin|[Hin|[]]].
    + destruct (so_liv _ _ _ H _ _ Hin) as (H1 & H2 & H3). rewrite gen_of_app1 by lia. split; [lia|]. auto.
    + inversion Hin; subst. split; [lia|]. split.
      * intros Hf. apply (so_range _ _ _ H) in Hf. lia.
      * unfold gen_of. rewrite app_nth2 by lia.
        replace (length (slots p) - length (slots p)) with 0 by lia. reflexivity.
  - intros i g Hin. apply in_app_or in Hin as [Hin|[Hin|[]]].
    + destruct (so_iss _ _ _ H _ _ Hin) as (H1 & H2 & H3). rewrite gen_of_app1 by lia. split; [lia|]. auto.
    + inversion Hin; subst. split; [lia|]. split; [lia|].
      intros Hf. apply (so_range _ _ _ H) in Hf. lia.
  - intros x Hx. apply in_app_or in Hx as [Hx|Hx]; apply in_or_app; auto.
    left. apply (so_sub _ _ _ H); auto.
  - apply NoDup_app_intro; auto using (so_nd_liv _ _ _ H).
    + constructor; [simpl; tauto | constructor].
    + intros x Hx [<-|[]]. apply Hni. apply (so_sub _ _ _ H); auto.
  - apply NoDup_app_intro; auto using (so_nd_iss _ _ _ H).
    + constructor; [simpl; tauto | constructor].
    + intros x Hx [<-|[]]. auto.
Qed.

Lemma ent_get_ok p liv iss :
  slots_ok p liv iss ->
  slots_ok (fst (ent_get p)) (liv ++ [snd (ent_get p)]) (iss ++ [snd (ent_get p)])
  /\ ~ In (snd (ent_get p)) iss.
Proof.
  intros H. unfold ent_get. destruct (Nat.eqb_spec (eavail p) 0) as [Ha|Ha]; simpl.
  - apply push_ok; auto.
  - destruct (eavail p) as [|a] eqn:Ea; [lia|]. clear Ha.
    set (curr := enext p). set (cur := nth curr (slots p) dslot).
    set (s1 := upd curr (curr, snd cur) (slots p)).
    assert (Hfp : free p = curr :: fchain (slots p) (fst cur) a).
    { unfold free. rewrite Ea. reflexivity. }
    pose proof (so_nodup _ _ _ H) as Hnd. rewrite Hfp in Hnd. inversion Hnd as [|x l Hnin Hnd']; subst x l.
    assert (Hcr : 1 <= curr < length (slots p)).
    { apply (so_range _ _ _ H). rewrite Hfp. left; auto. }
    replace (S a - 1) with a by lia.
    assert (Hf' : free {| slots := s1; enext := fst cur; eavail := a |} = fchain (slots p) (fst cur) a).
    { unfold free; simpl. unfold s1. apply fchain_upd; auto. }
    assert (He : nth curr s1 dslot = (curr, snd cur)).
    { unfold s1. apply nth_upd_same. lia. }
    rewrite He.
    assert (Hgc : gen_of (slots p) curr = snd cur) by reflexivity.
    assert (Hni : ~ In (curr, snd cur) iss).
    { intros Hin. destruct (so_iss _ _ _ H _ _ Hin) as (_ & _ & Hlt).
      rewrite Hfp in Hlt. specialize (Hlt (or_introl eq_refl)). lia. }
    split; auto.
    constructor; rewrite ?Hf'; simpl; unfold s1; rewrite ?upd_length.
    + lia.
    + auto.
    + intros i Hi. apply (so_range _ _ _ H). rewrite Hfp. right; auto.
    + intros i Hi Hn. destruct (Nat.eq_dec i curr) as [->|Hne].
      * rewrite nth_upd_same by lia. simpl. split; auto. apply in_or_app. right. left.
        rewrite gen_of_upd_same by lia. reflexivity.
      * rewrite nth_upd_other by auto. rewrite gen_of_upd_other by auto.
        destruct (so_used _ _ _ H i) as [H1 H2]; auto.
        { rewrite Hfp. intros [E|E]; auto. }
        split; auto. apply in_or_app; auto.
    + intros i g Hin. apply in_app_or in Hin as [Hin|[Hin|[]]].
      * destruct (so_liv _ _ _ H _ _ Hin) as (H1 & H2 & H3). rewrite Hfp in H2.
        assert (i <> curr) by (intros ->; apply H2; left; auto).
        rewrite gen_of_upd_other by auto. split; auto. split; auto. intros Hf. apply H2. right; auto.
      * inversion Hin; subst i g. split; auto. split; auto. rewrite gen_of_upd_same by lia. reflexivity.
    + intros i g Hin. apply in_app_or in Hin as [Hin|[Hin|[]]].
      * destruct (so_iss _ _ _ H _ _ Hin) as (H1 & H2 & H3). rewrite Hfp in H3.
        destruct (Nat.eq_dec i curr) as [->|Hne].
        -- rewrite gen_of_upd_same by lia. simpl. specialize (H3 (or_introl eq_refl)).
           split; [exact H1|]. split; [lia|]. intros Hf; contradiction.
        -- rewrite gen_of_upd_other by auto. split; auto. split; auto. intros Hf. apply H3. right; auto.
      * inversion Hin; subst i g. rewrite gen_of_upd_same by lia. simpl. split; auto. split; auto.
        intros Hf; contradiction.
    + intros x Hx. apply in_app_or in Hx as [Hx|Hx]; apply in_or_app; auto.
      left. apply (so_sub _ _ _ H); auto.
    + apply NoDup_app_intro; auto using (so_nd_liv _ _ _ H).
      * constructor; [simpl; tauto | constructor].
      * intros x Hx [<-|[]]. apply Hni. apply (so_sub _ _ _ H); auto.
    + apply NoDup_app_intro; auto using (so_nd_iss _ _ _ H).
      * constructor; [simpl; tauto | constructor].
      * intros x Hx [<-|[]]. auto.
Qed.

Lemma ent_get_many_ok n : forall p liv iss,
  slots_ok p liv iss ->
  slots_ok (fst (ent_get_many p n)) (liv ++ snd (ent_get_many p n)) (iss ++ snd (ent_get_many p n)).
Proof.
  induction n as [|n IH]; intros p liv iss H; simpl.
  - rewrite !app_nil_r. auto.
  - destruct (push_ok _ _ _ H) as [H1 _]. specialize (IH _ _ _ H1).
    destruct (ent_get_many {| slots := slots p ++ [(length (slots p), 0)]; enext := enext p; eavail := eavail p |} n)
      as [p' es] eqn:E. simpl in *.
    rewrite <- !app_assoc in IH. exact IH.
Qed.

Lemma ent_recycle_ok p liv iss e :
  slots_ok p liv iss -> In e liv ->
  slots_ok (ent_recycle p e) (filter (fun x => negb (handle_eqb x e)) liv) iss.
Proof.
  intros H Hin. destruct e as [i g].
  destruct (so_liv _ _ _ H _ _ Hin) as (Hr & Hnf & Hg).
  destruct (so_used _ _ _ H i Hr Hnf) as [Hfst _].
  unfold ent_recycle. cbn [fst].
  set (s := slots p) in *.
  set (c1 := nth i s dslot).
  assert (Hc1 : c1 = (i, g)).
  { unfold c1. rewrite (surjective_pairing (nth i s dslot)). rewrite Hfst. unfold gen_of in Hg. rewrite <- Hg. reflexivity. }
  set (s1 := upd i (fst c1, S (snd c1)) s).
  assert (Hc2 : nth i s1 dslot = (i, S g)).
  { unfold s1. rewrite nth_upd_same by lia. rewrite Hc1. reflexivity. }
  rewrite Hc2. cbn [snd].
  set (s2 := upd i (enext p, S g) s1).
  assert (Hlen : length s2 = length s) by (unfold s2, s1; rewrite !upd_length; auto).
  assert (Hfree : free {| slots := s2; enext := i; eavail := S (eavail p) |} = i :: free p).
  { unfold free; simpl. f_equal. unfold s2. rewrite nth_upd_same by (unfold s1; rewrite upd_length; lia).
    simpl. rewrite fchain_upd.
    - unfold s1. apply fchain_upd. exact Hnf.
    - unfold s1. rewrite fchain_upd; exact Hnf. }
  assert (Hgo : forall j, j <> i -> gen_of s2 j = gen_of s j).
  { intros j Hj. unfold s2, s1. rewrite !gen_of_upd_other by auto. reflexivity. }
  assert (Hno : forall j, j <> i -> nth j s2 dslot = nth j s dslot).
  { intros j Hj. unfold s2, s1. rewrite !nth_upd_other by auto. reflexivity. }
  assert (Hgi : gen_of s2 i = S g).
  { unfold s2. rewrite gen_of_upd_same by (unfold s1; rewrite upd_length; lia). reflexivity. }
  constructor; rewrite ?Hfree; cbn [slots]; rewrite ?Hlen.
  - apply (so_len _ _ _ H).
  - constructor; auto. apply (so_nodup _ _ _ H).
  - intros j [<-|Hj]; auto. apply (so_range _ _ _ H); auto.
  - intros j Hj Hn. assert (j <> i) by (intros ->; apply Hn; left; auto).
    rewrite Hno, Hgo by auto. destruct (so_used _ _ _ H j Hj) as [H1 H2]; [intros Hf; apply Hn; right; auto|].
    split; auto. apply filter_In. split; auto. apply negb_true_iff. apply handle_eqb_neq. congruence.
  - intros j g' Hj. apply filter_In in Hj as [Hj Hne]. apply negb_true_iff in Hne.
    destruct (so_liv _ _ _ H _ _ Hj) as (H1 & H2 & H3).
    assert (j <> i).
    { intros ->. assert (Eg : g' = g) by (rewrite H3, Hg; reflexivity).
      rewrite Eg, handle_eqb_refl in Hne. discriminate. }
    rewrite Hgo by auto. split; auto. split; auto. intros [E|E]; [congruence | auto].
  - intros j g' Hj. destruct (so_iss _ _ _ H _ _ Hj) as (H1 & H2 & H3).
    destruct (Nat.eq_dec j i) as [->|Hne].
    + rewrite Hgi. fold s in H2. rewrite <- Hg in H2. split; auto. split; [lia|]. intros _; lia.
    + rewrite Hgo by auto. split; auto. split; auto. intros [E|E]; [congruence | auto].
  - intros x Hx. apply filter_In in Hx as [Hx _]. apply (so_sub _ _ _ H); auto.
  - apply NoDup_filter. apply (so_nd_liv _ _ _ H).
  - apply (so_nd_iss _ _ _ H).
Qed.
