(* MV.C14.EcsLemmas — association lists, the bit-set model and filter evaluation:
   [qeval q m = sat q s] whenever the well-formed mask m represents the component set s. *)
From MV Require Import Lib.ListX C14.EcsModel C14.EcsSpec.
From Coq Require Import NArith ZifyBool ZifyNat ZifyN.
Ltac Zify.zify_post_hook ::= Z.div_mod_to_equations.
Open Scope nat_scope.
Arguments Nat.div : simpl never.
Arguments Nat.modulo : simpl never.
Arguments Nat.sub : simpl never.
Arguments N.testbit : simpl never.
Arguments N.setbit : simpl never.
Arguments N.land : simpl never.

(* ---------------------------------------------------------------- association lists *)
Section AssocLemmas.
  Context {K V : Type} (eqb : K -> K -> bool).
  Hypothesis eqb_eq : forall a b, eqb a b = true <-> a = b.

  Lemma eqb_refl' a : eqb a a = true.
  Proof. apply eqb_eq; reflexivity. Qed.
  Lemma eqb_neq a b : a <> b -> eqb a b = false.
  Proof. intros H. destruct (eqb a b) eqn:E; auto. apply eqb_eq in E. contradiction. Qed.
  Lemma eqb_dec (a b : K) : {a = b} + {a <> b}.
  Proof.
    destruct (eqb a b) eqn:E; [left; apply eqb_eq; auto | right; intros ->; rewrite eqb_refl' in E; discriminate].
  Qed.

  Lemma aget_adel_same k (m : list (K * V)) : aget eqb k (adel eqb k m) = None.
  Proof.
    induction m as [|[k' v] t IH]; simpl; auto.
    destruct (eqb k k') eqn:E; auto. simpl. rewrite E. auto.
  Qed.

  Lemma aget_adel_other k k' (m : list (K * V)) : k <> k' -> aget eqb k' (adel eqb k m) = aget eqb k' m.
  Proof.
    intros Hn. induction m as [|[k0 v] t IH]; simpl; auto.
    destruct (eqb k k0) eqn:E.
    - apply eqb_eq in E; subst k0. rewrite (eqb_neq k' k) by congruence. auto.
    - simpl. destruct (eqb k' k0); auto.
  Qed.

  Lemma aget_aset_same k v (m : list (K * V)) : aget eqb k (aset eqb k v m) = Some v.
  Proof. unfold aset; simpl. rewrite eqb_refl'. reflexivity. Qed.

  Lemma aget_aset_other k k' v (m : list (K * V)) : k <> k' -> aget eqb k' (aset eqb k v m) = aget eqb k' m.
  Proof.
    intros Hn. unfold aset; simpl. rewrite (eqb_neq k' k) by congruence. apply aget_adel_other; auto.
  Qed.

  Lemma aget_aset k k' v (m : list (K * V)) :
    aget eqb k' (aset eqb k v m) = if eqb k k' then Some v else aget eqb k' m.
  Proof.
    destruct (eqb_dec k k') as [->|Hn].
    - rewrite eqb_refl'. apply aget_aset_same.
    - rewrite (eqb_neq _ _ Hn). apply aget_aset_other; auto.
  Qed.

  Lemma aget_adel k k' (m : list (K * V)) :
    aget eqb k' (adel eqb k m) = if eqb k k' then None else aget eqb k' m.
  Proof.
    destruct (eqb_dec k k') as [->|Hn].
    - rewrite eqb_refl'. apply aget_adel_same.
    - rewrite (eqb_neq _ _ Hn). apply aget_adel_other; auto.
  Qed.

  Lemma aget_amap k k' f (m : list (K * V)) :
    aget eqb k' (amap eqb k f m) = if eqb k k' then option_map f (aget eqb k' m) else aget eqb k' m.
  Proof.
    induction m as [|[k0 v] t IH]; simpl.
    - destruct (eqb k k'); reflexivity.
    - destruct (eqb k' k0) eqn:E.
      + apply eqb_eq in E; subst k0. destruct (eqb k k'); reflexivity.
      + exact IH.
  Qed.

  Lemma aget_In k v (m : list (K * V)) : aget eqb k m = Some v -> In (k, v) m.
  Proof.
    induction m as [|[k0 v0] t IH]; simpl; [discriminate|].
    destruct (eqb k k0) eqn:E.
    - apply eqb_eq in E; subst. intros H; inversion H; auto.
    - auto.
  Qed.
End AssocLemmas.

Lemma aget_map_snd {V W} (g : V -> W) k (m : list (nat * V)) :
  aget Nat.eqb k (map (fun cc => (fst cc, g (snd cc))) m) = option_map g (aget Nat.eqb k m).
Proof.
  induction m as [|[k0 v] t IH]; simpl; auto. destruct (k =? k0); auto.
Qed.

Lemma aget_map_const {V} (d : V) k (cs : list nat) :
  aget Nat.eqb k (map (fun c => (c, d)) cs) = if memb k cs then Some d else None.
Proof.
  induction cs as [|c t IH]; simpl; auto. destruct (k =? c); auto.
Qed.

(* equality tests *)
Lemma handle_eqb_eq a b : handle_eqb a b = true <-> a = b.
Proof.
  destruct a as [i g], b as [j h]; unfold handle_eqb; simpl.
  rewrite andb_true_iff, !Nat.eqb_eq. split; [intros [-> ->]; auto | intros H; inversion H; auto].
Qed.
Lemma mask_eqb_eq a b : mask_eqb a b = true <-> a = b.
Proof. apply list_eqb_eq. intros; apply N.eqb_eq. Qed.
Lemma ids_eqb_eq a b : ids_eqb a b = true <-> a = b.
Proof. apply list_eqb_eq. intros; apply Nat.eqb_eq. Qed.
Lemma hc_eqb_eq a b : hc_eqb a b = true <-> a = b.
Proof.
  destruct a as [e c], b as [e' c']; unfold hc_eqb; simpl.
  rewrite andb_true_iff, handle_eqb_eq, Nat.eqb_eq. split; [intros [-> ->]; auto | intros H; inversion H; auto].
Qed.
Lemma handle_eqb_refl a : handle_eqb a a = true.
Proof. apply handle_eqb_eq; reflexivity. Qed.
Lemma handle_eqb_neq a b : a <> b -> handle_eqb a b = false.
Proof. apply eqb_neq, handle_eqb_eq. Qed.
Lemma handle_eqb_sym a b : handle_eqb a b = handle_eqb b a.
Proof.
  destruct (handle_eqb a b) eqn:E.
  - apply handle_eqb_eq in E; subst. symmetry; apply handle_eqb_refl.
  - destruct (handle_eqb b a) eqn:E2; auto. apply handle_eqb_eq in E2; subst.
    rewrite handle_eqb_refl in E; discriminate.
Qed.
Definition handle_dec (a b : handle) : {a = b} + {a <> b} := eqb_dec handle_eqb handle_eqb_eq a b.

Lemma memb_In c cs : memb c cs = true <-> In c cs.
Proof.
  unfold memb. rewrite existsb_exists. split.
  - intros (x & Hx & E). apply Nat.eqb_eq in E; subst; auto.
  - intros H. exists c. split; auto. apply Nat.eqb_refl.
Qed.
Lemma inb_In e l : inb e l = true <-> In e l.
Proof.
  unfold inb. rewrite existsb_exists. split.
  - intros (x & Hx & E). apply handle_eqb_eq in E; subst; auto.
  - intros H. exists e. split; auto. apply handle_eqb_refl.
Qed.
Lemma inb_false e l : inb e l = false <-> ~ In e l.
Proof. rewrite <- inb_In. destruct (inb e l); split; intros; congruence. Qed.
Lemma memb_false c l : memb c l = false <-> ~ In c l.
Proof. rewrite <- memb_In. destruct (memb c l); split; intros; congruence. Qed.

Lemma bool_eq_iff (a b : bool) : (a = true <-> b = true) -> a = b.
Proof. destruct a, b; intros [H1 H2]; auto; try (symmetry; auto); auto. Qed.

(* ---------------------------------------------------------------- bit sets *)
Definition mem (p : cid) (m : mask) : bool := N.testbit (nth (widx p) m 0%N) (woff p).

Lemma woff_lt p : (woff p < 64)%N.
Proof. unfold woff. lia. Qed.

Lemma pos_split p : p = widx p * 64 + p mod 64.
Proof. unfold widx. lia. Qed.

Lemma widx_woff_inj p q : widx p = widx q -> woff p = woff q -> p = q.
Proof. unfold widx, woff. intros H1 H2. lia. Qed.

Lemma nth_repeat0 {A} (d : A) n i : nth i (repeat d n) d = d.
Proof. revert i; induction n; intros [|i]; simpl; auto. Qed.

Lemma mpad_length m i : length (mpad m i) = Nat.max (length m) (S i).
Proof. unfold mpad. rewrite app_length, repeat_length. lia. Qed.

Lemma mpad_nth m i j : nth j (mpad m i) 0%N = nth j m 0%N.
Proof.
  unfold mpad. destruct (Nat.ltb_spec j (length m)).
  - rewrite app_nth1; auto.
  - rewrite app_nth2 by lia. rewrite nth_repeat0. rewrite nth_overflow; auto.
Qed.

Lemma mset_length p m : length (mset p m) = Nat.max (length m) (S (widx p)).
Proof. unfold mset. rewrite upd_length. apply mpad_length. Qed.

Lemma mset_nth p m j :
  nth j (mset p m) 0%N = if j =? widx p then N.setbit (nth j m 0%N) (woff p) else nth j m 0%N.
Proof.
  unfold mset. destruct (Nat.eqb_spec j (widx p)) as [->|Hn].
  - rewrite nth_upd_same by (rewrite mpad_length; lia). rewrite mpad_nth. reflexivity.
  - rewrite nth_upd_other by auto. apply mpad_nth.
Qed.

Lemma mem_nil p : mem p [] = false.
Proof. unfold mem. destruct (widx p); simpl; apply N.bits_0. Qed.

Lemma mem_root p : mem p mask_root = false.
Proof. unfold mem, mask_root. destruct (widx p) as [|[|k]]; simpl; apply N.bits_0. Qed.

Lemma mem_lt p m : mem p m = true -> widx p < length m.
Proof.
  unfold mem. intros H. destruct (Nat.ltb_spec (widx p) (length m)); auto.
  rewrite nth_overflow in H by lia. rewrite N.bits_0 in H. discriminate.
Qed.

Lemma misset_mem p m : misset p m = mem p m.
Proof.
  unfold misset. destruct (Nat.leb_spec (length m) (widx p)); auto.
  unfold mem. rewrite nth_overflow by lia. rewrite N.bits_0. reflexivity.
Qed.

Lemma mem_mset q p m : mem q (mset p m) = (q =? p) || mem q m.
Proof.
  unfold mem. rewrite mset_nth.
  destruct (Nat.eqb_spec (widx q) (widx p)) as [E|E].
  - rewrite N.setbit_eqb. f_equal.
    destruct (Nat.eqb_spec q p) as [->|Hn].
    + apply N.eqb_refl.
    + apply N.eqb_neq. intros H. apply Hn. apply widx_woff_inj; auto.
  - destruct (Nat.eqb_spec q p) as [->|Hn]; [contradiction|]. reflexivity.
Qed.

Lemma mem_mask_of q init cs : mem q (mask_of init cs) = memb q cs || mem q init.
Proof.
  unfold mask_of. revert init. induction cs as [|c t IH]; intros init; simpl; auto.
  rewrite IH, mem_mset. destruct (q =? c), (memb q t), (mem q init); reflexivity.
Qed.

Lemma mask_of_length_le init cs n :
  length init <= n -> (forall c, In c cs -> widx c < n) -> length (mask_of init cs) <= n.
Proof.
  unfold mask_of. revert init. induction cs as [|c t IH]; intros init Hi Hc; simpl; auto.
  apply IH.
  - rewrite mset_length. specialize (Hc c (or_introl eq_refl)). lia.
  - intros; apply Hc; right; auto.
Qed.

(* words never have bits beyond 63 *)
Definition wnorm (w : N) : Prop := forall n, (64 <= n)%N -> N.testbit w n = false.
Definition norm (m : mask) : Prop := forall i, wnorm (nth i m 0%N).

Lemma wnorm_0 : wnorm 0%N.
Proof. intros n _. apply N.bits_0. Qed.

Lemma norm_nil : norm [].
Proof. intros i. destruct i; simpl; apply wnorm_0. Qed.
Lemma norm_root : norm mask_root.
Proof. intros i. destruct i as [|[|i]]; simpl; apply wnorm_0. Qed.

Lemma norm_mset p m : norm m -> norm (mset p m).
Proof.
  intros H i n Hn. rewrite mset_nth. destruct (i =? widx p).
  - rewrite N.setbit_eqb. rewrite (H i n Hn). pose proof (woff_lt p).
    destruct (N.eqb_spec (woff p) n); [lia|reflexivity].
  - apply H; auto.
Qed.

Lemma norm_mask_of init cs : norm init -> norm (mask_of init cs).
Proof.
  unfold mask_of. revert init. induction cs as [|c t IH]; intros init H; simpl; auto.
  apply IH, norm_mset, H.
Qed.

(* a word is determined by its bits below 64 when it is normal *)
Lemma testbit_pos i j m : j < 64 -> N.testbit (nth i m 0%N) (N.of_nat j) = mem (i * 64 + j) m.
Proof.
  intros Hj. unfold mem, widx, woff.
  replace ((i * 64 + j) / 64) with i by lia. replace ((i * 64 + j) mod 64) with j by lia. reflexivity.
Qed.

Lemma bits_below (P : N -> Prop) :
  (forall j, j < 64 -> P (N.of_nat j)) -> forall n, (n < 64)%N -> P n.
Proof. intros H n Hn. rewrite <- (N2Nat.id n). apply H. lia. Qed.

Lemma land_sub_iff a b : wnorm b ->
  (N.land a b = b <-> forall n, (n < 64)%N -> N.testbit b n = true -> N.testbit a n = true).
Proof.
  intros Hb. split.
  - intros H n _ Hn. rewrite <- H in Hn. rewrite N.land_spec in Hn. apply andb_true_iff in Hn. tauto.
  - intros H. apply N.bits_inj_iff. intros n. rewrite N.land_spec.
    destruct (N.ltb_spec n 64).
    + specialize (H n H0). destruct (N.testbit b n); [rewrite H; auto | apply andb_false_r].
    + rewrite (Hb n H0). apply andb_false_r.
Qed.

Lemma land_zero_iff a b : wnorm b ->
  (N.land a b = 0%N <-> forall n, (n < 64)%N -> N.testbit b n = true -> N.testbit a n = false).
Proof.
  intros Hb. split.
  - intros H n _ Hn. assert (E : N.testbit (N.land a b) n = false) by (rewrite H; apply N.bits_0).
    rewrite N.land_spec, Hn, andb_true_r in E. exact E.
  - intros H. apply N.bits_inj_iff. intros n. rewrite N.land_spec, N.bits_0.
    destruct (N.ltb_spec n 64).
    + specialize (H n H0). destruct (N.testbit b n); [rewrite H; auto | apply andb_false_r].
    + rewrite (Hb n H0). apply andb_false_r.
Qed.

Lemma min_spec db q :
  min_ db q = true <->
  length q <= length db /\ forall i, i < length q -> N.land (nth i db 0%N) (nth i q 0%N) = nth i q 0%N.
Proof.
  revert db. induction q as [|qw qt IH]; intros db; simpl.
  - split; auto. intros _. split; [lia|]. intros i Hi; lia.
  - destruct db as [|dw dt]; simpl.
    + split; [discriminate|]. intros [H _]; lia.
    + rewrite andb_true_iff, N.eqb_eq, IH. split.
      * intros (H1 & H2 & H3). split; [lia|]. intros [|i] Hi; auto. apply H3; lia.
      * intros (H1 & H2). split; [apply (H2 0); lia|]. split; [lia|]. intros i Hi. apply (H2 (S i)); lia.
Qed.

Lemma mnotin_spec db q :
  mnotin db q = true <->
  forall i, i < length q -> i < length db -> N.land (nth i db 0%N) (nth i q 0%N) = 0%N.
Proof.
  revert db. induction q as [|qw qt IH]; intros db; simpl.
  - split; auto. intros _ i Hi; lia.
  - destruct db as [|dw dt]; simpl.
    + split; auto. intros _ i _ Hi; lia.
    + rewrite andb_true_iff, N.eqb_eq, IH. split.
      * intros (H1 & H2) [|i] Hi Hj; auto. apply H2; lia.
      * intros H. split; [apply (H 0); lia|]. intros i Hi Hj. apply (H (S i)); lia.
Qed.

Lemma min_mem db q : norm q ->
  (min_ db q = true <-> length q <= length db /\ forall p, mem p q = true -> mem p db = true).
Proof.
  intros Hq. rewrite min_spec. split; intros [HL H]; split; auto.
  - intros p Hp. pose proof (mem_lt _ _ Hp) as Hlt. specialize (H _ Hlt).
    apply (land_sub_iff _ _ (Hq _)) with (n := woff p) in H; auto using woff_lt.
  - intros i Hi. apply land_sub_iff; [apply Hq|].
    apply (bits_below (fun n => N.testbit (nth i q 0%N) n = true -> N.testbit (nth i db 0%N) n = true)).
    intros j Hj. rewrite !testbit_pos by auto. apply H.
Qed.

Lemma mnotin_mem db q : norm q ->
  (mnotin db q = true <-> forall p, mem p q = true -> mem p db = false).
Proof.
  intros Hq. rewrite mnotin_spec. split; intros H.
  - intros p Hp. pose proof (mem_lt _ _ Hp) as Hlt.
    destruct (Nat.ltb_spec (widx p) (length db)) as [Hd|Hd].
    + specialize (H _ Hlt Hd). apply (land_zero_iff _ _ (Hq _)) with (n := woff p) in H; auto using woff_lt.
    + unfold mem. rewrite nth_overflow by lia. apply N.bits_0.
  - intros i Hi Hd. apply land_zero_iff; [apply Hq|].
    apply (bits_below (fun n => N.testbit (nth i q 0%N) n = true -> N.testbit (nth i db 0%N) n = false)).
    intros j Hj. rewrite !testbit_pos by auto. apply H.
Qed.

(* well-formed masks: at least one word, normal, and no trailing zero word beyond the first *)
Definition mwf (m : mask) : Prop :=
  1 <= length m /\ norm m /\ (1 < length m -> nth (length m - 1) m 0%N <> 0%N).

Lemma mwf_root : mwf mask_root.
Proof. split; [simpl; lia|]. split; [apply norm_root|]. simpl; lia. Qed.

Lemma setbit_neq0 a n : N.setbit a n <> 0%N.
Proof.
  intros H. assert (E : N.testbit (N.setbit a n) n = true) by apply N.setbit_eq.
  rewrite H, N.bits_0 in E. discriminate.
Qed.

Lemma mwf_mset p m : mwf m -> mwf (mset p m).
Proof.
  intros (H1 & H2 & H3). split; [rewrite mset_length; lia|]. split; [apply norm_mset; auto|].
  rewrite mset_length. intros HL. rewrite mset_nth.
  destruct (Nat.eqb_spec (Nat.max (length m) (S (widx p)) - 1) (widx p)) as [E|E].
  - apply setbit_neq0.
  - replace (Nat.max (length m) (S (widx p)) - 1) with (length m - 1) by lia. apply H3. lia.
Qed.

Lemma mwf_mask_of init cs : mwf init -> mwf (mask_of init cs).
Proof.
  unfold mask_of. revert init. induction cs as [|c t IH]; intros init H; simpl; auto.
  apply IH, mwf_mset, H.
Qed.

Lemma mwf_last_mem m : mwf m -> 1 < length m -> exists p, mem p m = true /\ widx p = length m - 1.
Proof.
  intros (H1 & H2 & H3) HL. specialize (H3 HL).
  pose proof (N.bit_log2 _ H3) as Hb.
  set (n := N.log2 (nth (length m - 1) m 0%N)) in *.
  assert (Hn : (n < 64)%N).
  { destruct (N.ltb_spec n 64); auto. rewrite (H2 _ _ H) in Hb. discriminate. }
  exists ((length m - 1) * 64 + N.to_nat n). split.
  - rewrite <- testbit_pos by lia. rewrite N2Nat.id. exact Hb.
  - unfold widx. lia.
Qed.

Lemma mwf_ext a b : mwf a -> mwf b -> (forall p, mem p a = mem p b) -> a = b.
Proof.
  intros Ha Hb H.
  assert (HL : length a = length b).
  { destruct (Nat.lt_trichotomy (length a) (length b)) as [L|[L|L]]; auto; exfalso.
    - destruct (mwf_last_mem b Hb) as (p & Hp & Hw); [destruct Ha; lia|].
      rewrite <- H in Hp. apply mem_lt in Hp. lia.
    - destruct (mwf_last_mem a Ha) as (p & Hp & Hw); [destruct Hb; lia|].
      rewrite H in Hp. apply mem_lt in Hp. lia. }
  apply (nth_ext _ _ 0%N 0%N HL). intros i Hi. apply N.bits_inj_iff. intros n.
  destruct (N.ltb_spec n 64) as [Hn|Hn].
  - revert n Hn. apply bits_below. intros j Hj. rewrite !testbit_pos by auto. apply H.
  - destruct Ha as (_ & Na & _), Hb as (_ & Nb & _). rewrite (Na i n Hn), (Nb i n Hn). reflexivity.
Qed.

Lemma mequal_eq a b : mequal a b = true <-> a = b.
Proof.
  unfold mequal. rewrite andb_true_iff, Nat.eqb_eq. split.
  - intros [_ H]. apply mask_eqb_eq in H. exact H.
  - intros ->. split; auto. apply mask_eqb_eq. reflexivity.
Qed.

(* Bits() lists exactly the members *)
Lemma mbits_In c m : In c (mbits m) <-> mem c m = true.
Proof.
  unfold mbits. rewrite in_flat_map. split.
  - intros (i & Hi & Hc). apply in_seq in Hi. apply in_map_iff in Hc as (j & <- & Hj).
    apply filter_In in Hj as [Hj Hb]. apply in_seq in Hj. rewrite <- testbit_pos by lia. exact Hb.
  - intros H. pose proof (mem_lt _ _ H) as Hlt. exists (widx c). split; [apply in_seq; lia|].
    apply in_map_iff. exists (c mod 64). split; [symmetry; apply pos_split|].
    apply filter_In. split; [apply in_seq; lia|]. exact H.
Qed.

(* ---------------------------------------------------------------- filters *)
(* the mask m represents the component set s *)
Definition repr (m : mask) (s : list cid) : Prop := forall c, mem c m = memb c s.

Section QueryInd.
  Variable P : query -> Prop.
  Hypothesis HIn : forall cs, P (QIn cs).
  Hypothesis HNotIn : forall cs, P (QNotIn cs).
  Hypothesis HEqual : forall cs, P (QEqual cs).
  Hypothesis HAnd : forall qs, Forall P qs -> P (QAnd qs).
  Hypothesis HOr : forall qs, Forall P qs -> P (QOr qs).
  Fixpoint query_ind' (q : query) : P q :=
    match q with
    | QIn cs => HIn cs
    | QNotIn cs => HNotIn cs
    | QEqual cs => HEqual cs
    | QAnd qs => HAnd qs ((fix go (l : list query) : Forall P l :=
                             match l with [] => Forall_nil P | x :: t => Forall_cons x (query_ind' x) (go t) end) qs)
    | QOr qs => HOr qs ((fix go (l : list query) : Forall P l :=
                           match l with [] => Forall_nil P | x :: t => Forall_cons x (query_ind' x) (go t) end) qs)
    end.
End QueryInd.

Lemma forallb_ext_in {A} (f g : A -> bool) l : Forall (fun x => f x = g x) l -> forallb f l = forallb g l.
Proof. induction 1; simpl; congruence. Qed.
Lemma existsb_ext_in {A} (f g : A -> bool) l : Forall (fun x => f x = g x) l -> existsb f l = existsb g l.
Proof. induction 1; simpl; congruence. Qed.

Lemma qeval_sat q m s : mwf m -> repr m s -> qeval q m = sat q s.
Proof.
  intros Hwf Hr. induction q as [cs|cs|cs|qs IH|qs IH] using query_ind'; simpl.
  - (* In *)
    apply bool_eq_iff. rewrite (min_mem _ _ (norm_mask_of _ _ norm_nil)), forallb_forall. split.
    + intros [_ H] c Hc. rewrite <- Hr. apply H. rewrite mem_mask_of. apply memb_In in Hc. rewrite Hc. reflexivity.
    + intros H. split.
      * apply mask_of_length_le; [simpl; lia|]. intros c Hc. apply mem_lt. rewrite Hr. apply H; auto.
      * intros p Hp. rewrite mem_mask_of, mem_nil, orb_false_r in Hp. rewrite Hr. apply H. apply memb_In; auto.
  - (* NotIn *)
    apply bool_eq_iff. rewrite (mnotin_mem _ _ (norm_mask_of _ _ norm_nil)), forallb_forall. split.
    + intros H c Hc. rewrite <- Hr. rewrite H; auto. rewrite mem_mask_of. apply memb_In in Hc. rewrite Hc. reflexivity.
    + intros H p Hp. rewrite mem_mask_of, mem_nil, orb_false_r in Hp. rewrite Hr.
      apply memb_In in Hp. specialize (H p Hp). destruct (memb p s); auto.
  - (* Equal *)
    apply bool_eq_iff. rewrite mequal_eq, andb_true_iff, !forallb_forall. split.
    + intros <-. split.
      * intros c Hc. rewrite <- Hr, mem_mask_of. apply memb_In in Hc. rewrite Hc. reflexivity.
      * intros c Hc. apply memb_In in Hc. rewrite <- Hr, mem_mask_of, mem_root, orb_false_r in Hc. exact Hc.
    + intros [H1 H2]. apply mwf_ext; auto using mwf_mask_of, mwf_root.
      intros p. rewrite mem_mask_of, mem_root, orb_false_r, Hr. apply bool_eq_iff. split; intros H.
      * apply H1. apply memb_In; auto.
      * apply H2. apply memb_In; auto.
  - apply forallb_ext_in. exact IH.
  - apply existsb_ext_in. exact IH.
Qed.

(* sat only depends on the set *)
Lemma sat_ext q s s' : (forall c, memb c s = memb c s') -> sat q s = sat q s'.
Proof.
  intros H. induction q as [cs|cs|cs|qs IH|qs IH] using query_ind'; simpl.
  - apply forallb_ext_in. apply Forall_forall. intros; apply H.
  - apply forallb_ext_in. apply Forall_forall. intros; rewrite H; auto.
  - f_equal.
    + apply forallb_ext_in. apply Forall_forall. intros; apply H.
    + apply bool_eq_iff. rewrite !forallb_forall. split; intros H0 c Hc.
      * apply H0. apply memb_In. rewrite H. apply memb_In; auto.
      * apply H0. apply memb_In. rewrite <- H. apply memb_In; auto.
  - apply forallb_ext_in. exact IH.
  - apply existsb_ext_in. exact IH.
Qed.

(* ---------------------------------------------------------------- lists *)
Lemma NoDup_app_intro {A} (l1 l2 : list A) :
  NoDup l1 -> NoDup l2 -> (forall x, In x l1 -> ~ In x l2) -> NoDup (l1 ++ l2).
Proof.
  induction l1 as [|a t IH]; intros H1 H2 H3; simpl; auto.
  inversion H1; subst. constructor.
  - intros Hin. apply in_app_or in Hin as [Hin|Hin]; auto. apply (H3 a); simpl; auto.
  - apply IH; auto. intros x Hx. apply H3. right; auto.
Qed.
