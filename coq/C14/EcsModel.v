(* MV.C14.EcsModel — executable model of engine/ecs (world.go, entities.go, entity.go, archetype.go,
   archetypes.go, query.go, result.go), engine/ecs/storage/column/storage.go and the parts of
   toolkit/dynamic_bit_set.go and toolkit/collection/listings/paged_slice.go they use (layer C).

   The model follows the algorithm of the Go code: slot table with the intrusive free list
   (next/available) and per-slot generation, archetypes found through the add-edge graph, the global
   mask table and the per-archetype mutation cache, member lists, the entity -> archetype index and the
   column storage with primaryKeys / rows / invalids.  Go maps are association lists that are only read
   through [aget].  A PagedSlice is a flat list (its page arithmetic is C16's subject).  A component
   value is the struct's integer payload; a storage cell is [None] (Go nil: not yet instantiated) or
   [Some v] (pointer to a struct whose payload is v).

   Repaired behaviour is modelled for the confirmed small defects (fixes/C14-*.patch):
     - Annihilate also removes the entity from its archetype's member list and deletes its storage row;
     - World.Get reads the entity's own archetype (nil when the entity lacks the component);
     - Equal(...) builds its mask the way archetype masks are built (one zero word to start with);
     - the mutation cache key separates the ids (key = the id list itself);
     - AddRow/AddRows reset the cells of the row they hand out (a recycled row starts empty).
   No proofs here: this file must keep evaluating even when a proof breaks. *)
From MV Require Import Lib.ListX.
From Coq Require Import NArith.
Open Scope nat_scope.

Notation cid := nat (only parsing).          (* ComponentId *)
Notation handle := (nat * nat)%type (only parsing).   (* Entity = (id, generation) *)

Definition handle_eqb (a b : handle) : bool := (fst a =? fst b) && (snd a =? snd b).

(* ---------- Go maps: association lists read through aget ---------- *)
Section Assoc.
  Context {K V : Type} (eqb : K -> K -> bool).
  Fixpoint aget (k : K) (m : list (K * V)) : option V :=
    match m with
    | [] => None
    | (k', v) :: t => if eqb k k' then Some v else aget k t
    end.
  Fixpoint adel (k : K) (m : list (K * V)) : list (K * V) :=
    match m with
    | [] => []
    | (k', v) :: t => if eqb k k' then adel k t else (k', v) :: adel k t
    end.
  Definition aset (k : K) (v : V) (m : list (K * V)) : list (K * V) := (k, v) :: adel k m.
  (* in-place update of the value stored under k *)
  Fixpoint amap (k : K) (f : V -> V) (m : list (K * V)) : list (K * V) :=
    match m with
    | [] => []
    | (k', v) :: t => (k', if eqb k k' then f v else v) :: amap k f t
    end.
End Assoc.

(* ---------- toolkit.DynamicBitSet: list of 64-bit words ---------- *)
Notation mask := (list N) (only parsing).
Definition widx (p : cid) : nat := p / 64.
Definition woff (p : cid) : N := N.of_nat (p mod 64).
Definition mask_eqb (a b : mask) : bool := list_eqb N.eqb a b.      (* equality of Key() strings *)

(* Set: for len(bits) <= index { append 0 }; bits[index] |= 1 << offset *)
Definition mpad (m : mask) (i : nat) : mask := m ++ repeat 0%N (S i - length m).
Definition mset (p : cid) (m : mask) : mask :=
  let m' := mpad m (widx p) in upd (widx p) (N.setbit (nth (widx p) m' 0%N) (woff p)) m'.
(* IsSet *)
Definition misset (p : cid) (m : mask) : bool :=
  if length m <=? widx p then false else N.testbit (nth (widx p) m 0%N) (woff p).
(* Bits: set positions in increasing order *)
Definition mbits (m : mask) : list cid :=
  flat_map (fun i => map (fun j => i * 64 + j)
                         (filter (fun j => N.testbit (nth i m 0%N) (N.of_nat j)) (seq 0 64)))
           (seq 0 (length m)).
(* Equal (keys are never cached on this path): length, then word by word *)
Definition mequal (a b : mask) : bool := (length a =? length b) && list_eqb N.eqb a b.
(* db.In(q): for i := range q { if i >= len(db) return false; if db[i]&q[i] != q[i] return false } *)
Fixpoint min_ (db q : mask) {struct q} : bool :=
  match q with
  | [] => true
  | qw :: qt => match db with
                | [] => false
                | dw :: dt => (N.land dw qw =? qw)%N && min_ dt qt
                end
  end.
(* db.NotIn(q): for i := range q { if i >= len(db) continue; if db[i]&q[i] != 0 return false } *)
Fixpoint mnotin (db q : mask) {struct q} : bool :=
  match q, db with
  | [], _ => true
  | _, [] => true
  | qw :: qt, dw :: dt => (N.land dw qw =? 0)%N && mnotin dt qt
  end.

Definition mask_of (init : mask) (cs : list cid) : mask := fold_left (fun m c => mset c m) cs init.
Definition mask_root : mask := [0%N].        (* NewDynamicBitSet() *)

(* ---------- query.go ---------- *)
Inductive query :=
| QIn (cs : list cid) | QNotIn (cs : list cid) | QEqual (cs : list cid)
| QAnd (qs : list query) | QOr (qs : list query).

Fixpoint qeval (q : query) (m : mask) : bool :=
  match q with
  | QIn cs => min_ m (mask_of [] cs)              (* new(DynamicBitSet) + Set *)
  | QNotIn cs => mnotin m (mask_of [] cs)
  | QEqual cs => mequal (mask_of mask_root cs) m  (* repaired: NewDynamicBitSet() + Set *)
  | QAnd qs => forallb (fun q' => qeval q' m) qs
  | QOr qs => existsb (fun q' => qeval q' m) qs
  end.

(* ---------- entities.go: slot table ---------- *)
Record ents := { slots : list handle; enext : nat; eavail : nat }.
Definition dslot : handle := (0, 0).

Definition ents_init : ents := {| slots := [dslot]; enext := 0; eavail := 0 |}.

Definition ent_get (p : ents) : ents * handle :=
  if eavail p =? 0 then
    let e := (length (slots p), 0) in
    ({| slots := slots p ++ [e]; enext := enext p; eavail := eavail p |}, e)
  else
    let curr := enext p in
    let cur := nth curr (slots p) dslot in
    let s1 := upd curr (curr, snd cur) (slots p) in
    ({| slots := s1; enext := fst cur; eavail := eavail p - 1 |}, nth curr s1 dslot).

Fixpoint ent_get_many (p : ents) (n : nat) : ents * list handle :=
  match n with
  | 0 => (p, [])
  | S k =>
      let e := (length (slots p), 0) in
      let '(p', es) := ent_get_many {| slots := slots p ++ [e]; enext := enext p; eavail := eavail p |} k in
      (p', e :: es)
  end.

(* recycle (entity id 0 panics in Go: never issued, outside every evaluated history) *)
Definition ent_recycle (p : ents) (e : handle) : ents :=
  let i := fst e in
  let c1 := nth i (slots p) dslot in
  let s1 := upd i (fst c1, S (snd c1)) (slots p) in
  let c2 := nth i s1 dslot in
  let s2 := upd i (enext p, snd c2) s1 in
  {| slots := s2; enext := i; eavail := S (eavail p) |}.

Definition ent_alive (p : ents) (e : handle) : bool :=
  snd e =? snd (nth (fst e) (slots p) dslot).

(* ---------- storage/column/storage.go ---------- *)
Notation cell := (option Z) (only parsing).
Record storage := { cols : list (cid * list cell); pks : list (nat * nat); srows : nat; sinv : list nat }.

Definition new_storage (cs : list cid) : storage :=
  {| cols := map (fun c => (c, [])) cs; pks := []; srows := 0; sinv := [] |}.

Definition alloc (st : storage) : nat * storage :=
  match sinv st with
  | r :: t => (r, {| cols := cols st; pks := pks st; srows := srows st; sinv := t |})
  | [] => (srows st, {| cols := cols st; pks := pks st; srows := S (srows st); sinv := [] |})
  end.

(* PagedSlice.Grow up to index r *)
Definition grow1 (r : nat) (col : list cell) : list cell :=
  if length col <=? r then col ++ repeat None (S r - length col) else col.
Definition grow (rs : list nat) (col : list cell) : list cell :=
  match rs with
  | [] => col
  | r0 :: _ => grow1 (fold_left Nat.max rs r0) col
  end.
Definition reset_rows (rs : list nat) (col : list cell) : list cell :=
  fold_left (fun c r => upd r None c) rs col.

Definition add_row (st : storage) (pk : nat) : storage :=
  let '(r, st1) := alloc st in
  {| cols := map (fun cc => (fst cc, upd r None (grow1 r (snd cc)))) (cols st1);
     pks := aset Nat.eqb pk r (pks st1); srows := srows st1; sinv := sinv st1 |}.

Fixpoint alloc_many (st : storage) (ks : list nat) : list nat * storage :=
  match ks with
  | [] => ([], st)
  | pk :: t =>
      let '(r, st1) := alloc st in
      let st2 := {| cols := cols st1; pks := aset Nat.eqb pk r (pks st1); srows := srows st1; sinv := sinv st1 |} in
      let '(rs, st3) := alloc_many st2 t in
      (r :: rs, st3)
  end.

Definition add_rows (st : storage) (ks : list nat) : storage :=
  let '(rs, st1) := alloc_many st ks in
  {| cols := map (fun cc => (fst cc, reset_rows rs (grow rs (snd cc)))) (cols st1);
     pks := pks st1; srows := srows st1; sinv := sinv st1 |}.

Definition del_row (st : storage) (pk : nat) : storage :=
  match aget Nat.eqb pk (pks st) with
  | Some r => {| cols := cols st; pks := adel Nat.eqb pk (pks st); srows := srows st; sinv := sinv st ++ [r] |}
  | None => st
  end.

(* Get: instantiates the default value on first access and stores it in the cell.
   (A missing column is a nil dereference in Go; World.Get guards it with mask.IsSet, Result.Get
   does not: outside the API's precondition, the model answers None.) *)
Definition st_get (st : storage) (pk : nat) (c : cid) : storage * option Z :=
  match aget Nat.eqb pk (pks st) with
  | Some r =>
      match aget Nat.eqb c (cols st) with
      | Some col =>
          match nth r col None with
          | Some v => (st, Some v)
          | None => ({| cols := amap Nat.eqb c (upd r (Some 0%Z)) (cols st); pks := pks st;
                        srows := srows st; sinv := sinv st |}, Some 0%Z)
          end
      | None => (st, None)
      end
  | None => (st, None)
  end.

(* p := Get(pk, c); p.V = v *)
Definition st_write (st : storage) (pk : nat) (c : cid) (v : Z) : storage * bool :=
  match aget Nat.eqb pk (pks st), aget Nat.eqb c (cols st) with
  | Some r, Some col =>
      ({| cols := amap Nat.eqb c (upd r (Some v)) (cols st); pks := pks st;
          srows := srows st; sinv := sinv st |}, true)
  | _, _ => (st, false)
  end.

(* ---------- archetype.go / archetypes.go ---------- *)
Record arch := {
  amask : mask;
  aents : list handle;                 (* archetype.entities *)
  astore : storage;
  aadd : list (mask * nat);            (* addEdges: mask key -> archetype index (delEdges are never read when del = nil) *)
  acache : list (list cid * nat)       (* mutation cache (repaired key: the id list) *)
}.
Definition darch : arch := {| amask := []; aents := []; astore := new_storage []; aadd := []; acache := [] |}.

Definition new_arch (m : mask) : arch :=
  {| amask := m; aents := []; astore := new_storage (mbits m); aadd := []; acache := [] |}.

Definition set_aadd (a : arch) (x : list (mask * nat)) : arch :=
  {| amask := amask a; aents := aents a; astore := astore a; aadd := x; acache := acache a |}.
Definition set_acache (a : arch) (x : list (list cid * nat)) : arch :=
  {| amask := amask a; aents := aents a; astore := astore a; aadd := aadd a; acache := x |}.
Definition set_body (a : arch) (es : list handle) (st : storage) : arch :=
  {| amask := amask a; aents := es; astore := st; aadd := aadd a; acache := acache a |}.

Definition ids_eqb (a b : list cid) : bool := list_eqb Nat.eqb a b.

Definition add_edge (k : nat) (m : mask) (j : nat) (l : list arch) : list arch :=
  let a := nth k l darch in upd k (set_aadd a (aset mask_eqb m j (aadd a))) l.

Notation masks := (list (list N * nat)) (only parsing).

(* noneLockCreateArchetype(mask.Copy(), prev, storage) *)
Definition create_arch (l : list arch) (ms : masks) (m : mask) (prev : nat) : list arch * masks * nat :=
  let guid := length l in
  (add_edge prev m guid (l ++ [new_arch m]), aset mask_eqb m guid ms, guid).

(* the add loop of archetype.mutation *)
Fixpoint mut_add (l : list arch) (ms : masks) (curr : nat) (m : mask) (add : list cid)
  : list arch * masks * nat :=
  match add with
  | [] => (l, ms, curr)
  | id :: t =>
      let m' := mset id m in
      match aget mask_eqb m' (aadd (nth curr l darch)) with
      | Some next => mut_add l ms next m' t
      | None =>
          match aget mask_eqb m' ms with
          | Some next => mut_add (add_edge curr m' next l) ms next m' t
          | None => let '(l', ms', next) := create_arch l ms m' curr in mut_add l' ms' next m' t
          end
      end
  end.

Definition mutation (l : list arch) (ms : masks) (a : nat) (add : list cid) : list arch * masks * nat :=
  let aa := nth a l darch in
  match aget ids_eqb add (acache aa) with
  | Some j => (l, ms, j)
  | None =>
      let '(l', ms', curr) := mut_add l ms a (amask aa) add in
      let a' := nth a l' darch in
      (upd a (set_acache a' (aset ids_eqb add curr (acache a'))) l', ms', curr)
  end.

(* ---------- world.go ---------- *)
Record world := {
  wents : ents;
  arts : list arch;
  wmasks : masks;
  windex : list (handle * nat);        (* archetypes.entities *)
  wcomps : list nat                    (* registered component types, id = position + 1 *)
}.

Definition world_init : world :=
  {| wents := ents_init; arts := [new_arch mask_root]; wmasks := [(mask_root, 0)]; windex := []; wcomps := [] |}.

Inductive op :=
| Reg (t : nat)
| Spawn (cs : list cid)
| Spawns (n : nat) (cs : list cid)
| Annihilate (e : handle)
| Annihilates (es : list handle)
| Alive (e : handle)
| Query (q : query)
| Get (e : handle) (c : cid)             (* World.Get *)
| Write (e : handle) (c : cid) (v : Z)   (* p := World.Get(e, c); if p != nil { p.V = v } *)
| RGet (e : handle) (c : cid)            (* Result.Get / ResultIterator.Get *)
| RWrite (e : handle) (c : cid) (v : Z). (* p := Result.Get(e, c); p.V = v *)

Inductive out :=
| OUnit
| OCid (c : cid)
| OHandle (e : handle)
| OHandles (l : list handle)
| OBool (b : bool)
| OVal (v : option Z)       (* None = nil *)
| OBad.                     (* never produced by the model: panics / unrepresentable outputs *)

Fixpoint find_type (t : nat) (l : list nat) (i : nat) : option nat :=
  match l with
  | [] => None
  | x :: r => if x =? t then Some i else find_type t r (S i)
  end.

Definition reg (w : world) (t : nat) : world * cid :=
  match find_type t (wcomps w) 1 with
  | Some id => (w, id)
  | None => ({| wents := wents w; arts := arts w; wmasks := wmasks w; windex := windex w;
                wcomps := wcomps w ++ [t] |}, S (length (wcomps w)))
  end.

Definition bind (k : nat) (e : handle) (l : list arch) : list arch :=
  let a := nth k l darch in upd k (set_body a (aents a ++ [e]) (add_row (astore a) (fst e))) l.

Definition bind_many (k : nat) (es : list handle) (l : list arch) : list arch :=
  let a := nth k l darch in upd k (set_body a (aents a ++ es) (add_rows (astore a) (map fst es))) l.

Definition spawn (w : world) (cs : list cid) : world * handle :=
  let '(l1, ms1, k) := mutation (arts w) (wmasks w) 0 cs in
  let '(p1, e) := ent_get (wents w) in
  ({| wents := p1; arts := bind k e l1; wmasks := ms1;
      windex := aset handle_eqb e k (windex w); wcomps := wcomps w |}, e).

Definition spawns (w : world) (n : nat) (cs : list cid) : world * list handle :=
  let '(l1, ms1, k) := mutation (arts w) (wmasks w) 0 cs in
  let '(p1, es) := ent_get_many (wents w) n in
  ({| wents := p1; arts := bind_many k es l1; wmasks := ms1;
      windex := fold_left (fun ix e => aset handle_eqb e k ix) es (windex w); wcomps := wcomps w |}, es).

Fixpoint remove_first (e : handle) (l : list handle) : list handle :=
  match l with
  | [] => []
  | x :: t => if handle_eqb x e then t else x :: remove_first e t
  end.

(* archetypes.unbind (repaired): drop the index entry, the member-list entry and the storage row *)
Definition unbind (l : list arch) (ix : list (handle * nat)) (e : handle) : list arch * list (handle * nat) :=
  match aget handle_eqb e ix with
  | Some k =>
      let a := nth k l darch in
      (upd k (set_body a (remove_first e (aents a)) (del_row (astore a) (fst e))) l, adel handle_eqb e ix)
  | None => (l, ix)
  end.

Definition annihilate (w : world) (e : handle) : world :=
  let p1 := ent_recycle (wents w) e in
  let '(l1, ix1) := unbind (arts w) (windex w) e in
  {| wents := p1; arts := l1; wmasks := wmasks w; windex := ix1; wcomps := wcomps w |}.

Definition annihilates (w : world) (es : list handle) : world :=
  let p1 := fold_left ent_recycle es (wents w) in
  let '(l1, ix1) := fold_left (fun s e => unbind (fst s) (snd s) e) es (arts w, windex w) in
  {| wents := p1; arts := l1; wmasks := wmasks w; windex := ix1; wcomps := wcomps w |}.

(* World.Query + Result.expansion *)
Definition query_run (w : world) (q : query) : list handle :=
  flat_map (fun a => if qeval q (amask a) then aents a else []) (arts w).

Definition set_arts (w : world) (l : list arch) : world :=
  {| wents := wents w; arts := l; wmasks := wmasks w; windex := windex w; wcomps := wcomps w |}.

Definition arch_get (w : world) (k : nat) (e : handle) (c : cid) : world * option Z :=
  let a := nth k (arts w) darch in
  let '(st, v) := st_get (astore a) (fst e) c in
  (set_arts w (upd k (set_body a (aents a) st) (arts w)), v).

Definition arch_write (w : world) (k : nat) (e : handle) (c : cid) (v : Z) : world * bool :=
  let a := nth k (arts w) darch in
  let '(st, ok) := st_write (astore a) (fst e) c v in
  (set_arts w (upd k (set_body a (aents a) st) (arts w)), ok).

(* World.Get (repaired) *)
Definition world_get (w : world) (e : handle) (c : cid) : world * option Z :=
  if ent_alive (wents w) e then
    match aget handle_eqb e (windex w) with
    | Some k => if misset c (amask (nth k (arts w) darch)) then arch_get w k e c else (w, None)
    | None => (w, None)
    end
  else (w, None).

Definition world_write (w : world) (e : handle) (c : cid) (v : Z) : world * bool :=
  if ent_alive (wents w) e then
    match aget handle_eqb e (windex w) with
    | Some k => if misset c (amask (nth k (arts w) darch)) then arch_write w k e c v else (w, false)
    | None => (w, false)
    end
  else (w, false).

(* Result.Get: index lookup, then storage (no guard; a dead entity is a nil dereference in Go) *)
Definition result_get (w : world) (e : handle) (c : cid) : world * option Z :=
  match aget handle_eqb e (windex w) with
  | Some k => arch_get w k e c
  | None => (w, None)
  end.

Definition result_write (w : world) (e : handle) (c : cid) (v : Z) : world * bool :=
  match aget handle_eqb e (windex w) with
  | Some k => arch_write w k e c v
  | None => (w, false)
  end.

Definition step (w : world) (o : op) : world * out :=
  match o with
  | Reg t => let '(w', id) := reg w t in (w', OCid id)
  | Spawn cs => let '(w', e) := spawn w cs in (w', OHandle e)
  | Spawns n cs => let '(w', es) := spawns w n cs in (w', OHandles es)
  | Annihilate e => (annihilate w e, OUnit)
  | Annihilates es => (annihilates w es, OUnit)
  | Alive e => (w, OBool (ent_alive (wents w) e))
  | Query q => (w, OHandles (query_run w q))
  | Get e c => let '(w', v) := world_get w e c in (w', OVal v)
  | Write e c v => let '(w', b) := world_write w e c v in (w', OBool b)
  | RGet e c => let '(w', v) := result_get w e c in (w', OVal v)
  | RWrite e c v => let '(w', b) := result_write w e c v in (w', OBool b)
  end.

Fixpoint run (w : world) (ops : list op) : world * list out :=
  match ops with
  | [] => (w, [])
  | o :: t => let '(w1, x) := step w o in let '(w2, xs) := run w1 t in (w2, x :: xs)
  end.
