(* MV.C14.EcsStore — column storage (storage/column/storage.go): primary keys, rows, recycled rows
   and cells, against the view "value of column c in the row of key i". *)
From MV Require Import Lib.ListX C14.EcsModel C14.EcsSpec C14.EcsLemmas.
Open Scope nat_scope.
Arguments Nat.sub : simpl never.

Definition rowof (st : storage) (i : nat) : option nat := aget Nat.eqb i (pks st).
Definition colof (st : storage) (c : cid) : option (list (option Z)) := aget Nat.eqb c (cols st).
Definition cellval (x : option Z) : Z := match x with Some v => v | None => 0%Z end.
(* what a reader of (i, c) sees: None = nil (no row or no column) *)
Definition valof (st : storage) (i : nat) (c : cid) : option Z :=
  match rowof st i, colof st c with
  | Some r, Some col => Some (cellval (nth r col None))
  | _, _ => None
  end.

(* P = the set of keys that own a row *)
Record alloc_ok (st : storage) (P : nat -> Prop) : Prop := {
  sk_nodup : NoDup (sinv st);
  sk_inv : forall r, In r (sinv st) -> r < srows st;
  sk_pk : forall i r, rowof st i = Some r -> P i /\ r < srows st /\ ~ In r (sinv st);
  sk_ids : forall i, P i -> exists r, rowof st i = Some r;
  sk_inj : forall i j r, rowof st i = Some r -> rowof st j = Some r -> i = j
}.
Definition cols_ok (st : storage) : Prop := forall c col, colof st c = Some col -> srows st <= length col.
Definition store_ok (st : storage) (P : nat -> Prop) : Prop := alloc_ok st P /\ cols_ok st.

Lemma alloc_ok_ext st (P Q : nat -> Prop) : (forall i, P i <-> Q i) -> alloc_ok st P -> alloc_ok st Q.
Proof.
  intros E H. constructor.
  - apply (sk_nodup _ _ H).
  - apply (sk_inv _ _ H).
  - intros i r Hr. destruct (sk_pk _ _ H _ _ Hr) as (H1 & H2). split; auto. apply E; auto.
  - intros i Hi. apply (sk_ids _ _ H). apply E; auto.
  - apply (sk_inj _ _ H).
Qed.

Lemma store_ok_ext st (P Q : nat -> Prop) : (forall i, P i <-> Q i) -> store_ok st P -> store_ok st Q.
Proof. intros E [H1 H2]. split; auto. eapply alloc_ok_ext; eauto. Qed.

Lemma nat_eqb_eq' : forall a b, Nat.eqb a b = true <-> a = b.
Proof. apply Nat.eqb_eq. Qed.

(* ---------- a fresh storage ---------- *)
Lemma new_storage_ok cs : store_ok (new_storage cs) (fun _ => False).
Proof.
  split.
  - constructor; unfold rowof; simpl.
    + constructor.
    + intros r [].
    + intros i r E; discriminate.
    + intros i [].
    + intros i j r E; discriminate.
  - intros c col. unfold colof; simpl. rewrite aget_map_const. destruct (memb c cs); intros H; inversion H.
    simpl. lia.
Qed.

Lemma new_storage_colof cs c : colof (new_storage cs) c = if memb c cs then Some [] else None.
Proof. unfold colof; simpl. apply aget_map_const. Qed.

Lemma new_storage_valof cs i c : valof (new_storage cs) i c = None.
Proof. unfold valof, rowof; simpl. reflexivity. Qed.

(* ---------- allocation of one row ---------- *)
Definition bind_pk (st : storage) (k r : nat) : storage :=
  {| cols := cols st; pks := aset Nat.eqb k r (pks st); srows := srows st; sinv := sinv st |}.

Lemma alloc_step st (P : nat -> Prop) k :
  alloc_ok st P -> ~ P k ->
  let r := fst (alloc st) in
  let st2 := bind_pk (snd (alloc st)) k r in
  alloc_ok st2 (fun i => P i \/ i = k) /\
  cols st2 = cols st /\
  (forall i, rowof st2 i = if k =? i then Some r else rowof st i) /\
  (forall i, rowof st i <> Some r) /\
  r < srows st2 /\
  srows st <= srows st2 /\
  (forall x, srows st <= x < srows st2 -> x = r).
Proof.
  intros H Hk r st2.
  assert (Hrow : forall i, rowof st2 i = if k =? i then Some r else rowof st i).
  { intros i. unfold st2, rowof, bind_pk; cbn [pks].
    rewrite (aget_aset Nat.eqb nat_eqb_eq').
    unfold alloc. destruct (sinv st); reflexivity. }
  unfold alloc in *. destruct (sinv st) as [|r0 t] eqn:Ei; simpl in r, st2.
  - (* a new row *)
    assert (Hfresh : forall i, rowof st i <> Some r).
    { intros i Hi. apply (sk_pk _ _ H) in Hi. unfold r in Hi. lia. }
    split; [|split; [reflexivity|split; [exact Hrow|split; [exact Hfresh|split; [|split]]]]];
      try (unfold st2, bind_pk; simpl; lia).
    + constructor; simpl.
      * constructor.
      * intros x [].
      * intros i x. rewrite Hrow. destruct (Nat.eqb_spec k i) as [->|Hne].
        -- intros E; inversion E; subst x. unfold r. split; auto.
        -- intros E. destruct (sk_pk _ _ H _ _ E) as (H1 & H2 & H3). split; auto.
      * intros i [Hi| ->].
        -- destruct (sk_ids _ _ H _ Hi) as [x Hx]. exists x. rewrite Hrow.
           destruct (Nat.eqb_spec k i) as [->|Hne]; [contradiction | auto].
        -- exists r. rewrite Hrow, Nat.eqb_refl. reflexivity.
      * intros i j x. rewrite !Hrow.
        destruct (Nat.eqb_spec k i) as [<-|Hi], (Nat.eqb_spec k j) as [<-|Hj]; auto.
        -- intros E1 E2. inversion E1; subst x. exfalso. apply (Hfresh j); auto.
        -- intros E1 E2. inversion E2; subst x. exfalso. apply (Hfresh i); auto.
        -- apply (sk_inj _ _ H).
  - (* a recycled row *)
    pose proof (sk_nodup _ _ H) as Hnd. rewrite Ei in Hnd. inversion Hnd as [|x l Hnin Hnd']; subst x l.
    assert (Hr0 : r0 < srows st) by (apply (sk_inv _ _ H); rewrite Ei; left; auto).
    assert (Hfresh : forall i, rowof st i <> Some r).
    { intros i Hi. apply (sk_pk _ _ H) in Hi. rewrite Ei in Hi. unfold r in Hi. simpl in Hi. tauto. }
    split; [|split; [reflexivity|split; [exact Hrow|split; [exact Hfresh|split; [|split]]]]];
      try (unfold st2, bind_pk; simpl; lia).
    + constructor; simpl.
      * auto.
      * intros x Hx. apply (sk_inv _ _ H). rewrite Ei. right; auto.
      * intros i x. rewrite Hrow. destruct (Nat.eqb_spec k i) as [->|Hne].
        -- intros E; inversion E; subst x. unfold r. split; auto.
        -- intros E. destruct (sk_pk _ _ H _ _ E) as (H1 & H2 & H3). split; auto. split; auto.
           intros Hin. apply H3. rewrite Ei. right; auto.
      * intros i [Hi| ->].
        -- destruct (sk_ids _ _ H _ Hi) as [x Hx]. exists x. rewrite Hrow.
           destruct (Nat.eqb_spec k i) as [->|Hne]; [contradiction | auto].
        -- exists r. rewrite Hrow, Nat.eqb_refl. reflexivity.
      * intros i j x. rewrite !Hrow.
        destruct (Nat.eqb_spec k i) as [<-|Hi], (Nat.eqb_spec k j) as [<-|Hj]; auto.
        -- intros E1 E2. inversion E1; subst x. exfalso. apply (Hfresh j); auto.
        -- intros E1 E2. inversion E2; subst x. exfalso. apply (Hfresh i); auto.
        -- apply (sk_inj _ _ H).
Qed.

(* ---------- allocation of many rows ---------- *)
Lemma alloc_many_ok ks : forall st (P : nat -> Prop),
  alloc_ok st P -> NoDup ks -> (forall k, In k ks -> ~ P k) ->
  let rs := fst (alloc_many st ks) in
  let st' := snd (alloc_many st ks) in
  alloc_ok st' (fun i => P i \/ In i ks) /\
  cols st' = cols st /\
  (forall i, ~ In i ks -> rowof st' i = rowof st i) /\
  (forall i, In i ks -> exists r, rowof st' i = Some r /\ In r rs) /\
  (forall r, In r rs -> r < srows st' /\ forall i, rowof st i <> Some r) /\
  srows st <= srows st' /\
  (forall x, srows st <= x < srows st' -> In x rs).
Proof.
  induction ks as [|k t IH]; intros st P H Hnd Hk; simpl.
  - split; [eapply alloc_ok_ext; [|exact H]; intros i; simpl; tauto|].
    split; [reflexivity|]. split; [auto|]. split; [intros i []|]. split; [intros r []|].
    split; [lia|]. intros x Hx; lia.
  - inversion Hnd as [|x l Hkt Hnd']; subst x l.
    destruct (alloc_step st P k H (Hk k (or_introl eq_refl))) as (A1 & A2 & A3 & A4 & A5 & A6 & A7).
    destruct (alloc st) as [r st1] eqn:Ea. simpl in A1, A2, A3, A4, A5, A6, A7.
    fold (bind_pk st1 k r).
    set (st2 := bind_pk st1 k r) in *.
    specialize (IH st2 (fun i => P i \/ i = k) A1 Hnd').
    assert (Hk' : forall k0, In k0 t -> ~ (P k0 \/ k0 = k)).
    { intros k0 Hin [Hp| ->]; [apply (Hk k0); [right|]; auto | contradiction]. }
    specialize (IH Hk').
    destruct (alloc_many st2 t) as [rs st3] eqn:Em. simpl in IH |- *.
    destruct IH as (B1 & B2 & B3 & B4 & B5 & B6 & B7).
    split; [|split; [|split; [|split; [|split; [|split]]]]].
    + eapply alloc_ok_ext; [|exact B1]. intros i; simpl. split; intros; intuition (subst; auto).
    + congruence.
    + intros i Hi. rewrite B3 by (intros Hin; apply Hi; right; auto). rewrite A3.
      destruct (Nat.eqb_spec k i) as [->|Hne]; auto. exfalso; apply Hi; left; auto.
    + intros i [<-|Hi].
      * exists r. split; [|left; auto]. rewrite B3 by auto. rewrite A3, Nat.eqb_refl. reflexivity.
      * destruct (B4 i Hi) as (x & Hx & Hin). exists x. split; [auto|right; auto].
    + intros x [<-|Hx].
      * split; [lia|]. exact A4.
      * destruct (B5 x Hx) as [H1 H2]. split; auto. intros i Hi.
        apply (H2 i). rewrite A3. destruct (Nat.eqb_spec k i) as [->|Hne]; auto.
        exfalso. apply (sk_pk _ _ H) in Hi. apply (Hk i); [left; auto | tauto].
    + lia.
    + intros x Hx. destruct (Nat.lt_ge_cases x (srows st1)) as [Hlt|Hge].
      * left. symmetry. apply A7. lia.
      * right. apply B7. lia.
Qed.

(* ---------- columns: Grow and the reset of the rows handed out ---------- *)
Lemma fold_max_ge rs : forall r0, r0 <= fold_left Nat.max rs r0 /\ forall r, In r rs -> r <= fold_left Nat.max rs r0.
Proof.
  induction rs as [|a t IH]; intros r0; simpl.
  - split; auto. intros r [].
  - destruct (IH (Nat.max r0 a)) as [H1 H2]. split; [lia|].
    intros r [<-|Hr]; [lia | auto].
Qed.

Lemma grow1_length r col : r < length (grow1 r col) /\ length col <= length (grow1 r col).
Proof.
  unfold grow1. destruct (Nat.leb_spec (length col) r).
  - rewrite app_length, repeat_length. lia.
  - lia.
Qed.

Lemma grow1_nth r col x : nth x (grow1 r col) None = nth x col None.
Proof.
  unfold grow1. destruct (Nat.leb_spec (length col) r); auto.
  destruct (Nat.ltb_spec x (length col)).
  - rewrite app_nth1; auto.
  - rewrite app_nth2 by lia. rewrite nth_repeat0. rewrite nth_overflow; auto.
Qed.

Lemma grow_length rs col : length col <= length (grow rs col) /\ forall r, In r rs -> r < length (grow rs col).
Proof.
  unfold grow. destruct rs as [|r0 t]; [split; auto; intros r []|].
  pose proof (grow1_length (fold_left Nat.max (r0 :: t) r0) col) as [H1 H2].
  split; auto. intros r Hr. destruct (fold_max_ge (r0 :: t) r0) as [_ H3]. specialize (H3 r Hr). lia.
Qed.

Lemma grow_nth rs col x : nth x (grow rs col) None = nth x col None.
Proof. unfold grow. destruct rs; auto. apply grow1_nth. Qed.

Lemma reset_rows_length rs : forall col, length (reset_rows rs col) = length col.
Proof.
  unfold reset_rows. induction rs as [|r t IH]; intros col; simpl; auto. rewrite IH, upd_length. auto.
Qed.

Lemma nth_upd_none {A} r (l : list (option A)) x :
  nth x (upd r None l) None = if x =? r then None else nth x l None.
Proof.
  destruct (Nat.eqb_spec x r) as [->|Hne].
  - destruct (Nat.ltb_spec r (length l)).
    + apply nth_upd_same; auto.
    + apply nth_overflow. rewrite upd_length. lia.
  - apply nth_upd_other. auto.
Qed.

Lemma reset_rows_nth rs : forall col x,
  nth x (reset_rows rs col) None = if existsb (Nat.eqb x) rs then None else nth x col None.
Proof.
  unfold reset_rows. induction rs as [|r t IH]; intros col x; simpl; auto.
  rewrite IH. rewrite nth_upd_none. destruct (x =? r), (existsb (Nat.eqb x) t); reflexivity.
Qed.

Lemma existsb_eqb_In x l : existsb (Nat.eqb x) l = true <-> In x l.
Proof. apply memb_In. Qed.

(* ---------- AddRows ---------- *)
Lemma add_rows_ok st (P : nat -> Prop) ks :
  store_ok st P -> NoDup ks -> (forall k, In k ks -> ~ P k) ->
  store_ok (add_rows st ks) (fun i => P i \/ In i ks) /\
  (forall c, colof (add_rows st ks) c = None <-> colof st c = None) /\
  (forall i c, In i ks -> colof st c <> None -> valof (add_rows st ks) i c = Some 0%Z) /\
  (forall i c, ~ In i ks -> valof (add_rows st ks) i c = valof st i c).
Proof.
  intros [Ha Hc] Hnd Hk.
  destruct (alloc_many_ok ks st P Ha Hnd Hk) as (B1 & B2 & B3 & B4 & B5 & B6 & B7).
  unfold add_rows. destruct (alloc_many st ks) as [rs st1] eqn:Em. simpl in B1, B2, B3, B4, B5, B6, B7.
  set (st2 := {| cols := map (fun cc => (fst cc, reset_rows rs (grow rs (snd cc)))) (cols st1);
                 pks := pks st1; srows := srows st1; sinv := sinv st1 |}).
  assert (Hcol : forall c, colof st2 c = option_map (fun col => reset_rows rs (grow rs col)) (colof st c)).
  { intros c. unfold colof, st2; cbn [cols].
    rewrite (aget_map_snd (fun col => reset_rows rs (grow rs col))), B2. reflexivity. }
  assert (Hrow : forall i, rowof st2 i = rowof st1 i) by reflexivity.
  split; [split|split; [|split]].
  - constructor.
    + apply (sk_nodup _ _ B1).
    + apply (sk_inv _ _ B1).
    + apply (sk_pk _ _ B1).
    + apply (sk_ids _ _ B1).
    + apply (sk_inj _ _ B1).
  - intros c col. rewrite Hcol. destruct (colof st c) as [col0|] eqn:Ec; simpl; [|discriminate].
    intros E; inversion E; subst col. rewrite reset_rows_length. simpl.
    destruct (grow_length rs col0) as [G1 G2]. specialize (Hc c col0 Ec).
    destruct (Nat.eq_dec (srows st1) (srows st)) as [E1|E1]; [lia|].
    assert (Hin : In (srows st1 - 1) rs) by (apply B7; lia).
    apply G2 in Hin. lia.
  - intros c. rewrite Hcol. destruct (colof st c); simpl; split; intros; congruence.
  - intros i c Hi Hcc. unfold valof. rewrite Hrow. destruct (B4 i Hi) as (r & Hr & Hin). rewrite Hr, Hcol.
    destruct (colof st c) as [col|]; [|congruence]. simpl.
    rewrite reset_rows_nth. apply existsb_eqb_In in Hin. rewrite Hin. reflexivity.
  - intros i c Hi. unfold valof. rewrite Hrow, (B3 i Hi), Hcol.
    destruct (rowof st i) as [r|] eqn:Er; auto. destruct (colof st c) as [col|]; auto. simpl.
    rewrite reset_rows_nth, grow_nth.
    destruct (existsb (Nat.eqb r) rs) eqn:Ex; auto.
    apply existsb_eqb_In in Ex. destruct (B5 r Ex) as [_ Hf]. exfalso. apply (Hf i); auto.
Qed.

Lemma add_row_rows st k : add_row st k = add_rows st [k].
Proof.
  unfold add_row, add_rows. simpl. destruct (alloc st) as [r st1]. simpl.
  f_equal. apply map_ext. intros [c col]. simpl. unfold reset_rows, grow. simpl.
  rewrite Nat.max_id. reflexivity.
Qed.

(* ---------- DelRow ---------- *)
Lemma del_row_ok st (P : nat -> Prop) k :
  store_ok st P -> P k ->
  store_ok (del_row st k) (fun i => P i /\ i <> k) /\
  (forall c, colof (del_row st k) c = colof st c) /\
  (forall i c, i <> k -> valof (del_row st k) i c = valof st i c).
Proof.
  intros [Ha Hc] Hk. destruct (sk_ids _ _ Ha _ Hk) as [r Hr].
  unfold del_row. fold (rowof st k). rewrite Hr.
  set (st2 := {| cols := cols st; pks := adel Nat.eqb k (pks st); srows := srows st; sinv := sinv st ++ [r] |}).
  assert (Hrow : forall i, rowof st2 i = if k =? i then None else rowof st i).
  { intros i. unfold rowof, st2; simpl. apply (aget_adel Nat.eqb nat_eqb_eq'). }
  destruct (sk_pk _ _ Ha _ _ Hr) as (_ & Hlt & Hni).
  split; [split|split].
  - constructor; simpl.
    + apply NoDup_app_intro; [apply (sk_nodup _ _ Ha) | constructor; [simpl; tauto | constructor] |].
      intros x Hx [<-|[]]. contradiction.
    + intros x Hx. apply in_app_or in Hx as [Hx|[<-|[]]]; auto. apply (sk_inv _ _ Ha); auto.
    + intros i x. rewrite Hrow. destruct (Nat.eqb_spec k i) as [->|Hne]; [discriminate|].
      intros E. destruct (sk_pk _ _ Ha _ _ E) as (H1 & H2 & H3). split; [split; auto|]. split; auto.
      intros Hin. apply in_app_or in Hin as [Hin|[<-|[]]]; auto.
      apply Hne. apply (sk_inj _ _ Ha _ _ _ Hr E).
    + intros i [Hi Hne]. destruct (sk_ids _ _ Ha _ Hi) as [x Hx]. exists x. rewrite Hrow.
      destruct (Nat.eqb_spec k i); [congruence | auto].
    + intros i j x. rewrite !Hrow. destruct (k =? i), (k =? j); try discriminate. apply (sk_inj _ _ Ha).
  - exact Hc.
  - reflexivity.
  - intros i c Hne. unfold valof. rewrite Hrow. destruct (Nat.eqb_spec k i); [congruence | reflexivity].
Qed.

(* ---------- Get / write ---------- *)
Lemma st_get_snd st k c : snd (st_get st k c) = valof st k c.
Proof.
  unfold st_get, valof, rowof, colof.
  destruct (aget Nat.eqb k (pks st)) as [r|]; auto.
  destruct (aget Nat.eqb c (cols st)) as [col|]; auto.
  destruct (nth r col None) as [v|] eqn:E; simpl; rewrite ?E; reflexivity.
Qed.

Lemma st_get_ok st (P : nat -> Prop) k c :
  store_ok st P ->
  store_ok (fst (st_get st k c)) P /\
  (forall c', colof (fst (st_get st k c)) c' = None <-> colof st c' = None) /\
  (forall i c', valof (fst (st_get st k c)) i c' = valof st i c').
Proof.
  intros [Ha Hc]. unfold st_get. fold (rowof st k) (colof st c).
  destruct (rowof st k) as [r|] eqn:Er; [|simpl; split; [split; auto|split; [tauto|auto]]].
  destruct (colof st c) as [col|] eqn:Ec; [|simpl; split; [split; auto|split; [tauto|auto]]].
  destruct (nth r col None) as [v|] eqn:En; [simpl; split; [split; auto|split; [tauto|auto]]|].
  simpl.
  set (st2 := {| cols := amap Nat.eqb c (upd r (Some 0%Z)) (cols st); pks := pks st; srows := srows st; sinv := sinv st |}).
  assert (Hcol : forall c', colof st2 c' = if c =? c' then option_map (upd r (Some 0%Z)) (colof st c') else colof st c').
  { intros c'. unfold colof, st2; cbn [cols]. apply (aget_amap Nat.eqb nat_eqb_eq'). }
  split; [split|split].
  - constructor; [apply (sk_nodup _ _ Ha) | apply (sk_inv _ _ Ha) | apply (sk_pk _ _ Ha) | apply (sk_ids _ _ Ha) | apply (sk_inj _ _ Ha)].
  - intros c' col'. rewrite Hcol. destruct (Nat.eqb_spec c c') as [<-|Hne]; [|apply Hc].
    rewrite Ec. simpl. intros E; inversion E. rewrite upd_length. apply (Hc c); auto.
  - intros c'. rewrite Hcol. destruct (c =? c'); [|tauto]. destruct (colof st c'); simpl; split; intros; congruence.
  - intros i c'. unfold valof. change (rowof st2 i) with (rowof st i). rewrite Hcol.
    destruct (rowof st i) as [r'|] eqn:Er'; auto.
    destruct (Nat.eqb_spec c c') as [<-|Hne]; auto. rewrite Ec. simpl. f_equal.
    destruct (Nat.eq_dec r' r) as [->|Hr].
    + rewrite En. destruct (Nat.ltb_spec r (length col)).
      * rewrite nth_upd_same by auto. reflexivity.
      * rewrite nth_overflow by (rewrite upd_length; lia). reflexivity.
    + rewrite nth_upd_other by auto. reflexivity.
Qed.

Lemma st_write_snd st k c v :
  snd (st_write st k c v) = match valof st k c with Some _ => true | None => false end.
Proof.
  unfold st_write, valof, rowof, colof.
  destruct (aget Nat.eqb k (pks st)) as [r|]; auto.
  destruct (aget Nat.eqb c (cols st)) as [col|]; auto.
Qed.

Lemma st_write_ok st (P : nat -> Prop) k c v :
  store_ok st P ->
  store_ok (fst (st_write st k c v)) P /\
  (forall c', colof (fst (st_write st k c v)) c' = None <-> colof st c' = None) /\
  (valof st k c <> None -> valof (fst (st_write st k c v)) k c = Some v) /\
  (forall i c', (i, c') <> (k, c) -> valof (fst (st_write st k c v)) i c' = valof st i c').
Proof.
  intros [Ha Hc]. unfold st_write. fold (rowof st k) (colof st c). unfold valof at 1.
  destruct (rowof st k) as [r|] eqn:Er;
    [|simpl; split; [split; auto|split; [tauto|split; [congruence|auto]]]].
  destruct (colof st c) as [col|] eqn:Ec;
    [|simpl; split; [split; auto|split; [tauto|split; [congruence|auto]]]].
  simpl.
  set (st2 := {| cols := amap Nat.eqb c (upd r (Some v)) (cols st); pks := pks st; srows := srows st; sinv := sinv st |}).
  assert (Hcol : forall c', colof st2 c' = if c =? c' then option_map (upd r (Some v)) (colof st c') else colof st c').
  { intros c'. unfold colof, st2; cbn [cols]. apply (aget_amap Nat.eqb nat_eqb_eq'). }
  assert (Hrl : r < length col).
  { destruct (sk_pk _ _ Ha _ _ Er) as (_ & H1 & _). specialize (Hc c col Ec). lia. }
  split; [split|split; [|split]].
  - constructor; [apply (sk_nodup _ _ Ha) | apply (sk_inv _ _ Ha) | apply (sk_pk _ _ Ha) | apply (sk_ids _ _ Ha) | apply (sk_inj _ _ Ha)].
  - intros c' col'. rewrite Hcol. destruct (Nat.eqb_spec c c') as [<-|Hne]; [|apply Hc].
    rewrite Ec. simpl. intros E; inversion E. rewrite upd_length. apply (Hc c); auto.
  - intros c'. rewrite Hcol. destruct (c =? c'); [|tauto]. destruct (colof st c'); simpl; split; intros; congruence.
  - intros _. unfold valof. change (rowof st2 k) with (rowof st k). rewrite Er, Hcol, Nat.eqb_refl, Ec. simpl.
    rewrite nth_upd_same by auto. reflexivity.
  - intros i c' Hne. unfold valof. change (rowof st2 i) with (rowof st i). rewrite Hcol.
    destruct (rowof st i) as [r'|] eqn:Er'; auto.
    destruct (Nat.eqb_spec c c') as [<-|Hnc]; auto. rewrite Ec. simpl. f_equal.
    assert (r' <> r).
    { intros ->. apply Hne. f_equal. apply (sk_inj _ _ Ha _ _ _ Er' Er). }
    rewrite nth_upd_other by auto. reflexivity.
Qed.
