(* MV.C14.EcsRun — evaluation of recorded implementation runs against the model (tie T1).
   A case = the concrete operation list (handles as (id, generation)) and the outputs the Go code
   produced.  Query results are compared as multisets (the harness sorts them), everything else exactly. *)
From MV Require Import Lib.ListX C14.EcsModel.
Open Scope nat_scope.

Fixpoint remove_one (e : handle) (l : list handle) : option (list handle) :=
  match l with
  | [] => None
  | x :: t => if handle_eqb x e then Some t
              else match remove_one e t with Some t' => Some (x :: t') | None => None end
  end.
Fixpoint perm_eqb (a b : list handle) : bool :=
  match a with
  | [] => match b with [] => true | _ => false end
  | x :: t => match remove_one x b with Some b' => perm_eqb t b' | None => false end
  end.

Definition out_eqb (o : op) (a b : out) : bool :=
  match a, b with
  | OUnit, OUnit => true
  | OCid x, OCid y => x =? y
  | OHandle x, OHandle y => handle_eqb x y
  | OHandles x, OHandles y =>
      match o with
      | Query _ => perm_eqb x y
      | _ => list_eqb handle_eqb x y
      end
  | OBool x, OBool y => Bool.eqb x y
  | OVal x, OVal y => opt_eqb Z.eqb x y
  | _, _ => false
  end.

Fixpoint outs_eqb (ops : list op) (a b : list out) : bool :=
  match ops, a, b with
  | [], [], [] => true
  | o :: ot, x :: xt, y :: yt => out_eqb o x y && outs_eqb ot xt yt
  | _, _, _ => false
  end.

Record case := { cid_ : nat; cops : list op; cimpl : list out }.

Definition model_outs (c : case) : list out := snd (run world_init (cops c)).
Definition case_ok (c : case) : bool := outs_eqb (cops c) (model_outs c) (cimpl c).
Definition mismatches (cs : list case) : list nat := fail_ids case_ok cid_ cs.
