(* MV.C14.EcsGraph — the archetype graph (archetype.go mutation, archetypes.go): add edges, the global
   mask table and the mutation cache always point at the archetype that carries the looked-up mask, so
   [mutation] returns an archetype whose mask is exactly the requested component set; archetypes are
   only ever appended, and existing ones keep their mask, members and storage. *)
From MV Require Import Lib.ListX C14.EcsModel C14.EcsSpec C14.EcsLemmas C14.EcsStore.
Open Scope nat_scope.
Arguments Nat.sub : simpl never.

Definition anth (l : list arch) (k : nat) : arch := nth k l darch.

Record graph_ok (l : list arch) (ms : masks) : Prop := {
  go_len : 1 <= length l;
  go_root : amask (anth l 0) = mask_root;
  go_wf : forall k, k < length l -> mwf (amask (anth l k));
  go_masks : forall m j, aget mask_eqb m ms = Some j -> j < length l /\ amask (anth l j) = m;
  go_edges : forall k m j, k < length l -> aget mask_eqb m (aadd (anth l k)) = Some j ->
             j < length l /\ amask (anth l j) = m;
  go_cache : forall k ids j, k < length l -> aget ids_eqb ids (acache (anth l k)) = Some j ->
             j < length l /\ amask (anth l j) = mask_of (amask (anth l k)) ids
}.

Definition fresh_arch (a : arch) : Prop :=
  aents a = [] /\ astore a = new_storage (mbits (amask a)).

(* l' has the archetypes of l with the same mask, members and storage, plus fresh ones *)
Definition ext (l l' : list arch) : Prop :=
  length l <= length l' /\
  (forall k, k < length l ->
     amask (anth l' k) = amask (anth l k) /\ aents (anth l' k) = aents (anth l k) /\
     astore (anth l' k) = astore (anth l k)) /\
  (forall k, length l <= k < length l' -> fresh_arch (anth l' k)).

Lemma ext_refl l : ext l l.
Proof. split; [lia|]. split; [auto|]. intros k Hk; lia. Qed.

Lemma ext_trans l1 l2 l3 : ext l1 l2 -> ext l2 l3 -> ext l1 l3.
Proof.
  intros (A1 & A2 & A3) (B1 & B2 & B3). split; [lia|]. split.
  - intros k Hk. destruct (A2 k Hk) as (E1 & E2 & E3). destruct (B2 k) as (F1 & F2 & F3); [lia|].
    repeat split; congruence.
  - intros k Hk. destruct (Nat.lt_ge_cases k (length l2)) as [Hlt|Hge].
    + destruct (A3 k) as [G1 G2]; [lia|]. destruct (B2 k Hlt) as (F1 & F2 & F3).
      split; [congruence|]. rewrite F3, F1. exact G2.
    + apply B3. lia.
Qed.

(* an update of entry k that keeps mask, members and storage *)
Lemma anth_upd_same l k a : k < length l -> anth (upd k a l) k = a.
Proof. intros. unfold anth. apply nth_upd_same; auto. Qed.
Lemma anth_upd_other l k j a : k <> j -> anth (upd k a l) j = anth l j.
Proof. intros. unfold anth. apply nth_upd_other; auto. Qed.

Lemma amask_upd l k a j :
  k < length l -> amask a = amask (anth l k) -> amask (anth (upd k a l) j) = amask (anth l j).
Proof.
  intros Hk E. destruct (Nat.eq_dec k j) as [<-|Hne].
  - rewrite anth_upd_same; auto.
  - rewrite anth_upd_other; auto.
Qed.

Lemma ext_upd l k a :
  k < length l -> amask a = amask (anth l k) -> aents a = aents (anth l k) -> astore a = astore (anth l k) ->
  ext l (upd k a l).
Proof.
  intros Hk E1 E2 E3. split; [rewrite upd_length; lia|]. split.
  - intros j Hj. destruct (Nat.eq_dec k j) as [<-|Hne].
    + rewrite anth_upd_same; auto.
    + rewrite anth_upd_other; auto.
  - intros j Hj. rewrite upd_length in Hj. lia.
Qed.

(* the graph only looks at masks, edges and caches *)
Lemma graph_ok_body l ms k es st :
  graph_ok l ms -> k < length l -> graph_ok (upd k (set_body (anth l k) es st) l) ms.
Proof.
  intros H Hk.
  assert (Hm : forall j, amask (anth (upd k (set_body (anth l k) es st) l) j) = amask (anth l j)).
  { intros j. apply amask_upd; auto. }
  assert (He : forall j, aadd (anth (upd k (set_body (anth l k) es st) l) j) = aadd (anth l j)).
  { intros j. destruct (Nat.eq_dec k j) as [<-|Hne]; [rewrite anth_upd_same | rewrite anth_upd_other]; auto. }
  assert (Hc : forall j, acache (anth (upd k (set_body (anth l k) es st) l) j) = acache (anth l j)).
  { intros j. destruct (Nat.eq_dec k j) as [<-|Hne]; [rewrite anth_upd_same | rewrite anth_upd_other]; auto. }
  constructor; rewrite ?upd_length.
  - apply (go_len _ _ H).
  - rewrite Hm. apply (go_root _ _ H).
  - intros j Hj. rewrite Hm. apply (go_wf _ _ H); auto.
  - intros m j Hj. rewrite Hm. apply (go_masks _ _ H); auto.
  - intros j m j' Hj. rewrite He, Hm. apply (go_edges _ _ H); auto.
  - intros j ids j' Hj. rewrite Hc, !Hm. apply (go_cache _ _ H); auto.
Qed.

Lemma add_edge_ok l ms k m j :
  graph_ok l ms -> k < length l -> j < length l -> amask (anth l j) = m ->
  graph_ok (add_edge k m j l) ms /\ ext l (add_edge k m j l).
Proof.
  intros H Hk Hj Hm. unfold add_edge. fold (anth l k).
  set (a' := set_aadd (anth l k) (aset mask_eqb m j (aadd (anth l k)))).
  assert (Hmk : forall x, amask (anth (upd k a' l) x) = amask (anth l x)).
  { intros x. apply amask_upd; auto. }
  split; [|apply ext_upd; auto].
  constructor; rewrite ?upd_length.
  - apply (go_len _ _ H).
  - rewrite Hmk. apply (go_root _ _ H).
  - intros x Hx. rewrite Hmk. apply (go_wf _ _ H); auto.
  - intros m' x Hx. rewrite Hmk. apply (go_masks _ _ H); auto.
  - intros x m' x' Hx. rewrite Hmk. destruct (Nat.eq_dec k x) as [<-|Hne].
    + rewrite anth_upd_same by auto. unfold a'; cbn [set_aadd set_acache aadd acache].
      rewrite (aget_aset mask_eqb mask_eqb_eq). destruct (mask_eqb m m') eqn:E.
      * apply mask_eqb_eq in E; subst m'. intros E'; inversion E'; subst x'. auto.
      * apply (go_edges _ _ H); auto.
    + rewrite anth_upd_other by auto. apply (go_edges _ _ H); auto.
  - intros x ids x' Hx. rewrite !Hmk. destruct (Nat.eq_dec k x) as [<-|Hne].
    + rewrite anth_upd_same by auto. unfold a'; cbn [set_aadd set_acache aadd acache]. apply (go_cache _ _ H); auto.
    + rewrite anth_upd_other by auto. apply (go_cache _ _ H); auto.
Qed.

Lemma set_cache_ok l ms k ids j :
  graph_ok l ms -> k < length l -> j < length l -> amask (anth l j) = mask_of (amask (anth l k)) ids ->
  let a := anth l k in
  graph_ok (upd k (set_acache a (aset ids_eqb ids j (acache a))) l) ms /\
  ext l (upd k (set_acache a (aset ids_eqb ids j (acache a))) l).
Proof.
  intros H Hk Hj Hm a.
  set (a' := set_acache a (aset ids_eqb ids j (acache a))).
  assert (Hmk : forall x, amask (anth (upd k a' l) x) = amask (anth l x)).
  { intros x. apply amask_upd; auto. }
  split; [|apply ext_upd; auto].
  constructor; rewrite ?upd_length.
  - apply (go_len _ _ H).
  - rewrite Hmk. apply (go_root _ _ H).
  - intros x Hx. rewrite Hmk. apply (go_wf _ _ H); auto.
  - intros m' x Hx. rewrite Hmk. apply (go_masks _ _ H); auto.
  - intros x m' x' Hx. rewrite Hmk. destruct (Nat.eq_dec k x) as [<-|Hne].
    + rewrite anth_upd_same by auto. unfold a'; cbn [set_aadd set_acache aadd acache]. apply (go_edges _ _ H); auto.
    + rewrite anth_upd_other by auto. apply (go_edges _ _ H); auto.
  - intros x ids' x' Hx. rewrite !Hmk. destruct (Nat.eq_dec k x) as [<-|Hne].
    + rewrite anth_upd_same by auto. unfold a'; cbn [set_aadd set_acache aadd acache].
      rewrite (aget_aset ids_eqb ids_eqb_eq). destruct (ids_eqb ids ids') eqn:E.
      * apply ids_eqb_eq in E; subst ids'. intros E'; inversion E'; subst x'. auto.
      * apply (go_cache _ _ H); auto.
    + rewrite anth_upd_other by auto. apply (go_cache _ _ H); auto.
Qed.

Lemma anth_app1 l t k : k < length l -> anth (l ++ t) k = anth l k.
Proof. intros. unfold anth. apply app_nth1; auto. Qed.
Lemma anth_app_last l a : anth (l ++ [a]) (length l) = a.
Proof. unfold anth. rewrite app_nth2 by lia. replace (length l - length l) with 0 by lia. reflexivity. Qed.

Lemma create_arch_ok l ms m prev :
  graph_ok l ms -> prev < length l -> mwf m ->
  let r := create_arch l ms m prev in
  graph_ok (fst (fst r)) (snd (fst r)) /\ ext l (fst (fst r)) /\
  snd r < length (fst (fst r)) /\ amask (anth (fst (fst r)) (snd r)) = m.
Proof.
  intros H Hp Hwf. unfold create_arch. cbn [fst snd].
  set (l1 := l ++ [new_arch m]). set (g := length l).
  assert (Hl1 : length l1 = S g) by (unfold l1; rewrite app_length; simpl; lia).
  assert (Hold : forall k, k < g -> anth l1 k = anth l k) by (intros; apply anth_app1; auto).
  assert (Hnew : anth l1 g = new_arch m) by apply anth_app_last.
  pose proof (go_len _ _ H) as Hlen.
  assert (G1 : graph_ok l1 (aset mask_eqb m g ms)).
  { constructor; rewrite ?Hl1.
    - lia.
    - rewrite Hold by (unfold g; lia). apply (go_root _ _ H).
    - intros k Hk. destruct (Nat.eq_dec k g) as [->|Hne].
      + rewrite Hnew. exact Hwf.
      + rewrite Hold by lia. apply (go_wf _ _ H). unfold g in *; lia.
    - intros m' j. rewrite (aget_aset mask_eqb mask_eqb_eq). destruct (mask_eqb m m') eqn:E.
      + apply mask_eqb_eq in E; subst m'. intros E'; inversion E'; subst j. split; [lia|].
        rewrite Hnew. reflexivity.
      + intros Hj. destruct (go_masks _ _ H _ _ Hj) as [J1 J2]. split; [unfold g; lia|].
        rewrite Hold by auto. exact J2.
    - intros k m' j Hk. destruct (Nat.eq_dec k g) as [->|Hne].
      + rewrite Hnew. simpl. discriminate.
      + rewrite Hold by lia. intros Hj. destruct (go_edges _ _ H k m' j) as [J1 J2]; auto; [unfold g in *; lia|].
        split; [unfold g; lia|]. rewrite Hold by auto. exact J2.
    - intros k ids j Hk. destruct (Nat.eq_dec k g) as [->|Hne].
      + rewrite Hnew. simpl. discriminate.
      + rewrite Hold by lia. intros Hj. destruct (go_cache _ _ H k ids j) as [J1 J2]; auto; [unfold g in *; lia|].
        split; [unfold g; lia|]. rewrite Hold by auto. exact J2. }
  assert (E1 : ext l l1).
  { split; [lia|]. split.
    - intros k Hk. rewrite Hold by auto. auto.
    - intros k Hk. assert (k = g) by (unfold g in *; lia). subst k. rewrite Hnew. split; reflexivity. }
  destruct (add_edge_ok l1 (aset mask_eqb m g ms) prev m g G1) as [G2 E2]; try lia.
  { rewrite Hnew. reflexivity. }
  split; [exact G2|]. split; [eapply ext_trans; eauto|]. split.
  - unfold add_edge. rewrite upd_length. lia.
  - destruct E2 as (_ & E2 & _). destruct (E2 g) as (M & _); [lia|]. rewrite M, Hnew. reflexivity.
Qed.

Lemma mut_add_ok add : forall l ms curr m l' ms' j,
  graph_ok l ms -> curr < length l -> amask (anth l curr) = m ->
  mut_add l ms curr m add = (l', ms', j) ->
  graph_ok l' ms' /\ ext l l' /\ j < length l' /\ amask (anth l' j) = mask_of m add.
Proof.
  induction add as [|id t IH]; intros l ms curr m l' ms' j H Hc Hm; cbn [mut_add].
  - intros E; inversion E; subst. split; auto. split; [apply ext_refl|]. split; auto.
  - fold (anth l curr). set (m' := mset id m).
    change (mask_of m (id :: t)) with (mask_of m' t).
    destruct (aget mask_eqb m' (aadd (anth l curr))) as [next|] eqn:Ee.
    + destruct (go_edges _ _ H _ _ _ Hc Ee) as [N1 N2]. intros E. eapply IH; eauto.
    + destruct (aget mask_eqb m' ms) as [next|] eqn:Eg.
      * destruct (go_masks _ _ H _ _ Eg) as [N1 N2].
        destruct (add_edge_ok l ms curr m' next H Hc N1 N2) as [G1 X1].
        assert (C1 : next < length (add_edge curr m' next l)).
        { unfold add_edge. rewrite upd_length. auto. }
        assert (C2 : amask (anth (add_edge curr m' next l) next) = m').
        { destruct X1 as (_ & X1 & _). destruct (X1 next N1) as (M & _). rewrite M. exact N2. }
        intros E. destruct (IH _ _ _ _ _ _ _ G1 C1 C2 E) as (G2 & X2 & J1 & J2).
        split; auto. split; [eapply ext_trans; eauto|]. auto.
      * assert (Hwf : mwf m').
        { unfold m'. apply mwf_mset. rewrite <- Hm. apply (go_wf _ _ H); auto. }
        destruct (create_arch_ok l ms m' curr H Hc Hwf) as (G1 & X1 & N1 & N2).
        destruct (create_arch l ms m' curr) as [[l1 ms1] next] eqn:Ec. cbn [fst snd] in *.
        intros E. destruct (IH _ _ _ _ _ _ _ G1 N1 N2 E) as (G2 & X2 & J1 & J2).
        split; auto. split; [eapply ext_trans; eauto|]. auto.
Qed.

Lemma mutation_ok l ms a add l' ms' j :
  graph_ok l ms -> a < length l -> mutation l ms a add = (l', ms', j) ->
  graph_ok l' ms' /\ ext l l' /\ j < length l' /\ amask (anth l' j) = mask_of (amask (anth l a)) add.
Proof.
  intros H Ha. unfold mutation. fold (anth l a).
  destruct (aget ids_eqb add (acache (anth l a))) as [j0|] eqn:Ec.
  - intros E; inversion E; subst. destruct (go_cache _ _ H _ _ _ Ha Ec) as [J1 J2].
    split; auto. split; [apply ext_refl|]. auto.
  - destruct (mut_add l ms a (amask (anth l a)) add) as [[l1 ms1] curr] eqn:Em.
    destruct (mut_add_ok add _ _ _ _ _ _ _ H Ha eq_refl Em) as (G1 & X1 & J1 & J2).
    intros E; inversion E; subst l' ms' j. clear E.
    assert (Ha1 : a < length l1) by (destruct X1; lia).
    assert (Hma : amask (anth l1 a) = amask (anth l a)).
    { destruct X1 as (_ & X1 & _). destruct (X1 a Ha) as (M & _). exact M. }
    fold (anth l1 a).
    destruct (set_cache_ok l1 ms1 a add curr G1 Ha1 J1) as [G2 X2].
    { rewrite Hma. exact J2. }
    split; [exact G2|]. split; [eapply ext_trans; eauto|]. split.
    + rewrite upd_length. auto.
    + destruct X2 as (_ & X2 & _). destruct (X2 curr J1) as (M & _). rewrite M. exact J2.
Qed.
