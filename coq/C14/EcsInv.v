(* MV.C14.EcsInv — the representation invariant between the ECS world model and the specification,
   and its preservation by every operation that respects the API's precondition. *)
From MV Require Import Lib.ListX C14.EcsModel C14.EcsSpec C14.EcsLemmas C14.EcsSlots C14.EcsStore C14.EcsGraph.
Open Scope nat_scope.
Arguments Nat.sub : simpl never.

Notation ixget := (aget handle_eqb).

Definition ids_of (a : arch) : nat -> Prop := fun i => exists g, In (i, g) (aents a).

Record arch_ok (ix : list ((nat * nat) * nat)) (sp : spec) (k : nat) (a : arch) : Prop := {
  ao_nodup : NoDup (aents a);
  ao_mem : forall e, In e (aents a) ->
           In e (living sp) /\ ixget e ix = Some k /\ repr (amask a) (comps sp e);
  ao_store : store_ok (astore a) (ids_of a);
  ao_cols : forall c, mem c (amask a) = true -> colof (astore a) c <> None;
  ao_data : forall e c, In e (aents a) -> mem c (amask a) = true ->
            valof (astore a) (fst e) c = Some (data sp e c)
}.

Record Inv (w : world) (sp : spec) : Prop := {
  inv_slots : slots_ok (wents w) (living sp) (issued sp);
  inv_graph : graph_ok (arts w) (wmasks w);
  inv_arch : forall k, k < length (arts w) -> arch_ok (windex w) sp k (anth (arts w) k);
  inv_index : forall e k, ixget e (windex w) = Some k ->
              k < length (arts w) /\ In e (aents (anth (arts w) k));
  inv_living : forall e, In e (living sp) -> exists k, ixget e (windex w) = Some k;
  inv_data : forall e c v, aget hc_eqb (e, c) (sdata sp) = Some v -> In e (issued sp)
}.

(* ---------------------------------------------------------------- small facts *)
Lemma ids_of_false a : aents a = [] -> forall i, ids_of a i <-> False.
Proof. intros E i. unfold ids_of. rewrite E. split; [intros [g []] | tauto]. Qed.

Lemma arch_ok_fresh ix sp k a : fresh_arch a -> arch_ok ix sp k a.
Proof.
  intros [E1 E2]. constructor.
  - rewrite E1. constructor.
  - rewrite E1. intros e [].
  - rewrite E2. eapply store_ok_ext; [|apply new_storage_ok]. intros i. symmetry. apply ids_of_false; auto.
  - intros c Hc. rewrite E2, new_storage_colof.
    assert (memb c (mbits (amask a)) = true) by (apply memb_In, mbits_In; auto).
    rewrite H. discriminate.
  - rewrite E1. intros e c [].
Qed.

(* arch_ok only looks at mask, members and storage *)
Lemma arch_ok_core ix sp k a a' :
  amask a' = amask a -> aents a' = aents a -> astore a' = astore a -> arch_ok ix sp k a -> arch_ok ix sp k a'.
Proof.
  intros E1 E2 E3 H. constructor; unfold ids_of; rewrite ?E1, ?E2, ?E3.
  - apply (ao_nodup _ _ _ _ H).
  - apply (ao_mem _ _ _ _ H).
  - apply (ao_store _ _ _ _ H).
  - apply (ao_cols _ _ _ _ H).
  - apply (ao_data _ _ _ _ H).
Qed.

(* the members of an untouched archetype see the same specification *)
Lemma arch_ok_frame ix sp ix' sp' k a :
  arch_ok ix sp k a ->
  (forall e, In e (aents a) ->
     In e (living sp') /\ ixget e ix' = ixget e ix /\ comps sp' e = comps sp e /\
     forall c, data sp' e c = data sp e c) ->
  arch_ok ix' sp' k a.
Proof.
  intros H F. constructor.
  - apply (ao_nodup _ _ _ _ H).
  - intros e He. destruct (F e He) as (F1 & F2 & F3 & F4). destruct (ao_mem _ _ _ _ H e He) as (M1 & M2 & M3).
    split; auto. split; [congruence|]. rewrite F3. exact M3.
  - apply (ao_store _ _ _ _ H).
  - apply (ao_cols _ _ _ _ H).
  - intros e c He Hc. destruct (F e He) as (F1 & F2 & F3 & F4). rewrite F4. apply (ao_data _ _ _ _ H); auto.
Qed.

Lemma ext_arch_ok ix sp l l' :
  ext l l' -> (forall k, k < length l -> arch_ok ix sp k (anth l k)) ->
  forall k, k < length l' -> arch_ok ix sp k (anth l' k).
Proof.
  intros (X1 & X2 & X3) H k Hk. destruct (Nat.lt_ge_cases k (length l)) as [Hlt|Hge].
  - destruct (X2 k Hlt) as (E1 & E2 & E3). eapply arch_ok_core; eauto.
  - apply arch_ok_fresh. apply X3. lia.
Qed.

Lemma living_issued w sp e : Inv w sp -> In e (living sp) -> In e (issued sp).
Proof. intros H. apply (so_sub _ _ _ (inv_slots _ _ H)). Qed.

Lemma member_facts w sp e k :
  Inv w sp -> ixget e (windex w) = Some k ->
  k < length (arts w) /\ In e (aents (anth (arts w) k)) /\ In e (living sp) /\
  repr (amask (anth (arts w) k)) (comps sp e).
Proof.
  intros H Hk. destruct (inv_index _ _ H _ _ Hk) as [K1 K2].
  destruct (ao_mem _ _ _ _ (inv_arch _ _ H k K1) e K2) as (M1 & M2 & M3). auto.
Qed.

Lemma member_ids_unique w sp k i g g' :
  Inv w sp -> k < length (arts w) ->
  In (i, g) (aents (anth (arts w) k)) -> In (i, g') (living sp) -> g = g'.
Proof.
  intros H Hk H1 H2. destruct (ao_mem _ _ _ _ (inv_arch _ _ H k Hk) _ H1) as (M1 & _).
  eapply liv_id_unique; eauto using inv_slots.
Qed.

Lemma data_fresh w sp e c : Inv w sp -> ~ In e (issued sp) -> data sp e c = 0%Z.
Proof.
  intros H Hn. unfold data. destruct (aget hc_eqb (e, c) (sdata sp)) as [v|] eqn:E; auto.
  exfalso. apply Hn. eapply inv_data; eauto.
Qed.

(* ---------------------------------------------------------------- specification side *)
Lemma spawn_fold_living cs es : forall sp,
  living (fold_left (fun s e => sp_spawn s cs e) es sp) = living sp ++ es /\
  issued (fold_left (fun s e => sp_spawn s cs e) es sp) = issued sp ++ es /\
  sdata (fold_left (fun s e => sp_spawn s cs e) es sp) = sdata sp /\
  forall e, comps (fold_left (fun s e => sp_spawn s cs e) es sp) e = if inb e es then cs else comps sp e.
Proof.
  induction es as [|x t IH]; intros sp; simpl.
  - rewrite !app_nil_r. auto.
  - destruct (IH (sp_spawn sp cs x)) as (I1 & I2 & I3 & I4). rewrite I1, I2, I3. simpl.
    rewrite <- !app_assoc. repeat split; auto.
    intros e. rewrite I4. destruct (inb e t) eqn:Et; [rewrite orb_true_r; auto|]. rewrite orb_false_r.
    unfold comps at 1. unfold sp_spawn; cbn [scomps]. rewrite (aget_aset handle_eqb handle_eqb_eq).
    rewrite (handle_eqb_sym x e). destruct (handle_eqb e x); reflexivity.
Qed.

Lemma index_fold k es : forall (ix : list ((nat * nat) * nat)) e,
  ixget e (fold_left (fun ix e => aset handle_eqb e k ix) es ix) = if inb e es then Some k else ixget e ix.
Proof.
  induction es as [|x t IH]; intros ix e; simpl; auto.
  rewrite IH. destruct (inb e t) eqn:Et; [rewrite orb_true_r; auto|]. rewrite orb_false_r.
  rewrite (aget_aset handle_eqb handle_eqb_eq). rewrite (handle_eqb_sym x e). reflexivity.
Qed.

Lemma data_same sp sp' : sdata sp' = sdata sp -> forall e c, data sp' e c = data sp e c.
Proof. intros E e c. unfold data. rewrite E. reflexivity. Qed.
Lemma comps_same sp sp' : scomps sp' = scomps sp -> forall e, comps sp' e = comps sp e.
Proof. intros E e. unfold comps. rewrite E. reflexivity. Qed.

Lemma NoDup_app_parts {A} (l1 l2 : list A) :
  NoDup (l1 ++ l2) -> NoDup l1 /\ NoDup l2 /\ forall x, In x l1 -> ~ In x l2.
Proof.
  induction l1 as [|a t IH]; simpl; intros H.
  - split; [constructor|]. split; auto.
  - inversion H as [|x l Hn Hd]; subst. destruct (IH Hd) as (I1 & I2 & I3). split; [|split; auto].
    + constructor; auto. intros Hin. apply Hn. apply in_or_app; auto.
    + intros x [<-|Hx]; [|auto]. intros Hin. apply Hn. apply in_or_app; auto.
Qed.

Lemma NoDup_map_fst (es : list (nat * nat)) :
  NoDup es -> (forall i g g', In (i, g) es -> In (i, g') es -> g = g') -> NoDup (map fst es).
Proof.
  induction es as [|[i g] t IH]; simpl; intros Hd Hu; [constructor|].
  inversion Hd as [|x l Hn Hd']; subst. constructor.
  - intros Hin. apply in_map_iff in Hin as ([i' g'] & E & Hin). simpl in E; subst i'.
    assert (g = g') by (apply (Hu i); [left|right]; auto). subst. contradiction.
  - apply IH; auto. intros i0 g0 g0' H1 H2. apply (Hu i0); right; auto.
Qed.

(* ---------------------------------------------------------------- Spawn / Spawns *)
Lemma bind_many_inv w sp l1 ms1 k cs p1 es :
  Inv w sp ->
  graph_ok l1 ms1 -> ext (arts w) l1 -> k < length l1 -> repr (amask (anth l1 k)) cs ->
  slots_ok p1 (living sp ++ es) (issued sp ++ es) ->
  Inv {| wents := p1; arts := bind_many k es l1; wmasks := ms1;
         windex := fold_left (fun ix e => aset handle_eqb e k ix) es (windex w); wcomps := wcomps w |}
      (fold_left (fun s e => sp_spawn s cs e) es sp).
Proof.
  intros H G X Hk Hr S.
  destruct (spawn_fold_living cs es sp) as (L1 & L2 & L3 & L4).
  set (sp' := fold_left (fun s e => sp_spawn s cs e) es sp) in *.
  set (ix' := fold_left (fun ix e => aset handle_eqb e k ix) es (windex w)).
  assert (Hix : forall e, ixget e ix' = if inb e es then Some k else ixget e (windex w)) by (intros; apply index_fold).
  destruct (NoDup_app_parts _ _ (so_nd_iss _ _ _ S)) as (_ & Hnd & Hdis).
  assert (Hold : forall e, In e (living sp) -> inb e es = false).
  { intros e He. apply inb_false. intros Hin. apply (Hdis e); auto. eapply living_issued; eauto. }
  assert (Hdata : forall e c, data sp' e c = data sp e c) by (apply data_same; auto).
  assert (Hall : forall j, j < length l1 -> arch_ok (windex w) sp j (anth l1 j)).
  { apply (ext_arch_ok _ _ _ _ X). apply (inv_arch _ _ H). }
  set (a := anth l1 k).
  unfold bind_many. fold (anth l1 k). fold a.
  set (a' := set_body a (aents a ++ es) (add_rows (astore a) (map fst es))).
  pose proof (Hall k Hk) as Ak. fold a in Ak.
  (* ids of the new handles are new in a's storage *)
  assert (Hu : forall i g g', In (i, g) (living sp ++ es) -> In (i, g') (living sp ++ es) -> g = g').
  { intros i g g'. apply (liv_id_unique _ _ _ _ _ _ S). }
  assert (Hids : NoDup (map fst es)).
  { apply NoDup_map_fst; auto. intros i g g' H1 H2. apply (Hu i); apply in_or_app; auto. }
  assert (Hnew : forall i, In i (map fst es) -> ~ ids_of a i).
  { intros i Hi [g Hg]. apply in_map_iff in Hi as ([i' g'] & E & Hin). simpl in E; subst i'.
    destruct (ao_mem _ _ _ _ Ak _ Hg) as (M1 & _).
    assert (g = g') by (apply (Hu i); apply in_or_app; auto). subst g'.
    apply (Hdis (i, g)); auto. eapply living_issued; eauto. }
  destruct (add_rows_ok (astore a) (ids_of a) (map fst es) (ao_store _ _ _ _ Ak) Hids Hnew) as (R1 & R2 & R3 & R4).
  constructor; cbn [wents arts wmasks windex wcomps].
  - rewrite L1, L2. exact S.
  - apply graph_ok_body; auto.
  - rewrite upd_length. intros j Hj. destruct (Nat.eq_dec k j) as [<-|Hne].
    + rewrite anth_upd_same by auto. constructor; cbn [aents astore amask set_body].
      * apply NoDup_app_intro; auto using (ao_nodup _ _ _ _ Ak).
        intros e He Hin. destruct (ao_mem _ _ _ _ Ak e He) as (M1 & _). apply (Hdis e); auto.
        eapply living_issued; eauto.
      * intros e He. apply in_app_or in He as [He|He].
        -- destruct (ao_mem _ _ _ _ Ak e He) as (M1 & M2 & M3). rewrite L1, Hix, L4, (Hold e M1).
           split; [apply in_or_app; auto|]. auto.
        -- assert (Ei : inb e es = true) by (apply inb_In; auto). rewrite L1, Hix, L4, Ei.
           split; [apply in_or_app; auto|]. auto.
      * eapply store_ok_ext; [|exact R1]. intros i. unfold ids_of; cbn [aents set_body]. split.
        -- intros [[g Hg]|Hi]; [exists g; apply in_or_app; auto|].
           apply in_map_iff in Hi as ([i' g] & E & Hin). simpl in E; subst i'. exists g. apply in_or_app; auto.
        -- intros [g Hg]. apply in_app_or in Hg as [Hg|Hg]; [left; exists g; auto|].
           right. apply in_map_iff. exists (i, g). auto.
      * intros c Hc E. apply R2 in E. revert E. apply (ao_cols _ _ _ _ Ak); auto.
      * intros e c He Hc. rewrite Hdata. apply in_app_or in He as [He|He].
        -- rewrite R4; [apply (ao_data _ _ _ _ Ak); auto|].
           intros Hin. apply (Hnew _ Hin). exists (snd e). rewrite <- surjective_pairing. exact He.
        -- rewrite R3; [|apply in_map; auto | apply (ao_cols _ _ _ _ Ak); auto].
           rewrite (data_fresh w sp); auto. intros Hin. apply (Hdis e); auto.
    + rewrite anth_upd_other by auto. apply (arch_ok_frame (windex w) sp); [apply Hall; auto|].
      intros e He. destruct (ao_mem _ _ _ _ (Hall j Hj) e He) as (M1 & _).
      rewrite L1, Hix, L4, (Hold e M1). split; [apply in_or_app; auto|]. auto.
  - intros e j. rewrite Hix, upd_length. destruct (inb e es) eqn:Ei.
    + intros E; inversion E; subst j. split; auto. rewrite anth_upd_same by auto. cbn [aents set_body].
      apply in_or_app. right. apply inb_In; auto.
    + intros Hj. destruct (inv_index _ _ H _ _ Hj) as [J1 J2]. destruct X as (X1 & X2 & X3).
      split; [lia|]. destruct (X2 j J1) as (_ & E2 & _).
      destruct (Nat.eq_dec k j) as [<-|Hne].
      * rewrite anth_upd_same by auto. cbn [aents set_body]. apply in_or_app. left. unfold a. rewrite E2. exact J2.
      * rewrite anth_upd_other by auto. rewrite E2. exact J2.
  - intros e. rewrite L1, Hix. intros He. apply in_app_or in He as [He|He].
    + rewrite (Hold e He). apply (inv_living _ _ H); auto.
    + assert (Ei : inb e es = true) by (apply inb_In; auto). rewrite Ei. eauto.
  - intros e c v. rewrite L3, L2. intros Hv. apply in_or_app. left. eapply inv_data; eauto.
Qed.

Lemma root_repr w sp cs l1 ms1 k :
  Inv w sp -> mutation (arts w) (wmasks w) 0 cs = (l1, ms1, k) ->
  graph_ok l1 ms1 /\ ext (arts w) l1 /\ k < length l1 /\ repr (amask (anth l1 k)) cs.
Proof.
  intros H E. pose proof (inv_graph _ _ H) as G.
  destruct (mutation_ok _ _ _ _ _ _ _ G (go_len _ _ G) E) as (G1 & X1 & J1 & J2).
  split; auto. split; auto. split; auto.
  intros c. rewrite J2, (go_root _ _ G), mem_mask_of, mem_root, orb_false_r. reflexivity.
Qed.

Lemma spawns_inv w sp n cs :
  Inv w sp -> Inv (fst (spawns w n cs)) (fold_left (fun s e => sp_spawn s cs e) (snd (spawns w n cs)) sp).
Proof.
  intros H. unfold spawns.
  destruct (mutation (arts w) (wmasks w) 0 cs) as [[l1 ms1] k] eqn:Em.
  destruct (root_repr _ _ _ _ _ _ H Em) as (G1 & X1 & J1 & J2).
  pose proof (ent_get_many_ok n _ _ _ (inv_slots _ _ H)) as S.
  destruct (ent_get_many (wents w) n) as [p1 es] eqn:Eg. cbn [fst snd] in *.
  apply bind_many_inv; auto.
Qed.

Lemma bind_bind_many k e l : bind k e l = bind_many k [e] l.
Proof. unfold bind, bind_many. simpl. rewrite add_row_rows. reflexivity. Qed.

Lemma spawn_inv w sp cs :
  Inv w sp -> Inv (fst (spawn w cs)) (sp_spawn sp cs (snd (spawn w cs))).
Proof.
  intros H. unfold spawn.
  destruct (mutation (arts w) (wmasks w) 0 cs) as [[l1 ms1] k] eqn:Em.
  destruct (root_repr _ _ _ _ _ _ H Em) as (G1 & X1 & J1 & J2).
  destruct (ent_get_ok _ _ _ (inv_slots _ _ H)) as [S _].
  destruct (ent_get (wents w)) as [p1 e] eqn:Eg. cbn [fst snd] in *.
  rewrite bind_bind_many.
  apply (bind_many_inv w sp l1 ms1 k cs p1 [e]); auto.
Qed.
