(* MV.C14.EcsOps — invariant preservation for Annihilate(s), Get / write through the world or a query
   result, and for whole histories. *)
From MV Require Import Lib.ListX C14.EcsModel C14.EcsSpec C14.EcsLemmas C14.EcsSlots C14.EcsStore C14.EcsGraph C14.EcsInv.
Open Scope nat_scope.
Arguments Nat.sub : simpl never.

(* ---------------------------------------------------------------- remove_first *)
Lemma remove_first_In e l x : NoDup l -> (In x (remove_first e l) <-> In x l /\ x <> e).
Proof.
  induction l as [|a t IH]; simpl; intros Hd; [tauto|].
  inversion Hd as [|y l' Hn Hd']; subst.
  destruct (handle_eqb a e) eqn:E.
  - apply handle_eqb_eq in E; subst a. split.
    + intros Hx. split; auto. intros ->. contradiction.
    + intros [[<-|Hx] Hne]; [congruence | auto].
  - simpl. rewrite IH by auto. split.
    + intros [<-|[Hx Hne]]; [|tauto]. split; auto. intros ->. rewrite handle_eqb_refl in E. discriminate.
    + intros [[<-|Hx] Hne]; auto.
Qed.

Lemma remove_first_NoDup e l : NoDup l -> NoDup (remove_first e l).
Proof.
  induction l as [|a t IH]; simpl; intros Hd; auto.
  inversion Hd as [|y l' Hn Hd']; subst.
  destruct (handle_eqb a e); auto. constructor; auto.
  intros Hin. apply remove_first_In in Hin; auto. tauto.
Qed.

Lemma kill_living sp e x : In x (living (sp_kill sp e)) <-> In x (living sp) /\ x <> e.
Proof.
  unfold sp_kill; cbn [living]. rewrite filter_In, negb_true_iff. split; intros [H1 H2]; split; auto.
  - intros ->. rewrite handle_eqb_refl in H2. discriminate.
  - apply handle_eqb_neq; auto.
Qed.

(* ---------------------------------------------------------------- Annihilate *)
Lemma annihilate_inv w sp e : Inv w sp -> In e (living sp) -> Inv (annihilate w e) (sp_kill sp e).
Proof.
  intros H He. unfold annihilate, unbind.
  destruct (inv_living _ _ H e He) as [k Hk]. rewrite Hk.
  destruct (member_facts _ _ _ _ H Hk) as (K1 & K2 & _ & _).
  fold (anth (arts w) k). set (a := anth (arts w) k) in *.
  pose proof (inv_arch _ _ H k K1) as Ak. fold a in Ak.
  set (ix' := adel handle_eqb e (windex w)).
  assert (Hix : forall x, ixget x ix' = if handle_eqb e x then None else ixget x (windex w)).
  { intros x. apply (aget_adel handle_eqb handle_eqb_eq). }
  assert (Hd : forall x c, data (sp_kill sp e) x c = data sp x c) by (apply data_same; reflexivity).
  assert (Hc : forall x, comps (sp_kill sp e) x = comps sp x) by (apply comps_same; reflexivity).
  assert (Hfst : forall x, In x (aents a) -> x <> e -> fst x <> fst e).
  { intros [i g] Hx Hne E. simpl in E. destruct e as [i' g']. simpl in E; subst i'.
    apply Hne. f_equal. eapply member_ids_unique; eauto. }
  destruct (del_row_ok (astore a) (ids_of a) (fst e) (ao_store _ _ _ _ Ak)) as (R1 & R2 & R3).
  { exists (snd e). rewrite <- surjective_pairing. exact K2. }
  constructor; cbn [wents arts wmasks windex wcomps].
  - apply ent_recycle_ok; auto. apply (inv_slots _ _ H).
  - apply graph_ok_body; auto. apply (inv_graph _ _ H).
  - rewrite upd_length. intros j Hj. destruct (Nat.eq_dec k j) as [<-|Hne].
    + rewrite anth_upd_same by auto. constructor; cbn [aents astore amask set_body].
      * apply remove_first_NoDup. apply (ao_nodup _ _ _ _ Ak).
      * intros x Hx. apply remove_first_In in Hx; [|apply (ao_nodup _ _ _ _ Ak)]. destruct Hx as [Hx Hne].
        destruct (ao_mem _ _ _ _ Ak x Hx) as (M1 & M2 & M3).
        split; [apply kill_living; auto|]. rewrite Hix, Hc, handle_eqb_neq by congruence. auto.
      * eapply store_ok_ext; [|exact R1]. intros i. unfold ids_of; cbn [aents set_body]. split.
        -- intros [[g Hg] Hne]. exists g. apply remove_first_In; [apply (ao_nodup _ _ _ _ Ak)|].
           split; auto. intros E. apply Hne. rewrite <- E. reflexivity.
        -- intros [g Hg]. apply remove_first_In in Hg; [|apply (ao_nodup _ _ _ _ Ak)]. destruct Hg as [Hg Hne].
           split; [exists g; auto|]. apply (Hfst _ Hg Hne).
      * intros c Hm. rewrite R2. apply (ao_cols _ _ _ _ Ak); auto.
      * intros x c Hx Hm. apply remove_first_In in Hx; [|apply (ao_nodup _ _ _ _ Ak)]. destruct Hx as [Hx Hne].
        rewrite Hd, R3 by (apply Hfst; auto). apply (ao_data _ _ _ _ Ak); auto.
    + rewrite anth_upd_other by auto. apply (arch_ok_frame (windex w) sp); [apply (inv_arch _ _ H); auto|].
      intros x Hx. destruct (ao_mem _ _ _ _ (inv_arch _ _ H j Hj) x Hx) as (M1 & M2 & _).
      assert (x <> e) by (intros ->; congruence).
      split; [apply kill_living; auto|]. rewrite Hix, handle_eqb_neq by congruence. auto.
  - intros x j. rewrite Hix, upd_length. destruct (handle_eqb e x) eqn:E; [discriminate|].
    intros Hj. destruct (inv_index _ _ H _ _ Hj) as [J1 J2]. split; auto.
    destruct (Nat.eq_dec k j) as [<-|Hne].
    + rewrite anth_upd_same by auto. cbn [aents set_body].
      apply remove_first_In; [apply (ao_nodup _ _ _ _ Ak)|]. split; auto.
      intros ->. rewrite handle_eqb_refl in E. discriminate.
    + rewrite anth_upd_other by auto. exact J2.
  - intros x Hx. apply kill_living in Hx as [Hx Hne]. rewrite Hix, handle_eqb_neq by congruence.
    apply (inv_living _ _ H); auto.
  - cbn [sdata issued sp_kill]. apply (inv_data _ _ H).
Qed.

Lemma annihilates_fold es : forall w, annihilates w es = fold_left annihilate es w.
Proof.
  induction es as [|e t IH]; intros w.
  - unfold annihilates. simpl. destruct w; reflexivity.
  - simpl. rewrite <- IH. unfold annihilates, annihilate. simpl.
    destruct (unbind (arts w) (windex w) e) as [l1 ix1]. reflexivity.
Qed.

Lemma nodupb_NoDup l : nodupb l = true -> NoDup l.
Proof.
  induction l as [|a t IH]; simpl; [constructor|].
  rewrite andb_true_iff, negb_true_iff. intros [H1 H2]. constructor; auto. apply inb_false; auto.
Qed.

Lemma annihilates_inv es : forall w sp,
  Inv w sp -> NoDup es -> (forall e, In e es -> In e (living sp)) ->
  Inv (fold_left annihilate es w) (fold_left sp_kill es sp).
Proof.
  induction es as [|e t IH]; intros w sp H Hd Hl; simpl; auto.
  inversion Hd as [|x l Hn Hd']; subst. apply IH; auto.
  - apply annihilate_inv; auto. apply Hl; left; auto.
  - intros x Hx. apply kill_living. split; [apply Hl; right; auto|]. intros ->. contradiction.
Qed.

(* ---------------------------------------------------------------- Get *)
Lemma arch_get_inv w sp k e c :
  Inv w sp -> k < length (arts w) ->
  Inv (fst (arch_get w k e c)) sp /\
  snd (arch_get w k e c) = valof (astore (anth (arts w) k)) (fst e) c.
Proof.
  intros H Hk. unfold arch_get. fold (anth (arts w) k). set (a := anth (arts w) k).
  pose proof (inv_arch _ _ H k Hk) as Ak. fold a in Ak.
  pose proof (st_get_snd (astore a) (fst e) c) as Hs.
  destruct (st_get_ok (astore a) (ids_of a) (fst e) c (ao_store _ _ _ _ Ak)) as (R1 & R2 & R3).
  destruct (st_get (astore a) (fst e) c) as [st v]. cbn [fst snd] in *.
  split; auto.
  constructor; cbn [set_arts wents arts wmasks windex wcomps].
  - apply (inv_slots _ _ H).
  - apply graph_ok_body; auto. apply (inv_graph _ _ H).
  - rewrite upd_length. intros j Hj. destruct (Nat.eq_dec k j) as [<-|Hne].
    + rewrite anth_upd_same by auto. constructor; cbn [aents astore amask set_body].
      * apply (ao_nodup _ _ _ _ Ak).
      * apply (ao_mem _ _ _ _ Ak).
      * exact R1.
      * intros c' Hm. rewrite R2. apply (ao_cols _ _ _ _ Ak); auto.
      * intros x c' Hx Hm. rewrite R3. apply (ao_data _ _ _ _ Ak); auto.
    + rewrite anth_upd_other by auto. apply (inv_arch _ _ H); auto.
  - intros x j Hj. rewrite upd_length. destruct (inv_index _ _ H _ _ Hj) as [J1 J2]. split; auto.
    destruct (Nat.eq_dec k j) as [<-|Hne]; [rewrite anth_upd_same by auto | rewrite anth_upd_other by auto]; auto.
  - apply (inv_living _ _ H).
  - apply (inv_data _ _ H).
Qed.

Lemma world_get_inv w sp e c : Inv w sp -> Inv (fst (world_get w e c)) sp.
Proof.
  intros H. unfold world_get. destruct (ent_alive (wents w) e); auto.
  destruct (ixget e (windex w)) as [k|] eqn:Ek; auto.
  destruct (misset c (amask (nth k (arts w) darch))); auto.
  apply arch_get_inv; auto. apply (inv_index _ _ H _ _ Ek).
Qed.

Lemma result_get_inv w sp e c : Inv w sp -> Inv (fst (result_get w e c)) sp.
Proof.
  intros H. unfold result_get. destruct (ixget e (windex w)) as [k|] eqn:Ek; auto.
  apply arch_get_inv; auto. apply (inv_index _ _ H _ _ Ek).
Qed.

(* what Get answers *)
Lemma owns_facts w sp e c :
  Inv w sp -> owns sp e c = true ->
  exists k, ixget e (windex w) = Some k /\ k < length (arts w) /\ In e (aents (anth (arts w) k)) /\
            mem c (amask (anth (arts w) k)) = true /\ ent_alive (wents w) e = true.
Proof.
  intros H Ho. unfold owns in Ho. apply andb_true_iff in Ho as [Hl Hc]. apply inb_In in Hl.
  destruct (inv_living _ _ H e Hl) as [k Hk]. exists k.
  destruct (member_facts _ _ _ _ H Hk) as (K1 & K2 & _ & K4).
  repeat split; auto.
  - rewrite K4. exact Hc.
  - eapply alive_living; eauto using inv_slots.
Qed.

Lemma world_get_out w sp e c :
  Inv w sp -> In e (issued sp) ->
  snd (world_get w e c) = if owns sp e c then Some (data sp e c) else None.
Proof.
  intros H Hi. unfold world_get. rewrite (alive_spec _ _ _ _ (inv_slots _ _ H) Hi). unfold owns.
  destruct (inb e (living sp)) eqn:El; simpl; auto.
  apply inb_In in El. destruct (inv_living _ _ H e El) as [k Hk]. rewrite Hk.
  destruct (member_facts _ _ _ _ H Hk) as (K1 & K2 & _ & K4).
  fold (anth (arts w) k). rewrite misset_mem, K4.
  destruct (memb c (comps sp e)) eqn:Ec; auto.
  destruct (arch_get_inv w sp k e c H K1) as [_ Hv]. rewrite Hv.
  apply (ao_data _ _ _ _ (inv_arch _ _ H k K1)); auto. rewrite K4; auto.
Qed.

Lemma result_get_out w sp e c :
  Inv w sp -> owns sp e c = true -> snd (result_get w e c) = Some (data sp e c).
Proof.
  intros H Ho. destruct (owns_facts _ _ _ _ H Ho) as (k & Hk & K1 & K2 & K3 & _).
  unfold result_get. rewrite Hk. destruct (arch_get_inv w sp k e c H K1) as [_ Hv]. rewrite Hv.
  apply (ao_data _ _ _ _ (inv_arch _ _ H k K1)); auto.
Qed.

(* ---------------------------------------------------------------- write *)
Lemma data_write sp e c v x c' :
  owns sp e c = true ->
  data (sp_write sp e c v) x c' = if hc_eqb (e, c) (x, c') then v else data sp x c'.
Proof.
  intros Ho. unfold sp_write. rewrite Ho. unfold data; cbn [sdata].
  rewrite (aget_aset hc_eqb hc_eqb_eq). destruct (hc_eqb (e, c) (x, c')); reflexivity.
Qed.

Lemma arch_write_inv w sp k e c v :
  Inv w sp -> ixget e (windex w) = Some k -> mem c (amask (anth (arts w) k)) = true ->
  Inv (fst (arch_write w k e c v)) (sp_write sp e c v) /\ snd (arch_write w k e c v) = true.
Proof.
  intros H Hk Hm.
  destruct (member_facts _ _ _ _ H Hk) as (K1 & K2 & K3 & K4).
  assert (Ho : owns sp e c = true).
  { unfold owns. apply andb_true_iff. split; [apply inb_In; auto|]. rewrite <- K4. exact Hm. }
  unfold arch_write. fold (anth (arts w) k). set (a := anth (arts w) k) in *.
  pose proof (inv_arch _ _ H k K1) as Ak. fold a in Ak.
  pose proof (st_write_snd (astore a) (fst e) c v) as Hs.
  destruct (st_write_ok (astore a) (ids_of a) (fst e) c v (ao_store _ _ _ _ Ak)) as (R1 & R2 & R3 & R4).
  pose proof (ao_data _ _ _ _ Ak e c K2 Hm) as Hval.
  destruct (st_write (astore a) (fst e) c v) as [st ok]. cbn [fst snd] in *.
  rewrite Hval in Hs. split; auto.
  assert (Hd : forall x c', data (sp_write sp e c v) x c' = if hc_eqb (e, c) (x, c') then v else data sp x c')
    by (intros; apply data_write; auto).
  assert (Hliv : living (sp_write sp e c v) = living sp) by (unfold sp_write; rewrite Ho; reflexivity).
  assert (Hiss : issued (sp_write sp e c v) = issued sp) by (unfold sp_write; rewrite Ho; reflexivity).
  assert (Hcmp : forall x, comps (sp_write sp e c v) x = comps sp x).
  { apply comps_same. unfold sp_write; rewrite Ho; reflexivity. }
  constructor; cbn [set_arts wents arts wmasks windex wcomps].
  - rewrite Hliv, Hiss. apply (inv_slots _ _ H).
  - apply graph_ok_body; auto. apply (inv_graph _ _ H).
  - rewrite upd_length. intros j Hj. destruct (Nat.eq_dec k j) as [<-|Hne].
    + rewrite anth_upd_same by auto. constructor; cbn [aents astore amask set_body].
      * apply (ao_nodup _ _ _ _ Ak).
      * intros x Hx. rewrite Hliv, Hcmp. apply (ao_mem _ _ _ _ Ak); auto.
      * exact R1.
      * intros c' Hm'. rewrite R2. apply (ao_cols _ _ _ _ Ak); auto.
      * intros x c' Hx Hm'. rewrite Hd. destruct (hc_eqb (e, c) (x, c')) eqn:E.
        -- apply hc_eqb_eq in E. inversion E; subst x c'. apply R3. rewrite Hval. discriminate.
        -- rewrite R4; [apply (ao_data _ _ _ _ Ak); auto|].
           intros E'. inversion E' as [[E1 E2]]. subst c'.
           assert (x = e).
           { destruct x as [i g], e as [i' g']. simpl in E1; subst i'. f_equal.
             eapply member_ids_unique; eauto. }
           subst x. assert (hc_eqb (e, c) (e, c) = true) by (apply hc_eqb_eq; auto). congruence.
    + rewrite anth_upd_other by auto. apply (arch_ok_frame (windex w) sp); [apply (inv_arch _ _ H); auto|].
      intros x Hx. destruct (ao_mem _ _ _ _ (inv_arch _ _ H j Hj) x Hx) as (M1 & M2 & _).
      rewrite Hliv, Hcmp. split; auto. split; auto. split; auto.
      intros c'. rewrite Hd. destruct (hc_eqb (e, c) (x, c')) eqn:E; auto.
      apply hc_eqb_eq in E. inversion E; subst x. congruence.
  - intros x j Hj. rewrite upd_length. destruct (inv_index _ _ H _ _ Hj) as [J1 J2]. split; auto.
    destruct (Nat.eq_dec k j) as [<-|Hne]; [rewrite anth_upd_same by auto | rewrite anth_upd_other by auto]; auto.
  - rewrite Hliv. apply (inv_living _ _ H).
  - rewrite Hiss. unfold sp_write; rewrite Ho; cbn [sdata]. intros x c' v'.
    rewrite (aget_aset hc_eqb hc_eqb_eq). destruct (hc_eqb (e, c) (x, c')) eqn:E.
    + apply hc_eqb_eq in E. inversion E; subst. intros _. eapply living_issued; eauto.
    + apply (inv_data _ _ H).
Qed.

Lemma not_owns_write sp e c v : owns sp e c = false -> sp_write sp e c v = sp.
Proof. intros Ho. unfold sp_write. rewrite Ho. reflexivity. Qed.

Lemma world_write_inv w sp e c v :
  Inv w sp ->
  Inv (fst (world_write w e c v)) (sp_write sp e c v) /\ snd (world_write w e c v) = owns sp e c.
Proof.
  intros H. unfold world_write.
  destruct (owns sp e c) eqn:Ho.
  - destruct (owns_facts _ _ _ _ H Ho) as (k & Hk & K1 & K2 & K3 & K4).
    rewrite K4, Hk. fold (anth (arts w) k). rewrite misset_mem, K3.
    apply arch_write_inv; auto.
  - rewrite (not_owns_write _ _ _ _ Ho).
    destruct (ent_alive (wents w) e); auto.
    destruct (ixget e (windex w)) as [k|] eqn:Hk; auto.
    fold (anth (arts w) k). rewrite misset_mem.
    destruct (mem c (amask (anth (arts w) k))) eqn:Hm; auto.
    exfalso. destruct (member_facts _ _ _ _ H Hk) as (K1 & K2 & K3 & K4).
    unfold owns in Ho. rewrite <- K4, Hm, andb_true_r in Ho. apply inb_false in Ho. contradiction.
Qed.

Lemma result_write_inv w sp e c v :
  Inv w sp -> owns sp e c = true ->
  Inv (fst (result_write w e c v)) (sp_write sp e c v) /\ snd (result_write w e c v) = true.
Proof.
  intros H Ho. destruct (owns_facts _ _ _ _ H Ho) as (k & Hk & K1 & K2 & K3 & K4).
  unfold result_write. rewrite Hk. apply arch_write_inv; auto.
Qed.

(* ---------------------------------------------------------------- whole histories *)
Lemma init_inv : Inv world_init spec_init.
Proof.
  constructor; simpl.
  - apply slots_init_ok.
  - constructor; simpl.
    + lia.
    + reflexivity.
    + intros k Hk. assert (k = 0) by lia. subst. apply mwf_root.
    + intros m j. destruct (mask_eqb m mask_root) eqn:E; [|discriminate].
      apply mask_eqb_eq in E. intros E'; inversion E'; subst. split; [lia|reflexivity].
    + intros k m j Hk. assert (k = 0) by lia. subst. simpl. discriminate.
    + intros k ids j Hk. assert (k = 0) by lia. subst. simpl. discriminate.
  - intros k Hk. assert (k = 0) by lia. subst. apply arch_ok_fresh. split; reflexivity.
  - intros e k E; discriminate.
  - intros e [].
  - intros e c v E; discriminate.
Qed.

Lemma reg_inv w sp t : Inv w sp -> Inv (fst (reg w t)) sp.
Proof.
  intros H. unfold reg. destruct (find_type t (wcomps w) 1); auto.
  destruct H; constructor; auto.
Qed.

Lemma step_inv w sp o :
  Inv w sp -> valid_op sp o = true -> Inv (fst (step w o)) (spec_step sp o (snd (step w o))).
Proof.
  intros H Hv. destruct o as [t|cs|n cs|e|es|e|q|e c|e c v|e c|e c v]; simpl in *.
  - pose proof (reg_inv w sp t H). destruct (reg w t); auto.
  - pose proof (spawn_inv w sp cs H). destruct (spawn w cs); auto.
  - pose proof (spawns_inv w sp n cs H). destruct (spawns w n cs); auto.
  - apply annihilate_inv; auto. apply inb_In; auto.
  - apply andb_true_iff in Hv as [H1 H2]. rewrite annihilates_fold. apply annihilates_inv; auto.
    + apply nodupb_NoDup; auto.
    + intros e He. rewrite forallb_forall in H2. apply inb_In. auto.
  - auto.
  - auto.
  - pose proof (world_get_inv w sp e c H). destruct (world_get w e c); auto.
  - pose proof (world_write_inv w sp e c v H) as [H1 _]. destruct (world_write w e c v); auto.
  - pose proof (result_get_inv w sp e c H). destruct (result_get w e c); auto.
  - pose proof (result_write_inv w sp e c v H Hv) as [H1 _]. destruct (result_write w e c v); auto.
Qed.

Lemma exec_inv ops : forall w sp w' sp', Inv w sp -> exec w sp ops = Some (w', sp') -> Inv w' sp'.
Proof.
  induction ops as [|o t IH]; intros w sp w' sp' H; simpl.
  - intros E; inversion E; subst; auto.
  - destruct (valid_op sp o) eqn:Hv; [|discriminate]. apply IH. apply step_inv; auto.
Qed.

Lemma reach_inv ops w sp : reach ops w sp -> Inv w sp.
Proof. apply exec_inv. apply init_inv. Qed.

Lemma exec_app ops1 : forall ops2 w sp w1 sp1,
  exec w sp ops1 = Some (w1, sp1) -> exec w sp (ops1 ++ ops2) = exec w1 sp1 ops2.
Proof.
  induction ops1 as [|o t IH]; intros ops2 w sp w1 sp1; simpl.
  - intros E; inversion E; subst; auto.
  - destruct (valid_op sp o); [|discriminate]. apply IH.
Qed.

Lemma reach_snoc ops w sp o :
  reach ops w sp -> valid_op sp o = true ->
  reach (ops ++ [o]) (fst (step w o)) (spec_step sp o (snd (step w o))).
Proof.
  unfold reach. intros H Hv. rewrite (exec_app _ _ _ _ _ _ H). simpl. rewrite Hv. reflexivity.
Qed.
