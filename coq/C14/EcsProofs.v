(* MV.C14.EcsProofs — the four clauses of C14 for every history that respects the API's precondition,
   from the representation invariant (EcsInv, EcsOps). *)
From MV Require Import Lib.ListX C14.EcsModel C14.EcsSpec C14.EcsLemmas C14.EcsSlots C14.EcsStore
  C14.EcsGraph C14.EcsInv C14.EcsOps.
From Coq Require Import Permutation.
Open Scope nat_scope.

(* ---------- clause 1: handles ---------- *)
Lemma distinct_living ops w sp : reach ops w sp -> NoDup (living sp).
Proof. intros H. apply reach_inv in H. apply (so_nd_liv _ _ _ (inv_slots _ _ H)). Qed.

Lemma never_reissued ops w sp : reach ops w sp -> NoDup (issued sp) /\ incl (living sp) (issued sp).
Proof.
  intros H. apply reach_inv in H. split.
  - apply (so_nd_iss _ _ _ (inv_slots _ _ H)).
  - apply (so_sub _ _ _ (inv_slots _ _ H)).
Qed.

(* a spawn returns a handle that was never issued before *)
Lemma spawn_fresh ops w sp cs :
  reach ops w sp -> exists e, snd (step w (Spawn cs)) = OHandle e /\ ~ In e (issued sp).
Proof.
  intros H. pose proof (reach_snoc _ _ _ (Spawn cs) H eq_refl) as H1.
  apply never_reissued in H1 as [H1 _].
  simpl in *. destruct (spawn w cs) as [w' e]. simpl in *. exists e. split; auto.
  apply NoDup_app_parts in H1 as (_ & _ & H1). intros Hin. apply (H1 e Hin). left; auto.
Qed.

(* ---------- clause 2: Alive ---------- *)
Lemma alive_iff_living ops w sp e :
  reach ops w sp -> In e (issued sp) -> snd (step w (Alive e)) = OBool (inb e (living sp)).
Proof.
  intros H Hi. apply reach_inv in H. simpl. f_equal. eapply alive_spec; eauto using inv_slots.
Qed.

(* ---------- clause 3: Query ---------- *)
Lemma NoDup_flat_map_tag {A B} (f : A -> list B) (tag : B -> nat) l : forall off,
  (forall k a, nth_error l k = Some a -> NoDup (f a) /\ forall x, In x (f a) -> tag x = off + k) ->
  NoDup (flat_map f l).
Proof.
  induction l as [|a t IH]; intros off H; simpl; [constructor|].
  destruct (H 0 a eq_refl) as [H1 H2].
  apply NoDup_app_intro; auto.
  - apply (IH (S off)). intros k a' Hk. destruct (H (S k) a' Hk) as [H3 H4]. split; auto.
    intros x Hx. rewrite (H4 x Hx). lia.
  - intros x Hx Hin. apply in_flat_map in Hin as (a' & Ha' & Hx').
    apply In_nth_error in Ha' as [k Hk]. destruct (H (S k) a' Hk) as [_ H4].
    pose proof (H2 x Hx) as T1. pose proof (H4 x Hx') as T2. lia.
Qed.

Lemma query_mem w sp q e :
  Inv w sp -> (In e (query_run w q) <-> In e (living sp) /\ sat q (comps sp e) = true).
Proof.
  intros H. unfold query_run. rewrite in_flat_map. split.
  - intros (a & Ha & He). destruct (In_nth _ _ darch Ha) as (k & Hk & E). fold (anth (arts w) k) in E. subst a.
    destruct (qeval q (amask (anth (arts w) k))) eqn:Eq; [|contradiction].
    destruct (ao_mem _ _ _ _ (inv_arch _ _ H k Hk) e He) as (M1 & _ & M3). split; auto.
    rewrite <- (qeval_sat q _ _ (go_wf _ _ (inv_graph _ _ H) k Hk) M3). exact Eq.
  - intros [Hl Hs]. destruct (inv_living _ _ H e Hl) as [k Hk].
    destruct (member_facts _ _ _ _ H Hk) as (K1 & K2 & _ & K4).
    exists (anth (arts w) k). split; [apply nth_In; auto|].
    rewrite (qeval_sat q _ _ (go_wf _ _ (inv_graph _ _ H) k K1) K4), Hs. exact K2.
Qed.

Lemma query_exact ops w sp q :
  reach ops w sp ->
  exists l, snd (step w (Query q)) = OHandles l /\ NoDup l /\
            Permutation l (filter (fun e => sat q (comps sp e)) (living sp)).
Proof.
  intros H. pose proof (distinct_living _ _ _ H) as Hd. apply reach_inv in H.
  exists (query_run w q). split; [reflexivity|].
  assert (Hn : NoDup (query_run w q)).
  { unfold query_run.
    apply (NoDup_flat_map_tag _ (fun e => match ixget e (windex w) with Some k => k | None => 0 end) _ 0).
    intros k a Hk. assert (Hlt : k < length (arts w)) by (apply nth_error_Some; congruence).
    apply (nth_error_nth _ _ darch) in Hk. fold (anth (arts w) k) in Hk. subst a.
    pose proof (inv_arch _ _ H k Hlt) as Ak.
    destruct (qeval q (amask (anth (arts w) k))); [|split; [constructor | intros x []]].
    split; [apply (ao_nodup _ _ _ _ Ak)|].
    intros x Hx. destruct (ao_mem _ _ _ _ Ak x Hx) as (_ & M2 & _). rewrite M2. reflexivity. }
  split; auto.
  apply NoDup_Permutation; auto using NoDup_filter.
  intros e. rewrite (query_mem w sp q e H), filter_In. tauto.
Qed.

(* ---------- clause 4: component data ---------- *)
Lemma get_last_write ops w sp e c :
  reach ops w sp -> In e (issued sp) ->
  snd (step w (Get e c)) = OVal (if owns sp e c then Some (data sp e c) else None).
Proof.
  intros H Hi. apply reach_inv in H. simpl.
  pose proof (world_get_out w sp e c H Hi) as Ho. destruct (world_get w e c); simpl in *. congruence.
Qed.

Lemma rget_last_write ops w sp e c :
  reach ops w sp -> owns sp e c = true -> snd (step w (RGet e c)) = OVal (Some (data sp e c)).
Proof.
  intros H Ho. apply reach_inv in H. simpl.
  pose proof (result_get_out w sp e c H Ho) as Hv. destruct (result_get w e c); simpl in *. congruence.
Qed.

(* the specification's data: a write changes exactly one cell *)
Lemma sp_write_facts sp e c v :
  living (sp_write sp e c v) = living sp /\ issued (sp_write sp e c v) = issued sp /\
  (forall x, comps (sp_write sp e c v) x = comps sp x) /\
  (forall x c', owns (sp_write sp e c v) x c' = owns sp x c') /\
  (forall x c', data (sp_write sp e c v) x c' =
                if owns sp e c && hc_eqb (e, c) (x, c') then v else data sp x c').
Proof.
  unfold sp_write. destruct (owns sp e c) eqn:Ho.
  - repeat split; auto. intros x c'. unfold data; cbn [sdata].
    rewrite (aget_aset hc_eqb hc_eqb_eq). simpl. destruct (hc_eqb (e, c) (x, c')); reflexivity.
  - repeat split; auto.
Qed.

Lemma write_outputs ops w sp e c v :
  reach ops w sp ->
  snd (step w (Write e c v)) = OBool (owns sp e c) /\
  (owns sp e c = true -> snd (step w (RWrite e c v)) = OBool true).
Proof.
  intros H. apply reach_inv in H. simpl. split.
  - destruct (world_write_inv w sp e c v H) as [_ Hs]. destruct (world_write w e c v); simpl in *. congruence.
  - intros Ho. destruct (result_write_inv w sp e c v H Ho) as [_ Hs]. destruct (result_write w e c v); simpl in *. congruence.
Qed.

Lemma write_isolated_gen ops w sp o e c v e' c' :
  reach ops w sp -> (o = Write e c v \/ (o = RWrite e c v /\ owns sp e c = true)) -> In e' (issued sp) ->
  snd (step (fst (step w o)) (Get e' c')) =
  if owns sp e c && hc_eqb (e, c) (e', c') then OVal (Some v) else snd (step w (Get e' c')).
Proof.
  intros H Ho Hi.
  assert (Hv : valid_op sp o = true) by (destruct Ho as [->|[-> Ho]]; simpl; auto).
  pose proof (reach_snoc _ _ _ o H Hv) as H1.
  assert (Es : spec_step sp o (snd (step w o)) = sp_write sp e c v) by (destruct Ho as [->|[-> Ho]]; reflexivity).
  rewrite Es in H1.
  destruct (sp_write_facts sp e c v) as (F1 & F2 & F3 & F4 & F5).
  rewrite (get_last_write _ _ _ e' c' H1) by (rewrite F2; auto).
  rewrite (get_last_write _ _ _ e' c' H Hi).
  rewrite F4, F5. destruct (owns sp e c) eqn:Eo; simpl; auto.
  destruct (hc_eqb (e, c) (e', c')) eqn:E; auto.
  apply hc_eqb_eq in E. inversion E; subst e' c'. rewrite Eo. reflexivity.
Qed.

Lemma write_isolated ops w sp e c v e' c' :
  reach ops w sp -> In e' (issued sp) ->
  snd (step (fst (step w (Write e c v))) (Get e' c')) =
  if owns sp e c && hc_eqb (e, c) (e', c') then OVal (Some v) else snd (step w (Get e' c')).
Proof. intros H Hi. eapply write_isolated_gen; eauto. Qed.

Lemma rwrite_isolated ops w sp e c v e' c' :
  reach ops w sp -> owns sp e c = true -> In e' (issued sp) ->
  snd (step (fst (step w (RWrite e c v))) (Get e' c')) =
  if hc_eqb (e, c) (e', c') then OVal (Some v) else snd (step w (Get e' c')).
Proof.
  intros H Ho Hi. rewrite (write_isolated_gen ops w sp (RWrite e c v) e c v e' c' H); auto.
  rewrite Ho. reflexivity.
Qed.

(* a new entity starts from the zero value, whatever the slot and the storage row held before *)
Lemma fresh_component_zero ops w sp cs c :
  reach ops w sp -> In c cs ->
  exists e, snd (step w (Spawn cs)) = OHandle e /\
            snd (step (fst (step w (Spawn cs))) (Get e c)) = OVal (Some 0%Z).
Proof.
  intros H Hc. destruct (spawn_fresh _ _ _ cs H) as (e & He & Hn). exists e. split; auto.
  pose proof (reach_snoc _ _ _ (Spawn cs) H eq_refl) as H1. rewrite He in H1. cbn [spec_step] in H1.
  rewrite (get_last_write _ _ _ e c H1) by (cbn [issued sp_spawn]; apply in_or_app; right; left; auto).
  assert (Ho : owns (sp_spawn sp cs e) e c = true).
  { unfold owns, comps; cbn [living scomps sp_spawn]. apply andb_true_iff. split.
    - apply inb_In. apply in_or_app; right; left; auto.
    - rewrite (aget_aset_same handle_eqb handle_eqb_eq). apply memb_In; auto. }
  rewrite Ho. f_equal. f_equal.
  rewrite (data_same sp (sp_spawn sp cs e) eq_refl). eapply data_fresh; eauto using reach_inv.
Qed.
