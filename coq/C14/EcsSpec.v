(* MV.C14.EcsSpec — the abstract specification the ECS model is proved against (definitions only).

   The specification knows nothing about slots, generations, archetypes or storage rows.  It is the
   bookkeeping a user of the API could do by hand from the history:
     living  : the handles returned by Spawn/Spawns and not annihilated since, in spawn order;
     issued  : every handle ever returned;
     comps e : the component ids e was spawned with;
     data e c: the value last written to component c of e (0, the zero struct, before any write).
   The names of the handles are taken from the outputs of the operations; what they mean is fixed here. *)
From MV Require Import Lib.ListX C14.EcsModel.
Open Scope nat_scope.

Definition hc_eqb (a b : handle * cid) : bool := handle_eqb (fst a) (fst b) && (snd a =? snd b).
Definition memb (c : cid) (cs : list cid) : bool := existsb (Nat.eqb c) cs.
Definition inb (e : handle) (l : list handle) : bool := existsb (handle_eqb e) l.

(* when a component set satisfies a filter *)
Fixpoint sat (q : query) (s : list cid) : bool :=
  match q with
  | QIn cs => forallb (fun c => memb c s) cs                                   (* cs is a subset of s *)
  | QNotIn cs => forallb (fun c => negb (memb c s)) cs                         (* cs and s are disjoint *)
  | QEqual cs => forallb (fun c => memb c s) cs && forallb (fun c => memb c cs) s   (* same set *)
  | QAnd qs => forallb (fun q' => sat q' s) qs
  | QOr qs => existsb (fun q' => sat q' s) qs
  end.

Record spec := {
  living : list handle;
  issued : list handle;
  scomps : list (handle * list cid);
  sdata : list ((handle * cid) * Z)
}.
Definition spec_init : spec := {| living := []; issued := []; scomps := []; sdata := [] |}.

Definition comps (sp : spec) (e : handle) : list cid :=
  match aget handle_eqb e (scomps sp) with Some cs => cs | None => [] end.
Definition data (sp : spec) (e : handle) (c : cid) : Z :=
  match aget hc_eqb (e, c) (sdata sp) with Some v => v | None => 0%Z end.
Definition owns (sp : spec) (e : handle) (c : cid) : bool := inb e (living sp) && memb c (comps sp e).

Definition sp_spawn (sp : spec) (cs : list cid) (e : handle) : spec :=
  {| living := living sp ++ [e]; issued := issued sp ++ [e];
     scomps := aset handle_eqb e cs (scomps sp); sdata := sdata sp |}.
Definition sp_kill (sp : spec) (e : handle) : spec :=
  {| living := filter (fun x => negb (handle_eqb x e)) (living sp); issued := issued sp;
     scomps := scomps sp; sdata := sdata sp |}.
Definition sp_write (sp : spec) (e : handle) (c : cid) (v : Z) : spec :=
  if owns sp e c then
    {| living := living sp; issued := issued sp; scomps := scomps sp;
       sdata := aset hc_eqb (e, c) v (sdata sp) |}
  else sp.

(* the specification's reaction to operation o whose observed output was x *)
Definition spec_step (sp : spec) (o : op) (x : out) : spec :=
  match o, x with
  | Spawn cs, OHandle e => sp_spawn sp cs e
  | Spawns _ cs, OHandles es => fold_left (fun s e => sp_spawn s cs e) es sp
  | Annihilate e, _ => sp_kill sp e
  | Annihilates es, _ => fold_left sp_kill es sp
  | Write e c v, _ => sp_write sp e c v
  | RWrite e c v, _ => sp_write sp e c v
  | _, _ => sp
  end.

Fixpoint nodupb (l : list handle) : bool :=
  match l with
  | [] => true
  | x :: t => negb (inb x t) && nodupb t
  end.

(* the API's precondition: only living handles are annihilated (each once); data is reached through
   a query result only for a living entity and a component it has.  Alive/Get/Write accept any handle. *)
Definition valid_op (sp : spec) (o : op) : bool :=
  match o with
  | Annihilate e => inb e (living sp)
  | Annihilates es => nodupb es && forallb (fun e => inb e (living sp)) es
  | RGet e c => owns sp e c
  | RWrite e c _ => owns sp e c
  | _ => true
  end.

(* run a history on the model and on the specification side by side; None = precondition violated *)
Fixpoint exec (w : world) (sp : spec) (ops : list op) : option (world * spec) :=
  match ops with
  | [] => Some (w, sp)
  | o :: t =>
      if valid_op sp o then exec (fst (step w o)) (spec_step sp o (snd (step w o))) t
      else None
  end.

Definition reach (ops : list op) (w : world) (sp : spec) : Prop :=
  exec world_init spec_init ops = Some (w, sp).
