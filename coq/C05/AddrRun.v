(* MV.C05.AddrRun — evaluation of recorded runs of the real actor system against MV.C05.AddrModel (tie T1).
   A case = the script (operations) and what harness/cmd/c05addr observed on a real vivid.ActorSystem inside a
   testing/synctest bubble: after EVERY operation the virtual clock (ms since the start) and the registered
   temporary addresses (every entry of the ResourceController that is neither an actor nor the dead-letter process,
   mapped to the index of the operation that created it, ascending; an address the harness did not create is -1),
   and at the end how and when each released address was released, in the order (operation during which it was seen
   released, creating operation). The model is run with rel = true: the repaired AwaitForward. *)
From Coq Require Import ZArith List Bool.
From MV Require Import Lib.ListX C05.AddrModel.
Open Scope Z_scope.

Record acase := mkC {
  cid  : nat;
  cops : list op;
  cobs : list (Z * list Z);          (* per operation: clock, registered ids *)
  cfin : list (Z * outcome * Z) }.   (* id, how, when *)

Definition outcome_eqb (a b : outcome) : bool :=
  match a, b with
  | ByReply, ByReply | ByTimeout, ByTimeout | ByForward, ByForward => true
  | _, _ => false      (* OBad equals nothing *)
  end.

Definition obs_eqb (a b : Z * list Z) : bool := (fst a =? fst b) && list_eqb Z.eqb (snd a) (snd b).

Definition fin_eqb (a b : Z * outcome * Z) : bool :=
  let '(i, o, t) := a in let '(i', o', t') := b in (i =? i') && outcome_eqb o o' && (t =? t').

Definition observe (s : st) : Z * list Z := (now s, ids s).

Definition model_obs (ops : list op) : list (Z * list Z) := map observe (trace true init ops).

Definition model_fin (ops : list op) : list (Z * outcome * Z) :=
  map (fun x => let '(e, o, t) := x in (e_id e, o, t)) (fin (run true init ops)).

Definition case_ok (c : acase) : bool :=
  list_eqb obs_eqb (model_obs (cops c)) (cobs c) && list_eqb fin_eqb (model_fin (cops c)) (cfin c).

Definition amismatches (cs : list acase) : list nat := fail_ids case_ok cid cs.
