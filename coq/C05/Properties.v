(* MV.C05.Properties — property C05 ("termination is hierarchical and complete; shutdown waits for everyone")
   on the kernel model. The full statements are FALSE of the faithful model (and of the code) for two standing
   finding, proved here as _refuted with a concrete witness. What does hold universally is proved as _partial:
   the hierarchy invariant for every role table that does not spawn from inside an actor's own OnTerminated handler
   (exactly the behaviour of the second finding) and does not claim a system address. *)
From MV Require Import Lib.ListX Kernel.Model Kernel.Run Kernel.Lifecycle Kernel.Hierarchy Kernel.Queue Kernel.Shutdown Kernel.Watch Kernel.Directive Kernel.Descend.
Open Scope Z_scope.

Definition quiescent (s : kstate) : Prop := forall a, In a (actors s) -> a_inflight a = None.

(* "Shutdown completes". Until the repair of the lifecycle handlers (a panic inside OnTerminate / OnTerminated /
   OnRestarting of an actor that is not alive used to be swallowed AFTER aborting the lifecycle step half-way: the actor
   stayed terminating for ever, its parent waited for it, the system never closed — former theorem
   C05_shutdown_completes_refuted, former open findings C05/C03/C06-lifecycle-handler-panic) this was refuted by a
   three-line script. The handlers of a non-alive actor no longer abort the step (handle_q); the former witness now
   closes: *)
Definition c05_roles_panic : list role :=
  [ {| victim := Some DStop; sup := []; rules := [ {| r_on := KT; r_n := -1; r_inst := -1; r_do := [APanic] |} ] |} ].
Example C05_panic_in_onterminate_no_longer_blocks_shutdown :
  let '(s, os) := play c05_roles_panic kinit [LSpawn 0 0; LShutdown false; LEnd] in
  quiet s = true /\ closed s = true /\ last os [] = [OEnd true []].
Proof. vm_compute. repeat split; reflexivity. Qed.

(* FULL: "Shutdown returns only after every actor has terminated, and afterwards no actor remains registered".
   REFUTED: an actor that spawns a child while handling its own OnTerminated (the last handler of its life: it is
   already marked terminated and is unregistered right after) creates an orphan nobody waits for. Since the repair of
   ActorOf (a terminating / terminated parent stops the children it creates at once) the orphan no longer stays
   registered for ever, but the closed signal — what Shutdown returns on — can still be set while the orphan is
   registered and has handled nothing yet: the witness below stops right there.
   (Open finding C05-spawn-in-own-onterminated-outlives-shutdown.) The earlier witnesses of this clause — a stale
   termination notice (address re-used, or a watch request answered before the spawn) making the parent forget a living
   child; a child spawned after the children had been told to stop — were repaired in the code and in the model. *)
Theorem C05_registry_empty_after_shutdown_refuted :
  exists roles ls s os, krun roles kinit ls = Some (s, os) /\ closed s = true /\ lookup 1 (registry s) <> None.
Proof.
  exists [ {| victim := None; sup := [DStop]; rules := [ {| r_on := KTS; r_n := -1; r_inst := -1; r_do := [ASpawn 1 1] |} ] |};
           {| victim := None; sup := []; rules := [] |} ],
         [LSpawn 0 0; LRun 2; LShutdown false; LRun 0; LRun 1; LRun 0; LRun 2; LRun 0; LRun 3].
  eexists. eexists. split; [vm_compute; reflexivity|]. split; [vm_compute; reflexivity|]. vm_compute. discriminate.
Qed.
Print Assumptions C05_registry_empty_after_shutdown_refuted.

(* REFUTED (liveness): "terminating an actor terminates all of its descendants" fails for a GRACEFUL termination when a
   descendant is suspended after a failure and the decision of its supervisor does not release it. Graceful requests
   travel as user messages (the parent hands the graceful flag down to its children), and a suspended mailbox takes no
   user message. Witness: a0 (all-for-one: restarts every child of its own on a failure escalated to it) > a1 (escalates)
   > a2 (fails on probe 7). a1 is told to stop gracefully; a2 fails; a1 — now terminating — hands the graceful request to
   a2 (stuck behind the suspension), escalates the failure to a0, whose decision "restart my children" is ignored by the
   terminating a1. a2 stays suspended for ever, a1 waits for a2, a0 for a1, and a graceful Shutdown never completes:
   no step is enabled, the system has not closed, four actors are still registered.
   (Open finding C05-graceful-stop-never-reaches-suspended-descendant; a non-graceful stop is a system message and does
   terminate a2.) *)
Theorem C05_graceful_shutdown_completes_refuted :
  exists roles ls s os,
    (forall ro ru t r, In ro roles -> In ru (rules ro) -> In (ASpawn t r) (r_do ru) -> 0 <= t /\ r_on ru <> KTS) /\
    krun roles kinit ls = Some (s, os) /\ In (LShutdown true) ls /\ quiet s = true /\ closed s = false /\
    lookup 2 (registry s) <> None.
Proof.
  exists [ {| victim := None; sup := [DRestartAll]; rules := [ {| r_on := KL; r_n := -1; r_inst := -1; r_do := [ASpawn 1 1] |} ] |};
           {| victim := None; sup := []; rules := [ {| r_on := KL; r_n := -1; r_inst := -1; r_do := [ASpawn 2 2] |} ] |};
           {| victim := None; sup := []; rules := [ {| r_on := KP; r_n := 7; r_inst := -1; r_do := [APanic] |} ] |} ],
         [LSpawn 0 0; LRun 2; LRun 3; LRun 4; LTell 2 7; LTerm 1 true; LRun 3; LRun 4; LRun 3; LRun 3; LRun 2; LRun 3;
          LShutdown true; LRun 0; LRun 0; LRun 1; LRun 1; LRun 2; LRun 2; LRun 3; LRun 0].
  eexists. eexists. split.
  - intros ro ru t r Hro Hru Hact. cbn in Hro. destruct Hro as [<-|[<-|[<-|[]]]]; cbn in Hru; destruct Hru as [<-|[]]; cbn in Hact; destruct Hact as [E|[]]; inversion E; subst; split; try lia; discriminate.
  - split; [vm_compute; reflexivity|]. split; [cbn; tauto|]. split; [vm_compute; reflexivity|]. split; [vm_compute; reflexivity|]. vm_compute. discriminate.
Qed.
Print Assumptions C05_graceful_shutdown_completes_refuted.

(* HIERARCHY (partial: two hypotheses on the scripts, both necessary — see the refuted theorem above for the first).
   For every role table whose scripts spawn only under non-negative (user) addresses and never from a rule triggered
   by the actor's own OnTerminated, and every label sequence whose external spawns use non-negative addresses — i.e.
   all interleavings of sends, spawns, terminations (graceful or not, of any node, several at once), failures,
   restarts, watch requests and shutdown — in every reachable state: an actor object that is still registered (it
   has not finished terminating: an actor is unregistered in the very step in which it handles its own OnTerminated)
   has a parent that is still registered and still lists it among its children. (Top-level actors created after the
   guard itself has terminated are the only exception: the guard is gone and they are nobody's children.)
   An actor marks itself terminated only while its children table is empty (try_terminated) and an entry leaves that
   table only when the child's termination notice arrives while nobody is registered under the child's address
   (drop_child): hence no actor finishes terminating before any of its descendants, at any depth. *)
Theorem C05_hierarchical_partial : forall roles ls s os,
  (forall ro ru t r, In ro roles -> In ru (rules ro) -> In (ASpawn t r) (r_do ru) -> 0 <= t /\ r_on ru <> KTS) ->
  Forall lab_ok ls -> krun roles kinit ls = Some (s, os) ->
  forall c ac, get s c = Some ac -> lookup (a_tok ac) (registry s) = Some c -> a_parent ac <> rNone ->
    (a_parent ac = rGuard /\ lookup rGuard (registry s) = None) \/
    exists pu pa, lookup (a_parent ac) (registry s) = Some pu /\ get s pu = Some pa /\ In (a_tok ac) (a_children pa) /\ (pu < c)%nat.
Proof. exact hierarchical. Qed.
Print Assumptions C05_hierarchical_partial.

(* consequence: once nobody is registered under a (non-guard) address p any more — its holder has finished
   terminating — no registered actor has p as its parent: all children finished before *)
Theorem C05_no_registered_child_of_unregistered_parent_partial : forall roles ls s os,
  (forall ro ru t r, In ro roles -> In ru (rules ro) -> In (ASpawn t r) (r_do ru) -> 0 <= t /\ r_on ru <> KTS) ->
  Forall lab_ok ls -> krun roles kinit ls = Some (s, os) ->
  forall c ac, get s c = Some ac -> lookup (a_tok ac) (registry s) = Some c -> a_parent ac <> rNone ->
    lookup (a_parent ac) (registry s) = None -> a_parent ac = rGuard.
Proof.
  intros roles ls s os Hsp Hl Hrun c ac Hc Hreg Hp Hnone.
  destruct (hierarchical roles ls s os Hsp Hl Hrun c ac Hc Hreg Hp) as [[E _]|(pu & pa & Hlk & _)]; [exact E|congruence].
Qed.
Print Assumptions C05_no_registered_child_of_unregistered_parent_partial.

(* SHUTDOWN WAITS FOR EVERYONE (partial: the same two hypotheses on the scripts; the refuted theorem above shows that the
   first one is necessary). In every run from the freshly started system, in the very step that sets the closed flag —
   the event Shutdown returns on — NO actor is registered any more and every actor object that exists has terminated
   (or never got registered: a spawn under a taken address). The flag is set only by the guard completing its own
   termination, which it does only with an empty children table; by the hierarchy invariant every other registered
   object would have a chain of registered, ever older ancestors ending in an entry of that table. *)
Theorem C05_shutdown_returns_after_everyone_partial : forall roles ls s os l s' o,
  (forall ro ru t r, In ro roles -> In ru (rules ro) -> In (ASpawn t r) (r_do ru) -> 0 <= t /\ r_on ru <> KTS) ->
  Forall lab_ok ls -> lab_ok l ->
  krun roles kinit ls = Some (s, os) -> kstep roles s l = Some (s', o) -> closed s = false -> closed s' = true ->
  (forall t, lookup t (registry s') = None) /\
  (forall u a, get s' u = Some a -> a_st a = Terminated \/ zombie a).
Proof. exact shutdown_leaves_nothing. Qed.
Print Assumptions C05_shutdown_returns_after_everyone_partial.

(* the step exists: the last step of the guard in the run of C05_example below sets the flag *)
Example C05_shutdown_step_example :
  let roles := [ {| victim := None; sup := [DStop]; rules := [ {| r_on := KL; r_n := -1; r_inst := -1; r_do := [ASpawn 1 1] |} ] |};
                 {| victim := None; sup := []; rules := [] |} ] in
  exists ls l s os s' o, krun roles kinit ls = Some (s, os) /\ kstep roles s l = Some (s', o) /\
    closed s = false /\ closed s' = true /\ length (actors s') = 4%nat /\ registry s' = [].
Proof.
  exists [LSpawn 0 0; LRun 2; LRun 3; LShutdown false; LRun 0; LRun 1; LRun 2; LRun 3; LRun 2; LRun 0], (LRun 0).
  eexists. eexists. eexists. eexists. split; [vm_compute; reflexivity|]. split; [vm_compute; reflexivity|]. vm_compute. repeat split; reflexivity.
Qed.

(* the hypotheses are satisfiable by a table that does spawn, terminate and shut down (used in C05_example below) *)
Example C05_hierarchy_hypotheses_example :
  (forall ro ru t r, In ro [ {| victim := None; sup := [DStop]; rules := [ {| r_on := KL; r_n := -1; r_inst := -1; r_do := [ASpawn 1 1] |} ] |};
                            {| victim := None; sup := []; rules := [] |} ] ->
     In ru (rules ro) -> In (ASpawn t r) (r_do ru) -> 0 <= t /\ r_on ru <> KTS) /\
  Forall lab_ok [LSpawn 0 0; LTell 1 5; LShutdown true; LEnd].
Proof.
  split.
  - intros ro ru t r [<-|[<-|[]]] Hru Hact; cbn in Hru; [|destruct Hru]. destruct Hru as [<-|[]]. cbn in Hact. destruct Hact as [E|[]]. inversion E; subst. split; [lia|discriminate].
  - repeat constructor; cbn; lia.
Qed.

(* "Terminating an actor terminates all of its descendants", one level at a time — for every role table and from ANY state: the
   step in which a living or restarting actor object takes a terminate request out of its mailbox hands a terminate request to
   the object registered under the address of EVERY child it had when the step began (the OnTerminate handler runs first and may
   spawn more children, which are told as well, but cannot remove one): when neither the request nor the actor is graceful, one
   more non-graceful terminate request from the parent in the child's mailbox (system queue); otherwise one more graceful
   request at the tail of the child's user messages. With C04_stop_request_makes_receiver_terminating and
   C05_hierarchical_partial (a registered child has a registered, older parent that lists it) this goes down the tree level by
   level: every descendant that is still registered when its parent takes the request is told. *)
Theorem C05_terminate_request_reaches_every_child : forall roles s v b e g s' o,
  get s v = Some b -> a_inflight b = Some (MS e) -> e_msg e = STerminate g -> (a_st b = Alive \/ a_st b = Restarting) ->
  kstep roles s (LRun (Z.of_nat v)) = Some (s', o) ->
  forall c w, In c (a_children b) -> lookup c (registry s) = Some w -> w <> v ->
    if g || a_graceful b then ugains (is_gterm c) w s s' else gains (carries DStop (a_tok b) c) w s s'.
Proof. exact terminate_reaches_children. Qed.
Print Assumptions C05_terminate_request_reaches_every_child.

(* non-vacuity: actor 0 (object 2) with children 1 and 2 (objects 3, 4) takes a non-graceful terminate request: both children
   have the request from 0 in their mailboxes afterwards *)
Definition c05_desc_roles : list role :=
  [ {| victim := None; sup := [DStop]; rules := [ {| r_on := KL; r_n := -1; r_inst := -1; r_do := [ASpawn 1 1; ASpawn 2 1] |} ] |};
    {| victim := None; sup := []; rules := [] |} ].
Example C05_terminate_reaches_children_example :
  exists s os b e s' o c3 c4,
    krun c05_desc_roles kinit [LSpawn 0 0; LRun 2; LRun 3; LRun 4; LTerm 0 false] = Some (s, os) /\
    get s 2%nat = Some b /\ a_inflight b = Some (MS e) /\ e_msg e = STerminate false /\ a_st b = Alive /\ a_children b = [1; 2] /\
    lookup 1 (registry s) = Some 3%nat /\ lookup 2 (registry s) = Some 4%nat /\
    kstep c05_desc_roles s (LRun 2) = Some (s', o) /\ get s' 3%nat = Some c3 /\ get s' 4%nat = Some c4 /\
    cnt (carries DStop 0 1) c3 = 1%nat /\ cnt (carries DStop 0 2) c4 = 1%nat.
Proof.
  eexists. eexists. eexists. eexists. eexists. eexists. eexists. eexists.
  split; [vm_compute; reflexivity|]. split; [vm_compute; reflexivity|]. split; [vm_compute; reflexivity|].
  split; [vm_compute; reflexivity|]. split; [vm_compute; reflexivity|]. split; [vm_compute; reflexivity|].
  split; [vm_compute; reflexivity|]. split; [vm_compute; reflexivity|]. split; [vm_compute; reflexivity|].
  split; [vm_compute; reflexivity|]. split; [vm_compute; reflexivity|]. split; vm_compute; reflexivity.
Qed.

(* GRACEFUL TERMINATE ("lets the target first handle every user message that was enqueued before the request"):
   the request is an ordinary user message appended at the tail of the target's mailbox, for every role table and
   from any state; by the mailbox discipline (C02_kernel_mailbox_order_step/_run: heads are taken one at a time by
   the actor's own steps, nothing overtakes) every user message enqueued earlier is taken before it. Whether a taken
   message is handled or becomes a dead letter then depends only on whether ANOTHER, non-graceful termination or a
   failure got there first (process_user). *)
Theorem C05_graceful_request_queued_behind_partial : forall roles s t v a s' o,
  lookup t (registry s) = Some v -> get s v = Some a -> kstep roles s (LTerm t true) = Some (s', o) ->
  exists a', get s' v = Some a' /\ seq a' = seq a ++ [mk_env rNone t UTermG].
Proof. exact graceful_request_at_tail. Qed.
Print Assumptions C05_graceful_request_queued_behind_partial.

(* what does hold in the common case: a graceful shutdown of a two-level tree with a message in flight, driven by
   a deterministic scheduler to quiescence: the queued message is handled before OnTerminate, the child reports
   before the parent, the system closes and no user actor stays registered *)
Definition c05_roles_tree : list role :=
  [ {| victim := None; sup := [DStop]; rules := [ {| r_on := KL; r_n := -1; r_inst := -1; r_do := [ASpawn 1 1] |} ] |};
    {| victim := None; sup := []; rules := [] |} ].
Example C05_example :
  let '(s, os) := play c05_roles_tree kinit [LSpawn 0 0; LTell 1 5; LShutdown true; LEnd] in
  quiet s = true /\ closed s = true /\ last os [] = [OEnd true []] /\
  filter is_handled (concat os) =
    [OH 0 0 TL 0 rNone; OH 1 0 TL 0 rNone; OH 1 0 (TP 5) 1 rNone;
     OH 0 0 TT 0 rNone; OH 1 0 TT 0 rNone; OH 1 0 TTS 0 rNone; OH 0 0 (TTO 1) 0 rNone; OH 0 0 TTS 0 rNone].
Proof. vm_compute. repeat split; reflexivity. Qed.

(* ====================================================================================================================
   TEMPORARY REPLY ADDRESSES ("... and afterwards no actor or temporary reply address remains registered").
   Model MV.C05.AddrModel: the set of registered temporary addresses (the futures that FutureAsk / the typed ask /
   AwaitForward register under <actor>/<n>) of a whole system in virtual time, tied to the real ActorSystem on every
   run by harness/cmd/c05addr (registry enumerated after every operation). `rel = true` is the code with
   fixes/C05-awaitforward-release.patch, `rel = false` the code as shipped; every theorem that does not say otherwise
   holds for both. `reach rel s` = s is the state after some sequence of operations (asks to targets that answer after a
   delay / never / when told to, with or without a timeout; AwaitForward; time passing; askers terminated or restarted
   while their asks are pending; Shutdown anywhere). docs/C05-ADDR-NOTES.md has the reading of the code behind it.
   ==================================================================================================================== *)
From MV Require Import C05.AddrModel C05.AddrRun C05.AddrProofs.

(* (a) An address is registered exactly from its creation to its one completion.
   Every address ever created (made) is registered iff it has not been completed (answered, timed out, forwarded) ... *)
Theorem C05_addr_registered_iff_not_completed : forall rel s e,
  reach rel s -> In e (made s) -> (In e (reg s) <-> ~ completed s e).
Proof. exact registered_iff_not_completed. Qed.
Print Assumptions C05_addr_registered_iff_not_completed.

(* ... what is registered was created by an operation of the run, and neither its timeout instant nor the instant of its
   answer has been reached: the address is released in the very instant in which the first of the two comes ... *)
Theorem C05_addr_registered_is_pending : forall rel s e,
  reach rel s -> In e (reg s) ->
  In e (made s) /\ (forall x, e_tmo e = Some x -> now s < x) /\ (forall y, e_ans e = Some y -> now s < y).
Proof.
  intros rel s e R H. split; [exact (registered_was_made rel s e R H)|exact (registered_not_overdue rel s e R H)].
Qed.
Print Assumptions C05_addr_registered_is_pending.

(* ... a completion happened at an instant t between the creation and now, and is the FIRST of answer and timeout:
   by timeout only at the timer's instant with no answer due before, by an answer never after the timer's instant,
   an AwaitForward at the instant its function returned (see `good`) ... *)
Theorem C05_addr_completion_is_first_of_answer_and_timeout : forall rel s e o t,
  reach rel s -> In (e, o, t) (fin s) -> In e (made s) /\ t <= now s /\ good e o t.
Proof. exact completion_is_first. Qed.
Print Assumptions C05_addr_completion_is_first_of_answer_and_timeout.

(* ... and a completed address is never registered again, whatever follows. *)
Theorem C05_addr_never_registered_again : forall rel s ops e,
  reach rel s -> completed s e -> ~ In e (reg (run rel s ops)) /\ completed (run rel s ops) e.
Proof.
  intros rel s ops e R C. split; [exact (never_registered_again rel s ops e R C)|exact (completed_for_ever rel s ops e C)].
Qed.
Print Assumptions C05_addr_never_registered_again.

(* creation: an ask by somebody who can still act is accounted for under the index of the operation and is registered
   at once (unless its answer comes in the same instant); somebody terminated, or anybody after Shutdown, creates nothing *)
Theorem C05_addr_ask_registered_from_creation : forall rel s a t T,
  can_act s a = true ->
  In (ask_entry s t T) (made (step rel s (OAsk a t T))) /\ e_id (ask_entry s t T) = nid s /\
  e_at (ask_entry s t T) = now s /\
  (is_due (now s) (ask_entry s t T) = false -> In (ask_entry s t T) (reg (step rel s (OAsk a t T)))).
Proof. exact ask_created. Qed.
Print Assumptions C05_addr_ask_registered_from_creation.

Theorem C05_addr_ids_identify : forall rel s e e',
  reach rel s -> In e (made s) -> In e' (made s) -> e_id e = e_id e' -> e = e'.
Proof. exact ids_unique. Qed.
Print Assumptions C05_addr_ids_identify.

(* an address that has a timer is gone as soon as the clock reaches it — whether its asker has been terminated or
   restarted meanwhile, whether the system has been shut down or not *)
Theorem C05_addr_gone_at_timeout : forall rel s e x,
  reach rel s -> In e (made s) -> e_tmo e = Some x -> x <= now s -> ~ In e (reg s).
Proof. exact gone_at_timeout. Qed.
Print Assumptions C05_addr_gone_at_timeout.

(* (b) Once the clock has passed the timeout or the answer instant of every ask that is not completed otherwise, no ask
   address is registered: whatever is registered is an AwaitForward (as shipped they stay, see below) ... *)
Theorem C05_addr_no_ask_once_settled : forall rel s,
  reach rel s ->
  (forall e, In e (made s) -> e_kind e = KAsk -> completed s e \/ is_due (now s) e = true) ->
  asks s = [] /\ forall e, In e (reg s) -> e_kind e = KFwd.
Proof. exact no_ask_when_all_settled. Qed.
Print Assumptions C05_addr_no_ask_once_settled.

(* ... with the AwaitForward functions returned too, nothing at all is registered ... *)
Theorem C05_addr_empty_once_settled : forall rel s,
  reach rel s -> (forall e, In e (made s) -> completed s e \/ is_due (now s) e = true) -> reg s = [].
Proof. exact empty_when_all_settled. Qed.
Print Assumptions C05_addr_empty_once_settled.

(* ... in particular when Shutdown returns after that point, and then for ever (nothing is created after Shutdown). *)
Theorem C05_addr_empty_after_settled_shutdown : forall rel s ops,
  reach rel s ->
  (forall e, In e (made (step rel s OShutdown)) ->
             completed (step rel s OShutdown) e \/ is_due (now (step rel s OShutdown)) e = true) ->
  reg (run rel (step rel s OShutdown) ops) = [].
Proof. exact settled_shutdown_empty. Qed.
Print Assumptions C05_addr_empty_after_settled_shutdown.

(* every ask that has a timer is released by the passage of time alone *)
Theorem C05_addr_asks_released_by_time : forall rel s dt,
  0 <= dt ->
  (forall e, In e (reg s) -> e_kind e = KAsk -> exists x, e_tmo e = Some x /\ x <= now s + dt) ->
  asks (step rel s (OAdv dt)) = [].
Proof. exact asks_released_by_time. Qed.
Print Assumptions C05_addr_asks_released_by_time.

(* What the termination of the asker, its restart and Shutdown do to pending asks: NOTHING. The code closes no future
   on any of these paths (actor_context.go onTerminate / tryTerminated / onRestart, actor_system.go Shutdown); Shutdown
   only lets time pass while it waits for handlers that are still running. *)
Theorem C05_addr_stop_and_restart_touch_nothing : forall rel s a,
  reg (step rel s (OStop a)) = reg s /\ reg (step rel s (ORestart a)) = reg s /\
  fin (step rel s (OStop a)) = fin s /\ fin (step rel s (ORestart a)) = fin s.
Proof. exact stop_restart_touch_nothing. Qed.
Print Assumptions C05_addr_stop_and_restart_touch_nothing.

Theorem C05_addr_shutdown_is_only_time : forall rel s,
  down s = false ->
  reg (step rel s OShutdown) = filter (fun e => negb (is_due (Z.max (now s) (busy s)) e)) (reg s) /\
  now (step rel s OShutdown) = Z.max (now s) (busy s).
Proof. exact shutdown_is_only_time. Qed.
Print Assumptions C05_addr_shutdown_is_only_time.

(* (c) FULL clause: "after Shutdown no temporary reply address remains registered".
   REFUTED for the code as shipped by AwaitForward: its goroutine hands the result straight to the target and never
   completes the future, which has no timeout: the address stays registered for ever — here still one hour after
   Shutdown. Genuine defect, repaired by fixes/C05-awaitforward-release.patch (rel = true above). *)
Theorem C05_addr_awaitforward_released_as_shipped_refuted :
  exists ops s, s = run false init ops /\ In OShutdown ops /\ down s = true /\ now s = 3600100 /\
    map e_kind (reg s) = [KFwd] /\ (forall e, In e (made s) -> e_kind e = KFwd /\ e_at e + 40 <= now s).
Proof.
  exists [OFwd 1 40; OAdv 100; OShutdown; OAdv 3600000]. eexists. split; [reflexivity|].
  split; [cbn; tauto|]. split; [reflexivity|]. split; [reflexivity|]. split; [reflexivity|].
  intros e [<-|[]]. vm_compute. split; [reflexivity|discriminate].
Qed.
Print Assumptions C05_addr_awaitforward_released_as_shipped_refuted.

(* the same for EVERY continuation: as shipped, the address of an AwaitForward is never released *)
Theorem C05_addr_awaitforward_as_shipped_refuted_for_ever : forall s a d ops,
  can_act s a = true -> In (fwd_entry false s d) (reg (run false (step false s (OFwd a d)) ops)).
Proof. exact fwd_as_shipped_for_ever. Qed.
Print Assumptions C05_addr_awaitforward_as_shipped_refuted_for_ever.

(* REFUTED also for the repaired code, in the literal reading: an ask that is pending when Shutdown is called — the
   asker is terminated by it — stays registered after Shutdown has returned, until its timeout (theorem
   C05_addr_gone_at_timeout) or its answer. Proposed open finding C05-pending-ask-outlives-shutdown. *)
Theorem C05_addr_no_address_after_shutdown_refuted :
  exists ops s, s = run true init ops /\ down s = true /\ map e_id (reg s) = [0] /\ map e_kind (reg s) = [KAsk].
Proof. exists [OAsk 1 TNever 1000; OShutdown]. eexists. repeat split. Qed.
Print Assumptions C05_addr_no_address_after_shutdown_refuted.

(* nor does terminating the asker release its pending asks *)
Theorem C05_addr_stop_releases_pending_asks_refuted :
  exists ops s, s = run true init ops /\ dead s = [1] /\ map e_id (reg s) = [0; 1].
Proof. exists [OAsk 1 TNever 1000; OAsk 1 TManual 500; OStop 1; OAdv 499]. eexists. repeat split. Qed.
Print Assumptions C05_addr_stop_releases_pending_asks_refuted.

(* an ask WITHOUT a timer (timeout <= 0) that nobody answers stays registered for ever, Shutdown or not, repaired or not *)
Theorem C05_addr_untimed_ask_refuted_for_ever : forall rel s a T ops,
  can_act s a = true -> T <= 0 -> In (ask_entry s TNever T) (reg (run rel (step rel s (OAsk a TNever T)) ops)).
Proof. exact untimed_unanswered_ask_for_ever. Qed.
Print Assumptions C05_addr_untimed_ask_refuted_for_ever.

(* non-vacuity: a run with everything in it (this is case 7 of the harness corpus plus an AwaitForward, as observed on
   the real system): an ask answered from a goroutine after 500 ms, one held by the manual target and answered at 600 ms,
   the asker restarted meanwhile, an ask answered at once, an AwaitForward whose function runs 700 ms and is still
   running when Shutdown returns; (clock, registered ids) after every operation and the completions *)
Definition c05_addr_example_ops : list op :=
  [OAsk 1 (TAfter 500 false) 3000; OAsk 1 TManual 3000; ORestart 1; OAsk 1 (TAfter 0 false) 1000; OFwd 1 700;
   OAdv 600; OReply 1; OShutdown; OAdv 3000].
Example C05_addr_example :
  model_obs c05_addr_example_ops =
    [(0, [0]); (0, [0; 1]); (0, [0; 1]); (0, [0; 1]); (0, [0; 1; 4]); (600, [1; 4]); (600, [4]); (600, [4]); (3600, [])] /\
  model_fin c05_addr_example_ops = [(3, ByReply, 0); (0, ByReply, 500); (1, ByReply, 600); (4, ByForward, 700)] /\
  (* the hypothesis of the "settled" theorems holds at the end, on a state that created four addresses *)
  length (made (run true init c05_addr_example_ops)) = 4%nat /\
  forall e, In e (made (run true init c05_addr_example_ops)) ->
    completed (run true init c05_addr_example_ops) e \/ is_due (now (run true init c05_addr_example_ops)) e = true.
Proof.
  split; [vm_compute; reflexivity|]. split; [vm_compute; reflexivity|]. split; [vm_compute; reflexivity|].
  intros e H. right. revert e H.
  apply (proj1 (forallb_forall (is_due (now (run true init c05_addr_example_ops))) (made (run true init c05_addr_example_ops)))).
  vm_compute. reflexivity.
Qed.

(* non-vacuity of (a)/(b): timeouts that fire while the asker is dead and after Shutdown; a blocking target makes
   Shutdown return at 800 ms *)
Example C05_addr_example_timeouts :
  model_obs [OAsk 1 TNever 1000; OAsk 1 (TAfter 700 false) 2000; OStop 1; OAsk 1 TNever 50; OAdv 500; OAdv 300; OAdv 300]
    = [(0, [0]); (0, [0; 1]); (0, [0; 1]); (0, [0; 1]); (500, [0; 1]); (800, [0]); (1100, [])] /\
  model_obs [OAsk 1 (TAfter 800 true) 300; OAdv 100; OShutdown; OAdv 1000] = [(0, [0]); (100, [0]); (800, []); (1800, [])] /\
  model_fin [OAsk 1 (TAfter 800 true) 300; OAdv 100; OShutdown; OAdv 1000] = [(0, ByTimeout, 300)].
Proof. vm_compute. repeat split. Qed.

(* ===================================================================================================================
   A spawn that OVERLAPS the termination (or restart) of its parent (MV.C05.SpawnModel / SpawnProofs). The kernel model
   above executes a spawn as one step; in the code ActorOf is a sequence of statements that does not run on the parent's
   message loop when it is called through ActorSystem.ActorOf (the caller's goroutine, on the guard: the normal way to
   create top-level actors) or from a goroutine an actor started. The machine: any number of spawner goroutines, each
   executing the statements of ActorOf that matter — Register, the entry into the parent's children table, the delivery of
   OnLaunch, the load of the PARENT's status, the conditional terminate request — in the ORDER the machine is given, against
   the parent's own loop, which may at any moment take up a terminate or restart request (status CAS ; sweep: a request to
   every child CURRENTLY in the table ; notices of stopped children ; len(children) == 0 ; final status store), a terminate
   request overtaking a restart included. [order_ok]: registered once, then entered once; the value that guards the
   terminate request is read AFTER the table entry; decided once, sent whenever that value is "not alive". Tie T3
   (harness/translate/c05spawn) extracts the order from the tree under test on every run; SpawnInstance.v (generated)
   proves [order_ok] of it. *)
From MV Require Import Lib.Sched C05.SpawnModel C05.SpawnProofs.

(* the order of the source, and of a harmless rewrite, are accepted; the hoisted read is not *)
Theorem C05_late_spawn_orders :
  order_ok source_order = true /\ order_ok cached_after_entry_order = true /\ order_ok hoisted_order = false.
Proof. exact (conj source_order_ok (conj cached_after_entry_order_ok hoisted_order_not_ok)). Qed.
Print Assumptions C05_late_spawn_orders.

(* For every accepted order, any number of concurrent spawns and every interleaving: a child that is in the table of a parent
   that is restarting, terminating or terminated (and past its sweep), and whose spawner has made its decision — in particular:
   whose ActorOf has returned — HAS BEEN TOLD to stop, by the parent's sweep or by the spawner's late check. *)
Theorem C05_late_spawn_every_child_told : forall o st k, order_ok o = true -> Sched.reach (spawn_init o) st ->
  In k (kids (fst st)) -> k_dec k = true -> k_in k = true -> status (fst st) <> SAlive -> pc (fst st) <> PSweep -> k_told k = true.
Proof. exact spawn_child_told. Qed.
Print Assumptions C05_late_spawn_every_child_told.

Theorem C05_late_spawn_returned_is_decided : forall o st k, order_ok o = true -> Sched.reach (spawn_init o) st ->
  In k (kids (fst st)) -> returned k -> k_dec k = true.
Proof. exact spawn_returned_decided. Qed.
Print Assumptions C05_late_spawn_returned_is_decided.

(* the table is sound: an entry whose child is no longer registered belongs to a child that was told to stop; a registered
   child whose spawner has decided is in the table (its entry is deleted only after it has stopped) *)
Theorem C05_late_spawn_table_sound : forall o st k, order_ok o = true -> Sched.reach (spawn_init o) st -> In k (kids (fst st)) ->
  (k_in k = true -> k_reg k = false -> k_told k = true) /\ (k_dec k = true -> k_reg k = true -> k_in k = true).
Proof. exact spawn_table_sound. Qed.
Print Assumptions C05_late_spawn_table_sound.

(* Hence nobody is left behind and nobody waits for ever: in every reachable state in which nothing can move any more (further
   spawns and, for a living parent, a request may still arrive) every ActorOf has returned and the parent is alive, or it
   has TERMINATED and no child is registered. A parent that took up a request is never stuck terminating or restarting. *)
Theorem C05_late_spawn_nobody_left_behind : forall o st, order_ok o = true -> Sched.reach (spawn_init o) st -> final st ->
  (forall k, In k (kids (fst st)) -> returned k) /\
  ((status (fst st) = SAlive /\ pc (fst st) = PIdle) \/
   (status (fst st) = STerminated /\ pc (fst st) = PDead /\ forall k, In k (kids (fst st)) -> k_reg k = false)).
Proof. exact spawn_nobody_left_behind. Qed.
Print Assumptions C05_late_spawn_nobody_left_behind.

(* REFUTED for the status read hoisted to the top of ActorOf (seeded change "adopting := ctx.status.Load() == alive"):
   (a) spawner reads "alive"; the parent takes up a terminate request and sweeps an empty table; the spawner registers the
   child, enters it, launches it and — holding "alive" — sends nothing. From then on, whatever anybody does, the parent is
   terminating and the child is in its table, running, never told: Shutdown hangs. *)
Theorem C05_late_spawn_hoisted_read_parent_waits_for_ever_refuted :
  exists st, Sched.reach (spawn_init hoisted_order) st /\ snd st = [Some TEnv; Some TParent; None] /\
    forall st', Sched.reach st st' ->
      status (fst st') = STerminating /\
      exists kd, nth_error (kids (fst st')) 0 = Some kd /\ returned kd /\ k_in kd = true /\ k_reg kd = true /\ k_told kd = false.
Proof. exact hoisted_read_parent_waits_for_ever. Qed.
Print Assumptions C05_late_spawn_hoisted_read_parent_waits_for_ever_refuted.

(* (b) the parent finishes inside the window (empty table): it has terminated — Shutdown has returned — and the child is
   registered and running for ever *)
Theorem C05_late_spawn_hoisted_read_child_outlives_parent_refuted :
  exists st, Sched.reach (spawn_init hoisted_order) st /\ snd st = [Some TEnv; None; None] /\
    forall st', Sched.reach st st' ->
      status (fst st') = STerminated /\
      exists kd, nth_error (kids (fst st')) 0 = Some kd /\ returned kd /\ k_in kd = true /\ k_reg kd = true /\ k_told kd = false.
Proof. exact hoisted_read_child_outlives_parent. Qed.
Print Assumptions C05_late_spawn_hoisted_read_child_outlives_parent_refuted.

(* (c) the same window against a restart: the parent stays restarting (suspended) with the untold child in its table; the
   only step that can still happen there besides further spawns is a terminate request to the parent itself *)
Theorem C05_late_spawn_hoisted_read_restart_never_completes_refuted :
  exists st, Sched.reach (spawn_init hoisted_order) st /\ snd st = [Some TEnv; Some TParent; None] /\
    status (fst st) = SRestarting /\ pc (fst st) = PWait /\
    (exists kd, kids (fst st) = [kd] /\ returned kd /\ k_in kd = true /\ k_reg kd = true /\ k_told kd = false) /\
    forall j c st' e, Sched.gstep st j c = Some (st', e) -> c = CNew \/ c = CTerm.
Proof. exact hoisted_read_restart_never_completes. Qed.
Print Assumptions C05_late_spawn_hoisted_read_restart_never_completes_refuted.

(* non-vacuity: the interleavings of (a) and (b) on the order of the source end with the parent terminated, the child told,
   stopped and unregistered *)
Example C05_late_spawn_source_same_windows :
  (exists st es, Sched.run (spawn_init source_order)
    ([(0, CNew); (1, CTerm); (1, CNone); (2, CNone); (2, CNone); (2, CNone); (2, CNone); (2, CNone); (2, CNone);
      (0, CStop 0); (1, CNotice 0); (1, CCheck); (1, CNone)])%nat = Some (st, es) /\
    status (fst st) = STerminated /\ snd st = [Some TEnv; None; None] /\
    (exists kd, kids (fst st) = [kd] /\ returned kd /\ k_told kd = true /\ k_reg kd = false /\ k_in kd = false /\ k_launched kd = true) /\
    final st) /\
  (exists st es, Sched.run (spawn_init source_order)
    ([(0, CNew); (1, CTerm); (1, CNone); (1, CCheck); (1, CNone);
      (2, CNone); (2, CNone); (2, CNone); (2, CNone); (2, CNone); (2, CNone); (0, CStop 0)])%nat = Some (st, es) /\
    status (fst st) = STerminated /\ snd st = [Some TEnv; None; None] /\
    exists kd, kids (fst st) = [kd] /\ returned kd /\ k_told kd = true /\ k_reg kd = false).
Proof. exact (conj source_order_same_window_waiting source_order_same_window_terminated). Qed.
