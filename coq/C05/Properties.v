(* MV.C05.Properties — property C05 ("termination is hierarchical and complete; shutdown waits for everyone")
   on the kernel model. The full statements are FALSE of the faithful model (and of the code) for two standing
   findings, proved here as _refuted with concrete witnesses. What does hold universally is proved as _partial:
   the hierarchy invariant for every role table that does not spawn from inside an actor's own OnTerminated handler
   (exactly the behaviour of the second finding) and does not claim a system address. *)
From MV Require Import Lib.ListX Kernel.Model Kernel.Run Kernel.Lifecycle Kernel.Hierarchy Kernel.Queue.
Open Scope Z_scope.

Definition quiescent (s : kstate) : Prop := forall a, In a (actors s) -> a_inflight a = None.

(* FULL: "Shutdown returns only after every actor has terminated" needs in particular that shutdown completes.
   REFUTED: a handler that panics in OnTerminate while the actor is terminating is swallowed (ReportAbnormal ignores
   actors that are not alive) after aborting the termination step half-way: the actor stays Terminating for ever,
   its parent waits for it, the system never closes. (Open finding C05-lifecycle-handler-panic; also C04's clause
   "a failure never blocks the system's ability to shut down".) *)
Definition c05_roles_panic : list role :=
  [ {| victim := Some DStop; sup := []; rules := [ {| r_on := KT; r_n := -1; r_inst := -1; r_do := [APanic] |} ] |} ].
Theorem C05_shutdown_completes_refuted :
  exists roles ls s os, krun roles kinit ls = Some (s, os) /\ In (LShutdown false) ls /\
    quiescent s /\ closed s = false.
Proof.
  exists c05_roles_panic, [LSpawn 0 0; LRun 2; LShutdown false; LRun 0; LRun 2; LRun 1; LRun 0].
  eexists. eexists. split; [vm_compute; reflexivity|]. split; [cbn; tauto|]. split; [|vm_compute; reflexivity].
  intros a H. cbn in H. repeat (destruct H as [H|H]; [subst; reflexivity|]). contradiction.
Qed.
Print Assumptions C05_shutdown_completes_refuted.

(* FULL: "Shutdown returns only after every actor has terminated, and afterwards no actor remains registered".
   REFUTED: an actor that spawns a child while handling its own OnTerminated (the last handler of its life: it is
   already marked terminated and is unregistered right after) creates an orphan nobody waits for. Since the repair of
   ActorOf (a terminating / terminated parent stops the children it creates at once) the orphan no longer stays
   registered for ever, but the closed signal — what Shutdown returns on — can still be set while the orphan is
   registered and has handled nothing yet: the witness below stops right there.
   (Open finding C05-spawn-in-own-onterminated-outlives-shutdown.) The earlier witnesses of this clause — a stale
   termination notice (address re-used, or a watch request answered before the spawn) making the parent forget a living
   child; a child spawned after the children had been told to stop — were repaired in the code and in the model. *)
Theorem C05_registry_empty_after_shutdown_refuted :
  exists roles ls s os, krun roles kinit ls = Some (s, os) /\ closed s = true /\ lookup 1 (registry s) <> None.
Proof.
  exists [ {| victim := None; sup := [DStop]; rules := [ {| r_on := KTS; r_n := -1; r_inst := -1; r_do := [ASpawn 1 1] |} ] |};
           {| victim := None; sup := []; rules := [] |} ],
         [LSpawn 0 0; LRun 2; LShutdown false; LRun 0; LRun 1; LRun 0; LRun 2; LRun 0; LRun 3].
  eexists. eexists. split; [vm_compute; reflexivity|]. split; [vm_compute; reflexivity|]. vm_compute. discriminate.
Qed.
Print Assumptions C05_registry_empty_after_shutdown_refuted.

(* HIERARCHY (partial: two hypotheses on the scripts, both necessary — see the refuted theorem above for the first).
   For every role table whose scripts spawn only under non-negative (user) addresses and never from a rule triggered
   by the actor's own OnTerminated, and every label sequence whose external spawns use non-negative addresses — i.e.
   all interleavings of sends, spawns, terminations (graceful or not, of any node, several at once), failures,
   restarts, watch requests and shutdown — in every reachable state: an actor object that is still registered (it
   has not finished terminating: an actor is unregistered in the very step in which it handles its own OnTerminated)
   has a parent that is still registered and still lists it among its children. (Top-level actors created after the
   guard itself has terminated are the only exception: the guard is gone and they are nobody's children.)
   An actor marks itself terminated only while its children table is empty (try_terminated) and an entry leaves that
   table only when the child's termination notice arrives while nobody is registered under the child's address
   (drop_child): hence no actor finishes terminating before any of its descendants, at any depth. *)
Theorem C05_hierarchical_partial : forall roles ls s os,
  (forall ro ru t r, In ro roles -> In ru (rules ro) -> In (ASpawn t r) (r_do ru) -> 0 <= t /\ r_on ru <> KTS) ->
  Forall lab_ok ls -> krun roles kinit ls = Some (s, os) ->
  forall c ac, get s c = Some ac -> lookup (a_tok ac) (registry s) = Some c -> a_parent ac <> rNone ->
    (a_parent ac = rGuard /\ lookup rGuard (registry s) = None) \/
    exists pu pa, lookup (a_parent ac) (registry s) = Some pu /\ get s pu = Some pa /\ In (a_tok ac) (a_children pa).
Proof. exact hierarchical. Qed.
Print Assumptions C05_hierarchical_partial.

(* consequence: once nobody is registered under a (non-guard) address p any more — its holder has finished
   terminating — no registered actor has p as its parent: all children finished before *)
Theorem C05_no_registered_child_of_unregistered_parent_partial : forall roles ls s os,
  (forall ro ru t r, In ro roles -> In ru (rules ro) -> In (ASpawn t r) (r_do ru) -> 0 <= t /\ r_on ru <> KTS) ->
  Forall lab_ok ls -> krun roles kinit ls = Some (s, os) ->
  forall c ac, get s c = Some ac -> lookup (a_tok ac) (registry s) = Some c -> a_parent ac <> rNone ->
    lookup (a_parent ac) (registry s) = None -> a_parent ac = rGuard.
Proof.
  intros roles ls s os Hsp Hl Hrun c ac Hc Hreg Hp Hnone.
  destruct (hierarchical roles ls s os Hsp Hl Hrun c ac Hc Hreg Hp) as [[E _]|(pu & pa & Hlk & _)]; [exact E|congruence].
Qed.
Print Assumptions C05_no_registered_child_of_unregistered_parent_partial.

(* the hypotheses are satisfiable by a table that does spawn, terminate and shut down (used in C05_example below) *)
Example C05_hierarchy_hypotheses_example :
  (forall ro ru t r, In ro [ {| victim := None; sup := [DStop]; rules := [ {| r_on := KL; r_n := -1; r_inst := -1; r_do := [ASpawn 1 1] |} ] |};
                            {| victim := None; sup := []; rules := [] |} ] ->
     In ru (rules ro) -> In (ASpawn t r) (r_do ru) -> 0 <= t /\ r_on ru <> KTS) /\
  Forall lab_ok [LSpawn 0 0; LTell 1 5; LShutdown true; LEnd].
Proof.
  split.
  - intros ro ru t r [<-|[<-|[]]] Hru Hact; cbn in Hru; [|destruct Hru]. destruct Hru as [<-|[]]. cbn in Hact. destruct Hact as [E|[]]. inversion E; subst. split; [lia|discriminate].
  - repeat constructor; cbn; lia.
Qed.

(* GRACEFUL TERMINATE ("lets the target first handle every user message that was enqueued before the request"):
   the request is an ordinary user message appended at the tail of the target's mailbox, for every role table and
   from any state; by the mailbox discipline (C02_kernel_mailbox_order_step/_run: heads are taken one at a time by
   the actor's own steps, nothing overtakes) every user message enqueued earlier is taken before it. Whether a taken
   message is handled or becomes a dead letter then depends only on whether ANOTHER, non-graceful termination or a
   failure got there first (process_user). *)
Theorem C05_graceful_request_queued_behind_partial : forall roles s t v a s' o,
  lookup t (registry s) = Some v -> get s v = Some a -> kstep roles s (LTerm t true) = Some (s', o) ->
  exists a', get s' v = Some a' /\ seq a' = seq a ++ [mk_env rNone t UTermG].
Proof. exact graceful_request_at_tail. Qed.
Print Assumptions C05_graceful_request_queued_behind_partial.

(* what does hold in the common case: a graceful shutdown of a two-level tree with a message in flight, driven by
   a deterministic scheduler to quiescence: the queued message is handled before OnTerminate, the child reports
   before the parent, the system closes and no user actor stays registered *)
Definition c05_roles_tree : list role :=
  [ {| victim := None; sup := [DStop]; rules := [ {| r_on := KL; r_n := -1; r_inst := -1; r_do := [ASpawn 1 1] |} ] |};
    {| victim := None; sup := []; rules := [] |} ].
Example C05_example :
  let '(s, os) := play c05_roles_tree kinit [LSpawn 0 0; LTell 1 5; LShutdown true; LEnd] in
  quiet s = true /\ closed s = true /\ last os [] = [OEnd true []] /\
  filter is_handled (concat os) =
    [OH 0 0 TL 0 rNone; OH 1 0 TL 0 rNone; OH 1 0 (TP 5) 1 rNone;
     OH 0 0 TT 0 rNone; OH 1 0 TT 0 rNone; OH 1 0 TTS 0 rNone; OH 0 0 (TTO 1) 0 rNone; OH 0 0 TTS 0 rNone].
Proof. vm_compute. repeat split; reflexivity. Qed.
