(* MV.C05.Properties — property C05 ("termination is hierarchical and complete; shutdown waits for everyone")
   on the kernel model. The full statements are FALSE of the faithful model (and of the code) for two standing
   findings, proved here as _refuted with concrete witnesses; the clause-level lemmas that do hold are being added. *)
From MV Require Import Lib.ListX Kernel.Model Kernel.Run Kernel.Lifecycle.
Open Scope Z_scope.

Definition quiescent (s : kstate) : Prop := forall a, In a (actors s) -> a_inflight a = None.

(* FULL: "Shutdown returns only after every actor has terminated" needs in particular that shutdown completes.
   REFUTED: a handler that panics in OnTerminate while the actor is terminating is swallowed (ReportAbnormal ignores
   actors that are not alive) after aborting the termination step half-way: the actor stays Terminating for ever,
   its parent waits for it, the system never closes. (Open finding C05-lifecycle-handler-panic; also C04's clause
   "a failure never blocks the system's ability to shut down".) *)
Definition c05_roles_panic : list role :=
  [ {| victim := Some DStop; sup := []; rules := [ {| r_on := KT; r_n := -1; r_inst := -1; r_do := [APanic] |} ] |} ].
Theorem C05_shutdown_completes_refuted :
  exists roles ls s os, krun roles kinit ls = Some (s, os) /\ In (LShutdown false) ls /\
    quiescent s /\ closed s = false.
Proof.
  exists c05_roles_panic, [LSpawn 0 0; LRun 2; LShutdown false; LRun 0; LRun 2; LRun 1; LRun 0].
  eexists. eexists. split; [vm_compute; reflexivity|]. split; [cbn; tauto|]. split; [|vm_compute; reflexivity].
  intros a H. cbn in H. repeat (destruct H as [H|H]; [subst; reflexivity|]). contradiction.
Qed.
Print Assumptions C05_shutdown_completes_refuted.

(* FULL: "afterwards no actor remains registered". REFUTED: an actor that spawns a child while handling its own
   OnTerminated (the last handler of its life: it is already marked terminated and is unregistered right after) leaves
   that child behind: nobody waits for it, it is still registered and alive when the system has closed.
   (Open finding C05-spawn-in-own-onterminated-leaks-child.) The two earlier witnesses of this clause — a stale
   termination notice (address re-used, or a watch request answered before the spawn) making the parent forget a living
   child — were repaired in the code and in the model (drop_child). *)
Theorem C05_registry_empty_after_shutdown_refuted :
  exists roles ls s os, krun roles kinit ls = Some (s, os) /\ closed s = true /\ lookup 1 (registry s) <> None.
Proof.
  exists [ {| victim := None; sup := [DStop]; rules := [ {| r_on := KTS; r_n := -1; r_inst := -1; r_do := [ASpawn 1 1] |} ] |};
           {| victim := None; sup := []; rules := [] |} ],
         [LSpawn 0 0; LRun 2; LShutdown false; LRun 0; LRun 1; LRun 0; LRun 2; LRun 0; LRun 3].
  eexists. eexists. split; [vm_compute; reflexivity|]. split; [vm_compute; reflexivity|]. vm_compute. discriminate.
Qed.
Print Assumptions C05_registry_empty_after_shutdown_refuted.

(* what does hold in the common case: a graceful shutdown of a two-level tree with a message in flight, driven by
   a deterministic scheduler to quiescence: the queued message is handled before OnTerminate, the child reports
   before the parent, the system closes and no user actor stays registered *)
Definition c05_roles_tree : list role :=
  [ {| victim := None; sup := [DStop]; rules := [ {| r_on := KL; r_n := -1; r_inst := -1; r_do := [ASpawn 1 1] |} ] |};
    {| victim := None; sup := []; rules := [] |} ].
Example C05_example :
  let '(s, os) := play c05_roles_tree kinit [LSpawn 0 0; LTell 1 5; LShutdown true; LEnd] in
  quiet s = true /\ closed s = true /\ last os [] = [OEnd true []] /\
  filter is_handled (concat os) =
    [OH 0 0 TL 0 rNone; OH 1 0 TL 0 rNone; OH 1 0 (TP 5) 1 rNone;
     OH 0 0 TT 0 rNone; OH 1 0 TT 0 rNone; OH 1 0 TTS 0 rNone; OH 0 0 (TTO 1) 0 rNone; OH 0 0 TTS 0 rNone].
Proof. vm_compute. repeat split; reflexivity. Qed.
