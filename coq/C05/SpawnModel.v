(* MV.C05.SpawnModel — layer-A machine for a spawn that OVERLAPS the termination (or restart) of the parent: the statements
   of actorContext.ActorOf that matter for "terminating an actor terminates all of its descendants" as separate atomic
   steps of a spawner goroutine, interleaved with the parent's own message loop.

   ActorOf does not run on the parent's message loop when it is called through ActorSystem.ActorOf (the caller's goroutine,
   on the guard context: the normal way to create top-level actors) or from a goroutine an actor started. Then

     spawner  actorContext.ActorOf          [AReg]     ctx.system.rc.Register(processId, process)       the child is reachable / running
                                               [AEnter]   parent.children[ref.GetLogicalAddress()] = ref   (closure refBinder of newActorContext)
                                               [ALaunch]  ctx.deliverySystemMessage(ref, ref, ctx.parentRef, nil, onLaunch)
                                               [ARead]    parent.status.Load()                              the value the late check decides on
                                               [ADecide]  if <that value> != actorStatusAlive { parent.Terminate(ref, parent.gracefullyTerminated) }
     parent   onTerminate / onRestart          [take up]  status.CompareAndSwap(alive, terminating | restarting)   at ANY moment
                                               [sweep]    for _, ref := range ctx.children { ctx.Terminate(ref, ..) }   every child CURRENTLY in the table
              onTerminated (a child's notice)  [notice]   delete(ctx.children, address)  — only for a child that is no longer registered
              tryTerminated / tryRestarted     [check]    len(ctx.children) > 0 -> return
                                               [finish]   status := terminated (for ever) | alive (restart complete)
     child    told to stop, registered         [stop]     handles the request, unregisters, sends its notice (some time later: environment)

   The machine is PARAMETERISED BY THE ORDER of the spawner's steps: every spawner executes the list [order] it is given, one
   step at a time; tie T3 (harness/translate/c05spawn, go/ast) extracts that list from ActorOf / newActorContext / the
   refBinder closure of the tree under test on every run. Any number of spawners (the environment starts them at will), each
   for a child of its own. A terminate request sent to an address that is not registered is a dead letter: lost.
   A terminate request may overtake a restart in progress (CAS restarting -> terminating, second sweep).
   The sweep is one step (reading the children map while a spawner writes it is a data race of the Go program — DESIGN §7.4 —
   and not part of this machine). No proofs in this file. *)
From MV Require Import Lib.ListX Lib.Sched.

Inductive act :=
| AReg                                      (* Register: the child becomes reachable *)
| AEnter                                    (* the child is entered into the parent's children table *)
| ARead                                     (* load of the PARENT's status whose value guards the terminate request *)
| ALaunch                                   (* OnLaunch is delivered to the child *)
| ADecide (when_alive when_not_alive : bool) (* the conditional terminate request: sent iff the guard holds for the value read *)
| AOther.                                   (* a statement the machine does not have (never enabled) *)

Inductive pstat := SAlive | SRestarting | STerminating | STerminated.
Inductive ppc :=
| PIdle       (* alive, between two messages *)
| PSweep      (* the status has been switched, the loop over the children table is still to run *)
| PWait       (* every child in the table at the sweep has been told; waiting for the table to empty *)
| PFin        (* saw the table empty (len(children) == 0), the final status store is still to run *)
| PDead.      (* terminated: handles nothing any more *)

(* one child and the spawner that creates it. k_prog .. k_dec: local state of the spawner (what it still has to execute, the
   status value it holds, whether that value was read after the table entry, which steps it has executed);
   k_reg .. k_launched: the child in the shared memory *)
Record kid := mk_kid {
  k_prog : list act;
  k_saw : option bool;        (* Some true: the parent was alive when its status was read *)
  k_fresh : bool;             (* that read came after the table entry *)
  k_lreg : bool; k_lent : bool; k_dec : bool;
  k_reg : bool;               (* registered: the child is running *)
  k_in : bool;                (* entry in the parent's children table *)
  k_told : bool;              (* a terminate request has been put into its mailbox *)
  k_launched : bool
}.

Definition is_alive (s : pstat) : bool := match s with SAlive => true | _ => false end.

Definition new_kid (o : list act) : kid := mk_kid o None false false false false false false false false.

(* one step of a spawner: statement [a], [t] = what remains *)
Definition exec (st : pstat) (a : act) (t : list act) (k : kid) : option kid :=
  match a with
  | AReg    => Some (mk_kid t (k_saw k) (k_fresh k) true (k_lent k) (k_dec k) true (k_in k) (k_told k) (k_launched k))
  | AEnter  => Some (mk_kid t (k_saw k) (k_fresh k) (k_lreg k) true (k_dec k) (k_reg k) true (k_told k) (k_launched k))
  | ARead   => Some (mk_kid t (Some (is_alive st)) (k_lent k) (k_lreg k) (k_lent k) (k_dec k) (k_reg k) (k_in k) (k_told k) (k_launched k))
  | ALaunch => Some (mk_kid t (k_saw k) (k_fresh k) (k_lreg k) (k_lent k) (k_dec k) (k_reg k) (k_in k) (k_told k) (k_launched k || k_reg k))
  | ADecide ta tn =>
      match k_saw k with
      | None => None
      | Some a => Some (mk_kid t (k_saw k) (k_fresh k) (k_lreg k) (k_lent k) true (k_reg k) (k_in k)
                               (k_told k || ((if a then ta else tn) && k_reg k)) (k_launched k))
      end
  | AOther => None
  end.

(* the parent's loop over its table: Terminate(ref) for every entry; a request to an unregistered address is lost *)
Definition sweep_kid (k : kid) : kid :=
  mk_kid (k_prog k) (k_saw k) (k_fresh k) (k_lreg k) (k_lent k) (k_dec k) (k_reg k) (k_in k) (k_told k || (k_in k && k_reg k)) (k_launched k).
(* the child handles the request: terminated and unregistered; its notice is on the way to the parent *)
Definition stop_kid (k : kid) : kid :=
  mk_kid (k_prog k) (k_saw k) (k_fresh k) (k_lreg k) (k_lent k) (k_dec k) false (k_in k) (k_told k) (k_launched k).
(* the parent handles the notice: the entry is deleted *)
Definition remove_kid (k : kid) : kid :=
  mk_kid (k_prog k) (k_saw k) (k_fresh k) (k_lreg k) (k_lent k) (k_dec k) (k_reg k) false (k_told k) (k_launched k).

Definition table_empty (ks : list kid) : bool := forallb (fun k => negb (k_in k)) ks.

Record ssh := mk_ssh { order : list act; status : pstat; pc : ppc; kids : list kid }.

Inductive sthr := TEnv | TParent | TSpawn (i : nat).
Inductive schoice :=
| CNone
| CNew              (* environment: one more goroutine calls ActorOf on this parent *)
| CStop (k : nat)   (* environment: child k, told to stop and still registered, terminates *)
| CTerm             (* parent: takes up a terminate request *)
| CRestart          (* parent: takes up a restart request *)
| CNotice (k : nat) (* parent: handles the termination notice of child k *)
| CCheck.           (* parent: tryTerminated / tryRestarted looks at the table *)
Inductive sev :=
| EvNew (i : nat) | EvAct (i : nat) (a : act) | EvReturn (i : nat) | EvStopped (k : nat) | EvTakeUp (s : pstat) | EvSweep
| EvNotice (k : nat) | EvEmpty | EvFinished (s : pstat).

Definition set_kids (s : ssh) (ks : list kid) : ssh := mk_ssh (order s) (status s) (pc s) ks.
Definition set_sp (s : ssh) (st : pstat) (p : ppc) : ssh := mk_ssh (order s) st p (kids s).

Definition SR := (ssh * option sthr * list sthr * sev)%type.

Definition notice (s : ssh) (k : nat) : option SR :=
  match nth_error (kids s) k with
  | Some kd => if k_in kd && negb (k_reg kd) then Some (set_kids s (upd k (remove_kid kd) (kids s)), Some TParent, [], EvNotice k) else None
  | None => None
  end.

Definition sstep (s : ssh) (l : sthr) (c : schoice) : option SR :=
  match l with
  | TEnv =>
      match c with
      | CNew => Some (set_kids s (kids s ++ [new_kid (order s)]), Some TEnv, [TSpawn (length (kids s))], EvNew (length (kids s)))
      | CStop k =>
          match nth_error (kids s) k with
          | Some kd => if k_told kd && k_reg kd then Some (set_kids s (upd k (stop_kid kd) (kids s)), Some TEnv, [], EvStopped k) else None
          | None => None
          end
      | _ => None
      end
  | TSpawn i =>
      match nth_error (kids s) i with
      | None => None
      | Some kd =>
          match k_prog kd with
          | [] => Some (s, None, [], EvReturn i)
          | a :: t =>
              match exec (status s) a t kd with
              | Some kd' => Some (set_kids s (upd i kd' (kids s)), Some (TSpawn i), [], EvAct i a)
              | None => None
              end
          end
      end
  | TParent =>
      match pc s with
      | PIdle =>
          match c with
          | CTerm => Some (set_sp s STerminating PSweep, Some TParent, [], EvTakeUp STerminating)
          | CRestart => Some (set_sp s SRestarting PSweep, Some TParent, [], EvTakeUp SRestarting)
          | CNotice k => notice s k
          | _ => None
          end
      | PSweep => Some (mk_ssh (order s) (status s) PWait (map sweep_kid (kids s)), Some TParent, [], EvSweep)
      | PWait =>
          match c with
          | CNotice k => notice s k
          | CCheck => if table_empty (kids s) then Some (set_sp s (status s) PFin, Some TParent, [], EvEmpty) else None
          | CTerm => match status s with
                     | SRestarting => Some (set_sp s STerminating PSweep, Some TParent, [], EvTakeUp STerminating)
                     | _ => None
                     end
          | _ => None
          end
      | PFin =>
          match status s with
          | STerminating => Some (set_sp s STerminated PDead, None, [], EvFinished STerminated)
          | SRestarting => Some (set_sp s SAlive PIdle, Some TParent, [], EvFinished SAlive)
          | _ => None
          end
      | PDead => None
      end
  end.

Definition Spawn : machine :=
  {| shared := ssh; local := sthr; Sched.choice := schoice; ev := sev; tstep := sstep |}.

Definition spawn_init (o : list act) : state Spawn := (mk_ssh o SAlive PIdle [], [Some TEnv; Some TParent]).

(* ---- the orders ---- *)
(* the unchanged source: Register ; table entry (refBinder) ; OnLaunch ; parent.status.Load() ; conditional Terminate *)
Definition source_order : list act := [AReg; AEnter; ALaunch; ARead; ADecide false true].
(* the status read hoisted to the top of ActorOf ("adopting := ctx.status.Load() == actorStatusAlive") *)
Definition hoisted_order : list act := [ARead; AReg; AEnter; ALaunch; ADecide false true].
(* a harmless rewrite: the value is cached in a local variable right after the table entry *)
Definition cached_after_entry_order : list act := [AReg; AEnter; ARead; ALaunch; ADecide false true].

(* an order for which the theorems hold: the child is registered once, then entered once; the value that guards the terminate
   request is read AFTER the table entry; the request is decided exactly once, and sent whenever that value is "not alive" *)
Fixpoint ok_from (lreg lent sawset fresh dec : bool) (rest : list act) : bool :=
  match rest with
  | [] => dec
  | AReg :: t => negb lreg && ok_from true lent sawset fresh dec t
  | AEnter :: t => lreg && negb lent && ok_from lreg true sawset fresh dec t
  | ARead :: t => ok_from lreg lent true lent dec t
  | ALaunch :: t => lreg && ok_from lreg lent sawset fresh dec t
  | ADecide _ tn :: t => lreg && lent && sawset && fresh && negb dec && tn && ok_from lreg lent sawset fresh true t
  | AOther :: _ => false
  end.
Definition order_ok (o : list act) : bool := ok_from false false false false false o.

(* ---- observables ---- *)
Definition returned (k : kid) : Prop := k_prog k = [].          (* ActorOf has returned *)
(* nothing can move but the environment starting further spawns and the living parent taking up a request *)
Definition final (st : state Spawn) : Prop :=
  forall j c st' e, gstep st j c = Some (st', e) -> c = CNew \/ (pc (fst st) = PIdle /\ (c = CTerm \/ c = CRestart)).
