(* MV.C05.SpawnProofs — a spawn that overlaps the termination / restart of the parent, over every reachable state of
   MV.C05.SpawnModel (every interleaving of any number of spawners, the parent's message loop and the children), for EVERY
   order of the spawner's steps accepted by [order_ok] — in particular the order of the unchanged source — and the refuting
   schedules for the status read hoisted to the top of ActorOf. *)
From MV Require Import Lib.ListX Lib.Sched C05.SpawnModel.
Local Open Scope nat_scope.

(* ------------------------------------------------------------------ generic *)
Lemma sp_gstep_inv (st : state Spawn) i c st' e :
  gstep st i c = Some (st', e) ->
  exists l s' ol sp, nth_error (snd st) i = Some (Some l) /\
    sstep (fst st) l c = Some (s', ol, sp, e) /\ st' = (s', upd i ol (snd st) ++ map Some sp).
Proof.
  unfold gstep. destruct (nth_error (snd st) i) as [[l|]|] eqn:Hn; try discriminate.
  cbn [tstep Spawn]. destruct (sstep (fst st) l c) as [[[[s' ol] sp] e']|] eqn:Ht; try discriminate.
  intros H; inversion H; subst. exists l, s', ol, sp. auto.
Qed.

Lemma nth_error_upd {A} (p : list A) i x j :
  nth_error (upd i x p) j = if Nat.eqb i j then (match nth_error p j with Some _ => Some x | None => None end) else nth_error p j.
Proof.
  revert i j; induction p as [|h t IH]; intros [|i] [|j]; simpl; auto.
  destruct (Nat.eqb i j); reflexivity.
Qed.

Lemma Forall_upd {A} (P : A -> Prop) l i x : Forall P l -> P x -> Forall P (upd i x l).
Proof.
  intros H Hx. revert i. induction H as [|h t Hh Ht IH]; intros [|i]; simpl; constructor; auto.
Qed.

Lemma Forall_nth_error {A} (P : A -> Prop) l i x : Forall P l -> nth_error l i = Some x -> P x.
Proof. intros H Hn. apply nth_error_In in Hn. rewrite Forall_forall in H. auto. Qed.

(* ------------------------------------------------------------------ the invariant of one child / spawner *)
Definition is_sweep (p : ppc) : bool := match p with PSweep => true | _ => false end.
Definition sawset (k : kid) : bool := match k_saw k with Some _ => true | None => false end.
Definition saw_alive (k : kid) : bool := match k_saw k with Some true => true | _ => false end.

(* [al]: the parent is alive; [sw]: its sweep is still to come *)
Definition kid_okb (al sw : bool) (k : kid) : bool :=
  implb (k_in k && negb (k_reg k)) (k_told k) &&                                  (* entered, no longer registered: it was told *)
  implb (k_lreg k) (k_reg k || k_told k) &&                                       (* registered until it is told *)
  implb (negb (k_lreg k)) (negb (k_reg k)) &&
  implb (k_fresh k) (k_lent k) &&
  implb (k_lent k) (k_lreg k) &&
  implb (k_dec k) (k_lent k) &&
  implb (k_lent k && k_reg k) (k_in k) &&                                         (* its entry is deleted only after it has stopped *)
  (* the spawner read "alive" after the entry, or has decided: once the parent is past its sweep the child has been told *)
  implb ((saw_alive k && k_fresh k || k_dec k) && k_in k && negb al && negb sw) (k_told k) &&
  (* what the spawner still has to execute is the rest of an accepted order *)
  ok_from (k_lreg k) (k_lent k) (sawset k) (k_fresh k) (k_dec k) (k_prog k).

Lemma kid_ok_new al sw o : order_ok o = true -> kid_okb al sw (new_kid o) = true.
Proof. intros H. unfold kid_okb, new_kid, sawset, saw_alive; cbn. unfold order_ok in H. rewrite H. reflexivity. Qed.

Lemma kid_ok_exec st sw k a t k' :
  kid_okb (is_alive st) sw k = true -> k_prog k = a :: t -> exec st a t k = Some k' -> kid_okb (is_alive st) sw k' = true.
Proof.
  destruct k as [prog saw fresh lreg lent dec reg kin told launched]. cbn [k_prog]. intros H -> He.
  unfold kid_okb, sawset, saw_alive in *. cbn [k_prog k_saw k_fresh k_lreg k_lent k_dec k_reg k_in k_told k_launched] in *.
  destruct a; cbn [exec k_saw] in He;
  try (destruct saw as [sv|]; [|discriminate]); inversion He; subst; clear He;
  cbn [k_prog k_saw k_fresh k_lreg k_lent k_dec k_reg k_in k_told k_launched ok_from] in *;
  destruct (is_alive st), sw, fresh, lreg, lent, dec, reg, kin, told; cbn in *; try discriminate; try exact H; try reflexivity;
  try (destruct saw as [[|]|]; cbn in *; try discriminate; try exact H; try reflexivity);
  try (destruct sv; cbn in *; try discriminate; try exact H; try reflexivity);
  try (destruct when_not_alive; cbn in *; try discriminate; try exact H).
Qed.

Ltac kid_bools k :=
  destruct k as [prog saw fresh lreg lent dec reg kin told launched];
  unfold kid_okb, sawset, saw_alive in *;
  cbn [sweep_kid stop_kid remove_kid k_prog k_saw k_fresh k_lreg k_lent k_dec k_reg k_in k_told k_launched] in *.

(* the parent's status / pc change: the last clause is vacuous while the parent is alive or its sweep is still to come *)
Lemma kid_ok_vacuous al sw al' sw' k : al' || sw' = true -> kid_okb al sw k = true -> kid_okb al' sw' k = true.
Proof.
  intros Hv H. kid_bools k.
  destruct al', sw'; try discriminate; destruct al, sw, fresh, lreg, lent, dec, reg, kin, told; cbn in *; try discriminate; try exact H;
  destruct saw as [[|]|]; cbn in *; try discriminate; exact H.
Qed.

Lemma kid_ok_sweep k : kid_okb false true k = true -> kid_okb false false (sweep_kid k) = true.
Proof.
  intros H. kid_bools k.
  destruct fresh, lreg, lent, dec, reg, kin, told; cbn in *; try discriminate; try exact H;
  destruct saw as [[|]|]; cbn in *; try discriminate; exact H.
Qed.

Lemma kid_ok_stop al sw k : k_told k && k_reg k = true -> kid_okb al sw k = true -> kid_okb al sw (stop_kid k) = true.
Proof.
  intros He H. kid_bools k.
  destruct al, sw, fresh, lreg, lent, dec, reg, kin, told; cbn in *; try discriminate; try exact H;
  destruct saw as [[|]|]; cbn in *; try discriminate; exact H.
Qed.

Lemma kid_ok_remove al sw k : k_in k && negb (k_reg k) = true -> kid_okb al sw k = true -> kid_okb al sw (remove_kid k) = true.
Proof.
  intros He H. kid_bools k.
  destruct al, sw, fresh, lreg, lent, dec, reg, kin, told; cbn in *; try discriminate; try exact H;
  destruct saw as [[|]|]; cbn in *; try discriminate; exact H.
Qed.


(* ---- what the invariant of one child says ---- *)
Lemma kid_ok_told k : kid_okb false false k = true -> k_dec k = true -> k_in k = true -> k_told k = true.
Proof.
  intros H Hd Hi. kid_bools k. subst.
  destruct fresh, lreg, lent, reg, told; cbn in *; try discriminate; try reflexivity;
  destruct saw as [[|]|]; cbn in *; discriminate.
Qed.

Lemma kid_ok_returned al sw k : kid_okb al sw k = true -> k_prog k = [] -> k_dec k = true.
Proof.
  intros H Hp. kid_bools k. subst. cbn [ok_from] in H. apply andb_prop in H. destruct H as [_ H]. exact H.
Qed.

Lemma kid_ok_gone al sw k : kid_okb al sw k = true -> k_in k = true -> k_reg k = false -> k_told k = true.
Proof.
  intros H Hi Hr. kid_bools k. subst. destruct told; [reflexivity|]. cbn in H. discriminate.
Qed.

Lemma kid_ok_reg_in al sw k : kid_okb al sw k = true -> k_dec k = true -> k_reg k = true -> k_in k = true.
Proof.
  intros H Hd Hr. kid_bools k. subst. destruct kin; [reflexivity|].
  destruct lreg, lent, fresh, told; cbn in H; discriminate.
Qed.

(* a spawner that has not returned can take its next step: an accepted order contains no statement foreign to the machine
   and decides only on a value it has read *)
Lemma kid_ok_enabled al sw st k a t : kid_okb al sw k = true -> k_prog k = a :: t -> exists k', exec st a t k = Some k'.
Proof.
  intros H Hp. kid_bools k. subst.
  apply andb_prop in H. destruct H as [_ H].
  destruct a; cbn [exec k_saw]; try (eexists; reflexivity).
  - destruct saw as [sv|]; [eexists; reflexivity|]. cbn [ok_from] in H.
    destruct lreg, lent; cbn in H; discriminate.
  - cbn [ok_from] in H. discriminate.
Qed.

(* ------------------------------------------------------------------ the invariant of the machine *)
Definition coh (st : pstat) (p : ppc) : bool :=
  match p, st with
  | PIdle, SAlive => true
  | PSweep, SRestarting | PSweep, STerminating | PWait, SRestarting | PWait, STerminating | PFin, SRestarting | PFin, STerminating => true
  | PDead, STerminated => true
  | _, _ => false
  end.

Definition kids_ok (s : ssh) : Prop := Forall (fun k => kid_okb (is_alive (status s)) (is_sweep (pc s)) k = true) (kids s).

Definition SInv (st : state Spawn) : Prop :=
  let s := fst st in
  order_ok (order s) = true /\ coh (status s) (pc s) = true /\ kids_ok s.

Lemma sinv_init o : order_ok o = true -> SInv (spawn_init o).
Proof. intros H. unfold SInv, spawn_init, kids_ok; cbn. repeat split; auto. Qed.

Lemma kids_ok_vacuous (s : ssh) st' p' :
  is_alive st' || is_sweep p' = true -> kids_ok s -> kids_ok (set_sp s st' p').
Proof.
  unfold kids_ok. cbn [set_sp status pc kids]. intros Hv H. eapply Forall_impl; [|exact H].
  intros k Hk. exact (kid_ok_vacuous _ _ _ _ k Hv Hk).
Qed.

Lemma sinv_step st i c st' e : SInv st -> gstep st i c = Some (st', e) -> SInv st'.
Proof.
  destruct st as [s p]. unfold SInv. cbn [fst]. intros (Ho & Hc & Hk) Hg.
  destruct (sp_gstep_inv _ _ _ _ _ Hg) as (l & s' & ol & sp & Hn & Ht & ->). cbn [fst snd] in *. clear Hg Hn.
  destruct l as [| |j]; cbn [sstep] in Ht.
  - (* environment *)
    destruct c; try discriminate.
    + inversion Ht; subst; clear Ht. cbn [set_kids order status pc kids]. repeat split; auto.
      unfold kids_ok in *. cbn [set_kids order status pc kids]. apply Forall_app. split; [exact Hk|].
      constructor; [|constructor]. apply kid_ok_new. exact Ho.
    + destruct (nth_error (kids s) k) as [kd|] eqn:Hkd; [|discriminate].
      destruct (k_told kd && k_reg kd) eqn:He; [|discriminate]. inversion Ht; subst; clear Ht.
      cbn [set_kids order status pc kids]. repeat split; auto.
      unfold kids_ok in *. cbn [set_kids order status pc kids]. apply Forall_upd; [exact Hk|].
      apply kid_ok_stop; [exact He|]. exact (Forall_nth_error _ _ _ _ Hk Hkd).
  - (* the parent *)
    destruct (pc s) eqn:Hpc.
    + (* idle *)
      destruct c; try discriminate.
      * inversion Ht; subst; clear Ht. cbn [set_sp order status pc kids]. repeat split; auto. apply kids_ok_vacuous; auto.
      * inversion Ht; subst; clear Ht. cbn [set_sp order status pc kids]. repeat split; auto. apply kids_ok_vacuous; auto.
      * unfold notice in Ht. destruct (nth_error (kids s) k) as [kd|] eqn:Hkd; [|discriminate].
        destruct (k_in kd && negb (k_reg kd)) eqn:He; [|discriminate]. inversion Ht; subst; clear Ht.
        cbn [set_kids order status pc kids]. rewrite Hpc. repeat split; auto.
        unfold kids_ok in *. cbn [set_kids order status pc kids]. rewrite Hpc in *. apply Forall_upd; [exact Hk|].
        apply kid_ok_remove; [exact He|]. exact (Forall_nth_error _ _ _ _ Hk Hkd).
    + (* sweep *)
      inversion Ht; subst; clear Ht. cbn [order status pc kids].
      assert (Ha : is_alive (status s) = false /\ coh (status s) PWait = true)
        by (destruct (status s); cbn in *; try discriminate; auto).
      destruct Ha as [Ha Hc']. repeat split; auto.
      unfold kids_ok in *. cbn [order status pc kids]. rewrite Hpc in Hk. cbn [is_sweep] in *.
      rewrite Ha in *. apply Forall_map. eapply Forall_impl; [|exact Hk]. intros k Hk'. apply kid_ok_sweep. exact Hk'.
    + (* waiting *)
      destruct c; try discriminate.
      * destruct (status s) eqn:Hs; try discriminate. inversion Ht; subst; clear Ht.
        cbn [set_sp order status pc kids]. repeat split; auto. apply kids_ok_vacuous; auto.
      * unfold notice in Ht. destruct (nth_error (kids s) k) as [kd|] eqn:Hkd; [|discriminate].
        destruct (k_in kd && negb (k_reg kd)) eqn:He; [|discriminate]. inversion Ht; subst; clear Ht.
        cbn [set_kids order status pc kids]. rewrite Hpc. repeat split; auto.
        unfold kids_ok in *. cbn [set_kids order status pc kids]. rewrite Hpc in *. apply Forall_upd; [exact Hk|].
        apply kid_ok_remove; [exact He|]. exact (Forall_nth_error _ _ _ _ Hk Hkd).
      * destruct (table_empty (kids s)); [|discriminate]. inversion Ht; subst; clear Ht.
        cbn [set_sp order status pc kids]. repeat split; auto.
        unfold kids_ok in *. cbn [set_sp order status pc kids]. rewrite Hpc in Hk. exact Hk.
    + (* the final store *)
      destruct (status s) eqn:Hs; try discriminate; inversion Ht; subst; clear Ht; cbn [set_sp order status pc kids]; repeat split; auto.
      * apply kids_ok_vacuous; auto.
      * unfold kids_ok in *. cbn [set_sp order status pc kids]. rewrite Hpc, Hs in Hk. exact Hk.
    + discriminate.
  - (* a spawner *)
    destruct (nth_error (kids s) j) as [kd|] eqn:Hkd; [|discriminate].
    destruct (k_prog kd) as [|a t] eqn:Hp.
    + inversion Ht; subst; clear Ht. repeat split; auto.
    + destruct (exec (status s) a t kd) as [kd'|] eqn:Hx; [|discriminate]. inversion Ht; subst; clear Ht.
      cbn [set_kids order status pc kids]. repeat split; auto.
      unfold kids_ok in *. cbn [set_kids order status pc kids]. apply Forall_upd; [exact Hk|].
      eapply kid_ok_exec; [|exact Hp|exact Hx]. exact (Forall_nth_error _ _ _ _ Hk Hkd).
Qed.

Theorem sinv_reachable o st : order_ok o = true -> reach (spawn_init o) st -> SInv st.
Proof. intros Ho. apply inv_reach; [exact (sinv_init o Ho) | exact sinv_step]. Qed.

(* ------------------------------------------------------------------ the statements, for every accepted order *)

(* every child whose spawner has decided (a fortiori: whose ActorOf has returned) and that is in the table of a parent that
   is restarting, terminating or terminated and past its sweep HAS BEEN TOLD to stop — by the sweep or by the spawner *)
Theorem spawn_child_told o st k : order_ok o = true -> reach (spawn_init o) st -> In k (kids (fst st)) ->
  k_dec k = true -> k_in k = true -> status (fst st) <> SAlive -> pc (fst st) <> PSweep -> k_told k = true.
Proof.
  intros Ho Hr Hin Hd Hi Hs Hp. destruct (sinv_reachable o st Ho Hr) as (_ & _ & Hk).
  unfold kids_ok in Hk. rewrite Forall_forall in Hk. specialize (Hk k Hin).
  replace (is_alive (status (fst st))) with false in Hk by (destruct (status (fst st)); try reflexivity; congruence).
  replace (is_sweep (pc (fst st))) with false in Hk by (destruct (pc (fst st)); try reflexivity; congruence).
  exact (kid_ok_told k Hk Hd Hi).
Qed.

Theorem spawn_returned_decided o st k : order_ok o = true -> reach (spawn_init o) st -> In k (kids (fst st)) ->
  returned k -> k_dec k = true.
Proof.
  intros Ho Hr Hin Hret. destruct (sinv_reachable o st Ho Hr) as (_ & _ & Hk).
  unfold kids_ok in Hk. rewrite Forall_forall in Hk. exact (kid_ok_returned _ _ k (Hk k Hin) Hret).
Qed.

(* an entry whose child is no longer registered belongs to a child that was told to stop (its notice is on the way);
   a registered child whose spawner has decided is in the table *)
Theorem spawn_table_sound o st k : order_ok o = true -> reach (spawn_init o) st -> In k (kids (fst st)) ->
  (k_in k = true -> k_reg k = false -> k_told k = true) /\ (k_dec k = true -> k_reg k = true -> k_in k = true).
Proof.
  intros Ho Hr Hin. destruct (sinv_reachable o st Ho Hr) as (_ & _ & Hk).
  unfold kids_ok in Hk. rewrite Forall_forall in Hk. specialize (Hk k Hin). split.
  - exact (kid_ok_gone _ _ k Hk).
  - exact (kid_ok_reg_in _ _ k Hk).
Qed.

(* ------------------------------------------------------------------ nothing is left behind: the pool *)
Lemma upd_same {A} (p : list A) i x : nth_error p i = Some x -> upd i x p = p.
Proof. revert i; induction p as [|h t IH]; intros [|i] H; simpl in *; try discriminate; [inversion H; reflexivity | f_equal; auto]. Qed.

Lemma nth_error_upd_ne {A} (p : list A) i j x : i <> j -> nth_error (upd i x p) j = nth_error p j.
Proof. intros H. rewrite nth_error_upd. destruct (Nat.eqb_spec i j); [contradiction | reflexivity]. Qed.

Lemma nth_error_app_l {A} (p q : list A) j x : nth_error p j = Some x -> nth_error (p ++ q) j = Some x.
Proof. intros H. rewrite nth_error_app1; [exact H | apply nth_error_Some; congruence]. Qed.

Lemma nth_error_upd_inv {A} (l : list A) k x i y :
  nth_error (upd k x l) i = Some y -> (i = k /\ y = x) \/ nth_error l i = Some y.
Proof.
  rewrite nth_error_upd. destruct (Nat.eqb_spec k i) as [->|Hne]; [|auto].
  destruct (nth_error l i); intros H; inversion H; auto.
Qed.

Definition PInv (st : state Spawn) : Prop :=
  nth_error (snd st) 0 = Some (Some TEnv) /\
  (pc (fst st) <> PDead -> nth_error (snd st) 1 = Some (Some TParent)) /\
  (forall i k, nth_error (kids (fst st)) i = Some k -> k_prog k <> [] -> exists j, nth_error (snd st) j = Some (Some (TSpawn i))).

Lemma pinv_init o : PInv (spawn_init o).
Proof.
  unfold PInv, spawn_init; cbn. repeat split; auto. intros [|i] k H; discriminate.
Qed.

(* kids changed at one index by a function that keeps the program *)
Lemma pinv_kids_upd (s : ssh) (p : pool Spawn) k kd kd' :
  PInv (s, p) -> nth_error (kids s) k = Some kd -> k_prog kd' = k_prog kd -> PInv (set_kids s (upd k kd' (kids s)), p).
Proof.
  intros (P0 & P1 & P2) Hkd Hp. unfold PInv in *. cbn [fst snd set_kids pc kids] in *. repeat split; auto.
  intros i x Hn Hx. destruct (nth_error_upd_inv _ _ _ _ _ Hn) as [[-> ->]|Hn']; [|eauto].
  apply (P2 k kd Hkd). congruence.
Qed.

Lemma pinv_step st i c st' e : SInv st -> PInv st -> gstep st i c = Some (st', e) -> PInv st'.
Proof.
  destruct st as [s p]. intros HS HP Hg.
  destruct (sp_gstep_inv _ _ _ _ _ Hg) as (l & s' & ol & sp & Hn & Ht & ->). cbn [fst snd] in *. clear Hg.
  pose proof HP as (P0 & P1 & P2). cbn [fst snd] in P0, P1, P2.
  unfold pool in *. cbn [local shared Spawn] in *.
  destruct l as [| |j]; cbn [sstep] in Ht.
  - (* environment *)
    destruct c; try discriminate.
    + inversion Ht; subst; clear Ht. rewrite (upd_same _ _ _ Hn). cbn [map]. unfold PInv. cbn [fst snd set_kids pc kids].
      split; [apply nth_error_app_l; exact P0|]. split; [intros Hd; apply nth_error_app_l; auto|].
      intros k x Hk Hx. destruct (Nat.lt_ge_cases k (length (kids s))) as [Hlt|Hge].
      * rewrite nth_error_app1 in Hk by exact Hlt. destruct (P2 k x Hk Hx) as (j & Hj). exists j. apply nth_error_app_l. exact Hj.
      * exists (length p). rewrite nth_error_app2 by lia. rewrite Nat.sub_diag. cbn.
        rewrite nth_error_app2 in Hk by exact Hge.
        destruct (k - length (kids s)) as [|d] eqn:Hd; [|destruct d; discriminate].
        replace k with (length (kids s)) by lia. reflexivity.
    + destruct (nth_error (kids s) k) as [kd|] eqn:Hkd; [|discriminate].
      destruct (k_told kd && k_reg kd); [|discriminate]. inversion Ht; subst; clear Ht.
      rewrite (upd_same _ _ _ Hn). cbn [map]. rewrite app_nil_r. apply (pinv_kids_upd s p k kd); auto.
  - (* the parent *)
    assert (Hi0 : i <> 0%nat) by (intros ->; rewrite P0 in Hn; discriminate).
    assert (HN : forall k kd, nth_error (kids s) k = Some kd -> k_in kd && negb (k_reg kd) = true ->
              PInv (set_kids s (upd k (remove_kid kd) (kids s)), upd i (Some TParent) p ++ map Some [])).
    { intros k kd Hkd _. rewrite (upd_same _ _ _ Hn). cbn [map]. rewrite app_nil_r. apply (pinv_kids_upd s p k kd); auto. }
    destruct (pc s) eqn:Hpc.
    + destruct c; try discriminate.
      * inversion Ht; subst; clear Ht. rewrite (upd_same _ _ _ Hn). cbn [map]. rewrite app_nil_r.
        unfold PInv. cbn [fst snd set_sp pc kids]. repeat split; auto. intros _. apply P1. congruence.
      * inversion Ht; subst; clear Ht. rewrite (upd_same _ _ _ Hn). cbn [map]. rewrite app_nil_r.
        unfold PInv. cbn [fst snd set_sp pc kids]. repeat split; auto. intros _. apply P1. congruence.
      * unfold notice in Ht. destruct (nth_error (kids s) k) as [kd|] eqn:Hkd; [|discriminate].
        destruct (k_in kd && negb (k_reg kd)) eqn:He; [|discriminate]. inversion Ht; subst; clear Ht. eauto.
    + inversion Ht; subst; clear Ht. rewrite (upd_same _ _ _ Hn). cbn [map]. rewrite app_nil_r.
      unfold PInv. cbn [fst snd pc kids]. split; [exact P0|]. split; [intros _; apply P1; congruence|].
      intros k x Hk Hx. rewrite nth_error_map in Hk. destruct (nth_error (kids s) k) as [kd|] eqn:Hkd; [|discriminate].
      inversion Hk; subst. apply (P2 k kd Hkd). destruct kd; exact Hx.
    + destruct c; try discriminate.
      * destruct (status s); try discriminate. inversion Ht; subst; clear Ht. rewrite (upd_same _ _ _ Hn). cbn [map]. rewrite app_nil_r.
        unfold PInv. cbn [fst snd set_sp pc kids]. repeat split; auto. intros _. apply P1. congruence.
      * unfold notice in Ht. destruct (nth_error (kids s) k) as [kd|] eqn:Hkd; [|discriminate].
        destruct (k_in kd && negb (k_reg kd)) eqn:He; [|discriminate]. inversion Ht; subst; clear Ht. eauto.
      * destruct (table_empty (kids s)); [|discriminate]. inversion Ht; subst; clear Ht. rewrite (upd_same _ _ _ Hn). cbn [map]. rewrite app_nil_r.
        unfold PInv. cbn [fst snd set_sp pc kids]. repeat split; auto. intros _. apply P1. congruence.
    + destruct (status s); try discriminate; inversion Ht; subst; clear Ht; cbn [map]; rewrite app_nil_r.
      * rewrite (upd_same _ _ _ Hn). unfold PInv. cbn [fst snd set_sp pc kids]. repeat split; auto. intros _. apply P1. congruence.
      * unfold PInv. cbn [fst snd set_sp pc kids]. split; [rewrite nth_error_upd_ne by exact Hi0; exact P0|].
        split; [intros Hd; congruence|].
        intros k x Hk Hx. destruct (P2 k x Hk Hx) as (j & Hj). exists j. rewrite nth_error_upd_ne; [exact Hj|].
        intros ->. rewrite Hn in Hj. discriminate.
    + discriminate.
  - (* a spawner *)
    assert (Hi0 : i <> 0%nat) by (intros ->; rewrite P0 in Hn; discriminate).
    destruct (nth_error (kids s) j) as [kd|] eqn:Hkd; [|discriminate].
    destruct (k_prog kd) as [|a t] eqn:Hp.
    + inversion Ht; subst; clear Ht. cbn [map]. rewrite app_nil_r. unfold PInv. cbn [fst snd].
      split; [rewrite nth_error_upd_ne by exact Hi0; exact P0|]. split.
      * intros Hd. rewrite nth_error_upd_ne; [auto|]. intros Hi1. rewrite Hi1 in Hn. rewrite (P1 Hd) in Hn. discriminate.
      * intros k x Hk Hx. destruct (P2 k x Hk Hx) as (j' & Hj). exists j'. rewrite nth_error_upd_ne; [exact Hj|].
        intros <-. rewrite Hn in Hj. inversion Hj; subst. rewrite Hkd in Hk. inversion Hk; subst. contradiction.
    + destruct (exec (status s) a t kd) as [kd'|] eqn:Hx; [|discriminate]. inversion Ht; subst; clear Ht.
      rewrite (upd_same _ _ _ Hn). cbn [map]. rewrite app_nil_r.
      unfold PInv. cbn [fst snd set_kids pc kids]. repeat split; auto.
      intros k x Hk Hx'. destruct (nth_error_upd_inv _ _ _ _ _ Hk) as [[-> ->]|Hk']; [exists i; exact Hn | eauto].
Qed.

Lemma spinv_reachable o st : order_ok o = true -> reach (spawn_init o) st -> SInv st /\ PInv st.
Proof.
  intros Ho Hr. induction Hr as [|st1 i c st2 e Hr [IS IP] Hg].
  - split; [exact (sinv_init o Ho) | exact (pinv_init o)].
  - split; [exact (sinv_step _ _ _ _ _ IS Hg) | exact (pinv_step _ _ _ _ _ IS IP Hg)].
Qed.

Lemma table_nonempty ks : table_empty ks = false -> exists i k, nth_error ks i = Some k /\ k_in k = true.
Proof.
  induction ks as [|h t IH]; cbn; [discriminate|]. destruct (k_in h) eqn:Hh; cbn.
  - intros _. exists 0%nat, h. split; [reflexivity | exact Hh].
  - intros H. destruct (IH H) as (i & k & Hn & Hk). exists (S i), k. split; assumption.
Qed.

(* When nothing can move any more — every ActorOf has returned, no child that was told to stop is still running, the parent
   has no notice to handle and nothing to check (further spawns and, for a living parent, a request may still arrive) —
   the parent is alive, or it has TERMINATED and no child is registered: the parent never waits for ever (neither
   terminating nor restarting), and no child outlives it. *)
Theorem spawn_nobody_left_behind o st : order_ok o = true -> reach (spawn_init o) st -> final st ->
  (forall k, In k (kids (fst st)) -> returned k) /\
  ((status (fst st) = SAlive /\ pc (fst st) = PIdle) \/
   (status (fst st) = STerminated /\ pc (fst st) = PDead /\ forall k, In k (kids (fst st)) -> k_reg k = false)).
Proof.
  intros Ho Hr Hf. destruct (spinv_reachable o st Ho Hr) as ((_ & Hc & Hk) & (P0 & P1 & P2)).
  destruct st as [s p]. cbn [fst snd] in *. unfold kids_ok in Hk.
  (* no enabled step of thread j with choice c unless it is one of the allowed ones *)
  assert (Stuck : forall j l c r, nth_error p j = Some (Some l) -> sstep s l c = Some r ->
            c = CNew \/ (pc s = PIdle /\ (c = CTerm \/ c = CRestart))).
  { intros j l c [[[s' ol] sp] e] Hn Hs. apply (Hf j c (s', upd j ol p ++ map Some sp) e).
    unfold gstep. cbn [fst snd]. rewrite Hn. cbn [tstep Spawn]. rewrite Hs. reflexivity. }
  assert (Ret : forall i k, nth_error (kids s) i = Some k -> k_prog k = []).
  { intros i k Hi. destruct (k_prog k) as [|a t] eqn:Hp; [reflexivity|]. exfalso.
    destruct (P2 i k Hi) as (j & Hj); [congruence|].
    destruct (kid_ok_enabled _ _ (status s) k a t (Forall_nth_error _ _ _ _ Hk Hi) Hp) as (k' & Hx).
    assert (Hs : sstep s (TSpawn i) CNone = Some (set_kids s (upd i k' (kids s)), Some (TSpawn i), [], EvAct i a)).
    { cbn [sstep]. rewrite Hi, Hp, Hx. reflexivity. }
    destruct (Stuck j _ _ _ Hj Hs) as [H|(_ & [H|H])]; discriminate. }
  assert (NoStop : forall i k, nth_error (kids s) i = Some k -> k_told k = true -> k_reg k = false).
  { intros i k Hi Ht. destruct (k_reg k) eqn:Hreg; [|reflexivity]. exfalso.
    assert (Hs : sstep s TEnv (CStop i) = Some (set_kids s (upd i (stop_kid k) (kids s)), Some TEnv, [], EvStopped i)).
    { cbn [sstep]. rewrite Hi, Ht, Hreg. reflexivity. }
    destruct (Stuck 0%nat _ _ _ P0 Hs) as [H|(_ & [H|H])]; discriminate. }
  split.
  { intros k Hin. destruct (In_nth_error _ _ Hin) as (i & Hi). exact (Ret i k Hi). }
  destruct (pc s) eqn:Hpc.
  - left. split; [|reflexivity]. destruct (status s); cbn in Hc; try discriminate; reflexivity.
  - exfalso. assert (Hd : PSweep <> PDead) by discriminate.
    assert (Hs : sstep s TParent CNone = Some (mk_ssh (order s) (status s) PWait (map sweep_kid (kids s)), Some TParent, [], EvSweep)).
    { cbn [sstep]. rewrite Hpc. reflexivity. }
    destruct (Stuck 1%nat _ _ _ (P1 Hd) Hs) as [H|(H & _)]; discriminate.
  - exfalso. assert (Hd : PWait <> PDead) by discriminate. specialize (P1 Hd).
    assert (Hal : is_alive (status s) = false) by (destruct (status s); cbn in Hc; try discriminate; reflexivity).
    destruct (table_empty (kids s)) eqn:Hte.
    + assert (Hs : sstep s TParent CCheck = Some (set_sp s (status s) PFin, Some TParent, [], EvEmpty)).
      { cbn [sstep]. rewrite Hpc, Hte. reflexivity. }
      destruct (Stuck 1%nat _ _ _ P1 Hs) as [H|(H & _)]; discriminate.
    + destruct (table_nonempty _ Hte) as (i & k & Hi & Hin).
      pose proof (Forall_nth_error _ _ _ _ Hk Hi) as Hok. cbn beta in Hok. rewrite Hal in Hok. cbn [is_sweep] in Hok.
      pose proof (kid_ok_told k Hok (kid_ok_returned _ _ k Hok (Ret i k Hi)) Hin) as Htold.
      pose proof (NoStop i k Hi Htold) as Hreg.
      assert (Hs : sstep s TParent (CNotice i) = Some (set_kids s (upd i (remove_kid k) (kids s)), Some TParent, [], EvNotice i)).
      { cbn [sstep]. rewrite Hpc. unfold notice. rewrite Hi, Hin, Hreg. reflexivity. }
      destruct (Stuck 1%nat _ _ _ P1 Hs) as [H|(H & _)]; discriminate.
  - exfalso. assert (Hd : PFin <> PDead) by discriminate. specialize (P1 Hd).
    destruct (status s) eqn:Hst; cbn in Hc; try discriminate.
    + assert (Hs : sstep s TParent CNone = Some (set_sp s SAlive PIdle, Some TParent, [], EvFinished SAlive)).
      { cbn [sstep]. rewrite Hpc, Hst. reflexivity. }
      destruct (Stuck 1%nat _ _ _ P1 Hs) as [H|(H & _)]; discriminate.
    + assert (Hs : sstep s TParent CNone = Some (set_sp s STerminated PDead, None, [], EvFinished STerminated)).
      { cbn [sstep]. rewrite Hpc, Hst. reflexivity. }
      destruct (Stuck 1%nat _ _ _ P1 Hs) as [H|(H & _)]; discriminate.
  - right. assert (Hst : status s = STerminated) by (destruct (status s); cbn in Hc; try discriminate; reflexivity).
    split; [exact Hst|]. split; [reflexivity|].
    intros k Hin. destruct (In_nth_error _ _ Hin) as (i & Hi).
    destruct (k_reg k) eqn:Hreg; [|reflexivity]. exfalso.
    pose proof (Forall_nth_error _ _ _ _ Hk Hi) as Hok. cbn beta in Hok. rewrite Hst in Hok. cbn [is_alive is_sweep] in Hok.
    pose proof (kid_ok_returned _ _ k Hok (Ret i k Hi)) as Hdec.
    pose proof (kid_ok_told k Hok Hdec (kid_ok_reg_in _ _ k Hok Hdec Hreg)) as Htold.
    rewrite (NoStop i k Hi Htold) in Hreg. discriminate.
Qed.

(* ------------------------------------------------------------------ the orders of the source and of the hoisted read *)
Lemma source_order_ok : order_ok source_order = true. Proof. reflexivity. Qed.
Lemma cached_after_entry_order_ok : order_ok cached_after_entry_order = true. Proof. reflexivity. Qed.
Lemma hoisted_order_not_ok : order_ok hoisted_order = false. Proof. reflexivity. Qed.

(* child 0 has been entered into the table and is running, its ActorOf has returned, nobody told it to stop — and the parent
   is terminating and past its sweep ([w] = true), or has terminated ([w] = false) *)
Definition abandoned (w : bool) (s : ssh) : Prop :=
  (if w then status s = STerminating /\ pc s = PWait else status s = STerminated /\ pc s = PDead) /\
  exists kd, nth_error (kids s) 0 = Some kd /\ returned kd /\ k_in kd = true /\ k_reg kd = true /\ k_told kd = false.

Lemma table_has_entry ks i k : nth_error ks i = Some k -> k_in k = true -> table_empty ks = false.
Proof.
  unfold table_empty. revert i; induction ks as [|h t IH]; intros [|i] H Hk; cbn in *; try discriminate.
  - inversion H; subst. rewrite Hk. reflexivity.
  - rewrite (IH i H Hk). apply andb_false_r.
Qed.

(* ... and that is for ever: no step of anybody (further spawns included) changes it *)
Lemma abandoned_step w (st : state Spawn) i c st' e : abandoned w (fst st) -> gstep st i c = Some (st', e) -> abandoned w (fst st').
Proof.
  destruct st as [s p]. cbn [fst]. intros (Hsp & kd & H0 & Hret & Hin & Hreg & Htold) Hg.
  destruct (sp_gstep_inv _ _ _ _ _ Hg) as (l & s' & ol & sp & _ & Ht & ->). cbn [fst snd] in *. clear Hg.
  assert (Keep : forall k x, k <> 0 -> abandoned w (set_kids s (upd k x (kids s)))).
  { intros k x Hk. split; [exact Hsp|]. exists kd. cbn [set_kids kids]. rewrite nth_error_upd_ne by exact Hk. auto. }
  destruct l as [| |j]; cbn [sstep] in Ht.
  - destruct c; try discriminate.
    + inversion Ht; subst; clear Ht. split; [exact Hsp|]. exists kd. cbn [set_kids kids].
      rewrite (nth_error_app_l _ _ _ _ H0). auto.
    + destruct k as [|k].
      * rewrite H0, Htold in Ht. discriminate.
      * destruct (nth_error (kids s) (S k)); [|discriminate]. destruct (k_told k0 && k_reg k0); [|discriminate].
        inversion Ht; subst; clear Ht. exact (Keep (S k) (stop_kid k0) (Nat.neq_succ_0 k)).
  - destruct w; destruct Hsp as [Hs Hp]; rewrite Hp in Ht; [|discriminate].
    destruct c; try discriminate.
    + rewrite Hs in Ht. discriminate.
    + unfold notice in Ht. destruct k as [|k].
      * rewrite H0, Hin, Hreg in Ht. discriminate.
      * destruct (nth_error (kids s) (S k)); [|discriminate]. destruct (k_in k0 && negb (k_reg k0)); [|discriminate].
        inversion Ht; subst; clear Ht. exact (Keep (S k) (remove_kid k0) (Nat.neq_succ_0 k)).
    + rewrite (table_has_entry _ _ _ H0 Hin) in Ht. discriminate.
  - destruct j as [|j].
    + rewrite H0 in Ht. unfold returned in Hret. rewrite Hret in Ht. inversion Ht; subst; clear Ht.
      split; [exact Hsp|]. exists kd. auto.
    + destruct (nth_error (kids s) (S j)) as [kd1|]; [|discriminate]. destruct (k_prog kd1) as [|a t].
      * inversion Ht; subst; clear Ht. split; [exact Hsp|]. exists kd. auto.
      * destruct (exec (status s) a t kd1) as [kd2|]; [|discriminate]. inversion Ht; subst; clear Ht.
        exact (Keep (S j) kd2 (Nat.neq_succ_0 j)).
Qed.

Lemma abandoned_for_ever w (st st' : state Spawn) : abandoned w (fst st) -> reach st st' -> abandoned w (fst st').
Proof. intros H Hr. induction Hr; [exact H | eapply abandoned_step; eauto]. Qed.

(* the status read hoisted to the top of ActorOf: one spawn, one terminate request *)
Definition hoisted_waiting_schedule : list (nat * schoice) :=
  [(0, CNew);                                            (* a goroutine calls ActorOf (thread 2, child 0) *)
   (2, CNone);                                           (* spawner: adopting := parent.status.Load() == alive   -> true *)
   (1, CTerm); (1, CNone);                               (* parent: takes up a terminate request ; sweep over an empty table *)
   (2, CNone); (2, CNone); (2, CNone); (2, CNone);       (* spawner: Register ; table entry ; OnLaunch ; if !adopting {..}: no request *)
   (2, CNone)]%nat.                                      (* ActorOf returns *)
Definition hoisted_terminated_schedule : list (nat * schoice) :=
  [(0, CNew); (2, CNone);
   (1, CTerm); (1, CNone); (1, CCheck); (1, CNone);      (* parent: request ; sweep ; table empty ; status := terminated *)
   (2, CNone); (2, CNone); (2, CNone); (2, CNone); (2, CNone)]%nat.
Definition hoisted_restart_schedule : list (nat * schoice) :=
  [(0, CNew); (2, CNone); (1, CRestart); (1, CNone); (2, CNone); (2, CNone); (2, CNone); (2, CNone); (2, CNone)]%nat.

(* the parent is terminating FOR EVER: it waits for a child that nobody told to stop (Shutdown hangs) *)
Theorem hoisted_read_parent_waits_for_ever :
  exists st, reach (spawn_init hoisted_order) st /\ snd st = [Some TEnv; Some TParent; None] /\
    forall st', reach st st' ->
      status (fst st') = STerminating /\
      exists kd, nth_error (kids (fst st')) 0 = Some kd /\ returned kd /\ k_in kd = true /\ k_reg kd = true /\ k_told kd = false.
Proof.
  destruct (run (spawn_init hoisted_order) hoisted_waiting_schedule) as [[st es]|] eqn:E; [|vm_compute in E; discriminate].
  exists st. split; [eapply run_reach; [apply reach_init | exact E]|].
  vm_compute in E. inversion E; subst; clear E. split; [reflexivity|].
  intros st' Hr.
  match type of Hr with reach ?st0 _ => assert (Ha : abandoned true (fst st0)) end.
  { split; [split; reflexivity|]. eexists. split; [reflexivity|]. repeat split; reflexivity. }
  destruct (abandoned_for_ever true _ st' Ha Hr) as ([Hs _] & Hk). split; [exact Hs | exact Hk].
Qed.

(* the parent has terminated (Shutdown has returned) and the child is registered and running FOR EVER *)
Theorem hoisted_read_child_outlives_parent :
  exists st, reach (spawn_init hoisted_order) st /\ snd st = [Some TEnv; None; None] /\
    forall st', reach st st' ->
      status (fst st') = STerminated /\
      exists kd, nth_error (kids (fst st')) 0 = Some kd /\ returned kd /\ k_in kd = true /\ k_reg kd = true /\ k_told kd = false.
Proof.
  destruct (run (spawn_init hoisted_order) hoisted_terminated_schedule) as [[st es]|] eqn:E; [|vm_compute in E; discriminate].
  exists st. split; [eapply run_reach; [apply reach_init | exact E]|].
  vm_compute in E. inversion E; subst; clear E. split; [reflexivity|].
  intros st' Hr.
  match type of Hr with reach ?st0 _ => assert (Ha : abandoned false (fst st0)) end.
  { split; [split; reflexivity|]. eexists. split; [reflexivity|]. repeat split; reflexivity. }
  destruct (abandoned_for_ever false _ st' Ha Hr) as ([Hs _] & Hk). split; [exact Hs | exact Hk].
Qed.

(* the same window against a restart: the parent stays restarting — suspended — with a child nobody told to stop in its
   table (only a later terminate request to the parent itself would sweep again) *)
Theorem hoisted_read_restart_never_completes :
  exists st, reach (spawn_init hoisted_order) st /\ snd st = [Some TEnv; Some TParent; None] /\
    status (fst st) = SRestarting /\ pc (fst st) = PWait /\
    (exists kd, kids (fst st) = [kd] /\ returned kd /\ k_in kd = true /\ k_reg kd = true /\ k_told kd = false) /\
    forall j c st' e, gstep st j c = Some (st', e) -> c = CNew \/ c = CTerm.
Proof.
  destruct (run (spawn_init hoisted_order) hoisted_restart_schedule) as [[st es]|] eqn:E; [|vm_compute in E; discriminate].
  exists st. split; [eapply run_reach; [apply reach_init | exact E]|].
  vm_compute in E. inversion E; subst; clear E. cbn [fst snd].
  split; [reflexivity|]. split; [reflexivity|]. split; [reflexivity|].
  split; [eexists; split; [reflexivity|]; repeat split; reflexivity|].
  intros j c st' e Hg. destruct (sp_gstep_inv _ _ _ _ _ Hg) as (l & s' & ol & sp & Hn & Ht & _). cbn [fst snd] in *.
  destruct j as [|[|[|j]]]; cbn in Hn; try discriminate.
  - inversion Hn; subst. destruct c; cbn in Ht; try discriminate; auto.
    destruct k as [|[|k]]; discriminate.
  - inversion Hn; subst. destruct c; cbn in Ht; try discriminate; auto.
    destruct k as [|[|k]]; discriminate.
  - destruct j; discriminate.
Qed.

(* non-vacuity: the SAME interleavings on the order of the source — the late check sees the parent terminating /
   terminated and sends the request; the child stops, the parent's table empties, the parent finishes; nothing is registered *)
Example source_order_same_window_waiting :
  exists st es, run (spawn_init source_order)
    ([(0, CNew); (1, CTerm); (1, CNone); (2, CNone); (2, CNone); (2, CNone); (2, CNone); (2, CNone); (2, CNone);
      (0, CStop 0); (1, CNotice 0); (1, CCheck); (1, CNone)])%nat = Some (st, es) /\
    status (fst st) = STerminated /\ snd st = [Some TEnv; None; None] /\
    (exists kd, kids (fst st) = [kd] /\ returned kd /\ k_told kd = true /\ k_reg kd = false /\ k_in kd = false /\ k_launched kd = true) /\
    final st.
Proof.
  eexists. eexists. split; [vm_compute; reflexivity|]. cbn [fst snd].
  split; [reflexivity|]. split; [reflexivity|]. split; [eexists; split; [reflexivity|]; repeat split; reflexivity|].
  intros j c st' e Hg. destruct (sp_gstep_inv _ _ _ _ _ Hg) as (l & s' & ol & sp & Hn & Ht & _). cbn [fst snd] in *.
  destruct j as [|[|[|j]]]; cbn in Hn; try discriminate.
  - inversion Hn; subst. destruct c; cbn in Ht; try discriminate; auto.
    destruct k as [|[|k]]; discriminate.
  - destruct j; discriminate.
Qed.

Example source_order_same_window_terminated :
  exists st es, run (spawn_init source_order)
    ([(0, CNew); (1, CTerm); (1, CNone); (1, CCheck); (1, CNone);
      (2, CNone); (2, CNone); (2, CNone); (2, CNone); (2, CNone); (2, CNone); (0, CStop 0)])%nat = Some (st, es) /\
    status (fst st) = STerminated /\ snd st = [Some TEnv; None; None] /\
    exists kd, kids (fst st) = [kd] /\ returned kd /\ k_told kd = true /\ k_reg kd = false.
Proof.
  eexists. eexists. split; [vm_compute; reflexivity|]. cbn [fst snd].
  split; [reflexivity|]. split; [reflexivity|]. eexists; split; [reflexivity|]; repeat split; reflexivity.
Qed.
